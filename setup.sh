#!/bin/sh
# MANIFEST.setup_cmd: offline; everything the checks need is rebuilt by the checks themselves from /repo's
# working tree into scratch directories.  Here: sanity of the tool chain + native self-tests of the oracles.
set -e
cd "$(dirname "$0")"
for t in cbmc goto-cc goto-instrument gcc python3 objdump z3; do command -v $t >/dev/null || { echo "missing tool: $t"; exit 1; }; done
mkdir -p evidence replays
for s in ref/*_selftest.py; do [ -f "$s" ] && python3 "$s" -n 400; done
echo "setup ok"
