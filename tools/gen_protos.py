#!/usr/bin/env python3
"""gen_protos.py -- prototype enumeration for C05 / C06 (the configuration space), deterministic from VERIF_SEED.

A prototype is  (result types, argument list, number of NAMED arguments, vararg flag).
Alphabet of argument types (19):
   i8 u8 i16 u16 i32 u32 i64 u64 p f d ld blk0:24 blk1:8 blk1:16 blk2:16 blk3:16 blk4:16 rblk

Enumeration (what is pruned is stated here and copied into the evidence):
  * every sequence of 0, 1 and 2 arguments over the full alphabet (1 + 19 + 361);
  * sequences of 3 arguments (quick, thorough) over the REDUCED alphabet of 12 letters
        N W f d ld blk0:24 blk1:8 blk1:16 blk2:16 blk3:16 blk4:16 rblk
    where N stands for one of the six narrow integer types and W for one of i64 u64 p.  All nine are class
    INTEGER and differ only in the narrowing/extension of that one argument, which does not depend on the
    other arguments; N and W are instantiated round-robin (start offset = VERIF_SEED), so every concrete integer
    type occurs at every position many times, but not in every combination with every neighbour;
  * sequences of 4 arguments (thorough) over the 8 letters  I F ld blk0:24 B1 blk2:16 B34 rblk  with I = any of the
    nine integer types, F = f|d, B1 = blk1:8|blk1:16, B34 = blk3:16|blk4:16, again instantiated round-robin
    (12^4 = 20736 sequences x 2 twins x 5 legs did not fit the time budget);
  * `nlong` seeded long prototypes (7..20 arguments) built from shapes that exhaust the 6 general and the 8
    vector registers in every order (ints first, fps first, interleaved, register blocks at the boundary, long
    doubles after an odd / even number of stack words), then filled with random letters;
  * result lists: all 157 lists of 0..2 results over {i8..u64,p,f,d,ld} are assigned round-robin to the
    argument sequences (argument passing and result passing are separate loops in every implementation under
    test; the cross product is not enumerated), plus the explicit multi-result lists of MULTI_RES (3..6 results);
  * every argument sequence is used twice: as a fixed prototype and as a variadic one (`...`): the first j
    arguments stay named (j round-robin over 0..n), the tail is mapped to the types a variadic argument can
    have (integers and rblk -> i64, f -> d; ld and blocks stay).

Library use: cases(tier, seed) -> list of dicts; emit_protos_txt(); emit_cases_h().
CLI: gen_protos.py <tier> [--count]  prints the enumeration.
"""
import itertools
import os
import random
import sys

NARROW = ["i8", "u8", "i16", "u16", "i32", "u32"]
WIDE = ["i64", "u64", "p"]
REST = ["f", "d", "ld", "blk0:24", "blk1:8", "blk1:16", "blk2:16", "blk3:16", "blk4:16", "rblk"]
ALPHA = NARROW + WIDE + REST
REDUCED = ["N", "W"] + REST
REDUCED4 = ["I", "F", "ld", "blk0:24", "B1", "blk2:16", "B34", "rblk"]
RES_ALPHA = NARROW + WIDE + ["f", "d", "ld"]
MULTI_RES = [["i64", "i64", "d"], ["d", "i32", "d", "u8"], ["ld", "i64", "ld"], ["i64", "d", "ld", "i64", "d", "ld"],
             ["f", "f", "i16", "p"], ["ld", "ld", "d", "d", "i64", "i64"], ["u32", "ld", "f"]]
SC = {"i8": "SC_I8", "u8": "SC_U8", "i16": "SC_I16", "u16": "SC_U16", "i32": "SC_I32", "u32": "SC_U32", "i64": "SC_I64",
      "u64": "SC_U64", "p": "SC_P", "f": "SC_F", "d": "SC_D", "ld": "SC_LD", "blk0": "SC_BLK0", "blk1": "SC_BLK1",
      "blk2": "SC_BLK2", "blk3": "SC_BLK3", "blk4": "SC_BLK4", "rblk": "SC_RBLK"}


def split(a):
    """'blk1:16' -> ('blk1', 16); 'i32' -> ('i32', 0); 'rblk' -> ('rblk', 32)"""
    if ":" in a:
        t, s = a.split(":")
        return t, int(s)
    return a, (32 if a == "rblk" else 0)


def is_int(t):
    return t in NARROW or t in WIDE or t == "rblk"


def is_blk(t):
    return t.startswith("blk")


def variadic_type(a):
    t, _ = split(a)
    if t in NARROW or t in WIDE or t == "rblk":  # MIR rejects an rblk operand for an unnamed parameter: a pointer is passed
        return "i64"
    if t == "f":
        return "d"
    return a


def res_lists():
    out = [[]]
    out += [[a] for a in RES_ALPHA]
    out += [[a, b] for a in RES_ALPHA for b in RES_ALPHA]
    return out


class Rot:
    def __init__(self, seed):
        self.n = seed
        self.w = seed
        self.k = {"I": seed, "F": seed, "B1": seed, "B34": seed}

    ALT = {"I": NARROW + WIDE, "F": ["f", "d"], "B1": ["blk1:8", "blk1:16"], "B34": ["blk3:16", "blk4:16"]}

    def inst(self, seq):
        out = []
        for a in seq:
            if a == "N":
                out.append(NARROW[self.n % 6]); self.n += 1
            elif a == "W":
                out.append(WIDE[self.w % 3]); self.w += 1
            elif a in self.ALT:
                out.append(self.ALT[a][self.k[a] % len(self.ALT[a])]); self.k[a] += 1
            else:
                out.append(a)
        return out


def long_shapes(rng, n):
    """n long prototypes; each starts from a shape that overflows the register files"""
    shapes = []
    I, F = "i64", "d"
    base = [
        [I] * 7 + [F] * 9,                  # ints first, then fps
        [F] * 9 + [I] * 7,                  # fps first
        [I, F] * 9,                         # interleaved
        [F, I] * 8 + ["ld", I, F],
        [I] * 5 + ["blk1:16", I, I, "blk1:8"],            # register block that does not fit -> memory, later int still gets r9
        [F] * 7 + ["blk2:16", F, F, "blk2:16"],
        [I] * 6 + ["blk3:16", F, I],                      # int regs exhausted, vector regs free
        [F] * 8 + ["blk4:16", I, F],                      # vector regs exhausted
        [I] * 5 + [F] * 7 + ["blk3:16", "blk4:16", I, F],
        [I] * 7 + ["ld", I, "ld", "ld", I],               # long double after an odd / even number of stack words
        [I] * 6 + ["blk0:24", "ld", I, "blk0:24", F],
        ["ld", "blk0:24", "ld"] + [I] * 7 + ["ld"],
        ["rblk"] + [I] * 5 + ["rblk", "p", "rblk"],
        ["i8", "u8", "i16", "u16", "i32", "u32", "i8", "u8", "i16", "u16", "i32", "u32"],  # narrow ints in registers and on the stack
        ["f"] * 10 + ["i32"] * 8,
        ["blk1:16"] * 4 + ["blk2:16"] * 5,
    ]
    for k in range(n):
        s = list(base[k % len(base)])
        if k >= len(base):  # perturb: random insertions / replacements, bounded to 20 arguments
            for _ in range(rng.randrange(1, 6)):
                pos = rng.randrange(0, len(s) + 1)
                s.insert(pos, rng.choice(ALPHA))
            if rng.random() < 0.5:
                rng.shuffle(s)
        shapes.append(s[:20])
    return shapes


def cases(tier, seed=0, nlong=None):
    rng = random.Random(seed * 7919 + 17)
    rot = Rot(seed)
    seqs = [[]]
    seqs += [[a] for a in ALPHA]
    seqs += [[a, b] for a in ALPHA for b in ALPHA]
    for t in itertools.product(REDUCED, repeat=3):
        seqs.append(rot.inst(t))
    if tier == "thorough":
        for t in itertools.product(REDUCED4, repeat=4):
            seqs.append(rot.inst(t))
    if nlong is None:
        nlong = 40 if tier == "quick" else 200
    seqs += long_shapes(rng, nlong)
    rl = res_lists()
    out = []
    k = seed
    for si, s in enumerate(seqs):
        for var in (0, 1):
            res = rl[(k * 37 + 11) % len(rl)]
            if k % 53 == 0:
                res = MULTI_RES[(k // 53) % len(MULTI_RES)]
            n = len(s)
            if var:
                j = k % (n + 1)
                args = s[:j] + [variadic_type(a) for a in s[j:]]
            else:
                j, args = n, list(s)
            out.append({"name": "c%05d" % len(out), "res": res, "args": args, "nnamed": j, "vararg": var, "long": n > 4})
            k += 1
    return out


KIND_PRIORITY = ["blk3", "blk4", "blk1", "ld", "blk2", "blk0", "rblk", "fp", "int"]


def kinds(c):
    """coarse feature of a case = the first of KIND_PRIORITY among its argument kinds; used only to PACK cases into
    obligations, so that a defect tied to one kind of argument shows up in few, named groups"""
    ks = set()
    for a in c["args"]:
        t, _ = split(a)
        ks.add("int" if t in NARROW or t in WIDE else "fp" if t in ("f", "d") else t)
    for k in KIND_PRIORITY:
        if k in ks:
            return ("long_" if c.get("long") else "") + k
    return "void"


def describe(c):
    return "%s <- (%s%s)" % (",".join(c["res"]) or "void",
                             ", ".join(a + ("" if i < c["nnamed"] else "~") for i, a in enumerate(c["args"])),
                             ", ..." if c["vararg"] else "")


def proto_line(c):
    """one line of mirgen-dump --trampolines input"""
    args = ",".join(a if not a.startswith("rblk") else "rblk:32" for a in c["args"]) or "-"
    return "%s %s %s" % (c["name"], ",".join(c["res"]) or "-", args)


def case_init(c, addr_macro):
    args = ", ".join("{%s, %d}" % (SC[split(a)[0]], split(a)[1]) for a in c["args"])
    res = ", ".join(SC[r] for r in c["res"])
    va = c.get("va", [])
    extra = ", %d, %d, %d, %d, {%s}, %s" % (c.get("k_live", 0), c.get("alloca", 0), c.get("has_call", 0), len(va),
                                          ", ".join(SC[t] for t in va) or "0", c.get("aux", "0"))
    return '{"%s: %s", %s, %d, {%s}, %d, %d, %d, {%s}%s}' % (c["name"], describe(c) + c.get("note", ""), addr_macro, len(c["res"]), res or "0",
                                                             len(c["args"]), c["nnamed"], c["vararg"], args or "{0, 0}", extra)


def emit_cases_h(path, cs, groups, runner, addr_fmt):
    """cases table + one entry function per group.  groups: [(group name, [case,...])]"""
    with open(path, "w") as f:
        f.write("/* generated by tools/gen_protos.py -- do not edit */\n")
        for c in cs:
            f.write("static const h_case_t h_c_%s = %s;\n" % (c["name"], case_init(c, addr_fmt % c["name"].upper())))
        for g, members in groups:
            f.write("void %s (void) {\n" % g)
            for c in members:
                f.write('  %s (&h_c_%s); H_WITNESS ("%s end reached");\n' % (runner, c["name"], c["name"]))
            f.write("}\n")


def pack(cs, per_group, prefix):
    """pack cases into groups of <= per_group with the same feature set"""
    by = {}
    for c in cs:
        by.setdefault(kinds(c), []).append(c)
    groups = []
    for kind in sorted(by):
        m = by[kind]
        for i in range(0, len(m), per_group):
            groups.append(("%s_%s_%d" % (prefix, kind.replace("+", "_"), i // per_group), m[i:i + per_group], kind))
    return groups


# ---------------------------------------------------------------------------------------------------
# MIR text for the generated-code legs

def mir_loc_type(a):
    t, _ = split(a)
    return t if t in ("f", "d", "ld") else "i64"


def proto_text(c, pname):
    parts = list(c["res"])
    for i, a in enumerate(c["args"][:c["nnamed"]]):
        t, sz = split(a)
        parts.append("%s:%d(a%d)" % (t, sz, i) if (is_blk(t) or t == "rblk") else "%s:a%d" % (t, i))
    if c["vararg"]:
        parts.append("...")
    return "%s: proto %s" % (pname, ", ".join(parts))


MOV = {"i64": "mov", "f": "fmov", "d": "dmov", "ld": "ldmov"}


def emit_gen_mir(path, cs):
    """C05 (b): f_<case>(base) loads the arguments from base + 16*i, calls ext0 through p_<case>, stores the results at base + 512 + 16*j"""
    with open(path, "w") as f:
        f.write("m: module\nimport ext0\n")
        for c in cs:
            n = c["name"]
            f.write(proto_text(c, "p_" + n) + "\n")
            f.write("f_%s: func i64:base\n" % n)
            loc = ["%s:x%d" % (mir_loc_type(a), i) for i, a in enumerate(c["args"])]
            loc += ["%s:r%d" % (mir_loc_type(r), j) for j, r in enumerate(c["res"])]
            if loc:
                f.write("  local " + ", ".join(loc) + "\n")
            ops = []
            for i, a in enumerate(c["args"]):
                t, sz = split(a)
                lt = mir_loc_type(a)
                if is_blk(t) or t == "rblk":
                    f.write("  add x%d, base, %d\n" % (i, 1024 + 64 * i))
                    ops.append("%s:%d(x%d)" % (t, sz, i))
                else:
                    f.write("  %s x%d, %s:%d(base)\n" % (MOV[lt], i, lt, 16 * i))
                    ops.append("x%d" % i)
            res = ["r%d" % j for j in range(len(c["res"]))]
            f.write("  call " + ", ".join(["p_" + n, "ext0"] + res + ops) + "\n")
            for j, r in enumerate(c["res"]):
                lt = mir_loc_type(r)
                f.write("  %s %s:%d(base), r%d\n" % (MOV[lt], lt, 512 + 16 * j, j))
            f.write("  ret\nendfunc\n")
        f.write("endmodule\n")


# C06: definition side.  Layout of the module's bss item `buf` (harness/C06/callee.c uses the same numbers):
CB_PARAM, CB_LIVE_IN, CB_ASIZE, CB_PAT, CB_AADDR, CB_READBACK, CB_LIVE_OUT, CB_RES, CB_BLK, CB_SIZE = 0, 512, 760, 768, 784, 792, 832, 1008, 1280, 3072
VARIANTS = [(0, 0, 0), (0, 0, 1), (8, 0, 1), (20, 0, 1), (0, 1, 1), (8, 1, 1), (20, 2, 1), (0, 2, 1), (8, 2, 1), (20, 1, 1)]  # (k live, alloca mode, has call)
ALLOCA_CONST = 32


def func_text_head(c, fname):
    parts = list(c["res"])
    for i, a in enumerate(c["args"][:c["nnamed"]]):
        t, sz = split(a)
        parts.append("%s:%d(a%d)" % (t, sz, i) if (is_blk(t) or t == "rblk") else "%s:a%d" % (t, i))
    if c["vararg"]:
        parts.append("...")
    return "%s: func %s" % (fname, ", ".join(parts))


def assign_variants(cs):
    for i, c in enumerate(cs):
        c["k_live"], c["alloca"], c["has_call"] = VARIANTS[i % len(VARIANTS)]
        c["note"] = " [live %d, alloca %s, %s]" % (c["k_live"], ("none", "const", "variable")[c["alloca"]], "calls" if c["has_call"] else "leaf")
    return cs


def emit_callee_mir(path, cs):
    """C06: f_<case> stores every named parameter into buf, keeps k values live across a call of ext1, allocas, returns values loaded from buf"""
    with open(path, "w") as f:
        f.write("m: module\nimport ext1\np_v: proto\nbuf: bss %d\n" % CB_SIZE)
        for c in cs:
            n, k = c["name"], c["k_live"]
            f.write(func_text_head(c, "f_" + n) + "\n")
            loc = ["i64:base", "i64:t", "i64:al", "i64:pz"] + ["i64:v%d" % j for j in range(k)]
            loc += ["%s:r%d" % (mir_loc_type(r), j) for j, r in enumerate(c["res"])]
            f.write("  local " + ", ".join(loc) + "\n  mov base, buf\n")
            for i, a in enumerate(c["args"][:c["nnamed"]]):
                t, sz = split(a)
                lt = mir_loc_type(a)
                if is_blk(t):
                    f.write("  mov i64:%d(base), a%d\n" % (CB_PARAM + 16 * i, i))
                    for w in range((sz + 7) // 8):
                        f.write("  mov t, i64:%d(a%d)\n  mov i64:%d(base), t\n" % (8 * w, i, CB_BLK + 64 * i + 8 * w))
                else:
                    f.write("  %s %s:%d(base), a%d\n" % (MOV[lt], lt, CB_PARAM + 16 * i, i))
            for j in range(k):
                f.write("  mov v%d, i64:%d(base)\n" % (j, CB_LIVE_IN + 8 * j))
            if c["alloca"] == 1:
                f.write("  alloca al, %d\n" % ALLOCA_CONST)
            elif c["alloca"] == 2:
                f.write("  mov pz, i64:%d(base)\n  alloca al, pz\n" % CB_ASIZE)
            if c["alloca"]:
                f.write("  mov t, i64:%d(base)\n  mov i64:0(al), t\n  mov t, i64:%d(base)\n  mov i64:8(al), t\n" % (CB_PAT, CB_PAT + 8))
                f.write("  mov i64:%d(base), al\n" % CB_AADDR)
            if c["has_call"]:
                f.write("  call p_v, ext1\n")
            if c["alloca"]:
                f.write("  mov t, i64:0(al)\n  mov i64:%d(base), t\n  mov t, i64:8(al)\n  mov i64:%d(base), t\n" % (CB_READBACK, CB_READBACK + 8))
            for j in range(k):
                f.write("  mov i64:%d(base), v%d\n" % (CB_LIVE_OUT + 8 * j, j))
            for j, r in enumerate(c["res"]):
                lt = mir_loc_type(r)
                f.write("  %s r%d, %s:%d(base)\n" % (MOV[lt], j, lt, CB_RES + 16 * j))
            f.write("  ret " + ", ".join("r%d" % j for j in range(len(c["res"]))) + "\nendfunc\n")
        f.write("endmodule\n")


# C06: variadic consumers
VA_TAILS = [["i64", "i64"], ["d", "d"], ["i64", "d", "ld"], ["ld", "i64", "d"], ["d", "i64", "i64"]]


VA_BLOCK_NAMED = [  # named parameter lists with by-value blocks (register class, memory class, size not a multiple of 8, fallen to memory)
    ("blk1r", ["i64", "blk1:16"]), ("blk1m", ["i64"] * 5 + ["blk1:16"]), ("blk0", ["blk0:24", "i64"]), ("blk0odd", ["i64", "blk0:12"]), ("blk0odd6", ["i64"] * 6 + ["blk0:12"]),
    ("blk2r", ["blk2:16", "d"]), ("blk3r", ["i64", "blk3:16"]), ("blk4r", ["d", "blk4:16", "i64"]), ("ld", ["i64"] * 7 + ["ld"]), ("ld2", ["ld", "i64"]),
]


def va_cases(tier, seed=0):
    """named arguments: n_int x i64 followed by n_fp x d (and the reverse order for mixed ones), or a list of VA_BLOCK_NAMED,
    then a variadic tail read back with va_arg"""
    # MIR text cannot declare a variadic function without a named parameter, so (0, 0) does not exist
    shapes = [(ni, 0) for ni in range(1, 10)] + [(0, nf) for nf in range(1, 10)]
    shapes += [(5, 7), (6, 8), (7, 9), (3, 3), (6, 1), (1, 8), (5, 8), (6, 7), (9, 9)]
    if tier == "thorough":
        shapes = [(ni, nf) for ni in range(10) for nf in range(10) if ni + nf > 0]
    tails = VA_TAILS if tier == "thorough" else VA_TAILS[:4]
    out = []
    for (ni, nf) in shapes:
        orders = [["i64"] * ni + ["d"] * nf]
        if ni and nf:
            orders.append(["d"] * nf + ["i64"] * ni)
        for oi, named in enumerate(orders):
            for ti, tail in enumerate(tails):
                out.append({"name": "v%d_%d_%d_%d" % (ni, nf, oi, ti), "res": ["i64"], "args": named + tail, "nnamed": len(named), "vararg": 1,
                            "va": tail, "group": "int%d_fp%d" % (ni, nf)})
    for gname, named in VA_BLOCK_NAMED:
        for ti, tail in enumerate(tails):
            out.append({"name": "v%s_%d" % (gname, ti), "res": ["i64"], "args": named + tail, "nnamed": len(named), "vararg": 1,
                        "va": tail, "group": gname})
    return out


def emit_va_mir(path, cs):
    with open(path, "w") as f:
        f.write("m: module\nbuf: bss %d\n" % CB_SIZE)
        for c in cs:
            f.write(func_text_head(c, "f_" + c["name"]) + "\n")
            f.write("  local i64:base, i64:va, i64:p, i64:t, d:dt, ld:lt\n  mov base, buf\n  alloca va, 32\n  va_start va\n")
            for j, t in enumerate(c["va"]):
                f.write("  va_arg p, va, %s:0\n" % t)
                if t == "i64":
                    f.write("  mov t, i64:(p)\n  mov i64:%d(base), t\n" % (16 * j))
                elif t == "d":
                    f.write("  dmov dt, d:(p)\n  dmov d:%d(base), dt\n" % (16 * j))
                else:
                    f.write("  ldmov lt, ld:(p)\n  ldmov ld:%d(base), lt\n" % (16 * j))
            f.write("  va_end va\n  ret 0\nendfunc\n")
        f.write("endmodule\n")


if __name__ == "__main__":
    tier = sys.argv[1] if len(sys.argv) > 1 else "quick"
    cs = cases(tier, int(os.environ.get("VERIF_SEED", "0") or 0))
    if "--count" in sys.argv:
        print(len(cs))
    else:
        for c in cs:
            print(c["name"], describe(c))
