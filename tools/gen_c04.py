#!/usr/bin/env python3
"""Generate the C04 corpus families (one .mir file per family, one module per scenario), deterministic from VERIF_SEED.

usage: gen_c04.py OUTDIR TIER
Dimensions (from the property text): callee size just below / above the inlining thresholds (`call`: MIR_MAX_INSNS_FOR_CALL_INLINE,
`inline`: MIR_MAX_INSNS_FOR_INLINE, growth limit), call vs inline, chains and recursion, alloca (constant / variable / in a loop /
adjacent / none) in callee and caller, block arguments of each passing class and sizes 1..24 and rblk, 0-2 results of each narrow type,
multiple rets, labels/branches/switch in the callee, narrow parameters, jump-threading shapes, operands that need lowering.
Annotations: `#@ entry mod.func arg=spec..` (tools/mir2ref.py) and `#@ expect mod.func calls=N` (call insns left after the real link)."""
import os
import random
import re
import sys

REPO = os.environ.get("VERIF_REPO", "/repo")


def thresholds():
    src = open(os.path.join(REPO, "mir.c")).read()
    t = {}
    for n in ("MIR_MAX_INSNS_FOR_INLINE", "MIR_MAX_INSNS_FOR_CALL_INLINE", "MIR_MAX_FUNC_INLINE_GROWTH"):
        m = re.search(r"#define %s (\d+)" % n, src)
        t[n] = int(m.group(1)) if m else None
    return t


class Fam:
    """one family; written as several unit files of at most MAXMOD modules (small units keep goto binaries and - for a failing
    obligation - CBMC's counterexample trace small: trace building is superlinear in the size of the static data of the unit)"""
    MAXMOD = 5

    def __init__(self, name, opts=""):
        self.name = name
        self.opts = opts
        self.mods = []
        self.solos = []
        self.n = 0

    def module(self, name, body, entries, expects=(), solo=False):
        self.n += 1
        lines = []
        for e in entries:
            lines.append("#@ entry %s.%s" % (name, e))
        for e in expects:
            lines.append("#@ expect %s.%s" % (name, e))
        lines.append("%s: module" % name)
        lines += body
        lines.append("  endmodule")
        if solo:
            self.solos.append((name, lines))
        else:
            self.mods.append(lines)

    def write(self, outdir):
        groups = [(str(k // self.MAXMOD), self.mods[k:k + self.MAXMOD]) for k in range(0, len(self.mods), self.MAXMOD)] + [("_" + n, [m]) for n, m in self.solos]
        for k, g in groups:
            lines = ["# C04 generated family %s part %s (tools/gen_c04.py, seed %s)" % (self.name, k.strip("_"), os.environ.get("VERIF_SEED", "0"))]
            if self.opts:
                lines.append("#@ unit " + self.opts)
            for m in g:
                lines += m
            open(os.path.join(outdir, "%s%s.mir" % (self.name, k)), "w").write("\n".join(lines) + "\n")


def chain_body(n, regs=("r", "a", "b")):
    """n register-only insns (no lowering, so the callee has exactly n + 1 insns with the ret).  Bitwise operations only:
    carry chains repeated on three legs make the equivalence SAT-hard, and arithmetic is C02's subject, not C04's."""
    pat = ["xor %(r)s, %(r)s, %(a)s", "or %(r)s, %(r)s, %(b)s", "xor %(r)s, %(r)s, %(b)s", "ext32 %(r)s, %(r)s", "and %(r)s, %(r)s, %(a)s", "xor %(r)s, %(r)s, %(b)s",
           "uext16 %(r)s, %(r)s", "or %(r)s, %(r)s, %(a)s", "xor %(r)s, %(r)s, %(b)s", "xor %(r)s, %(r)s, %(a)s", "ext8 %(r)s, %(r)s"]
    d = {"r": regs[0], "a": regs[1], "b": regs[2]}
    return ["  " + pat[i % len(pat)] % d for i in range(n)]


def fam_thresholds(rnd, tier):
    t = thresholds()
    f = Fam("thresholds", "steps=450")
    ci, ii = t["MIR_MAX_INSNS_FOR_CALL_INLINE"], t["MIR_MAX_INSNS_FOR_INLINE"]
    for kind, lim in (("call", ci), ("inline", ii)):
        for delta in (0, 1):
            n = lim + delta  # callee insns incl. ret
            name = "th_%s_%d" % (kind, n)
            body = ["p: proto i64, i64:a, i64:b", "g: func i64, i64:a, i64:b", "  local i64:r", "  mov r, a"] + chain_body(n - 2) + ["  ret r", "  endfunc",
                    "f: func i64, i64:x, i64:y", "  local i64:t", "  %s p, g, t, x, y" % kind, "  add t, t, %d" % rnd.randint(1, 1000), "  ret t", "  endfunc"]
            f.module(name, body, ["f"], ["f calls=%d" % delta])
    # growth limit: the caller stops inlining once it has grown past both limits
    body = ["p: proto i64, i64:a, i64:b", "g: func i64, i64:a, i64:b", "  local i64:r", "  mov r, a"] + chain_body(28) + ["  ret r", "  endfunc",
            "f: func i64, i64:x, i64:y", "  local i64:t"]
    for i in range(9):
        body.append("  inline p, g, %s, %s, y" % ("t", "x" if i == 0 else "t"))
    body += ["  ret t", "  endfunc"]
    f.module("th_growth", body, ["f"], ["f calls>=1"])
    return f


def fam_chains(rnd, tier):
    f = Fam("chains", "steps=400 depth=3 regs=128")
    k1, k2, k3 = rnd.randint(1, 99), rnd.randint(100, 999), rnd.randint(1000, 9999)
    fa = ["a: func i64, i64:x, i64:y", "  local i64:t, i64:u", "  call pb, b, t, x, y", "  call pb, b, u, y, t", "  xor t, t, u", "  add t, t, %d" % k1, "  ret t", "  endfunc"]
    fb = ["b: func i64, i64:x, i64:y", "  local i64:t", "  inline pc, c, t, x", "  xor t, t, y", "  call pc, c, t, t", "  ret t", "  endfunc"]
    fc = ["c: func i64, i64:x", "  local i64:r", "  lsh r, x, 3", "  xor r, r, %d" % k2, "  ret r", "  endfunc"]
    protos = ["pb: proto i64, i64:x, i64:y", "pc: proto i64, i64:x"]
    f.module("ch_cba", protos + fc + fb + fa, ["a", "b"], ["a calls=0", "b calls=0"])
    f.module("ch_abc", protos + ["  forward b, c"] + fa + fb + fc, ["a", "b"], ["a calls=0"])
    # self recursion: never inlined into itself, but inlined into its caller (the copy keeps the recursive call)
    rec = ["pr: proto i64, i64:n, i64:x", "r: func i64, i64:n, i64:x", "  local i64:t, i64:m", "  bgt L_rec, n, 0", "  xor x, x, %d" % k3, "  ret x",
           "L_rec:", "  sub m, n, 1", "  xor t, x, n", "  call pr, r, t, m, t", "  lsh t, t, 1", "  ret t", "  endfunc",
           "top: func i64, i64:n, i64:x", "  local i64:t", "  call pr, r, t, n, x", "  or t, t, 7", "  ret t", "  endfunc"]
    f.module("ch_selfrec", rec, ["r n=range0..2", "top n=range0..2"], ["r calls=1", "top calls=1"])
    mut = ["pe: proto i64, i64:n, i64:x", "  forward od", "ev: func i64, i64:n, i64:x", "  local i64:t, i64:m", "  bne L_e, n, 0", "  ret x", "L_e:", "  sub m, n, 1",
           "  xor x, x, %d" % k1, "  call pe, od, t, m, x", "  ret t", "  endfunc",
           "od: func i64, i64:n, i64:x", "  local i64:t, i64:m", "  bne L_o, n, 0", "  ursh x, x, 1", "  ret x", "L_o:", "  sub m, n, 1", "  xor x, x, %d" % k2,
           "  inline pe, ev, t, m, x", "  ret t", "  endfunc",
           "top: func i64, i64:n, i64:x", "  local i64:t", "  call pe, ev, t, n, x", "  ret t", "  endfunc"]
    f.module("ch_mutual", mut, ["top n=range0..2"], [])
    return f


def fam_alloca(rnd, tier):
    f = Fam("alloca", "steps=300 arena=256")
    s1 = rnd.choice([8, 16, 24, 40])
    # callee with a constant top-level alloca; caller without / with its own alloca that stays live across the call
    g_const = ["pg: proto i64, i64:v", "g: func i64, i64:v", "  local i64:p, i64:r", "  alloca p, %d" % s1, "  mov i64:(p), v", "  lsh v, v, 1", "  mov i64:%d(p), v" % (s1 - 8),
               "  mov r, i64:(p)", "  xor r, r, i64:%d(p)" % (s1 - 8), "  ret r", "  endfunc"]
    f.module("al_const_noc", g_const + ["f: func i64, i64:x", "  local i64:t", "  call pg, g, t, x", "  or t, t, x", "  ret t", "  endfunc"], ["f"], ["f calls=0"])
    f.module("al_const_c", g_const + ["f: func i64, i64:x, i64:y", "  local i64:t, i64:q, i64:u", "  alloca q, 16", "  mov i64:(q), y", "  mov i64:8(q), x",
                                      "  call pg, g, t, x", "  call pg, g, u, t", "  and t, t, i64:(q)", "  xor t, t, i64:8(q)", "  xor t, t, u", "  ret t", "  endfunc"], ["f"], ["f calls=0"])
    # caller's alloca declared but never used, callee's used (func_top_alloca_used_p paths)
    f.module("al_unused_c", g_const + ["f: func i64, i64:x", "  local i64:t, i64:q", "  alloca q, 32", "  call pg, g, t, x", "  ret t", "  endfunc"], ["f"], ["f calls=0"])
    # variable-size alloca in the callee (non-top alloca: bstart/bend around the inlined body); the caller's block must survive
    g_var = ["pg: proto i64, i64:n, i64:v", "g: func i64, i64:n, i64:v", "  local i64:p, i64:r, i64:o", "  alloca p, n", "  mov i64:(p), v", "  sub o, n, 8", "  add p, p, o", "  mov i64:(p), n",
             "  mov r, i64:(p)", "  sub p, p, o", "  xor r, r, i64:(p)", "  ret r", "  endfunc"]
    f.module("al_var_noc", g_var + ["f: func i64, i64:n, i64:x", "  local i64:t", "  call pg, g, t, n, x", "  ret t", "  endfunc"], ["f n=set8,9,24"], ["f calls=0"])
    f.module("al_var_c", g_var + ["f: func i64, i64:n, i64:x, i64:y", "  local i64:t, i64:q, i64:u", "  alloca q, 16", "  mov i64:(q), y", "  call pg, g, t, n, x", "  mov i64:8(q), t",
                                  "  inline pg, g, u, n, y", "  or t, u, i64:(q)", "  xor t, t, i64:8(q)", "  ret t", "  endfunc"], ["f n=set8,17"], ["f calls=0"])
    # caller's own VARIABLE alloca made after the inlined call must not be released by the callee's bend, and vice versa
    f.module("al_var_after", g_var + ["f: func i64, i64:n, i64:x, i64:y", "  local i64:t, i64:q, i64:u, i64:w", "  alloca q, n", "  mov i64:(q), y", "  call pg, g, t, n, x",
                                      "  alloca w, n", "  mov i64:(w), t", "  call pg, g, u, n, t", "  or t, u, i64:(q)", "  xor t, t, i64:(w)", "  ret t", "  endfunc"], ["f n=set8,13"], ["f calls=0"])
    # callee whose alloca sits in a loop executed twice
    g_loop = ["pg: proto i64, i64:n, i64:v", "g: func i64, i64:n, i64:v", "  local i64:p, i64:r, i64:i, i64:prev", "  mov i, 0", "  mov r, 0", "  mov prev, 0", "L_loop:", "  alloca p, n", "  xor v, v, i",
              "  lsh v, v, 1", "  mov i64:(p), v", "  bf L_first, i", "  xor r, r, i64:(prev)", "L_first:", "  mov prev, p", "  add i, i, 1", "  blt L_loop, i, 2", "  or r, r, i64:(p)", "  ret r", "  endfunc"]
    f.module("al_loop", g_loop + ["f: func i64, i64:n, i64:x, i64:y", "  local i64:t, i64:q, i64:u", "  alloca q, 8", "  mov i64:(q), y", "  call pg, g, t, n, x", "  call pg, g, u, n, t",
                                  "  xor t, t, u", "  xor t, t, i64:(q)", "  ret t", "  endfunc"], ["f n=set8,13"], ["f calls=0"])
    # the same with a CONSTANT size: an alloca after a label is not the callee's top alloca whatever its size (each iteration a fresh block)
    g_loopc = [l.replace("alloca p, n", "alloca p, 8") for l in g_loop]
    f.module("al_loopc", g_loopc + ["f: func i64, i64:n, i64:x, i64:y", "  local i64:t, i64:q, i64:u", "  alloca q, 8", "  mov i64:(q), y", "  call pg, g, t, n, x", "  inline pg, g, u, n, t",
                                    "  xor t, t, u", "  xor t, t, i64:(q)", "  ret t", "  endfunc"], ["f n=const8", "g n=const8"], ["f calls=0"])
    # nested: a (alloca) calls b (alloca); both inlined into f which has its own; sequential second call reuses the space
    nest = ["pa: proto i64, i64:v", "b: func i64, i64:v", "  local i64:p, i64:r", "  alloca p, 8", "  mov i64:(p), v", "  lsh v, v, 1", "  mov r, i64:(p)", "  xor r, r, v", "  ret r", "  endfunc",
            "a: func i64, i64:v", "  local i64:p, i64:r", "  alloca p, %d" % rnd.choice([1, 2, 4, 8, 16]), "  mov u8:(p), v", "  call pa, b, r, v", "  or r, r, u8:(p)", "  ret r", "  endfunc",
            "f: func i64, i64:x, i64:y", "  local i64:t, i64:u, i64:q", "  alloca q, 24", "  mov i64:(q), x", "  mov i64:16(q), y", "  call pa, a, t, x", "  inline pa, b, u, y", "  xor t, t, u",
            "  call pa, a, u, t", "  xor t, t, u", "  and t, t, i64:(q)", "  xor t, t, i64:16(q)", "  ret t", "  endfunc"]
    f.module("al_nested", nest, ["f", "a"], ["f calls=0"])
    # caller loop around an inlined callee with constant alloca; callee alloca after a label (constant size, not top)
    g_lab = ["pg: proto i64, i64:c, i64:v", "g: func i64, i64:c, i64:v", "  local i64:p, i64:r", "  bt L_s, c", "  xor v, v, 5", "L_s:", "  alloca p, 16", "  mov i64:8(p), v", "  mov r, i64:8(p)", "  ret r", "  endfunc"]
    f.module("al_callerloop", g_const + ["f: func i64, i64:x", "  local i64:t, i64:i, i64:s", "  mov i, 0", "  mov s, 0", "L_l:", "  xor t, x, i", "  call pg, g, t, t", "  xor s, s, t", "  add i, i, 1",
                                         "  blt L_l, i, 2", "  ret s", "  endfunc"], ["f"], ["f calls=0"])
    f.module("al_label", g_lab + ["f: func i64, i64:c, i64:x", "  local i64:t, i64:u", "  call pg, g, t, c, x", "  xor c, c, 1", "  call pg, g, u, c, t", "  xor t, t, u", "  ret t", "  endfunc"], ["f c=set0,1"], ["f calls=0"])
    # adjacent constant allocas are consolidated by simplify_func
    sizes = [1, 2, 3, 8, 16] if tier == "quick" else [1, 2, 3, 4, 5, 8, 9, 16, 17]
    body = ["f: func i64, i64:x, i64:y", "  local i64:r, " + ", ".join("i64:p%d" % i for i in range(len(sizes)))]
    for i, s in enumerate(sizes):
        body.append("  alloca p%d, %d" % (i, s))
    for i, s in enumerate(sizes):
        body.append("  xor x, x, y")
        body.append("  ursh y, y, 3")
        body.append("  mov u8:%d(p%d), x" % (s - 1, i))
    body.append("  mov r, 0")
    for i, s in enumerate(sizes):
        body.append("  lsh r, r, 3")
        body.append("  xor r, r, u8:%d(p%d)" % (s - 1, i))
    body += ["  ret r", "  endfunc"]
    f.module("al_adjacent", body, ["f"], [])
    return f


def fam_blk(rnd, tier):
    f = Fam("blk", "steps=400 arena=256")
    sizes = [1, 8, 9, 24] if tier == "quick" else [1, 2, 7, 8, 9, 15, 16, 17, 23, 24]
    classes = ["blk", "blk1", "blk2", "blk3", "blk4"]
    for ci, c in enumerate(classes):
        for s in (sizes if tier != "quick" else [sizes[(ci + k) % len(sizes)] for k in range(2)]):
            last = s - 1
            kind = "call" if (ci + s) % 2 else "inline"
            body = ["pg: proto i64, %s:%d(b), i64:v" % (c, s),
                    "g: func i64, %s:%d(b), i64:v" % (c, s), "  local i64:r", "  mov r, u8:(b)", "  lsh r, r, 8", "  or r, r, u8:%d(b)" % last, "  mov u8:(b), v", "  ursh v, v, 8", "  mov u8:%d(b), v" % last,
                    "  lsh r, r, 8", "  or r, r, u8:(b)", "  lsh r, r, 8", "  or r, r, u8:%d(b)" % last, "  ret r", "  endfunc",
                    "f: func i64, p:buf, i64:v", "  local i64:t, i64:u", "  %s pg, g, t, %s:%d(buf), v" % (kind, c, s),
                    "  mov u, u8:(buf)", "  lsh t, t, 8", "  or t, t, u", "  mov u, u8:%d(buf)" % last, "  lsh t, t, 8", "  or t, t, u", "  ret t", "  endfunc"]
            f.module("bk_%s_%d" % (c, s), body, ["f buf=buf32"], ["f calls=0"])
    # rblk: the address itself is passed, the callee's stores are the caller's
    body = ["pg: proto i64, rblk:16(b), i64:v", "g: func i64, rblk:16(b), i64:v", "  local i64:r", "  mov r, i64:(b)", "  mov i64:8(b), v", "  ret r", "  endfunc",
            "f: func i64, p:buf, i64:v", "  local i64:t", "  call pg, g, t, rblk:16(buf), v", "  xor t, t, i64:8(buf)", "  ret t", "  endfunc"]
    f.module("bk_rblk", body, ["f buf=buf16"], ["f calls=0"])
    # a block argument to a callee that is NOT inlined (above the call threshold): real by-value copy
    big = ["pg: proto i64, blk:16(b), i64:v", "g: func i64, blk:16(b), i64:v", "  local i64:r", "  mov r, i64:(b)", "  mov i64:(b), v"] + chain_body(52, ("r", "v", "v")) + ["  xor r, r, i64:(b)", "  ret r", "  endfunc",
           "f: func i64, p:buf, i64:v", "  local i64:t", "  call pg, g, t, blk:16(buf), v", "  xor t, t, i64:(buf)", "  ret t", "  endfunc"]
    f.module("bk_notinlined", big, ["f buf=buf16"], ["f calls=1"])
    return f


NARROW = ["i8", "u8", "i16", "u16", "i32", "u32"]


def fam_types(rnd, tier):
    f = Fam("types", "steps=200")
    # one narrow parameter read by the callee + one narrow result, call and inline
    for i, t in enumerate(NARROW):
        r = NARROW[(i + 3) % 6]
        kind = "call" if i % 2 else "inline"
        body = ["pg: proto %s, %s:x, i64:y" % (r, t), "g: func %s, %s:x, i64:y" % (r, t), "  local i64:s", "  xor s, x, y", "  ret s", "  endfunc",
                "f: func i64, i64:a, i64:b", "  local i64:t", "  %s pg, g, t, a, b" % kind, "  ret t", "  endfunc",
                "e: func %s, %s:x" % (t, r), "  ret x", "  endfunc"]
        f.module("ty_%s_%s" % (t, r), body, ["f", "g", "e"], ["f calls=0"])
    # two results, mixed narrow types and fp; zero results (effect through memory)
    pairs = [("i8", "u16"), ("u32", "i16"), ("i32", "u8")] if tier == "quick" else [(a, b) for a in NARROW for b in NARROW if a != b][::3]
    for a, b in pairs:
        body = ["pg: proto %s, %s, i64:x, i64:y, i64:c" % (a, b), "g: func %s, %s, i64:x, i64:y, i64:c" % (a, b), "  local i64:s", "  bt L_two, c", "  ret x, y", "L_two:", "  xor s, x, y", "  ret s, x", "  endfunc",
                "f: func i64, i64, i64:a, i64:b, i64:c", "  local i64:t, i64:u", "  call pg, g, t, u, a, b, c", "  ret t, u", "  endfunc"]
        f.module("ty2_%s_%s" % (a, b), body, ["f c=set0,1", "g c=set0,2"], ["f calls=0"])
    body = ["pg: proto f, d, f:x, d:y, u8:k", "g: func f, d, f:x, d:y, u8:k", "  local d:t, f:s", "  bt L_k, k", "  ret x, y", "L_k:", "  f2d t, x", "  d2f s, y", "  ret s, t", "  endfunc",
            "f: func f, d, f:a, d:b, i64:k", "  local f:t, d:u", "  inline pg, g, t, u, a, b, k", "  ret t, u", "  endfunc"]
    f.module("ty2_fd", body, ["f k=set0,1,256", "g k=set0,3"], ["f calls=0"])
    body = ["pg: proto i64:p, i16:v", "g: func i64:p, i16:v", "  mov i64:(p), v", "  ret", "  endfunc",
            "f: func p:buf, i64:v", "  call pg, g, buf, v", "  ret", "  endfunc"]
    f.module("ty0", body, ["f buf=buf8"], ["f calls=0"])
    # multiple rets of a narrow type: make_one_ret merges them into one ret with one ext
    body = ["pg: proto i16, i64:x, i64:c", "g: func i16, i64:x, i64:c", "  local i64:t", "  beq L_a, c, 1", "  beq L_b, c, 2", "  ret x", "L_a:", "  xor t, x, 1", "  ret t", "L_b:", "  lsh t, x, 4", "  ret t", "  endfunc",
            "f: func i64, i64:a, i64:c", "  local i64:t, i64:u", "  call pg, g, t, a, c", "  inline pg, g, u, t, c", "  xor t, t, u", "  ret t", "  endfunc"]
    f.module("ty_multiret", body, ["f c=range0..2", "g c=range0..3"], ["f calls=0"])
    # prototype narrower than the value passed, argument given as memory / immediate operand
    body = ["pg: proto u8, i8:x", "g: func u8, i8:x", "  local i64:r", "  rsh r, x, 1", "  ret r", "  endfunc",
            "f: func i64, p:buf", "  local i64:t, i64:u", "  call pg, g, t, i64:(buf)", "  call pg, g, u, 0x1f5", "  lsh t, t, 8", "  or t, t, u", "  call pg, g, i64:8(buf), t", "  ret t", "  endfunc"]
    f.module("ty_argops", body, ["f buf=buf16"], ["f calls=0"])
    return f


def fam_control(rnd, tier):
    f = Fam("control", "steps=300")
    k = rnd.randint(3, 60)
    # callee with a loop and labels, inlined twice (label duplication / renumbering), called also from a second function
    body = ["pg: proto i64, i64:n, i64:x", "g: func i64, i64:n, i64:x", "  local i64:i", "  mov i, 0", "  jmp L_chk", "L_body:", "  lsh x, x, 1", "  xor x, x, %d" % k, "  add i, i, 1", "L_chk:", "  blt L_body, i, n", "  ret x", "  endfunc",
            "f: func i64, i64:n, i64:x", "  local i64:t, i64:u", "  call pg, g, t, n, x", "  call pg, g, u, n, t", "  xor t, u, t", "  ret t", "  endfunc"]
    f.module("ct_loop", body, ["f n=range0..3", "g n=range0..3"], ["f calls=0"])
    # switch in the callee
    body = ["pg: proto i64, i64:s, i64:x", "g: func i64, i64:s, i64:x", "  switch s, L_0, L_1, L_2, L_1", "L_0:", "  or x, x, 1", "  ret x", "L_1:", "  ursh x, x, 2", "L_2:", "  xor x, x, 9", "  ret x", "  endfunc",
            "f: func i64, i64:s, i64:x", "  local i64:t", "  inline pg, g, t, s, x", "  xor t, t, s", "  ret t", "  endfunc"]
    f.module("ct_switch", body, ["f s=range0..3", "g s=range0..3"], ["f calls=0"])
    # jump threading / branch simplification shapes of simplify_func, one function each; `a` steers control (case split), b is data
    T = "  or b, b, 1"
    shapes = {
        "rev": (["  bt L1, a", "  jmp L2", "L1:", T, "L2:", "  ret b"], "a=set0,1,256"),                                  # BCond L;JMP L2;L: => BNCond L2
        "revlt": (["  ublt L1, a, 5", "  jmp L2", "L1:", T, "L2:", "  ret b"], "a=set0,5,-1"),
        "revs": (["  bles L1, a, 5", "  jmp L2", "L1:", T, "L2:", "  ret b"], "a=set5,6,0x100000000"),
        "chain": (["  bt L1, a", "  xor b, b, 2", "  jmp L2", "L1:", "  jmp L3", "L2:", "  xor b, b, 4", "L3:", "  jmp L4", "L4:", "  ret b"], "a=set0,1"),   # B L;..;L:JMP L2 => B L2
        "same": (["  bt L1, a", "  jmp L2", "L2:", "L1:", T, "  ret b"], "a=set0,1"),                                  # BR L1;JMP L2;L2:L1: => JMP L2
        "same2": (["  beq L1, a, 3", "  jmp L2", "L1:", "L2:", T, "  ret b"], "a=set3,4"),
        "next": (["  bne L1, a, 3", "L0:", "L1:", T, "  jmp L2", "L2:", "  ret b"], "a=set3,4"),                      # BR L; <labels>L: => removed
        "bt1": (["  bt L1, 1", T, "L1:", "  ret b"], "a=const0"),
        "bt0": (["  bt L1, 0", T, "L1:", "  ret b"], "a=const0"),
        "bf0": (["  bf L1, 0", T, "L1:", "  ret b"], "a=const0"),
        "bf1": (["  bfs L1, 1", T, "L1:", "  ret b"], "a=const0"),
        "bt2": (["  bt L1, 2", T, "L1:", "  ret b"], "a=const0"),
        "bts32": (["  bts L1, 0x100000000", T, "L1:", "  ret b"], "a=const0"),
        "ovrev": (["  addo a, a, 1", "  bo L1", "  jmp L2", "L1:", T, "L2:", "  ret b"], "a=set0,0x7fffffffffffffff,-1"),
        "uovrev": (["  subos a, a, 1", "  ubno L1", "  jmp L2", "L1:", T, "L2:", "  ret b"], "a=set0,1,0x100000000"),
        "labels": (["  jmp L2", "L1:", "  xor b, b, 7", "  ret b", "L2:", "L3:", "L4:", "  bt L1, a", "  bf L3x, a", "L3x:", "  ret b"], "a=set0,1"),
        "loopthr": (["  mov b, 0", "L1:", "  add b, b, 1", "  bge L3, b, a", "  jmp L2", "L2:", "  jmp L1", "L3:", "  ret b"], "a=range0..3"),
    }
    for n, (sh, spec) in shapes.items():
        f.module("ct_" + n, ["f: func i64, i64:a, i64:b"] + sh + ["  endfunc"], ["f " + spec])
    # FP branches have no reverse code: BCond L;JMP L2;L: must stay (NaN operands); fully symbolic doubles: 2 branches
    f.module("ct_fprev", ["f: func i64, d:x, d:y", "  local i64:r", "  mov r, 0", "  dblt L1, x, y", "  jmp L2", "L1:", "  or r, r, 1", "L2:", "  dbne L3, x, x", "  or r, r, 2", "L3:", "  ret r", "  endfunc"], ["f"])
    # one fully symbolic integer compare-branch through the reversal (all 64-bit values of both operands)
    f.module("ct_revsym", ["f: func i64, i64:a, i64:b"] + ["  blt L1, a, b", "  jmp L2", "L1:", T, "L2:", "  ret b"] + ["  endfunc"], ["f"])
    # every integer compare-branch code through the reversal rewrite, both operands fully symbolic (MIR_reverse_branch_code is a
    # 30-way table: one wrong entry is one obligation here)
    for code in ("bt", "bts", "bf", "bfs"):
        f.module("ct_rv_" + code, ["f: func i64, i64:a, i64:b", "  %s L1, a" % code, "  jmp L2", "L1:", T, "L2:", "  ret b", "  endfunc"], ["f"])
    for base in ("beq", "bne", "blt", "ublt", "ble", "uble", "bgt", "ubgt", "bge", "ubge"):
        for code in (base, base + "s"):
            f.module("ct_rv_" + code, ["f: func i64, i64:a, i64:b, i64:c", "  %s L1, a, c" % code, "  jmp L2", "L1:", T, "L2:", "  ret b", "  endfunc"], ["f"])
    for ov, br in (("addo", "bo"), ("addo", "bno"), ("subo", "ubo"), ("subo", "ubno"), ("addos", "bo"), ("subos", "ubno")):
        f.module("ct_rv_%s_%s" % (ov, br), ["f: func i64, i64:a, i64:b, i64:c", "  %s a, a, c" % ov, "  %s L1" % br, "  jmp L2", "L1:", T, "L2:", "  ret b", "  endfunc"], ["f"])
    # the same shapes inside a callee that gets inlined (cold code after ret is moved to the end of the caller)
    body = ["pg: proto i64, i64:a, i64:b", "g: func i64, i64:a, i64:b", "  bt L1, a", "  jmp L2", "L3:", "  xor b, b, 100", "  jmp L4", "L1:", "  or b, b, 1", "  bgt L3, a, 1", "L2:", "  xor b, b, 3", "L4:", "  ret b",
            "L_cold:", "  xor b, b, 1000", "  jmp L4", "  endfunc",
            "f: func i64, i64:a, i64:b", "  local i64:t, i64:u", "  call pg, g, t, a, b", "  bt L_f, a", "  xor t, t, 5", "L_f:", "  xor a, a, 1", "  call pg, g, u, a, t", "  xor t, t, u", "  ret t", "  endfunc"]
    f.module("ct_inlcold", body, ["f a=range0..3", "g a=range0..2"], ["f calls=0"])
    return f


def fam_lower(rnd, tier):
    f = Fam("lower", "steps=300")
    d1, d2 = rnd.choice([8, 16, 24]), rnd.choice([4, 12])
    # memory operands with base, index*scale and displacement as source and destination of 3-operand insns
    body = ["f: func i64, p:b, i64:i, i64:v", "  local i64:r",
            "  xor i64:%d(b, i, 8), i64:(b), v" % d1,
            "  or u16:2(b, i, 2), i32:%d(b, i, 4), u8:1(b)" % d2,
            "  xor r, i8:(b, i), i64:%d(b)" % d1,
            "  and r, r, i16:6(b, i, 1)",
            "  mov i32:12(b), r",
            "  mov i64:24(b), i64:%d(b, i, 8)" % d1,
            "  ret r", "  endfunc"]
    f.module("lo_mem", body, ["f b=buf48 i=range0..1"])
    # immediates in every position
    big = rnd.choice([0x7fffffff, 0x80000000, 0x123456789ab, -0x80000001])
    body = ["f: func i64, i64:a", "  local i64:r, i64:s", "  xor r, %d, a" % big, "  or r, r, %d" % rnd.randint(1, 100), "  sub s, 100, 58", "  lsh s, 1, s", "  xor r, r, s",
            "  ands r, r, -1", "  uext32 r, r", "  beq L1, 5, 5", "  xor r, r, 1", "L1:", "  bne L2, 3, 3", "  xor r, r, 2", "L2:", "  ret r", "  endfunc"]
    f.module("lo_imm", body, ["f"])
    # string and reference operands, data items (contiguous), ref data, bss
    body = ["d1: i32 1, -2, 3", "    u8 200", "    i16 -5", "d2: u64 0x1122334455667788", "r1: ref d2, 4", "b1: bss 16", "s1: string \"hello\"",
            "f: func i64, i64:i, i64:v", "  local i64:p, i64:r, i64:q", "  mov p, d1", "  mov r, i32:(p, i, 4)", "  lsh r, r, 8", "  xor r, r, u8:12(p)", "  lsh r, r, 8", "  xor r, r, i16:13(p)", "  mov q, r1", "  mov q, i64:(q)", "  lsh r, r, 8", "  xor r, r, u32:(q)",
            "  mov q, b1", "  mov i64:8(q), v", "  xor r, r, i64:8(q)", "  mov q, s1", "  lsh r, r, 8", "  xor r, r, u8:1(q)", "  mov q, \"xyz\"", "  lsh r, r, 8", "  xor r, r, u8:2(q)", "  mov u8:(q), v", "  lsh r, r, 8", "  xor r, r, u8:(q)", "  ret r", "  endfunc"]
    f.module("lo_refs", body, ["f i=range0..2"])
    # fp immediates (moved to data items by simplify) and fp memory operands; one fp operation per value (bit-exact on all legs)
    body = ["f: func d, f, d:x, f:y, p:b", "  local d:r, f:t, ld:l", "  dadd r, x, 1.5", "  fmov t, 2.0f", "  fmov f:4(b), t", "  dmov d:8(b), 0.1", "  dmov x, d:8(b)", "  dmov d:8(b), r", "  fmov t, f:4(b)",
            "  ldmov l, 3.0L", "  ldmov ld:16(b), l", "  ret r, t", "  endfunc"]
    f.module("lo_fp", body, ["f b=buf32"])
    # call operands that need lowering: memory / immediate arguments, memory results, external callee
    body = ["  import ex2", "px: proto i32, i64:a, u16:b, d:c", "pg: proto i64, i64:a, i64:b", "g: func i64, i64:a, i64:b", "  xor a, a, b", "  ret a", "  endfunc",
            "f: func i64, p:b, i64:v", "  local i64:r", "  call pg, g, i64:8(b), i64:(b), 7", "  call px, ex2, r, i64:8(b), v, 2.5", "  call pg, g, r, r, u16:2(b)", "  call px, ex2, i32:16(b), r, 0x12345, d:24(b)",
            "  xor r, r, i32:16(b)", "  ret r", "  endfunc"]
    f.module("lo_call", body, ["f b=buf32"], ["f calls=2"])
    # ret with memory and immediate operands, several narrow results
    body = ["f: func i8, u16, p:b, i64:c", "  bt L1, c", "  ret i64:(b), i64:8(b)", "L1:", "  ret 0x1ff, i8:1(b)", "  endfunc",
            "g: func u32, i64, p:b, i64:c", "  bt L2, c", "  ret -1, 77", "L2:", "  ret i64:(b), i32:4(b)", "  endfunc"]
    f.module("lo_ret", body, ["f b=buf16 c=set0,1", "g b=buf16 c=set0,7"])
    # overflow insns: flags across inlining, and the x*1 shortcut of simplify_func
    body = ["pg: proto i64, i64:a, i64:b", "g: func i64, i64:a, i64:b", "  local i64:r", "  addo r, a, 1", "  bo L1", "  ret b", "L1:", "  ret 0", "  endfunc",
            "f: func i64, i64:a, i64:b", "  local i64:t, i64:u", "  call pg, g, t, a, b", "  subos u, a, 1", "  ubo L2", "  or t, t, 1", "L2:", "  ret t", "  endfunc",
            "m1: func i64, i64:a, i64:b", "  local i64:r, i64:t", "  addo t, b, b", "  mulo r, a, 1", "  bo L3", "  ret r", "L3:", "  ret 1", "  endfunc",
            "m2: func i64, i64:a, i64:b", "  local i64:r, i64:t", "  addos t, b, b", "  mulos r, a, 1", "  bno L4", "  ret 0", "L4:", "  ret 1", "  endfunc"]
    f.module("lo_ovf", body, ["f a=set0,0x7fffffffffffffff,0x100000000", "m1 a=set5,-3 b=set1,0x4000000000000000", "m2 a=set5,-3 b=set1,0x40000000"], ["f calls=0"], solo=True)
    return f


def main():
    outdir, tier = sys.argv[1], sys.argv[2]
    seed = int(os.environ.get("VERIF_SEED", "0") or 0)
    os.makedirs(outdir, exist_ok=True)
    n = 0
    for i, fam in enumerate((fam_thresholds, fam_chains, fam_alloca, fam_blk, fam_types, fam_control, fam_lower)):
        f = fam(random.Random(seed * 1000 + i), tier)
        f.write(outdir)
        n += f.n
    print("gen_c04: %d modules" % n)


if __name__ == "__main__":
    main()
