#!/usr/bin/env python3
"""C20 corpus and harness generator.

  gen_c20.py corpus OUTDIR TIER          -> OUTDIR/*.mir  (deterministic from VERIF_SEED)
  gen_c20.py harness FILE.mir UNITDIR TAG [--translated M1,M2,..]
       -> UNITDIR/c20_decls.h   prototypes of the emitted C functions (thin header), logging stubs of the externals
          UNITDIR/c20_cases.h   one CBMC entry per exported function with at most one result
          UNITDIR/wrap_<M>.c    `#define <ext> (*c20_fp_<ext>)` + #include of the unmodified emitted C of module M
          UNITDIR/c20.json
Every function under test must be exported (the translator makes everything else static).  The emitted C calls externals
through `extern char name[]` cast to the prototype's function pointer type; the -D style rename makes `name` the target of
a pointer variable that the harness points at a logging stub (same log format as harness/common/interp_rt.h)."""
import json
import os
import random
import re
import sys

sys.path.insert(0, os.path.dirname(os.path.abspath(__file__)))
import mir2ref as M  # parser of textual MIR (written from MIR.md)

CTYPE = {"i8": "int8_t", "u8": "uint8_t", "i16": "int16_t", "u16": "uint16_t", "i32": "int32_t", "u32": "uint32_t", "i64": "int64_t", "u64": "uint64_t",
         "f": "float", "d": "double", "ld": "long double", "p": "void *"}
for b in M.BLK_TYPES:
    CTYPE[b] = "void *"
SIGNED = {"i8", "i16", "i32", "i64"}


# ------------------------------------------------------------------ harness for one unit
def gen_harness(mir, unitdir, tag, translated=None):
    src = open(mir).read()
    p = M.Parser(src)
    mods = p.parse()
    em = M.Emitter(mods, tag)  # for the function numbering (= mirdump's order)
    ents = {(mn, fn): (spec, opts) for mn, fn, spec, opts in M.parse_entries(p, mods)} if any(a.startswith("entry") for a in p.annotations) else None
    decls, cases, out = [], [], []
    exts = {}
    for m in mods:
        if translated is not None and m.name not in translated:
            continue
        exported = set(it.name for it in m.items if it.kind == "export")
        imports = [it.name for it in m.items if it.kind == "import"]
        # externals: signature from the prototype of the first call that names them
        for it in m.items:
            if it.kind != "func":
                continue
            for ins in it.func.insns:
                if ins.code in ("call", "inline") and ins.ops[1].kind == "ref" and ins.ops[1].name in imports:
                    t = m.find(ins.ops[1].name)
                    if t.kind == "import" and t.name not in exts:
                        exts[t.name] = m.find(ins.ops[0].name)
        with open(os.path.join(unitdir, "wrap_%s.c" % M.cid(m.name)), "w") as f:
            f.write("/* the emitted C of module %s, unmodified; externals renamed as a -D would (see tools/gen_c20.py) */\n" % m.name)
            f.write("#include <alloca.h> /* as -include alloca.h: the emitted C calls alloca without declaring it (reported by accept.*) */\n")
            for e in imports:
                f.write("#define %s (*c20_fp_%s)\n" % (e, M.cid(e)))
            f.write('#include "%s.c"\n' % M.cid(m.name))
        for it in m.items:
            if it.kind != "func" or it.name not in exported:
                continue
            fn = it.func
            if len(fn.res) > 1 or fn.vararg:
                continue
            if ents is not None and (m.name, fn.name) not in ents:
                continue
            spec, opts = ents[(m.name, fn.name)] if ents is not None else ({}, {})
            rt = CTYPE[fn.res[0]] if fn.res else "void"
            decls.append("%s %s (%s);" % (rt, fn.name, ", ".join(CTYPE[v.type] for v in fn.args) or "void"))
            fid = em.fid[(m.name, fn.name)]
            ename = "harness_%s_%s__%s" % (tag, M.cid(m.name), M.cid(fn.name))
            L = ["void %s (void) {" % ename, "  c04_init ();"]
            cargs, hset, bufs = [], [], []
            for i, v in enumerate(fn.args):
                n = M.cid(v.name)
                s = spec.get(v.name, "any")
                if v.type in M.FP_TYPES:
                    L.append("  %s x_%s = h_nd_%s ();" % (M.CT[v.type], n, v.type))
                    cargs.append("x_" + n); hset.append("args[%d].%s = x_%s;" % (i, v.type, n))
                    continue
                mb = re.match(r"buf(\d+)$", s)
                if mb:
                    nb = (int(mb.group(1)) + 7) // 8
                    L.append("  uint64_t b_c_%s[%d], b_h_%s[%d];" % (n, nb, n, nb))
                    L.append("  for (int k = 0; k < %d; k++) b_c_%s[k] = b_h_%s[k] = nd ();" % (nb, n, n))
                    bufs.append((n, nb))
                    cargs.append("(%s) b_c_%s" % (CTYPE[v.type], n) if v.type == "p" else "(%s) (uintptr_t) b_c_%s" % (CTYPE[v.type], n))
                    hset.append("args[%d].a = b_h_%s;" % (i, n))
                    continue
                ms = re.match(r"set([-0-9a-fA-Fx,]+)$", s)
                mr = re.match(r"range(-?\d+)\.\.(-?\d+)$", s)
                if mr:
                    ms = re.match(r"set(.*)", "set" + ",".join(str(k) for k in range(int(mr.group(1)), int(mr.group(2)) + 1)))
                if ms:
                    vals = [int(x, 0) for x in ms.group(1).split(",")]
                    vals = [x - 2 ** 64 if x >= 2 ** 63 else x for x in vals]
                    lit = lambda k: "(-9223372036854775807ll - 1)" if k == -2 ** 63 else "%dll" % k
                    L.append("  uint64_t x_%s = nd (); H_ASSUME (%s);" % (n, " | ".join("((int64_t) x_%s == %s)" % (n, lit(k)) for k in vals)))
                    L.append("  switch ((int64_t) x_%s) { %s default: H_ASSUME (0); }" % (n, " ".join("case %s: x_%s = (uint64_t) %s; break;" % (lit(k), n, lit(k)) for k in vals)))
                else:
                    L.append("  uint64_t x_%s = nd ();" % n)
                cargs.append("(%s) x_%s" % (CTYPE[v.type], n) if v.type != "p" else "(void *) (uintptr_t) x_%s" % n)
                hset.append("args[%d].u = x_%s;" % (i, n))
            L.append("  static h_ext_log log_c, log_h; MIR_val_t res_h[2] = {{0}};")
            L.append("  /* leg c: the C translation unit emitted by the real MIR_module2c */")
            L.append("  h_cur_log = &log_c;")
            call = "%s (%s)" % (fn.name, ", ".join(cargs))
            L.append("  %s;" % (("%s res_c = %s" % (rt, call)) if fn.res else call))
            L.append("  H_WITNESS (\"emitted C returns\");")
            L.append("  /* leg h: the real interpreter on the icode of the same module (real MIR_link + generate_icode) */")
            L.append("  { MIR_val_t args[%d] = {{0}}; h_cur_log = &log_h; c04_arena_top = 0;" % (len(fn.args) + 1))
            L += ["    " + s for s in hset]
            L.append("    h_run (%d, args, res_h); }" % fid)
            msg = "%s.%s: emitted C == interpreter" % (m.name, fn.name)
            if fn.res:
                ty = fn.res[0]
                if ty in M.FP_TYPES:
                    L.append("  H_ASSERT (h_same_%s (res_c, res_h[0].%s), \"%s (result, %s)\");" % (ty, ty, msg, ty))
                elif ty == "p":
                    L.append("  H_ASSERT ((res_c == 0) == (res_h[0].u == 0), \"%s (pointer result: null-ness)\");" % msg)
                else:
                    L.append("  H_ASSERT ((uint64_t) %sres_c == res_h[0].u, \"%s (result, %s)\");" % ("(int64_t) " if ty in SIGNED else "", msg, ty))
            L.append("  H_ASSERT (c04_log_eq (&log_c, &log_h), \"%s (external calls: callee, typed argument bits, order)\");" % msg)
            for n, nb in bufs:
                L.append("  for (int k = 0; k < %d; k++) H_ASSERT (b_c_%s[k] == b_h_%s[k], \"%s (final contents of buffer %s)\");" % (nb, n, n, msg, n))
            L.append("  H_WITNESS (\"end\");\n}\n")
            out.append("\n".join(L))
            cases.append({"name": "%s.%s" % (m.name, fn.name), "entry": ename, "module": m.name, "func": fn.name, "fid": fid, "opts": opts,
                          "sample": "%s.%s (%s) -> (%s): %s" % (m.name, fn.name, ", ".join("%s:%s" % (v.type, v.name) for v in fn.args), ", ".join(fn.res),
                                                                 opts.get("note", "all argument values")), "paths": any(ins.code in M.BRANCHES or ins.code == "switch" for ins in fn.insns)})
    stubs = []
    for e, proto in exts.items():
        rt = CTYPE[proto.res[0]] if proto.res else "void"
        args = ", ".join("%s a%d" % (CTYPE[v.type], i) for i, v in enumerate(proto.args))
        if proto.vararg:
            args = (args + ", ...") if args else "..."
        L = ["%s c20_stub_%s (%s) {" % (rt, M.cid(e), args or "void"), "  uint64_t bits[%d]; r_val res[1]; res[0].u = 0;" % max(1, len(proto.args))]
        for i, v in enumerate(proto.args):
            if v.type in M.FP_TYPES:
                L.append("  bits[%d] = r_bits_%s (a%d);" % (i, v.type, i))
            elif v.type == "p" or v.type in M.BLK_TYPES:
                L.append("  bits[%d] = (a%d != 0);" % (i, i))
            else:
                L.append("  bits[%d] = r_bits_%s ((uint64_t) a%d);" % (i, v.type, i))
        L.append("  r_ext_call (R_EXT_ID_%s, %d, bits, %d, res);" % (M.cid(e), len(proto.args), len(proto.res)))
        if proto.res:
            ty = proto.res[0]
            L.append("  return %s;" % ("res[0].%s" % ty if ty in M.FP_TYPES else "(%s) (uintptr_t) res[0].u" % rt if ty == "p" else "(%s) res[0].u" % rt))
        L.append("}\nchar (*c20_fp_%s)[] = (char (*)[]) &c20_stub_%s;" % (M.cid(e), M.cid(e)))
        stubs.append("\n".join(L))
    with open(os.path.join(unitdir, "c20_decls.h"), "w") as f:
        f.write("/* thin header: the functions of the emitted C (compiled as separate translation units) */\n" + "\n".join(decls) + "\n")
        f.write("/* externals of the emitted C: logging stubs (same log as interp_rt.h), reached through c20_fp_<name> */\n" + "\n".join(stubs) + "\n")
    with open(os.path.join(unitdir, "c20_cases.h"), "w") as f:
        f.write("\n".join(out))
    json.dump({"cases": cases, "externals": list(exts), "funcs": [[k[0], k[1], v] for k, v in em.fid.items()], "modules": [m.name for m in mods]},
              open(os.path.join(unitdir, "c20.json"), "w"), indent=1)


# ------------------------------------------------------------------ corpus
INT3 = ["add", "sub", "and", "or", "xor", "lsh", "rsh", "ursh", "eq", "ne", "lt", "ult", "le", "ule", "gt", "ugt", "ge", "uge"]
MULDIV = ["mul", "div", "udiv", "mod", "umod"]
GRID = [0, 1, 2, 3, -1, -2, 0x7fffffff, 0x80000000, 0xffffffff, 0x100000000, 0x7fffffffffffffff, -0x8000000000000000, 0x123456789, -0x123456789]


# modules on which the real translator is known to fail (crash / hang / rejected output / wrong code): each gets a unit of its own, so
# that obligation names are stable and the counterexample trace stays small; everything else is grouped MAXMOD modules per unit
SOLO = {"br_switch", "imm_ld", "imm_inf_f", "imm_inf_d", "imm_inf_ld", "mem_ld", "dat_fp", "dat_sect", "dat_expr", "ops_ld_mov", "mem_alloca"}


class Corpus:
    """one family, written as unit files of at most MAXMOD modules (small units: small goto binaries, and CBMC's counterexample
    trace - needed to confirm a violation natively - is superlinear in the static data of the unit)"""
    MAXMOD = 5

    def __init__(self, name):
        self.name = name
        self.mods = []
        self.solos = []

    def module(self, name, items, funcs, entries=None, solo=False):
        """funcs: list of (fname, signature, body lines); every function is exported.  solo: the module gets a unit file of its
        own (modules on which the translator is known to fail: the counterexample trace of a small unit takes seconds, not minutes)"""
        lines = []
        for e in entries or []:
            lines.append("#@ entry %s.%s" % (name, e))
        lines.append("%s: module" % name)
        lines.append("  export " + ", ".join(f[0] for f in funcs))
        lines += items
        for fname, sig, body in funcs:
            lines.append("%s: func %s" % (fname, sig))
            lines += ["  " + b if not b.endswith(":") else b for b in body]
            lines.append("  endfunc")
        lines.append("  endmodule")
        if solo or name in SOLO:
            self.solos.append((name, lines))
        else:
            self.mods.append(lines)

    def write(self, outdir):
        groups = [(str(k // self.MAXMOD), self.mods[k:k + self.MAXMOD]) for k in range(0, len(self.mods), self.MAXMOD)] + [("_" + n, [m]) for n, m in self.solos]
        for k, g in groups:
            lines = ["# C20 generated family %s part %s (tools/gen_c20.py, seed %s)" % (self.name, k.strip("_"), os.environ.get("VERIF_SEED", "0"))]
            for m in g:
                lines += m
            open(os.path.join(outdir, "%s%s.mir" % (self.name, k)), "w").write("\n".join(lines) + "\n")
        return len(groups)


def corpus(outdir, tier):
    seed = int(os.environ.get("VERIF_SEED", "0") or 0)
    rnd = random.Random(seed)
    os.makedirs(outdir, exist_ok=True)
    units = []
    # ---- unit ops: one function per non-control opcode, all 64-bit operand values symbolic; a few opcodes per module so that a
    #      translator crash on one opcode does not hide the others
    u = Corpus("ops")
    n = 0
    for grp in (INT3[0:5], INT3[5:8], INT3[8:13], INT3[13:18]):
        for sfx in ("", "s"):
            funcs = []
            ents = []
            for op in grp:
                o = op + sfx
                sh = op in ("lsh", "rsh", "ursh")
                post = ["uext32 r, r"] if sfx else []
                fn = "c20_" + o
                funcs.append((fn, "i64, i64:a, i64:b", ["local i64:r", "%s r, a, b" % o] + post + ["ret r"]))
                ents.append(fn + (" b=set0,1,%d" % (31 if sfx else 63) if sh else "") + (" note=shift_counts_0_1_max" if sh else ""))
            u.module("ops_i3_%d" % n, [], funcs, ents, solo=("uge" in grp))
            n += 1
    # mul / div / mod: boundary grid for both operands (compile-time constants inside one function per pair group)
    for op in MULDIV:
        for sfx in ("", "s"):
            o = op + sfx
            funcs = []
            post = ["uext32 r, r"] if sfx else []
            for gi, a in enumerate(GRID if tier == "thorough" else GRID[::2] + [-1]):
                body = ["local i64:r, i64:t", "mov t, 0"]
                for b in (GRID if tier == "thorough" else [1, 3, -1, 0x80000000, 0xffffffff, -0x123456789]):
                    b32 = b & 0xffffffff
                    if (b == 0 or (sfx and b32 == 0)) and op != "mul":
                        continue
                    if op in ("div", "mod") and ((not sfx and a == -2 ** 63 and b == -1) or (sfx and (a & 0xffffffff) == 0x80000000 and b32 == 0xffffffff)):
                        continue
                    body += ["%s r, %d, %d" % (o, a, b)] + post + ["lsh t, t, 5", "xor t, t, r"]
                body.append("ret t")
                funcs.append(("c20_%s_g%d" % (o, gi), "i64", body))
            u.module("ops_" + o, [], funcs, [f[0] + " note=operands_on_the_boundary_grid_(compile-time_constants)" for f in funcs])
    funcs = [("c20_" + o, "i64, i64:a", ["local i64:r", "%s r, a" % o] + (["uext32 r, r"] if o == "negs" else []) + ["ret r"]) for o in ["ext8", "ext16", "ext32", "uext8", "uext16", "uext32", "neg", "negs", "mov"]]
    u.module("ops_i2", [], funcs, [f[0] for f in funcs])
    for p, t in (("f", "f"), ("d", "d"), ("ld", "ld")):
        # symbolic operands where the SAT back end decides the equivalence of the two copies of the IEEE circuit in reasonable time
        # (measured: fadd 15 s, dadd 60 s CPU, dmul no verdict in 120 s): fadd/fsub symbolic; everything else on a grid of constants
        sym = ["add", "sub"] if p == "f" else []
        funcs = [("c20_%s%s" % (p, o), "%s, %s:a, %s:b" % (t, t, t), ["local %s:r" % t, "%s%s r, a, b" % (p, o), "ret r"]) for o in sym]
        funcs.append(("c20_%sneg" % p, "%s, %s:a" % (t, t), ["local %s:r" % t, "%sneg r, a" % p, "ret r"]))
        u.module("ops_%s_arith" % p, [], funcs, [f[0] for f in funcs])
        body = ["local i64:t, %s:x, %s:y, %s:r, d:dd" % (t, t, t)]
        off = 0
        for xv, yv in [(3, 7), (-5, 2), (1, 3), (1 << 40, 3), (0, 5), (1000003, -7)]:
            body += ["mov t, %d" % xv, "i2%s x, t" % p, "mov t, %d" % yv, "i2%s y, t" % p]
            for o in (["mul", "div"] if p == "f" else ["add", "sub", "mul", "div"]):
                body.append("%s%s r, x, y" % (p, o))
                if p == "f":
                    body.append("fmov f:%d(b), r" % off)
                elif p == "d":
                    body.append("dmov d:%d(b), r" % off)
                else:
                    body += ["ld2d dd, r", "dmov d:%d(b), dd" % off]
                off += 8
        body.append("ret 0")
        u.module("ops_%s_grid" % p, [], [("c20_%sgrid" % p, "i64, p:b", body)], ["c20_%sgrid b=buf%d note=operands_on_a_grid_of_constants" % (p, off)])
        mvf = [("c20_%smov" % p, "%s, %s:a" % (t, t), ["local %s:r" % t, "%smov r, a" % p, "ret r"])]
        u.module("ops_%s_mov" % p, [], mvf, [f[0] for f in mvf])
        funcs = [("c20_%s%s" % (p, o), "i64, %s:a, %s:b" % (t, t), ["local i64:r", "%s%s r, a, b" % (p, o), "ret r"]) for o in ["eq", "ne", "lt", "le", "gt", "ge"]]
        u.module("ops_%s_cmp" % p, [], funcs, [f[0] for f in funcs])
    convs = {"i2f": ("i64", "f"), "i2d": ("i64", "d"), "i2ld": ("i64", "ld"), "ui2f": ("i64", "f"), "ui2d": ("i64", "d"), "ui2ld": ("i64", "ld"), "f2d": ("f", "d"), "f2ld": ("f", "ld"),
             "d2f": ("d", "f"), "d2ld": ("d", "ld"), "ld2f": ("ld", "f"), "ld2d": ("ld", "d")}
    funcs = [("c20_" + o, "%s, %s:a" % (d, s), ["local %s:r" % d, "%s r, a" % o, "ret r"]) for o, (s, d) in convs.items()]
    u.module("ops_conv", [], [f for f in funcs if "ld" not in f[0]], [f[0] for f in funcs if "ld" not in f[0]])
    u.module("ops_conv_ld", [], [f for f in funcs if "ld" in f[0]], [f[0] for f in funcs if "ld" in f[0]])
    # float -> int on a grid of in-range constants (out of range is undefined)
    body = ["local i64:r, i64:t, f:x, d:y", "mov t, 0"]
    for v in ["0.0", "-0.0", "1.5", "-1.5", "2147483648.0", "-2147483649.0", "9007199254740993.0", "-9.2e18", "4.9e-324", "0.99999"]:
        body += ["dmov y, %s" % v, "d2i r, y", "lsh t, t, 7", "xor t, t, r"]
    for v in ["0.0f", "-1.5f", "16777217.0f", "-2.0e9f", "1.0e-45f"]:
        body += ["fmov x, %s" % v, "f2i r, x", "lsh t, t, 7", "xor t, t, r"]
    body.append("ret t")
    u.module("ops_f2i", [], [("c20_f2i_grid", "i64", body)], ["c20_f2i_grid"])
    units.append(u)
    # ---- unit br: compare-and-branch insns, branches on (non)zero, overflow insns + bo/ubo, switch
    u = Corpus("br")
    ibr = ["beq", "bne", "blt", "ble", "bgt", "bge", "ublt", "uble", "ubgt", "ubge"]
    for sfx in ("", "s"):
        for k in range(0, len(ibr), 5):
            funcs = [("c20_" + o + sfx, "i64, i64:a, i64:b", ["%s L_%s%s, a, b" % (o + sfx, o, sfx), "ret 0", "L_%s%s:" % (o, sfx), "ret 1"]) for o in ibr[k:k + 5]]
            u.module("br_i%s_%d" % (sfx, k), [], funcs, [f[0] for f in funcs])
    funcs = [("c20_" + o, "i64, i64:a", ["%s L_%s, a" % (o, o), "ret 0", "L_%s:" % o, "ret 1"]) for o in ["bt", "bts", "bf", "bfs"]]
    u.module("br_tf", [], funcs, [f[0] for f in funcs])
    for p, t in (("f", "f"), ("d", "d"), ("ld", "ld")):
        funcs = [("c20_%sb%s" % (p, o), "i64, %s:a, %s:b" % (t, t), ["%sb%s L_%s%s, a, b" % (p, o, p, o), "ret 0", "L_%s%s:" % (p, o), "ret 1"]) for o in ["eq", "ne", "lt", "le", "gt", "ge"]]
        u.module("br_" + p, [], funcs, [f[0] for f in funcs])
    for ov, brs in (("addo", ["bo", "bno", "ubo", "ubno"]), ("subo", ["bo", "bno", "ubo", "ubno"]), ("addos", ["bo", "ubo"]), ("subos", ["bno", "ubno"]), ("mulo", ["bo"]), ("mulos", ["bno"]), ("umulo", ["ubo"]), ("umulos", ["ubno"])):
        funcs = []
        ents = []
        for br in brs:
            fn = "c20_%s_%s" % (ov, br)
            post = ["uext32 r, r"] if ov.endswith("s") else []
            funcs.append((fn, "i64, i64:a, i64:b", ["local i64:r", "%s r, a, b" % ov, "%s L_%s" % (br, fn)] + post + ["lsh r, r, 1", "ret r", "L_%s:" % fn] + post + ["lsh r, r, 1", "or r, r, 1", "ret r"]))
            if "mul" in ov:
                ents.append(fn + " a=set0,3,-1,0x7fffffff,0x100000000,0x4000000000000000 b=set2,-1,0x80000000,4 note=boundary_grid")
            else:
                ents.append(fn)
        u.module("br_" + ov, [], funcs, ents, solo=ov in ("addo", "subo", "addos", "subos"))
    u.module("br_switch", [], [("c20_switch", "i64, i64:s, i64:x", ["switch s, L_s0, L_s1, L_s2", "L_s0:", "ret x", "L_s1:", "xor x, x, 1", "L_s2:", "xor x, x, 2", "ret x"])], ["c20_switch s=range0..2"])
    units.append(u)
    # ---- unit mem: memory operands of every form and type, data sections of every element type read back
    u = Corpus("mem")
    types = ["i8", "u8", "i16", "u16", "i32", "u32", "i64", "u64", "p"]
    forms = [("b", "(bs)"), ("db", "8(bs)"), ("mdb", "-8(bs)"), ("bi", "(bs, ix)"), ("dbi2", "4(bs, ix, 2)"), ("bi4", "(bs, ix, 4)"), ("dbi8", "-16(bs, ix, 8)"), ("i8", "(bs, ix, 8)")]
    if tier == "quick":
        forms = [forms[0], forms[4], forms[6]]
    for t in types:
        funcs, ents = [], []
        for fnm, syn in forms:
            funcs.append(("c20_ld_%s_%s" % (t, fnm), "i64, p:bs, i64:ix", ["local i64:r", "mov r, %s:%s" % (t, syn), "ret r"]))
            funcs.append(("c20_st_%s_%s" % (t, fnm), "i64, p:bs, i64:ix, i64:v", ["mov %s:%s, v" % (t, syn), "ret 0"]))
            ents += ["c20_ld_%s_%s bs=buf64 ix=set0,1,2" % (t, fnm), "c20_st_%s_%s bs=buf64 ix=set0,1,2" % (t, fnm)]
        u.module("mem_" + t, [], funcs, ents)
    for t, mv in (("f", "fmov"), ("d", "dmov"), ("ld", "ldmov")):
        funcs = [("c20_ld_" + t, "%s, p:bs, i64:ix" % t, ["local %s:r" % t, "%s r, %s:16(bs, ix, 8)" % (mv, t), "ret r"]),
                 ("c20_st_" + t, "i64, p:bs, i64:ix, %s:v" % t, ["%s %s:16(bs, ix, 8), v" % (mv, t), "ret 0"])]
        u.module("mem_" + t, [], funcs, ["c20_ld_%s bs=buf64 ix=set0,2" % t, "c20_st_%s bs=buf64 ix=set0,2" % t])
    # data items: one named item per module form, read back through loads
    dvals = {"i8": "-3, 100", "u8": "200, 7", "i16": "-300, 5", "u16": "65000, 1", "i32": "-70000, 9", "u32": "4000000000, 2", "i64": "-5000000000, 3", "u64": "18000000000000000000, 4"}
    for t, vs in dvals.items():
        sz = M.TSIZE[t]
        u.module("dat_" + t, ["dv: %s %s" % (t, vs)], [("c20_dat_" + t, "i64, i64:i", ["local i64:a, i64:r", "mov a, dv", "mov r, %s:(a, i, %d)" % (t, sz), "ret r"])], ["c20_dat_%s i=set0,1" % t])
    u.module("dat_one", ["dv: i32 77"], [("c20_dat_one", "i64", ["local i64:a, i64:r", "mov a, dv", "mov r, i32:(a)", "ret r"])], ["c20_dat_one"], solo=True)
    u.module("dat_fp", ["df: f 1.5f, -0.0f", "dd: d 0.1, 1e308", "dl: ld 1.25L, 3.0L"],
             [("c20_dat_f", "f, i64:i", ["local i64:a, f:r", "mov a, df", "fmov r, f:(a, i, 4)", "ret r"]), ("c20_dat_d", "d, i64:i", ["local i64:a, d:r", "mov a, dd", "dmov r, d:(a, i, 8)", "ret r"]),
              ("c20_dat_ld", "ld, i64:i", ["local i64:a, ld:r", "mov a, dl", "ldmov r, ld:(a)", "ret r"])], ["c20_dat_f i=set0,1", "c20_dat_d i=set0,1", "c20_dat_ld i=set0"])
    u.module("dat_bss", ["bb: bss 16"], [("c20_dat_bss", "i64, i64:v", ["local i64:a, i64:r", "mov a, bb", "mov r, i64:8(a)", "mov i64:8(a), v", "xor r, r, i64:8(a)", "ret r"])], ["c20_dat_bss"])
    u.module("dat_str", ["ss: string \"hi!\""], [("c20_dat_str", "i64, i64:i", ["local i64:a, i64:r", "mov a, ss", "mov r, u8:(a, i)", "ret r"]),
                                                   ("c20_op_str", "i64, i64:i", ["local i64:a, i64:r", "mov a, \"abc\\n\"", "mov r, u8:(a, i)", "ret r"])], ["c20_dat_str i=range0..3", "c20_op_str i=range0..4"])
    u.module("dat_ref", ["dv: i64 11, 22, 33", "rr: ref dv, 8"], [("c20_dat_ref", "i64", ["local i64:a, i64:r", "mov a, rr", "mov a, i64:(a)", "mov r, i64:(a)", "ret r"])], ["c20_dat_ref"], solo=True)
    u.module("dat_sect", ["dv: i32 1, 2", "    i16 3", "    i64 4"], [("c20_dat_sect", "i64", ["local i64:a, i64:r", "mov a, dv", "mov r, i16:8(a)", "ret r"])], ["c20_dat_sect"])
    u.module("dat_expr", ["c20_e: func i64", "  local i64:r", "  mov r, 42", "  ret r", "  endfunc", "ev: expr c20_e"], [("c20_dat_expr", "i64", ["local i64:a, i64:r", "mov a, ev", "mov r, i64:(a)", "ret r"])], ["c20_dat_expr"])
    u.module("mem_alloca", [], [("c20_alloca", "i64, i64:v, i64:n", ["local i64:p, i64:q, i64:r", "alloca p, 16", "alloca q, n", "mov i64:8(p), v", "mov i64:(q), n", "mov r, i64:8(p)", "xor r, r, i64:(q)", "ret r"])], ["c20_alloca n=set8,24"])
    u.module("mem_addr", [], [("c20_addr", "i64, i64:v", ["local i64:p, i64:r, i64:x", "mov x, v", "addr p, x", "mov r, i64:(p)", "addr8 p, x", "mov i8:(p), 5", "xor r, r, x", "ret r"])], ["c20_addr"])
    units.append(u)
    # ---- unit call: calls with every scalar type to externals and to MIR functions, string / block arguments
    u = Corpus("call")
    scal = ["i8", "u8", "i16", "u16", "i32", "u32", "i64", "u64", "f", "d", "ld"]
    for t in scal:
        rt = "i64" if t not in M.FP_TYPES else t
        mv = {"f": "fmov", "d": "dmov", "ld": "ldmov"}.get(t, "mov")
        xt = t if t != "ld" else "i64"  # an external's ld result would expose the stale upper bytes of the interpreter's result slot (harness artefact)
        it = ["px: proto %s, %s:a" % (xt, t), "pg: proto %s, %s:a" % (t, t), "  import c20x_" + t]
        g = ("c20_g_" + t, "%s, %s:a" % (t, t), ["ret a"])
        f1 = ("c20_cx_" + t, "%s, %s:a" % (rt if t != "ld" else "i64", rt), ["local %s:r" % (rt if t != "ld" else "i64"), "call px, c20x_%s, r, a" % t, "ret r"])
        f2 = ("c20_cm_" + t, "%s, %s:a" % (rt, rt), ["local %s:r" % rt, "call pg, c20_g_%s, r, a" % t, "ret r"])
        u.module("call_" + t, it, [g, f1, f2], [g[0], f1[0], f2[0]])
    u.module("call_misc", ["pv: proto i32, p:s, i64:a, ...", "p0: proto", "pb: proto i64, blk:16(b), i64:v", "  import c20x_v, c20x_0"],
             [("c20_gb", "i64, blk:16(b), i64:v", ["local i64:r", "mov r, i64:(b)", "or v, v, 0x5a5a", "mov i64:(b), v", "xor r, r, i64:8(b)", "ret r"]),
              ("c20_cv", "i64, i64:a", ["local i64:r", "call pv, c20x_v, r, \"fmt\", a, a, 2.5", "call p0, c20x_0", "ret r"]),
              ("c20_cb", "i64, p:buf, i64:v", ["local i64:r", "call pb, c20_gb, r, blk:16(buf), v", "xor r, r, i64:(buf)", "ret r"])], ["c20_cv", "c20_cb buf=buf16"], solo=True)
    units.append(u)
    # ---- unit imm: immediates on a boundary grid
    u = Corpus("imm")
    funcs = []
    for i, v in enumerate([0, 1, -1, 127, -128, 255, 0x7fff, 0x7fffffff, 0x80000000, -0x80000000, 0xffffffff, 0x100000000, 0x7fffffffffffffff, -0x8000000000000000, 0xffffffffffffffff]):
        funcs.append(("c20_imm_%d" % i, "i64, i64:a", ["local i64:r", "mov r, %d" % v, "xor r, r, a", "ret r"]))
    u.module("imm_int", [], funcs, [f[0] for f in funcs])
    for t, mv, sfx, vals in (("f", "fmov", "f", ["0.0", "-0.0", "1.5", "3.4028235e38", "1.17549435e-38", "1.0e-45", "16777217.0", "0.1"]),
                             ("d", "dmov", "", ["0.0", "-0.0", "1.5", "1.7976931348623157e308", "2.2250738585072014e-308", "4.9e-324", "0.1", "9007199254740993.0"]),
                             ("ld", "ldmov", "L", ["0.0", "-0.0", "1.5", "0.1", "1.0e4000", "3.6e-4951", "18446744073709551617.0"])):
        funcs = [("c20_imm_%s_%d" % (t, i), t, ["local %s:r" % t, "%s r, %s%s" % (mv, v, sfx), "ret r"]) for i, v in enumerate(vals)]
        u.module("imm_" + t, [], funcs, [f[0] for f in funcs])
    # fp immediates as operands of arithmetic insns (no move insn involved; DESIGN.md F8: long double printed from op.u.d)
    for t, sfx in (("f", "f"), ("d", ""), ("ld", "L")):
        first = ("c20_immop_" + t, "%s, %s:a" % (t, t), ["local %s:r" % t, "%ssub r, a, 1.5%s" % (t if t != "f" else "f", sfx), "ret r"])
        if t == "ld":  # constant left operand: a symbolic x87/binary128 subtraction on two legs with DIFFERENT constants costs the SAT back end 10+ minutes
            first = ("c20_immop_ld", "ld", ["local ld:r, ld:x, i64:k", "mov k, 4", "i2ld x, k", "ldsub r, x, 1.5L", "ret r"])
        u.module("imm_op_" + t, [], [first,
                                     ("c20_immop2_" + t, "i64, %s:a" % t, ["local i64:r", "%slt r, a, 0.1%s" % (t if t != "f" else "f", sfx), "ret r"])], ["c20_immop_" + t, "c20_immop2_" + t], solo=(t == "ld"))
    for t, mv, sfx, v in (("f", "fmov", "f", "1.0e39"), ("d", "dmov", "", "1.0e999"), ("ld", "ldmov", "L", "1.0e9999")):
        u.module("imm_inf_" + t, [], [("c20_imm_inf_" + t, t, ["local %s:r" % t, "%s r, %s%s" % (mv, v, sfx), "ret r"])], ["c20_imm_inf_" + t])
    units.append(u)
    n = sum(u.write(outdir) for u in units)
    print("gen_c20: %d units, %d modules" % (n, sum(len(u.mods) + len(u.solos) for u in units)))


if __name__ == "__main__":
    if sys.argv[1] == "corpus":
        corpus(sys.argv[2], sys.argv[3])
    else:
        tr = None
        if "--translated" in sys.argv:
            tr = set(sys.argv[sys.argv.index("--translated") + 1].split(","))
        gen_harness(sys.argv[2], sys.argv[3], sys.argv[4], tr)
