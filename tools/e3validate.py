#!/usr/bin/env python3
"""e3validate.py -- full native validation run of the E3 lifter.

usage: e3validate.py [--states N] [--seed S] [--levels 0,2] [--quick] [--workdir DIR]

Builds mirgen-dump from /repo's working tree, then runs liftcheck on
  * the one-instruction families of gen_oneinsn.py (int, branch, fp, ld, misc) at each -O level,
  * the same with --near-externs (rel32 calls) for the misc family,
  * every /repo/mir-tests/test*.mir that the generator accepts, at each level,
  * the trampolines dump (thunks, wrappers, bb thunks, ff_call / interp shim for the default prototypes),
  * the hand-written snippet corpus of gen_asmcorpus.py (instruction forms the generator does not emit).
Prints one line per dump and a total; exit 0 iff no region disagrees and the lifter accepted everything.
"""
import concurrent.futures as cf
import glob
import os
import re
import subprocess
import sys
import tempfile
import shutil

HERE = os.path.dirname(os.path.abspath(__file__))
sys.path.insert(0, HERE)
import liftcheck  # noqa: E402

REPO = os.environ.get("VERIF_REPO", "/repo")


def main():
    args = sys.argv[1:]
    states, seed, levels, work = 2000, int(os.environ.get("VERIF_SEED", "1") or 1), [0, 2], None
    i = 0
    while i < len(args):
        if args[i] == "--states":
            states = int(args[i + 1]); i += 2
        elif args[i] == "--seed":
            seed = int(args[i + 1], 0); i += 2
        elif args[i] == "--levels":
            levels = [int(x) for x in args[i + 1].split(",")]; i += 2
        elif args[i] == "--quick":
            states, levels = 300, [2]; i += 1
        elif args[i] == "--workdir":
            work = args[i + 1]; i += 2
        else:
            sys.stderr.write(__doc__); sys.exit(2)
    tmp = work or tempfile.mkdtemp(prefix="e3-validate-")
    os.makedirs(tmp, exist_ok=True)
    try:
        p = subprocess.run([os.path.join(HERE, "e3build.sh"), tmp], capture_output=True, text=True)
        if p.returncode != 0:
            print(p.stdout + p.stderr)
            return 3
        md = os.path.join(tmp, "mirgen-dump")
        jobs = []  # (label, dump path)
        notes = []

        def dump(label, argv, out):
            with open(out, "w") as f:
                p = subprocess.run([md] + argv, stdout=f, stderr=subprocess.PIPE, text=True)
            if p.returncode != 0:
                notes.append("GENERATOR-REJECTED %s: rc=%s %s" % (label, p.returncode, p.stderr.strip().splitlines()[-1][:200] if p.stderr.strip() else ""))
                return
            jobs.append((label, out))

        for fam in ("int", "branch", "fp", "ld", "misc"):
            mir = os.path.join(tmp, "one_%s.mir" % fam)
            with open(mir, "w") as f:
                subprocess.run([sys.executable, os.path.join(HERE, "gen_oneinsn.py"), "--family", fam], stdout=f, check=True)
            for lv in levels:
                dump("oneinsn-%s-O%d" % (fam, lv), ["-O%d" % lv, mir], os.path.join(tmp, "one_%s.O%d.json" % (fam, lv)))
            if fam == "misc":
                dump("oneinsn-misc-O2-near", ["-O2", "--near-externs", mir], os.path.join(tmp, "one_misc.near.json"))
        for t in sorted(glob.glob(os.path.join(REPO, "mir-tests", "test*.mir"))):
            b = os.path.basename(t)[:-4]
            for lv in levels:
                dump("%s-O%d" % (b, lv), ["-O%d" % lv, t], os.path.join(tmp, "%s.O%d.json" % (b, lv)))
        dump("trampolines", ["--trampolines"], os.path.join(tmp, "tramp.json"))
        # hand-written snippets for instructions / forms the generator does not emit in the corpus above
        asmj = os.path.join(tmp, "asm.json")
        with open(asmj, "w") as f:
            p = subprocess.run([sys.executable, os.path.join(HERE, "gen_asmcorpus.py")], stdout=f, stderr=subprocess.PIPE, text=True)
        if p.returncode == 0:
            jobs.append(("asm-corpus", asmj))
        else:
            notes.append("ASM-CORPUS not built: " + p.stderr[-200:])

        tot_regions = tot_agree = tot_skip = tot_bad = 0
        failed = False

        def one(job):
            label, path = job
            rc, out = liftcheck.run(path, states, seed, quiet=True)
            return label, rc, out

        with cf.ThreadPoolExecutor(max(1, (os.cpu_count() or 4))) as ex:
            for label, rc, out in ex.map(one, jobs):
                m = re.search(r"TOTAL regions=(\d+) states_agreed=(\d+) states_skipped=(\d+) regions_disagree=(\d+)", out)
                if rc == 3 or not m:
                    failed = True
                    print("%-28s LIFTER/BUILD ERROR: %s" % (label, out.strip().splitlines()[-1][:300] if out.strip() else "?"))
                    continue
                r, a, s, b = (int(x) for x in m.groups())
                nocover = len(re.findall(r"^NOCOVER", out, re.M))
                tot_regions += r; tot_agree += a; tot_skip += s; tot_bad += b
                print("%-28s regions=%-5d states_agreed=%-8d skipped=%-7d nocover_regions=%-3d disagree_regions=%d" % (label, r, a, s, nocover, b))
                for line in out.splitlines():
                    if line.startswith("  DISAGREE") or line.startswith("DISAGREE"):
                        print("    " + line.strip()[:400])
        for n in notes:
            print(n)
        print("E3-VALIDATION dumps=%d regions=%d states_agreed=%d states_skipped=%d regions_disagree=%d states_per_region=%d seed=%d levels=%s"
              % (len(jobs), tot_regions, tot_agree, tot_skip, tot_bad, states, seed, levels))
        return 1 if (tot_bad or failed) else 0
    finally:
        if not work:
            shutil.rmtree(tmp, ignore_errors=True)


if __name__ == "__main__":
    sys.exit(main())
