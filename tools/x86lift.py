#!/usr/bin/env python3
"""x86lift.py -- translate machine code dumped by mirgen-dump into C for CBMC / gcc (engine E3).

usage: x86lift.py dump.json [-o out.c] [--only name[,name..]] [--no-dispatch]

Trusted base: GNU objdump (binutils) does the instruction decoding
  objdump -D -b binary -m i386:x86-64 -M intel --insn-width=16 --adjust-vma=<addr>
and this script translates the instruction TEXT.  Anything it does not know makes it exit with
status 3 naming the instruction -- nothing is ever skipped silently.  The translation is validated
natively by tools/liftcheck.py (real bytes vs lifted C on random states).

Generated code: see lift_rt.h / README-E3.md.
"""
import json
import os
import re
import subprocess
import sys
import tempfile


class LiftError(Exception):
    pass


KNOWN_RANGES = None  # [(lo, hi)] of every address the dump explains (regions, symbols, data items); set in main


def die(msg):
    sys.stderr.write("x86lift: " + msg + "\n")
    sys.exit(3)


R64 = ["rax", "rcx", "rdx", "rbx", "rsp", "rbp", "rsi", "rdi"] + ["r%d" % i for i in range(8, 16)]
R32 = ["eax", "ecx", "edx", "ebx", "esp", "ebp", "esi", "edi"] + ["r%dd" % i for i in range(8, 16)]
R16 = ["ax", "cx", "dx", "bx", "sp", "bp", "si", "di"] + ["r%dw" % i for i in range(8, 16)]
R8 = ["al", "cl", "dl", "bl", "spl", "bpl", "sil", "dil"] + ["r%db" % i for i in range(8, 16)]
GPR = {}
for i in range(16):
    GPR[R64[i]] = (i, 64)
    GPR[R32[i]] = (i, 32)
    GPR[R16[i]] = (i, 16)
    GPR[R8[i]] = (i, 8)
HIGH8 = {"ah", "ch", "dh", "bh"}
PTR = {"BYTE": 8, "WORD": 16, "DWORD": 32, "QWORD": 64, "XMMWORD": 128, "TBYTE": 80, "FWORD": 48, "OWORD": 128}
UT = {8: "uint8_t", 16: "uint16_t", 32: "uint32_t", 64: "uint64_t"}
ST = {8: "int8_t", 16: "int16_t", 32: "int32_t", 64: "int64_t"}

CC = {
    "o": "O", "no": "NO", "b": "B", "c": "B", "nae": "B", "ae": "AE", "nb": "AE", "nc": "AE",
    "e": "E", "z": "E", "ne": "NE", "nz": "NE", "be": "BE", "na": "BE", "a": "A", "nbe": "A",
    "s": "S", "ns": "NS", "p": "P", "pe": "P", "np": "NP", "po": "NP",
    "l": "L", "nge": "L", "ge": "GE", "nl": "GE", "le": "LE", "ng": "LE", "g": "G", "nle": "G",
}
# flags read by each condition (for --flags live)
CC_READS = {"O": "o", "NO": "o", "B": "c", "AE": "c", "E": "z", "NE": "z", "BE": "cz", "A": "cz", "S": "s", "NS": "s",
            "P": "p", "NP": "p", "L": "so", "GE": "so", "LE": "zso", "G": "zso"}


class Reg:
    def __init__(self, name):
        self.name = name
        if name in HIGH8:
            raise LiftError("high-byte register %s is not supported" % name)
        self.idx, self.w = GPR[name]

    kind = "reg"


class Xmm:
    kind = "xmm"

    def __init__(self, i):
        self.idx = i


class St:
    kind = "st"

    def __init__(self, i):
        self.idx = i


class Imm:
    kind = "imm"

    def __init__(self, v):
        self.v = v


class Mem:
    kind = "mem"

    def __init__(self, size, base, index, scale, disp, rip):
        self.size, self.base, self.index, self.scale, self.disp, self.rip = size, base, index, scale, disp, rip


class Insn:
    def __init__(self, addr, raw, text):
        self.addr, self.raw, self.text = addr, raw, text
        self.len = len(raw)
        self.next = addr + self.len
        self.prefixes = []
        self.mn = None
        self.ops = []
        self.opstr = ""


LINE_RE = re.compile(r"^\s*([0-9a-f]+):\t((?:[0-9a-f]{2} )+)\s*\t?(.*)$")
PREFIX_WORDS = {"rex", "rex.W", "rex.R", "rex.X", "rex.B", "rex.WR", "rex.WX", "rex.WB", "rex.RX", "rex.RB", "rex.XB",
                "rex.WRX", "rex.WRB", "rex.WXB", "rex.RXB", "rex.WRXB", "data16", "cs", "ds", "es", "ss", "notrack", "bnd"}


def run_objdump(data, vma):
    with tempfile.NamedTemporaryFile(prefix="e3-lift-", suffix=".bin", delete=False) as f:
        f.write(data)
        path = f.name
    try:
        out = subprocess.run(["objdump", "-D", "-b", "binary", "-m", "i386:x86-64", "-M", "intel", "--insn-width=16",
                              "--adjust-vma=0x%x" % vma, path], capture_output=True, text=True, check=True).stdout
    finally:
        os.unlink(path)
    res = []
    for line in out.splitlines():
        m = LINE_RE.match(line)
        if not m:
            continue
        addr = int(m.group(1), 16)
        raw = bytes.fromhex(m.group(2).replace(" ", ""))
        res.append(Insn(addr, raw, m.group(3).strip()))
    return res


def split_ops(s):
    ops, depth, cur = [], 0, ""
    for ch in s:
        if ch == "[":
            depth += 1
        elif ch == "]":
            depth -= 1
        if ch == "," and depth == 0:
            ops.append(cur.strip())
            cur = ""
        else:
            cur += ch
    if cur.strip():
        ops.append(cur.strip())
    return ops


def parse_int(t):
    t = t.strip()
    neg = t.startswith("-")
    if neg:
        t = t[1:]
    v = int(t, 16) if t.startswith("0x") else int(t, 10)
    return -v if neg else v


def parse_operand(t):
    t = t.strip()
    if t in GPR or t in HIGH8:
        return Reg(t)
    m = re.match(r"^xmm(\d+)$", t)
    if m:
        return Xmm(int(m.group(1)))
    if t == "st":
        return St(0)
    m = re.match(r"^st\((\d)\)$", t)
    if m:
        return St(int(m.group(1)))
    m = re.match(r"^(?:(\w+) PTR )?(?:(\w\w):)?\[(.*)\]$", t)
    if m:
        size = PTR[m.group(1)] if m.group(1) else 0
        if m.group(2) and m.group(2) not in ("ds", "ss"):
            raise LiftError("segment override %s" % m.group(2))
        base = index = None
        scale, disp, rip = 1, 0, False
        expr = m.group(3).replace("-", "+-")
        for term in expr.split("+"):
            term = term.strip()
            if not term:
                continue
            if "*" in term:
                r, sc = term.split("*")
                index, scale = GPR[r][0], int(sc)
                if GPR[r][1] != 64:
                    raise LiftError("non-64-bit index register")
            elif term == "rip":
                rip = True
            elif term in GPR:
                if GPR[term][1] != 64:
                    raise LiftError("non-64-bit address register")
                if base is None:
                    base = GPR[term][0]
                elif index is None:
                    index, scale = GPR[term][0], 1
                else:
                    raise LiftError("bad address")
            else:
                disp += parse_int(term)
        return Mem(size, base, index, scale, disp, rip)
    m = re.match(r"^(?:(\w+) PTR )?(?:ds:)?(0x[0-9a-f]+)$", t)
    if m and m.group(1):
        return Mem(PTR[m.group(1)], None, None, 1, int(m.group(2), 16), False)
    if re.match(r"^-?(0x[0-9a-f]+|\d+)$", t):
        return Imm(parse_int(t))
    raise LiftError("cannot parse operand '%s'" % t)


def parse_insn(ins):
    text = ins.text
    if "(bad)" in text or text == "":
        raise LiftError("undecodable bytes %s at 0x%x" % (ins.raw.hex(), ins.addr))
    text = re.sub(r"\s+#.*$", "", text)
    text = re.sub(r"\s*<[^>]*>\s*$", "", text)
    words = text.split(None, 1)
    while words and words[0] in PREFIX_WORDS and len(words) > 1:
        ins.prefixes.append(words[0])
        words = words[1].split(None, 1)
    if words[0] in ("rep", "repz", "repe", "repnz", "repne", "lock"):
        ins.prefixes.append(words[0])
        words = words[1].split(None, 1) if len(words) > 1 else [""]
    ins.mn = words[0]
    ins.opstr = words[1] if len(words) > 1 else ""
    if ins.mn in ("nop", "endbr64", "fnop"):
        ins.ops = []
    else:
        ins.ops = [parse_operand(o) for o in split_ops(ins.opstr)]
    return ins


class Region:
    def __init__(self, d):
        self.name = d["name"]
        self.kind = d.get("kind", "func")
        self.addr = int(d["addr"], 16)
        self.bytes = bytes.fromhex(d["bytes"])
        self.len = len(self.bytes)
        self.code_end = d.get("code_end", self.len)
        self.abs_locs = set(d.get("abs_locs", []))
        self.cname = "lift_" + re.sub(r"\W", "_", self.name)
        self.d = d

    def contains(self, a):
        return self.addr <= a < self.addr + self.len

    def code_contains(self, a):
        return self.addr <= a < self.addr + self.code_end

    def read(self, a, n):
        o = a - self.addr
        if o < 0 or o + n > self.len:
            raise LiftError("read of %d bytes at 0x%x outside region %s" % (n, a, self.name))
        return int.from_bytes(self.bytes[o:o + n], "little")


class Lifter:
    def __init__(self, region, extra_entries=(), flags_mode="all"):
        self.r = region
        self.insns = {}       # addr -> Insn (decoded candidates)
        self.reach = {}       # addr -> Insn reachable
        self.labels = set()   # addresses needing a C label
        self.taken = set(extra_entries)  # address-taken code labels (targets of indirect jumps)
        self.tables = {}      # addr of jmp insn -> (idx_reg, [targets], table_end)
        self.flags_mode = flags_mode
        self.out = []

    # ---------------- decoding / reachability ----------------
    def decode_at(self, a):
        if a in self.insns:
            return self.insns[a]
        if not self.r.code_contains(a):
            return None
        off = a - self.r.addr
        for ins in run_objdump(self.r.bytes[off:self.r.code_end], a):
            if ins.addr in self.insns and ins.addr != a:
                break  # re-synchronised with an earlier sweep
            if ins.addr + ins.len > self.r.addr + self.r.code_end:
                break
            self.insns[ins.addr] = ins
        return self.insns.get(a)

    def table_for(self, ins, prev):
        """jmp QWORD PTR [r11+idx*8] preceded by lea r11,[rip+T] -> (idx_reg, targets, table_end)"""
        m = ins.ops[0]
        if m.kind != "mem" or m.base is None or m.index is None or m.scale != 8 or m.disp != 0 or m.rip:
            return None
        if prev is None or prev.mn != "lea" or prev.ops[0].kind != "reg" or prev.ops[0].idx != m.base or prev.ops[0].w != 64:
            return None
        pm = prev.ops[1]
        if not pm.rip or pm.base is not None or pm.index is not None:
            return None
        t = prev.next + pm.disp
        if not self.r.contains(t):
            return None
        targets = []
        o = t - self.r.addr
        while o in self.r.abs_locs:
            targets.append(self.r.read(self.r.addr + o, 8))
            o += 8
        if not targets:
            return None
        return (m.index, targets, self.r.addr + o)

    def explore(self):
        work = [self.r.addr] + sorted(self.taken)
        prev_of = {}
        while work:
            a = work.pop()
            if a in self.reach:
                continue
            ins = self.decode_at(a)
            if ins is None:
                raise LiftError("control reaches 0x%x which is not decodable code of region %s" % (a, self.r.name))
            if ins.mn is None:
                try:
                    parse_insn(ins)
                except LiftError as e:
                    raise LiftError("%s [0x%x: %s  %s]" % (e, ins.addr, ins.raw.hex(), ins.text))
            self.reach[a] = ins
            succ = []
            mn = ins.mn
            if mn == "jmp":
                op = ins.ops[0]
                if op.kind == "imm":
                    if self.r.code_contains(op.v):
                        succ.append(op.v)
                        self.labels.add(op.v)
                elif op.kind == "mem":
                    pv = prev_of.get(a) or next((i for i in self.insns.values() if i.next == a and i.mn is not None), None)
                    tb = self.table_for(ins, pv)
                    if tb is not None:
                        self.tables[a] = tb
                        for t in tb[1]:
                            if not self.r.code_contains(t):
                                raise LiftError("switch table entry 0x%x outside region" % t)
                            succ.append(t)
                            self.labels.add(t)
                    elif op.rip:
                        t = self.r.read(ins.next + op.disp, 8)
                        if self.r.code_contains(t):
                            succ.append(t)
                            self.labels.add(t)
            elif mn.startswith("j") and mn[1:] in CC:
                t = ins.ops[0].v
                if self.r.code_contains(t):
                    succ.append(t)
                    self.labels.add(t)
                succ.append(ins.next)
            elif mn in ("ret", "ud2", "int3", "hlt"):
                pass
            else:
                succ.append(ins.next)
                if mn == "lea" and ins.ops[1].rip and ins.ops[1].base is None:
                    t = ins.next + ins.ops[1].disp
                    if self.r.code_contains(t) and not self._is_table_lea(ins):
                        self.taken.add(t)
                        self.labels.add(t)
                        succ.append(t)
            for s in succ:
                if self.r.code_contains(s):
                    if s == ins.next and mn != "jmp":
                        prev_of[s] = ins
                    work.append(s)
                elif self.r.contains(s):
                    raise LiftError("control flows into the constant pool at 0x%x" % s)
        for t in self.taken:
            self.labels.add(t)
        for a in self.tables:
            if a in self.labels:
                raise LiftError("switch jmp at 0x%x is itself a jump target: table base register not provably set" % a)

    def _is_table_lea(self, ins):
        t = ins.next + ins.ops[1].disp
        return (t - self.r.addr) in self.r.abs_locs

    # ---------------- operand helpers ----------------
    def ea(self, m, ins):
        if m.rip:
            return "0x%xull" % ((ins.next + m.disp) & 0xffffffffffffffff)
        terms = []
        if m.base is not None:
            terms.append("s->r[%d]" % m.base)
        if m.index is not None:
            terms.append("s->r[%d]" % m.index if m.scale == 1 else "s->r[%d] * %du" % (m.index, m.scale))
        if m.disp != 0 or not terms:
            terms.append("0x%xull" % (m.disp & 0xffffffffffffffff))
        return " + ".join(terms)

    def const_mem(self, m, ins, nbytes):
        """rip-relative read inside the region (constant pool / tables): value as int, else None"""
        if not m.rip:
            return None
        a = ins.next + m.disp
        if self.r.contains(a) and self.r.contains(a + nbytes - 1):
            return self.r.read(a, nbytes)
        return None

    def rd(self, op, w, ins):
        """C expression (type uint<w>_t) for reading an integer operand"""
        if op.kind == "reg":
            if op.w != w:
                raise LiftError("operand width mismatch")
            return "s->r[%d]" % op.idx if w == 64 else "(%s) s->r[%d]" % (UT[w], op.idx)
        if op.kind == "imm":
            return "(%s) 0x%xull" % (UT[w], op.v & ((1 << w) - 1))
        if op.kind == "mem":
            c = self.const_mem(op, ins, w // 8)
            if c is not None:
                return "(%s) 0x%xull" % (UT[w], c)
            return "X86_M%d (ea)" % w
        raise LiftError("bad integer operand")

    def wr(self, op, w, expr):
        if op.kind == "reg":
            if op.w != w:
                raise LiftError("operand width mismatch")
            return "x86_w%d (s, %d, %s);" % (w, op.idx, expr)
        if op.kind == "mem":
            return "X86_M%d (ea) = %s;" % (w, expr)
        raise LiftError("bad destination")

    def width(self, ins):
        """operand size of an instruction: the destination (first operand) decides; e.g. `shl QWORD PTR [rdx],cl` is 64-bit"""
        if ins.ops and ins.ops[0].kind == "reg":
            return ins.ops[0].w
        if ins.ops and ins.ops[0].kind == "mem" and ins.ops[0].size:
            return ins.ops[0].size
        for op in ins.ops:
            if op.kind == "reg":
                return op.w
        for op in ins.ops:
            if op.kind == "mem" and op.size:
                return op.size
        raise LiftError("cannot determine operand size")

    def mem_of(self, ins):
        ms = [o for o in ins.ops if o.kind == "mem"]
        if len(ms) > 1:
            raise LiftError("two memory operands")
        return ms[0] if ms else None

    # xmm helpers: read low 32 / low 64 / 128 bits as integer patterns
    def xrd32(self, op, ins):
        if op.kind == "xmm":
            return "(uint32_t) s->xmm[%d][0]" % op.idx
        if op.kind == "mem":
            c = self.const_mem(op, ins, 4)
            return "(uint32_t) 0x%xu" % c if c is not None else "X86_M32 (ea)"
        if op.kind == "reg" and op.w == 32:
            return "(uint32_t) s->r[%d]" % op.idx
        raise LiftError("bad 32-bit xmm source")

    def xrd64(self, op, ins):
        if op.kind == "xmm":
            return "s->xmm[%d][0]" % op.idx
        if op.kind == "mem":
            c = self.const_mem(op, ins, 8)
            return "0x%xull" % c if c is not None else "X86_M64 (ea)"
        if op.kind == "reg" and op.w == 64:
            return "s->r[%d]" % op.idx
        raise LiftError("bad 64-bit xmm source")

    def xrd128(self, op, ins):
        if op.kind == "xmm":
            return ("s->xmm[%d][0]" % op.idx, "s->xmm[%d][1]" % op.idx)
        if op.kind == "mem":
            c = self.const_mem(op, ins, 16)
            if c is not None:
                return ("0x%xull" % (c & 0xffffffffffffffff), "0x%xull" % (c >> 64))
            return ("X86_M64 (ea)", "X86_M64 (ea + 8)")
        raise LiftError("bad 128-bit source")

    # ---------------- exits ----------------
    def exit_stmt(self, kind, target):
        return "{ s->exit_kind = %s; s->exit_target = %s; return; }" % (kind, target)

    def goto_or_exit(self, t):
        if self.r.code_contains(t):
            return "goto L_%x;" % t
        return self.exit_stmt("X86_EXIT_JUMP", "0x%xull" % t)

    def indirect(self, texpr):
        """dispatch an indirect jump: known address-taken labels of the region, else exit"""
        lines = ["{ uint64_t t = %s;" % texpr]
        if self.taken:
            lines.append("  switch (t) {")
            for t in sorted(self.taken):
                lines.append("  case 0x%xull: goto L_%x;" % (t, t))
            lines.append("  default: break;")
            lines.append("  }")
        lines.append("  s->exit_kind = X86_EXIT_INDIRECT; s->exit_target = t; return; }")
        return lines

    # ---------------- instruction semantics ----------------
    def emit(self, ins, prev):
        mn, ops = ins.mn, ins.ops
        L = []
        m = self.mem_of(ins) if mn not in ("nop", "endbr64", "fnop") else None
        need_ea = m is not None and mn != "lea" and not (m.rip and self.r.contains(ins.next + m.disp))
        if mn == "lea":
            need_ea = False
        if need_ea:
            L.append("uint64_t ea = %s;" % self.ea(m, ins))
        pf = [p for p in ins.prefixes if p in ("rep", "repz", "repe", "repnz", "repne", "lock")]
        if pf and not (mn == "ret" and pf[0] in ("rep", "repz")):
            raise LiftError("prefix %s is not supported" % pf[0])
        falls = True

        ALU2 = {"add": "add", "adc": "adc", "sub": "sub", "sbb": "sbb"}
        LOGIC = {"and": "&", "or": "|", "xor": "^"}
        if mn in ("nop", "endbr64", "fnop", "wait", "fwait"):
            pass
        elif mn == "xchg" and ops[0].kind == "reg" and ops[1].kind == "reg" and ops[0].idx == ops[1].idx and ops[0].w == ops[1].w and ops[0].w != 32:
            pass  # 66 90: xchg ax,ax
        elif mn in ("mov", "movabs"):
            w = self.width(ins)
            if mn == "movabs" and ops[1].kind == "imm" and KNOWN_RANGES is not None and 0x100000000000 <= ops[1].v < 0x400000000000:
                if not any(lo <= ops[1].v < hi for lo, hi in KNOWN_RANGES):
                    sys.stderr.write("x86lift: warning: %s at 0x%x: absolute address 0x%x is not a symbol / data item / region of the dump\n"
                                     % (self.r.name, ins.addr, ops[1].v))
            L.append(self.wr(ops[0], w, self.rd(ops[1], w, ins)))
        elif mn == "movzx":
            sw = ops[1].w if ops[1].kind == "reg" else ops[1].size
            L.append(self.wr(ops[0], ops[0].w, "(%s) %s" % (UT[ops[0].w], self.rd(ops[1], sw, ins))))
        elif mn in ("movsx", "movsxd"):
            sw = ops[1].w if ops[1].kind == "reg" else ops[1].size
            L.append(self.wr(ops[0], ops[0].w, "(%s) (%s) (%s) %s" % (UT[ops[0].w], ST[ops[0].w], ST[sw], self.rd(ops[1], sw, ins))))
        elif mn == "lea":
            w = ops[0].w
            e = self.ea(ops[1], ins)
            L.append(self.wr(ops[0], w, "(%s) (%s)" % (UT[w], e)))
        elif mn in ALU2:
            w = self.width(ins)
            L.append("%s a = %s, b = %s;" % (UT[w], self.rd(ops[0], w, ins), self.rd(ops[1], w, ins)))
            L.append(self.wr(ops[0], w, "x86_%s%d (s, a, b)" % (ALU2[mn], w)))
        elif mn == "cmp":
            w = self.width(ins)
            L.append("%s a = %s, b = %s;" % (UT[w], self.rd(ops[0], w, ins), self.rd(ops[1], w, ins)))
            L.append("(void) x86_sub%d (s, a, b);" % w)
        elif mn in LOGIC:
            w = self.width(ins)
            L.append("%s a = %s, b = %s;" % (UT[w], self.rd(ops[0], w, ins), self.rd(ops[1], w, ins)))
            L.append(self.wr(ops[0], w, "x86_logic%d (s, (%s) (a %s b))" % (w, UT[w], LOGIC[mn])))
        elif mn == "test":
            w = self.width(ins)
            L.append("%s a = %s, b = %s;" % (UT[w], self.rd(ops[0], w, ins), self.rd(ops[1], w, ins)))
            L.append("(void) x86_logic%d (s, (%s) (a & b));" % (w, UT[w]))
        elif mn in ("neg", "inc", "dec"):
            w = self.width(ins)
            L.append("%s a = %s;" % (UT[w], self.rd(ops[0], w, ins)))
            L.append(self.wr(ops[0], w, "x86_%s%d (s, a)" % (mn, w)))
        elif mn == "not":
            w = self.width(ins)
            L.append(self.wr(ops[0], w, "(%s) ~%s" % (UT[w], self.rd(ops[0], w, ins))))
        elif mn == "imul":
            w = self.width(ins)
            if len(ops) == 1:
                if w not in (32, 64):
                    raise LiftError("imul width")
                L.append("x86_imul1_%d (s, %s);" % (w, self.rd(ops[0], w, ins)))
            else:
                a, b = (ops[0], ops[1]) if len(ops) == 2 else (ops[1], ops[2])
                if w not in (16, 32, 64):
                    raise LiftError("imul width")
                L.append("%s a = %s, b = %s;" % (UT[w], self.rd(a, w, ins), self.rd(b, w, ins)))
                L.append(self.wr(ops[0], w, "x86_imul%d (s, a, b)" % w))
        elif mn == "mul":
            w = self.width(ins)
            if w not in (32, 64):
                raise LiftError("mul width")
            L.append("x86_mul1_%d (s, %s);" % (w, self.rd(ops[0], w, ins)))
        elif mn in ("div", "idiv"):
            w = self.width(ins)
            if w not in (32, 64):
                raise LiftError("div width")
            suffix = ""
            if prev is not None and ins.addr not in self.labels:
                if mn == "idiv" and ((w == 64 and prev.mn == "cqo") or (w == 32 and prev.mn == "cdq")):
                    suffix = "_sx"
                if mn == "div" and prev.mn == "xor" and all(o.kind == "reg" and o.idx == 2 and o.w in (32, 64) for o in prev.ops):
                    suffix = "_zx"
            L.append("if (!x86_%s%d%s (s, %s)) %s" % (mn, w, suffix, self.rd(ops[0], w, ins),
                                                     self.exit_stmt("X86_EXIT_TRAP", "0x%xull" % ins.addr)))
        elif mn == "cqo":
            L.append("s->r[2] = (uint64_t) ((int64_t) s->r[0] >> 63);")
        elif mn == "cdq":
            L.append("s->r[2] = (uint32_t) ((int32_t) (uint32_t) s->r[0] >> 31);")
        elif mn == "cdqe":
            L.append("s->r[0] = (uint64_t) (int64_t) (int32_t) (uint32_t) s->r[0];")
        elif mn == "cwde":
            L.append("s->r[0] = (uint32_t) (int32_t) (int16_t) (uint16_t) s->r[0];")
        elif mn in ("shl", "sal", "shr", "sar"):
            w = self.width(ins)
            fn = {"shl": "shl", "sal": "shl", "shr": "shr", "sar": "sar"}[mn]
            mask = 0x3f if w == 64 else 0x1f
            if len(ops) == 1:
                cnt = "1u"
            elif ops[1].kind == "imm":
                cnt = "%du" % (ops[1].v & mask)
            elif ops[1].kind == "reg" and ops[1].name == "cl":
                cnt = "(unsigned) (s->r[1] & 0x%x)" % mask
            else:
                raise LiftError("bad shift count")
            L.append("%s a = %s;" % (UT[w], self.rd(ops[0], w, ins)))
            L.append(self.wr(ops[0], w, "x86_%s%d (s, a, %s)" % (fn, w, cnt)))
        elif mn.startswith("set") and mn[3:] in CC:
            L.append(self.wr(ops[0], 8, "(uint8_t) X86_CC_%s (s)" % CC[mn[3:]]))
        elif mn.startswith("cmov") and mn[4:] in CC:
            w = self.width(ins)
            # a 32-bit cmov always writes (zero-extends) the destination, even when the condition is false
            L.append("%s v = %s;" % (UT[w], self.rd(ops[1], w, ins)))
            L.append(self.wr(ops[0], w, "X86_CC_%s (s) ? v : %s" % (CC[mn[4:]], self.rd(ops[0], w, ins))))
        elif mn == "push":
            if ops[0].kind == "imm":
                v = "(uint64_t) (int64_t) (int32_t) 0x%xu" % (ops[0].v & 0xffffffff)
            else:
                if self.width(ins) != 64:
                    raise LiftError("push width")
                v = self.rd(ops[0], 64, ins)
            L.append("uint64_t v = %s;" % v)
            L.append("s->r[4] -= 8; X86_M64 (s->r[4]) = v;")
        elif mn == "pop":
            if self.width(ins) != 64:
                raise LiftError("pop width")
            L.append("uint64_t v = X86_M64 (s->r[4]);")
            L.append("s->r[4] += 8;")
            if ops[0].kind == "mem":
                raise LiftError("pop to memory")
            L.append(self.wr(ops[0], 64, "v"))
        elif mn == "leave":
            L.append("s->r[4] = s->r[5]; s->r[5] = X86_M64 (s->r[4]); s->r[4] += 8;")
        elif mn == "ret":
            if ops:
                raise LiftError("ret imm16")
            L.append("s->exit_target = X86_M64 (s->r[4]); s->r[4] += 8; s->exit_kind = X86_EXIT_RET; return;")
            falls = False
        elif mn in ("ud2", "int3", "hlt"):
            L.append(self.exit_stmt("X86_EXIT_TRAP", "0x%xull" % ins.addr)[2:-2].strip())
            falls = False
        elif mn == "call":
            op = ops[0]
            if op.kind == "imm":
                t = "0x%xull" % op.v
            elif op.kind == "reg":
                t = self.rd(op, 64, ins)
            else:
                c = self.const_mem(op, ins, 8)
                t = "0x%xull" % c if c is not None else "X86_M64 (ea)"
            L.append("uint64_t t = %s;" % t)
            L.append("s->r[4] -= 8; X86_M64 (s->r[4]) = 0x%xull;" % ins.next)
            L.append("x86_call (s, t);")
            L.append("if (s->exit_kind >= X86_EXIT_TRAP) return;")
            L.append("s->exit_kind = X86_EXIT_NONE;")
        elif mn == "jmp":
            op = ops[0]
            falls = False
            if op.kind == "imm":
                L.append(self.goto_or_exit(op.v))
            elif op.kind == "reg":
                L += self.indirect(self.rd(op, 64, ins))
            else:
                if ins.addr in self.tables:
                    idx, targets, _ = self.tables[ins.addr]
                    L.append("switch (s->r[%d]) {" % idx)
                    for i, t in enumerate(targets):
                        L.append("case %d: goto L_%x;" % (i, t))
                    L.append("default: s->exit_kind = X86_EXIT_UNDEF; s->exit_target = 0x%xull; return; /* index outside the table */" % ins.addr)
                    L.append("}")
                else:
                    c = self.const_mem(op, ins, 8)
                    if c is not None:
                        L.append(self.goto_or_exit(c))
                    else:
                        L += self.indirect("X86_M64 (ea)")
        elif mn.startswith("j") and mn[1:] in CC:
            L.append("if (X86_CC_%s (s)) %s" % (CC[mn[1:]], self.goto_or_exit(ops[0].v)))
        # ---------------- SSE ----------------
        elif mn == "movss":
            if ops[0].kind == "xmm" and ops[1].kind == "xmm":
                L.append("x86_xmm_w32 (s, %d, %s);" % (ops[0].idx, self.xrd32(ops[1], ins)))
            elif ops[0].kind == "xmm":
                L.append("s->xmm[%d][0] = %s; s->xmm[%d][1] = 0;" % (ops[0].idx, self.xrd32(ops[1], ins), ops[0].idx))
            else:
                L.append("X86_M32 (ea) = %s;" % self.xrd32(ops[1], ins))
        elif mn == "movsd":
            if ops[0].kind == "xmm" and ops[1].kind == "xmm":
                L.append("s->xmm[%d][0] = %s;" % (ops[0].idx, self.xrd64(ops[1], ins)))
            elif ops[0].kind == "xmm":
                L.append("s->xmm[%d][0] = %s; s->xmm[%d][1] = 0;" % (ops[0].idx, self.xrd64(ops[1], ins), ops[0].idx))
            else:
                L.append("X86_M64 (ea) = %s;" % self.xrd64(ops[1], ins))
        elif mn == "movd":
            if ops[0].kind == "xmm":
                L.append("s->xmm[%d][0] = %s; s->xmm[%d][1] = 0;" % (ops[0].idx, self.xrd32(ops[1], ins), ops[0].idx))
            else:
                L.append(self.wr(ops[0], 32, "(uint32_t) s->xmm[%d][0]" % ops[1].idx))
        elif mn == "movq":
            if ops[0].kind == "xmm":
                L.append("s->xmm[%d][0] = %s; s->xmm[%d][1] = 0;" % (ops[0].idx, self.xrd64(ops[1], ins), ops[0].idx))
            else:
                L.append(self.wr(ops[0], 64, "s->xmm[%d][0]" % ops[1].idx))
        elif mn in ("movaps", "movapd", "movups", "movupd", "movdqa", "movdqu"):
            lo, hi = self.xrd128(ops[1], ins)
            if ops[0].kind == "xmm":
                L.append("uint64_t lo = %s, hi = %s;" % (lo, hi))
                L.append("s->xmm[%d][0] = lo; s->xmm[%d][1] = hi;" % (ops[0].idx, ops[0].idx))
            else:
                L.append("X86_M64 (ea) = %s; X86_M64 (ea + 8) = %s;" % (lo, hi))
        elif mn in ("xorps", "xorpd", "pxor", "andps", "andpd", "pand", "orps", "orpd", "por", "andnps", "andnpd", "pandn"):
            lo, hi = self.xrd128(ops[1], ins)
            d = ops[0].idx
            if mn in ("andnps", "andnpd", "pandn"):
                L.append("uint64_t lo = %s, hi = %s;" % (lo, hi))
                L.append("s->xmm[%d][0] = ~s->xmm[%d][0] & lo; s->xmm[%d][1] = ~s->xmm[%d][1] & hi;" % (d, d, d, d))
            else:
                o = "^" if "xor" in mn else ("&" if "and" in mn else "|")
                L.append("uint64_t lo = %s, hi = %s;" % (lo, hi))
                L.append("s->xmm[%d][0] %s= lo; s->xmm[%d][1] %s= hi;" % (d, o, d, o))
        elif mn in ("addss", "subss", "mulss", "divss"):
            L.append("x86_xmm_w32 (s, %d, x86_%s ((uint32_t) s->xmm[%d][0], %s));" % (ops[0].idx, mn, ops[0].idx, self.xrd32(ops[1], ins)))
        elif mn in ("addsd", "subsd", "mulsd", "divsd"):
            L.append("s->xmm[%d][0] = x86_%s (s->xmm[%d][0], %s);" % (ops[0].idx, mn, ops[0].idx, self.xrd64(ops[1], ins)))
        elif mn in ("ucomiss", "comiss"):
            L.append("x86_comiss (s, x86_u2f ((uint32_t) s->xmm[%d][0]), x86_u2f (%s));" % (ops[0].idx, self.xrd32(ops[1], ins)))
        elif mn in ("ucomisd", "comisd"):
            L.append("x86_comisd (s, x86_u2d (s->xmm[%d][0]), x86_u2d (%s));" % (ops[0].idx, self.xrd64(ops[1], ins)))
        elif mn in ("cvtsi2ss", "cvtsi2sd"):
            src = ops[1]
            w = src.w if src.kind == "reg" else src.size
            if w not in (32, 64):
                raise LiftError("cvtsi2s* source width")
            v = "(%s) %s" % (ST[w], self.rd(src, w, ins))
            if mn == "cvtsi2ss":
                L.append("x86_xmm_w32 (s, %d, x86_f2u ((float) %s));" % (ops[0].idx, v))
            else:
                L.append("s->xmm[%d][0] = x86_d2u ((double) %s);" % (ops[0].idx, v))
        elif mn == "cvtss2sd":
            L.append("s->xmm[%d][0] = x86_d2u ((double) x86_u2f (%s));" % (ops[0].idx, self.xrd32(ops[1], ins)))
        elif mn == "cvtsd2ss":
            L.append("x86_xmm_w32 (s, %d, x86_f2u ((float) x86_u2d (%s)));" % (ops[0].idx, self.xrd64(ops[1], ins)))
        elif mn in ("cvttss2si", "cvttsd2si"):
            w = ops[0].w
            if mn == "cvttss2si":
                L.append(self.wr(ops[0], w, "x86_cvttss2si%d (x86_u2f (%s))" % (w, self.xrd32(ops[1], ins))))
            else:
                L.append(self.wr(ops[0], w, "x86_cvttsd2si%d (x86_u2d (%s))" % (w, self.xrd64(ops[1], ins))))
        # ---------------- x87 ----------------
        elif mn == "fld":
            op = ops[0]
            if op.kind == "st":
                L.append("long double v = X86_ST (s, %d);" % op.idx)
                L.append("x86_fpush (s, v);")
            elif op.size == 80:
                L.append("x86_fpush (s, x86_ld_load (ea));")
            elif op.size == 64:
                L.append("x86_fpush (s, (long double) x86_u2d (X86_M64 (ea)));")
            elif op.size == 32:
                L.append("x86_fpush (s, (long double) x86_u2f (X86_M32 (ea)));")
            else:
                raise LiftError("fld size")
        elif mn in ("fstp", "fst"):
            op = ops[0]
            if op.kind == "st":
                L.append("X86_ST (s, %d) = X86_ST (s, 0);" % op.idx)
            elif op.size == 80:
                if mn == "fst":
                    raise LiftError("fst m80 does not exist")
                L.append("x86_ld_store (ea, X86_ST (s, 0));")
            elif op.size == 64:
                L.append("X86_M64 (ea) = x86_d2u ((double) X86_ST (s, 0));")
            elif op.size == 32:
                L.append("X86_M32 (ea) = x86_f2u ((float) X86_ST (s, 0));")
            else:
                raise LiftError("fst size")
            if mn == "fstp":
                L.append("(void) x86_fpop (s);")
        elif mn == "fild":
            op = ops[0]
            if op.size not in (16, 32, 64):
                raise LiftError("fild size")
            L.append("x86_fpush (s, (long double) (%s) X86_M%d (ea));" % (ST[op.size], op.size))
        elif mn == "fxch":
            i = ops[0].idx if ops else 1
            L.append("long double v = X86_ST (s, 0); X86_ST (s, 0) = X86_ST (s, %d); X86_ST (s, %d) = v;" % (i, i))
        elif mn == "fchs":
            L.append("X86_ST (s, 0) = -X86_ST (s, 0);")
        elif mn == "fabs":
            L.append("X86_ST (s, 0) = x86_fabs (X86_ST (s, 0));")
        elif mn == "fldz":
            L.append("x86_fpush (s, 0.0L);")
        elif mn == "fld1":
            L.append("x86_fpush (s, 1.0L);")
        elif mn in ("faddp", "fsubp", "fsubrp", "fmulp", "fdivp", "fdivrp"):
            # decode from the opcode bytes (DE C0+i / C8+i / E0+i / E8+i / F0+i / F8+i) and cross-check the text
            if len(ins.raw) != 2 or ins.raw[0] != 0xDE:
                raise LiftError("unexpected encoding of %s" % mn)
            grp, i = ins.raw[1] & 0xF8, ins.raw[1] & 7
            sem = {0xC0: ("faddp", "X86_ST (s, %d) + X86_ST (s, 0)"), 0xC8: ("fmulp", "X86_ST (s, %d) * X86_ST (s, 0)"),
                   0xE0: ("fsubrp", "X86_ST (s, 0) - X86_ST (s, %d)"), 0xE8: ("fsubp", "X86_ST (s, %d) - X86_ST (s, 0)"),
                   0xF0: ("fdivrp", "X86_ST (s, 0) / X86_ST (s, %d)"), 0xF8: ("fdivp", "X86_ST (s, %d) / X86_ST (s, 0)")}.get(grp)
            if sem is None or sem[0] != mn:
                raise LiftError("objdump mnemonic %s disagrees with opcode DE %02X" % (mn, ins.raw[1]))
            if ops and not (ops[0].kind == "st" and ops[0].idx == i):
                raise LiftError("x87 operand mismatch")
            L.append("X86_ST (s, %d) = %s;" % (i, sem[1] % i))
            L.append("(void) x86_fpop (s);")
        elif mn in ("fucomip", "fcomip", "fucomi", "fcomi"):
            i = ops[1].idx if len(ops) == 2 else ops[0].idx
            L.append("x86_comild (s, X86_ST (s, 0), X86_ST (s, %d));" % i)
            if mn.endswith("p"):
                L.append("(void) x86_fpop (s);")
        elif mn == "fnstcw":
            L.append("X86_M16 (ea) = s->fcw;")
        elif mn == "fldcw":
            L.append("s->fcw = X86_M16 (ea);")
        elif mn == "stmxcsr":
            L.append("X86_M32 (ea) = s->mxcsr;")
        elif mn == "ldmxcsr":
            L.append("s->mxcsr = X86_M32 (ea);")
        else:
            raise LiftError("unsupported instruction")
        return L, falls

    def lift(self):
        self.explore()
        order = sorted(self.reach)
        out = []
        out.append("/* region %s  kind %s  addr 0x%x  len %d  code_end %d */" % (self.r.name, self.r.kind, self.r.addr, self.r.len, self.r.code_end))
        out.append("void %s (x86_state *s) {" % self.r.cname)
        out.append("  s->exit_kind = X86_EXIT_NONE;")
        prev = None
        for k, a in enumerate(order):
            ins = self.reach[a]
            try:
                body, falls = self.emit(ins, prev if (prev is not None and prev.next == a) else None)
            except LiftError as e:
                raise LiftError("%s: 0x%x: %s  [%s]  in region %s" % (e, a, ins.text, ins.raw.hex(), self.r.name))
            if a in self.labels:
                out.append("L_%x:;" % a)
            out.append("  /* %x: %s */" % (a, ins.text.replace("*/", "* /")))
            if body:
                out.append("  { " + "\n    ".join(body) + " }")
            if falls:
                nxt = ins.next
                if k + 1 < len(order) and order[k + 1] == nxt:
                    pass
                elif nxt in self.reach:
                    out.append("  goto L_%x;" % nxt)
                    self.labels.add(nxt)
                elif not self.r.code_contains(nxt):
                    out.append("  " + self.exit_stmt("X86_EXIT_JUMP", "0x%xull" % nxt) + " /* falls off the end of the region */")
                else:
                    raise LiftError("fallthrough to unexplored 0x%x" % nxt)
            prev = ins
        out.append("}")
        # labels added late (goto L_nxt) need to exist: re-run placement check
        text = "\n".join(out)
        for lab in re.findall(r"goto L_([0-9a-f]+);", text):
            if ("L_%s:;" % lab) not in text:
                raise LiftError("internal: missing label L_%s" % lab)
        return text, len(order)


def main():
    args = sys.argv[1:]
    outp, only, flags_mode, dispatch = None, None, "all", True
    files = []
    i = 0
    while i < len(args):
        if args[i] == "-o":
            outp = args[i + 1]
            i += 2
        elif args[i] == "--only":
            only = set(args[i + 1].split(","))
            i += 2
        elif args[i] == "--no-dispatch":
            dispatch = False
            i += 1
        elif args[i].startswith("-"):
            die("unknown option " + args[i])
        else:
            files.append(args[i])
            i += 1
    if len(files) != 1:
        die("usage: x86lift.py dump.json [-o out.c] [--only name,..] [--no-dispatch]")
    d = json.load(open(files[0]))
    regions = [Region(r) for r in d["regions"]]
    # lref data items hold code addresses that indirect jumps may use
    lref_targets = []
    for it in d.get("data", []):
        if it.get("sub") == "lref" and len(it["bytes"]) == 16:
            lref_targets.append(int.from_bytes(bytes.fromhex(it["bytes"]), "little"))
    global KNOWN_RANGES
    KNOWN_RANGES = [(r.addr, r.addr + r.len) for r in regions]
    KNOWN_RANGES += [(int(x["addr"], 16), int(x["addr"], 16) + max(1, x.get("size", 0))) for x in d.get("symbols", []) + d.get("data", [])]
    KNOWN_RANGES += [(int(v, 16), int(v, 16) + 1) for v in d.get("fake", {}).values()]
    KNOWN_RANGES += [(int(e["value"], 16), int(e["value"], 16) + 1) for r in d["regions"] for e in r.get("embedded", [])]
    out = []
    out.append("/* generated by tools/x86lift.py from %s (%s) -- do not edit.\n"
               "   Decoder: GNU objdump (trusted base).  Contract: see lift_rt.h. */" % (os.path.basename(files[0]), d.get("source", d.get("mode", ""))))
    out.append('#include "lift_rt.h"')
    names = set()
    done = []
    total_insns = 0
    for r in regions:
        if only is not None and r.name not in only:
            continue
        if r.kind == "raw":
            continue  # bytes that are never executed in this form (e.g. a thunk before its first redirect)
        if r.cname in names:
            die("duplicate region name " + r.cname)
        names.add(r.cname)
        lf = Lifter(r, [t for t in lref_targets if r.code_contains(t)], flags_mode)
        try:
            text, n = lf.lift()
        except LiftError as e:
            die(str(e))
        out.append("#define %s_ADDR 0x%xull" % (r.cname.upper(), r.addr))
        out.append(text)
        done.append(r)
        total_insns += n
    for sym in d.get("symbols", []):
        if sym["kind"] in ("extern", "builtin", "data", "bss", "ctx", "fake") and sym["name"]:
            out.append("#define LIFT_SYM_%s 0x%xull /* %s */" % (re.sub(r"\W", "_", sym["name"]), int(sym["addr"], 16), sym["kind"]))
    if dispatch:
        out.append("/* run the region that starts at addr; 0 if addr is not the start of a lifted region */")
        out.append("static inline int lift_dispatch (x86_state *s, uint64_t addr) {")
        out.append("  switch (addr) {")
        for r in done:
            out.append("  case 0x%xull: %s (s); return 1;" % (r.addr, r.cname))
        out.append("  default: return 0;")
        out.append("  }")
        out.append("}")
        out.append("static inline int lift_dispatch_known (uint64_t addr) {")
        out.append("  switch (addr) {")
        for r in done:
            out.append("  case 0x%xull: return 1;" % r.addr)
        out.append("  default: return 0;")
        out.append("  }")
        out.append("}")
    text = "\n".join(out) + "\n"
    if outp:
        open(outp, "w").write(text)
    else:
        sys.stdout.write(text)
    sys.stderr.write("x86lift: %d regions, %d instructions lifted\n" % (len(done), total_insns))


if __name__ == "__main__":
    main()
