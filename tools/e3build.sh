#!/bin/sh
# Build mirgen-dump from /repo's working tree (two TUs out of one source, see mirgen-dump.c).
# usage: e3build.sh <outdir>   -> <outdir>/mirgen-dump
# Assertions of the generator stay ENABLED by default (a failing gen_assert aborts the dump, reported as
# GENERATOR-REJECTED).  E3_NDEBUG=1 builds like the repo's release build (-DNDEBUG).
set -e
REPO=${VERIF_REPO:-/repo}
HERE=$(dirname "$(readlink -f "$0")")
OUT=${1:-/tmp/e3-build}
mkdir -p "$OUT"
ND=${E3_NDEBUG:+-DNDEBUG}
gcc -O1 -w -Wno-psabi $ND -I"$REPO" -DE3_GEN_TU -c -o "$OUT/mirgen-dump-gen.o" "$HERE/mirgen-dump.c"
gcc -O1 -w -Wno-psabi $ND -I"$REPO" -o "$OUT/mirgen-dump" "$HERE/mirgen-dump.c" "$OUT/mirgen-dump-gen.o" -lm -ldl -lpthread
echo "$OUT/mirgen-dump"
