/* lift_rt.h -- runtime for C code produced by tools/x86lift.py (engine E3).

   Compiles with gcc and with goto-cc (CBMC).  No inline asm, no builtins, no loops, no function
   pointers.  See tools/README-E3.md for the contracts; the short version:

   * One C function `void lift_<region>(x86_state *s)` per code region.  It runs from the region's
     first byte until control leaves the region and reports how in s->exit_kind:
       X86_EXIT_RET      a `ret` was executed; the return address has been popped (rsp += 8) and is
                         in s->exit_target
       X86_EXIT_JUMP     direct jmp/jcc to an address outside the region (tail call, thunk, wrapper);
                         s->exit_target = destination, rsp untouched
       X86_EXIT_INDIRECT jmp reg / jmp [mem] whose destination is not a known label of the region;
                         s->exit_target = destination
       X86_EXIT_TRAP     ud2 / int3 / hlt / #DE (division by zero or quotient overflow);
                         s->exit_target = address of the trapping instruction
       X86_EXIT_ABORT    never produced by lifted code; a harness' x86_call may set it to stop
       X86_EXIT_UNDEF    `jmp [table+idx*8]` with idx outside the dumped switch table (the real code
                         would jump through whatever follows the table; MIR: undefined behaviour);
                         s->exit_target = address of the jmp
   * Memory operands are `*(T *) (uintptr_t) (address)`: lifted code shares ordinary C memory with
     the harness.  The harness points rsp (s->r[4]) into one of its own arrays.
   * call:  lifted code does   rsp -= 8; *(uint64_t *) rsp = <return address>; x86_call (s, target);
     x86_call is DEFINED BY THE HARNESS and must behave like the callee INCLUDING its final ret,
     i.e. on return rsp is 8 higher than at entry (plus whatever the callee's ABI says).  For a
     lifted callee simply `lift_<callee> (s)` does that (its `ret` pops).  For a stub: read the
     arguments from s per the callee's prototype, write results, then `s->r[4] += 8`.
     After x86_call the lifted caller stops (returns) if s->exit_kind >= X86_EXIT_TRAP, otherwise it
     resets exit_kind to X86_EXIT_NONE and continues after the call.
   * Flags CF ZF SF OF PF are computed eagerly.  AF is not modelled.  DF is assumed 0.
     s->fl_undef collects the flags an instruction leaves architecturally undefined (X86_F_* bits);
     it is only a validation aid (liftcheck does not compare undefined flags).
   * xmm registers: two 64-bit halves, bit patterns.  Scalar float/double arithmetic goes through
     C `float`/`double` (CBMC: IEEE model, round to nearest; MXCSR is a plain field that nothing reads).
   * x87: st[] holds C long double, ST(i) = st[(top + i) & 7]; fdepth = number of valid entries.
     Precision control / rounding control are assumed at their ABI defaults (64-bit mantissa, nearest). */
#ifndef LIFT_RT_H
#define LIFT_RT_H
#include <stdint.h>

enum { X86_EXIT_NONE = 0, X86_EXIT_RET = 1, X86_EXIT_JUMP = 2, X86_EXIT_INDIRECT = 3, X86_EXIT_TRAP = 4, X86_EXIT_ABORT = 5, X86_EXIT_UNDEF = 6 };
enum { X86_F_CF = 1, X86_F_PF = 2, X86_F_ZF = 4, X86_F_SF = 8, X86_F_OF = 16 };
enum { X86_RAX, X86_RCX, X86_RDX, X86_RBX, X86_RSP, X86_RBP, X86_RSI, X86_RDI, X86_R8, X86_R9, X86_R10, X86_R11, X86_R12, X86_R13, X86_R14, X86_R15 };

typedef struct x86_state {
  uint64_t r[16];      /* rax rcx rdx rbx rsp rbp rsi rdi r8..r15 */
  uint64_t xmm[16][2]; /* [i][0] = bits 63:0, [i][1] = bits 127:64 */
  long double st[8];   /* x87 register stack */
  int top, fdepth;     /* ST(i) = st[(top+i)&7]; fdepth valid entries */
  int cf, zf, sf, of, pf;
  unsigned fl_undef;   /* X86_F_* bits currently architecturally undefined (validation aid only) */
  uint32_t mxcsr;      /* 0x1f80 by default; not interpreted */
  uint16_t fcw;        /* 0x037f by default; not interpreted */
  int exit_kind;
  uint64_t exit_target;
} x86_state;

/* defined by the harness */
void x86_call (x86_state *s, uint64_t target);

static inline void x86_state_init (x86_state *s) { /* registers are left to the harness */
  s->top = 0; s->fdepth = 0;
  s->cf = s->zf = s->sf = s->of = s->pf = 0;
  s->fl_undef = 0;
  s->mxcsr = 0x1f80; s->fcw = 0x037f;
  s->exit_kind = X86_EXIT_NONE; s->exit_target = 0;
}

/* ---- memory ----
   Default: addresses are C pointers (see above).
   -DX86_MEM_HOOK: addresses are plain integers and the HARNESS translates them: it defines
   x86_mem8/16/32/64 (and x86_memld under CBMC) returning a pointer to the cell for integer address a.
   Use this when the code computes with address bits (e.g. `and rax,0xf` on rsp for alignment):
   with a concrete integer stack base everything constant-folds, whereas bits of a pointer cast stay
   symbolic in CBMC until bit-blasting and turn every later stack access into a symbolic-offset access
   (measured: wrapper_end no verdict / out of memory after 4 min vs. 1 s).  harness/E3/e3h.h provides such a
   translation for its stack with -DE3_INT_STACK. */
#ifdef X86_MEM_HOOK
uint8_t *x86_mem8 (uint64_t a);
uint16_t *x86_mem16 (uint64_t a);
uint32_t *x86_mem32 (uint64_t a);
uint64_t *x86_mem64 (uint64_t a);
long double *x86_memld (uint64_t a);
#define X86_M8(a) (*x86_mem8 (a))
#define X86_M16(a) (*x86_mem16 (a))
#define X86_M32(a) (*x86_mem32 (a))
#define X86_M64(a) (*x86_mem64 (a))
#define X86_MLD(a) (*x86_memld (a))
#else
#define X86_M8(a) (*(uint8_t *) (uintptr_t) (a))
#define X86_M16(a) (*(uint16_t *) (uintptr_t) (a))
#define X86_M32(a) (*(uint32_t *) (uintptr_t) (a))
#define X86_M64(a) (*(uint64_t *) (uintptr_t) (a))
#define X86_MLD(a) (*(long double *) (uintptr_t) (a))
#endif

/* ---- bit pattern <-> float ---- */
static inline float x86_u2f (uint32_t u) { union { uint32_t u; float f; } x; x.u = u; return x.f; }
static inline uint32_t x86_f2u (float f) { union { uint32_t u; float f; } x; x.f = f; return x.u; }
static inline double x86_u2d (uint64_t u) { union { uint64_t u; double d; } x; x.u = u; return x.d; }
static inline uint64_t x86_d2u (double d) { union { uint64_t u; double d; } x; x.d = d; return x.u; }
/* m80 operands.
   Native (gcc): exactly ten bytes are read / written, bit-exact x87 extended format.
   CBMC: `long double` is modelled as IEEE binary128 (16 bytes, 113-bit significand), NOT as the x87 80-bit
   format, so a byte-wise m80 access is meaningless there.  Under CBMC an m80 access is therefore a plain
   16-byte `long double` access: lifted code, the interpreter (`*(long double *) a`) and reference models then
   agree on the representation of a cell, provided every long double cell is a 16-byte slot that is only
   accessed as long double (true for MIR: ld slots are 16 bytes everywhere).  Consequences: results carry
   quad precision under CBMC on ALL sides (the comparison is between C `long double` expressions, not
   against hardware rounding), and the six padding bytes of a slot are written. */
#if defined(__CPROVER__) || defined(LIFT_RT_CBMC) || (defined(H_CBMC) && H_CBMC)
/* goto-cc does not define __CPROVER__: harness/common/h.h (include it first) sets H_CBMC, anything else passes -DLIFT_RT_CBMC */
#define LIFT_RT_LD_IS_CBMC 1
static inline long double x86_ld_load (uint64_t a) { return X86_MLD (a); }
static inline void x86_ld_store (uint64_t a, long double v) { X86_MLD (a) = v; }
#else
typedef union { long double ld; struct { uint64_t lo; uint16_t hi; } p; } x86_ld_bits;
static inline long double x86_ld_load (uint64_t a) {
  x86_ld_bits x;
  x.ld = 0;
  x.p.lo = X86_M64 (a);
  x.p.hi = X86_M16 (a + 8);
  return x.ld;
}
static inline void x86_ld_store (uint64_t a, long double v) {
  x86_ld_bits x;
  x.ld = v;
  X86_M64 (a) = x.p.lo;
  X86_M16 (a + 8) = x.p.hi;
}
#endif

/* fabs: clears the sign bit, also of a NaN */
#ifdef LIFT_RT_LD_IS_CBMC
static inline long double x86_fabs (long double v) { return __CPROVER_fabsl (v); }
#else
static inline long double x86_fabs (long double v) { x86_ld_bits x; x.ld = v; x.p.hi &= 0x7fff; return x.ld; }
#endif

/* ---- partial register writes ---- */
static inline void x86_w8 (x86_state *s, int r, uint8_t v) { s->r[r] = (s->r[r] & ~(uint64_t) 0xff) | v; }
static inline void x86_w16 (x86_state *s, int r, uint16_t v) { s->r[r] = (s->r[r] & ~(uint64_t) 0xffff) | v; }
static inline void x86_w32 (x86_state *s, int r, uint32_t v) { s->r[r] = v; }
static inline void x86_w64 (x86_state *s, int r, uint64_t v) { s->r[r] = v; }

/* ---- flags ---- */
static inline int x86_parity (uint64_t v) { /* PF: even parity of the low byte */
  unsigned x = (unsigned) (v & 0xff);
  x ^= x >> 4; x ^= x >> 2; x ^= x >> 1;
  return !(x & 1);
}
#define X86_ALU(W, T)                                                                                  \
  static inline void x86_szp##W (x86_state *s, T r) {                                                  \
    s->zf = r == 0; s->sf = (int) ((r >> (W - 1)) & 1); s->pf = x86_parity (r);                        \
  }                                                                                                    \
  static inline T x86_add##W (x86_state *s, T a, T b) {                                                \
    T r = (T) (a + b);                                                                                 \
    s->cf = r < a; s->of = (int) ((((a ^ r) & (b ^ r)) >> (W - 1)) & 1);                               \
    x86_szp##W (s, r); s->fl_undef = 0; return r;                                                      \
  }                                                                                                    \
  static inline T x86_adc##W (x86_state *s, T a, T b) {                                                \
    T c = (T) (s->cf != 0), r = (T) (a + b + c);                                                       \
    s->cf = c ? r <= a : r < a; s->of = (int) ((((a ^ r) & (b ^ r)) >> (W - 1)) & 1);                  \
    x86_szp##W (s, r); s->fl_undef = 0; return r;                                                      \
  }                                                                                                    \
  static inline T x86_sub##W (x86_state *s, T a, T b) {                                                \
    T r = (T) (a - b);                                                                                 \
    s->cf = a < b; s->of = (int) ((((a ^ b) & (a ^ r)) >> (W - 1)) & 1);                               \
    x86_szp##W (s, r); s->fl_undef = 0; return r;                                                      \
  }                                                                                                    \
  static inline T x86_sbb##W (x86_state *s, T a, T b) {                                                \
    T c = (T) (s->cf != 0), r = (T) (a - b - c);                                                       \
    s->cf = c ? a <= b : a < b; s->of = (int) ((((a ^ b) & (a ^ r)) >> (W - 1)) & 1);                  \
    x86_szp##W (s, r); s->fl_undef = 0; return r;                                                      \
  }                                                                                                    \
  static inline T x86_logic##W (x86_state *s, T r) {                                                   \
    s->cf = 0; s->of = 0; x86_szp##W (s, r); s->fl_undef = 0; return r;                                \
  }                                                                                                    \
  static inline T x86_neg##W (x86_state *s, T a) {                                                     \
    T r = (T) (0 - a);                                                                                 \
    s->cf = a != 0; s->of = a == (T) ((T) 1 << (W - 1));                                               \
    x86_szp##W (s, r); s->fl_undef = 0; return r;                                                      \
  }                                                                                                    \
  static inline T x86_inc##W (x86_state *s, T a) { /* CF unchanged */                                  \
    T r = (T) (a + 1);                                                                                 \
    s->of = r == (T) ((T) 1 << (W - 1)); x86_szp##W (s, r); s->fl_undef &= X86_F_CF; return r;         \
  }                                                                                                    \
  static inline T x86_dec##W (x86_state *s, T a) { /* CF unchanged */                                  \
    T r = (T) (a - 1);                                                                                 \
    s->of = a == (T) ((T) 1 << (W - 1)); x86_szp##W (s, r); s->fl_undef &= X86_F_CF; return r;         \
  }                                                                                                    \
  /* shifts: count already masked (0x1f, or 0x3f for W==64); count 0 changes nothing */               \
  static inline T x86_shl##W (x86_state *s, T a, unsigned c) {                                         \
    T r;                                                                                               \
    if (c == 0) return a;                                                                              \
    if (c > W) { r = 0; s->cf = 0; s->fl_undef = X86_F_CF | X86_F_OF; }                                \
    else {                                                                                             \
      r = c == W ? (T) 0 : (T) (a << c);                                                               \
      s->cf = (int) ((a >> (W - c)) & 1); s->fl_undef = c == 1 ? 0 : X86_F_OF;                         \
    }                                                                                                  \
    s->of = (int) ((r >> (W - 1)) & 1) ^ s->cf;                                                        \
    x86_szp##W (s, r); return r;                                                                       \
  }                                                                                                    \
  static inline T x86_shr##W (x86_state *s, T a, unsigned c) {                                         \
    T r;                                                                                               \
    if (c == 0) return a;                                                                              \
    if (c > W) { r = 0; s->cf = 0; s->fl_undef = X86_F_CF | X86_F_OF; }                                \
    else {                                                                                             \
      r = c == W ? (T) 0 : (T) (a >> c);                                                               \
      s->cf = (int) ((a >> (c - 1)) & 1); s->fl_undef = c == 1 ? 0 : X86_F_OF;                         \
    }                                                                                                  \
    s->of = (int) ((a >> (W - 1)) & 1);                                                                \
    x86_szp##W (s, r); return r;                                                                       \
  }                                                                                                    \
  static inline T x86_sar##W (x86_state *s, T a, unsigned c) {                                         \
    T sign = (T) (0 - ((a >> (W - 1)) & 1)), r;                                                        \
    if (c == 0) return a;                                                                              \
    if (c >= W) { r = sign; s->cf = (int) (sign & 1); }                                                \
    else {                                                                                             \
      r = (T) ((a >> c) | (T) (sign << (W - c)));                                                      \
      s->cf = (int) ((a >> (c - 1)) & 1);                                                              \
    }                                                                                                  \
    s->fl_undef = c == 1 ? 0 : X86_F_OF;                                                               \
    s->of = 0;                                                                                         \
    x86_szp##W (s, r); return r;                                                                       \
  }
X86_ALU (8, uint8_t)
X86_ALU (16, uint16_t)
X86_ALU (32, uint32_t)
X86_ALU (64, uint64_t)

/* imul r, r/m [, imm]: truncated product; CF = OF = product does not fit; SF ZF PF undefined */
static inline uint64_t x86_imul64 (x86_state *s, uint64_t a, uint64_t b) {
  __int128 p = (__int128) (int64_t) a * (__int128) (int64_t) b;
  uint64_t r = (uint64_t) p;
  s->cf = s->of = p != (__int128) (int64_t) r;
  x86_szp64 (s, r); s->fl_undef = X86_F_SF | X86_F_ZF | X86_F_PF; return r;
}
static inline uint32_t x86_imul32 (x86_state *s, uint32_t a, uint32_t b) {
  int64_t p = (int64_t) (int32_t) a * (int64_t) (int32_t) b;
  uint32_t r = (uint32_t) p;
  s->cf = s->of = p != (int64_t) (int32_t) r;
  x86_szp32 (s, r); s->fl_undef = X86_F_SF | X86_F_ZF | X86_F_PF; return r;
}
static inline uint16_t x86_imul16 (x86_state *s, uint16_t a, uint16_t b) {
  int32_t p = (int32_t) (int16_t) a * (int32_t) (int16_t) b;
  uint16_t r = (uint16_t) p;
  s->cf = s->of = p != (int32_t) (int16_t) r;
  x86_szp16 (s, r); s->fl_undef = X86_F_SF | X86_F_ZF | X86_F_PF; return r;
}
/* one-operand mul / imul: rdx:rax = rax * src */
static inline void x86_mul1_64 (x86_state *s, uint64_t b) {
  unsigned __int128 p = (unsigned __int128) s->r[0] * b;
  s->r[0] = (uint64_t) p; s->r[2] = (uint64_t) (p >> 64);
  s->cf = s->of = s->r[2] != 0;
  x86_szp64 (s, s->r[0]); s->fl_undef = X86_F_SF | X86_F_ZF | X86_F_PF;
}
static inline void x86_mul1_32 (x86_state *s, uint32_t b) {
  uint64_t p = (uint64_t) (uint32_t) s->r[0] * b;
  s->r[0] = (uint32_t) p; s->r[2] = (uint32_t) (p >> 32);
  s->cf = s->of = s->r[2] != 0;
  x86_szp32 (s, (uint32_t) s->r[0]); s->fl_undef = X86_F_SF | X86_F_ZF | X86_F_PF;
}
static inline void x86_imul1_64 (x86_state *s, uint64_t b) {
  __int128 p = (__int128) (int64_t) s->r[0] * (__int128) (int64_t) b;
  s->r[0] = (uint64_t) p; s->r[2] = (uint64_t) ((unsigned __int128) p >> 64);
  s->cf = s->of = p != (__int128) (int64_t) s->r[0];
  x86_szp64 (s, s->r[0]); s->fl_undef = X86_F_SF | X86_F_ZF | X86_F_PF;
}
static inline void x86_imul1_32 (x86_state *s, uint32_t b) {
  int64_t p = (int64_t) (int32_t) s->r[0] * (int64_t) (int32_t) b;
  s->r[0] = (uint32_t) p; s->r[2] = (uint32_t) ((uint64_t) p >> 32);
  s->cf = s->of = p != (int64_t) (int32_t) s->r[0];
  x86_szp32 (s, (uint32_t) s->r[0]); s->fl_undef = X86_F_SF | X86_F_ZF | X86_F_PF;
}
/* div / idiv.  Return 0 on #DE.  All five flags undefined afterwards.
   The *_sx / *_zx variants are used by the lifter when the instruction immediately before (same basic
   block) was cqo/cdq resp. `xor edx,edx`: the dividend is then rax alone and no 128-bit division is
   needed.  The general variants take rdx:rax. */
#define X86_F_ALL (X86_F_CF | X86_F_PF | X86_F_ZF | X86_F_SF | X86_F_OF)
static inline int x86_idiv64_sx (x86_state *s, uint64_t d) {
  int64_t a = (int64_t) s->r[0], b = (int64_t) d;
  if (b == 0 || (a == INT64_MIN && b == -1)) return 0;
  s->r[0] = (uint64_t) (a / b); s->r[2] = (uint64_t) (a % b);
  s->fl_undef = X86_F_ALL; return 1;
}
static inline int x86_idiv32_sx (x86_state *s, uint32_t d) {
  int32_t a = (int32_t) s->r[0], b = (int32_t) d;
  if (b == 0 || (a == INT32_MIN && b == -1)) return 0;
  s->r[0] = (uint32_t) (a / b); s->r[2] = (uint32_t) (a % b);
  s->fl_undef = X86_F_ALL; return 1;
}
static inline int x86_div64_zx (x86_state *s, uint64_t d) {
  uint64_t a = s->r[0];
  if (d == 0) return 0;
  s->r[0] = a / d; s->r[2] = a % d;
  s->fl_undef = X86_F_ALL; return 1;
}
static inline int x86_div32_zx (x86_state *s, uint32_t d) {
  uint32_t a = (uint32_t) s->r[0];
  if (d == 0) return 0;
  s->r[0] = a / d; s->r[2] = a % d;
  s->fl_undef = X86_F_ALL; return 1;
}
static inline int x86_div64 (x86_state *s, uint64_t d) {
  unsigned __int128 a = ((unsigned __int128) s->r[2] << 64) | s->r[0], q;
  if (d == 0 || s->r[2] >= d) return 0;
  q = a / d;
  s->r[2] = (uint64_t) (a % d); s->r[0] = (uint64_t) q;
  s->fl_undef = X86_F_ALL; return 1;
}
static inline int x86_div32 (x86_state *s, uint32_t d) {
  uint64_t a = ((uint64_t) (uint32_t) s->r[2] << 32) | (uint32_t) s->r[0], q;
  if (d == 0) return 0;
  q = a / d;
  if (q > 0xffffffffull) return 0;
  s->r[2] = (uint32_t) (a % d); s->r[0] = (uint32_t) q;
  s->fl_undef = X86_F_ALL; return 1;
}
static inline int x86_idiv64 (x86_state *s, uint64_t d) {
  __int128 a = (__int128) (((unsigned __int128) s->r[2] << 64) | s->r[0]), b = (__int128) (int64_t) d, q;
  if (d == 0) return 0;
  if (s->r[2] == (uint64_t) ((int64_t) s->r[0] >> 63)) return x86_idiv64_sx (s, d);
  q = a / b;
  if (q != (__int128) (int64_t) q) return 0;
  s->r[2] = (uint64_t) (int64_t) (a % b); s->r[0] = (uint64_t) (int64_t) q;
  s->fl_undef = X86_F_ALL; return 1;
}
static inline int x86_idiv32 (x86_state *s, uint32_t d) {
  int64_t a = (int64_t) (((uint64_t) (uint32_t) s->r[2] << 32) | (uint32_t) s->r[0]), b = (int64_t) (int32_t) d, q;
  if (d == 0) return 0;
  q = a / b;
  if (q != (int64_t) (int32_t) q) return 0;
  s->r[2] = (uint32_t) (a % b); s->r[0] = (uint32_t) q;
  s->fl_undef = X86_F_ALL; return 1;
}

/* ---- condition codes (index = low nibble of the jcc/setcc/cmovcc opcode) ---- */
#define X86_CC_O(s) ((s)->of != 0)
#define X86_CC_NO(s) ((s)->of == 0)
#define X86_CC_B(s) ((s)->cf != 0)
#define X86_CC_AE(s) ((s)->cf == 0)
#define X86_CC_E(s) ((s)->zf != 0)
#define X86_CC_NE(s) ((s)->zf == 0)
#define X86_CC_BE(s) ((s)->cf != 0 || (s)->zf != 0)
#define X86_CC_A(s) ((s)->cf == 0 && (s)->zf == 0)
#define X86_CC_S(s) ((s)->sf != 0)
#define X86_CC_NS(s) ((s)->sf == 0)
#define X86_CC_P(s) ((s)->pf != 0)
#define X86_CC_NP(s) ((s)->pf == 0)
#define X86_CC_L(s) (((s)->sf != 0) != ((s)->of != 0))
#define X86_CC_GE(s) (((s)->sf != 0) == ((s)->of != 0))
#define X86_CC_LE(s) ((s)->zf != 0 || ((s)->sf != 0) != ((s)->of != 0))
#define X86_CC_G(s) ((s)->zf == 0 && ((s)->sf != 0) == ((s)->of != 0))

/* ---- SSE scalar ---- */
/* (u)comiss / (u)comisd: unordered ZF=PF=CF=1; a>b 000; a<b CF=1; a==b ZF=1; OF=SF=0 */
static inline void x86_comis (x86_state *s, int unordered, int lt, int eq) {
  s->zf = unordered || eq; s->pf = unordered; s->cf = unordered || lt;
  s->of = 0; s->sf = 0; s->fl_undef = 0;
}
static inline void x86_comiss (x86_state *s, float a, float b) { x86_comis (s, a != a || b != b, a < b, a == b); }
static inline void x86_comisd (x86_state *s, double a, double b) { x86_comis (s, a != a || b != b, a < b, a == b); }
static inline void x86_comild (x86_state *s, long double a, long double b) { x86_comis (s, a != a || b != b, a < b, a == b); }
/* cvtt*2si: truncation; NaN / out of range give the "integer indefinite" value */
static inline uint64_t x86_cvttsd2si64 (double d) {
  if (!(d >= -9223372036854775808.0 && d < 9223372036854775808.0)) return 0x8000000000000000ull;
  return (uint64_t) (int64_t) d;
}
static inline uint32_t x86_cvttsd2si32 (double d) {
  if (!(d > -2147483649.0 && d < 2147483648.0)) return 0x80000000u;
  return (uint32_t) (int32_t) d;
}
static inline uint64_t x86_cvttss2si64 (float f) {
  if (!(f >= -9223372036854775808.0f && f < 9223372036854775808.0f)) return 0x8000000000000000ull;
  return (uint64_t) (int64_t) f;
}
static inline uint32_t x86_cvttss2si32 (float f) {
  if (!(f >= -2147483648.0f && f < 2147483648.0f)) return 0x80000000u;
  return (uint32_t) (int32_t) f;
}
/* add/sub/mul/div ss/sd on bit patterns.  NaN operands follow the SSE rule exactly (first source if it
   is a NaN, else the second, made quiet); everything else is the C operator (IEEE, round to nearest). */
#define X86_SSE_OP(NAME, FT, UT, U2F, F2U, QBIT, OP)                         \
  static inline UT NAME (UT ua, UT ub) {                                     \
    FT a = U2F (ua), b = U2F (ub);                                           \
    if (a != a) return ua | QBIT;                                            \
    if (b != b) return ub | QBIT;                                            \
    return F2U (a OP b);                                                     \
  }
X86_SSE_OP (x86_addss, float, uint32_t, x86_u2f, x86_f2u, 0x00400000u, +)
X86_SSE_OP (x86_subss, float, uint32_t, x86_u2f, x86_f2u, 0x00400000u, -)
X86_SSE_OP (x86_mulss, float, uint32_t, x86_u2f, x86_f2u, 0x00400000u, *)
X86_SSE_OP (x86_divss, float, uint32_t, x86_u2f, x86_f2u, 0x00400000u, /)
X86_SSE_OP (x86_addsd, double, uint64_t, x86_u2d, x86_d2u, 0x0008000000000000ull, +)
X86_SSE_OP (x86_subsd, double, uint64_t, x86_u2d, x86_d2u, 0x0008000000000000ull, -)
X86_SSE_OP (x86_mulsd, double, uint64_t, x86_u2d, x86_d2u, 0x0008000000000000ull, *)
X86_SSE_OP (x86_divsd, double, uint64_t, x86_u2d, x86_d2u, 0x0008000000000000ull, /)
/* low-lane writes that preserve the rest of the register */
static inline void x86_xmm_w32 (x86_state *s, int x, uint32_t v) { s->xmm[x][0] = (s->xmm[x][0] & 0xffffffff00000000ull) | v; }
static inline void x86_xmm_w64 (x86_state *s, int x, uint64_t v) { s->xmm[x][0] = v; }

/* ---- x87 ---- */
#define X86_ST(s, i) ((s)->st[((s)->top + (i)) & 7])
static inline void x86_fpush (x86_state *s, long double v) { s->top = (s->top - 1) & 7; s->st[s->top] = v; s->fdepth++; }
static inline long double x86_fpop (x86_state *s) { long double v = s->st[s->top]; s->top = (s->top + 1) & 7; s->fdepth--; return v; }
#endif
