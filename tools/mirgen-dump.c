/* mirgen-dump: run the REAL MIR generator / trampoline builders of /repo and dump the published
   machine code as JSON (engine E3, see /verif/tools/README-E3.md).

   Build (two translation units from this one file, both #include the unmodified real TUs):
     gcc -O1 -w -I/repo -DE3_GEN_TU -c -o mirgen-dump-gen.o /verif/tools/mirgen-dump.c
     gcc -O1 -w -I/repo -o mirgen-dump /verif/tools/mirgen-dump.c mirgen-dump-gen.o -lm -ldl -lpthread
   (tools/e3build.sh does this.)

   TU "gen"  = #include "mir-gen.c" with the call sites of _MIR_publish_code, _MIR_change_code,
               _MIR_update_code_arr and _MIR_builtin_func renamed by macros to e3_* wrappers that
               record (address, length, pool start, absolute-address locations) and then call the
               real functions.  _MIR_builtin_func additionally gets a fixed FAKE address per builtin
               name instead of the address of the C function in this process (see README-E3).
   TU "main" = #include "mir.c" (gives access to struct MIR_context and the code holders, needed for
               exact trampoline lengths) + allocators + JSON output.

   Usage:
     mirgen-dump [-O<0..3>] [--near-externs] file.mir       > dump.json
     mirgen-dump --trampolines [protos.txt]                 > tramp.json

   Everything MIR allocates lives at fixed addresses so that dumps are reproducible and so that
   liftcheck can map the bytes at the very same addresses in another process:
     code pages        E3_CODE_BASE  0x100000000000 ...
     MIR heap (bump)   E3_HEAP_BASE  0x200000000000 ...   (ctx, items, data/bss items)
     fake externals    E3_EXT_BASE   0x300000000000 + 0x100*k  (ext0..ext7, then unknown imports)
     fake builtins     E3_BLT_BASE   0x300000100000 + 0x100*k  (mir.ui2f, mir.va_arg, ...)
     fake hooks etc.   E3_FAKE_BASE  0x3000002xxxxx            (trampolines mode)
   With --near-externs externals/builtins are placed at E3_CODE_BASE+0x40000000.. (within rel32
   reach of the code, which makes the generator emit `rex call rel32` instead of `call *pool(%rip)`). */

#include <stdint.h>
#include <stddef.h>

#define E3_CODE_BASE 0x100000000000ull
#define E3_HEAP_BASE 0x200000000000ull
#define E3_HEAP_SIZE 0x40000000ull
#define E3_EXT_BASE 0x300000000000ull
#define E3_BLT_BASE 0x300000100000ull
#define E3_FAKE_BASE 0x300000200000ull
#define E3_NEAR_BASE (E3_CODE_BASE + 0x40000000ull)

#define E3_MAX_REGIONS 4096
#define E3_MAX_ABS 4096
typedef struct e3_region {
  uint8_t *addr;
  size_t len, code_end; /* code_end: offset where the 16-aligned constant pool starts (== len if none) */
  const char *name;
  void *item; /* MIR_item_t of the function */
  size_t nabs;
  size_t *abs; /* offsets of 8-byte absolute code addresses (switch tables) */
} e3_region_t;
typedef struct e3_builtin {
  const char *name;
  void *fake, *real;
} e3_builtin_t;

extern e3_region_t e3_regions[E3_MAX_REGIONS];
extern int e3_nregions;
extern e3_builtin_t e3_builtins[64];
extern int e3_nbuiltins;
extern int e3_near_externs;
extern int e3_nchange; /* number of _MIR_change_code calls seen from the generator */

#ifdef E3_GEN_TU
/* ------------------------------------------------------------------------------------------------ */
#define _MIR_publish_code e3_publish_code
#define _MIR_change_code e3_change_code
#define _MIR_update_code_arr e3_update_code_arr
#define _MIR_builtin_func e3_builtin_func
#include "mir-gen.c"
#undef _MIR_publish_code
#undef _MIR_change_code
#undef _MIR_update_code_arr
#undef _MIR_builtin_func
extern uint8_t *_MIR_publish_code (MIR_context_t ctx, const uint8_t *code, size_t code_len);
extern void _MIR_change_code (MIR_context_t ctx, uint8_t *addr, const uint8_t *code, size_t code_len);
extern void _MIR_update_code_arr (MIR_context_t ctx, uint8_t *base, size_t nloc,
                                  const MIR_code_reloc_t *rel);
extern MIR_item_t _MIR_builtin_func (MIR_context_t ctx, MIR_module_t module, const char *name,
                                     void *addr);

e3_region_t e3_regions[E3_MAX_REGIONS];
int e3_nregions;
e3_builtin_t e3_builtins[64];
int e3_nbuiltins;
int e3_near_externs;
int e3_nchange;

uint8_t *e3_publish_code (MIR_context_t ctx, const uint8_t *code, size_t code_len) {
  uint8_t *res = _MIR_publish_code (ctx, code, code_len);
  gen_ctx_t gen_ctx = *gen_ctx_loc (ctx);
  e3_region_t *r;

  if (res == NULL || e3_nregions >= E3_MAX_REGIONS) {
    fprintf (stderr, "mirgen-dump: publish failed or too many regions\n");
    exit (3);
  }
  r = &e3_regions[e3_nregions++];
  r->addr = res;
  r->len = code_len;
  r->code_end = code_len;
  r->item = curr_func_item;
  r->name = curr_func_item != NULL && curr_func_item->item_type == MIR_func_item
              ? curr_func_item->u.func->name
              : "?";
  r->nabs = 0;
  r->abs = NULL;
  /* constant pool start = smallest pool entry offset referenced from the code */
  for (size_t i = 0; i < VARR_LENGTH (const_ref_t, const_refs); i++) {
    const_ref_t cr = VARR_GET (const_ref_t, const_refs, i);
    int32_t rel;
    memcpy (&rel, code + cr.pc, 4);
    size_t off = cr.next_insn_disp + (int64_t) rel;
    if (off < r->code_end) r->code_end = off;
  }
  return res;
}

void e3_change_code (MIR_context_t ctx, uint8_t *addr, const uint8_t *code, size_t code_len) {
  e3_nchange++;
  _MIR_change_code (ctx, addr, code, code_len);
}

void e3_update_code_arr (MIR_context_t ctx, uint8_t *base, size_t nloc,
                         const MIR_code_reloc_t *rel) {
  for (int i = e3_nregions - 1; i >= 0; i--)
    if (e3_regions[i].addr == base) {
      e3_region_t *r = &e3_regions[i];
      r->abs = realloc (r->abs, (r->nabs + nloc + 1) * sizeof (size_t));
      for (size_t k = 0; k < nloc; k++) r->abs[r->nabs++] = rel[k].offset;
      break;
    }
  _MIR_update_code_arr (ctx, base, nloc, rel);
}

MIR_item_t e3_builtin_func (MIR_context_t ctx, MIR_module_t module, const char *name, void *addr) {
  int i;
  for (i = 0; i < e3_nbuiltins; i++)
    if (strcmp (e3_builtins[i].name, name) == 0) break;
  if (i == e3_nbuiltins) {
    if (e3_nbuiltins >= 64) exit (3);
    e3_builtins[i].name = strdup (name);
    e3_builtins[i].real = addr;
    e3_builtins[i].fake
      = (void *) ((e3_near_externs ? E3_NEAR_BASE + 0x100000 : E3_BLT_BASE) + 0x100 * (uint64_t) i);
    e3_nbuiltins++;
  }
  return _MIR_builtin_func (ctx, module, name, e3_builtins[i].fake);
}

#else /* main TU */
/* ------------------------------------------------------------------------------------------------ */
#include "mir.c"
#include "mir-gen.h"
#include <sys/mman.h>

/* ---- fixed-address allocators ---- */
static uint8_t *heap_next;
static void heap_init (void) {
  void *p = mmap ((void *) E3_HEAP_BASE, E3_HEAP_SIZE, PROT_READ | PROT_WRITE,
                  MAP_PRIVATE | MAP_ANONYMOUS | MAP_NORESERVE | MAP_FIXED_NOREPLACE, -1, 0);
  if (p != (void *) E3_HEAP_BASE) {
    perror ("mirgen-dump: cannot map heap at fixed address");
    exit (3);
  }
  heap_next = p;
}
static void *b_malloc (size_t n, void *ud) {
  (void) ud;
  uint8_t *p = heap_next;
  n = (n + 15) & ~(size_t) 15;
  if (n == 0) n = 16;
  if ((uint64_t) (heap_next + n) > E3_HEAP_BASE + E3_HEAP_SIZE) {
    fprintf (stderr, "mirgen-dump: heap exhausted\n");
    exit (3);
  }
  heap_next += n;
  return p;
}
static void *b_calloc (size_t a, size_t b, void *ud) { return b_malloc (a * b, ud); /* fresh pages are zero */ }
static void *b_realloc (void *p, size_t old, size_t n, void *ud) {
  if (p != NULL && n <= ((old + 15) & ~(size_t) 15)) return p;
  void *q = b_malloc (n, ud);
  if (p != NULL) memcpy (q, p, old);
  return q;
}
static void b_free (void *p, void *ud) { (void) p; (void) ud; }
static struct MIR_alloc e3_alloc = {b_malloc, b_calloc, b_realloc, b_free, NULL};

static uint64_t code_next = E3_CODE_BASE;
static void *c_map (size_t len, void *ud) {
  (void) ud;
  void *p = mmap ((void *) code_next, len, PROT_READ | PROT_WRITE | PROT_EXEC,
                  MAP_PRIVATE | MAP_ANONYMOUS | MAP_FIXED_NOREPLACE, -1, 0);
  if (p != (void *) code_next) return NULL;
  code_next += len;
  return p;
}
static int c_unmap (void *a, size_t len, void *ud) { (void) ud; return munmap (a, len); }
static int c_protect (void *a, size_t len, MIR_mem_protect_t prot, void *ud) {
  (void) a; (void) len; (void) prot; (void) ud;
  return 0; /* pages stay RWX: this process never executes them */
}
static struct MIR_code_alloc e3_code_alloc = {c_map, c_unmap, c_protect, NULL};

/* exact end of the most recently published code */
static uint8_t *code_free_ptr (MIR_context_t ctx) {
  size_t n = VARR_LENGTH (code_holder_t, code_holders);
  return n == 0 ? NULL : VARR_ADDR (code_holder_t, code_holders)[n - 1].free;
}

/* ---- externals ---- */
static struct { char *name; void *addr; } exts[1024];
static int nexts;
static uint64_t ext_base (void) { return e3_near_externs ? E3_NEAR_BASE : E3_EXT_BASE; }
static void *add_ext (const char *name) {
  for (int i = 0; i < nexts; i++)
    if (strcmp (exts[i].name, name) == 0) return exts[i].addr;
  if (nexts >= 1024) exit (3);
  exts[nexts].name = strdup (name);
  exts[nexts].addr = (void *) (ext_base () + 0x100 * (uint64_t) nexts);
  return exts[nexts++].addr;
}
static void *resolver (const char *name) { return add_ext (name); }

/* ---- JSON helpers ---- */
static void jstr (const char *s) {
  putchar ('"');
  for (; s != NULL && *s; s++) {
    if (*s == '"' || *s == '\\') putchar ('\\');
    if ((unsigned char) *s < 32) printf ("\\u%04x", *s); else putchar (*s);
  }
  putchar ('"');
}
static void jhex (const uint8_t *p, size_t n) {
  putchar ('"');
  for (size_t i = 0; i < n; i++) printf ("%02x", p[i]);
  putchar ('"');
}
static void jaddr (const void *p) { printf ("\"0x%llx\"", (unsigned long long) (uintptr_t) p); }

static void jtype (MIR_context_t ctx, MIR_type_t t) {
  if (MIR_blk_type_p (t)) printf ("\"blk%d\"", (int) (t - MIR_T_BLK));
  else jstr (MIR_type_str (ctx, t));
}
static void jproto (MIR_context_t ctx, size_t nres, MIR_type_t *res, size_t nargs, MIR_var_t *args, int vararg_p) {
  printf ("{\"res\":[");
  for (size_t i = 0; i < nres; i++) { if (i) putchar (','); jtype (ctx, res[i]); }
  printf ("],\"args\":[");
  for (size_t i = 0; i < nargs; i++) {
    if (i) putchar (',');
    printf ("{\"type\":"); jtype (ctx, args[i].type);
    printf (",\"name\":"); jstr (args[i].name);
    printf (",\"size\":%lu}", MIR_all_blk_type_p (args[i].type) ? (unsigned long) args[i].size : 0ul);
  }
  printf ("],\"vararg\":%s}", vararg_p ? "true" : "false");
}

static char *read_file (const char *path) {
  FILE *f = fopen (path, "rb");
  if (f == NULL) { perror (path); exit (2); }
  fseek (f, 0, SEEK_END);
  long n = ftell (f);
  fseek (f, 0, SEEK_SET);
  char *s = malloc (n + 1);
  if (fread (s, 1, n, f) != (size_t) n) { perror (path); exit (2); }
  s[n] = 0;
  fclose (f);
  return s;
}

static const char *item_kind (MIR_item_t it) {
  switch (it->item_type) {
  case MIR_data_item: return "data";
  case MIR_ref_data_item: return "data";
  case MIR_lref_data_item: return "data";
  case MIR_expr_data_item: return "data";
  case MIR_bss_item: return "bss";
  default: return "?";
  }
}
static size_t data_size (MIR_context_t ctx, MIR_item_t it) {
  switch (it->item_type) {
  case MIR_data_item: return it->u.data->nel * _MIR_type_size (ctx, it->u.data->el_type);
  case MIR_ref_data_item: return 8;
  case MIR_lref_data_item: return 8;
  case MIR_expr_data_item: return _MIR_type_size (ctx, it->u.expr_data->expr_item->u.func->res_types[0]);
  case MIR_bss_item: return it->u.bss->len;
  default: return 0;
  }
}

static int dump_module_mode (const char *fname, int level) {
  MIR_context_t ctx = MIR_init2 (&e3_alloc, &e3_code_alloc);
  char buf[32];
  int first;

  for (int i = 0; i < 8; i++) {
    sprintf (buf, "ext%d", i);
    MIR_load_external (ctx, buf, add_ext (buf));
  }
  MIR_gen_init (ctx);
  MIR_gen_set_optimize_level (ctx, level);
  MIR_scan_string (ctx, read_file (fname));
  for (MIR_module_t m = DLIST_HEAD (MIR_module_t, *MIR_get_module_list (ctx)); m != NULL;
       m = DLIST_NEXT (MIR_module_t, m))
    MIR_load_module (ctx, m);
  MIR_link (ctx, MIR_set_gen_interface, resolver);

  printf ("{\"format\":\"e3-dump-1\",\"mode\":\"module\",\"source\":");
  jstr (fname);
  printf (",\"opt_level\":%d,\"near_externs\":%s,\n\"regions\":[\n", level, e3_near_externs ? "true" : "false");
  first = 1;
  for (int i = 0; i < e3_nregions; i++) {
    e3_region_t *r = &e3_regions[i];
    MIR_item_t it = r->item;
    MIR_func_t f = it->u.func;
    if (!first) printf (",\n");
    first = 0;
    printf (" {\"name\":"); jstr (r->name);
    printf (",\"kind\":\"func\",\"module\":"); jstr (it->module->name);
    printf (",\"addr\":"); jaddr (r->addr);
    printf (",\"len\":%lu,\"code_end\":%lu,\"thunk\":", (unsigned long) r->len, (unsigned long) r->code_end);
    jaddr (it->addr);
    printf (",\"abs_locs\":[");
    for (size_t k = 0; k < r->nabs; k++) printf ("%s%lu", k ? "," : "", (unsigned long) r->abs[k]);
    printf ("],\"proto\":");
    jproto (ctx, f->nres, f->res_types, f->nargs, VARR_ADDR (MIR_var_t, f->vars), f->vararg_p);
    printf (",\n  \"bytes\":"); jhex (r->addr, r->len);
    printf ("}");
    /* the function's thunk (item->addr): 13 bytes, see short/long_jmp_pattern */
    printf (",\n {\"name\":\"%s.thunk\",\"kind\":\"thunk\",\"module\":", r->name); jstr (it->module->name);
    printf (",\"addr\":"); jaddr (it->addr);
    printf (",\"len\":%lu,\"code_end\":%lu,\"target\":", (unsigned long) sizeof (short_jmp_pattern),
            (unsigned long) (*(uint8_t *) it->addr == 0xe9 ? 5 : sizeof (long_jmp_pattern)));
    jaddr (_MIR_get_thunk_addr (ctx, it->addr));
    printf (",\"abs_locs\":[],\"bytes\":"); jhex (it->addr, sizeof (short_jmp_pattern));
    printf ("}");
  }
  printf ("\n],\n\"symbols\":[\n");
  first = 1;
#define SYM(ADDR, KIND, NAME, SIZE)                                             \
  do {                                                                          \
    if (!first) printf (",\n");                                                 \
    first = 0;                                                                  \
    printf (" {\"addr\":"); jaddr (ADDR);                                       \
    printf (",\"kind\":\"%s\",\"name\":", KIND); jstr (NAME);                   \
    printf (",\"size\":%lu}", (unsigned long) (SIZE));                          \
  } while (0)
  for (int i = 0; i < e3_nregions; i++) {
    MIR_item_t it = e3_regions[i].item;
    SYM (e3_regions[i].addr, "func", e3_regions[i].name, e3_regions[i].len);
    SYM (it->addr, "thunk", e3_regions[i].name, sizeof (short_jmp_pattern));
  }
  for (int i = 0; i < nexts; i++) SYM (exts[i].addr, "extern", exts[i].name, 0);
  for (int i = 0; i < e3_nbuiltins; i++) SYM (e3_builtins[i].fake, "builtin", e3_builtins[i].name, 0);
  for (MIR_module_t m = DLIST_HEAD (MIR_module_t, *MIR_get_module_list (ctx)); m != NULL;
       m = DLIST_NEXT (MIR_module_t, m))
    for (MIR_item_t it = DLIST_HEAD (MIR_item_t, m->items); it != NULL; it = DLIST_NEXT (MIR_item_t, it))
      if (data_size (ctx, it) != 0 || it->item_type == MIR_bss_item || it->item_type == MIR_data_item) {
        const char *n = MIR_item_name (ctx, it);
        SYM (it->addr, item_kind (it), n == NULL ? "" : n, data_size (ctx, it));
        if (it->item_type == MIR_data_item && it->u.data->name != NULL && _MIR_reserved_ref_name_p (ctx, it->u.data->name)) {
          char nb[80];
          snprintf (nb, sizeof (nb), "%s.gen_ref", n);
          SYM (it->u.data->u.els, "data", nb, data_size (ctx, it));
        }
      }
  SYM (ctx, "ctx", "ctx", 0);
  printf ("\n],\n\"data\":[\n");
  first = 1;
  for (MIR_module_t m = DLIST_HEAD (MIR_module_t, *MIR_get_module_list (ctx)); m != NULL;
       m = DLIST_NEXT (MIR_module_t, m))
    for (MIR_item_t it = DLIST_HEAD (MIR_item_t, m->items); it != NULL; it = DLIST_NEXT (MIR_item_t, it)) {
      size_t sz = data_size (ctx, it);
      const char *n = MIR_item_name (ctx, it), *sub = "";
      if (strcmp (item_kind (it), "?") == 0) continue;
      if (it->item_type == MIR_ref_data_item) sub = "ref";
      if (it->item_type == MIR_lref_data_item) sub = "lref";
      if (it->item_type == MIR_expr_data_item) sub = "expr";
      if (!first) printf (",\n");
      first = 0;
      printf (" {\"name\":"); jstr (n == NULL ? "" : n);
      printf (",\"module\":"); jstr (m->name);
      printf (",\"kind\":\"%s\",\"sub\":\"%s\",\"addr\":", item_kind (it), sub); jaddr (it->addr);
      printf (",\"size\":%lu,\"section_head\":%s,\"bytes\":", (unsigned long) sz, it->section_head_p ? "true" : "false");
      jhex (it->addr, sz);
      printf ("}");
      /* literal pool items (.lc<n>): generated code does NOT use item->addr but the element array inside the
         item itself (get_ref_value in mir-gen.c) -- dump that copy too, it is the one the machine code reads */
      if (it->item_type == MIR_data_item && it->u.data->name != NULL && _MIR_reserved_ref_name_p (ctx, it->u.data->name)) {
        printf (",\n {\"name\":"); jstr (n);
        printf (",\"module\":"); jstr (m->name);
        printf (",\"kind\":\"data\",\"sub\":\"gen_ref\",\"addr\":"); jaddr (it->u.data->u.els);
        printf (",\"size\":%lu,\"section_head\":false,\"bytes\":", (unsigned long) sz);
        jhex ((uint8_t *) it->u.data->u.els, sz);
        printf ("}");
      }
    }
  printf ("\n],\n\"protos\":[\n");
  first = 1;
  for (MIR_module_t m = DLIST_HEAD (MIR_module_t, *MIR_get_module_list (ctx)); m != NULL;
       m = DLIST_NEXT (MIR_module_t, m))
    for (MIR_item_t it = DLIST_HEAD (MIR_item_t, m->items); it != NULL; it = DLIST_NEXT (MIR_item_t, it))
      if (it->item_type == MIR_proto_item) {
        MIR_proto_t p = it->u.proto;
        if (!first) printf (",\n");
        first = 0;
        printf (" {\"name\":"); jstr (p->name);
        printf (",\"module\":"); jstr (m->name);
        printf (",\"proto\":");
        jproto (ctx, p->nres, p->res_types, VARR_LENGTH (MIR_var_t, p->args), VARR_ADDR (MIR_var_t, p->args), p->vararg_p);
        printf ("}");
      }
  printf ("\n],\n\"imports\":[\n");
  first = 1;
  for (MIR_module_t m = DLIST_HEAD (MIR_module_t, *MIR_get_module_list (ctx)); m != NULL;
       m = DLIST_NEXT (MIR_module_t, m))
    for (MIR_item_t it = DLIST_HEAD (MIR_item_t, m->items); it != NULL; it = DLIST_NEXT (MIR_item_t, it))
      if (it->item_type == MIR_import_item || it->item_type == MIR_forward_item || it->item_type == MIR_export_item) {
        if (!first) printf (",\n");
        first = 0;
        printf (" {\"name\":"); jstr (MIR_item_name (ctx, it));
        printf (",\"module\":"); jstr (m->name);
        printf (",\"item\":\"%s\",\"addr\":", it->item_type == MIR_import_item ? "import" : it->item_type == MIR_forward_item ? "forward" : "export");
        jaddr (it->addr);
        printf ("}");
      }
  printf ("\n],\n\"gen_change_code_calls\":%d}\n", e3_nchange);
  fflush (stdout);
  return 0;
}

/* ---------------- trampolines mode ---------------- */
#define FAKE(n) ((void *) (E3_FAKE_BASE + 0x1000ull * (n)))
#define FAKE_TO_FAR FAKE (1)
#define FAKE_ITEM FAKE (2)
#define FAKE_HOOK FAKE (3)
#define FAKE_BBV FAKE (4)
#define FAKE_BB_DATA FAKE (5)
#define FAKE_BB_HOOK FAKE (6)
#define FAKE_HANDLER FAKE (7)
#define FAKE_BBV2 FAKE (8)

static int tfirst = 1;
struct emb { const char *meaning; const void *value; };

static void tramp_region (const char *name, const char *kind, const uint8_t *addr, size_t len, size_t code_end,
                          const struct emb *embs, int nembs, const char *extra) {
  if (!tfirst) printf (",\n");
  tfirst = 0;
  printf (" {\"name\":"); jstr (name);
  printf (",\"kind\":\"%s\",\"addr\":", kind); jaddr (addr);
  printf (",\"len\":%lu,\"code_end\":%lu,\"abs_locs\":[],\"embedded\":[", (unsigned long) len, (unsigned long) code_end);
  int f = 1;
  for (int e = 0; e < nembs; e++) {
    uint64_t v = (uint64_t) (uintptr_t) embs[e].value;
    for (size_t o = 0; o + 8 <= len; o++)
      if (memcmp (addr + o, &v, 8) == 0) {
        printf ("%s{\"offset\":%lu,\"size\":8,\"meaning\":\"%s\",\"value\":\"0x%llx\"}", f ? "" : ",", (unsigned long) o,
                embs[e].meaning, (unsigned long long) v);
        f = 0;
      }
  }
  printf ("]%s%s,\n  \"bytes\":", extra[0] ? "," : "", extra);
  jhex (addr, len);
  printf ("}");
}

static MIR_type_t parse_type (const char *s, size_t *size) {
  *size = 0;
  if (strcmp (s, "i8") == 0) return MIR_T_I8;
  if (strcmp (s, "u8") == 0) return MIR_T_U8;
  if (strcmp (s, "i16") == 0) return MIR_T_I16;
  if (strcmp (s, "u16") == 0) return MIR_T_U16;
  if (strcmp (s, "i32") == 0) return MIR_T_I32;
  if (strcmp (s, "u32") == 0) return MIR_T_U32;
  if (strcmp (s, "i64") == 0) return MIR_T_I64;
  if (strcmp (s, "u64") == 0) return MIR_T_U64;
  if (strcmp (s, "f") == 0) return MIR_T_F;
  if (strcmp (s, "d") == 0) return MIR_T_D;
  if (strcmp (s, "ld") == 0) return MIR_T_LD;
  if (strcmp (s, "p") == 0) return MIR_T_P;
  if (strncmp (s, "rblk", 4) == 0) {
    if (s[4] == ':') *size = strtoul (s + 5, NULL, 10);
    return MIR_T_RBLK;
  }
  if (strncmp (s, "blk", 3) == 0 && s[3] >= '0' && s[3] <= '4' && s[4] == ':') {
    *size = strtoul (s + 5, NULL, 10);
    return MIR_T_BLK + (s[3] - '0');
  }
  fprintf (stderr, "mirgen-dump: unknown type '%s' in prototype list\n", s);
  exit (2);
}

static size_t split_types (char *list, MIR_type_t *types, size_t *sizes, size_t max) {
  size_t n = 0;
  if (strcmp (list, "-") == 0) return 0;
  for (char *t = strtok (list, ","); t != NULL; t = strtok (NULL, ",")) {
    if (n >= max) exit (2);
    types[n] = parse_type (t, &sizes[n]);
    n++;
  }
  return n;
}

static const char *default_protos
  = "v - -\n"
    "i64 i64 -\n"
    "i64_2 i64,i64 i64,i64\n"
    "f f f\n"
    "d d d\n"
    "ld ld ld\n"
    "ld_2 ld,ld ld,ld\n"
    "mix i64,d,ld i32,f,d,ld,p\n"
    "fd f,d d,f\n"
    "i7 i64 i64,i64,i64,i64,i64,i64,i64,i64\n"
    "d9 d d,d,d,d,d,d,d,d,d,f\n"
    "blk1 i64 blk1:16,i64\n"
    "blk2 d blk2:16,d\n"
    "blk3 i64 blk3:16\n"
    "blk4 i64 blk4:16\n"
    "blk0 i64 blk0:24,i64\n"
    "rblk i64 rblk:32,i64\n"
    "u8 u8 i8,u16,i32,u32\n";

static int trampolines_mode (const char *proto_file) {
  MIR_context_t ctx = MIR_init2 (&e3_alloc, &e3_code_alloc);
  uint8_t *p, *q;
  char extra[512];
  size_t wrap_end_len;

  printf ("{\"format\":\"e3-dump-1\",\"mode\":\"trampolines\",\n\"fake\":{\"to_far\":");
  jaddr (FAKE_TO_FAR); printf (",\"func_item\":"); jaddr (FAKE_ITEM);
  printf (",\"hook\":"); jaddr (FAKE_HOOK); printf (",\"bb_version\":"); jaddr (FAKE_BBV);
  printf (",\"bb_version2\":"); jaddr (FAKE_BBV2);
  printf (",\"bb_data\":"); jaddr (FAKE_BB_DATA); printf (",\"bb_hook\":"); jaddr (FAKE_BB_HOOK);
  printf (",\"handler\":"); jaddr (FAKE_HANDLER); printf (",\"ctx\":"); jaddr (ctx);
  printf ("},\n\"regions\":[\n");

  /* builtins published as code */
  uint8_t *bstart = _MIR_get_bstart_builtin (ctx);
  tramp_region ("bstart_builtin", "builtin_code", bstart, code_free_ptr (ctx) - bstart, code_free_ptr (ctx) - bstart, NULL, 0, "");
  p = _MIR_get_bend_builtin (ctx);
  tramp_region ("bend_builtin", "builtin_code", p, code_free_ptr (ctx) - p, code_free_ptr (ctx) - p, NULL, 0, "");
  /* thunks */
  p = _MIR_get_thunk (ctx);
  tramp_region ("thunk_fresh", "raw", p, code_free_ptr (ctx) - p, 5, NULL, 0, "\"note\":\"as returned by _MIR_get_thunk, before any redirect; kind raw = never executed, not lifted\"");
  p = _MIR_get_thunk (ctx);
  size_t tlen = code_free_ptr (ctx) - p;
  {
    void *to = bstart; /* a real region within rel32 reach */
    struct emb e[] = {{"thunk_target(abs holder, not executed)", to}};
    _MIR_redirect_thunk (ctx, p, to);
    sprintf (extra, "\"target\":\"0x%llx\",\"thunk_addr_reported\":\"0x%llx\"", (unsigned long long) to,
             (unsigned long long) _MIR_get_thunk_addr (ctx, p));
    tramp_region ("thunk_short", "thunk", p, tlen, 5, e, 1, extra);
  }
  p = _MIR_get_thunk (ctx);
  {
    struct emb e[] = {{"thunk_target", FAKE_TO_FAR}};
    _MIR_redirect_thunk (ctx, p, FAKE_TO_FAR);
    sprintf (extra, "\"target\":\"0x%llx\",\"thunk_addr_reported\":\"0x%llx\"", (unsigned long long) FAKE_TO_FAR,
             (unsigned long long) _MIR_get_thunk_addr (ctx, p));
    tramp_region ("thunk_long", "thunk", p, tlen, tlen, e, 1, extra);
  }
  p = _MIR_get_thunk (ctx); /* long, then back to short: both directions of the switch */
  {
    void *to = bstart;
    struct emb e[] = {{"thunk_target(abs holder, not executed)", to}};
    _MIR_redirect_thunk (ctx, p, FAKE_TO_FAR);
    _MIR_redirect_thunk (ctx, p, to);
    sprintf (extra, "\"target\":\"0x%llx\",\"thunk_addr_reported\":\"0x%llx\"", (unsigned long long) to,
             (unsigned long long) _MIR_get_thunk_addr (ctx, p));
    tramp_region ("thunk_long_then_short", "thunk", p, tlen, 5, e, 1, extra);
  }
  /* wrapper end: a fresh copy gives the length; the one the wrappers jump to is ctx->wrapper_end_addr */
  p = _MIR_get_wrapper_end (ctx);
  wrap_end_len = code_free_ptr (ctx) - p;
  if (memcmp (p, wrapper_end_addr, wrap_end_len) != 0) {
    fprintf (stderr, "mirgen-dump: wrapper_end copy differs from ctx->wrapper_end_addr\n");
    return 3;
  }
  tramp_region ("wrapper_end", "wrapper_end", wrapper_end_addr, wrap_end_len, wrap_end_len, NULL, 0,
                "\"note\":\"ctx->wrapper_end_addr: entered by jmp from every wrapper with r10=hook, rdi=ctx, rsi=func item, "
                "[rsp]=saved rdi, [rsp+8]=saved rsi\"");
  {
    struct emb e[] = {{"called_func", FAKE_ITEM}, {"ctx", ctx}, {"hook_address", FAKE_HOOK}};
    p = _MIR_get_wrapper (ctx, FAKE_ITEM, FAKE_HOOK);
    sprintf (extra, "\"jumps_to\":\"0x%llx\"", (unsigned long long) wrapper_end_addr);
    tramp_region ("wrapper", "wrapper", p, code_free_ptr (ctx) - p, code_free_ptr (ctx) - p, e, 3, extra);
  }
  {
    struct emb e[] = {{"data", FAKE_BB_DATA}, {"hook_address", FAKE_BB_HOOK}};
    q = _MIR_get_bb_wrapper (ctx, FAKE_BB_DATA, FAKE_BB_HOOK);
    size_t l = code_free_ptr (ctx) - q;
    tramp_region ("bb_wrapper", "bb_wrapper", q, l, l, e, 2, "");
  }
  {
    struct emb e[] = {{"bb_version", FAKE_BBV}};
    p = _MIR_get_bb_thunk (ctx, FAKE_BBV, q);
    size_t l = code_free_ptr (ctx) - p;
    sprintf (extra, "\"handler\":\"0x%llx\"", (unsigned long long) q);
    tramp_region ("bb_thunk", "bb_thunk", p, l, l, e, 1, extra);
    struct emb e2[] = {{"bb_version(dead after replace)", FAKE_BBV2}};
    p = _MIR_get_bb_thunk (ctx, FAKE_BBV2, q);
    void *to = p + 0x4321;
    _MIR_replace_bb_thunk (ctx, p, to);
    sprintf (extra, "\"target\":\"0x%llx\"", (unsigned long long) to);
    tramp_region ("bb_thunk_replaced", "bb_thunk", p, l, 5, e2, 1, extra);
  }
  /* per prototype: ff_call and interp shim */
  char *text = proto_file != NULL ? read_file (proto_file) : strdup (default_protos);
  char *save = NULL;
  MIR_module_t m = MIR_new_module (ctx, "e3_tramp");
  int nline = 0;
  char *lines[256];
  for (char *line = strtok_r (text, "\n", &save); line != NULL && nline < 256; line = strtok_r (NULL, "\n", &save))
    lines[nline++] = line;
  for (int li = 0; li < nline; li++) {
    char name[64], rs[256], as[1024], nm[96];
    MIR_type_t rt[16], at[64];
    size_t rsz[16], asz[64];
    if (lines[li][0] == '#' || sscanf (lines[li], "%63s %255s %1023s", name, rs, as) != 3) continue;
    char *rs2 = strdup (rs), *as2 = strdup (as);
    size_t nres = split_types (rs2, rt, rsz, 16), nargs = split_types (as2, at, asz, 64);
    _MIR_arg_desc_t descs[64];
    MIR_var_t vars[64];
    for (size_t i = 0; i < nargs; i++) {
      descs[i].type = at[i];
      descs[i].size = asz[i];
      vars[i].type = at[i];
      vars[i].size = asz[i];
      char *an = malloc (16);
      sprintf (an, "a%d", (int) i);
      vars[i].name = an;
    }
    p = _MIR_get_ff_call (ctx, nres, rt, nargs, descs, 0);
    size_t l = code_free_ptr (ctx) - p;
    if (!tfirst) printf (",\n");
    tfirst = 0;
    sprintf (nm, "ff_call_%s", name);
    printf (" {\"name\":"); jstr (nm);
    printf (",\"kind\":\"ff_call\",\"addr\":"); jaddr (p);
    printf (",\"len\":%lu,\"code_end\":%lu,\"abs_locs\":[],\"embedded\":[],\"proto\":", (unsigned long) l, (unsigned long) l);
    jproto (ctx, nres, rt, nargs, vars, 0);
    printf (",\n  \"bytes\":"); jhex (p, l);
    printf ("}");
    /* interp shim: needs a func item whose result types are rt[] */
    int shim_ok = 1;
    for (size_t i = 0; i < nargs; i++)
      if (MIR_blk_type_p (at[i]) && at[i] != MIR_T_BLK) {} /* any blk type is fine for a func decl */
    if (shim_ok) {
      MIR_op_t rops[16];
      sprintf (nm, "shimf_%s", name);
      MIR_item_t fi = MIR_new_func_arr (ctx, nm, nres, rt, nargs, vars);
      for (size_t i = 0; i < nres; i++)
        rops[i] = rt[i] == MIR_T_F    ? MIR_new_float_op (ctx, 0.0f)
                  : rt[i] == MIR_T_D  ? MIR_new_double_op (ctx, 0.0)
                  : rt[i] == MIR_T_LD ? MIR_new_ldouble_op (ctx, 0.0L)
                                      : MIR_new_int_op (ctx, 0);
      MIR_append_insn (ctx, fi, MIR_new_insn_arr (ctx, MIR_RET, nres, rops));
      MIR_finish_func (ctx);
      struct emb e[] = {{"ctx", ctx}, {"func_item", fi}, {"handler", FAKE_HANDLER}};
      p = _MIR_get_interp_shim (ctx, fi, FAKE_HANDLER);
      l = code_free_ptr (ctx) - p;
      sprintf (nm, "interp_shim_%s", name);
      if (!tfirst) printf (",\n");
      printf (" {\"name\":"); jstr (nm);
      printf (",\"kind\":\"interp_shim\",\"addr\":"); jaddr (p);
      printf (",\"len\":%lu,\"code_end\":%lu,\"abs_locs\":[],\"embedded\":[", (unsigned long) l, (unsigned long) l);
      int f = 1;
      for (int k = 0; k < 3; k++) {
        uint64_t v = (uint64_t) (uintptr_t) e[k].value;
        for (size_t o = 0; o + 8 <= l; o++)
          if (memcmp (p + o, &v, 8) == 0) {
            printf ("%s{\"offset\":%lu,\"size\":8,\"meaning\":\"%s\",\"value\":\"0x%llx\"}", f ? "" : ",", (unsigned long) o, e[k].meaning, (unsigned long long) v);
            f = 0;
          }
      }
      printf ("],\"proto\":");
      jproto (ctx, nres, rt, nargs, vars, 0);
      printf (",\n  \"bytes\":"); jhex (p, l);
      printf ("}");
    }
  }
  MIR_finish_module (ctx);
  (void) m;
  printf ("\n],\n\"symbols\":[\n");
  printf (" {\"addr\":"); jaddr (FAKE_TO_FAR); printf (",\"kind\":\"extern\",\"name\":\"fake_to_far\",\"size\":0},\n");
  printf (" {\"addr\":"); jaddr (FAKE_HOOK); printf (",\"kind\":\"extern\",\"name\":\"fake_hook\",\"size\":0},\n");
  printf (" {\"addr\":"); jaddr (FAKE_BB_HOOK); printf (",\"kind\":\"extern\",\"name\":\"fake_bb_hook\",\"size\":0},\n");
  printf (" {\"addr\":"); jaddr (FAKE_HANDLER); printf (",\"kind\":\"extern\",\"name\":\"fake_handler\",\"size\":0},\n");
  printf (" {\"addr\":"); jaddr (FAKE_ITEM); printf (",\"kind\":\"fake\",\"name\":\"fake_func_item\",\"size\":0},\n");
  printf (" {\"addr\":"); jaddr (FAKE_BBV); printf (",\"kind\":\"fake\",\"name\":\"fake_bb_version\",\"size\":0},\n");
  printf (" {\"addr\":"); jaddr (FAKE_BBV2); printf (",\"kind\":\"fake\",\"name\":\"fake_bb_version2\",\"size\":0},\n");
  printf (" {\"addr\":"); jaddr (FAKE_BB_DATA); printf (",\"kind\":\"fake\",\"name\":\"fake_bb_data\",\"size\":0},\n");
  printf (" {\"addr\":"); jaddr (ctx); printf (",\"kind\":\"ctx\",\"name\":\"ctx\",\"size\":0}\n");
  printf ("],\n\"data\":[],\"protos\":[],\"imports\":[]}\n");
  fflush (stdout);
  return 0;
}

int main (int argc, char **argv) {
  int level = 2, tramp = 0;
  const char *file = NULL;

  for (int i = 1; i < argc; i++) {
    if (strncmp (argv[i], "-O", 2) == 0 && argv[i][2] >= '0' && argv[i][2] <= '3' && argv[i][3] == 0)
      level = argv[i][2] - '0';
    else if (strcmp (argv[i], "--near-externs") == 0)
      e3_near_externs = 1;
    else if (strcmp (argv[i], "--trampolines") == 0)
      tramp = 1;
    else if (argv[i][0] == '-') {
      fprintf (stderr, "usage: mirgen-dump [-O<0..3>] [--near-externs] file.mir | mirgen-dump --trampolines [protos.txt]\n");
      return 2;
    } else
      file = argv[i];
  }
  heap_init ();
  if (tramp) return trampolines_mode (file);
  if (file == NULL) {
    fprintf (stderr, "mirgen-dump: no input file\n");
    return 2;
  }
  return dump_module_mode (file, level);
}
#endif
