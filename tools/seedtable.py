#!/usr/bin/env python3
"""Prints the markdown table 'which check catches which seeded change' from seeded/*/meta.json (used for DESIGN.md 8.4)."""
import glob, json, os
rows = []
for p in sorted(glob.glob("/verif/seeded/*/meta.json")):
    m = json.load(open(p))
    need = m["what_it_needs_to_manifest"].split("\n")[0][:150].replace("|", "/")
    cr = m["check_run"]
    rows.append("| %s | %s | %s | %s | %s |" % (m["seed_id"], m["property"], need, "caught" if cr["detected"] else "**missed**",
                                               ", ".join(cr["violated_obligations"][:4]) + (" ..." if len(cr["violated_obligations"]) > 4 else "")))
print("| seed | property | change (first line of its README) | result | obligations that reported it |\n|---|---|---|---|---|")
print("\n".join(rows))
