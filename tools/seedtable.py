#!/usr/bin/env python3
"""Prints the markdown table 'which check catches which seeded change' from seeded/*/meta.json (used for DESIGN.md 8.4)."""
import glob, json, os
rows = []
for p in sorted(glob.glob("/verif/seeded/*/meta.json")):
    m = json.load(open(p))
    need = m["what_it_needs_to_manifest"].split("\n")[0][:130].replace("|", "/")
    cr = m["check_run"]
    first = "caught" if cr["detected"] else "missed"
    obl = ", ".join(cr["violated_obligations"][:3]) + (" ..." if len(cr["violated_obligations"]) > 3 else "")
    after = ""
    for k in ("after_strengthening_C01", "after_strengthening"):
        if k in m:
            a = m[k]
            after += ("; " if after else "") + "%s: %s" % (a["check"], (a.get("violated_obligations") or a.get("what") or "")[:220].replace("|", "/"))
    if "still_missed_because" in m:
        after = "**" + m["still_missed_because"].replace("|", "/") + "**"
    rows.append("| %s | %s | %s | %s | %s |" % (m["seed_id"], need, first, obl, after or ("-" if cr["detected"] else "**still missed**")))
print("| seed | change (first line of its README) | first run of the property's quick check | obligations that reported it | after strengthening |\n|---|---|---|---|---|")
print("\n".join(rows))
