/* liftcheck.c -- native validation of the x86 lifter (engine E3).

   Built by tools/liftcheck.py as ONE translation unit:
     gcc -O1 -fno-strict-aliasing -DLC_TABLES='"tables.c"' -DLC_LIFTED='"lifted.c"' -I/verif/tools liftcheck.c
   tables.c (generated from the dump) gives the regions' real bytes, data items and symbols; lifted.c
   is the output of x86lift.py for the same dump.

   For every region: map the real bytes at their original (fixed) addresses, then for N pseudo-random
   states (fixed seed) run
     (1) the REAL machine code through an assembly trampoline that loads all 16 GPRs, xmm0-15, the
         five status flags, an empty x87 stack and default MXCSR, and captures everything afterwards;
     (2) the LIFTED C function on a copy of the same state and the same memory image;
   and compare GPRs, xmm (both halves), defined flags, the x87 stack, the exit address, the log of
   calls to externals and every byte of the scratch arena (stack + buffers) and of the data items.
   Calls/jumps to addresses outside the lifted regions (fake externals, hooks, garbage) are served on
   both sides by the same deterministic stub (natively: from the SIGSEGV handler, the fake addresses
   are unmapped).  States on which the REAL code faults or runs too long are skipped and counted. */
#define _GNU_SOURCE
#include <stdint.h>
#include <stdio.h>
#include <stdlib.h>
#include <string.h>
#include <signal.h>
#include <setjmp.h>
#include <ucontext.h>
#include <sys/mman.h>
#include <sys/time.h>

#include "lift_rt.h"

typedef struct { const char *name, *kind; uint64_t addr; unsigned len; const uint8_t *bytes; unsigned ptrmask, smallmask, nld; uint64_t slotmask; } lc_region_t;
typedef struct { const char *name; uint64_t addr; unsigned size; const uint8_t *bytes; } lc_data_t;
typedef struct { uint64_t addr; const char *kind, *name; } lc_sym_t;

#include LC_LIFTED
#include LC_TABLES
/* tables.c defines: lc_regions[], lc_nregions, lc_data[], lc_ndata, lc_syms[], lc_nsyms */

#define ARENA_BASE 0x400000000000ull
#define ARENA_SIZE 0x10000u
#define BUF_SIZE 0x8000u             /* [0,BUF_SIZE) buffers, rest stack */
#define STACK_TOP_OFF 0xC000u        /* initial rsp region */
#define STUB_RET_BASE 0x3f0000000000ull

/* ---------------- PRNG ---------------- */
static uint64_t rng_s;
static uint64_t rnd (void) {
  uint64_t z = (rng_s += 0x9e3779b97f4a7c15ull);
  z = (z ^ (z >> 30)) * 0xbf58476d1ce4e5b9ull;
  z = (z ^ (z >> 27)) * 0x94d049bb133111ebull;
  return z ^ (z >> 31);
}
static uint64_t mix64 (uint64_t a, uint64_t b) {
  uint64_t z = a * 0x9e3779b97f4a7c15ull + b + 0x632be59bd9b4e019ull;
  z = (z ^ (z >> 32)) * 0xd6e8feb86659fd93ull;
  z = (z ^ (z >> 32)) * 0xd6e8feb86659fd93ull;
  return z ^ (z >> 32);
}

/* ---------------- native state ---------------- */
struct nstate {
  uint64_t r[16];
  uint64_t xmm[16][2];
  uint64_t rflags;
  uint32_t mxcsr, pad;
  uint8_t fsave[128];
};
struct nstate g_in, g_out;
uint64_t g_host_rsp, g_code;
extern void native_run (void);
extern char native_return[];

__asm__(
  ".text\n"
  ".globl native_run\n"
  "native_run:\n"
  "  push %rbx\n  push %rbp\n  push %r12\n  push %r13\n  push %r14\n  push %r15\n"
  "  mov %rsp, g_host_rsp(%rip)\n"
  "  fninit\n"
  "  ldmxcsr g_in+392(%rip)\n"
  "  movdqu g_in+128(%rip), %xmm0\n  movdqu g_in+144(%rip), %xmm1\n  movdqu g_in+160(%rip), %xmm2\n  movdqu g_in+176(%rip), %xmm3\n"
  "  movdqu g_in+192(%rip), %xmm4\n  movdqu g_in+208(%rip), %xmm5\n  movdqu g_in+224(%rip), %xmm6\n  movdqu g_in+240(%rip), %xmm7\n"
  "  movdqu g_in+256(%rip), %xmm8\n  movdqu g_in+272(%rip), %xmm9\n  movdqu g_in+288(%rip), %xmm10\n  movdqu g_in+304(%rip), %xmm11\n"
  "  movdqu g_in+320(%rip), %xmm12\n  movdqu g_in+336(%rip), %xmm13\n  movdqu g_in+352(%rip), %xmm14\n  movdqu g_in+368(%rip), %xmm15\n"
  "  pushq g_in+384(%rip)\n  popfq\n"
  "  mov g_in+0(%rip), %rax\n  mov g_in+8(%rip), %rcx\n  mov g_in+16(%rip), %rdx\n  mov g_in+24(%rip), %rbx\n"
  "  mov g_in+40(%rip), %rbp\n  mov g_in+48(%rip), %rsi\n  mov g_in+56(%rip), %rdi\n"
  "  mov g_in+64(%rip), %r8\n  mov g_in+72(%rip), %r9\n  mov g_in+80(%rip), %r10\n  mov g_in+88(%rip), %r11\n"
  "  mov g_in+96(%rip), %r12\n  mov g_in+104(%rip), %r13\n  mov g_in+112(%rip), %r14\n  mov g_in+120(%rip), %r15\n"
  "  mov g_in+32(%rip), %rsp\n"
  "  jmp *g_code(%rip)\n"
  ".globl native_return\n"
  "native_return:\n"
  "  mov %rax, g_out+0(%rip)\n  mov %rcx, g_out+8(%rip)\n  mov %rdx, g_out+16(%rip)\n  mov %rbx, g_out+24(%rip)\n"
  "  mov %rsp, g_out+32(%rip)\n  mov %rbp, g_out+40(%rip)\n  mov %rsi, g_out+48(%rip)\n  mov %rdi, g_out+56(%rip)\n"
  "  mov %r8, g_out+64(%rip)\n  mov %r9, g_out+72(%rip)\n  mov %r10, g_out+80(%rip)\n  mov %r11, g_out+88(%rip)\n"
  "  mov %r12, g_out+96(%rip)\n  mov %r13, g_out+104(%rip)\n  mov %r14, g_out+112(%rip)\n  mov %r15, g_out+120(%rip)\n"
  "  mov g_host_rsp(%rip), %rsp\n"
  "  pushfq\n  popq g_out+384(%rip)\n"
  "  cld\n"
  "  movdqu %xmm0, g_out+128(%rip)\n  movdqu %xmm1, g_out+144(%rip)\n  movdqu %xmm2, g_out+160(%rip)\n  movdqu %xmm3, g_out+176(%rip)\n"
  "  movdqu %xmm4, g_out+192(%rip)\n  movdqu %xmm5, g_out+208(%rip)\n  movdqu %xmm6, g_out+224(%rip)\n  movdqu %xmm7, g_out+240(%rip)\n"
  "  movdqu %xmm8, g_out+256(%rip)\n  movdqu %xmm9, g_out+272(%rip)\n  movdqu %xmm10, g_out+288(%rip)\n  movdqu %xmm11, g_out+304(%rip)\n"
  "  movdqu %xmm12, g_out+320(%rip)\n  movdqu %xmm13, g_out+336(%rip)\n  movdqu %xmm14, g_out+352(%rip)\n  movdqu %xmm15, g_out+368(%rip)\n"
  "  stmxcsr g_out+392(%rip)\n"
  "  fnsave g_out+400(%rip)\n"
  "  fninit\n"
  "  pop %r15\n  pop %r14\n  pop %r13\n  pop %r12\n  pop %rbp\n  pop %rbx\n"
  "  ret\n");

/* ---------------- call log + stub ---------------- */
#define MAXLOG 64
struct callrec { uint64_t target, rsp, gpr[7]; uint64_t xmm[8]; };
static struct callrec nlog[MAXLOG], llog[MAXLOG];
static int nlog_n, llog_n;

static const lc_sym_t *find_sym (uint64_t a) {
  for (int i = 0; i < lc_nsyms; i++)
    if (lc_syms[i].addr == a) return &lc_syms[i];
  return NULL;
}
/* how many long doubles the stub for this target returns on the x87 stack (validation convention) */
static int stub_ld_results (uint64_t target) {
  const lc_sym_t *sy = find_sym (target);
  if (target == 0x300000000600ull || target == 0x100040000600ull) return 1; /* ext6 (far / near placement) */
  if (target == 0x300000000700ull || target == 0x100040000700ull) return 2; /* ext7 */
  if (sy == NULL) return 0;
  if (strcmp (sy->name, "ext6") == 0 || strcmp (sy->name, "mir.ui2ld") == 0) return 1;
  if (strcmp (sy->name, "ext7") == 0) return 2;
  return 0;
}
struct stubres { uint64_t gpr[9]; /* rax rcx rdx rsi rdi r8 r9 r10 r11 */ uint64_t xmm[16][2]; int nld; long double ld[2]; };
static void stub_compute (uint64_t target, int callno, struct stubres *o) {
  uint64_t h = mix64 (target, (uint64_t) callno);
  for (int i = 0; i < 9; i++) o->gpr[i] = mix64 (h, 100 + i);
  o->gpr[0] = STUB_RET_BASE + ((h & 0xffff) << 4); /* rax: canonical, unmapped, so that jmp *result is again a stub call */
  if (h & 0x100) o->gpr[0] = mix64 (h, 7) >> (h & 63);
  for (int i = 0; i < 16; i++) {
    o->xmm[i][0] = mix64 (h, 200 + i);
    o->xmm[i][1] = mix64 (h, 300 + i);
  }
  /* make xmm0/xmm1 reasonable doubles / floats now and then */
  if (h & 0x200) { double d = (double) (int64_t) (h >> 40) / 7.0; memcpy (&o->xmm[0][0], &d, 8); }
  if (h & 0x400) { float f = (float) (int32_t) (h >> 44) / 3.0f; uint32_t u; memcpy (&u, &f, 4); o->xmm[1][0] = (o->xmm[1][0] & ~0xffffffffull) | u; }
  o->nld = stub_ld_results (target);
  o->ld[0] = (long double) (int64_t) mix64 (h, 400) / 1000.0L;
  o->ld[1] = (long double) (int64_t) mix64 (h, 401) / 3.0L;
}

/* ---------------- region lookup / memory ---------------- */
static int in_any_region (uint64_t a) {
  for (int i = 0; i < lc_nregions; i++)
    if (a >= lc_regions[i].addr && a < lc_regions[i].addr + lc_regions[i].len) return 1;
  return 0;
}
static uint8_t *arena = (uint8_t *) ARENA_BASE;
static uint8_t arena0[ARENA_SIZE], arena_n[ARENA_SIZE];
static uint8_t *data0, *data_n; /* concatenated images of the data items */
static unsigned data_total;

static uint64_t mapped_pages[65536];
static int n_mapped_pages;
static void map_fixed (uint64_t addr, uint64_t len, int prot) {
  uint64_t a = addr & ~0xfffull, e = (addr + len + 0xfff) & ~0xfffull;
  for (; a < e; a += 0x1000) {
    int k;
    for (k = 0; k < n_mapped_pages; k++)
      if (mapped_pages[k] == a) break;
    if (k < n_mapped_pages) continue;
    void *p = mmap ((void *) a, 0x1000, prot, MAP_PRIVATE | MAP_ANONYMOUS | MAP_FIXED_NOREPLACE, -1, 0);
    if (p != (void *) a) { fprintf (stderr, "liftcheck: cannot map 0x%llx\n", (unsigned long long) a); exit (3); }
    if (n_mapped_pages >= 65536) exit (3);
    mapped_pages[n_mapped_pages++] = a;
  }
}
static void data_save (uint8_t *dst) {
  unsigned o = 0;
  for (int i = 0; i < lc_ndata; i++) { memcpy (dst + o, (void *) lc_data[i].addr, lc_data[i].size); o += lc_data[i].size; }
}
static void data_restore (const uint8_t *src) {
  unsigned o = 0;
  for (int i = 0; i < lc_ndata; i++) { memcpy ((void *) lc_data[i].addr, src + o, lc_data[i].size); o += lc_data[i].size; }
}

/* ---------------- signals ---------------- */
static sigjmp_buf jb;
static volatile int in_native, in_lifted;
static volatile int sig_kind;            /* 1 data fault, 2 timeout, 3 trap */
static volatile uint64_t sig_addr;
static int ncall_native;

static void on_signal (int sig, siginfo_t *si, void *ucv) {
  ucontext_t *uc = ucv;
  greg_t *g = uc->uc_mcontext.gregs;
  uint64_t rip = (uint64_t) g[REG_RIP];
  if (in_native && sig == SIGSEGV && !in_any_region (rip) && rip != (uint64_t) native_return
      && (uint64_t) si->si_addr == rip) {
    /* instruction fetch from an address outside the regions: serve it with the stub, then `ret` */
    struct stubres sr;
    struct _libc_fpstate *fp = uc->uc_mcontext.fpregs;
    uint64_t rsp = (uint64_t) g[REG_RSP];
    if (rsp < ARENA_BASE || rsp + 8 > ARENA_BASE + ARENA_SIZE) { sig_kind = 1; sig_addr = rsp; siglongjmp (jb, 1); }
    if (nlog_n < MAXLOG) {
      struct callrec *c = &nlog[nlog_n];
      c->target = rip; c->rsp = rsp;
      c->gpr[0] = g[REG_RDI]; c->gpr[1] = g[REG_RSI]; c->gpr[2] = g[REG_RDX]; c->gpr[3] = g[REG_RCX];
      c->gpr[4] = g[REG_R8]; c->gpr[5] = g[REG_R9]; c->gpr[6] = g[REG_RAX];
      for (int i = 0; i < 8; i++) memcpy (&c->xmm[i], &fp->_xmm[i], 8);
    }
    nlog_n++;
    if (nlog_n > MAXLOG) { sig_kind = 2; siglongjmp (jb, 1); }
    stub_compute (rip, ncall_native++, &sr);
    g[REG_RAX] = sr.gpr[0]; g[REG_RCX] = sr.gpr[1]; g[REG_RDX] = sr.gpr[2]; g[REG_RSI] = sr.gpr[3]; g[REG_RDI] = sr.gpr[4];
    g[REG_R8] = sr.gpr[5]; g[REG_R9] = sr.gpr[6]; g[REG_R10] = sr.gpr[7]; g[REG_R11] = sr.gpr[8];
    for (int i = 0; i < 16; i++) memcpy (&fp->_xmm[i], sr.xmm[i], 16);
    g[REG_EFL] &= ~(greg_t) 0x8d5; /* CF PF AF ZF SF OF := 0 */
    if (sr.nld > 0) {
      int top = 8 - sr.nld;
      memset (fp->_st, 0, sizeof (fp->_st));
      for (int i = 0; i < sr.nld; i++) memcpy (&fp->_st[i], &sr.ld[sr.nld == 2 ? i : 0], 10);
      /* two results: st0 = ld[0], st1 = ld[1] */
      fp->cwd = 0x037f;
      fp->swd = (uint16_t) (top << 11);
      fp->ftw = sr.nld == 2 ? 0xc0 : 0x80;
      fp->fop = 0; fp->rip = 0; fp->rdp = 0;
      if (fp->__glibc_reserved1[12] == 0x46505853u) /* FP_XSTATE_MAGIC1: XSAVE frame, force x87+SSE in XSTATE_BV */
        *(uint64_t *) ((char *) fp + 512) |= 3;
    }
    g[REG_RIP] = (greg_t) * (uint64_t *) rsp;
    g[REG_RSP] = (greg_t) (rsp + 8);
    return;
  }
  if (!in_native && !in_lifted) {
    fprintf (stderr, "liftcheck: unexpected signal %d at rip=0x%llx addr=%p\n", sig, (unsigned long long) rip, si->si_addr);
    _exit (4);
  }
  sig_kind = sig == SIGALRM ? 2 : (sig == SIGILL || sig == SIGFPE || sig == SIGTRAP) ? 3 : 1;
  sig_addr = sig_kind == 3 ? (sig == SIGTRAP ? rip - 1 : rip) : (uint64_t) si->si_addr; /* int3 is a trap: rip is already past it */
  siglongjmp (jb, 1);
}

static void set_timer (long usec) {
  struct itimerval it;
  memset (&it, 0, sizeof (it));
  it.it_value.tv_sec = usec / 1000000;
  it.it_value.tv_usec = usec % 1000000;
  setitimer (ITIMER_REAL, &it, NULL);
}

/* ---------------- lifted side ---------------- */
static int ncall_lifted;
static void lifted_stub (x86_state *s, uint64_t target) {
  struct stubres sr;
  if (llog_n < MAXLOG) {
    struct callrec *c = &llog[llog_n];
    c->target = target; c->rsp = s->r[4];
    c->gpr[0] = s->r[7]; c->gpr[1] = s->r[6]; c->gpr[2] = s->r[2]; c->gpr[3] = s->r[1];
    c->gpr[4] = s->r[8]; c->gpr[5] = s->r[9]; c->gpr[6] = s->r[0];
    for (int i = 0; i < 8; i++) c->xmm[i] = s->xmm[i][0];
  }
  llog_n++;
  if (llog_n > MAXLOG) { sig_kind = 2; siglongjmp (jb, 1); }
  stub_compute (target, ncall_lifted++, &sr);
  s->r[0] = sr.gpr[0]; s->r[1] = sr.gpr[1]; s->r[2] = sr.gpr[2]; s->r[6] = sr.gpr[3]; s->r[7] = sr.gpr[4];
  s->r[8] = sr.gpr[5]; s->r[9] = sr.gpr[6]; s->r[10] = sr.gpr[7]; s->r[11] = sr.gpr[8];
  for (int i = 0; i < 16; i++) { s->xmm[i][0] = sr.xmm[i][0]; s->xmm[i][1] = sr.xmm[i][1]; }
  s->cf = s->pf = s->zf = s->sf = s->of = 0; s->fl_undef = 0;
  if (sr.nld == 2) { x86_fpush (s, sr.ld[1]); x86_fpush (s, sr.ld[0]); }
  else if (sr.nld == 1) x86_fpush (s, sr.ld[0]);
  /* the callee's ret */
  s->exit_target = X86_M64 (s->r[4]);
  s->r[4] += 8;
  s->exit_kind = X86_EXIT_RET;
}
/* run "a function at target" to its final ret (following tail jumps) */
static void lifted_run (x86_state *s, uint64_t target) {
  for (;;) {
    if (target == (uint64_t) native_return) { s->exit_kind = X86_EXIT_RET; s->exit_target = target; return; } /* jumped back to our caller */
    if (!lift_dispatch (s, target)) { lifted_stub (s, target); return; }
    if (s->exit_kind == X86_EXIT_JUMP || s->exit_kind == X86_EXIT_INDIRECT) { target = s->exit_target; continue; }
    return; /* RET or TRAP */
  }
}
void x86_call (x86_state *s, uint64_t target) { lifted_run (s, target); }

/* ---------------- state generation ---------------- */
static const uint64_t boundary[] = {0, 1, (uint64_t) -1, 0x7f, 0x80, 0xff, 0x7fff, 0x8000, 0xffff, 0x7fffffff, 0x80000000ull, 0xffffffffull,
                                    0x100000000ull, 0x7fffffffffffffffull, 0x8000000000000000ull, 0xffffffff80000000ull, 0xffffffff7fffffffull, 2, 3, 63, 64, 31, 32};
static uint64_t gen_gpr (void) {
  uint64_t x = rnd ();
  switch (x & 15) {
  case 0: case 1: case 2: return rnd ();
  case 3: case 4: return (rnd () % 17);
  case 5: return (uint64_t) - (int64_t) (rnd () % 17);
  case 6: case 7: case 8: return ARENA_BASE + 0x400 + ((rnd () % (BUF_SIZE - 0x800)) & ~15ull);
  case 9: return ARENA_BASE + 0x400 + (rnd () % (BUF_SIZE - 0x800));
  case 10: case 11: return boundary[rnd () % (sizeof (boundary) / sizeof (boundary[0]))];
  case 12: return (uint32_t) rnd ();
  case 13: return (uint64_t) (int64_t) (int32_t) rnd ();
  case 14: return 0x300000000000ull + 0x100 * (rnd () % 8); /* ext0..ext7 */
  default: return rnd () % 4;
  }
}
static uint64_t gen_dbits (void) {
  static const double sp[] = {0.0, -0.0, 1.0, -1.0, 0.5, 2.0, 1e300, -1e300, 1e-300, 4294967296.0, 9223372036854775808.0, -9223372036854775808.0,
                              2147483648.0, -2147483649.0, 1.5, 2.5, -2.5, 3.0e38, 1e-45};
  uint64_t x = rnd (), u;
  double d;
  switch (x & 7) {
  case 0: return rnd ();
  case 1: d = sp[rnd () % (sizeof (sp) / sizeof (sp[0]))]; break;
  case 2: d = (double) (int64_t) (rnd () % 2001) - 1000.0; break;
  case 3: d = (double) (int64_t) rnd () / 65536.0; break;
  case 4: return (x & 8) ? 0x7ff0000000000000ull : 0xfff0000000000000ull; /* inf */
  case 5: return 0x7ff8000000000000ull | (rnd () & 0xffff);                 /* nan */
  case 6: d = (double) (int64_t) rnd (); break;
  default: d = (double) (rnd () % 1000) / 8.0; break;
  }
  memcpy (&u, &d, 8);
  return u;
}
static uint32_t gen_fbits (void) {
  uint64_t x = rnd ();
  float f;
  uint32_t u;
  switch (x & 7) {
  case 0: return (uint32_t) rnd ();
  case 1: return (x & 8) ? 0x7f800000u : 0xff800000u;
  case 2: return 0x7fc00000u | (uint32_t) (rnd () & 0xff);
  case 3: f = (float) (int64_t) (rnd () % 2001) - 1000.0f; break;
  case 4: f = (float) (int64_t) rnd (); break;
  case 5: return (x & 8) ? 0 : 0x80000000u;
  default: f = (float) (rnd () % 1000) / 8.0f; break;
  }
  memcpy (&u, &f, 4);
  return u;
}
static void gen_xmm (uint64_t x[2]) {
  uint64_t k = rnd ();
  if (k & 1) x[0] = gen_dbits ();
  else x[0] = ((uint64_t) ((k & 2) ? gen_fbits () : 0) << 32) | gen_fbits ();
  x[1] = (k & 4) ? rnd () : 0;
}
static void gen_ld (uint8_t *p) { /* 16-byte slot holding a valid long double */
  long double v;
  uint64_t k = rnd ();
  switch (k & 3) {
  case 0: v = (long double) (int64_t) rnd () / 4096.0L; break;
  case 1: v = (long double) (int64_t) (rnd () % 2001) - 1000.0L; break;
  case 2: { double d; uint64_t u = gen_dbits (); memcpy (&d, &u, 8); v = d; break; }
  default: v = (long double) rnd () * (long double) rnd (); break;
  }
  memset (p, 0, 16);
  memcpy (p, &v, 10);
}

static void gen_memory (void) {
  /* pseudo-random arena; a good part of it as valid long doubles / doubles / small ints so that loads are meaningful */
  uint64_t *w = (uint64_t *) arena0;
  for (unsigned i = 0; i < ARENA_SIZE / 8; i++) w[i] = rnd ();
  for (unsigned o = 0; o + 16 <= ARENA_SIZE; o += 16) {
    uint64_t k = rnd () & 7;
    if (k == 0) gen_ld (arena0 + o);
    else if (k == 1) { w[o / 8] = gen_dbits (); w[o / 8 + 1] = gen_dbits (); }
    else if (k == 2) { w[o / 8] = gen_gpr (); w[o / 8 + 1] = gen_gpr (); }
    else if (k == 3) { w[o / 8] = ((uint64_t) gen_fbits () << 32) | gen_fbits (); w[o / 8 + 1] = rnd () % 100; }
  }
}

/* ---------------- comparison ---------------- */
static int same_fp_bits (uint64_t a, uint64_t b) { return a == b; } /* SSE results are modelled bit-exactly, NaNs included */
static int ld_is_nan (const uint8_t *p) {
  uint16_t e; uint64_t m;
  memcpy (&e, p + 8, 2); memcpy (&m, p, 8);
  return (e & 0x7fff) == 0x7fff && (m << 1) != 0;
}

static char why[512];
static int compare (const x86_state *ls, int native_trap, uint64_t native_trap_addr) {
  static const char *rn[16] = {"rax", "rcx", "rdx", "rbx", "rsp", "rbp", "rsi", "rdi", "r8", "r9", "r10", "r11", "r12", "r13", "r14", "r15"};
  if (ls->exit_kind == X86_EXIT_UNDEF) return 3;
  if (native_trap || ls->exit_kind == X86_EXIT_TRAP) {
    if (native_trap && ls->exit_kind == X86_EXIT_TRAP && native_trap_addr == ls->exit_target) return 2;
    snprintf (why, sizeof (why), "trap mismatch: native %s at 0x%llx, lifted exit_kind=%d target=0x%llx", native_trap ? "trapped" : "did not trap",
              (unsigned long long) native_trap_addr, ls->exit_kind, (unsigned long long) ls->exit_target);
    return 0;
  }
  if (ls->exit_kind != X86_EXIT_RET) { snprintf (why, sizeof (why), "lifted exit_kind=%d target=0x%llx", ls->exit_kind, (unsigned long long) ls->exit_target); return 0; }
  if (ls->exit_target != (uint64_t) native_return) { snprintf (why, sizeof (why), "lifted returned to 0x%llx", (unsigned long long) ls->exit_target); return 0; }
  for (int i = 0; i < 16; i++)
    if (g_out.r[i] != ls->r[i]) {
      snprintf (why, sizeof (why), "%s: native=0x%llx lifted=0x%llx", rn[i], (unsigned long long) g_out.r[i], (unsigned long long) ls->r[i]);
      return 0;
    }
  for (int i = 0; i < 16; i++)
    for (int h = 0; h < 2; h++)
      if (!same_fp_bits (g_out.xmm[i][h], ls->xmm[i][h])) {
        snprintf (why, sizeof (why), "xmm%d[%d]: native=0x%llx lifted=0x%llx", i, h, (unsigned long long) g_out.xmm[i][h], (unsigned long long) ls->xmm[i][h]);
        return 0;
      }
  {
    static const struct { int bit; unsigned m; const char *n; } fl[5] = {{0, X86_F_CF, "CF"}, {2, X86_F_PF, "PF"}, {6, X86_F_ZF, "ZF"}, {7, X86_F_SF, "SF"}, {11, X86_F_OF, "OF"}};
    int lv[5] = {ls->cf, ls->pf, ls->zf, ls->sf, ls->of};
    for (int i = 0; i < 5; i++)
      if (!(ls->fl_undef & fl[i].m) && (int) ((g_out.rflags >> fl[i].bit) & 1) != (lv[i] != 0)) {
        snprintf (why, sizeof (why), "flag %s: native=%d lifted=%d (rflags=0x%llx)", fl[i].n, (int) ((g_out.rflags >> fl[i].bit) & 1), lv[i], (unsigned long long) g_out.rflags);
        return 0;
      }
  }
  { /* x87: fnsave image: status word at +4 (TOP bits 11..13), tag word at +8, ST(i) at +28+10*i */
    uint16_t sw, tw;
    memcpy (&sw, g_out.fsave + 4, 2); memcpy (&tw, g_out.fsave + 8, 2);
    int top = (sw >> 11) & 7, depth = 0;
    for (int i = 0; i < 8; i++) if (((tw >> (2 * i)) & 3) != 3) depth++;
    if (depth != ls->fdepth || (depth != 0 && top != ls->top)) {
      snprintf (why, sizeof (why), "x87 depth/top: native %d/%d lifted %d/%d", depth, top, ls->fdepth, ls->top);
      return 0;
    }
    for (int i = 0; i < depth && i < 8; i++) {
      uint8_t lb[16];
      long double v = ls->st[(ls->top + i) & 7];
      memset (lb, 0, 16); memcpy (lb, &v, 10);
      if (memcmp (lb, g_out.fsave + 28 + 10 * i, 10) != 0 && !(ld_is_nan (lb) && ld_is_nan (g_out.fsave + 28 + 10 * i))) {
        snprintf (why, sizeof (why), "st(%d) differs", i);
        return 0;
      }
    }
  }
  if (nlog_n != llog_n) { snprintf (why, sizeof (why), "number of external calls: native %d lifted %d", nlog_n, llog_n); return 0; }
  for (int i = 0; i < nlog_n && i < MAXLOG; i++) {
    if (nlog[i].target != llog[i].target || nlog[i].rsp != llog[i].rsp || memcmp (nlog[i].gpr, llog[i].gpr, sizeof (nlog[i].gpr)) != 0) {
      snprintf (why, sizeof (why), "external call %d: native target=0x%llx rsp=0x%llx rdi=0x%llx; lifted target=0x%llx rsp=0x%llx rdi=0x%llx", i,
                (unsigned long long) nlog[i].target, (unsigned long long) nlog[i].rsp, (unsigned long long) nlog[i].gpr[0],
                (unsigned long long) llog[i].target, (unsigned long long) llog[i].rsp, (unsigned long long) llog[i].gpr[0]);
      return 0;
    }
    for (int k = 0; k < 8; k++)
      if (!same_fp_bits (nlog[i].xmm[k], llog[i].xmm[k])) { snprintf (why, sizeof (why), "external call %d: xmm%d differs", i, k); return 0; }
  }
  if (memcmp (arena_n, arena, ARENA_SIZE) != 0) {
    for (unsigned o = 0; o < ARENA_SIZE; o++)
      if (arena_n[o] != arena[o]) {
        /* tolerate only: a long double NaN (x87 NaN propagation is not modelled bit-exactly) in a 10-byte window covering o */
        int tol = 0;
        for (unsigned st = o >= 9 ? o - 9 : 0; st <= o && st + 10 <= ARENA_SIZE; st++)
          if (ld_is_nan (arena_n + st) && ld_is_nan (arena + st)) { o = st + 9; tol = 1; break; }
        if (tol) continue;
        snprintf (why, sizeof (why), "memory at arena+0x%x: native=%02x lifted=%02x (rsp_in=arena+0x%llx)", o, arena_n[o], arena[o],
                  (unsigned long long) (g_in.r[4] - ARENA_BASE));
        return 0;
      }
  }
  if (data_total != 0) {
    static uint8_t *cur;
    if (cur == NULL) cur = malloc (data_total);
    data_save (cur);
    if (memcmp (cur, data_n, data_total) != 0) { snprintf (why, sizeof (why), "data item bytes differ"); return 0; }
  }
  return 1;
}

static void dump_state (void) {
  static const char *rn[16] = {"rax", "rcx", "rdx", "rbx", "rsp", "rbp", "rsi", "rdi", "r8", "r9", "r10", "r11", "r12", "r13", "r14", "r15"};
  printf ("    input state:");
  for (int i = 0; i < 16; i++) printf (" %s=0x%llx", rn[i], (unsigned long long) g_in.r[i]);
  printf (" rflags=0x%llx\n    xmm:", (unsigned long long) g_in.rflags);
  for (int i = 0; i < 8; i++) printf (" %d=%016llx:%016llx", i, (unsigned long long) g_in.xmm[i][1], (unsigned long long) g_in.xmm[i][0]);
  printf ("\n");
}

int main (int argc, char **argv) {
  int nstates = argc > 1 ? atoi (argv[1]) : 2000;
  uint64_t seed = argc > 2 ? strtoull (argv[2], NULL, 0) : 1;
  const char *only = argc > 3 ? argv[3] : NULL;
  int verbose = getenv ("LIFTCHECK_VERBOSE") != NULL;
  struct sigaction sa;
  stack_t ss;
  int bad = 0, total_regions = 0;
  long long total_agree = 0, total_skip = 0;

  ss.ss_sp = malloc (1 << 16); ss.ss_size = 1 << 16; ss.ss_flags = 0;
  sigaltstack (&ss, NULL);
  memset (&sa, 0, sizeof (sa));
  sa.sa_sigaction = on_signal;
  sa.sa_flags = SA_SIGINFO | SA_ONSTACK | SA_NODEFER;
  sigaction (SIGSEGV, &sa, NULL); sigaction (SIGBUS, &sa, NULL); sigaction (SIGILL, &sa, NULL);
  sigaction (SIGFPE, &sa, NULL); sigaction (SIGALRM, &sa, NULL); sigaction (SIGTRAP, &sa, NULL);

  for (int i = 0; i < lc_nregions; i++) map_fixed (lc_regions[i].addr, lc_regions[i].len, PROT_READ | PROT_WRITE | PROT_EXEC);
  for (int i = 0; i < lc_nregions; i++) memcpy ((void *) lc_regions[i].addr, lc_regions[i].bytes, lc_regions[i].len);
  for (int i = 0; i < lc_ndata; i++) { map_fixed (lc_data[i].addr, lc_data[i].size ? lc_data[i].size : 1, PROT_READ | PROT_WRITE); data_total += lc_data[i].size; }
  for (int i = 0; i < lc_ndata; i++) memcpy ((void *) lc_data[i].addr, lc_data[i].bytes, lc_data[i].size);
  map_fixed (ARENA_BASE, ARENA_SIZE, PROT_READ | PROT_WRITE);
  data0 = malloc (data_total + 1); data_n = malloc (data_total + 1);
  data_save (data0);

  for (int ri = 0; ri < lc_nregions; ri++) {
    const lc_region_t *R = &lc_regions[ri];
    int agree = 0, agree_trap = 0, skip_fault = 0, skip_time = 0, skip_undef = 0, disagree = 0;
    if (only != NULL && strcmp (only, R->name) != 0) continue;
    if (!lift_dispatch_known (R->addr)) continue;
    total_regions++;
    rng_s = seed * 0x1000003 + mix64 (ri, 77);
    for (int st = 0; st < nstates; st++) {
      x86_state ls;
      int native_trap = 0;
      uint64_t native_trap_addr = 0;
      if ((st & 15) == 0) gen_memory ();
      /* ---- state ---- */
      for (int i = 0; i < 16; i++) g_in.r[i] = gen_gpr ();
      for (int i = 0; i < 16; i++) gen_xmm (g_in.xmm[i]);
      g_in.r[4] = ARENA_BASE + STACK_TOP_OFF + 8 - 16 * (rnd () % 4) - ((rnd () % 8) == 0 ? 8 : 0);
      {
        uint64_t f = rnd ();
        g_in.rflags = 0x202 | (f & 1) | ((f >> 1 & 1) << 2) | ((f >> 2 & 1) << 6) | ((f >> 3 & 1) << 7) | ((f >> 4 & 1) << 11);
      }
      g_in.mxcsr = 0x1f80;
      for (int i = 0; i < 16; i++) { /* prototype-directed: pointer arguments point into the buffers, index arguments are small */
        if ((R->ptrmask >> i & 1) && rnd () % 16 != 0) g_in.r[i] = ARENA_BASE + 0x1000 + ((rnd () % (BUF_SIZE - 0x2000)) & ~((rnd () & 1) ? 15ull : 0ull));
        if ((R->smallmask >> i & 1) && rnd () % 8 != 0) g_in.r[i] = (uint64_t) ((int64_t) (rnd () % 41) - 8);
      }
      if (strcmp (R->kind, "ff_call") == 0) {
        /* callee: ext0..5 return nothing on the x87 stack, ext6 one long double, ext7 two (see stub_ld_results) */
        g_in.r[7] = 0x300000000000ull + 0x100 * (R->nld == 1 ? 6 : R->nld == 2 ? 7 : rnd () % 6);
        g_in.r[6] = ARENA_BASE + 0x1000 + ((rnd () % 0x4000) & ~15ull);
      }
      if (strcmp (R->kind, "ff_call") == 0) /* block / pointer arguments: the slot holds an address inside the buffers */
        for (int k = 0; k < 64; k++)
          if (R->slotmask >> k & 1) {
            uint64_t v = ARENA_BASE + 0x5000 + ((rnd () % 0x2000) & ~7ull);
            memcpy (arena0 + (g_in.r[6] - ARENA_BASE) + 16 * k, &v, 8);
          }
      memcpy (arena, arena0, ARENA_SIZE);
      *(uint64_t *) g_in.r[4] = (uint64_t) native_return;
      memcpy (arena0 + (g_in.r[4] - ARENA_BASE), arena + (g_in.r[4] - ARENA_BASE), 8); /* keep the return address in the master image */
      data_restore (data0);
      /* ---- native ---- */
      nlog_n = 0; ncall_native = 0;
      g_code = R->addr;
      sig_kind = 0;
      if (sigsetjmp (jb, 1) == 0) {
        in_native = 1;
        set_timer (50000);
        native_run ();
        set_timer (0);
        in_native = 0;
      } else {
        set_timer (0);
        in_native = 0;
        __asm__ volatile ("fninit");
        if (sig_kind == 3) { native_trap = 1; native_trap_addr = sig_addr; }
        else { if (sig_kind == 2) skip_time++; else skip_fault++; continue; }
      }
      memcpy (arena_n, arena, ARENA_SIZE);
      data_save (data_n);
      /* ---- lifted ---- */
      memcpy (arena, arena0, ARENA_SIZE);
      data_restore (data0);
      x86_state_init (&ls);
      memcpy (ls.r, g_in.r, sizeof (ls.r));
      memcpy (ls.xmm, g_in.xmm, sizeof (ls.xmm));
      ls.cf = g_in.rflags & 1; ls.pf = (g_in.rflags >> 2) & 1; ls.zf = (g_in.rflags >> 6) & 1; ls.sf = (g_in.rflags >> 7) & 1; ls.of = (g_in.rflags >> 11) & 1;
      llog_n = 0; ncall_lifted = 0;
      sig_kind = 0;
      int ok;
      if (sigsetjmp (jb, 1) == 0) {
        in_lifted = 1;
        set_timer (3000000);
        {
          uint64_t at = R->addr;
          for (int hops = 0; hops < 64; hops++) {
            lifted_run (&ls, at);
            if (ls.exit_kind != X86_EXIT_RET || ls.exit_target == (uint64_t) native_return) break;
            at = ls.exit_target; /* returned to some other address: the real code continues there, so do we */
            if (in_any_region (at) && !lift_dispatch_known (at)) { ls.exit_kind = X86_EXIT_UNDEF; break; } /* mid-region entry: cannot follow */
          }
        }
        set_timer (0);
        in_lifted = 0;
        ok = compare (&ls, native_trap, native_trap_addr);
      } else {
        set_timer (0);
        in_lifted = 0;
        snprintf (why, sizeof (why), "lifted code %s (addr 0x%llx) where the real code completed", sig_kind == 2 ? "timed out / too many calls" : "faulted",
                  (unsigned long long) sig_addr);
        ok = 0;
      }
      if (ok == 1) agree++;
      else if (ok == 2) agree_trap++;
      else if (ok == 3) skip_undef++;
      else {
        if (disagree == 0) {
          printf ("  DISAGREE %s state #%d: %s\n", R->name, st, why);
          dump_state ();
        }
        disagree++;
      }
    }
    printf ("%-8s %-28s states=%d agree=%d agree_trap=%d skipped_fault=%d skipped_timeout=%d skipped_undef=%d disagree=%d\n", disagree ? "DISAGREE" : (agree + agree_trap == 0 ? "NOCOVER" : "agree"),
            R->name, nstates, agree, agree_trap, skip_fault, skip_time, skip_undef, disagree);
    if (verbose) fflush (stdout);
    if (disagree) bad++;
    total_agree += agree + agree_trap;
    total_skip += skip_fault + skip_time + skip_undef;
  }
  printf ("TOTAL regions=%d states_agreed=%lld states_skipped=%lld regions_disagree=%d\n", total_regions, total_agree, total_skip, bad);
  return bad ? 1 : 0;
}
