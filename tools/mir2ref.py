#!/usr/bin/env python3
"""mir2ref: textual MIR *as written* -> C that calls the per-opcode reference functions of ref/mir_ref.h.

Engine E4 (DESIGN.md section 2).  Written from MIR.md only.  What the translation does and does NOT do:
  * every MIR register is a C local (uint64_t / float / double / long double), zero initialised;
  * memory operands are `*(T *)(base + index * scale + disp)` through ref_ld_<T> / ref_st_<T> (sign / zero
    extension per memory type on loads, truncation on stores);
  * every call is a real C call: a MIR callee is the translated C function, its integer arguments are
    truncated + extended per the PROTOTYPE's parameter types at the call site and per the callee's own
    declared parameter types at its entry, results are truncated + extended per the function's result types
    at `ret` and per the prototype's result types at the call site; block arguments are copied (by value)
    into the callee's frame; an external is a logging stub (same log format as harness/common/interp_rt.h);
  * alloca is a bump region released at function return; bstart/bend save/restore it;
  * labels/branches are goto, switch is a C switch, overflow insns set explicit flags r_sov / r_uov;
  * NO simplification, NO inlining, no use of anything in /repo.
Undefined cases of MIR.md (division by zero, shift counts >= width, float->int out of range, switch index
out of range) are `R_UNDEFINED_UNLESS (cond)` in the emitted code: the harness assumes them away.

usage: mir2ref.py file.mir -o ref.h [--cases cases.h --json cases.json --tag TAG]
Entry annotations in MIR comments (the MIR scanner ignores them):
  #@ entry <module>.<func> [<arg>=buf<N>|range<lo>..<hi>|set<v>,<v>..|const<v>|any] ... [nocmp=<resno>,..] [note=...]
Without any `#@ entry` line every function whose arguments are all scalars is an entry."""
import argparse
import json
import re
import sys

INT_TYPES = ["i8", "u8", "i16", "u16", "i32", "u32", "i64", "u64", "p"]
FP_TYPES = ["f", "d", "ld"]
BLK_TYPES = ["blk", "blk0", "blk1", "blk2", "blk3", "blk4", "rblk"]
ALL_TYPES = INT_TYPES + FP_TYPES + BLK_TYPES
CT = {"f": "float", "d": "double", "ld": "long double"}
TSIZE = {"i8": 1, "u8": 1, "i16": 2, "u16": 2, "i32": 4, "u32": 4, "i64": 8, "u64": 8, "p": 8, "f": 4, "d": 8, "ld": 16}


class MirError(Exception):
    pass


class Unsupported(Exception):
    pass


# ------------------------------------------------------------------ lexer (MIR.md textual syntax)
class Tok:
    def __init__(self, k, v=None, text=None):
        self.k, self.v, self.text = k, v, text

    def __repr__(self):
        return "Tok(%s,%r)" % (self.k, self.v)


def name_char(ch, first):
    return ch.isalpha() and ch.isascii() or ch in "_$%." or (not first and ch.isdigit())


def lex(src):
    toks, i, n = [], 0, len(src)
    while i < n:
        ch = src[i]
        if ch in " \t\r":
            i += 1
        elif ch == "#":
            while i < n and src[i] != "\n":
                i += 1
        elif ch == "\n":
            toks.append(Tok("NL")); i += 1
        elif ch in "(),;:":
            toks.append(Tok(ch)); i += 1
        elif ch == '"':
            i += 1
            out = bytearray()
            while True:
                if i >= n or src[i] == "\n":
                    raise MirError("unfinished string")
                c = src[i]; i += 1
                if c == '"':
                    break
                if c == "\\":
                    c = src[i]; i += 1
                    simple = {"n": 10, "t": 9, "v": 11, "a": 7, "b": 8, "r": 13, "f": 12, "\\": 92, "'": 39, '"': 34}
                    if c in simple:
                        out.append(simple[c])
                    elif c == "\n":
                        continue
                    elif c in "01234567":
                        v = int(c)
                        for _ in range(2):
                            if i < n and src[i] in "01234567":
                                v = v * 8 + int(src[i]); i += 1
                            else:
                                break
                        out.append(v & 0xff)
                    elif c == "x":
                        out.append(int(src[i:i + 2], 16)); i += 2
                    else:
                        out.append(ord(c) & 0xff)
                else:
                    out.append(ord(c) & 0xff)
            if len(out) > 0 and out[-1] != 0:
                out.append(0)
            toks.append(Tok("STR", bytes(out)))
        elif name_char(ch, True):
            j = i
            while j < n and name_char(src[j], j == i):
                j += 1
            toks.append(Tok("NAME", src[i:j])); i = j
        elif ch in "+-" or ch.isdigit():
            j = i
            if src[j] in "+-":
                j += 1
            m = re.match(r"0[xX][0-9a-fA-F_]+|[0-9][0-9_]*(\.[0-9_]*)?([eE][+-]?[0-9_]+)?[fFlL]?", src[j:])
            if not m:
                raise MirError("bad number at %r" % src[i:i + 20])
            text = (src[i:j] + m.group(0)).replace("_", "")
            i = j + m.end()
            body = text.lstrip("+-")
            if body.lower().startswith("0x"):
                v = int(body, 16)
                toks.append(Tok("INT", (-v if text[0] == "-" else v) & (2 ** 64 - 1), text))
            elif re.search(r"[.eE]", body):
                if body[-1] in "fF":
                    toks.append(Tok("FLOAT", None, text[:-1]))
                elif body[-1] in "lL":
                    toks.append(Tok("LDOUBLE", None, text[:-1]))
                else:
                    toks.append(Tok("DOUBLE", None, text))
            else:
                v = int(body, 8) if body.startswith("0") and len(body) > 1 else int(body, 10)
                toks.append(Tok("INT", (-v if text[0] == "-" else v) & (2 ** 64 - 1), text))
        else:
            raise MirError("wrong char %r" % ch)
    toks.append(Tok("NL"))
    toks.append(Tok("EOF"))
    return toks


# ------------------------------------------------------------------ program representation
class Op:
    def __init__(self, kind, **kw):
        self.kind = kind  # int flt dbl ldbl str reg ref label mem
        self.__dict__.update(kw)

    def __repr__(self):
        return "Op(%s)" % ", ".join("%s=%r" % kv for kv in self.__dict__.items())


class Insn:
    def __init__(self, code, ops, labels):
        self.code, self.ops, self.labels = code, ops, labels


class Var:
    def __init__(self, type_, name, size=0):
        self.type, self.name, self.size = type_, name, size


class Func:
    def __init__(self, name, res, args, vararg):
        self.name, self.res, self.args, self.vararg = name, res, args, vararg
        self.locals = []
        self.insns = []
        self.end_labels = []

    def regtype(self, name):
        for v in self.args:
            if v.name == name:
                return v.type if v.type in FP_TYPES else "i64"
        for v in self.locals:
            if v.name == name:
                return v.type
        return None


class Item:
    def __init__(self, kind, name, **kw):
        self.kind, self.name = kind, name
        self.__dict__.update(kw)


class Module:
    def __init__(self, name):
        self.name = name
        self.items = []

    def find(self, name):
        """the item a name denotes inside the module: a definition wins over forward / import declarations"""
        r = None
        for it in self.items:
            if it.name != name or it.kind == "export":
                continue
            if r is None or (r.kind in ("forward", "import") and it.kind not in ("forward", "import")):
                r = it
        return r


BRANCHES = set()


def _init_tables():
    t = {}
    int3 = ["add", "sub", "mul", "div", "udiv", "mod", "umod", "and", "or", "xor", "lsh", "rsh", "ursh",
            "eq", "ne", "lt", "ult", "le", "ule", "gt", "ugt", "ge", "uge"]
    for o in int3:
        t[o] = ("int3", o.upper()); t[o + "s"] = ("int3", o.upper() + "S")
    for o in ["ext8", "ext16", "ext32", "uext8", "uext16", "uext32", "neg", "negs"]:
        t[o] = ("int2", o.upper())
    t["mov"] = ("mov", "i64"); t["fmov"] = ("mov", "f"); t["dmov"] = ("mov", "d"); t["ldmov"] = ("mov", "ld")
    for p, ty in (("f", "f"), ("d", "d"), ("ld", "ld")):
        for o in ["add", "sub", "mul", "div"]:
            t[p + o] = ("fp3", (p + o).upper(), ty)
        t[p + "neg"] = ("fp2", (p + "neg").upper(), ty)
        for o in ["eq", "ne", "lt", "le", "gt", "ge"]:
            t[p + o] = ("fpcmp", (p + o).upper(), ty)
            t[p + "b" + o] = ("fpbr", (p + o).upper(), ty)
    for o, (s, d) in {"i2f": ("i64", "f"), "i2d": ("i64", "d"), "i2ld": ("i64", "ld"), "ui2f": ("i64", "f"), "ui2d": ("i64", "d"),
                      "ui2ld": ("i64", "ld"), "f2i": ("f", "i64"), "d2i": ("d", "i64"), "ld2i": ("ld", "i64"), "f2d": ("f", "d"),
                      "f2ld": ("f", "ld"), "d2f": ("d", "f"), "d2ld": ("d", "ld"), "ld2f": ("ld", "f"), "ld2d": ("ld", "d")}.items():
        t[o] = ("conv", o.upper(), s, d)
    for o in ["addo", "subo", "mulo", "umulo"]:
        t[o] = ("ovf", o.upper()); t[o + "s"] = ("ovf", o.upper() + "S")
    for o in ["beq", "bne", "blt", "ble", "bgt", "bge"]:
        t[o] = ("ibr", o[1:].upper()); t[o + "s"] = ("ibr", o[1:].upper() + "S")
    for o in ["blt", "ble", "bgt", "bge"]:
        t["u" + o] = ("ibr", "U" + o[1:].upper()); t["u" + o + "s"] = ("ibr", "U" + o[1:].upper() + "S")
    for o in ["bt", "bts", "bf", "bfs"]:
        t[o] = ("btf", o.upper())
    for o in ["bo", "bno", "ubo", "ubno"]:
        t[o] = ("bov", o.upper())
    t["jmp"] = ("jmp",)
    for o in ["call", "inline"]:
        t[o] = ("call", o)
    t["ret"] = ("ret",); t["switch"] = ("switch",); t["alloca"] = ("alloca",)
    t["bstart"] = ("bstart",); t["bend"] = ("bend",)
    for o in ["addr", "addr8", "addr16", "addr32"]:
        t[o] = ("addr", o)
    for o in ["jcall", "jret", "laddr", "jmpi", "va_arg", "va_block_arg", "va_start", "va_end", "prset", "prbeq", "prbne"]:
        t[o] = ("unsupported", o)
    for k, v in t.items():
        if v[0] in ("ibr", "btf", "bov", "jmp", "fpbr"):
            BRANCHES.add(k)
    return t


INSNS = _init_tables()


# ------------------------------------------------------------------ parser
class Parser:
    def __init__(self, src):
        self.toks = lex(src)
        self.p = 0
        self.modules = []
        self.annotations = [m.group(1).strip() for m in re.finditer(r"^\s*#@\s*(.*)$", src, re.M)]

    def peek(self):
        return self.toks[self.p]

    def next(self):
        t = self.toks[self.p]; self.p += 1
        return t

    def parse(self):
        module = None
        func = None
        while True:
            t = self.next()
            while t.k in ("NL", ";"):
                t = self.next()
            if t.k == "EOF":
                break
            labels = []
            while True:
                if t.k != "NAME":
                    raise MirError("insn should start with label or insn name, got %r" % t)
                name = t.v
                t = self.next()
                if t.k != ":":
                    break
                labels.append(name)
                t = self.next()
                if t.k == "NL":
                    t = self.next()
            self.p -= 1  # t is the first operand token (or NL)
            kw = name
            if kw == "module":
                module = Module(labels[0]); self.modules.append(module); self.ops_raw(None, None, kw); continue
            if kw == "endmodule":
                module = None; self.ops_raw(None, None, kw); continue
            if kw in ("proto", "func"):
                ops, dots = self.sig_ops()
                res, args = [], []
                i = 0
                while i < len(ops) and ops[i][1] is None:
                    res.append(ops[i][0]); i += 1
                for ty, nm, sz in ops[i:]:
                    if nm is None:
                        raise MirError("all func/prototype args should have form type:name")
                    args.append(Var(ty, nm, sz))
                if kw == "proto":
                    module.items.append(Item("proto", labels[0], res=res, args=args, vararg=dots))
                else:
                    func = Func(labels[0], res, args, dots)
                    module.items.append(Item("func", labels[0], func=func))
                continue
            if kw == "endfunc":
                self.ops_raw(None, None, kw)
                func = None
                continue
            if kw in ("export", "import", "forward"):
                for nm in self.name_list():
                    module.items.append(Item(kw, nm))
                continue
            if kw in ("local", "global"):
                ops, _ = self.sig_ops(local=True)
                for ty, nm, sz in ops:
                    if sz:
                        raise Unsupported("global (hard register) variables")
                    func.locals.append(Var(ty, nm))
                continue
            lab = labels[0] if labels else None
            if kw == "bss":
                ops = self.ops_raw(module, None, kw)
                module.items.append(Item("bss", lab, len=ops[0].v)); continue
            if kw == "ref":
                ops = self.ops_raw(module, None, kw)
                module.items.append(Item("ref", lab, target=ops[0].name, disp=s64(ops[1].v))); continue
            if kw == "lref":
                raise Unsupported("lref data")
            if kw == "expr":
                ops = self.ops_raw(module, None, kw)
                module.items.append(Item("expr", lab, func=ops[0].name)); continue
            if kw == "string":
                ops = self.ops_raw(module, None, kw)
                module.items.append(Item("data", lab, type="u8", values=[Op("int", v=b) for b in ops[0].v])); continue
            if kw in ALL_TYPES and kw not in BLK_TYPES:
                ops = self.ops_raw(module, None, kw)
                module.items.append(Item("data", lab, type=kw, values=ops)); continue
            if kw not in INSNS:
                raise MirError("Unknown insn %s" % kw)
            ops = self.ops_raw(module, func, kw)
            if func is None:
                raise MirError("insn outside func")
            func.insns.append(Insn(kw, ops, labels))
        return self.modules

    def name_list(self):
        names = []
        while True:
            t = self.next()
            if t.k in ("NL", ";"):
                break
            if t.k == "NAME":
                names.append(t.v)
            elif t.k != ",":
                raise MirError("bad name list")
        return names

    def sig_ops(self, local=False):
        """operands of proto/func/local: type | type:name | blk:size(name) | ... ; returns [(type,name,size)], dots"""
        out, dots = [], False
        while True:
            t = self.next()
            if t.k in ("NL", ";"):
                break
            if t.k == ",":
                continue
            if t.k != "NAME":
                raise MirError("wrong prototype/func arg %r" % t)
            if t.v == "...":
                dots = True
                continue
            ty = t.v
            if ty not in ALL_TYPES:
                raise MirError("Unknown type %s" % ty)
            nm, sz = None, 0
            if self.peek().k == ":":
                self.next()
                t = self.next()
                if t.k == "NAME":
                    nm = t.v
                    if local and self.peek().k == ":":
                        self.next(); self.next(); sz = 1  # hard register: flagged through sz
                elif t.k == "INT":
                    sz = t.v
                    if self.next().k != "(": raise MirError("wrong block arg")
                    nm = self.next().v
                    if self.next().k != ")": raise MirError("wrong block arg")
                else:
                    raise MirError("wrong arg")
            out.append((ty, nm, sz))
        return out, dots

    def ops_raw(self, module, func, code):
        ops = []
        while True:
            t = self.next()
            if t.k in ("NL", ";"):
                break
            if t.k == ",":
                continue
            if t.k == "INT":
                ops.append(Op("int", v=t.v))
            elif t.k == "FLOAT":
                ops.append(Op("flt", text=t.text))
            elif t.k == "DOUBLE":
                ops.append(Op("dbl", text=t.text))
            elif t.k == "LDOUBLE":
                ops.append(Op("ldbl", text=t.text))
            elif t.k == "STR":
                ops.append(Op("str", v=t.v))
            elif t.k == "NAME":
                name = t.v
                if self.peek().k != ":":
                    n = len(ops)
                    is_label = ((code in BRANCHES and n == 0) or (code == "laddr" and n == 1) or (code == "switch" and n > 0)
                                or code == "lref")
                    if is_label:
                        ops.append(Op("label", name=name))
                    elif code not in ("expr", "ref") and func is not None and func.regtype(name) is not None:
                        ops.append(Op("reg", name=name))
                    else:
                        ops.append(Op("ref", name=name))
                else:
                    ty = name
                    if ty not in ALL_TYPES:
                        raise MirError("Unknown type %s" % ty)
                    self.next()  # ':'
                    disp, base, index, scale = 0, None, None, 1
                    t = self.peek()
                    disp_p = False
                    if t.k == "INT":
                        disp = s64(t.v); self.next(); disp_p = True
                    elif t.k == "NAME":
                        raise Unsupported("memory operand with a symbolic displacement")
                    if self.peek().k == "(":
                        self.next()
                        t = self.next()
                        if t.k == "NAME":
                            base = t.v
                            t = self.next()
                        if t.k == ",":
                            index = self.next().v
                            t = self.next()
                            if t.k == ",":
                                scale = self.next().v
                                t = self.next()
                        if t.k != ")":
                            raise MirError("wrong memory op")
                    elif not disp_p:
                        raise MirError("wrong memory")
                    while self.peek().k == ":":  # alias / nonalias names: no semantics
                        self.next()
                        if self.peek().k == "NAME":
                            self.next()
                    ops.append(Op("mem", type=ty, disp=disp, base=base, index=index, scale=scale))
            else:
                raise MirError("wrong operand %r" % t)
        return ops


def s64(v):
    v &= 2 ** 64 - 1
    return v - 2 ** 64 if v >> 63 else v


def cid(s):
    return re.sub(r"[^A-Za-z0-9_]", lambda m: "_x%02x" % ord(m.group(0)), s)


# ------------------------------------------------------------------ C emitter
class Emitter:
    def __init__(self, modules, tag):
        self.modules = modules
        self.tag = tag
        self.out = []
        self.strings = []
        self.fid = {}       # (module, func) -> index in mirdump's function table (module order, item order)
        self.ext_names = []
        k = 0
        for m in modules:
            for it in m.items:
                if it.kind == "func":
                    self.fid[(m.name, it.name)] = k; k += 1

    def w(self, s=""):
        self.out.append(s)

    def fname(self, m, f):
        return "r_%s_%s__%s" % (self.tag, cid(m.name), cid(f))

    def dname(self, m, k):
        return "r_%s_%s_sec%d" % (self.tag, cid(m.name), k)

    # ---- data sections: a named (or first) data-like item opens a section, unnamed followers extend it (MIR.md: data items)
    def layout_data(self, m):
        secs = []
        for it in m.items:
            if it.kind in ("data", "bss", "ref", "expr"):
                if it.name is None and secs and secs[-1]["open"]:
                    secs[-1]["items"].append(it)
                else:
                    secs.append({"items": [it], "open": True})
            else:
                if secs:
                    secs[-1]["open"] = False
        m.secs = secs
        m.data_addr = {}
        for k, s in enumerate(secs):
            off = 0
            fields = []
            for j, it in enumerate(s["items"]):
                if it.kind == "data":
                    n = len(it.values); sz = TSIZE[it.type] * n
                elif it.kind == "bss":
                    sz = it.len
                elif it.kind == "ref":
                    sz = 8
                else:
                    f = m.find(it.func).func
                    sz = TSIZE[f.res[0]]
                it.sec, it.off, it.size = k, off, sz
                if it.name is not None:
                    m.data_addr[it.name] = (k, off)
                off += sz
            s["size"] = off

    def emit_data(self, m):
        for k, s in enumerate(m.secs):
            fields, inits = [], []
            for j, it in enumerate(s["items"]):
                if it.kind == "data":
                    ct = {"i8": "int8_t", "u8": "uint8_t", "i16": "int16_t", "u16": "uint16_t", "i32": "int32_t", "u32": "uint32_t",
                          "i64": "int64_t", "u64": "uint64_t", "p": "uint64_t", "f": "float", "d": "double", "ld": "long double"}[it.type]
                    if len(it.values) == 0:
                        continue
                    fields.append("%s f%d[%d];" % (ct, j, len(it.values)))
                    vals = []
                    for v in it.values:
                        if v.kind == "int":
                            vals.append("(%s) 0x%xull" % (ct, v.v))
                        elif v.kind in ("flt", "dbl", "ldbl"):
                            vals.append(fp_lit(v))
                        else:
                            raise MirError("data operand is not of data type")
                    inits.append("{" + ", ".join(vals) + "}")
                elif it.size > 0:
                    fields.append("uint8_t f%d[%d];" % (j, it.size))
                    inits.append("{0}")
            if not fields:
                fields, inits = ["uint8_t f0[1];"], ["{0}"]
            self.w("static struct __attribute__ ((packed, aligned (16))) { %s } %s = { %s };" % (" ".join(fields), self.dname(m, k), ", ".join(inits)))

    def item_addr(self, m, name):
        """C expression for the address value of a module item used as an operand"""
        if name in m.data_addr:
            k, off = m.data_addr[name]
            return "((uint64_t) (uintptr_t) ((char *) &%s + %d))" % (self.dname(m, k), off)
        it = m.find(name)
        if it is None:
            raise MirError("undeclared name %s" % name)
        raise Unsupported("address of %s item %s used as a value" % (it.kind, name))

    # ---- operands
    def rd(self, m, f, op, want):
        """C expression of an input operand; want = i64|f|d|ld"""
        if op.kind == "int":
            if want != "i64":
                raise MirError("integer immediate where %s expected" % want)
            return "((uint64_t) 0x%xull)" % op.v
        if op.kind in ("flt", "dbl", "ldbl"):
            return fp_lit(op)
        if op.kind == "reg":
            return "v_" + cid(op.name)
        if op.kind == "mem":
            return "ref_ld_%s (%s)" % (op.type, self.addr(f, op))
        if op.kind == "str":
            self.strings.append(op.v)
            return "((uint64_t) (uintptr_t) r_%s_str%d)" % (self.tag, len(self.strings) - 1)
        if op.kind == "ref":
            return self.item_addr(m, op.name)
        raise MirError("bad input operand %r" % op)

    def addr(self, f, op):
        parts = []
        if op.base is not None: parts.append("v_" + cid(op.base))
        if op.index is not None: parts.append("v_%s * (uint64_t) %d" % (cid(op.index), op.scale))
        parts.append("(uint64_t) %dll" % op.disp)
        return "(" + " + ".join(parts) + ")"

    def wr(self, f, op, val):
        if op.kind == "reg":
            return "v_%s = %s;" % (cid(op.name), val)
        if op.kind == "mem":
            return "ref_st_%s (%s, %s);" % (op.type, self.addr(f, op), val)
        raise MirError("only register or memory can be an output operand")

    def optype(self, f, op, default):
        if op.kind == "reg":
            return f.regtype(op.name)
        if op.kind == "mem":
            return op.type if op.type in FP_TYPES else "i64"
        return default

    # ---- functions
    def proto_decl(self, m, f):
        args = ["r_val *r_res"] + ["%s a_%s" % (CT.get(v.type, "uint64_t"), cid(v.name)) for v in f.args]
        return "static void %s (%s)" % (self.fname(m, f.name), ", ".join(args))

    def emit_func(self, m, f):
        w = self.w
        w(self.proto_decl(m, f) + " {")
        w("  size_t r_mark = r_arena_top; int r_sov = 0, r_uov = 0; (void) r_sov; (void) r_uov; (void) r_res;")
        for v in f.args:
            n = cid(v.name)
            if v.type in FP_TYPES:
                w("  %s v_%s = a_%s;" % (CT[v.type], n, n))
            elif v.type in BLK_TYPES and v.type != "rblk":
                w("  uint64_t v_%s = r_blk_copy (a_%s, %d); /* block argument: passed by value */" % (n, n, v.size))
            elif v.type in ("i64", "u64", "p", "rblk"):
                w("  uint64_t v_%s = a_%s;" % (n, n))
            else:
                w("  uint64_t v_%s = ref_arg_%s (a_%s); /* argument passed as %s */" % (n, v.type, n, v.type))
        for v in f.locals:
            w("  %s v_%s = 0; (void) v_%s;" % (CT.get(v.type, "uint64_t"), cid(v.name), cid(v.name)))
        used_labels = set()
        for ins in f.insns:
            for op in ins.ops:
                if op.kind == "label":
                    used_labels.add(op.name)
        for ins in f.insns:
            for l in ins.labels:
                w(" L_%s: ;" % cid(l))
            self.emit_insn(m, f, ins)
        w("  R_UNDEFINED_UNLESS (0); /* control reached the end of the function without ret */")
        w("}")
        w()

    def emit_insn(self, m, f, ins):
        w = self.w
        d = INSNS[ins.code]
        k = d[0]
        ops = ins.ops
        w("  /* %s */" % fmt_insn(ins))
        L = lambda op: "L_" + cid(op.name)
        if k == "unsupported":
            raise Unsupported("insn %s" % ins.code)
        if k == "int3":
            a, b = self.rd(m, f, ops[1], "i64"), self.rd(m, f, ops[2], "i64")
            pre = pre_of(d[1])
            if pre:
                w("  { uint64_t r_a = %s, r_b = %s; R_UNDEFINED_UNLESS (%s (r_a, r_b)); %s }" % (a, b, pre, self.wr(f, ops[0], "ref_%s (r_a, r_b)" % d[1])))
            else:
                w("  " + self.wr(f, ops[0], "ref_%s (%s, %s)" % (d[1], a, b)))
        elif k == "int2":
            w("  " + self.wr(f, ops[0], "ref_%s (%s)" % (d[1], self.rd(m, f, ops[1], "i64"))))
        elif k == "mov":
            w("  " + self.wr(f, ops[0], self.rd(m, f, ops[1], d[1])))
        elif k == "fp3":
            w("  " + self.wr(f, ops[0], "ref_%s (%s, %s)" % (d[1], self.rd(m, f, ops[1], d[2]), self.rd(m, f, ops[2], d[2]))))
        elif k == "fp2":
            w("  " + self.wr(f, ops[0], "ref_%s (%s)" % (d[1], self.rd(m, f, ops[1], d[2]))))
        elif k == "fpcmp":
            w("  " + self.wr(f, ops[0], "ref_%s (%s, %s)" % (d[1], self.rd(m, f, ops[1], d[2]), self.rd(m, f, ops[2], d[2]))))
        elif k == "fpbr":
            w("  if (ref_%s (%s, %s)) goto %s;" % (d[1], self.rd(m, f, ops[1], d[2]), self.rd(m, f, ops[2], d[2]), L(ops[0])))
        elif k == "conv":
            src = self.rd(m, f, ops[1], d[2])
            if d[3] == "i64" and d[2] != "i64":
                w("  { %s r_a = %s; R_UNDEFINED_UNLESS (ref_PRE_%s (r_a)); %s }" % (CT[d[2]], src, d[1], self.wr(f, ops[0], "ref_%s (r_a)" % d[1])))
            else:
                w("  " + self.wr(f, ops[0], "ref_%s (%s)" % (d[1], src)))
        elif k == "ovf":
            op = d[1]
            s = "S" if op.endswith("S") else ""
            base = op[:-1] if s else op
            kind = {"ADDO": "ADD", "SUBO": "SUB", "MULO": "MUL", "UMULO": "MUL"}[base]
            w("  { uint64_t r_a = %s, r_b = %s;" % (self.rd(m, f, ops[1], "i64"), self.rd(m, f, ops[2], "i64")))
            if base != "UMULO":
                w("    r_sov = ref_SOV_%s%s (r_a, r_b);" % (kind, s))
            if base != "MULO":
                w("    r_uov = ref_UOV_%s%s (r_a, r_b);" % (kind, s))
            w("    %s }" % self.wr(f, ops[0], "ref_%s%s (r_a, r_b)" % (kind, s)))
        elif k == "ibr":
            w("  if (ref_%s (%s, %s)) goto %s;" % (d[1], self.rd(m, f, ops[1], "i64"), self.rd(m, f, ops[2], "i64"), L(ops[0])))
        elif k == "btf":
            v = self.rd(m, f, ops[1], "i64")
            c = {"BT": "%s != 0", "BTS": "(uint32_t) %s != 0", "BF": "%s == 0", "BFS": "(uint32_t) %s == 0"}[d[1]] % v
            w("  if (%s) goto %s;" % (c, L(ops[0])))
        elif k == "bov":
            c = {"BO": "r_sov", "BNO": "!r_sov", "UBO": "r_uov", "UBNO": "!r_uov"}[d[1]]
            w("  if (%s) goto %s;" % (c, L(ops[0])))
        elif k == "jmp":
            w("  goto %s;" % L(ops[0]))
        elif k == "switch":
            w("  { uint64_t r_a = %s; R_UNDEFINED_UNLESS (r_a < %d); switch (r_a) {" % (self.rd(m, f, ops[0], "i64"), len(ops) - 1))
            for i, op in enumerate(ops[1:]):
                w("    case %d: goto %s;" % (i, L(op)))
            w("  } }")
        elif k == "alloca":
            w("  " + self.wr(f, ops[0], "r_alloca (%s)" % self.rd(m, f, ops[1], "i64")))
        elif k == "bstart":
            w("  " + self.wr(f, ops[0], "(uint64_t) r_arena_top"))
        elif k == "bend":
            w("  r_arena_top = (size_t) %s;" % self.rd(m, f, ops[0], "i64"))
        elif k == "addr":
            if ops[1].kind != "reg":
                raise MirError("addr of a non-variable")
            w("  " + self.wr(f, ops[0], "((uint64_t) (uintptr_t) &v_%s)" % cid(ops[1].name)))  # little endian: same address for addr8/16/32
        elif k == "ret":
            if len(ops) != len(f.res):
                raise MirError("number of operands in return does not correspond number of function returns")
            for i, (op, ty) in enumerate(zip(ops, f.res)):
                if ty in FP_TYPES:
                    w("  r_res[%d].%s = %s;" % (i, ty, self.rd(m, f, op, ty)))
                else:
                    w("  r_res[%d].u = ref_res_%s (%s); /* truncated to the function's result type %s */" % (i, ty, self.rd(m, f, op, "i64"), ty))
            w("  r_arena_top = r_mark; return;")
        elif k == "call":
            self.emit_call(m, f, ins)
        else:
            raise Unsupported("insn %s" % ins.code)

    def emit_call(self, m, f, ins):
        w = self.w
        ops = ins.ops
        if ops[0].kind != "ref":
            raise MirError("call: first operand must be a prototype")
        proto = m.find(ops[0].name)
        if proto is None or proto.kind != "proto":
            raise MirError("call: %s is not a prototype" % ops[0].name)
        if ops[1].kind != "ref":
            raise Unsupported("call through a register")
        target = m.find(ops[1].name)
        if target is None:
            raise MirError("undeclared name %s" % ops[1].name)
        nres = len(proto.res)
        res_ops = ops[2:2 + nres]
        arg_ops = ops[2 + nres:]
        if len(arg_ops) < len(proto.args) or (len(arg_ops) > len(proto.args) and not proto.vararg):
            raise MirError("call: number of arguments differs from the prototype")
        # resolve forward/export/import within the unit: a definition in the same module wins
        tm, tf = m, None
        if target.kind == "func":
            tf = target.func
        elif target.kind in ("import", "forward"):
            for mm in self.modules:
                for it in mm.items:
                    if it.kind == "func" and it.name == target.name and (mm is m or any(e.kind == "export" and e.name == it.name for e in mm.items)):
                        tm, tf = mm, it.func
        w("  { r_val r_cr[%d]; (void) r_cr;" % max(1, nres))
        # arguments: evaluated, integer ones truncated per the prototype parameter type (MIR.md: MIR_CALL)
        vals = []
        for i, op in enumerate(arg_ops):
            if i < len(proto.args):
                pt = proto.args[i].type
            else:
                pt = self.optype(f, op, {"int": "i64", "flt": "f", "dbl": "d", "ldbl": "ld", "str": "i64", "ref": "i64"}.get(op.kind, "i64"))
            if pt in BLK_TYPES:
                if op.kind != "mem" or op.type not in BLK_TYPES:
                    raise MirError("block argument must be a block memory operand")
                if pt != "rblk" and op.disp != proto.args[i].size:
                    raise MirError("block size differs from the prototype")
                v = "v_" + cid(op.base)
            elif pt in FP_TYPES:
                v = self.rd(m, f, op, pt)
            else:
                v = "ref_arg_%s (%s)" % (pt, self.rd(m, f, op, "i64"))
            w("    %s r_a%d = %s;" % (CT.get(pt, "uint64_t") if pt in FP_TYPES else "uint64_t", i, v))
            vals.append((pt, "r_a%d" % i))
        if tf is not None:
            if tf.vararg:
                raise Unsupported("call of a vararg MIR function")
            if len(tf.args) != len(arg_ops):
                raise MirError("call: number of arguments differs from the callee")
            w("    %s (r_cr%s);" % (self.fname(tm, tf.name), "".join(", " + v for _, v in vals)))
        else:
            if target.kind not in ("import",):
                raise Unsupported("call of %s item %s" % (target.kind, target.name))
            if target.name not in self.ext_names:
                self.ext_names.append(target.name)
            named = vals[:len(proto.args)]
            w("    { uint64_t r_bits[%d]; (void) r_bits;" % max(1, len(named)))
            for i, (pt, v) in enumerate(named):
                if pt in BLK_TYPES:
                    raise Unsupported("block argument to an external")
                w("      r_bits[%d] = r_bits_%s (%s);" % (i, pt, v))
            w("      r_ext_call (R_EXT_ID_%s, %d, r_bits, %d, r_cr); }" % (cid(target.name), len(named), nres))
        for i, (op, ty) in enumerate(zip(res_ops, proto.res)):
            if ty in FP_TYPES:
                w("    " + self.wr(f, op, "r_cr[%d].%s" % (i, ty)))
            else:
                w("    " + self.wr(f, op, "ref_res_%s (r_cr[%d].u)" % (ty, i)))
        w("  }")

    def run(self):
        w = self.w
        w("/* generated by tools/mir2ref.py (tag %s): reference meaning of the MIR text AS WRITTEN */" % self.tag)
        for m in self.modules:
            self.layout_data(m)
            self.emit_data(m)
            for it in m.items:
                if it.kind == "func":
                    w(self.proto_decl(m, it.func) + ";")
        body_start = len(self.out)
        for m in self.modules:
            for it in m.items:
                if it.kind == "func":
                    self.emit_func(m, it.func)
        # data initialisation that needs code: ref items (addresses) and expr items (link-time evaluation)
        w("static void r_%s_init (void) {" % self.tag)
        for m in self.modules:
            for s in m.secs:
                for it in s["items"]:
                    where = "((char *) &%s + %d)" % (self.dname(m, it.sec), it.off)
                    if it.kind == "ref":
                        w("  { uint64_t r_v = %s + (uint64_t) %dll; memcpy (%s, &r_v, 8); }" % (self.item_addr(m, it.target), it.disp, where))
                    elif it.kind == "expr":
                        fn = m.find(it.func).func
                        ty = fn.res[0]
                        w("  { r_val r_v[1]; %s (r_v); memcpy (%s, &r_v[0], %d); }" % (self.fname(m, fn.name), where, TSIZE[ty] if ty != "ld" else 16))
        w("}")
        strs = []
        for i, s in enumerate(self.strings):
            strs.append("static char r_%s_str%d[%d] = {%s};" % (self.tag, i, max(1, len(s)), ", ".join(str(b) for b in s) or "0"))
        self.out[body_start:body_start] = strs
        return "\n".join(self.out) + "\n"


def pre_of(op):
    if op in ("DIV", "MOD"): return "ref_PRE_DIV"
    if op in ("DIVS", "MODS"): return "ref_PRE_DIVS"
    if op in ("UDIV", "UMOD"): return "ref_PRE_UDIV"
    if op in ("UDIVS", "UMODS"): return "ref_PRE_UDIVS"
    if op in ("LSH", "RSH", "URSH"): return "ref_PRE_SH"
    if op in ("LSHS", "RSHS", "URSHS"): return "ref_PRE_SHS"
    return None


def fp_lit(op):
    t = op.text
    if not re.search(r"[.eE]", t):
        t += ".0"
    if op.kind == "flt":
        return "(%sf)" % t
    if op.kind == "ldbl":
        return "(%sL)" % t
    return "(%s)" % t


def fmt_op(op):
    if op.kind == "int": return str(s64(op.v))
    if op.kind in ("flt", "dbl", "ldbl"): return op.text + {"flt": "f", "dbl": "", "ldbl": "L"}[op.kind]
    if op.kind == "str": return '"..."'
    if op.kind in ("reg", "ref", "label"): return op.name
    return "%s:%d(%s,%s,%d)" % (op.type, op.disp, op.base, op.index, op.scale)


def fmt_insn(ins):
    return (ins.code + " " + ", ".join(fmt_op(o) for o in ins.ops)).replace("*/", "* /")


# ------------------------------------------------------------------ harness entries
def parse_entries(parser, modules):
    ents = []
    for a in parser.annotations:
        parts = a.split()
        if not parts or parts[0] != "entry":
            continue
        mn, fn = parts[1].split(".", 1)
        spec, opts = {}, {}
        for p in parts[2:]:
            k, v = p.split("=", 1)
            if k in ("nocmp", "note", "steps", "depth", "exts"):
                opts[k] = v
            else:
                spec[k] = v
        ents.append((mn, fn, spec, opts))
    if not ents:
        for m in modules:
            for it in m.items:
                if it.kind == "func" and all(v.type not in BLK_TYPES for v in it.func.args) and not it.func.vararg:
                    ents.append((m.name, it.name, {}, {}))
    return ents


def emit_entries(em, parser, legs=("h", "n")):
    """C harness entries: reference vs interpreter on the real MIR_link output (h_) vs on the no-inline build's output (n_)"""
    out, cases = [], []
    mods = {m.name: m for m in em.modules}
    for mn, fn, spec, opts in parse_entries(parser, em.modules):
        m = mods[mn]
        f = m.find(fn).func
        fid = em.fid[(mn, fn)]
        ename = "harness_%s_%s__%s" % (em.tag, cid(mn), cid(fn))
        L = []
        L.append("void %s (void) {" % ename)
        L.append("  c04_init ();\n  r_%s_init ();" % em.tag)
        nres = len(f.res)
        bufs = []
        call_r, set_h = [], []
        for i, v in enumerate(f.args):
            s = spec.get(v.name, "any")
            n = cid(v.name)
            if v.type in FP_TYPES:
                L.append("  %s x_%s = h_nd_%s ();" % (CT[v.type], n, v.type))
                call_r.append("x_" + n)
                set_h.append(("%s", "args[%d].%s = x_%s;" % (i, v.type, n)))
                continue
            mbuf = re.match(r"buf(\d+)$", s)
            if v.type in BLK_TYPES and not mbuf:
                mbuf = re.match(r"buf(\d+)$", "buf%d" % ((v.size + 7) // 8 * 8 if v.type != "rblk" else max(8, (v.size + 7) // 8 * 8)))
            if mbuf:
                nb = (int(mbuf.group(1)) + 7) // 8
                L.append("  uint64_t b_r_%s[%d], b_h_%s[%d], b_n_%s[%d];" % (n, nb, n, nb, n, nb))
                L.append("  for (int k = 0; k < %d; k++) b_r_%s[k] = b_h_%s[k] = b_n_%s[k] = nd ();" % (nb, n, n, n))
                bufs.append((n, nb))
                call_r.append("(uint64_t) (uintptr_t) b_r_%s" % n)
                set_h.append(("%s", "args[%d].a = b_%%s_%s;" % (i, n)))
                continue
            mr = re.match(r"range(-?\d+)\.\.(-?\d+)$", s)
            mc = re.match(r"const(-?\w+)$", s)
            ms = re.match(r"set([-0-9a-fA-Fx,]+)$", s)
            if ms:
                vals = [int(x, 0) for x in ms.group(1).split(",")]
                vals = [v - 2 ** 64 if v >= 2 ** 63 else v for v in vals]
                lit = lambda k: "(-9223372036854775807ll - 1)" if k == -2 ** 63 else "%dll" % k
                L.append("  uint64_t x_%s = nd (); H_ASSUME (%s);" % (n, " | ".join("((int64_t) x_%s == %s)" % (n, lit(k)) for k in vals)))
                L.append("  switch ((int64_t) x_%s) { %s default: H_ASSUME (0); } /* case split: one path per value, nothing else */"
                         % (n, " ".join("case %s: x_%s = (uint64_t) %s; break;" % (lit(k), n, lit(k)) for k in vals)))
            elif mr:
                lo, hi = int(mr.group(1)), int(mr.group(2))
                L.append("  uint64_t x_%s = nd (); H_ASSUME (((int64_t) x_%s >= %d) & ((int64_t) x_%s <= %d));" % (n, n, lo, n, hi))
                L.append("  switch ((int64_t) x_%s) { %s default: H_ASSUME (0); } /* case split: one path per value, nothing else */"
                         % (n, " ".join("case %d: x_%s = (uint64_t) %dll; break;" % (k, n, k) for k in range(lo, hi + 1))))
            elif mc:
                L.append("  uint64_t x_%s = (uint64_t) %sll; (void) nd ();" % (n, mc.group(1)))
            else:
                L.append("  uint64_t x_%s = nd ();" % n)
            call_r.append("x_" + n)
            set_h.append(("%s", "args[%d].u = x_%s;" % (i, n)))
        L.append("  r_val res_r[%d] = {{0}}; MIR_val_t res_h[%d] = {{0}}, res_n[%d] = {{0}};" % (max(1, nres), max(2, nres), max(2, nres)))
        L.append("  static h_ext_log log_r, log_h, log_n; /* zero initialised */")
        L.append("  /* leg 0: the program as written (tools/mir2ref.py) */")
        L.append("  h_cur_log = &log_r; r_arena_top = 0;\n  %s (%s);" % (em.fname(m, fn), ", ".join(["res_r"] + call_r)))
        L.append("  H_WITNESS (\"reference leg returns\");")
        for leg, what in (("h", "interpreter on the icode of what the real MIR_link produced"), ("n", "same, mirdump built with the inlining thresholds at 0")):
            if leg not in legs:
                continue
            L.append("  /* leg %s: %s */" % (leg, what))
            L.append("  { MIR_val_t args[%d] = {{0}}; h_cur_log = &log_%s; c04_arena_top = 0;" % (len(f.args) + 1, leg))
            for _, s in set_h:
                L.append("    " + (s % leg if "%s" in s else s))
            L.append("    %s_run (%d, args, res_%s); }" % (leg, fid, leg))
            nocmp = set(int(x) for x in opts.get("nocmp", "").split(",") if x)
            for i, ty in enumerate(f.res):
                if i in nocmp:
                    continue
                msg = "%s.%s result %d (%s): %s" % (mn, fn, i, ty, "as written == after MIR_link" if leg == "h" else "as written == linked without inlining")
                if ty in FP_TYPES:
                    L.append("  H_ASSERT (h_same_%s (res_r[%d].%s, res_%s[%d].%s), \"%s\");" % (ty, i, ty, leg, i, ty, msg))
                elif ty == "p":
                    L.append("  H_ASSERT ((res_r[%d].u == 0) == (res_%s[%d].u == 0), \"%s (pointer: null-ness only)\");" % (i, leg, i, msg))
                else:
                    L.append("  H_ASSERT (res_r[%d].u == res_%s[%d].u, \"%s\");" % (i, leg, i, msg))
            L.append("  H_ASSERT (c04_log_eq (&log_r, &log_%s), \"%s.%s external calls (callee, typed argument bits, order): %s\");"
                     % (leg, mn, fn, "as written == after MIR_link" if leg == "h" else "as written == linked without inlining"))
            for n, nb in bufs:
                L.append("  for (int k = 0; k < %d; k++) H_ASSERT (b_r_%s[k] == b_%s_%s[k], \"%s.%s final contents of buffer %s (%s)\");"
                         % (nb, n, leg, n, mn, fn, n, "real link" if leg == "h" else "no-inline link"))
        if calls_ext(em, m, f, set()):
            L.append("  if (log_r.n > 0) H_WITNESS (\"an external call was logged\");")
        L.append("  H_WITNESS (\"end\");\n}\n")
        out.append("\n".join(L))
        feats = sorted(set(ins.code for ins in f.insns))
        cases.append({"name": "%s.%s" % (mn, fn), "entry": ename, "module": mn, "func": fn, "fid": fid, "nargs": len(f.args), "nres": nres,
                      "opts": opts, "sample": "%s.%s (%s) -> (%s); args: %s" % (mn, fn, ", ".join("%s:%s" % (v.type, v.name) for v in f.args), ", ".join(f.res),
                                                                               ", ".join("%s=%s" % (k, v) for k, v in spec.items()) or "all values")})
    return "\n".join(out), cases


def calls_ext(em, m, f, seen):
    """does f (transitively, through direct calls) contain a call of an import that is not defined in the unit?"""
    if (m.name, f.name) in seen:
        return False
    seen.add((m.name, f.name))
    for ins in f.insns:
        if ins.code in ("call", "inline") and len(ins.ops) > 1 and ins.ops[1].kind == "ref":
            t = m.find(ins.ops[1].name)
            if t is None:
                continue
            if t.kind == "func":
                if calls_ext(em, m, t.func, seen):
                    return True
            elif t.kind == "import":
                return True
            elif t.kind == "forward":
                continue
    return False


def translate(src, tag):
    p = Parser(src)
    mods = p.parse()
    em = Emitter(mods, tag)
    text = em.run()
    return p, em, text


def main():
    ap = argparse.ArgumentParser()
    ap.add_argument("mir")
    ap.add_argument("-o", "--out", required=True)
    ap.add_argument("--cases")
    ap.add_argument("--json")
    ap.add_argument("--tag", default="u")
    ap.add_argument("--legs", default="h,n")
    a = ap.parse_args()
    src = open(a.mir).read()
    try:
        p, em, text = translate(src, a.tag)
    except Unsupported as e:
        print("mir2ref: unsupported: %s" % e, file=sys.stderr)
        sys.exit(4)
    except MirError as e:
        print("mir2ref: error: %s" % e, file=sys.stderr)
        sys.exit(3)
    open(a.out, "w").write(text)
    if a.cases:
        c, cases = emit_entries(em, p, tuple(a.legs.split(",")))
        open(a.cases, "w").write(c)
        meta = {"cases": cases, "externals": em.ext_names, "funcs": [[k[0], k[1], v] for k, v in em.fid.items()]}
        json.dump(meta, open(a.json, "w"), indent=1)
    print("mir2ref: %d modules, %d functions" % (len(em.modules), len(em.fid)))


if __name__ == "__main__":
    main()
