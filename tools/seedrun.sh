#!/bin/bash
# usage: seedrun.sh <ID> <patch.diff> <tier> [--only substr]   -> runs ./check ID against a scratch worktree of /repo with the patch applied
id=$1; patch=$2; tier=$3; shift 3
wt=/tmp/mutrun-$id-$$
git -C /repo worktree add -q $wt HEAD || exit 2
git -C $wt apply $patch || { echo "patch does not apply"; git -C /repo worktree remove --force $wt; exit 2; }
cd /verif && VERIF_REPO=$wt VERIF_EVIDENCE_DIR=/tmp/mutrun-evidence ./check $id --tier $tier "$@" 2>&1 | grep -E "^VIOLATION|^SUMMARY|^KNOWN|^INCONCLUSIVE" | cut -c1-260
echo "exit=${PIPESTATUS[0]}"
git -C /repo worktree remove --force $wt
