#!/bin/bash
# usage: seedconfirm.sh <worktree> <m-dir-name> <kind: lib|c2m|hdr>
# Confirms a seeded change myself: with the change the project builds, ctest passes 45/45 and the demo FAILS;
# without it the demo PASSES.  Prints one summary line.
wt=$1; m=$2; kind=$3
cd $wt || exit 2
git checkout -q -- . ; git apply OUT/$m/patch.diff || { echo "$wt $m: patch does not apply"; exit 2; }
cmake --build _build -j6 -- -k 0 >/dev/null 2>&1
ct=$(ctest --test-dir _build -j6 --timeout 900 2>&1 | grep -E "tests passed|tests failed" | tail -1)
rundemo () {
  case $kind in
    lib) (cd OUT/$m && cc -g -fsanitize=address -I$wt demo.c $wt/_build/libmir_static.a -lm -ldl -lpthread -o demo 2>/dev/null && ./demo >/dev/null 2>&1; echo $?) ;;
    c2m) (sh OUT/$m/demo.sh >/dev/null 2>&1; echo $?) ;;
    lib2) (gcc -O1 -w -I. OUT/$m/demo.c _build/libmir_static.a -lm -ldl -lpthread -o OUT/$m/demo.bin 2>/dev/null && OUT/$m/demo.bin >/dev/null 2>&1; echo $?) ;;
    sh2) (sh OUT/$m/demo.sh $wt >/dev/null 2>&1; echo $?) ;;
    hdr2) (cd OUT/$m && cc -O1 -I$wt -o demo demo.c 2>/dev/null && ./demo >/dev/null 2>&1; echo $?) ;;
    hdr) (cd OUT/$m && gcc -g -O1 -DNDEBUG -fsanitize=address -I$wt demo.c -o demo 2>/dev/null && ./demo >/dev/null 2>&1; echo $?) ;;
  esac
}
with=$(rundemo)
git checkout -q -- .
cmake --build _build -j6 -- -k 0 >/dev/null 2>&1
without=$(rundemo)
echo "$wt $m: ctest-with-change=[$ct] demo-with=$with demo-without=$without"
