#!/usr/bin/env python3
"""e3smoke.py -- CBMC smoke test of engine E3 (harness/E3/smoke.c) through the framework's vlib.

Pipeline, all rebuilt from /repo's working tree:
  gen_oneinsn.py -> one.mir -> mirgen-dump -O<level> -> one.json -> x86lift.py --only ... -> e3_lifted.c
  goto-cc ... -DOP=n -DE3_LIFTED="e3_lifted.c" harness/E3/smoke.c ; cbmc ...
For every case the correct reference must be VERIFIED (verdict held, witness refuted) and the
deliberately wrong reference (-DE3_WRONG) must be REFUTED with a counterexample that replays natively
(verdict violated).  Prints the exact command lines with --show-commands.

usage: e3smoke.py [-O<0..3>] [--show-commands] [--keep DIR]
"""
import os
import shutil
import subprocess
import sys
import tempfile
import time

HERE = os.path.dirname(os.path.abspath(__file__))
VERIF = os.path.dirname(HERE)
sys.path.insert(0, os.path.join(VERIF, "lib"))
import vlib  # noqa: E402

CASES = [  # (OP, name, function lifted, solver)
    (0, "add_rrr", "f_add_rrr", None),
    (1, "divs_rrr", "f_divs_rrr", "z3"),   # SAT back ends time out on  x/y == x/y  (DESIGN section 2); z3 / cvc5: ~1 s
    (2, "fadd_rrr", "f_fadd_rrr", None),
    (3, "ult_rrr", "f_ult_rrr", None),
    (4, "add_ms", "f_add_ms", None),
    (5, "deq_rrr", "f_deq_rrr", None),
    (6, "ldadd_rrr", "f_ldadd_rrr", None),
]


def main():
    level, show, keep = 2, False, None
    args = sys.argv[1:]
    i = 0
    while i < len(args):
        if args[i].startswith("-O"):
            level = int(args[i][2:]); i += 1
        elif args[i] == "--show-commands":
            show = True; i += 1
        elif args[i] == "--keep":
            keep = args[i + 1]; i += 2
        else:
            sys.stderr.write(__doc__); return 2
    tmp = keep or tempfile.mkdtemp(prefix="e3-smoke-")
    os.makedirs(tmp, exist_ok=True)
    try:
        cmds = []

        def sh(cmd, out=None):
            cmds.append(" ".join(cmd) + (" > " + out if out else ""))
            if out:
                with open(out, "w") as f:
                    subprocess.run(cmd, stdout=f, check=True)
            else:
                subprocess.run(cmd, check=True, stdout=subprocess.DEVNULL, stderr=subprocess.DEVNULL)

        sh([os.path.join(HERE, "e3build.sh"), tmp])
        mir = os.path.join(tmp, "one.mir")
        sh([sys.executable, os.path.join(HERE, "gen_oneinsn.py"), "--family", "all"], mir)
        dump = os.path.join(tmp, "one.json")
        sh([os.path.join(tmp, "mirgen-dump"), "-O%d" % level, mir], dump)
        lifted = os.path.join(tmp, "e3_lifted.c")
        sh([sys.executable, os.path.join(HERE, "x86lift.py"), dump, "--only", ",".join(c[2] for c in CASES), "-o", lifted])
        obs = []
        for op, name, fn, solver in CASES:
            for wrong in (False, True):
                defs = ["OP=%d" % op, 'E3_LIFTED="%s"' % lifted] + (["E3_WRONG"] if wrong else [])
                obs.append((vlib.Ob(name + ("_wrong" if wrong else ""), "E3/smoke.c", defs=defs, unwind=4, timeout=120, solver=solver,
                                    loops={"e3_enter#0": 17, "e3_enter#1": 17, "e3_enter#2": 65, "harness#0": 5},
                                    cc=["-I" + HERE, "-I" + os.path.join(VERIF, "harness/E3")],
                                    sample="all GPR/xmm/flag values symbolic; lifted %s at -O%d" % (fn, level)), wrong))
        # second harness: transparency of the wrapper trampoline on the real bytes of _MIR_get_wrapper/_MIR_get_wrapper_end
        tdump = os.path.join(tmp, "tramp.json")
        sh([os.path.join(tmp, "mirgen-dump"), "--trampolines"], tdump)
        tlifted = os.path.join(tmp, "e3_tramp_lifted.c")
        sh([sys.executable, os.path.join(HERE, "x86lift.py"), tdump, "--only", "wrapper,wrapper_end", "-o", tlifted])
        for name, extra, wrong in (("wrapper_align8", [], False), ("wrapper_align0", ["E3_ALIGN0"], False), ("wrapper_wrong", ["E3_WRONG"], True)):
            obs.append((vlib.Ob(name, "E3/tramp_wrapper.c", defs=['E3_LIFTED="%s"' % tlifted] + extra, unwind=4, timeout=120,
                                loops={"e3_enter#0": 17, "e3_enter#1": 17, "e3_enter#2": 65, "x86_call#0": 17, "harness#0": 9, "harness#1": 9, "harness#2": 9},
                                cc=["-I" + HERE, "-I" + os.path.join(VERIF, "harness/E3")],
                                sample="all 16 GPRs, xmm0-15, flags, caller stack symbolic; hook havocs caller-saved state and returns an arbitrary address"), wrong))
        bad = 0
        for ob, wrong in obs:
            t0 = time.time()
            vlib.run_ob(ob, tmp)
            expect = "violated" if wrong else "held"
            ok = ob.verdict == expect
            bad += not ok
            print("%-18s expected=%-9s got=%-12s cbmc=%.1fs total=%.1fs %s" % (ob.name, expect, ob.verdict, ob.solver_s, time.time() - t0,
                                                                             "" if ok else "<-- UNEXPECTED: " + ob.detail[:300].replace("\n", " ")))
            if show:
                gb, _ = vlib.build_goto(ob, tmp)
                print("   goto-cc " + " ".join(vlib.CC_FLAGS + ["-D" + d for d in ob.defs] + ob.cc + ["-o", gb, ob.hpath()]))
                print("   " + " ".join(vlib.cbmc_cmd(ob, gb)))
        if show:
            print("pipeline:")
            for c in cmds:
                print("   " + c)
        print("E3-SMOKE cases=%d unexpected=%d" % (len(obs), bad))
        return 1 if bad else 0
    finally:
        if not keep:
            shutil.rmtree(tmp, ignore_errors=True)
        rdir = os.path.join(VERIF, "replays")
        if os.path.isdir(rdir):
            for f in os.listdir(rdir):  # counterexamples of the deliberately wrong references are not findings
                if any(f.startswith(c[1] + "_wrong.") for c in CASES) or f.startswith("wrapper_wrong."):
                    try:
                        os.unlink(os.path.join(rdir, f))
                    except OSError:
                        pass


if __name__ == "__main__":
    sys.exit(main())
