#!/usr/bin/env python3
"""gen_oneinsn.py -- one-instruction MIR functions for every arithmetic / compare / conversion /
branch opcode in several operand shapes (engine E3: input of mirgen-dump -> x86lift -> liftcheck,
and of the C02 generator leg).

usage: gen_oneinsn.py [--family int|fp|ld|branch|misc|all] [--list] > oneinsn.mir

Function names: f_<opcode>_<shape>.  Shapes:
  rrr   op r,a,b           d1   op a,a,b (dst==src1)      d2   op b,a,b (dst==src2)
  i8 i32 i64 in ineg       second source an immediate of that size class
  ms    second source in memory            md   destination (and first source) in memory
  mi    memory destination, immediate source
  mx    memory source with base+index*scale+disp
Integer functions take (i64 a, i64 b, p ptr, i64 idx); fp ones (T a, T b, p ptr).
All immediates / shapes are fixed here so that the set is reproducible; VERIF_SEED is not used.
"""
import sys

INT3 = ["add", "sub", "mul", "and", "or", "xor"]
DIV3 = ["div", "udiv", "mod", "umod"]
SH3 = ["lsh", "rsh", "ursh"]
CMP = ["eq", "ne", "lt", "ult", "le", "ule", "gt", "ugt", "ge", "uge"]
OVF = ["addo", "subo", "mulo", "umulo"]
BCMP = ["beq", "bne", "blt", "ublt", "ble", "uble", "bgt", "ubgt", "bge", "ubge"]
IMMS = [("i8", "100"), ("ineg", "-3"), ("i32", "100000"), ("i32n", "-2147483648"), ("i64", "78187493530"), ("one", "1"), ("zero", "0"), ("two", "2"), ("p2", "8")]

out = []
names = []


def func(name, sig, body, locs=None):
    import re
    k = len(names)
    body = [re.sub(r"\bL(\d+)\b", lambda m: "L%s_%d" % (m.group(1), k), l) for l in body]  # labels are module-wide
    names.append(name)
    out.append("%s: func %s" % (name, sig))
    if locs:
        out.append("  local %s" % locs)
    for l in body:
        out.append("  " + l if not l.endswith(":") else l)
    out.append("  endfunc")


def int_family():
    isig = "i64, i64:a, i64:b, p:ptr, i64:idx"
    for base in INT3 + DIV3 + SH3:
        for s in ("", "s"):
            op = base + s
            mt = "i32" if s else "i64"
            func("f_%s_rrr" % op, isig, ["%s r, a, b" % op, "ret r"], "i64:r")
            func("f_%s_d1" % op, isig, ["%s a, a, b" % op, "ret a"])
            func("f_%s_d2" % op, isig, ["%s b, a, b" % op, "ret b"])
            for iname, iv in IMMS:
                if base in DIV3 and iname == "zero":
                    continue
                if base in SH3 and iname not in ("one", "two", "p2", "zero", "i8"):
                    continue
                if base in SH3 and iname == "i8":
                    iv = "31"
                func("f_%s_%s" % (op, iname), isig, ["%s r, a, %s" % (op, iv), "ret r"], "i64:r")
            func("f_%s_ms" % op, isig, ["%s r, a, %s:(ptr)" % (op, mt), "ret r"], "i64:r")
            func("f_%s_mx" % op, isig, ["%s r, a, %s:16(ptr, idx, 4)" % (op, mt), "ret r"], "i64:r")
            func("f_%s_md" % op, isig, ["%s %s:8(ptr), %s:8(ptr), b" % (op, mt, mt), "ret 0"])
            func("f_%s_mi" % op, isig, ["%s %s:8(ptr), %s:8(ptr), 5" % (op, mt, mt), "ret 0"])
            if base not in SH3 + DIV3:
                func("f_%s_ir" % op, isig, ["%s r, 7, b" % op, "ret r"], "i64:r")
    for op in ("neg", "negs"):
        mt = "i32" if op.endswith("s") else "i64"
        func("f_%s_rr" % op, isig, ["%s r, a" % op, "ret r"], "i64:r")
        func("f_%s_d1" % op, isig, ["%s a, a" % op, "ret a"])
        func("f_%s_md" % op, isig, ["%s %s:(ptr), %s:(ptr)" % (op, mt, mt), "ret 0"])
        func("f_%s_ms" % op, isig, ["%s r, %s:(ptr)" % (op, mt), "ret r"], "i64:r")
    for op in ("ext8", "ext16", "ext32", "uext8", "uext16", "uext32"):
        w = op.lstrip("u")[3:]
        mt = ("u" if op.startswith("u") else "i") + w
        func("f_%s_rr" % op, isig, ["%s r, a" % op, "ret r"], "i64:r")
        func("f_%s_ms" % op, isig, ["%s r, %s:(ptr)" % (op, mt), "ret r"], "i64:r")
        func("f_%s_sib" % op, isig, ["%s r, idx" % op, "ret r"], "i64:r")
    # moves: loads/stores of every type, immediates
    for t in ("i8", "u8", "i16", "u16", "i32", "u32", "i64"):
        func("f_mov_ld_%s" % t, isig, ["mov r, %s:(ptr)" % t, "ret r"], "i64:r")
        func("f_mov_ldx_%s" % t, isig, ["mov r, %s:-8(ptr, idx, 2)" % t, "ret r"], "i64:r")
        func("f_mov_st_%s" % t, isig, ["mov %s:(ptr), a" % t, "ret 0"])
        func("f_mov_sti_%s" % t, isig, ["mov %s:4(ptr), 77" % t, "ret 0"])
        func("f_mov_stx_%s" % t, isig, ["mov %s:(ptr, idx), b" % t, "ret 0"])
    for iname, iv in IMMS + [("u32", "4294967295"), ("m1", "-1")]:
        func("f_mov_%s" % iname, isig, ["mov r, %s" % iv, "ret r"], "i64:r")
    func("f_mov_rr", isig, ["mov r, b", "ret r"], "i64:r")
    for base in CMP:
        for s in ("", "s"):
            op = base + s
            mt = "i32" if s else "i64"
            func("f_%s_rrr" % op, isig, ["%s r, a, b" % op, "ret r"], "i64:r")
            func("f_%s_d1" % op, isig, ["%s a, a, b" % op, "ret a"])
            for iname, iv in IMMS[:5]:
                func("f_%s_%s" % (op, iname), isig, ["%s r, a, %s" % (op, iv), "ret r"], "i64:r")
            func("f_%s_ms" % op, isig, ["%s r, a, %s:(ptr)" % (op, mt), "ret r"], "i64:r")
            func("f_%s_mi" % op, isig, ["%s r, %s:(ptr), 9" % (op, mt), "ret r"], "i64:r")
            func("f_%s_mi32" % op, isig, ["%s r, %s:(ptr), 90000" % (op, mt), "ret r"], "i64:r")
    for base in OVF:
        for s in ("", "s"):
            op = base + s
            mt = "i32" if s else "i64"
            for br in (("ubo", "ubno") if base.startswith("u") else ("bo", "bno")):
                func("f_%s_%s_rrr" % (op, br), isig, ["%s r, a, b" % op, "%s L1" % br, "ret r", "L1:", "add r, r, 1", "ret r"], "i64:r")
                func("f_%s_%s_ms" % (op, br), isig, ["%s r, a, %s:(ptr)" % (op, mt), "%s L1" % br, "ret 0", "L1:", "ret 1"], "i64:r")
                if not base.startswith("u"):
                    func("f_%s_%s_i32" % (op, br), isig, ["%s r, a, 100000" % op, "%s L1" % br, "ret 0", "L1:", "ret 1"], "i64:r")
                    func("f_%s_%s_i8" % (op, br), isig, ["%s r, a, 3" % op, "%s L1" % br, "ret 0", "L1:", "ret 1"], "i64:r")


def branch_family():
    isig = "i64, i64:a, i64:b, p:ptr, i64:idx"
    for base in BCMP:
        for s in ("", "s"):
            op = base + s
            mt = "i32" if s else "i64"
            func("f_%s_rr" % op, isig, ["%s L1, a, b" % op, "ret 10", "L1:", "ret 11"])
            func("f_%s_i8" % op, isig, ["%s L1, a, 5" % op, "ret 10", "L1:", "ret 11"])
            func("f_%s_i32" % op, isig, ["%s L1, a, 500000" % op, "ret 10", "L1:", "ret 11"])
            func("f_%s_rm" % op, isig, ["%s L1, a, %s:(ptr)" % (op, mt), "ret 10", "L1:", "ret 11"])
            func("f_%s_mi" % op, isig, ["%s L1, %s:(ptr), 5" % (op, mt), "ret 10", "L1:", "ret 11"])
            func("f_%s_mi32" % op, isig, ["%s L1, %s:(ptr), 500000" % (op, mt), "ret 10", "L1:", "ret 11"])
    for op in ("bt", "bts", "bf", "bfs"):
        func("f_%s_r" % op, isig, ["%s L1, a" % op, "ret 10", "L1:", "ret 11"])
        for t in ("i8", "u8", "i16", "u16", "i32", "u32", "i64"):
            func("f_%s_m%s" % (op, t), isig, ["%s L1, %s:(ptr)" % (op, t), "ret 10", "L1:", "ret 11"])
    # a long forward branch (rel32 form): pad with > 128 bytes of code
    pad = ["add a, a, 100000"] * 30
    func("f_beq_far", isig, ["beq L1, a, b"] + pad + ["ret a", "L1:", "ret 11"])
    func("f_jmp_far", isig, ["bt L2, b", "jmp L1", "L2:"] + pad + ["ret a", "L1:", "ret 11"])
    func("f_loop", isig, ["mov r, 0", "L1:", "add r, r, a", "sub b, b, 1", "bgt L1, b, 0", "ret r"], "i64:r")
    func("f_switch", isig, ["switch a, L0, L1, L2, L3", "L0:", "ret 100", "L1:", "ret b", "L2:", "add b, b, 1", "ret b", "L3:", "ret idx"])
    func("f_laddr_jmpi", isig, ["laddr r, L1", "bt L2, a", "laddr r, L3", "L2:", "jmpi r", "L1:", "ret 1", "L3:", "ret 3"], "i64:r")
    for fam, t, lit in (("f", "f", "1.5f"), ("d", "d", "1.5")):
        sig = "i64, %s:a, %s:b, p:ptr" % (t, t)
        for base in ("beq", "bne", "blt", "ble", "bgt", "bge"):
            op = fam + base
            func("f_%s_rr" % op, sig, ["%s L1, a, b" % op, "ret 10", "L1:", "ret 11"])
            func("f_%s_rm" % op, sig, ["%s L1, a, %s:(ptr)" % (op, t), "ret 10", "L1:", "ret 11"])
            func("f_%s_ri" % op, sig, ["%s L1, a, %s" % (op, lit), "ret 10", "L1:", "ret 11"])
    sig = "i64, ld:a, ld:b, p:ptr"
    for base in ("beq", "bne", "blt", "ble", "bgt", "bge"):
        op = "ld" + base
        func("f_%s_rr" % op, sig, ["%s L1, a, b" % op, "ret 10", "L1:", "ret 11"])
        func("f_%s_rm" % op, sig, ["%s L1, a, ld:(ptr)" % op, "ret 10", "L1:", "ret 11"])


def fp_family():
    for fam, t, lit in (("f", "f", "2.5f"), ("d", "d", "2.5")):
        sig = "%s, %s:a, %s:b, p:ptr, i64:idx" % (t, t, t)
        isig = "i64, %s:a, %s:b, p:ptr, i64:idx" % (t, t)
        for base in ("add", "sub", "mul", "div"):
            op = fam + base
            func("f_%s_rrr" % op, sig, ["%s r, a, b" % op, "ret r"], "%s:r" % t)
            func("f_%s_d1" % op, sig, ["%s a, a, b" % op, "ret a"])
            func("f_%s_d2" % op, sig, ["%s b, a, b" % op, "ret b"])
            func("f_%s_ms" % op, sig, ["%s r, a, %s:(ptr)" % (op, t), "ret r"], "%s:r" % t)
            func("f_%s_mx" % op, sig, ["%s r, a, %s:8(ptr, idx, 8)" % (op, t), "ret r"], "%s:r" % t)
            func("f_%s_md" % op, sig, ["%s %s:(ptr), %s:(ptr), b" % (op, t, t), "ret a"])
            func("f_%s_imm" % op, sig, ["%s r, a, %s" % (op, lit), "ret r"], "%s:r" % t)
        func("f_%sneg_rr" % fam, sig, ["%sneg r, a" % fam, "ret r"], "%s:r" % t)
        func("f_%sneg_d1" % fam, sig, ["%sneg a, a" % fam, "ret a"])
        func("f_%smov_rr" % fam, sig, ["%smov r, b" % fam, "ret r"], "%s:r" % t)
        func("f_%smov_ld" % fam, sig, ["%smov r, %s:(ptr)" % (fam, t), "ret r"], "%s:r" % t)
        func("f_%smov_st" % fam, sig, ["%smov %s:(ptr, idx), a" % (fam, t), "ret b"])
        func("f_%smov_imm" % fam, sig, ["%smov r, %s" % (fam, lit), "ret r"], "%s:r" % t)
        for base in ("eq", "ne", "lt", "le", "gt", "ge"):
            op = fam + base
            func("f_%s_rrr" % op, isig, ["%s r, a, b" % op, "ret r"], "i64:r")
            func("f_%s_ms" % op, isig, ["%s r, a, %s:(ptr)" % (op, t), "ret r"], "i64:r")
            func("f_%s_imm" % op, isig, ["%s r, a, %s" % (op, lit), "ret r"], "i64:r")
    csig = "i64:a, f:x, d:y, p:ptr"
    func("f_i2f_rr", "f, " + csig, ["i2f r, a", "ret r"], "f:r")
    func("f_i2f_m", "f, " + csig, ["i2f r, i64:(ptr)", "ret r"], "f:r")
    func("f_i2d_rr", "d, " + csig, ["i2d r, a", "ret r"], "d:r")
    func("f_i2d_m", "d, " + csig, ["i2d r, i64:(ptr)", "ret r"], "d:r")
    func("f_ui2f_rr", "f, " + csig, ["ui2f r, a", "ret r"], "f:r")
    func("f_ui2d_rr", "d, " + csig, ["ui2d r, a", "ret r"], "d:r")
    func("f_f2i_rr", "i64, " + csig, ["f2i r, x", "ret r"], "i64:r")
    func("f_f2i_m", "i64, " + csig, ["f2i r, f:(ptr)", "ret r"], "i64:r")
    func("f_d2i_rr", "i64, " + csig, ["d2i r, y", "ret r"], "i64:r")
    func("f_d2i_m", "i64, " + csig, ["d2i r, d:(ptr)", "ret r"], "i64:r")
    func("f_f2d_rr", "d, " + csig, ["f2d r, x", "ret r"], "d:r")
    func("f_f2d_m", "d, " + csig, ["f2d r, f:(ptr)", "ret r"], "d:r")
    func("f_d2f_rr", "f, " + csig, ["d2f r, y", "ret r"], "f:r")
    func("f_d2f_m", "f, " + csig, ["d2f r, d:(ptr)", "ret r"], "f:r")


def ld_family():
    sig = "ld, ld:a, ld:b, p:ptr, i64:idx"
    isig = "i64, ld:a, ld:b, p:ptr, i64:idx"
    for base in ("add", "sub", "mul", "div"):
        op = "ld" + base
        func("f_%s_rrr" % op, sig, ["%s r, a, b" % op, "ret r"], "ld:r")
        func("f_%s_d1" % op, sig, ["%s a, a, b" % op, "ret a"])
        func("f_%s_d2" % op, sig, ["%s b, a, b" % op, "ret b"])
        func("f_%s_ms" % op, sig, ["%s r, a, ld:(ptr)" % op, "ret r"], "ld:r")
        func("f_%s_md" % op, sig, ["%s ld:16(ptr), ld:16(ptr), b" % op, "ret a"])
    func("f_ldneg_rr", sig, ["ldneg r, a", "ret r"], "ld:r")
    func("f_ldmov_rr", sig, ["ldmov r, b", "ret r"], "ld:r")
    func("f_ldmov_ld", sig, ["ldmov r, ld:(ptr, idx)", "ret r"], "ld:r")
    func("f_ldmov_st", sig, ["ldmov ld:32(ptr), a", "ret b"])
    func("f_ldmov_imm", sig, ["ldmov r, 2.5L", "ret r"], "ld:r")
    func("f_ld_2res", "ld, ld, ld:a, ld:b", ["ret b, a"])
    for base in ("eq", "ne", "lt", "le", "gt", "ge"):
        op = "ld" + base
        func("f_%s_rrr" % op, isig, ["%s r, a, b" % op, "ret r"], "i64:r")
        func("f_%s_ms" % op, isig, ["%s r, a, ld:(ptr)" % op, "ret r"], "i64:r")
    csig = "i64:a, f:x, d:y, ld:z, p:ptr"
    func("f_i2ld_rr", "ld, " + csig, ["i2ld r, a", "ret r"], "ld:r")
    func("f_ui2ld_rr", "ld, " + csig, ["ui2ld r, a", "ret r"], "ld:r")
    func("f_f2ld_rr", "ld, " + csig, ["f2ld r, x", "ret r"], "ld:r")
    func("f_f2ld_m", "ld, " + csig, ["f2ld r, f:(ptr)", "ret r"], "ld:r")
    func("f_d2ld_rr", "ld, " + csig, ["d2ld r, y", "ret r"], "ld:r")
    func("f_d2ld_m", "ld, " + csig, ["d2ld r, d:(ptr)", "ret r"], "ld:r")
    func("f_ld2f_rr", "f, " + csig, ["ld2f r, z", "ret r"], "f:r")
    func("f_ld2d_rr", "d, " + csig, ["ld2d r, z", "ret r"], "d:r")
    func("f_ld2i_rr", "i64, " + csig, ["ld2i r, z", "ret r"], "i64:r")


def misc_family():
    isig = "i64, i64:a, i64:b, p:ptr, i64:idx"
    func("f_alloca_c", isig, ["alloca r, 40", "mov i64:(r), a", "mov i64:32(r), b", "add r2, i64:(r), i64:32(r)", "ret r2"], "i64:r, i64:r2")
    func("f_alloca_v", isig, ["and a, a, 255", "alloca r, a", "mov i64:(r), b", "ret i64:(r)"], "i64:r")
    func("f_bstart_bend", isig, ["bstart s", "alloca r, 64", "mov i64:(r), a", "mov b, i64:(r)", "bend s", "ret b"], "i64:r, i64:s")
    out.append("pe0: proto i64, i64:x, i64:y")
    out.append("pe1: proto d, d:x, i64:y, f:z")
    out.append("pe6: proto ld, ld:x")
    out.append("pe7: proto ld, ld, i64:x")
    out.append("pv: proto i64, i64:x, ...")
    out.append("import ext0, ext1, ext2, ext6, ext7")
    func("f_call_ext0", isig, ["call pe0, ext0, r, a, b", "add r, r, idx", "ret r"], "i64:r")
    func("f_call_ext1", "d, d:x, i64:a, f:z", ["call pe1, ext1, r, x, a, z", "dadd r, r, x", "ret r"], "d:r")
    func("f_call_ext6", "ld, ld:x", ["call pe6, ext6, r, x", "ldadd r, r, x", "ret r"], "ld:r")
    func("f_call_ext7", "ld, ld:x, i64:a", ["call pe7, ext7, r, r2, a", "ldsub r, r, r2", "ret r"], "ld:r, ld:r2")
    func("f_call_reg", isig, ["call pe0, ptr, r, a, b", "ret r"], "i64:r")
    func("f_call_vararg", isig, ["call pv, ext2, r, a, b, 2.5, idx", "ret r"], "i64:r")
    func("f_callee", "i64, i64:x, i64:y", ["sub r, x, y", "mul r, r, 3", "bgt L1, r, 100", "add r, r, 7", "L1:", "ret r"], "i64:r")
    func("f_call_internal", isig, ["call pe0, f_callee, r, a, b", "add r, r, 1", "ret r"], "i64:r")
    out.append("pj: proto i64:x, i64:y")
    func("f_jcall", "i64:a, i64:b", ["add a, a, 1", "jcall pj, ext0, a, b"])
    func("f_jret", "i64:a, i64:b", ["jret b"])
    func("f_many_args", "i64, i64:a1, i64:a2, i64:a3, i64:a4, i64:a5, i64:a6, i64:a7, i64:a8, d:d1, d:d2, d:d3, d:d4, d:d5, d:d6, d:d7, d:d8, d:d9, ld:l1",
         ["add r, a7, a8", "d2i r2, d9", "add r, r, r2", "ld2d d1, l1", "d2i r2, d1", "add r, r, r2", "ret r"], "i64:r, i64:r2")
    # register pressure: 18 live integer values -> spills
    n = 18
    body = ["mov v%d, i64:%d(ptr)" % (i, 8 * i) for i in range(n)]
    body += ["mul v%d, v%d, a" % (i, i) for i in range(n)]
    body += ["add v0, v0, v%d" % i for i in range(1, n)]
    body += ["ret v0"]
    func("f_pressure", isig, body, ", ".join("i64:v%d" % i for i in range(n)))
    n = 18
    body = ["dmov w%d, d:%d(ptr)" % (i, 8 * i) for i in range(n)]
    body += ["dmul w%d, w%d, x" % (i, i) for i in range(n)]
    body += ["dadd w0, w0, w%d" % i for i in range(1, n)]
    body += ["ret w0"]
    func("f_fpressure", "d, d:x, p:ptr", body, ", ".join("d:w%d" % i for i in range(n)))


def main():
    fam = "all"
    args = sys.argv[1:]
    if "--family" in args:
        fam = args[args.index("--family") + 1]
    out.append("m_oneinsn: module")
    if fam in ("int", "all"):
        int_family()
    if fam in ("branch", "all"):
        branch_family()
    if fam in ("fp", "all"):
        fp_family()
    if fam in ("ld", "all"):
        ld_family()
    if fam in ("misc", "all"):
        misc_family()
    out.append("  endmodule")
    if "--list" in args:
        print("\n".join(names))
    else:
        print("\n".join(out))


if __name__ == "__main__":
    main()
