#!/usr/bin/env python3
"""liftcheck.py -- validate x86lift.py natively on a dump (engine E3).

usage: liftcheck.py dump.json [--states N] [--seed S] [--only region] [--keep DIR]

Steps: x86lift.py dump.json -> lifted.c ; dump -> tables.c (real bytes, data items, symbols) ;
gcc liftcheck.c (+ both files) ; run.  Exit status: 0 all regions agree, 1 some region DISAGREEs,
3 the lifter refused an instruction / build problem.
"""
import json
import os
import re
import shutil
import subprocess
import sys
import tempfile

HERE = os.path.dirname(os.path.abspath(__file__))


def carr(b):
    return "{" + ",".join(str(x) for x in b) + "}" if b else "{0}"


def make_tables(d, path):
    o = []
    for i, r in enumerate(d["regions"]):
        o.append("static const uint8_t lc_rb%d[] = %s;" % (i, carr(bytes.fromhex(r["bytes"]))))
    o.append("static const lc_region_t lc_regions[] = {")
    protos = {r["name"]: r["proto"] for r in d["regions"] if "proto" in r}
    for i, r in enumerate(d["regions"]):
        # which SysV integer argument registers hold pointers / small indexes (from the dumped prototype)
        pr = r.get("proto") or protos.get(r["name"][:-6] if r["name"].endswith(".thunk") else None)
        ptrmask = smallmask = 0
        if pr:
            iregs = [7, 6, 2, 1, 8, 9]
            k = 0
            for a in pr["args"]:
                t = a["type"]
                if t in ("f", "d", "ld") or t.startswith("blk"):
                    continue
                if k < 6:
                    if t in ("p", "rblk"):
                        ptrmask |= 1 << iregs[k]
                    elif a["name"] in ("idx", "i", "n"):
                        smallmask |= 1 << iregs[k]
                k += 1
        nld = len([t for t in pr["res"] if t == "ld"]) if pr else 0
        slotmask = 0  # ff_call: which 16-byte slots of the res/arg array hold block addresses
        if pr and r.get("kind") == "ff_call":
            for k, a in enumerate(pr["args"]):
                if a["type"].startswith("blk") or a["type"] in ("rblk", "p"):
                    slotmask |= 1 << (len(pr["res"]) + k)
        o.append('  {"%s", "%s", 0x%xull, %d, lc_rb%d, %d, %d, %d, 0x%xull},' % (r["name"], r.get("kind", "func"), int(r["addr"], 16), len(r["bytes"]) // 2, i, ptrmask, smallmask, nld, slotmask))
    o.append("};")
    o.append("static const int lc_nregions = %d;" % len(d["regions"]))
    data = [x for x in d.get("data", []) if x["size"] > 0]
    for i, x in enumerate(data):
        o.append("static const uint8_t lc_db%d[] = %s;" % (i, carr(bytes.fromhex(x["bytes"]))))
    o.append("static const lc_data_t lc_data[] = {")
    for i, x in enumerate(data):
        o.append('  {"%s", 0x%xull, %d, lc_db%d},' % (x["name"], int(x["addr"], 16), x["size"], i))
    o.append('  {"", 0, 0, 0}};')
    o.append("static const int lc_ndata = %d;" % len(data))
    o.append("static const lc_sym_t lc_syms[] = {")
    for x in d.get("symbols", []):
        o.append('  {0x%xull, "%s", "%s"},' % (int(x["addr"], 16), x["kind"], x["name"].replace('"', "")))
    o.append('  {0, "", ""}};')
    o.append("static const int lc_nsyms = %d;" % len(d.get("symbols", [])))
    open(path, "w").write("\n".join(o) + "\n")


def run(dump, states=2000, seed=1, only=None, keep=None, quiet=False):
    d = json.load(open(dump))
    tmp = keep or tempfile.mkdtemp(prefix="e3-liftcheck-")
    os.makedirs(tmp, exist_ok=True)
    try:
        lifted = os.path.join(tmp, "lifted.c")
        tables = os.path.join(tmp, "tables.c")
        cmd = [sys.executable, os.path.join(HERE, "x86lift.py"), dump, "-o", lifted]
        p = subprocess.run(cmd, capture_output=True, text=True)
        if p.returncode != 0:
            sys.stdout.write(p.stderr)
            return 3, p.stderr
        make_tables(d, tables)
        exe = os.path.join(tmp, "liftcheck")
        cmd = ["gcc", "-O1", "-g", "-w", "-fno-strict-aliasing", "-I" + HERE, '-DLC_TABLES="%s"' % tables, '-DLC_LIFTED="%s"' % lifted,
               "-o", exe, os.path.join(HERE, "liftcheck.c"), "-lm"]
        p = subprocess.run(cmd, capture_output=True, text=True)
        if p.returncode != 0:
            sys.stdout.write(p.stdout + p.stderr)
            return 3, p.stderr
        a = [exe, str(states), str(seed)] + ([only] if only else [])
        # ADDR_NO_RANDOMIZE is not needed: all addresses the code depends on are fixed maps
        p = subprocess.run(a, capture_output=True, text=True)
        if not quiet:
            sys.stdout.write(p.stdout + p.stderr)
        return p.returncode, p.stdout + p.stderr
    finally:
        if not keep:
            shutil.rmtree(tmp, ignore_errors=True)


def main():
    args = sys.argv[1:]
    states, seed, only, keep = 2000, 1, None, None
    files = []
    i = 0
    while i < len(args):
        if args[i] == "--states":
            states = int(args[i + 1]); i += 2
        elif args[i] == "--seed":
            seed = int(args[i + 1], 0); i += 2
        elif args[i] == "--only":
            only = args[i + 1]; i += 2
        elif args[i] == "--keep":
            keep = args[i + 1]; i += 2
        else:
            files.append(args[i]); i += 1
    if len(files) != 1:
        sys.stderr.write(__doc__)
        sys.exit(2)
    rc, _ = run(files[0], states, seed, only, keep)
    sys.exit(rc)


if __name__ == "__main__":
    main()
