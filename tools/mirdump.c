/* mirdump: engine E2 (DESIGN.md section 2).  Native tool, rebuilt from /repo's working tree on every run:
     gcc -O1 -w -DMIR_DIRECT_DISPATCH -I/repo -o mirdump tools/mirdump.c -lm -ldl -lpthread
   It #includes the REAL mir.c (switch-dispatch build of the interpreter), reads a textual MIR file,
   runs the real MIR_scan_string / MIR_load_module / MIR_link (so simplification and inlining happened
   exactly as in production), calls the real generate_icode for every function and prints a C header:
     - data sections as byte arrays + relocation patches,
     - prototypes as real struct MIR_proto/MIR_item initialisers,
     - the icode of every function as MIR_val_t initialisers, absolute addresses replaced by
       symbolic relocations (data -> harness array, function -> h_fn_marker[k], external -> h_ext_marker[k]),
     - a table describing every function (arg/result types).
   The CBMC harness links these arrays with the real eval()/call()/call_insn_execute().
   Options: -noinline  (compile with -DMIR_MAX_INSNS_FOR_INLINE=0 ... is a *build* flag, see props)
            -prefix P  symbol prefix (default h_) */
#include "mir.c"

static FILE *out;
static const char *P = "h_";

struct sec { char *addr; size_t size; int id; };
static struct sec secs[4096];
static int nsecs;
struct fn { MIR_item_t item; int id; };
static struct fn fns[8192];
static int nfns;
struct ext { const char *name; void *addr; };
static struct ext exts[256];
static int nexts;
static MIR_item_t protos[4096];
static int nprotos;
/* where each data-like item landed (machine-readable comment lines "mirdump-item ...", used by C01 to let lifted
   machine code and the interpreter share the section arrays) */
struct ditem { MIR_item_t item; int sec; size_t off, size; const char *mod; };
static struct ditem ditems[4096];
static int nditems;

static void *resolver (const char *name) {
  for (int i = 0; i < nexts; i++)
    if (strcmp (exts[i].name, name) == 0) return exts[i].addr;
  exts[nexts].name = strdup (name);
  exts[nexts].addr = (void *) (0x7e0000000000ull + 64 * (uint64_t) nexts);
  nexts++;
  return exts[nexts - 1].addr;
}

static size_t item_size (MIR_context_t ctx, MIR_item_t it) {
  switch (it->item_type) {
  case MIR_data_item: return it->u.data->nel * _MIR_type_size (ctx, it->u.data->el_type);
  case MIR_bss_item: return it->u.bss->len;
  case MIR_ref_data_item: case MIR_lref_data_item: return 8;
  case MIR_expr_data_item: {
    MIR_func_t f = it->u.expr_data->expr_item->u.func;
    return _MIR_type_size (ctx, f->res_types[0]);
  }
  default: return 0;
  }
}

/* classify an address; returns 1 and prints a C address expression into buf */
static int classify (void *a, char *buf) {
  char *p = a;
  for (int i = 0; i < nsecs; i++)
    if (p >= secs[i].addr && p <= secs[i].addr + secs[i].size && secs[i].size != 0) {
      sprintf (buf, "(void *) &%ssec%d[%zu]", P, secs[i].id, (size_t) (p - secs[i].addr));
      return 1;
    }
  for (int i = 0; i < nfns; i++)
    if (a == fns[i].item->addr) { sprintf (buf, "(void *) &%sfn_marker[%d]", P, i); return 1; }
  for (int i = 0; i < nexts; i++)
    if (a == exts[i].addr) { sprintf (buf, "(void *) &%sext_marker[%d]", P, i); return 1; }
  for (int i = 0; i < nfns; i++) { /* label addresses (laddr / lref): into the icode of a function */
    func_desc_t fd = fns[i].item->data;
    if (fd != NULL && p >= (char *) fd->code && p < (char *) fd->code + (1 << 20)) {
      size_t off = p - (char *) fd->code;
      /* bound is unknown here; accept only aligned-plus-small-disp addresses inside the first 64K slots */
      if (off / sizeof (MIR_val_t) < 65536) {
        sprintf (buf, "(void *) ((char *) &%sfd%d.code[%zu] + %zu)", P, i, off / sizeof (MIR_val_t), off % sizeof (MIR_val_t));
        return 2;
      }
    }
  }
  return 0;
}

static int proto_id (MIR_item_t p) {
  for (int i = 0; i < nprotos; i++) if (protos[i] == p) return i;
  protos[nprotos] = p;
  return nprotos++;
}

static const char *tname (MIR_type_t t) {
  static char b[8][32]; static int k;
  char *s = b[k++ & 7];
  if (t >= MIR_T_BLK && t < MIR_T_RBLK) sprintf (s, "MIR_T_BLK + %d", (int) (t - MIR_T_BLK));
  else switch (t) {
    case MIR_T_I8: return "MIR_T_I8"; case MIR_T_U8: return "MIR_T_U8"; case MIR_T_I16: return "MIR_T_I16";
    case MIR_T_U16: return "MIR_T_U16"; case MIR_T_I32: return "MIR_T_I32"; case MIR_T_U32: return "MIR_T_U32";
    case MIR_T_I64: return "MIR_T_I64"; case MIR_T_U64: return "MIR_T_U64"; case MIR_T_F: return "MIR_T_F";
    case MIR_T_D: return "MIR_T_D"; case MIR_T_LD: return "MIR_T_LD"; case MIR_T_P: return "MIR_T_P";
    case MIR_T_RBLK: return "MIR_T_RBLK"; default: sprintf (s, "(MIR_type_t) %d", (int) t);
  }
  return s;
}

static void pr_ld (long double v) {
  if (v != v) fprintf (out, "{.ld = (0.0L / 0.0L)}");
  else if (v == 1.0L / 0.0L) fprintf (out, "{.ld = (1.0L / 0.0L)}");
  else if (v == -1.0L / 0.0L) fprintf (out, "{.ld = (-1.0L / 0.0L)}");
  else fprintf (out, "{.ld = %LaL}", v);
}

static void slot_raw (MIR_val_t v) { fprintf (out, "{.u = 0x%llxull}", (unsigned long long) v.u); }
static void slot_addr (MIR_val_t v, const char *what) {
  char buf[128];
  if (v.a == NULL) { fprintf (out, "{.a = 0}"); return; }
  if (classify (v.a, buf)) fprintf (out, "{.a = %s}", buf);
  else { fprintf (stderr, "mirdump: cannot relocate address %p (%s)\n", v.a, what); exit (3); }
}

static void dump_func (MIR_context_t ctx, int fid) {
  MIR_item_t item = fns[fid].item;
  MIR_func_t func = item->u.func;
  func_desc_t fd = item->data;
  size_t n = 0, idx;
  MIR_insn_t insn, next;
  /* number of slots = start of a virtual end: recompute as in generate_icode (code_varr still holds this func
     only if it was generated last) - we regenerate to be safe */
  struct interp_ctx *interp_ctx = ctx->interp_ctx;
  n = 0;
  for (insn = DLIST_HEAD (MIR_insn_t, func->insns); insn != NULL; insn = DLIST_NEXT (MIR_insn_t, insn)) n++;
  (void) n;
  size_t total = (size_t) item->u.func->internal; /* stashed by main(): slot count */
  fprintf (out, "static struct { MIR_reg_t nregs; MIR_item_t func_item; MIR_val_t code[%zu]; } %sfd%d = { %u, 0, {\n",
           total + 1, P, fid, (unsigned) fd->nregs);
  for (insn = DLIST_HEAD (MIR_insn_t, func->insns); insn != NULL; insn = next) {
    next = DLIST_NEXT (MIR_insn_t, insn);
    size_t start = (size_t) insn->data, end = total;
    for (MIR_insn_t t = next; t != NULL; t = DLIST_NEXT (MIR_insn_t, t)) { end = (size_t) t->data; break; }
    if (start == end) continue; /* label etc. */
    int ic = fd->code[start].ic;
    fprintf (out, "  /* %3zu */ {.ic = %d}", start, ic);
    for (idx = start + 1; idx < end; idx++) {
      size_t k = idx - start; /* operand position, 1-based */
      fprintf (out, ", ");
      if (ic == IC_MOVP && k == 2) slot_addr (fd->code[idx], "movp");
      else if (ic == IC_MOVLD && k == 2) pr_ld (fd->code[idx].ld);
      else if (ic == MIR_CALL || ic == MIR_JCALL || ic == IC_IMM_CALL || ic == IC_IMM_JCALL) {
        if (k == 2) fprintf (out, "{.a = &%sdummy_insn} /* insn */", P); /* call_insn_execute only forms &insn->ops[k] (used when no ffi is set) */
        else if (k == 3) {
          MIR_item_t pi = fd->code[start + 4].a;
          fprintf (out, "{.a = (void *) %sff_proto%d}", P, proto_id (pi));
        } else if (k == 4) fprintf (out, "{.a = &%sproto_item%d}", P, proto_id (fd->code[idx].a));
        else if (k == 5 && (ic == IC_IMM_CALL || ic == IC_IMM_JCALL)) slot_addr (fd->code[idx], "imm call target");
        else slot_raw (fd->code[idx]);
      } else slot_raw (fd->code[idx]);
    }
    fprintf (out, ",\n");
  }
  fprintf (out, "  {.ic = -1} } };\n");
}

int main (int argc, char **argv) {
  const char *file = NULL;
  for (int i = 1; i < argc; i++) {
    if (strcmp (argv[i], "-prefix") == 0 && i + 1 < argc) P = argv[++i];
    else file = argv[i];
  }
  if (file == NULL) { fprintf (stderr, "usage: mirdump [-prefix P] file.mir\n"); return 2; }
  FILE *f = fopen (file, "r");
  if (f == NULL) { perror (file); return 2; }
  static char text[1 << 20];
  size_t len = fread (text, 1, sizeof (text) - 1, f);
  text[len] = 0;
  fclose (f);
  out = stdout;
  MIR_context_t ctx = MIR_init ();
  MIR_scan_string (ctx, text);
  for (MIR_module_t m = DLIST_HEAD (MIR_module_t, *MIR_get_module_list (ctx)); m != NULL; m = DLIST_NEXT (MIR_module_t, m))
    MIR_load_module (ctx, m);
  MIR_link (ctx, MIR_set_interp_interface, resolver);
  /* collect */
  for (MIR_module_t m = DLIST_HEAD (MIR_module_t, *MIR_get_module_list (ctx)); m != NULL; m = DLIST_NEXT (MIR_module_t, m))
    for (MIR_item_t it = DLIST_HEAD (MIR_item_t, m->items); it != NULL; it = DLIST_NEXT (MIR_item_t, it)) {
      size_t sz = item_size (ctx, it);
      if (it->item_type == MIR_func_item) { fns[nfns].item = it; fns[nfns].id = nfns; nfns++; }
      else if (it->item_type == MIR_proto_item) proto_id (it);
      else if (it->item_type == MIR_data_item || it->item_type == MIR_bss_item || it->item_type == MIR_ref_data_item
               || it->item_type == MIR_lref_data_item || it->item_type == MIR_expr_data_item) {
        char *a = it->addr;
        if (nsecs > 0 && secs[nsecs - 1].addr + secs[nsecs - 1].size == a && !it->section_head_p) secs[nsecs - 1].size += sz;
        else { secs[nsecs].addr = a; secs[nsecs].size = sz; secs[nsecs].id = nsecs; nsecs++; }
        if (nditems < 4096) { ditems[nditems].item = it; ditems[nditems].sec = nsecs - 1; ditems[nditems].off = (size_t) (a - secs[nsecs - 1].addr); ditems[nditems].size = sz; ditems[nditems].mod = m->name; nditems++; }
      }
    }
  struct interp_ctx *interp_ctx = ctx->interp_ctx;
  for (int i = 0; i < nfns; i++) {
    if (fns[i].item->data == NULL) generate_icode (ctx, fns[i].item);
    else { finish_func_interpretation (fns[i].item, ctx->alloc); generate_icode (ctx, fns[i].item); }
    fns[i].item->u.func->internal = (void *) VARR_LENGTH (MIR_val_t, code_varr);
  }
  fprintf (out, "/* generated by mirdump from %s: real MIR_link + generate_icode output */\n", file);
  fprintf (out, "#define %sNFUNC %d\n#define %sNEXT %d\n#define %sNSEC %d\n#define %sNPROTO_MAX 256\n", P, nfns, P, nexts > 0 ? nexts : 1, P, nsecs, P);
  fprintf (out, "static struct MIR_insn %sdummy_insn;\n", P);
  fprintf (out, "static char %sfn_marker[%d];\nstatic char %sext_marker[%d];\n", P, nfns > 0 ? nfns : 1, P, nexts > 0 ? nexts : 1);
  fprintf (out, "static const char *const %sext_name[] = {", P);
  for (int i = 0; i < nexts; i++) fprintf (out, "\"%s\", ", exts[i].name);
  fprintf (out, "0};\n");
  /* sections */
  for (int i = 0; i < nsecs; i++) {
    fprintf (out, "static uint8_t %ssec%d[%zu] __attribute__ ((aligned (16))) = {", P, i, secs[i].size ? secs[i].size : 1);
    for (size_t k = 0; k < secs[i].size; k++) fprintf (out, "%u,", (unsigned) (uint8_t) secs[i].addr[k]);
    fprintf (out, "};\n");
  }
  for (int i = 0; i < nditems; i++) {
    MIR_item_t it = ditems[i].item;
    const char *nm = it->item_type == MIR_data_item ? it->u.data->name : it->item_type == MIR_bss_item ? it->u.bss->name
                     : it->item_type == MIR_ref_data_item ? it->u.ref_data->name : it->item_type == MIR_lref_data_item ? it->u.lref_data->name
                     : it->u.expr_data->name;
    fprintf (out, "/* mirdump-item module=%s name=%s sec=%d off=%zu size=%zu type=%s */\n", ditems[i].mod, nm == NULL ? "-" : nm, ditems[i].sec,
             ditems[i].off, ditems[i].size, it->item_type == MIR_data_item ? tname (it->u.data->el_type) : "-");
  }
  /* functions first need protos: walk code once to register protos used */
  for (int i = 0; i < nfns; i++) {
    func_desc_t fd = fns[i].item->data;
    for (MIR_insn_t insn = DLIST_HEAD (MIR_insn_t, fns[i].item->u.func->insns); insn != NULL; insn = DLIST_NEXT (MIR_insn_t, insn))
      if (MIR_call_code_p (insn->code)) proto_id (insn->ops[0].u.ref);
    (void) fd;
  }
  for (int i = 0; i < nprotos; i++) {
    MIR_proto_t p = protos[i]->u.proto;
    size_t na = p->args == NULL ? 0 : VARR_LENGTH (MIR_var_t, p->args);
    fprintf (out, "static MIR_type_t %sproto%d_res[] = {", P, i);
    for (uint32_t k = 0; k < p->nres; k++) fprintf (out, "%s, ", tname (p->res_types[k]));
    fprintf (out, "MIR_T_UNDEF};\nstatic MIR_var_t %sproto%d_argv[] = {", P, i);
    for (size_t k = 0; k < na; k++) { MIR_var_t v = VARR_GET (MIR_var_t, p->args, k); fprintf (out, "{%s, \"a%zu\", %zu}, ", tname (v.type), k, MIR_all_blk_type_p (v.type) ? v.size : (size_t) 0); }
    fprintf (out, "{MIR_T_UNDEF, 0, 0}};\n");
    fprintf (out, "static VARR (MIR_var_t) %sproto%d_args = {%zu, %zu, %sproto%d_argv, 0};\n", P, i, na, na + 1, P, i);
    fprintf (out, "static struct MIR_proto %sproto%d = {\"%s\", %u, %sproto%d_res, %d, %s%sproto%d_args};\n", P, i, p->name, p->nres, P, i,
             p->vararg_p, "&", P, i);
    /* The proto item is laid out as raw pointer cells, not as a struct MIR_item initialiser: CBMC 6.11 loses the pointer in
       `proto_item->u.proto->nres` (call_insn_execute) when u.proto - a non-first union member - is read through a pointer to
       a statically initialised struct MIR_item ("invalid object"; every interpreted call became undecidable).  Only u.proto of
       a proto item is read by the interpreter; the cell index is computed by the compiler from the real struct. */
    fprintf (out, "static void *%sproto_item%d_raw[sizeof (struct MIR_item) / sizeof (void *)] = {[offsetof (struct MIR_item, u) / sizeof (void *)] = &%sproto%d};\n", P, i, P, i);
    fprintf (out, "#define %sproto_item%d (*(struct MIR_item *) %sproto_item%d_raw)\n", P, i, P, i);
    fprintf (out, "static void %sff_common (MIR_proto_t proto, void *addr, MIR_val_t *res_args);\n", P);
    fprintf (out, "static void %sff_proto%d (void *addr, void *res_args) { %sff_common (&%sproto%d, addr, (MIR_val_t *) res_args); }\n", P, i, P, P, i);
  }
  for (int i = 0; i < nfns; i++) dump_func (ctx, i);
  /* function table */
  fprintf (out, "struct %sfunc_info { const char *name; func_desc_t fd; unsigned nargs, nres; int vararg_p; MIR_type_t arg_types[24]; size_t arg_sizes[24]; MIR_type_t res_types[8]; };\n", P);
  fprintf (out, "static const struct %sfunc_info %sfuncs[] = {\n", P, P);
  for (int i = 0; i < nfns; i++) {
    MIR_func_t fu = fns[i].item->u.func;
    fprintf (out, "  {\"%s\", (func_desc_t) &%sfd%d, %u, %u, %d, {", fu->name, P, i, fu->nargs, fu->nres, fu->vararg_p);
    for (uint32_t k = 0; k < fu->nargs && k < 24; k++) fprintf (out, "%s, ", tname (VARR_GET (MIR_var_t, fu->vars, k).type));
    fprintf (out, "MIR_T_UNDEF}, {");
    for (uint32_t k = 0; k < fu->nargs && k < 24; k++) fprintf (out, "%zu, ", MIR_all_blk_type_p (VARR_GET (MIR_var_t, fu->vars, k).type) ? VARR_GET (MIR_var_t, fu->vars, k).size : (size_t) 0);
    fprintf (out, "0}, {");
    for (uint32_t k = 0; k < fu->nres && k < 8; k++) fprintf (out, "%s, ", tname (fu->res_types[k]));
    fprintf (out, "MIR_T_UNDEF}},\n");
  }
  fprintf (out, "  {0}};\n");
  /* relocation patches inside data (ref / lref items) */
  fprintf (out, "static void %sreloc_init (void) {\n", P);
  for (MIR_module_t m = DLIST_HEAD (MIR_module_t, *MIR_get_module_list (ctx)); m != NULL; m = DLIST_NEXT (MIR_module_t, m))
    for (MIR_item_t it = DLIST_HEAD (MIR_item_t, m->items); it != NULL; it = DLIST_NEXT (MIR_item_t, it)) {
      char where[128], what[160];
      if (it->item_type == MIR_ref_data_item || (it->item_type == MIR_lref_data_item && it->u.lref_data->label2 == NULL)) {
        void *val = *(void **) it->addr;
        if (!classify (it->addr, where)) continue;
        if (val == NULL) continue;
        if (classify (val, what)) fprintf (out, "  *(void **) (%s) = %s;\n", where, what);
        else if (it->item_type == MIR_ref_data_item) {
          /* reference + displacement pointing outside any known object: keep base + disp */
          void *base = it->u.ref_data->ref_item->addr;
          if (classify (base, what)) fprintf (out, "  *(void **) (%s) = (char *) (%s) + (%lld);\n", where, what, (long long) it->u.ref_data->disp);
          else { fprintf (stderr, "mirdump: cannot relocate ref data %p\n", val); exit (3); }
        }
      }
    }
  /* long double data (incl. the ld immediates simplify_op moves into data items): the byte dump above holds the x87 image of the
     build machine; a harness compiled by a front end with another long double format (CBMC: binary128) gets the VALUE here */
  for (int i = 0; i < nditems; i++) {
    MIR_item_t it = ditems[i].item;
    if (it->item_type != MIR_data_item || it->u.data->el_type != MIR_T_LD) continue;
    for (size_t k = 0; k < it->u.data->nel; k++) {
      long double v;
      memcpy (&v, it->u.data->u.els + k * sizeof (long double), sizeof (long double));
      fprintf (out, "  { MIR_val_t v = ");
      pr_ld (v);
      fprintf (out, "; memcpy (&%ssec%d[%zu], &v.ld, sizeof (long double)); }\n", P, ditems[i].sec, ditems[i].off + k * sizeof (long double));
    }
  }
  fprintf (out, "}\n");
  fprintf (out, "/* mirdump-summary funcs=%d protos=%d sections=%d externals=%d */\n", nfns, nprotos, nsecs, nexts);
  return 0;
}
