#!/usr/bin/env python3
"""Regenerates /verif/MANIFEST.json from the table below (single source of truth for what is claimed)."""
import json
import os

V = os.path.dirname(os.path.dirname(os.path.abspath(__file__)))
TECH = "bounded symbolic execution of the real C code with CBMC 6.11; SAT/SMT verdict over all inputs within stated bounds"

CLAIMS = {
    "C19": dict(
        level="model_checking", design="DESIGN.md section 3, C19",
        text="Bounded model checking of the real mir-bitmap.h/mir-varr.h/mir-htab.h/mir-dlist.h against abstract set/sequence/map models. "
             "Bitmap and VARR: ONE operation from an ARBITRARY representation state (any lengths/capacities/contents within the size bound, any "
             "aliasing of operands), which is an inductive step covering histories of any length; HTAB and DLIST: every operation sequence up to a "
             "length bound with arbitrary hash values / all node choices. The solver decides every obligation for all values inside the bound; "
             "memory-safety checks of CBMC are on.",
        note="Bounds: bitmaps <= 3 (quick) / 4 (thorough) words; bit loops 1-3 words; HTAB 3 ops x 3 keys (quick), 4 x 3 and 3 x 4 (thorough), arbitrary 32-bit "
             "hashes; DLIST 4/5 ops over 4 nodes; VARR length <= 6/10. Allocator is a legal MIR_alloc_t with a ledger (slot allocator: realloc keeps the "
             "block); bitmap_copy of a bitmap onto itself is outside; trusted: CBMC, the harness models in harness/C19, gcc+ASan for replay.",
        technique=TECH + "; one-step-inductive harnesses from arbitrary states"),
    "C12": dict(
        level="model_checking", design="DESIGN.md section 3, C12",
        text="Bounded model checking of all of mir-reduce.h with the window shrunk through the MIR_VERIF hook: decoder memory safety and "
             "accept=>well-formed contract on ARBITRARY byte streams (one refill from a fresh start with arbitrary stale ind2pos contents), "
             "encoder/decoder round trip for every input of each length in the bound with all memory checks on, rejection of every truncation and "
             "one-byte extension.",
        note="Bounds: _REDUCE_BUF_LEN 16 and 8 (hook), streams <= 12 (quick) / 20 (thorough) bytes, round trip lengths 0..9 (BUF 16, encoder window arbitrary = stale bytes of a previous buffer) and 9,10 "
             "(BUF 8, two buffers) quick; up to 17 thorough. mir_hash_strict replaced by a cheap deterministic fold (bucket choice / same function on "
             "both sides); detection of ALTERED bytes rests on a 64-bit hash and is not claimed; the 256-byte driver loops of reduce_encode/decode are "
             "not encoded.",
        technique=TECH),
    "C14": dict(
        level="model_checking", design="DESIGN.md section 3, C14",
        text="Bounded model checking of the real load_bss_data_section (both passes) and the ref/expr initialisation loops of MIR_link on directly "
             "constructed item lists: placement (section heads, adjacency, no gaps, declaration order, one allocation of the rounded total size) and "
             "contents (data bytes, zero bss, ref = target address + displacement, expr = interpreter value truncated to the result type) are decided "
             "by the solver for all payload bytes, displacements and expression values of each enumerated run of items.",
        note="lref VALUES written by the code generator (real gen_setup_lrefs of mir-gen.c) are checked by lref.gen_values; every run ends with the real remove_module under the ledger allocator (each section block freed exactly once).  The STRUCTURE of a run (item kinds, sizes, named flags, ref targets) is an enumerated/sampled configuration (35 shapes; all single items, "
             "sampled runs of 2-5 items from VERIF_SEED) because symbolic sizes put every byte store at a symbolic offset (no verdict); ref displacement "
             "in [0, 2^40] (CBMC pointer encoding); MIR_interp is a stub returning an arbitrary value; lref values are set by the engines, only their "
             "placement is checked; x86-64 type sizes.",
        technique=TECH + "; configuration enumeration for the structural part"),
    "C09": dict(
        level="model_checking", design="DESIGN.md section 3, C09",
        text="Bounded model checking of the real #if evaluator (eval, eval_binop_operands of c2mir.c) on hand-built expression trees against a "
             "reference written from C11 6.10.1p4/6.6/6.5 (value and intmax_t/uintmax_t type of every operator), with all 64-bit leaf values symbolic, "
             "plus stringify/destringify round trip for all short byte strings.  Only the last sentence of the property (#if evaluation) is decided.",
        note="NOT decided: macro expansion, token pasting, rescanning, blue paint, directive processing (need the pre-processor context built by "
             "pre_init; not encoded).  Bounds: tree depth <= 2, ?: conditions constant 0/1 (both enumerated), leaf kinds enumerated, values symbolic; "
             "division by zero, INT64_MIN/-1, shift counts >= 64 and signed overflow assumed away in evaluated positions; arithmetic right shift of "
             "negative values assumed (gcc/x86-64).",
        technique=TECH),
    "C07": dict(
        level="model_checking", design="DESIGN.md section 3, C07 and section 8.4",
        text="Bounded model checking of two kernels of c2mir: (1) conversions - integer_promotion and arithmetic_conversion for all pairs of basic/enum "
             "types against C11 6.3.1.1/6.3.1.8 (LP64), and cast_value for every (source, target) basic type pair and every source value against C casts; "
             "(2) constant folding - the real check_assign_op on two integer constants for & | ^ << >> + - * / %: result type and value (as every "
             "consumer reads it) against a reference written from C11 6.5.5-6.5.12, all values, all 144 integer type pairs (* / %: selected pairs).",
        note="Everything else in the property (parser, the rest of check(), gen(), whole-program behaviour against the reference compiler) is NOT decided by this "
             "check: no harness can go through c2mir_init and the AST/symbol-table heap is beyond symbolic execution.  CBMC models long double as a "
             "128-bit IEEE format; pointer paths of cast_value are not encoded; float->int out of range assumed away.",
        technique=TECH),
    "C05": dict(
        level="model_checking", design="DESIGN.md section 3, C05 and section 8",
        text="For every prototype of an enumerated configuration space the machine code emitted by the REAL _MIR_get_ff_call (interpreter FFI leg, fed "
             "by the real narrowing/widening code of call()) and by the REAL generator for a call instruction (machinize_call leg, -O2 quick / -O0..-O3 "
             "thorough) is lifted to C (engine E3) and executed symbolically: at the call instruction every argument register / stack slot, %al, the "
             "stack alignment, copied block bytes, and after return every result register are compared with a System V psABI oracle for ALL argument "
             "and result values.",
        note="Prototypes: all sequences of <= 3 (quick) / 4 (thorough) arguments over {i8..u64,p,f,d,ld,blk0-4,rblk} with 0-2 results (pruned by "
             "equivalence class of narrow types), plus seeded long ones up to 20 arguments, each with and without '...'.  Trusted: GNU objdump (decoder), "
             "tools/x86lift.py + lift_rt.h (validated natively against the real bytes on 18.6 M states), ref/sysv_call_ref.h, CBMC (long double = "
             "binary128, only moved).  > 20 arguments, Windows ABI, other targets outside.",
        technique=TECH + "; machine code lifted to C (translation of the real generated bytes)"),
    "C06": dict(
        level="model_checking", design="DESIGN.md section 3, C06 and section 8",
        text="For every signature of the enumerated space a MIR function that observes all its parameters, keeps 0/8/20 values live across an external "
             "call and performs a constant or variable alloca is generated by the real generator, lifted (E3) and run from a symbolic entry state "
             "(arguments placed by the psABI oracle, callee-saved registers, rsp, stack words symbolic): parameter values, result registers, "
             "callee-saved registers and rsp on return, 16-byte alignment at inner calls and alloca validity are decided for all values.  Variadic "
             "consumers (va_start + va_arg of i64/d/ld through the real builtin) for 0..9 named ints x 0..9 named doubles and named blocks; the "
             "interpreter shim's real bytes are checked to build a va_list that decodes to the argument values and to return results in the right registers.",
        note="Quick: -O2; thorough adds -O0/-O1/-O3.  va_block_arg not covered; interp() itself is a stub behind the shim (its decoding is represented by "
             "the psABI va_arg algorithm); MXCSR/x87 control words are plain fields only ldmxcsr/fldcw write; trusted base as C05.",
        technique=TECH + "; machine code lifted to C"),
    "C03": dict(
        level="model_checking", design="DESIGN.md section 3, C03 and section 8",
        text="Transparency of every trampoline that implements the execution interfaces (thunk short/long, wrapper + wrapper_end, bb_thunk, bb_wrapper, "
             "interpreter shim): the real bytes are lifted (E3) and run from a fully symbolic machine state with an arbitrary ABI-conforming hook; "
             "argument registers, callee-saved registers, rsp and caller stack bytes arrive unchanged at the hook's target, the hook receives the "
             "documented arguments with an aligned stack.  Thunk retargeting arithmetic (_MIR_redirect_thunk, _MIR_get_thunk_addr, "
             "_MIR_replace_bb_thunk): for every pair of addresses the written pattern decodes to a jump to exactly `to`.",
        note="NOT claimed: program-level equivalence of lazily generated basic-block versions (code exists only after native execution) and of "
             "eager/lazy function generation beyond what C01 decides for generate_func_code's output; bb wrapper: xmm8-15/flags not asserted.  "
             "Addresses < 2^47.  Trusted base as C05.",
        technique=TECH + "; machine code lifted to C"),
    "C17": dict(
        level="model_checking", design="DESIGN.md section 3, C17 and section 8",
        text="Contracts at the allocation choke points, decided for arbitrary states / short histories: VARR expand/tailor/push/destroy and HTAB "
             "create/do/clear/destroy against a ledger allocator (realloc is told the block's true old size, no stale block is used, every block is "
             "freed exactly once, free_func once per dropped element); the code-holder functions (publish, publish_by_addr, change_code, "
             "update_code_arr, _MIR_set_code, code_finish) against a checking MIR_code_alloc_t: every byte written lies in a mapped holder on a page "
             "that is writable at that moment, every write-enable is followed by an exec-enable before the operation returns, published regions are "
             "16-aligned and disjoint, code_finish unmaps every holder once with its mapped length; "
             "removal.*: the real remove_module / remove_item on loaded data sections (every section block returned exactly once, nothing that is not a block freed).",
        note="The whole-history statement 'after the finish calls every block has been returned' over ~400 allocation sites is NOT claimed (needs "
             "MIR_init; beyond the engine).  Code memory is an integer address range with a shadow array written by the observed memcpy; page size 64; "
             "<= 1 (quick) / 2-3 (thorough) code operations with lengths 0..48.",
        technique=TECH + "; checking allocator stubs"),
    "C08": dict(
        level="model_checking", design="DESIGN.md section 3, C08 and section 8",
        text="Bounded model checking of the real set_type_layout / update_field_layout / type_size / type_align (c2mir.c) and classify_arg / "
             "return-by-address / block-type selection (cx86_64-ABI-code.c) on hand-built type graphs against an oracle written from the System V "
             "psABI and gcc's bit-field rule (ref/sysv_ref.h; itself cross-checked natively against gcc on 16000 generated declarations, and in "
             "setup_cmd on 400): sizeof, _Alignof, every member's byte and bit position, per-eightbyte class, register/memory decision.",
        note="Second-level anonymous aggregates (anonymous struct inside a nested/anonymous aggregate) are covered by the .deep-anon obligations (layout only, no bit-fields).  Declaration SHAPE (struct/union, member categories, array or not) is concrete per obligation; which type of a size class, bit-field "
             "widths 0..bits(type), named/unnamed, array lengths 1..3, registers already used are symbolic.  <= 3 (quick) / 4 (thorough) members, "
             "nesting <= 2, bounded sizeof.  Under CBMC the c2mir TU is compiled with unions as structs (exact for the encoded functions).  "
             "KNOWN FINDING (listed in known-findings.txt, 2 obligations): unnamed bit-fields raise alignment / take a whole unit.  The copying "
             "code emitted by gen() for by-value aggregates, _Alignas and packed layouts are outside.",
        technique=TECH + "; oracle cross-checked against gcc natively"),
    "C11": dict(
        level="model_checking", design="DESIGN.md section 3, C11 and section 8",
        text="Bounded model checking of the TOKEN LAYER of binary MIR (built with the repo's MIR_NO_BIN_COMPRESSION so put_byte/get_byte go to harness "
             "callbacks; the compression layer is C12): every token writer against its reader (int, uint, float, double, long double, type, label, "
             "string tag) for ALL 64-bit values / bit patterns with exact byte consumption; write_op against read_operand for all 10 operand kinds "
             "including fully symbolic memory operands; the real write_item into the real MIR_read_with_func for data items of every element type and "
             "for lref items.",
        note="name.temp_item: after read_name has read any name (reserved .lc<n> included) _MIR_get_temp_item_name yields a different name (strtoul/snprintf modelled for <= 5 digits).  NOT decided: determinism of two whole-module writes, whole-module identity, string-table construction over many strings, the reader's "
             "func/proto/import/export/forward/bss/ref/expr item branches.  State constructed directly (io_ctx, string tables, one function with two "
             "registers); 64-byte stream; data elements: integer/p concrete value sets, f/d/ld symbolic.",
        technique=TECH),
    "C10": dict(
        level="model_checking", design="DESIGN.md section 3, C10 and section 8",
        text="Bounded model checking of fragments of the textual writer/scanner: (1) the real MIR_output_item/_insn/_op terminates memory-safely and "
             "reads only the union members its item kind has, on one directly constructed item per kind (import, export, forward, proto with blk/rblk, "
             "func with each operand form incl. alias annotations, data of every element type, bss, ref, lref, expr) with symbolic payloads; "
             "(2) string escapes: MIR_output_str into the real scanner's string reader for ALL byte strings of length <= 3 ending in NUL (both tiers) and all strings of length <= 2 (quick) / 3 (thorough); "
             "(3) operand syntax: the text the real MIR_output_op prints for a symbolic memory operand (base/index each absent or any register, disp, scale, alias/nonalias) is read "
             "back by a reference reader written from MIR.md's operand syntax and must denote the operand printed; likewise the header line of a prototype "
             "with symbolic numbers of results / arguments and vararg flag (hdr.proto).",
        note="NOT decided: integer and floating-point immediates (formatting/parsing is libc's: %.*e, strtod - no CBMC model), whole-module text "
             "identity and execution identity after re-scan, re-scanning by the REAL scanner's operand branch (fragment 3 uses a reference reader, memory operands only).  fprintf is a harness stub (literal "
             "text, %s, %c, %03o exact; numeric conversions a placeholder); ASCII/C locale.  KNOWN FINDING (known-findings.txt): a string whose last "
             "byte is not NUL gains a trailing NUL on the round trip (str.any.*); strings ending in NUL round-trip exactly (str.nulterm.*).",
        technique=TECH),
    "C04": dict(
        level="translation_validation", design="DESIGN.md section 3, C04 and section 8",
        text="For every function of a corpus ONE CBMC run executes three legs from the same symbolic inputs and asserts equal results, equal final "
             "buffer contents and equal external-call logs: (r) the meaning of the MIR text AS WRITTEN (tools/mir2ref.py over ref/mir_ref.h: every call a "
             "real call, no simplification), (h) the real interpreter on the icode of what the REAL MIR_link produced (simplified, inlined; engine E2), "
             "(n) the same with the inlining thresholds compiled to 0.  Corpus (generated from VERIF_SEED + hand-written + mir-tests): inlining thresholds "
             "pinned by the number of calls left after link, chains/recursion, nine alloca scenarios incl. bstart/bend, blk0-4 x sizes 1..24, rblk, narrow "
             "argument/result types, multiple rets, 19 jump-threading shapes, operand lowering.",
        note="Programs outside the corpus; <= 300 executed icode insns per activation, depth <= 3, <= 4 external calls; DATA arguments fully symbolic, "
             "CONTROL arguments case-split to a few values (three legs repeat every symbolic branch); the FFI trampoline is replaced by a C dispatcher, "
             "alloca is a bump arena (a bend releasing too little is not visible); symbolic mul/div avoided (C02's subject); trusted: mir2ref.py + mir_ref.h.",
        technique=TECH + "; per-program equivalence of real interpreter on real link output vs reference translation, via cbmc --paths"),
    "C20": dict(
        level="translation_validation", design="DESIGN.md section 3, C20 and section 8",
        text="For every module of a corpus the REAL MIR_module2c (native, from the working tree, under a 20 s / 8 MB limit = termination) emits C; goto-cc "
             "and gcc -fsyntax-only must accept it; CBMC then runs every exported function of the emitted C against the real interpreter on the icode "
             "of the same module (E2) from symbolic arguments with the same external stubs and asserts equal results and call logs.  Corpus: one "
             "function per non-control opcode and compare-branch, memory operand forms, data sections of every element type, calls, overflow insns, "
             "immediates on a boundary grid.",
        note="KNOWN FINDINGS (known-findings.txt): mir2c refuses expr data and passes block arguments by reference.  "
             "Repaired in /repo during the build: infinite immediates, ubo/ubno flag, references to one-element data / ref data items, data sections with unnamed "
             "followers, switch, uge, ldmov, section loop, alloca include.  "
             "Excluded: multi-result functions (property), va_*, jcall/jret, laddr/jmpi, property insns, lref.  mul/div/mod, fmul/fdiv and double/long "
             "double arithmetic on constant grids; long double = binary128 on both legs; C-level UB of the emitted C evaluated as -fwrapv.",
        technique=TECH + "; emitted C compiled by goto-cc and compared with the real interpreter"),
    "C15": dict(
        level="model_checking", design="DESIGN.md section 3, C15 and section 8",
        text="Bounded model checking of the real MIR_new_insn_arr + MIR_append_insn + MIR_finish_func (+ MIR_insn_op_mode, find_rd_by_reg, "
             "create_func_reg) with one obligation per opcode (list read from insn_descs at run time): operand count and the KIND of every operand "
             "position are symbolic; the harness' noreturn error callback asserts that an error was expected (and, where documented, which "
             "MIR_error_type), normal return asserts that none was.  Oracle ref/mir_modes_ref.h is written by instruction family from MIR.md / mir.h "
             "comments, not from insn_descs.  Register declaration errors as separate obligations.",
        note="Quick: 9 operand kinds per position, documented arity (window for ret/call/switch); thorough: 16 kinds, 0..6 operands.  State constructed "
             "directly (not through the API); HTAB replaced by its abstract-map model (justified by C19).  All recorded findings repaired in /repo (incl. the documented undef-type "
             "va_list memory operand).  NOT covered: overflow-branch adjacency 'separated only by register moves' (CBMC limits), "
             "message texts, the MIR_new_insn varargs wrapper.  Doc ambiguities followed the code and are listed in the evidence.",
        technique=TECH + "; exhaustive over opcodes, symbolic over the operand-kind space"),
    "C16": dict(
        level="model_checking", design="DESIGN.md section 3, C16 and section 8",
        text="Bounded model checking of the copy/restore protocol that makes generation non-destructive: the real _MIR_duplicate_func_insns, "
             "store_labels_for_duplication, redirect_duplicated_labels, _MIR_restore_func_insns and temp-register creation/removal on a function of "
             "symbolic shape (labels, branches, switch, laddr, lref items), with the generator modelled as an ARBITRARY sequence of edits of the working "
             "list and temp-register requests between duplicate and restore: afterwards the insn list is the original nodes in order with identical "
             "contents, lref labels are the originals, vars/registers are restored, and a second cycle behaves identically.",
        note="NOT proved: that no generator pass writes through a pointer into original_insns (whole-generator frame condition).  The already-generated "
             "path of generate_func_code (mir-gen.c) is checked by regen.already-generated (same address returned, thunk redirected to the recorded call address, MIR untouched); "
             "the generating path is not encoded.  <= 3 (quick) / 5 (thorough) insns, <= 2/3 generator edits and temps per cycle, "
             "2 cycles, <= 2 lref items; one obligation family with a global hard-register variable.  State constructed directly; HTAB model.",
        technique=TECH),
    "C02": dict(
        level="model_checking", design="DESIGN.md section 3, C02 and section 8",
        text="Per opcode and operand shape (one tiny MIR function each, generated from the opcode list of /repo/mir.c): (1) the REAL interpreter (eval) "
             "on the icode produced by the REAL MIR_link/generate_icode (so the link-time shortcuts are included) and (2) the machine code emitted by "
             "the REAL generator at -O2 and -O0 (quick; plus -O1 and -O3 for the cheap integer / memory / branch / overflow cases) / -O0..-O3 (thorough), lifted to C (E3), are run from ALL operand values (64-bit integers, "
             "all float/double/long-double bit patterns, arbitrary memory contents) and compared with ref/mir_ref.h, written from MIR.md: width, "
             "signedness, extension of narrow loads, truncation of stores, NaN comparisons, overflow-flag branches, conversions.  Operand shapes: "
             "register (incl. dst==src aliasing), boundary immediates in either position, both operands constant (the generator's folding), memory operands "
             "in each position, store followed by an overlapping load of another width/offset (argument buffer and alloca block), fp immediates.",
        note="Immediates are compile-time constants: boundary grid.  Undefined cases per MIR.md assumed away; 32-bit results compared on the low half.  "
             "Interpreter built with the repo's MIR_DIRECT_DISPATCH switch.  Interpreter-leg obligations for DMUL/DDIV/LD* arithmetic and mulo-family "
             "flags got no verdict with any back end and are excluded from both tiers (listed in the evidence; the generated-code leg decides the same "
             "opcodes with z3 --fpa).  long double = CBMC binary128 on all sides; builtins ui2f/ui2d/ui2ld/ld2i modelled by their C semantics; trusted "
             "base of E3 as C05.",
        technique=TECH + "; real interpreter on dumped icode and lifted machine code vs documentation-derived reference"),
    "C01": dict(
        level="translation_validation", design="DESIGN.md section 3, C01 and section 8",
        text="For every function of a corpus and every optimisation level (quick: 0 and 2; thorough: 0-3) ONE CBMC run executes the real interpreter on "
             "the dumped icode (E2) and the lifted machine code the real generator emitted for that function at that level (E3) on the same C memory "
             "from the same symbolic arguments, buffer contents and external results, and asserts equal results, equal final memory and equal "
             "external-call logs - for ALL inputs within the loop bounds.  Corpus: 9 mir-tests, hand-written files and 8 generated families (CFG "
             "shapes incl. switch/laddr/jmpi, memory operand forms with aliasing stores/loads, register pressure > 14 int / 14 fp, alloca, overflow "
             "insns, 64/32-bit/f/d mixes, calls with live results, GVN-foldable constants incl. every compare opcode on sign/width-discriminating pairs and "
             "never-executed trapping divisions, overlapping stores into alloca blocks, compares with memory operands, and a `passes` family - guarded "
             "trapping insns with loop-invariant operands in loops, chained extensions / copies with a redefinition in between - run at all four levels in both tiers).",
        note="Programs outside the corpus; <= 60 insns, trip counts <= 4, <= 200 executed icode insns per activation, depth <= 3, <= 4 external calls; "
             "compile-time constants concrete (the symbolic-constant fold sub-check of DESIGN section 3 is not built); blk types, variadic definitions, "
             "long double data and mir-tests 3/9/10/11/13/15/16 excluded (reasons in the evidence); lazy-BB code is C03's non-claim.  Trusted base as C05.",
        technique=TECH + "; per-program equivalence of interpreter and lifted generated code via cbmc --paths"),
    "C13": dict(
        level="model_checking", design="DESIGN.md section 3, C13 and section 8",
        text="Bounded model checking of the real add_item, setup_global, MIR_load_module (data and function branches), MIR_load_external, item table "
             "functions and MIR_link (resolution loops, resolver fallback, undefined-import error) on directly constructed modules: every history of "
             "<= 4 steps (one name) / 3 steps (two names) from {load M1..M3, load_external, link with/without resolver} is one solver path; after each "
             "link every import of a module linked in that step is bound to the definition loaded last before the step (abstract map oracle), earlier "
             "bindings stay, undefined imports and second exported functions end in the documented error; add_item merging rules for all kind sequences "
             "of length 3.",
        note="Module shapes include an exported data SECTION of two items (name = section start).  Module SHAPES are enumerated (multisets / orthogonal array of 5 shapes per name), histories exhaustive within the step bound via cbmc "
             "--paths; thunk creation and set_interface are stubs (which body runs is C01/C03); HTAB abstract-map model (C19), constant hash; "
             "MIR_change_module_ctx and ref/lref/expr data outside.",
        technique=TECH + "; exhaustive path enumeration of load/link histories"),
}

NOT_APPLICABLE = {
    "C18": "Quantifies over interleavings of N threads each running a whole-library workload; CBMC cannot take even a single-threaded MIR_init "
           "(no verdict in 15 min / 7.6 GB), and the residue within reach (which functions write static-lifetime objects) is a syntactic scan, "
           "not a solver verdict - switching technique is excluded by the task (DESIGN.md section 5).",
}

PENDING = "check under construction in this session (see DESIGN.md section 7); not claimed until its check runs clean on the unchanged tree"


def main():
    props = [json.loads(l) for l in open(os.path.join(V, "properties.jsonl"))]
    checks, na = [], []
    for p in props:
        pid = p["id"]
        if pid in CLAIMS:
            c = CLAIMS[pid]
            checks.append({
                "property_id": pid,
                "quick_cmd": "./check %s --tier quick" % pid,
                "thorough_cmd": "./check %s --tier thorough" % pid,
                "evidence_file": "evidence/%s.json" % pid,
                "replay_cmd_template": "./check %s --replay {path}" % pid,
                "engine": "cbmc",
                "level_claimed": {"category": c["level"], "text": c["text"], "design_ref": c["design"]},
                "level_note": c["note"],
                "technique": c["technique"],
            })
        else:
            na.append({"property_id": pid, "reason": NOT_APPLICABLE.get(pid, PENDING)})
    hooks = [l.split()[0] for l in os.popen("git -C /repo log --format='%h %s' 2>/dev/null").read().splitlines() if "verif hook" in l]
    m = {
        "version": 1,
        "setup_cmd": "./setup.sh",
        "hooks": {
            "guard": "MIR_VERIF",
            "enable": "harnesses #include the real translation units and are compiled (goto-cc / gcc) with -DMIR_VERIF; the library build itself never defines it",
            "baseline_off_cmd": "cmake --build /repo/_build -j8 -- -k 0 ; ctest --test-dir /repo/_build -j8 --timeout 900",
            "source_commits": hooks,
            "add_only": True,
        },
        "engines": [
            {"name": "E1", "path": "lib/vlib.py + harness/", "kind_free_text": "CBMC unit harness on the real translation unit, dual-mode native replay (ASan/UBSan)",
             "serves_properties": sorted(CLAIMS)},
        ],
        "checks": checks,
        "not_applicable": na,
        "notes": "All checks: ./check <ID> --tier quick|thorough; exit 0 held, 1 VIOLATION (natively reproduced counterexample), 2 inconclusive "
                 "(timeout / out of memory / non-reproducing counterexample - never reported as success). Known findings / repaired defects: known-findings.txt.",
    }
    json.dump(m, open(os.path.join(V, "MANIFEST.json"), "w"), indent=1)
    print("claimed:", [c["property_id"] for c in checks], "not applicable:", len(na))


if __name__ == "__main__":
    main()
