#!/usr/bin/env python3
"""seedstore.py <seed-id> <prop> <worktree OUT/mX dir> <confirm-line> <detect-log> : copy a confirmed seeded change into /verif/seeded/<seed-id>/"""
import json, os, re, shutil, sys
sid, prop, src, confirm, detlog = sys.argv[1:6]
dst = os.path.join("/verif/seeded", sid)
os.makedirs(dst, exist_ok=True)
for f in os.listdir(src):
    if f in ("demo",) or f.endswith((".o", ".log")) and f != "README.txt":
        continue
    p = os.path.join(src, f)
    if os.path.isfile(p) and os.path.getsize(p) < 200000:
        shutil.copy(p, os.path.join(dst, f))
readme = open(os.path.join(src, "README.txt")).read() if os.path.exists(os.path.join(src, "README.txt")) else ""
det = open(detlog).read() if os.path.exists(detlog) else ""
viol = re.findall(r"^VIOLATION property=\S+ replay=\S+/([^/\s]+)\.nd", det, re.M)
summ = re.findall(r"^SUMMARY.*$", det, re.M)
meta = {
    "seed_id": sid, "property": prop,
    "origin": "written by a fresh sub-agent that saw only the property text and a scratch worktree of /repo (nothing from /verif)",
    "what_it_needs_to_manifest": readme.strip()[:1500],
    "confirmed_by_me": {"how": "tools/seedconfirm.sh in the scratch worktree: apply patch, rebuild, full ctest, demo; revert, rebuild, demo",
                         "result": confirm},
    "check_run": {"how": "tools/seedrun.sh: fresh worktree of /repo HEAD + patch, VERIF_REPO=<worktree> ./check %s --tier quick" % prop,
                  "summary": summ[-1] if summ else "not run", "detected": bool(viol),
                  "violated_obligations": sorted(set(v.split(".line_")[0] for v in viol))[:20]},
}
json.dump(meta, open(os.path.join(dst, "meta.json"), "w"), indent=1)
print(sid, "detected" if viol else "MISSED", len(viol))
