#!/usr/bin/env python3
"""Generate the C02 corpus: one tiny MIR function per (opcode, operand shape) and, for each, a C harness
entry that runs it (through the real interpreter on the dumped icode, or through lifted machine code)
from symbolic operands and compares with ref/mir_ref.h.

usage: gen_c02.py OUTDIR TIER   -> OUTDIR/c02.mir, OUTDIR/c02_cases.h, OUTDIR/c02_cases.json
The opcode list is read from /repo/mir.c (insn_descs) so that new/removed opcodes show up."""
import json
import os
import re
import sys

REPO = os.environ.get("VERIF_REPO", "/repo")

INT3 = ["ADD", "SUB", "MUL", "DIV", "UDIV", "MOD", "UMOD", "AND", "OR", "XOR", "LSH", "RSH", "URSH",
        "EQ", "NE", "LT", "ULT", "LE", "ULE", "GT", "UGT", "GE", "UGE"]
INT2 = ["MOV", "EXT8", "EXT16", "EXT32", "UEXT8", "UEXT16", "UEXT32", "NEG", "NEGS"]
FP3 = ["ADD", "SUB", "MUL", "DIV"]
FPC = ["EQ", "NE", "LT", "LE", "GT", "GE"]
IBR = ["BEQ", "BNE", "BLT", "UBLT", "BLE", "UBLE", "BGT", "UBGT", "BGE", "UBGE"]
IMMS = [0, 1, -1, 2, 127, 128, -128, -129, 255, 0x7fff, 0x7fffffff, 0x80000000, -0x80000000, -0x80000001,
        0xffffffff, 0x100000000, 0x7fffffffffffffff, -0x8000000000000000, 31, 32, 63]


def known_opcodes():
    src = open(os.path.join(REPO, "mir.c")).read()
    return set(m.group(1) for m in re.finditer(r"\{MIR_([A-Z0-9_]+), \"", src))


def pre_of(op):
    base = op[:-1] if op.endswith("S") and op not in ("LES", "GES", "NES") else op
    if op in ("DIV", "MOD"): return "ref_PRE_DIV"
    if op in ("DIVS", "MODS"): return "ref_PRE_DIVS"
    if op in ("UDIV", "UMOD"): return "ref_PRE_UDIV"
    if op in ("UDIVS", "UMODS"): return "ref_PRE_UDIVS"
    if op in ("LSH", "RSH", "URSH"): return "ref_PRE_SH"
    if op in ("LSHS", "RSHS", "URSHS"): return "ref_PRE_SHS"
    return None


def is_s(op):
    return op.endswith("S") and op[:-1] in INT3 + ["NEG"] + IBR + ["BT", "BF", "ADDO", "SUBO", "MULO", "UMULO"]


class Gen:
    def __init__(self):
        self.mir = ["m_c02: module"]
        self.c = []
        self.cases = []
        self.bodies = []
        self.funcs = []
        self.known = known_opcodes()

    def func(self, name, sig, body):
        start = len(self.mir)
        self.mir.append("%s: func %s" % (name, sig))
        lab = "L%d" % len(self.mir)  # labels are module-scoped in MIR text
        self.mir += ["  " + l.replace("L1", lab) for l in body]
        self.mir.append("  endfunc")
        self.last_func = self.mir[start:]

    def case(self, name, ccode, sample, heavy=False, group="int"):
        fid = len(self.cases)
        self.c.append("#define FID_%s %d\nvoid harness_%s (void) {\n  h_interp_init ();\n%s\n  H_WITNESS (\"end\");\n}\n" % (name, fid, name, ccode))
        self.bodies.append("void harness_%s (void) {\n  h_interp_init ();\n%s\n  H_WITNESS (\"end\");\n}\n" % (name, ccode))
        self.funcs.append(self.last_func)
        self.cases.append({"name": name, "entry": "harness_" + name, "sample": sample, "heavy": heavy, "group": group})

    def have(self, op):
        return op in self.known

    # ---- integer three-operand, register operands ----
    def int3(self, op, shape="rrr", imm=None):
        if not self.have(op): return
        lo = "REF_LOW32" if is_s(op) else ""
        pre = pre_of(op)
        n = "i3_%s_%s" % (op, shape if imm is None else "imm%s" % (str(imm).replace("-", "m")))
        if any(c["name"] == n for c in self.cases):
            return  # the shortcut immediates 0 / 1 are also on the thorough grid
        mop = op.lower()
        if shape == "rrr":
            self.func("f_" + n, "i64, i64:a, i64:b", ["local i64:r", "%s r, a, b" % mop, "ret r"])
            args = "uint64_t a = nd (), b = nd ();"
        elif shape == "aab":
            self.func("f_" + n, "i64, i64:a, i64:b", ["%s a, a, b" % mop, "ret a"])
            args = "uint64_t a = nd (), b = nd ();"
        elif shape == "bab":
            self.func("f_" + n, "i64, i64:a, i64:b", ["%s b, a, b" % mop, "ret b"])
            args = "uint64_t a = nd (), b = nd ();"
        elif shape == "aaa":
            self.func("f_" + n, "i64, i64:a, i64:b", ["%s a, a, a" % mop, "ret a"])
            args = "uint64_t a = nd (), b = a; (void) nd ();"
        elif shape == "imm":
            self.func("f_" + n, "i64, i64:a, i64:b", ["local i64:r", "%s r, a, %d" % (mop, imm), "ret r"])
            args = "uint64_t a = nd (), b = (uint64_t) %dll; (void) nd ();" % imm if imm != -0x8000000000000000 else \
                   "uint64_t a = nd (), b = (uint64_t) 1 << 63; (void) nd ();"
        elif shape == "immfirst":
            self.func("f_" + n, "i64, i64:a, i64:b", ["local i64:r", "%s r, %d, b" % (mop, imm), "ret r"])
            args = "uint64_t b = nd (), a = (uint64_t) %dll; (void) nd ();" % imm
        body = "  %s\n" % args
        if pre:
            body += "  H_ASSUME (%s (a, b));\n" % pre
        body += "  uint64_t got = h_run_i2 (FID_%s, a, b), exp = ref_%s (a, b);\n" % (n, op)
        body += "  H_ASSERT (%s (got) == %s (exp), \"%s %s: result equals MIR.md semantics\");" % (lo, lo, op, shape)
        heavy = op.startswith(("MUL", "DIV", "UDIV", "MOD", "UMOD")) and shape != "imm"
        self.case(n, body, "%s %s: all 64-bit register values%s" % (mop, shape, "" if imm is None else ", immediate %d" % imm), heavy)

    def int2(self, op):
        if not self.have(op): return
        n = "i2_" + op
        lo = "REF_LOW32" if op == "NEGS" else ""
        self.func("f_" + n, "i64, i64:a", ["local i64:r", "%s r, a" % op.lower(), "ret r"])
        self.case(n, "  uint64_t a = nd ();\n  uint64_t got = h_run_i1 (FID_%s, a), exp = ref_%s (a);\n"
                     "  H_ASSERT (%s (got) == %s (exp), \"%s: result equals MIR.md semantics\");" % (n, op, lo, lo, op),
                  "%s r,a: all 64-bit values" % op.lower())

    def fp3(self, p, op):
        full = p + op
        if not self.have(full): return
        t = {"F": "f", "D": "d", "LD": "ld"}[p]
        ct = {"F": "float", "D": "double", "LD": "long double"}[p]
        n = "fp3_" + full
        self.func("f_" + n, "%s, %s:a, %s:b" % (t, t, t), ["local %s:r" % t, "%s r, a, b" % full.lower(), "ret r"])
        self.case(n, "  %s a = h_nd_%s (), b = h_nd_%s ();\n  %s got = h_run_%s2 (FID_%s, a, b), exp = ref_%s (a, b);\n"
                     "  H_ASSERT (h_same_%s (got, exp), \"%s: result equals the IEEE operation\");" % (ct, t, t, ct, t, n, full, t, full),
                  "%s: all %s bit patterns" % (full.lower(), ct), heavy=(p == "LD" or op in ("MUL", "DIV")), group="fp")

    # ---- both operands compile-time constants: what GVN/CCP constant folding must reproduce (generated-code leg only) ----
    def int3cc(self, op, c1, c2, k):
        if not self.have(op): return
        w = 32 if is_s(op) else 64
        m = (1 << w) - 1
        u2 = c2 & m
        sx = lambda v: (v & m) - (1 << w) if (v & m) >> (w - 1) else (v & m)
        if op.rstrip("S") in ("DIV", "MOD") or op in ("DIVS", "MODS"):
            if sx(c2) == 0 or (sx(c1) == -(1 << (w - 1)) and sx(c2) == -1): return
        if op.startswith(("UDIV", "UMOD")) and u2 == 0: return
        if "SH" in op and not (0 <= (c2 & ((1 << 64) - 1)) < w): return
        lo = "REF_LOW32" if is_s(op) else ""
        n = "i3cc_%s_%d" % (op, k)
        lit = lambda v: "%d" % v if v != -0x8000000000000000 else "-9223372036854775808"
        self.func("f_" + n, "i64, i64:a, i64:b", ["local i64:r, i64:x, i64:y", "mov x, %s" % lit(c1), "mov y, %s" % lit(c2),
                                                   "%s r, x, y" % op.lower(), "ret r"])
        cl = lambda v: "((uint64_t) 1 << 63)" if v == -0x8000000000000000 else "(uint64_t) %dll" % v
        self.case(n, "  uint64_t a = nd (), b = nd ();\n  uint64_t got = h_run_i2 (FID_%s, a, b), exp = ref_%s (%s, %s);\n"
                     "  H_ASSERT (%s (got) == %s (exp), \"%s of two constants: result equals MIR.md semantics (constant folding)\");"
                  % (n, op, cl(c1), cl(c2), lo, lo, op),
                  "mov x,%d; mov y,%d; %s r,x,y (both operands compile-time constants)" % (c1, c2, op.lower()), group="constfold")
        self.cases[-1]["gen_only"] = True

    # ---- memory operands inside arithmetic/compare insns (the combiner folds loads/stores into x86 memory forms) ----
    def int3mem(self, op, shape):
        if not self.have(op): return
        s32 = is_s(op)
        mt, ct, sz = ("i32", "int32_t", 4) if s32 else ("i64", "int64_t", 8)
        pre = pre_of(op)
        lo = "REF_LOW32" if s32 else ""
        n = "i3m_%s_%s" % (op, shape)
        mem = "%s:8(p)" % mt
        fill = "  uint8_t buf[64];\n  for (int k = 0; k < 64; k += 8) { uint64_t w = nd (); memcpy (buf + k, &w, 8); }\n" \
               "  %s mv; memcpy (&mv, buf + 24, %d); uint64_t m = (uint64_t) (int64_t) mv;\n" % (ct, sz)
        if shape == "rmi":      # r = mem op imm8
            imm = 5 if "SH" not in op else 3
            self.func("f_" + n, "i64, i64:p, i64:b", ["local i64:r", "%s r, %s, %d" % (op.lower(), mem, imm), "ret r"])
            body = fill + "  uint64_t a = m, b = %d; (void) nd ();\n" % imm
            call = "h_run_i2 (FID_%s, (uint64_t) (uintptr_t) (buf + 16), 0)" % n
        elif shape == "rmr":    # r = mem op b
            self.func("f_" + n, "i64, i64:p, i64:b", ["local i64:r", "%s r, %s, b" % (op.lower(), mem), "ret r"])
            body = fill + "  uint64_t a = m, b = nd ();\n"
            call = "h_run_i2 (FID_%s, (uint64_t) (uintptr_t) (buf + 16), b)" % n
        elif shape == "rrm":    # r = b op mem
            self.func("f_" + n, "i64, i64:p, i64:b", ["local i64:r", "%s r, b, %s" % (op.lower(), mem), "ret r"])
            body = fill + "  uint64_t a = nd (), b = m;\n"
            call = "h_run_i2 (FID_%s, (uint64_t) (uintptr_t) (buf + 16), a)" % n
        else:                   # mrr: mem = a op b (memory destination)
            self.func("f_" + n, "i64, i64:p, i64:a, i64:b", ["%s %s, a, b" % (op.lower(), mem), "ret 0"])
            body = fill + "  uint64_t a = nd (), b = nd ();\n  uint8_t old[64]; memcpy (old, buf, 64);\n"
            call = None
        if pre: body += "  H_ASSUME (%s (a, b));\n" % pre
        if call:
            body += "  uint64_t got = %s, exp = ref_%s (a, b);\n" % (call, op)
            body += "  H_ASSERT (%s (got) == %s (exp), \"%s with a memory operand (%s): result equals MIR.md semantics\");" % (lo, lo, op, shape)
        else:
            body += "  h_run_i3 (FID_%s, (uint64_t) (uintptr_t) (buf + 16), a, b);\n" % n
            body += "  { uint64_t exp = ref_%s (a, b); memcpy (old + 24, &exp, %d); }\n" % (op, sz)
            body += "  H_ASSERT (memcmp (old, buf, 64) == 0, \"%s with a memory destination: exactly the addressed bytes hold the truncated result\");" % op
        heavy = op.startswith(("MUL", "DIV", "UDIV", "MOD", "UMOD"))
        self.case(n, body, "%s with %s operand form %s; memory contents and registers symbolic" % (op.lower(), mt, shape), heavy, group="memop")

    # ---- store followed by an overlapping load of another size / displacement (memory availability, aliasing, DSE) ----
    def memov(self, where, s2, d2, s1, d1, k):
        ty = {1: "u8", 2: "u16", 4: "u32", 8: "i64"}
        cty = {1: "uint8_t", 2: "uint16_t", 4: "uint32_t", 8: "uint64_t"}
        n = "mov_%s_%d" % (where, k)
        if where == "arg":
            self.func("f_" + n, "i64, i64:p, i64:v", ["local i64:r", "mov %s:%d(p), v" % (ty[s2], d2), "mov r, %s:%d(p)" % (ty[s1], d1), "ret r"])
            body = "  uint8_t buf[64];\n  for (int k = 0; k < 64; k += 8) { uint64_t w = nd (); memcpy (buf + k, &w, 8); }\n" \
                   "  uint64_t v = nd ();\n  uint8_t m[64]; memcpy (m, buf, 64); { %s t = (%s) v; memcpy (m + 16 + %d, &t, %d); }\n" \
                   "  %s e; memcpy (&e, m + 16 + %d, %d);\n" \
                   "  uint64_t got = h_run_i2 (FID_%s, (uint64_t) (uintptr_t) (buf + 16), v);\n" \
                   "  H_ASSERT (got == (uint64_t) e, \"load after an overlapping store of another size sees the stored bytes\");\n" \
                   "  H_ASSERT (memcmp (m, buf, 64) == 0, \"the store is performed (not removed as dead)\");" \
                   % (cty[s2], cty[s2], d2, s2, cty[s1], d1, s1, n)
        else:  # alloca'd block, first fully defined by two 64-bit stores
            self.func("f_" + n, "i64, i64:i, i64:v", ["local i64:r, i64:p", "alloca p, 16", "mov i64:(p), i", "mov i64:8(p), i",
                                                       "mov %s:%d(p), v" % (ty[s2], d2), "mov r, %s:%d(p)" % (ty[s1], d1), "ret r"])
            body = "  uint64_t i = nd (), v = nd ();\n  uint8_t m[16]; memcpy (m, &i, 8); memcpy (m + 8, &i, 8);\n" \
                   "  { %s t = (%s) v; memcpy (m + %d, &t, %d); }\n  %s e; memcpy (&e, m + %d, %d);\n" \
                   "  uint64_t got = h_run_i2 (FID_%s, i, v);\n" \
                   "  H_ASSERT (got == (uint64_t) e, \"load from an alloca block after an overlapping store of another size sees the stored bytes\");" \
                   % (cty[s2], cty[s2], d2, s2, cty[s1], d1, s1, n)
        self.case(n, body, "%s: store %s at +%d then load %s at +%d (overlapping, different size/displacement)" % (where, ty[s2], d2, ty[s1], d1), group="memov")

    def fp3imm(self, p, op, imm, second=True):
        """floating-point op with an IMMEDIATE operand (link-time shortcuts / operand lowering must keep IEEE results, e.g. -0.0 + 0.0 = +0.0)"""
        full = p + op
        if not self.have(full): return
        t = {"F": "f", "D": "d"}[p]
        ct = {"F": "float", "D": "double"}[p]
        sfx = "f" if p == "F" else ""
        n = "fp3i_%s_%s%s" % (full, "b" if second else "a", imm.replace("-", "m").replace(".", "p"))
        ops = "a, %s%s" % (imm, sfx) if second else "%s%s, a" % (imm, sfx)
        self.func("f_" + n, "%s, %s:a, %s:b" % (t, t, t), ["local %s:r" % t, "%s r, %s" % (full.lower(), ops), "ret r"])
        call = "ref_%s (a, (%s) %s)" % (full, ct, imm) if second else "ref_%s ((%s) %s, a)" % (full, ct, imm)
        self.case(n, "  %s a = h_nd_%s (), b = 0; (void) nd ();\n  %s got = h_run_%s2 (FID_%s, a, b), exp = %s;\n"
                     "  H_ASSERT (h_same_%s (got, exp), \"%s with immediate %s: result equals the IEEE operation\");\n"
                     "  if (a == 0 && 1 / a < 0) H_WITNESS (\"negative zero operand\");" % (ct, t, ct, t, n, call, t, full, imm),
                  "%s r, %s: all %s bit patterns" % (full.lower(), ops, ct), heavy=False, group="fp")

    def fpneg(self, p):
        full = p + "NEG"
        if not self.have(full): return
        t = {"F": "f", "D": "d", "LD": "ld"}[p]
        ct = {"F": "float", "D": "double", "LD": "long double"}[p]
        n = "fp2_" + full
        self.func("f_" + n, "%s, %s:a" % (t, t), ["local %s:r" % t, "%s r, a" % full.lower(), "ret r"])
        self.case(n, "  %s a = h_nd_%s ();\n  %s got = h_run_%s1 (FID_%s, a), exp = ref_%s (a);\n"
                     "  H_ASSERT (h_same_%s (got, exp), \"%s\");" % (ct, t, ct, t, n, full, t, full), full.lower(), group="fp")

    def fpcmp(self, p, op):
        full = p + op
        if not self.have(full): return
        t = {"F": "f", "D": "d", "LD": "ld"}[p]
        ct = {"F": "float", "D": "double", "LD": "long double"}[p]
        n = "fpc_" + full
        self.func("f_" + n, "i64, %s:a, %s:b" % (t, t), ["local i64:r", "%s r, a, b" % full.lower(), "ret r"])
        self.case(n, "  %s a = h_nd_%s (), b = h_nd_%s ();\n  uint64_t got = h_run_%s2i (FID_%s, a, b), exp = ref_%s (a, b);\n"
                     "  H_ASSERT (got == exp, \"%s: C-like comparison incl. NaN\");\n"
                     "  if (a != a || b != b) H_WITNESS (\"NaN operand\");" % (ct, t, t, t, n, full, full),
                  "%s: all %s bit patterns incl. NaN, +-0, inf" % (full.lower(), ct), group="fp")

    def fpbr(self, p, op):
        full = p + "B" + op
        if not self.have(full): return
        t = {"F": "f", "D": "d", "LD": "ld"}[p]
        ct = {"F": "float", "D": "double", "LD": "long double"}[p]
        n = "fpb_" + full
        self.func("f_" + n, "i64, %s:a, %s:b" % (t, t), ["%s L1, a, b" % full.lower(), "ret 0", "L1:", "ret 1"])
        self.case(n, "  %s a = h_nd_%s (), b = h_nd_%s ();\n  uint64_t got = h_run_%s2i (FID_%s, a, b), exp = ref_%s%s (a, b);\n"
                     "  H_ASSERT (got == exp, \"%s: branch taken iff the C comparison holds\");" % (ct, t, t, t, n, p, op, full),
                  "%s: all %s bit patterns" % (full.lower(), ct), group="fp")

    def ibr(self, op):
        if not self.have(op): return
        cmp_ = op.replace("B", "", 1) if not op.startswith("UB") else "U" + op[2:]
        n = "br_" + op
        self.func("f_" + n, "i64, i64:a, i64:b", ["%s L1, a, b" % op.lower(), "ret 0", "L1:", "ret 1"])
        self.case(n, "  uint64_t a = nd (), b = nd ();\n  uint64_t got = h_run_i2 (FID_%s, a, b), exp = ref_%s (a, b);\n"
                     "  H_ASSERT (got == exp, \"%s: branch taken iff the documented comparison holds\");" % (n, cmp_, op),
                  "%s L,a,b: all 64-bit values" % op.lower(), group="branch")

    def btf(self, op):
        if not self.have(op): return
        n = "br_" + op
        self.func("f_" + n, "i64, i64:a", ["%s L1, a" % op.lower(), "ret 0", "L1:", "ret 1"])
        s = op.endswith("S")
        cond = "(uint32_t) a != 0" if s else "a != 0"
        if op.startswith("BF"): cond = "!(%s)" % cond
        self.case(n, "  uint64_t a = nd ();\n  uint64_t got = h_run_i1 (FID_%s, a);\n"
                     "  H_ASSERT (got == (uint64_t) (%s), \"%s: branch taken iff operand (non)zero at its width\");" % (n, cond, op),
                  "%s L,a" % op.lower(), group="branch")
        for imm in (0, 1):
            n2 = "br_%s_imm%d" % (op, imm)
            self.func("f_" + n2, "i64, i64:a", ["%s L1, %d" % (op.lower(), imm), "ret 0", "L1:", "ret 1"])
            exp = (imm != 0) if op.startswith("BT") else (imm == 0)
            self.case(n2, "  uint64_t a = nd ();\n  uint64_t got = h_run_i1 (FID_%s, a);\n"
                          "  H_ASSERT (got == %d, \"%s with constant operand (link-time shortcut)\");" % (n2, int(exp), op),
                      "%s L,%d (constant condition, simplified at link)" % (op.lower(), imm), group="branch")

    def ovf(self, op, br):
        if not (self.have(op) and self.have(br)): return
        n = "ov_%s_%s" % (op, br)
        base = op[:-1] if op.endswith("S") else op
        s = "S" if op.endswith("S") else ""
        kind = {"ADDO": "ADD", "SUBO": "SUB", "MULO": "MUL", "UMULO": "MUL"}[base]
        flag = ("ref_UOV_" if br.startswith("U") else "ref_SOV_") + kind + s
        taken = flag + " (a, b)" if br in ("BO", "UBO") else "!" + flag + " (a, b)"
        val = "ref_" + kind + s
        lo = "REF_LOW32" if s else ""
        self.func("f_" + n, "i64, i64, i64:a, i64:b",
                  ["local i64:r", "%s r, a, b" % op.lower(), "%s L1, 0" % br.lower() if False else "%s L1" % br.lower(), "ret r, 0", "L1:", "ret r, 1"])
        self.case(n, "  uint64_t a = nd (), b = nd (), got[2];\n  h_run_i2r2 (FID_%s, a, b, got);\n"
                     "  H_ASSERT (%s (got[0]) == %s (%s (a, b)), \"%s: value\");\n"
                     "  H_ASSERT (got[1] == (uint64_t) (%s), \"%s;%s: branch follows the mathematical overflow of the exact result\");\n"
                     "  if (got[1]) H_WITNESS (\"branch taken\");" % (n, lo, lo, val, op, taken, op, br),
                  "%s r,a,b; %s L: all 64-bit values" % (op.lower(), br.lower()), heavy=("MUL" in op), group="ovf")
        if "MUL" in op:  # link-time shortcut x*1 must keep the overflow flag meaningful
            n2 = "ov_%s_%s_imm1" % (op, br)
            # an earlier overflowing insn leaves the flag set; the multiplication by 1 must define it anew
            self.func("f_" + n2, "i64, i64, i64:a, i64:b",
                      ["local i64:r, i64:t", "%s t, b, b" % ("addo" if not br.startswith("U") else "addo"), "%s r, a, 1" % op.lower(), "%s L1" % br.lower(), "ret r, 0", "L1:", "ret r, 1"])
            self.case(n2, "  uint64_t a = nd (), b = nd (), got[2];\n  h_run_i2r2 (FID_%s, a, b, got);\n"
                          "  H_ASSERT (%s (got[0]) == %s (a), \"%s x,1: value\");\n"
                          "  H_ASSERT (got[1] == %d, \"%s x,1 ; %s: multiplication by 1 never overflows, whatever an earlier insn left in the flag\");"
                      % (n2, lo, lo, op, 0 if br in ("BO", "UBO") else 1, op, br),
                      "addo t,b,b; %s r,a,1; %s L (flag must come from the multiplication)" % (op.lower(), br.lower()), group="ovf")

    def conv(self, op):
        if not self.have(op): return
        tm = {"I": ("i64", "uint64_t"), "UI": ("i64", "uint64_t"), "F": ("f", "float"), "D": ("d", "double"), "LD": ("ld", "long double")}
        m = re.match(r"(UI|I|F|D|LD)2(I|F|D|LD)$", op)
        src, dst = m.group(1), m.group(2)
        st, sct = tm[src]
        dt, dct = tm[dst]
        n = "cv_" + op
        self.func("f_" + n, "%s, %s:a" % (dt, st), ["local %s:r" % dt, "%s r, a" % op.lower(), "ret r"])
        if src in ("I", "UI"):
            inp = "uint64_t a = nd ();"
            arg = "a"
            refx = "(%s) (%s) a" % (dct, "int64_t" if src == "I" else "uint64_t")
            run = "h_run_i1%s" % {"f": "f", "d": "d", "ld": "ld"}[dt]
        else:
            inp = "%s a = h_nd_%s ();" % (sct, st)
            arg = "a"
            if dst == "I":
                sfx = "f" if src == "F" else "L" if src == "LD" else ""
                inp += "\n  H_ASSUME (a == a && a >= -9223372036854775808.0%s && a < 9223372036854775808.0%s);" % (sfx, sfx)
                refx = "(uint64_t) (int64_t) a"
                run = "h_run_%s1i" % st
            else:
                refx = "(%s) a" % dct
                run = "h_run_%s1%s" % (st, dt)
        cmp_ = "got == exp" if dst == "I" else "h_same_%s (got, exp)" % dt
        self.case(n, "  %s\n  %s got = %s (FID_%s, %s), exp = %s;\n  H_ASSERT (%s, \"%s: C conversion semantics\");"
                     % (inp, "uint64_t" if dst == "I" else dct, run, n, arg, refx, cmp_, op),
                  "%s: all source values%s" % (op.lower(), " in int64 range" if dst == "I" and src not in ("I", "UI") else ""),
                  heavy=("LD" in op or op.startswith("UI")), group="fp")

    def mem(self, tier):
        # loads and stores of every memory type through base/index/scale/disp forms
        types = [("i8", "int8_t", 1), ("u8", "uint8_t", 1), ("i16", "int16_t", 2), ("u16", "uint16_t", 2), ("i32", "int32_t", 4),
                 ("u32", "uint32_t", 4), ("i64", "int64_t", 8), ("u64", "uint64_t", 8), ("p", "uint64_t", 8)]
        forms = [("b", "(bs)", 0, 0), ("db", "8(bs)", 8, 0), ("mdb", "-8(bs)", -8, 0), ("bi1", "(bs, ix)", 0, 1),
                 ("dbi2", "4(bs, ix, 2)", 4, 2), ("bi4", "(bs, ix, 4)", 0, 4), ("dbi8", "-16(bs, ix, 8)", -16, 8)]
        if tier == "quick":
            forms = [forms[0], forms[4], forms[6]]
        for t, ct, sz in types:
            for fn, syn, disp, scale in forms:
                n = "ld_%s_%s" % (t, fn)
                self.func("f_" + n, "i64, i64:bs, i64:ix", ["local i64:r", "mov r, %s:%s" % (t, syn), "ret r"])
                idx = "int64_t ix = (int64_t) nd (); H_ASSUME (ix >= -2 && ix <= 2);" if scale else "int64_t ix = 0; (void) nd ();"
                self.case(n, "  uint8_t buf[64];\n  for (int k = 0; k < 64; k += 8) { uint64_t w = nd (); memcpy (buf + k, &w, 8); }\n  %s\n"
                             "  int64_t off = 32 + (%d) + ix * %d;\n  uint64_t got = h_run_i2 (FID_%s, (uint64_t) (uintptr_t) (buf + 32), (uint64_t) ix);\n"
                             "  %s v; memcpy (&v, buf + off, %d);\n"
                             "  H_ASSERT (got == (uint64_t) (int64_t) v || (%d && got == (uint64_t) v), \"load %s: value extended per the memory type\");"
                          % (idx, disp, scale, n, ct, sz, 1 if ct.startswith("u") else 0, t), "mov r, %s:%s - arbitrary memory contents, index in [-2,2]" % (t, syn), group="mem")
                n = "st_%s_%s" % (t, fn)
                self.func("f_" + n, "i64, i64:bs, i64:ix, i64:v", ["mov %s:%s, v" % (t, syn), "ret 0"])
                self.case(n, "  uint8_t buf[64], old[64];\n  for (int k = 0; k < 64; k += 8) { uint64_t w = nd (); memcpy (buf + k, &w, 8); }\n  memcpy (old, buf, 64);\n  %s\n"
                             "  uint64_t v = nd ();\n  int64_t off = 32 + (%d) + ix * %d;\n  h_run_i3 (FID_%s, (uint64_t) (uintptr_t) (buf + 32), (uint64_t) ix, v);\n"
                             "  memcpy (old + off, &v, %d); /* little endian: the low bytes */\n"
                             "  H_ASSERT (memcmp (old, buf, 64) == 0, \"store %s: exactly the addressed bytes hold the truncated value\");"
                          % (idx, disp, scale, n, sz, t), "mov %s:%s, v - arbitrary value and memory" % (t, syn), group="mem")
        for t, ct, sz in [("f", "float", 4), ("d", "double", 8), ("ld", "long double", 10)]:
            mv = {"f": "fmov", "d": "dmov", "ld": "ldmov"}[t]
            n = "ld_%s" % t
            self.func("f_" + n, "%s, i64:bs, i64:ix" % t, ["local %s:r" % t, "%s r, %s:8(bs, ix, %d)" % (mv, t, 16 if t == "ld" else 8), "ret r"])
            self.case(n, "  uint8_t buf[96];\n  for (int k = 0; k < 96; k += 8) { uint64_t w = nd (); memcpy (buf + k, &w, 8); }\n"
                         "  int64_t ix = (int64_t) nd (); H_ASSUME (ix >= -1 && ix <= 1);\n  int64_t off = 32 + 8 + ix * %d;\n"
                         "  %s got = h_run_i2%s (FID_%s, (uint64_t) (uintptr_t) (buf + 32), (uint64_t) ix), v;\n  memcpy (&v, buf + off, %d);\n"
                         "  H_ASSERT (memcmp (&got, &v, %d) == 0, \"%s load is bit exact\");" % (16 if t == "ld" else 8, ct, t, n, sz, sz, mv),
                      "%s r, %s:8(bs,ix,s)" % (mv, t), group="mem")

    def build(self, tier):
        for op in INT3:
            for o in (op, op + "S"):
                self.int3(o, "rrr")
                if tier == "thorough" or op in ("SUB", "DIV", "LSH", "LT", "MOD"):
                    self.int3(o, "aab"); self.int3(o, "bab")
                if tier == "thorough":
                    self.int3(o, "aaa") if pre_of(o) is None or "SH" in (pre_of(o) or "") else None
        shortcut1 = ["MUL", "MULS", "DIV", "DIVS"]
        shortcut0 = ["ADD", "ADDS", "SUB", "SUBS", "OR", "ORS", "XOR", "XORS", "LSH", "LSHS", "RSH", "RSHS", "URSH", "URSHS"]
        for o in shortcut1: self.int3(o, "imm", 1)
        for o in shortcut0: self.int3(o, "imm", 0)
        grid = IMMS if tier == "thorough" else [-1, 2, 0x7fffffff, 0x80000000, 0x100000000]
        for op in (INT3 if tier == "thorough" else ["ADD", "SUB", "MUL", "AND", "LT", "ULT", "EQ", "UDIV", "DIV", "MOD"]):
            for o in (op, op + "S"):
                for imm in grid:
                    pre = pre_of(o)
                    if pre and "DIV" in pre and (imm == 0 or (o.endswith("S") and imm & 0xffffffff == 0)): continue
                    if pre and "SH" in pre: continue
                    self.int3(o, "imm", imm)
        for o in ["LSH", "RSH", "URSH"]:
            for imm in ([1, 31, 32, 63] if tier == "thorough" else [1, 63]): self.int3(o, "imm", imm)
        for o in ["LSHS", "RSHS", "URSHS"]:
            for imm in ([1, 31] if tier == "thorough" else [31]): self.int3(o, "imm", imm)
        # constant folding pairs (gen leg only)
        CC = [(5, 0x80000000), (0x80000000, 5), (-1, 1), (1, -1), (0x100000005, 7), (7, 0x100000005), (0xffffffff, 0x100000000),
              (0x80000000, 0x80000000), (-0x8000000000000000, 0x7fffffffffffffff), (0x7fffffff, -0x80000000), (12, 3), (-12, 5),
              (0xfffffff9, 2), (1, 31), (0x80000001, 63), (3, 0)]
        if tier == "quick": CC = CC[:6] + CC[13:15]
        for op in INT3:
            for o in (op, op + "S"):
                for k, (c1, c2) in enumerate(CC): self.int3cc(o, c1, c2, k)
        # memory operand forms
        for op in INT3:
            for o in (op, op + "S"):
                for sh in (("rmi", "rmr", "rrm", "mrr") if tier == "thorough" or op in ("ADD", "SUB", "AND", "EQ", "LT", "ULT", "NE", "LSH", "MUL", "GE", "ULE") else ("rmi",)):
                    self.int3mem(o, sh)
        # overlapping store/load pairs
        k = 0
        for where in ("arg", "alloca"):
            for s2, d2 in ((8, 0), (4, 4), (2, 2), (1, 5), (8, 8)):
                for s1 in (1, 2, 4, 8):
                    for d1 in (0, 2, 4, 6, 8, 12):
                        a0, a1, b0, b1 = d2, d2 + s2, d1, d1 + s1
                        if not (a0 < b1 and b0 < a1) or (s1 == s2 and d1 == d2) or b1 > 16: continue
                        if tier == "quick" and (k % 3) != 0:
                            k += 1; continue
                        self.memov(where, s2, d2, s1, d1, k); k += 1
        for op in INT2: self.int2(op)
        for p in ("F", "D"):
            for op in FP3:
                for imm in ("0.0", "1.0") + (("-0.0", "2.0") if tier == "thorough" else ()):
                    self.fp3imm(p, op, imm, True)
                    if op in ("SUB", "DIV") or tier == "thorough": self.fp3imm(p, op, imm, False)
        for p in ("F", "D", "LD"):
            for op in FP3: self.fp3(p, op)
            self.fpneg(p)
            for op in FPC:
                self.fpcmp(p, op); self.fpbr(p, op)
        for op in IBR:
            self.ibr(op); self.ibr(op + "S")
        for op in ("BT", "BTS", "BF", "BFS"): self.btf(op)
        for op in ("ADDO", "SUBO", "ADDOS", "SUBOS"):
            for br in ("BO", "BNO", "UBO", "UBNO"): self.ovf(op, br)
        for op in ("MULO", "MULOS"):
            for br in ("BO", "BNO"): self.ovf(op, br)
        for op in ("UMULO", "UMULOS"):
            for br in ("UBO", "UBNO"): self.ovf(op, br)
        for op in ("I2F", "I2D", "I2LD", "UI2F", "UI2D", "UI2LD", "F2I", "D2I", "LD2I", "F2D", "F2LD", "D2F", "D2LD", "LD2F", "LD2D"):
            self.conv(op)
        self.mem(tier)
        self.mir.append("  endmodule")


def main():
    outdir, tier = sys.argv[1], sys.argv[2]
    g = Gen()
    g.build(tier)
    os.makedirs(outdir, exist_ok=True)
    open(os.path.join(outdir, "c02.mir"), "w").write("\n".join(g.mir) + "\n")
    open(os.path.join(outdir, "c02_cases.h"), "w").write("\n".join(g.c))
    # per-group files for the interpreter leg: small translation units keep CBMC's counterexample traces printable
    # (with ~1000 functions of static icode in one unit, cbmc dies while building the trace and nothing can be replayed)
    G = 24
    for gi in range(0, len(g.cases), G):
        grp = gi // G
        with open(os.path.join(outdir, "c02_g%d.mir" % grp), "w") as f:
            f.write("m_c02_g%d: module\n" % grp)
            for fl in g.funcs[gi:gi + G]: f.write("\n".join(fl) + "\n")
            f.write("  endmodule\n")
        with open(os.path.join(outdir, "c02_cases_g%d.h" % grp), "w") as f:
            for k, c in enumerate(g.cases[gi:gi + G]):
                f.write("#define FID_%s %d\n%s\n" % (c["name"], k, g.bodies[gi + k]))
        for c in g.cases[gi:gi + G]: c["interp_group"] = grp
    json.dump(g.cases, open(os.path.join(outdir, "c02_cases.json"), "w"), indent=1)
    print(len(g.cases))


if __name__ == "__main__":
    main()
