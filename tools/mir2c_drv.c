/* mir2c_drv: C20 driver for the REAL MIR-to-C translator (mir2c/mir2c.c, MIR_module2c), built natively from /repo's
   working tree on every run:
     gcc -O0 -w -I/repo -o mir2c_drv tools/mir2c_drv.c /repo/mir2c/mir2c.c /repo/mir.c -lm -ldl -lpthread
   usage: mir2c_drv file.mir MODULE out.c
   Scans the whole text (MIR_scan_string, as mir2c's own main does), then translates the module named MODULE with
   MIR_module2c into out.c.  The module is NOT loaded or linked (MIR_module2c skips items that have an address).
   Exit: 0 ok, 2 usage / module not found, anything else = the translator (or the scanner) failed: the default MIR error
   function exits 1, a failed mir_assert aborts (134); a hang is cut by the caller's `timeout` and file size limit. */
#include <stdio.h>
#include <string.h>
#include <stdlib.h>
#include "mir.h"
#include "mir2c/mir2c.h"

int main (int argc, char **argv) {
  if (argc != 4) { fprintf (stderr, "usage: mir2c_drv file.mir MODULE out.c\n"); return 2; }
  FILE *f = fopen (argv[1], "r");
  if (f == NULL) { perror (argv[1]); return 2; }
  static char text[1 << 20];
  size_t len = fread (text, 1, sizeof (text) - 1, f);
  text[len] = 0;
  fclose (f);
  MIR_context_t ctx = MIR_init ();
  MIR_scan_string (ctx, text);
  MIR_module_t m;
  for (m = DLIST_HEAD (MIR_module_t, *MIR_get_module_list (ctx)); m != NULL; m = DLIST_NEXT (MIR_module_t, m))
    if (strcmp (m->name, argv[2]) == 0) break;
  if (m == NULL) { fprintf (stderr, "mir2c_drv: no module %s\n", argv[2]); return 2; }
  FILE *o = fopen (argv[3], "w");
  if (o == NULL) { perror (argv[3]); return 2; }
  MIR_module2c (ctx, o, m);
  if (fclose (o) != 0) { perror ("fclose"); return 5; }
  MIR_finish (ctx);
  return 0;
}
