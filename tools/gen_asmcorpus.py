#!/usr/bin/env python3
"""gen_asmcorpus.py -- hand-written instruction snippets for validating the parts of x86lift.py that the
current MIR generator does not (or only rarely) emit: adc/sbb/not/inc/dec, 8/16-bit ALU forms, one-operand
imul, unrestricted div/idiv, every condition code with setcc/cmovcc/jcc, movd/movq/movups/movdqa, packed
logic, comis*, fst/fabs/fldz/fld1/fsubrp/fdivrp/f(u)comi, leave, push imm, ...

usage: gen_asmcorpus.py > asm.json      (needs gcc/as, objcopy, nm; output is a dump in mirgen-dump's format
                                          that liftcheck.py accepts)
Every snippet is a position-independent region `a_<name>` ending in ret; rdx is a pointer argument.
"""
import json
import os
import subprocess
import sys
import tempfile

BASE = 0x100000000000
S = []


def snip(name, body):
    S.append((name, body))


CCS = ["o", "no", "b", "ae", "e", "ne", "be", "a", "s", "ns", "p", "np", "l", "ge", "le", "g"]
for cc in CCS:
    snip("set" + cc, "cmp rdi, rsi\n set%s al" % cc)
    snip("cmov" + cc, "cmp edi, esi\n cmov%s rax, rcx\n cmov%s ebx, r8d" % (cc, cc))
    snip("cmovm" + cc, "add rdi, rsi\n cmov%s rax, [rdx]" % cc)
    snip("j" + cc, "sub dil, sil\n j%s 1f\n mov eax, 1\n ret\n1: mov eax, 2" % cc)
    snip("jfar" + cc, "add di, si\n j%s 1f\n mov eax, 1\n ret\n .skip 200, 0x90\n1: mov eax, 2" % cc)
for w, a, b, m in (("8", "al", "sil", "byte ptr"), ("16", "ax", "si", "word ptr"), ("32", "eax", "esi", "dword ptr"), ("64", "rax", "rsi", "qword ptr")):
    for op in ("add", "adc", "sub", "sbb", "and", "or", "xor", "cmp", "test"):
        snip("%s%s_rr" % (op, w), "%s %s, %s" % (op, a, b))
        snip("%s%s_mr" % (op, w), "%s %s [rdx], %s" % (op, m, b))
        if op != "test":
            snip("%s%s_rm" % (op, w), "%s %s, %s [rdx+8]" % (op, a, m))
        snip("%s%s_ri" % (op, w), "%s %s, 0x5a" % (op, a))
        snip("%s%s_mi" % (op, w), "%s %s [rdx], -3" % (op, m))
    snip("adc%s_chain" % w, "add %s, %s\n adc %s, %s\n sbb %s, %s" % (a, b, a, a, b, a))
    for op in ("neg", "not", "inc", "dec"):
        snip("%s%s_r" % (op, w), "%s %s" % (op, a))
        snip("%s%s_m" % (op, w), "%s %s [rdx]" % (op, m))
    for op in ("shl", "shr", "sar"):
        snip("%s%s_1" % (op, w), "%s %s, 1" % (op, a))
        snip("%s%s_i" % (op, w), "%s %s, 5" % (op, a))
        snip("%s%s_cl" % (op, w), "%s %s, cl" % (op, a))
        snip("%s%s_mcl" % (op, w), "%s %s [rdx], cl" % (op, m))
        snip("%s%s_cl_jcc" % (op, w), "%s %s, cl\n setc bl\n sets r8b\n setz r9b\n setp r10b" % (op, a))
for w, a, b in (("16", "ax", "si"), ("32", "eax", "esi"), ("64", "rax", "rsi")):
    snip("imul%s_rr" % w, "imul %s, %s" % (a, b))
    snip("imul%s_rri" % w, "imul %s, %s, 1000" % (a, b))
    snip("imul%s_rri8" % w, "imul %s, %s, -7" % (a, b))
for w, b, m in (("32", "esi", "dword ptr"), ("64", "rsi", "qword ptr")):
    for op in ("mul", "imul", "div", "idiv"):
        snip("%s1_%s_r" % (op, w), "%s %s" % (op, b))
        snip("%s1_%s_m" % (op, w), "%s %s [rdx]" % (op, m))
    snip("div%s_small" % w, "and rdx, 3\n or %s, 16\n div %s" % (b, b))
    snip("idiv%s_small" % w, "movsx rdx, dl\n sar rdx, 6\n or %s, 256\n idiv %s" % (b, b))
snip("cwde", "cwde")
snip("cdqe", "cdqe")
snip("cdq_cqo", "cdq\n mov r8, rdx\n cqo")
snip("movsx_forms", "movsx eax, sil\n movsx bx, dil\n movsx rcx, si\n movzx r8d, si\n movzx r9w, dil\n movsxd r10, esi\n movzx r11, byte ptr [rdx]\n movsx r12d, word ptr [rdx+2]")
snip("lea_forms", "lea eax, [rdi+rsi*4+5]\n lea rbx, [rsi*8-0x100]\n lea rcx, [rip+0x1234]\n lea r8, [rdi+rdi]")
snip("frame_leave", "push rbp\n mov rbp, rsp\n sub rsp, 32\n mov [rbp-8], rdi\n mov rax, [rbp-8]\n leave")
snip("push_imm", "push 0x12345678\n push -2\n pop rax\n pop rbx\n push rsi\n pop qword ptr [rdx]" if False else "push 0x12345678\n push -2\n pop rax\n pop rbx\n push rsi\n pop rcx")
snip("nops", "nop\n xchg ax, ax\n nop dword ptr [rax]\n nop word ptr [rax+rax*1+0x0]\n endbr64\n mov eax, 7")
snip("movd_movq", "movd xmm0, esi\n movd eax, xmm1\n movq xmm2, rdi\n movq rbx, xmm3\n movq xmm4, xmm5\n movq [rdx], xmm6\n movd [rdx+8], xmm7\n movq xmm8, [rdx+16]\n movd xmm9, [rdx+24]")
snip("mov128", "movups xmm0, [rdx]\n movups [rdx+16], xmm1\n movdqu xmm2, [rdx+32]\n movdqa xmm3, xmm4\n movaps xmm5, xmm6\n movapd xmm7, xmm0\n movupd xmm8, [rdx+1]")
snip("mov128_aligned", "and rdx, -16\n movaps xmm0, [rdx]\n movdqa [rdx+16], xmm1\n movapd xmm2, [rdx+32]")
snip("plogic", "pxor xmm0, xmm1\n andps xmm2, xmm3\n andpd xmm4, [rdx]\n orps xmm5, xmm6\n orpd xmm7, xmm0\n andnps xmm1, xmm2\n andnpd xmm3, xmm4\n xorps xmm5, [rdx+16]\n xorpd xmm6, xmm7\n pand xmm8, xmm9\n por xmm10, xmm11\n pandn xmm12, xmm13")
snip("xmm_zero", "xorps xmm0, xmm0\n pxor xmm1, xmm1\n xorpd xmm2, xmm2")
snip("comiss", "comiss xmm0, xmm1\n seta al\n setp bl\n setb cl\n sete r8b")
snip("comisd_m", "comisd xmm0, [rdx]\n seta al\n setp bl\n setb cl\n sete r8b")
snip("ucomiss_m", "ucomiss xmm2, [rdx]\n setae al\n setnp bl\n setbe cl\n setne r8b")
snip("sse_arith_m", "addss xmm0, [rdx]\n subsd xmm1, [rdx+8]\n mulss xmm2, xmm3\n divsd xmm4, xmm5\n divss xmm6, [rdx+16]\n mulsd xmm7, [rdx+24]\n subss xmm0, xmm1\n addsd xmm2, xmm2")
snip("cvt", "cvtsi2ss xmm0, esi\n cvtsi2sd xmm1, esi\n cvtsi2ss xmm2, rdi\n cvtsi2sd xmm3, qword ptr [rdx]\n cvtsi2ss xmm4, dword ptr [rdx+8]\n cvttss2si eax, xmm5\n cvttsd2si ebx, xmm6\n cvttss2si rcx, xmm7\n cvttsd2si r8, [rdx+16]\n cvtss2sd xmm5, xmm6\n cvtsd2ss xmm6, xmm7\n cvtss2sd xmm7, [rdx+24]\n cvtsd2ss xmm0, [rdx+32]")
snip("movss_forms", "movss xmm0, xmm1\n movsd xmm2, xmm3\n movss xmm4, [rdx]\n movsd xmm5, [rdx+8]\n movss [rdx+16], xmm6\n movsd [rdx+24], xmm7")
snip("x87_ld_st", "fld qword ptr [rdx]\n fst dword ptr [rdx+8]\n fst qword ptr [rdx+16]\n fld dword ptr [rdx+24]\n fst st(1)\n fstp st(0)\n fstp tbyte ptr [rdx+32]")
snip("x87_const", "fldz\n fld1\n faddp\n fld1\n fchs\n fabs\n fsubp\n fstp tbyte ptr [rdx]")
snip("x87_abs", "fld tbyte ptr [rdx]\n fabs\n fstp tbyte ptr [rdx+16]\n fld qword ptr [rdx+32]\n fabs\n fchs\n fstp qword ptr [rdx+40]")
snip("x87_rev", "fld tbyte ptr [rdx]\n fld tbyte ptr [rdx+16]\n fsubrp\n fld tbyte ptr [rdx+32]\n fdivrp\n fld tbyte ptr [rdx+48]\n fdivp\n fld tbyte ptr [rdx+64]\n fmulp\n fstp tbyte ptr [rdx+80]")
snip("x87_st2", "fld tbyte ptr [rdx]\n fld tbyte ptr [rdx+16]\n fld tbyte ptr [rdx+32]\n faddp st(2), st\n fxch st(1)\n fsubp st(1), st\n fstp tbyte ptr [rdx+48]")
snip("x87_fcomi", "fld tbyte ptr [rdx]\n fld tbyte ptr [rdx+16]\n fucomi st, st(1)\n seta al\n setp bl\n fcomi st, st(1)\n setb cl\n sete r8b\n fcomip st, st(1)\n setbe r9b\n fstp st(0)")
snip("x87_fild", "fild qword ptr [rdx]\n fild dword ptr [rdx+8]\n fild word ptr [rdx+12]\n faddp\n fmulp\n fstp tbyte ptr [rdx+16]\n fld st(0)" if False else "fild qword ptr [rdx]\n fild dword ptr [rdx+8]\n fild word ptr [rdx+12]\n faddp\n fmulp\n fstp tbyte ptr [rdx+16]")
snip("x87_fldst", "fld tbyte ptr [rdx]\n fld st(0)\n fmulp\n fstp tbyte ptr [rdx+16]")
snip("x87_ctl", "fnstcw [rdx]\n stmxcsr [rdx+4]\n fwait")
snip("ret2", "fld1\n fldz")
snip("ud2", "test dil, 1\n jz 1f\n ud2\n1: mov eax, 3")
snip("int3", "test dil, 3\n jz 1f\n int3\n1: mov eax, 3")
snip("jmp_reg", "lea rax, [rip+1f]\n jmp rax\n mov ebx, 1\n1: mov ecx, 2")
snip("call_reg_mem", "sub rsp, 8\n mov rbx, rdx\n movabs rsi, 0x300000000100\n call rsi\n movabs rax, 0x300000000200\n mov [rbx], rax\n call [rbx]\n add rsp, 8")
snip("stack_ops", "push rbx\n push r12\n sub rsp, 24\n mov [rsp], rdi\n mov [rsp+8], esi\n mov [rsp+12], si\n mov [rsp+14], sil\n mov rbx, [rsp+7]\n mov r12d, [rsp+10]\n lea rax, [rbx+r12]\n add rsp, 24\n pop r12\n pop rbx")


def main():
    tmp = tempfile.mkdtemp(prefix="e3-asm-")
    try:
        src = [".intel_syntax noprefix", ".text"]
        for name, body in S:
            src.append(".balign 16, 0xcc")
            src.append("a_%s:" % name)
            src.append(" " + body)
            src.append(" ret")
            src.append("e_%s:" % name)
        open(os.path.join(tmp, "c.s"), "w").write("\n".join(src) + "\n")
        subprocess.run(["gcc", "-c", "-o", os.path.join(tmp, "c.o"), os.path.join(tmp, "c.s")], check=True)
        subprocess.run(["objcopy", "-O", "binary", "--only-section=.text", os.path.join(tmp, "c.o"), os.path.join(tmp, "c.bin")], check=True)
        blob = open(os.path.join(tmp, "c.bin"), "rb").read()
        nm = subprocess.run(["nm", os.path.join(tmp, "c.o")], capture_output=True, text=True, check=True).stdout
        sym = {}
        for line in nm.splitlines():
            p = line.split()
            if len(p) == 3:
                sym[p[2]] = int(p[0], 16)
        regions = []
        for name, _ in S:
            a, e = sym["a_" + name], sym["e_" + name]
            regions.append({"name": "a_" + name, "kind": "asm", "addr": hex(BASE + a), "len": e - a, "code_end": e - a, "abs_locs": [],
                            "proto": {"res": [], "args": [{"type": "i64", "name": "a", "size": 0}, {"type": "i64", "name": "b", "size": 0}, {"type": "p", "name": "ptr", "size": 0}], "vararg": False},
                            "bytes": blob[a:e].hex()})
        syms = [{"addr": hex(0x300000000000 + 0x100 * i), "kind": "extern", "name": "ext%d" % i, "size": 0} for i in range(8)]
        json.dump({"format": "e3-dump-1", "mode": "asm-corpus", "source": "gen_asmcorpus.py", "regions": regions, "symbols": syms, "data": [], "protos": [], "imports": []},
                  sys.stdout, indent=0)
    finally:
        import shutil
        shutil.rmtree(tmp, ignore_errors=True)


if __name__ == "__main__":
    main()
