#!/usr/bin/env python3
"""C01 corpus and case generator (DESIGN.md section 3, C01).

usage: gen_c01.py OUTDIR TIER    -> OUTDIR/c01_<group>.mir ..., OUTDIR/c01_corpus.json
Library use (props/C01.py): parse_mir(), make_cases(), rewrite_lifted().

The corpus is a list of GROUPS; a group is one textual MIR file (one or more modules) that both native tools load
(tools/mirdump: real MIR_link + generate_icode; tools/mirgen-dump: real MIR_link + MIR_gen).  Sources:
  * /repo/mir-tests/test*.mir that both tools can load and whose functions the harness can drive (see EXCLUDED),
  * /verif/corpus/*.mir (hand written, annotated),
  * families generated here, deterministic from VERIF_SEED (the seed picks constants, operators, displacements).

Annotations (MIR comments) tell the harness how to drive a function:
  # C01: <func> <arg>=buf<k>        pointer argument: address of byte 16 of harness buffer k (arbitrary contents)
  # C01: <func> <arg>=buf<k>+sym    ... plus a symbolic offset in {0,4,8,12,16} (aliasing with other pointers into buffer k)
  # C01: <func> <arg>=<lo>..<hi>    integer argument restricted to [lo,hi] (trip counts, switch index, alloca size)
  # C01: <func> nores=1             results are not compared (e.g. the function returns a stack address)
  # C01: <func> skip=<reason>       function is not driven (reason goes to the evidence)
  # C01: <func> heavy=1             needs the SMT back end (multiplier/divider or fp arithmetic on symbolic values)
  # C01: <func> fp=1                fp arithmetic on symbolic values (same IEEE operator on both sides): CaDiCaL, long timeout
  # C01: <func> tier=thorough       not part of the quick tier
Everything else is derived from the MIR text (prototype of the function, prototypes of the calls to imports)."""
import json
import os
import random
import re
import sys

REPO = os.environ.get("VERIF_REPO", "/repo")
VERIF = os.path.dirname(os.path.dirname(os.path.abspath(__file__)))

INT_TYPES = ("i8", "u8", "i16", "u16", "i32", "u32", "i64", "u64", "p")
ALL_TYPES = INT_TYPES + ("f", "d", "ld")
MIR_T = {"i8": "MIR_T_I8", "u8": "MIR_T_U8", "i16": "MIR_T_I16", "u16": "MIR_T_U16", "i32": "MIR_T_I32", "u32": "MIR_T_U32",
         "i64": "MIR_T_I64", "u64": "MIR_T_U64", "p": "MIR_T_P", "f": "MIR_T_F", "d": "MIR_T_D", "ld": "MIR_T_LD"}

# mir-tests that are not used, and why (reported in the evidence)
EXCLUDED_TESTS = {
    "test3": "endless loop by construction (no input reaches a ret within any bound)",
    "test9": "va_arg on the callee side: the generated code calls the va_arg builtin (gcc-compiled C walking the va_list) - C06's subject",
    "test10": "loop of 1 000 000 iterations (far beyond any loop bound)",
    "test11": "the generator rejects it: gen_assert (n < MAX_INSN_RELOAD_MEM_OPS) fails at every level (README-E3 section 6, item 3)",
    "test13": "passes the ADDRESS of an external to printf (addresses of externals differ between the two dumps by construction)",
    "test15": "block-type (blk) arguments: by-value aggregate passing is C05/C06's subject, not driven here",
    "test16": "va_block_arg builtin + blk argument",
}


# --------------------------------------------------------------------------------------------------------------------
# parsing of textual MIR (only what the harness needs: functions, prototypes, imports, calls to imports, annotations)
# --------------------------------------------------------------------------------------------------------------------
def _split_ops(s):
    out, cur, depth, instr = [], "", 0, False
    for ch in s:
        if instr:
            cur += ch
            if ch == '"' and not cur.endswith('\\"'):
                instr = False
            continue
        if ch == '"':
            instr = True
            cur += ch
        elif ch == "(":
            depth += 1
            cur += ch
        elif ch == ")":
            depth -= 1
            cur += ch
        elif ch == "," and depth == 0:
            out.append(cur.strip())
            cur = ""
        elif ch == "#" and depth == 0:
            break
        else:
            cur += ch
    if cur.strip():
        out.append(cur.strip())
    return out


def _parse_sig(ops):
    res, args, vararg = [], [], False
    for o in ops:
        if o == "...":
            vararg = True
        elif ":" in o:
            t, n = o.split(":", 1)
            args.append({"type": t.strip(), "name": n.strip()})
        else:
            res.append(o.strip())
    return res, args, vararg


def parse_mir(text):
    funcs, protos, imports, ann = [], {}, set(), {}
    ext_proto, conflicts = {}, set()
    cur = None
    for raw in text.splitlines():
        m = re.match(r"\s*#\s*C01:\s*(\S+)\s+(.*)$", raw)
        if m:
            d = ann.setdefault(m.group(1), {})
            for kv in m.group(2).split():
                if "=" in kv:
                    k, v = kv.split("=", 1)
                    d[k] = v
            continue
        line = raw.split("#", 1)[0] if '"' not in raw else raw
        m = re.match(r"\s*(?:([A-Za-z_.$][\w.$]*)\s*:)?\s*([a-z_0-9]+)\b\s*(.*)$", line)
        if not m:
            continue
        lab, op, rest = m.group(1), m.group(2), m.group(3)
        if op == "func" and lab:
            res, args, va = _parse_sig(_split_ops(rest))
            cur = {"name": lab, "res": res, "args": args, "vararg": va, "ext_called": [], "calls": []}
            funcs.append(cur)
        elif op == "endfunc":
            cur = None
        elif op == "proto" and lab:
            res, args, va = _parse_sig(_split_ops(rest))
            protos[lab] = {"res": res, "args": args, "vararg": va}
        elif op == "import":
            for n in _split_ops(rest):
                imports.add(n)
        elif op in ("call", "inline", "jcall") and cur is not None:
            ops = _split_ops(rest)
            if len(ops) >= 2:
                cur["calls"].append(ops[1])
                if ops[1] in imports:
                    cur["ext_called"].append(ops[1])
                    if ops[1] in ext_proto and ext_proto[ops[1]] != ops[0]:
                        conflicts.add(ops[1])
                    ext_proto[ops[1]] = ops[0]
    externs = {}
    for e, p in ext_proto.items():
        if p in protos:
            externs[e] = dict(protos[p], conflict=(e in conflicts))
    return {"funcs": funcs, "protos": protos, "imports": sorted(imports), "externs": externs, "ann": ann}


# --------------------------------------------------------------------------------------------------------------------
# generated families
# --------------------------------------------------------------------------------------------------------------------
class Fam:
    def __init__(self, name, rng, **opts):
        self.name, self.rng, self.opts = name, rng, opts
        self.lines = ["m_%s: module" % name]
        self.nlab = 0
        self.nfunc = 0

    def lab(self):
        self.nlab += 1
        return "L%s%d" % (self.name, self.nlab)

    def raw(self, *ls):
        self.lines += list(ls)

    def func(self, name, sig, body, **ann):
        if ann:
            self.lines.append("# C01: %s %s" % (name, " ".join("%s=%s" % kv for kv in ann.items())))
        self.lines.append("%s: func %s" % (name, sig))
        self.lines += ["  " + b for b in body]
        self.lines.append("  endfunc")
        self.nfunc += 1

    def text(self):
        return "\n".join(self.lines + ["  endmodule"]) + "\n"


BOUNDARY = [0, 1, -1, 2, 127, -128, 255, 0x7fff, 0x7fffffff, -0x80000000, 0xffffffff, 0x100000000, 0x7fffffffffffffff,
            -0x8000000000000000, 63, 31, 32, 0x80000000]


def fam_cfg(rng, tier):
    g = Fam("cfg", rng)
    ops = ["add", "sub", "xor", "and", "or"]
    o1, o2, o3 = rng.sample(ops, 3)
    c1, c2 = rng.choice([3, 5, 9, 17]), rng.choice([7, 11, 100, -13])
    L1, L2 = g.lab(), g.lab()
    g.func("diamond", "i64, i64:a, i64:b",
           ["local i64:r", "bgt %s, a, b" % L1, "%s r, a, b" % o1, "jmp %s" % L2, "%s:" % L1, "%s r, b, %d" % (o2, c1), "%s:" % L2, "%s r, r, a" % o3, "ret r"])
    L1, L2, L3 = g.lab(), g.lab(), g.lab()
    g.func("diamond32", "i32, i32:a, i32:b",
           ["local i64:r, i64:t", "ublts %s, a, b" % L1, "subs r, a, b", "jmp %s" % L2, "%s:" % L1, "adds r, b, %d" % c2, "%s:" % L2,
            "lshs t, r, 3", "bges %s, t, a" % L3, "xors r, r, t", "%s:" % L3, "ret r"])
    L1, L2 = g.lab(), g.lab()
    g.func("loop1", "i64, i64:a, i64:n",
           ["local i64:s, i64:i", "mov s, a", "mov i, 0", "%s:" % L1, "bge %s, i, n" % L2, "add s, s, i", "xor s, s, %d" % c1, "add i, i, 1", "jmp %s" % L1,
            "%s:" % L2, "ret s"], n="0..4")
    L1, L2, L3, L4 = g.lab(), g.lab(), g.lab(), g.lab()
    g.func("nested", "i64, i64:a, i64:n, i64:m",
           ["local i64:s, i64:i, i64:j, i64:t", "mov s, a", "mov i, 0", "%s:" % L1, "bge %s, i, n" % L4, "mov j, 0", "%s:" % L2, "bge %s, j, m" % L3,
            "lsh t, i, 2", "add t, t, j", "add s, s, t", "add j, j, 1", "jmp %s" % L2, "%s:" % L3, "add i, i, 1", "jmp %s" % L1, "%s:" % L4, "ret s"],
           n="0..2", m="0..2")
    L1, L2, L3 = g.lab(), g.lab(), g.lab()
    g.func("irreducible", "i64, i64:a, i64:b, i64:n",
           ["local i64:x, i64:i", "mov x, a", "mov i, 0", "bt %s, b" % L2, "%s:" % L1, "add x, x, %d" % c1, "%s:" % L2, "add x, x, b", "add i, i, 1",
            "blt %s, i, n" % L1, "ret x"], n="0..3")
    labs = [g.lab() for _ in range(5)]
    g.func("switch4", "i64, i64:i, i64:a",
           ["local i64:r", "switch i, %s, %s, %s, %s" % tuple(labs[:4]), "%s:" % labs[0], "add r, a, 1", "jmp %s" % labs[4], "%s:" % labs[1], "sub r, a, %d" % c2,
            "jmp %s" % labs[4], "%s:" % labs[2], "lsh r, a, 2", "jmp %s" % labs[4], "%s:" % labs[3], "ret 77", "%s:" % labs[4], "ret r"], i="0..3")
    L1, L2, L3 = g.lab(), g.lab(), g.lab()
    g.func("laddr_jmpi", "i64, i64:a, i64:b",
           ["local i64:r", "laddr r, %s" % L1, "bt %s, a" % L2, "laddr r, %s" % L3, "%s:" % L2, "jmpi r", "%s:" % L1, "add b, b, 1", "ret b", "%s:" % L3, "sub b, b, 3", "ret b"])
    # compare results materialised as values + branches on them
    L1 = g.lab()
    g.func("cmpval", "i64, i64:a, i64:b",
           ["local i64:x, i64:y, i64:r", "lts x, a, b", "ule y, a, b", "add r, x, y", "bf %s, x" % L1, "add r, r, 10", "%s:" % L1, "ret r"])
    if tier == "thorough":
        L1, L2 = g.lab(), g.lab()
        g.func("loop_down", "i64, i64:a, i64:n", ["local i64:s", "mov s, 0", "%s:" % L1, "ble %s, n, 0" % L2, "add s, s, a", "sub n, n, 1", "jmp %s" % L1, "%s:" % L2, "ret s"], n="0..4")
        L1, L2, L3 = g.lab(), g.lab(), g.lab()
        g.func("two_exits", "i64, i64:a, i64:b, i64:n",
               ["local i64:i", "mov i, 0", "%s:" % L1, "bge %s, i, n" % L2, "beq %s, a, i" % L3, "add a, a, b", "add i, i, 1", "jmp %s" % L1, "%s:" % L2, "ret a", "%s:" % L3, "ret -1"], n="0..3")
    return g


def fam_mem(rng, tier):
    g = Fam("mem", rng)
    d1 = rng.choice([0, 8, -8, 16])
    # store then load through every operand form; result types of every width
    forms = [("b", "(p)"), ("db", "%d(p)" % (8 + d1)), ("bi", "(p, ix)"), ("dbi2", "4(p, ix, 2)"), ("bi4", "(p, ix, 4)"), ("dbi8", "-8(p, ix, 8)")]
    widths = [("i8", "i8"), ("u8", "u8"), ("i16", "i16"), ("u16", "u16"), ("i32", "i32"), ("u32", "u32"), ("i64", "i64")]
    k = 0
    for fn, syn in forms:
        # quick: three functions in all (they all hit the same known store-to-load forwarding defect at -O2, and a failing
        # obligation costs minutes: CBMC builds the counterexample trace through the whole interpreter state)
        # thorough: two widths per form (every width and both signs appear over the six forms)
        sel = [widths[(2 * k + 1) % len(widths)], widths[(2 * k + 4) % len(widths)]] if tier == "thorough" else \
              ([widths[(2 * k + 1) % len(widths)]] if k in (0, 3, 5) else [])
        for t, _ in sel:
            # store v narrow, load it back with extension, add a full-width load of the containing word (aliasing)
            g.func("stld_%s_%s" % (t, fn), "i64, p:p, i64:ix, i64:v",
                   ["local i64:r, i64:w", "mov %s:%s, v" % (t, syn), "mov r, %s:%s" % (t, syn), "mov w, i64:(p)", "add r, r, w", "ret r"], p="buf0", ix="-1..1")
        k += 1
    # partial overlap: wide store, narrow store into it, wide load (store-to-load forwarding must see the narrow store)
    g.func("overlap", "i64, p:p, i64:a, i64:b", ["local i64:r", "mov i64:(p), a", "mov i8:3(p), b", "mov i16:6(p), b", "mov r, i64:(p)", "ret r"], p="buf0")
    # dead store / store overwritten, with an intervening load through another pointer that may alias
    g.func("dead_store", "i64, p:p, p:q, i64:a, i64:b", ["local i64:r, i64:t", "mov i64:(p), a", "mov t, i64:(q)", "mov i64:(p), b", "mov r, i64:(p)", "add r, r, t", "ret r"],
           p="buf0", q="buf0+sym")
    # two pointers that may alias: load, store through the other, reload (GVN must not reuse the first load)
    g.func("alias_reload", "i64, p:p, p:q, i64:a", ["local i64:x, i64:y", "mov x, i32:(p)", "mov i32:(q), a", "mov y, i32:(p)", "sub x, x, y", "ret x"], p="buf0", q="buf0+sym")
    # same address, different widths/signs: redundant load elimination must keep the extension apart
    g.func("reload_width", "i64, p:p", ["local i64:x, i64:y, i64:z", "mov x, i8:1(p)", "mov y, u8:1(p)", "mov z, u16:(p)", "lsh x, x, 1", "add x, x, y", "xor x, x, z", "ret x"], p="buf0")
    # stores in a diamond, load after the join
    L1, L2 = g.lab(), g.lab()
    g.func("store_diamond", "i64, p:p, i64:c, i64:a", ["local i64:r", "mov i64:8(p), a", "bf %s, c" % L1, "mov i32:8(p), 5", "jmp %s" % L2, "%s:" % L1, "mov i16:10(p), c", "%s:" % L2, "mov r, i64:8(p)", "ret r"], p="buf0")
    # compare insns with a memory operand and an immediate / register (the x86 patterns have separate memory forms per width)
    cm = [("eqs", "i32", 5), ("nes", "u32", -1), ("lts", "i32", 0), ("ules", "u32", 127), ("eq", "i64", 5), ("ult", "i64", -128), ("ges", "i32", 128), ("gt", "i64", 0x7fffffff)]
    if tier == "quick":
        cm = cm[:5]
    for k in range(0, len(cm), 2):
        body = ["local i64:r, i64:t", "mov r, 0"]
        for j, (op, t, imm) in enumerate(cm[k:k + 2]):
            body += ["%s t, %s:%d(p), %d" % (op, t, 8 * j, imm), "lsh r, r, 1", "or r, r, t", "%s t, a, %s:%d(p)" % (op, t, 16 + 8 * j), "lsh r, r, 1", "or r, r, t"]  # distinct cells: a shared load would stay a register
        body.append("ret r")
        g.func("cmpmem%d" % (k // 2), "i64, p:p, i64:a", body, p="buf0")
    # fp / long double moves through memory
    g.func("fpmem", "d, p:p, d:x, f:y", ["local d:r, f:t", "dmov d:(p), x", "fmov f:12(p), y", "dmov r, d:8(p)", "fmov t, f:4(p)", "fmov f:16(p), t", "ret r"], p="buf0")
    g.func("ldmem", "ld, p:p, ld:x", ["local ld:r", "ldmov r, ld:16(p)", "ldmov ld:(p), x", "ret r"], p="buf0")
    # memory-to-memory insn forms (dst and src in memory)
    g.func("mem2mem", "i64, p:p, p:q, i64:a", ["local i64:r", "add i64:(p), i64:(p), a", "sub i32:8(q), i32:8(p), 3", "mov r, i64:(q)", "ret r"], p="buf0", q="buf1")
    return g


def fam_pressure(rng, tier):
    g = Fam("pressure", rng, buf_bytes=256, maxregs=96)
    n = 18
    body = ["local " + ", ".join("i64:v%d" % i for i in range(n)) + ", i64:r"]
    for i in range(n):
        body.append("mov v%d, i64:%d(p)" % (i, 8 * i))
    # all n values live here; use them in reverse order, interleaved with arithmetic on a
    body.append("mov r, a")
    perm = list(range(n))
    rng.shuffle(perm)
    for j, i in enumerate(perm):
        body.append("%s r, r, v%d" % (["add", "xor", "sub"][j % 3], i))
        if j % 5 == 4:
            body.append("mov i64:%d(p), r" % (8 * i))
    body.append("ret r")
    g.func("int18", "i64, p:p, i64:a", body, p="buf0")
    # 16 doubles live at once (moves only + one addition), values written back permuted
    m = 16
    body = ["local " + ", ".join("d:w%d" % i for i in range(m)) + ", d:r"]
    for i in range(m):
        body.append("dmov w%d, d:%d(p)" % (i, 8 * i))
    perm = list(range(m))
    rng.shuffle(perm)
    for i in range(m):
        body.append("dmov d:%d(p), w%d" % (8 * perm[i], i))
    body += ["dadd r, w0, w%d" % (m - 1), "ret r"]
    g.func("fp16", "d, p:p", body, p="buf0", fp="1", tier="thorough")  # 2.4 M variables / 11.8 M clauses per path
    # values live across an external call: callee-saved registers + spills.  Data movement only (the values come from
    # memory and go back permuted after the call) - an add/xor chain over 10 terms sharing one variable cost MiniSat 420 s
    g.raw("xp_live: proto i64, i64:x", "import xlive")
    k = 10
    body = ["local " + ", ".join("i64:v%d" % i for i in range(k)) + ", i64:r, i64:c"]
    for i in range(k):
        body.append("mov v%d, i64:%d(p)" % (i, 8 * i))
    body += ["call xp_live, xlive, c, a"]
    perm = list(range(k))
    rng.shuffle(perm)
    for i in range(k):
        body.append("mov i64:%d(p), v%d" % (8 * perm[i], i))
    body += ["add r, c, v0", "xor r, r, a", "ret r"]
    g.func("live_across_call", "i64, p:p, i64:a", body, p="buf0")
    return g


def fam_alloca(rng, tier):
    g = Fam("alloca", rng)
    g.func("alloca_const", "i64, i64:a, i64:b", ["local i64:p, i64:r", "alloca p, 32", "mov i64:(p), a", "mov i64:8(p), b", "mov i32:20(p), a", "add r, i64:(p), i64:8(p)", "add r, r, i32:20(p)", "ret r"])
    g.func("alloca_var", "i64, i64:n, i64:a", ["local i64:p, i64:sz, i64:r", "lsh sz, n, 3", "alloca p, sz", "mov i64:(p), a", "mov i64:-8(p, n, 8), n", "add r, i64:(p), i64:-8(p, n, 8)", "ret r"], n="1..4")
    # overlapping stores of different widths into one alloca block, then a load (dead-store elimination / store-to-load forwarding
    # decide on [offset, offset+size) intersections of alloca-based memory)
    shapes = [("i64", 0, "u32", 4, "u16", 4), ("i64", 0, "u8", 7, "i64", 0), ("u32", 4, "i64", 0, "u32", 4), ("u16", 2, "u8", 3, "i32", 0),
              ("i64", 8, "u16", 6, "i64", 0), ("u8", 8, "i64", 1, "i64", 8)]
    if tier == "quick":
        shapes = shapes[:4]
    for k, (t1, o1, t2, o2, tl, ol) in enumerate(shapes):
        g.func("alloca_ovl%d" % k, "i64, i64:a, i64:b", ["local i64:p, i64:r", "alloca p, 16", "mov i64:(p), a", "mov i64:8(p), a", "mov %s:%d(p), a" % (t1, o1), "mov %s:%d(p), b" % (t2, o2),
                                                       "mov r, %s:%d(p)" % (tl, ol), "ret r"])
    g.func("alloca_two", "i64, i64:a, i64:b", ["local i64:p, i64:q, i64:r", "alloca p, 16", "alloca q, 24", "mov i64:(p), a", "mov i64:16(q), b", "mov i64:8(p), 3", "sub r, i64:(p), i64:16(q)", "add r, r, i64:8(p)", "ret r"])
    return g


def fam_ovf(rng, tier):
    g = Fam("ovf", rng)
    combos = [("addo", "bo"), ("subo", "bno"), ("addo", "ubo"), ("subo", "ubno"), ("addos", "bo"), ("subos", "ubo")]
    if tier == "thorough":
        combos += [("addos", "ubno"), ("subos", "bno"), ("addo", "bno"), ("subo", "ubo")]
    for op, br in combos:
        L1 = g.lab()
        g.func("%s_%s" % (op, br), "%s, i64, i64:a, i64:b" % ("i32" if op.endswith("s") else "i64"),
               ["local i64:r", "%s r, a, b" % op, "%s %s" % (br, L1), "ret r, 0", "%s:" % L1, "add r, r, 1", "ret r, 1"])
    # multiply-with-overflow on symbolic operands through BOTH engines: no verdict in 900 s at any level (measured, z3 and SAT back ends);
    # the flag semantics of the mulo family are decided per engine by C02 (generated-code leg); here only with VERIF_DEEP=1
    for op, br in ([("mulo", "bo"), ("umulo", "ubo"), ("mulos", "bno"), ("umulos", "ubno")] if os.environ.get("VERIF_DEEP") == "1" else []):
        L1 = g.lab()
        g.func("%s_%s" % (op, br), "%s, i64, i64:a, i64:b" % ("i32" if op.endswith("s") else "i64"),
               ["local i64:r", "%s r, a, b" % op, "%s %s" % (br, L1), "ret r, 0", "%s:" % L1, "ret r, 1"], heavy="1", tier="thorough")
    # overflow insn with an immediate, flag consumed after an unrelated mov
    L1 = g.lab()
    g.func("addo_imm", "i64, i64:a", ["local i64:r, i64:t", "addo r, a, %d" % rng.choice([1, 0x7fffffff, -1]), "bo %s" % L1, "ret r", "%s:" % L1, "ret 0"])
    return g


def fam_mix(rng, tier):
    g = Fam("mix", rng)
    c = rng.choice([3, 10, 1000])
    g.func("w32_64", "i64, i64:a, i64:b", ["local i64:t, i64:u, i64:r", "adds t, a, b", "ext32 u, t", "lsh r, u, 4", "uext32 t, t", "add r, r, t", "rshs u, a, 5", "ext32 u, u", "xor r, r, u", "ret r"])
    g.func("ext_chain", "i64, i64:a", ["local i64:x, i64:y, i64:z", "ext8 x, a", "uext16 y, a", "ext16 z, a", "add x, x, y", "sub x, x, z", "uext8 y, x", "add x, x, y", "ret x"])
    g.func("i2d_cmp", "i64, i64:a, d:x", ["local d:t, i64:r, i64:u", "ext32 u, a", "i2d t, u", "dlt r, t, x", "ret r"])
    g.func("fd_mix", "d, f:x, d:y", ["local d:t, d:r", "f2d t, x", "dadd r, t, y", "ret r"], fp="1", tier="thorough")
    g.func("f_arith", "f, f:x, f:y", ["local f:r", "fmul r, x, y", "fsub r, r, x", "ret r"], fp="1", tier="thorough")
    g.func("d_const", "d, d:x", ["local d:r", "dmul r, x, %s" % rng.choice(["2.5", "0.1", "-3.0"]), "ret r"], fp="1")
    L1 = g.lab()
    g.func("fcmp_br", "i64, f:x, f:y, i64:a", ["local i64:r", "mov r, a", "fbge %s, x, y" % L1, "add r, r, %d" % c, "%s:" % L1, "ret r"])
    g.func("shifts", "i64, i64:a, i64:n", ["local i64:r, i64:t", "lsh r, a, n", "ursh t, a, n", "xor r, r, t", "rsh t, a, 7", "add r, r, t", "urshs t, a, 3", "uext32 t, t", "add r, r, t", "ret r"], n="0..63")
    g.func("divmod", "i64, i64:a, i64:b", ["local i64:q, i64:r", "udiv q, a, b", "umod r, a, b", "add q, q, r", "ret q"], b="1..1000", heavy="1", tier="thorough")
    g.func("mul3", "i64, i64:a, i64:b", ["local i64:r", "mul r, a, %d" % rng.choice([3, 5, 9, 24, 1000]), "muls b, b, 16", "ext32 b, b", "add r, r, b", "ret r"], heavy="1")
    # 32-bit multiply by 2^32 with a symbolic operand: regression case of the strength-reduction defect found by C02
    # gen.O2.i3_MULS_imm4294967296 (repaired in /repo 30843c6d: -O2/-O3 emitted shl eax,32)
    g.func("muls_pow2_32", "i32, i64:a", ["local i64:r", "muls r, a, 4294967296", "ret r"])
    g.func("ld_arith", "ld, ld:x, ld:y", ["local ld:r", "ldadd r, x, y", "ldneg r, r", "ret r"], fp="1", tier="thorough")
    return g


def fam_calls(rng, tier):
    g = Fam("calls", rng)
    g.raw("import xa, xb, xc, xd",
          "xp_a: proto i64, i64:x, i32:y",
          "xp_b: proto i32, u8:x, i16:y, p:z",
          "xp_c: proto d, d:x, f:y, i64:z",
          "xp_d: proto i64, i64:a1, i64:a2, i64:a3, i64:a4, i64:a5, i64:a6, i64:a7, i32:a8, d:a9")
    g.func("ext_live", "i64, i64:a, i64:b", ["local i64:r, i64:t", "add t, a, b", "call xp_a, xa, r, a, b", "add r, r, t", "sub r, r, a", "ret r"])
    g.func("ext_narrow", "i64, i64:a, i64:b, p:p", ["local i64:r", "call xp_b, xb, r, a, b, p", "add r, r, a", "ret r"], p="buf0")
    g.func("ext_fp", "d, d:x, f:y, i64:a", ["local d:r", "call xp_c, xc, r, x, y, a", "ret r"])
    g.func("ext_stack_args", "i64, i64:a, i64:b, d:x", ["local i64:r", "call xp_d, xd, r, a, b, 3, a, b, 6, a, b, x", "add r, r, b", "ret r"])
    L1, L2 = g.lab(), g.lab()
    g.func("ext_two", "i64, i64:a, i64:b", ["local i64:r, i64:s", "call xp_a, xa, r, a, b", "bf %s, r" % L1, "call xp_a, xa, s, r, a", "add r, r, s", "%s:" % L1, "ret r"])
    # calls between MIR functions
    g.func("callee_add", "i64, i64:x, i64:y", ["local i64:r", "add r, x, y", "lsh r, r, 1", "ret r"])
    g.func("callee_narrow", "i32, i8:x, u16:y, i32:z", ["local i64:r", "add r, x, y", "adds r, r, z", "ret r"])
    g.raw("mp_add: proto i64, i64:x, i64:y", "mp_narrow: proto i32, i8:x, u16:y, i32:z")
    g.func("caller_call", "i64, i64:a, i64:b", ["local i64:r, i64:s", "call mp_add, callee_add, r, a, b", "call mp_add, callee_add, s, r, a", "sub r, s, b", "ret r"])
    g.func("caller_inline", "i64, i64:a, i64:b", ["local i64:r", "inline mp_add, callee_add, r, a, b", "add r, r, a", "ret r"])
    g.func("caller_narrow", "i64, i64:a, i64:b, i64:c", ["local i64:r", "call mp_narrow, callee_narrow, r, a, b, c", "add r, r, a", "ret r"])
    L1, L2 = g.lab(), g.lab()
    g.func("call_in_loop", "i64, i64:a, i64:n", ["local i64:i, i64:s", "mov s, a", "mov i, 0", "%s:" % L1, "bge %s, i, n" % L2, "call mp_add, callee_add, s, s, i", "add i, i, 1", "jmp %s" % L1, "%s:" % L2, "ret s"], n="0..2")
    g.func("mir_then_ext", "i64, i64:a, i64:b", ["local i64:r, i64:s", "call mp_add, callee_add, r, a, b", "call xp_a, xa, s, r, b", "add r, r, s", "ret r"])
    return g


FOLD_OPS = ["add", "sub", "mul", "and", "or", "xor", "eq", "ne", "lt", "ult", "le", "ule", "gt", "ugt", "ge", "uge",
            "adds", "subs", "muls", "ands", "ors", "xors", "eqs", "nes", "lts", "ults", "les", "ules", "gts", "ugts", "ges", "uges"]
FOLD_DIV = ["div", "udiv", "mod", "umod", "divs", "udivs", "mods", "umods"]
FOLD_SH = ["lsh", "rsh", "ursh", "lshs", "rshs", "urshs"]


def _div_defined(op, a, b):
    s = op.endswith("s") and op not in ("lts",)
    if op in ("divs", "udivs", "mods", "umods"):
        a32, b32 = a & 0xffffffff, b & 0xffffffff
        if b32 == 0:
            return False
        if op in ("divs", "mods") and a32 == 0x80000000 and b32 == 0xffffffff:
            return False
        return True
    if b & 0xffffffffffffffff == 0:
        return False
    if op in ("div", "mod") and a & 0xffffffffffffffff == 0x8000000000000000 and b & 0xffffffffffffffff == 0xffffffffffffffff:
        return False
    return True


def fam_fold(rng, tier):
    """mov a,C1; mov b,C2; op r,a,b for boundary constants: GVN folds these at -O2/-O3 (mir-gen.c gvn_modify); results go to
    a buffer (8 per function) so that the byte-for-byte buffer comparison covers all of them; x keeps one symbolic operand."""
    g = Fam("fold", rng)
    triples = []
    nper = 24 if tier == "thorough" else 6
    for op in FOLD_OPS:
        for _ in range(nper // 6 if tier == "quick" else 3):
            triples.append((op, rng.choice(BOUNDARY), rng.choice(BOUNDARY)))
    for op in FOLD_DIV:
        n = 0
        while n < (6 if tier == "thorough" else 2):
            a, b = rng.choice(BOUNDARY), rng.choice(BOUNDARY)
            if _div_defined(op, a, b):
                triples.append((op, a, b))
                n += 1
    for op in FOLD_SH:
        for _ in range(4 if tier == "thorough" else 1):
            triples.append((op, rng.choice(BOUNDARY), rng.choice([0, 1, 5, 31] + ([32, 63] if not op.endswith("s") else []))))
    # every compare opcode on pairs that tell signed from unsigned and 32-bit from 64-bit (a fold table has one entry per opcode)
    for op in FOLD_OPS:
        if op.rstrip("s") in ("eq", "ne", "lt", "ult", "le", "ule", "gt", "ugt", "ge", "uge") and op not in ("adds", "subs", "muls", "ands", "ors", "xors"):
            for a, b in ((1, -1), (0x80000000, 0x7fffffff), (0x100000001, 2)) + (((-0x8000000000000000, 1), (-1, -1)) if tier == "thorough" else ()):
                triples.append((op, a, b))
    # the known-wrong strength reduction candidate shapes: 32-bit multiply by 2^k, k >= 32, and by 2^31
    triples += [("muls", 5, 0x100000000), ("muls", 0x100000000, 7), ("muls", 3, 0x80000000), ("mul", 3, -0x8000000000000000)]
    per = 8
    k = 0
    for i in range(0, len(triples), per):
        chunk = triples[i:i + per]
        body = ["local i64:a, i64:b, i64:r, i64:s", "mov s, x"]
        for j, (op, a, b) in enumerate(chunk):
            body += ["mov a, %d" % a, "mov b, %d" % b, "%s r, a, b" % op, "mov i64:%d(p), r" % (8 * j), "xor s, s, r"]
        body.append("ret s")
        # 32-bit results have an undefined upper half: the function stores the full register, so mask S results first
        fixed = []
        for line in body:
            fixed.append(line)
            m = re.match(r"(\w+) r, a, b$", line)
            if m and m.group(1).endswith("s") and m.group(1) not in ("les", "ges", "nes", "lts", "gts", "eqs", "ults", "ules", "ugts", "uges"):
                fixed.append("uext32 r, r")
        g.func("fold%d" % k, "i64, p:p, i64:x", fixed, p="buf0")
        k += 1
    return g


def fam_passes(rng, tier):
    """Shapes aimed at single optimisation passes; group option all_levels: run at -O0..-O3 in BOTH tiers (-O1-only and -O3-only
    transformations exist: the post-RA ext combiner, LICM)."""
    g = Fam("passes", rng, all_levels=1)
    # LICM: a trapping insn with loop-invariant operands behind a zero-divisor guard inside a loop must not be hoisted past the guard
    for op in ("udiv", "umod", "udivs", "umods"):
        L1, L2, L3 = g.lab(), g.lab(), g.lab()
        g.func("licm_guard_" + op, "i64, i64:n, i64:a, i64:d",
               ["local i64:i, i64:s, i64:t", "mov i, 0", "mov s, 0", "%s:" % L1, "bge %s, i, n" % L3, "beq%s %s, d, 0" % ("s" if op.endswith("s") else "", L2),
                "%s t, a, d" % op] + (["uext32 t, t"] if op.endswith("s") else []) + ["add s, s, t", "%s:" % L2, "add i, i, 1", "jmp %s" % L1, "%s:" % L3, "ret s"], n="0..2", d="0..3", heavy="1")
    # chained extensions with the first source redefined in between (ext combiner must not look through a stale definition)
    for k, (e1, e2) in enumerate((("ext16", "ext8"), ("uext16", "ext8"), ("ext32", "uext16"), ("uext8", "ext16"))):
        g.func("ext_chain%d" % k, "i64, i64:a", ["local i64:b, i64:c", "%s b, a" % e1, "add a, a, 1", "%s c, b" % e2, "xor c, c, a", "ret c"])
    # copy of a value, source redefined, copy used (copy propagation across a redefinition)
    g.func("copy_redef", "i64, i64:a, i64:x", ["local i64:b, i64:c", "mov b, a", "add a, a, x", "mov c, b", "lsh c, c, 1", "xor c, c, a", "ret c"])
    return g


def fam_foldtrap(rng, tier):
    """Constant operands of a division that is NEVER EXECUTED (guarded by a branch the harness never takes): the program
    has no undefined behaviour, so the generator must compile it.  One group per shape: a crash of the dump tool
    (the real generator) is isolated and reported as a finding."""
    out = []
    shapes = [("div_min_m1", "div", -0x8000000000000000, -1), ("divs_lowzero", "divs", 5, 0x100000000), ("divs_min_m1", "divs", -0x80000000, -1),
              ("mod_zero", "mod", 5, 0), ("udivs_lowzero", "udivs", 9, 0x100000000), ("mods_min_m1", "mods", -0x80000000, -1)]
    for name, op, a, b in shapes:
        g = Fam("trap_" + name, rng)
        L1 = g.lab()
        g.func("guarded_" + name, "i64, i64:c, i64:x",
               ["local i64:a, i64:b, i64:r", "mov r, x", "bf %s, c" % L1, "mov a, %d" % a, "mov b, %d" % b, "%s r, a, b" % op, "%s:" % L1, "ret r"], c="0..0")
        out.append(g)
    return out


def build_corpus(outdir, tier, seed):
    rng = random.Random(seed * 1000003 + 17)
    groups = []

    def add(name, text, source, opts=None):
        path = os.path.join(outdir, "c01_%s.mir" % name)
        with open(path, "w") as f:
            f.write(text)
        groups.append({"name": name, "file": path, "source": source, "opts": opts or {}})

    # 1. mir-tests
    excluded = dict(EXCLUDED_TESTS)
    for i in range(1, 17):
        t = "test%d" % i
        p = os.path.join(REPO, "mir-tests", t + ".mir")
        if t in excluded or not os.path.exists(p):
            continue
        text = open(p).read()
        extra = MIRTEST_ANN.get(t, "")
        add(t, extra + text, "mir-tests/%s.mir" % t, MIRTEST_OPTS.get(t))
    # 2. hand-written corpus
    cdir = os.path.join(VERIF, "corpus")
    if os.path.isdir(cdir):
        for fn in sorted(os.listdir(cdir)):
            if fn.endswith(".mir") and fn.startswith("c01_"):
                add("hand_" + fn[4:-4], open(os.path.join(cdir, fn)).read(), "corpus/" + fn)
    # 3. generated families
    for fam in (fam_cfg, fam_mem, fam_pressure, fam_alloca, fam_ovf, fam_mix, fam_calls, fam_fold, fam_passes):
        g = fam(rng, tier)
        add(g.name, g.text(), "generated family '%s' (VERIF_SEED=%d)" % (g.name, seed), g.opts)
    for g in fam_foldtrap(rng, tier):
        add(g.name, g.text(), "generated family 'foldtrap' (VERIF_SEED=%d)" % seed, g.opts)
    json.dump({"seed": seed, "tier": tier, "groups": groups, "excluded": excluded}, open(os.path.join(outdir, "c01_corpus.json"), "w"), indent=1)
    return groups


MIRTEST_OPTS = {"test14": {"ext_calls": 12}}  # main: 10 printf calls in a loop (default bound: 4 external calls per run)

# annotations for the mir-tests (prepended as comments)
MIRTEST_ANN = {
    "test5": "# C01: alloca nores=1 n=0..64\n",  # returns the address of alloca'd memory: a stack address, not comparable
    "test14": "# C01: f i=0..9\n",               # switch index outside the table is undefined
}


# --------------------------------------------------------------------------------------------------------------------
# case generation (one harness entry per function) and lifted-code post-processing
# --------------------------------------------------------------------------------------------------------------------
def csym(name):
    return re.sub(r"\W", "_", name)


def parse_dump_header(text):
    """what tools/mirdump printed: function order, external order, sections, data items"""
    funcs = re.findall(r'^  \{"([^"]+)", \(func_desc_t\) &h_fd(\d+),', text, re.M)
    m = re.search(r"h_ext_name\[\] = \{(.*?)0\};", text)
    exts = re.findall(r'"([^"]*)"', m.group(1)) if m else []
    secs = {int(i): int(n) for i, n in re.findall(r"^static uint8_t h_sec(\d+)\[(\d+)\]", text, re.M)}
    items = {}
    for mod, name, sec, off, size, typ in re.findall(r"/\* mirdump-item module=(\S+) name=(\S+) sec=(\d+) off=(\d+) size=(\d+) type=(\S+) \*/", text):
        items[(mod, name)] = (int(sec), int(off), int(size), typ)
    return {"funcs": [f for f, _ in funcs], "exts": exts, "secs": secs, "items": items}


def rewrite_lifted(text, dump, hdr):
    """Every absolute address of a data/bss item in the lifted code becomes the address of the same bytes in the section
    arrays of the mirdump header, so that lifted code and interpreter share the objects.  Returns (text, n, problems)."""
    ranges = []
    problems = []
    for d in dump.get("data", []):
        key = (d.get("module"), d["name"])
        if key not in hdr["items"]:
            problems.append("data item %s.%s of the generator dump has no counterpart in the interpreter dump" % key)
            continue
        sec, off, size, typ = hdr["items"][key]
        if typ == "MIR_T_LD":
            problems.append("long double data item %s.%s (x87 bytes are not a CBMC long double)" % key)
        ranges.append((int(d["addr"], 16), d["size"], sec, off))
    n = [0]

    def sub(m):
        v = int(m.group(1), 16)
        for a, size, sec, off in ranges:
            if a <= v < a + max(size, 1):
                n[0] += 1
                return "((uint64_t) (uintptr_t) &h_sec%d[%d])" % (sec, off + (v - a))
        return m.group(0)

    # zeroing idiom `xor r,r` / `sub r,r`: the lifter emits (a ^ b) with a and b read from the same register; CBMC's
    # simplifier does not fold x ^ x, so the register would stay a symbolic EXPRESSION (equal to 0) and every loop counter
    # initialised this way would make each later branch fork a path.  x ^ x == 0 and x - x == 0: substitute the constant.
    text = re.sub(r"(\{ uint(32|64)_t a = (\(uint32_t\) )?s->r\[(\d+)\], b = (\(uint32_t\) )?s->r\[\4\];\n\s+x86_w\2 \(s, \4, x86_logic\2 \(s, \(uint\2_t\) )\(a \^ b\)",
                  lambda m: m.group(1) + "0 /* a ^ a */", text)
    out = []
    for line in text.splitlines():
        if not line.startswith("#define LIFT_SYM_") and not line.lstrip().startswith("/*"):
            line = re.sub(r"\b(0x2[0-9a-f]{11})ull\b", sub, line)
        out.append(line)
    return "\n".join(out) + "\n", n[0], problems


def _narrow_interp(t, v):
    return {"i8": "(int64_t) (int8_t) %s", "u8": "(int64_t) (uint8_t) %s", "i16": "(int64_t) (int16_t) %s", "u16": "(int64_t) (uint16_t) %s",
            "i32": "(int64_t) (int32_t) %s", "u32": "(int64_t) (uint32_t) %s"}.get(t, "(int64_t) %s") % v


def _narrow_abi(t, v, g):
    """what a C caller leaves in the register: the value extended to 32 bits per its type (de-facto gcc/clang convention,
    also what MIR's own call sequences do), bits 32-63 arbitrary"""
    ext = {"i8": "(uint32_t) (int32_t) (int8_t) %s", "u8": "(uint32_t) (uint8_t) %s", "i16": "(uint32_t) (int32_t) (int16_t) %s", "u16": "(uint32_t) (uint16_t) %s",
           "i32": "(uint32_t) %s", "u32": "(uint32_t) %s"}
    if t in ext:
        return "((%s & 0xffffffff00000000ull) | (uint64_t) (%s))" % (g, ext[t] % v)
    return v


def func_supported(f, meta):
    for a in f["args"]:
        if a["type"] not in ALL_TYPES:
            return "argument type %s is not driven by the harness" % a["type"]
    for r in f["res"]:
        if r not in ALL_TYPES:
            return "result type %s" % r
    if f["vararg"]:
        return "variadic function definition (va_* builtins)"
    if sum(1 for r in f["res"] if r in INT_TYPES) > 2 or sum(1 for r in f["res"] if r in ("f", "d")) > 2 or sum(1 for r in f["res"] if r == "ld") > 2:
        return "more results than result registers"
    for e in f["ext_called"]:
        x = meta["externs"].get(e)
        if x is None:
            return "call to %s through a prototype the parser did not find" % e
        if x.get("conflict"):
            return "external %s is called through two different prototypes" % e
        for a in x["args"]:
            if a["type"] not in ALL_TYPES:
                return "external %s takes a %s argument" % (e, a["type"])
        for r in x["res"]:
            if r not in INT_TYPES + ("f", "d"):
                return "external %s returns %s" % (e, r)
    return None


def make_cases(meta, hdr, lifted_names):
    """C text of C01_CASES for one group.  meta = parse_mir(); hdr = parse_dump_header(); lifted_names = names of the lifted
    func regions (to check that both dumps talk about the same functions)."""
    out = ["/* generated by tools/gen_c01.py - do not edit */"]
    secs = sorted(hdr["secs"].items())
    for i, n in secs:
        out.append("static uint8_t c01_sec%d_init[%d], c01_sec%d_interp[%d];" % (i, n, i, n))
    out.append("static void c01_secs_save (void) {")
    for i, n in secs:
        out.append("  memcpy (c01_sec%d_init, h_sec%d, %d);" % (i, i, n))
    out.append("}\nstatic void c01_secs_to_interp_and_restore (void) {")
    for i, n in secs:
        out.append("  memcpy (c01_sec%d_interp, h_sec%d, %d); memcpy (h_sec%d, c01_sec%d_init, %d);" % (i, i, n, i, i, n))
    out.append("}\nstatic int c01_secs_equal (void) {\n  uint64_t d = 0;")
    for i, n in secs:
        out.append("  d |= c01_bytes_diff (c01_sec%d_interp, h_sec%d, %d);" % (i, i, n))
    out.append("  return d == 0;\n}")
    # external call decoders
    out.append("static int c01_ext_call (x86_state *s, uint64_t target) {")
    for k, e in enumerate(hdr["exts"]):
        x = meta["externs"].get(e)
        if x is None or x.get("conflict") or any(a["type"] not in ALL_TYPES for a in x["args"]) or any(r not in INT_TYPES + ("f", "d") for r in x["res"]):
            continue
        out.append("#ifdef LIFT_SYM_%s" % csym(e))
        out.append("  if (target == LIFT_SYM_%s) { /* %s: %s (%s)%s */" % (csym(e), e, ", ".join(x["res"]) or "void", ", ".join(a["type"] for a in x["args"]), ", ..." if x["vararg"] else ""))
        out.append("    c01_ext_begin (s, %d);" % k)
        for a in x["args"]:
            out.append("    c01_ext_arg (s, %s);" % MIR_T[a["type"]])
        out.append("    c01_ext_args_done (s);")
        for i, r in enumerate(x["res"]):
            out.append("    c01_ext_res (s, %s, %d);" % (MIR_T[r], i))
        out.append("    c01_ext_end (s);\n    return 1;\n  }\n#endif")
    out.append("  (void) s; (void) target;\n  return 0;\n}")
    entries = []
    for f in meta["funcs"]:
        ann = meta["ann"].get(f["name"], {})
        why = ann.get("skip") or func_supported(f, meta)
        if f["name"] not in hdr["funcs"]:
            why = why or "function is not in the interpreter dump"
        if f["name"] not in lifted_names:
            why = why or "function is not in the generator dump"
        if why:
            entries.append({"func": f["name"], "skip": why.replace("-", " ")})
            continue
        fid = hdr["funcs"].index(f["name"])
        c = ["void harness_%s (void) {" % csym(f["name"]), "  c01_begin ();"]
        bufs = set()
        interp_set, abi_set = [], []
        ni = nf = 0
        so = 0
        for i, a in enumerate(f["args"]):
            t, spec = a["type"], ann.get(a["name"], "any")
            v = "a%d" % i
            if t in INT_TYPES:
                m = re.match(r"buf(\d+)(\+sym)?$", spec)
                if m:
                    k = int(m.group(1))
                    if k not in bufs:
                        bufs.add(k)
                        c.append("  c01_buf_fill (%d);" % k)
                    if m.group(2):  # symbolic offset 0,4,8,12,16 - case split so that every path has a concrete address
                        c.append("  uint64_t o%d = nd (); H_ASSUME (o%d <= 4);" % (i, i))
                        c.append("  { int hit = 0; for (uint64_t k = 0; k < 4; k++) if (o%d == k) { o%d = k; hit = 1; break; }" % (i, i))
                        c.append("    if (!hit) o%d = 4; }" % i)
                        c.append("  uint64_t %s = C01_BUF_ADDR (%d, 16 + 4 * o%d);" % (v, k, i))
                    else:
                        c.append("  uint64_t %s = C01_BUF_ADDR (%d, 16);" % (v, k))
                else:
                    c.append("  uint64_t %s = nd ();" % v)
                    m = re.match(r"(-?\d+)\.\.(-?\d+)$", spec)
                    if m:
                        c.append("  H_ASSUME ((int64_t) %s >= %sll && (int64_t) %s <= %sll);" % (v, m.group(1), v, m.group(2)))
                        if int(m.group(2)) - int(m.group(1)) <= 16:
                            # case split: under --paths each value of a small range becomes its own path on which the argument is a
                            # constant (trip counts, switch indices: keeps the interpreter's pc concrete); every value is still decided
                            # (the last value needs no test: the assumption above leaves nothing else, so no path keeps a symbolic value)
                            c.append("  { int hit = 0; for (int64_t k = %sll; k < %sll; k++) if ((int64_t) %s == k) { %s = (uint64_t) k; hit = 1; break; }" % (m.group(1), m.group(2), v, v))
                            c.append("    if (!hit) %s = (uint64_t) %sll; }" % (v, m.group(2)))
                g = "0"
                if t in ("i8", "u8", "i16", "u16", "i32", "u32"):
                    c.append("  uint64_t g%d = nd (); /* bits 32-63 of a narrow argument register are arbitrary */" % i)
                    g = "g%d" % i
                interp_set.append("  ia[%d].i = %s;" % (i, _narrow_interp(t, v)))
                val = _narrow_abi(t, v, g)
                if ni < 6:
                    abi_set.append("  c01_s.r[c01_int_reg[%d]] = %s;" % (ni, val))
                    ni += 1
                else:
                    abi_set.append("  X86_M64 (C01_STACK_ARG (%d)) = %s;" % (so, val))
                    so += 8
            elif t in ("f", "d"):
                c.append("  uint64_t %s = nd (); /* %s bit pattern%s */" % (v, "float" if t == "f" else "double", "; bits 32-63 arbitrary" if t == "f" else ""))
                interp_set.append("  ia[%d].%s = %s;" % (i, t, "x86_u2f ((uint32_t) %s)" % v if t == "f" else "x86_u2d (%s)" % v))
                if nf < 8:
                    abi_set.append("  c01_s.xmm[%d][0] = %s;" % (nf, v))
                    nf += 1
                else:
                    abi_set.append("  X86_M64 (C01_STACK_ARG (%d)) = %s;" % (so, v))
                    so += 8
            else:  # ld
                c.append("  long double %s = c01_nd_ld ();" % v)
                interp_set.append("  ia[%d].ld = %s;" % (i, v))
                if so & 15:
                    so += 8
                abi_set.append("  x86_ld_store (C01_STACK_ARG (%d), %s);" % (so, v))
                so += 16
        n = len(f["args"])
        c.append("  MIR_val_t ia[%d], ir[8];" % (n + 1))
        c.append("  memset (ia, 0, sizeof (ia)); memset (ir, 0, sizeof (ir));")
        c += interp_set
        c.append("  c01_interp (%d, ia, ir); /* %s through the real interpreter */" % (fid, f["name"]))
        c.append("  c01_enter ();")
        c += abi_set
        c.append("  c01_lifted (LIFT_%s_THUNK_ADDR); /* the machine code, entered through the function's thunk */" % csym(f["name"]).upper())
        nld = sum(1 for r in f["res"] if r == "ld")
        c.append('  H_ASSERT (c01_s.fdepth == %d, "x87 stack holds exactly the long double results");' % nld)
        if ann.get("nores") != "1":
            ri = rf = rl = 0
            for i, r in enumerate(f["res"]):
                if r in INT_TYPES:
                    reg = "c01_s.r[X86_RAX]" if ri == 0 else "c01_s.r[X86_RDX]"
                    ri += 1
                    cast = {"i8": "(uint8_t)", "u8": "(uint8_t)", "i16": "(uint16_t)", "u16": "(uint16_t)", "i32": "(uint32_t)", "u32": "(uint32_t)"}.get(r, "")
                    c.append('  H_ASSERT (%s ir[%d].u == %s %s, "result %d (%s): equal%s");' % (cast, i, cast, reg, i, r, " on the bits the type defines" if cast else " (all 64 bits)"))
                elif r in ("f", "d"):
                    c.append('  H_ASSERT (c01_same_%s (ir[%d].%s, c01_s.xmm[%d][0]), "result %d (%s): same bits, or both NaN");' % (r, i, r, rf, i, r))
                    rf += 1
                else:
                    c.append('  H_ASSERT (c01_same_ld (ir[%d].ld, X86_ST (&c01_s, %d)), "result %d (ld): same value, or both NaN");' % (i, rl, i))
                    rl += 1
        c.append("  c01_compare_memory_and_logs ();")
        if f["ext_called"]:
            c.append('  if (c01_log_i.n > 0) H_WITNESS ("an external call was executed and logged");')
        c.append('  H_WITNESS ("end");\n}')
        out += c
        entries.append({"func": f["name"], "entry": "harness_" + csym(f["name"]), "skip": None, "nargs": n, "heavy": ann.get("heavy") == "1", "fp": ann.get("fp") == "1",
                        "ext": bool(f["ext_called"]), "calls": bool(f["calls"]), "nores": ann.get("nores") == "1", "thorough_only": ann.get("tier") == "thorough",
                        "sample": "%s(%s) -> %s" % (f["name"], ", ".join("%s:%s%s" % (a["type"], a["name"], "=" + ann[a["name"]] if a["name"] in ann else "") for a in f["args"]),
                                                   ", ".join(f["res"]) or "void")})
    return "\n".join(out) + "\n", entries


def main():
    outdir, tier = sys.argv[1], sys.argv[2]
    os.makedirs(outdir, exist_ok=True)
    seed = int(os.environ.get("VERIF_SEED", "0") or 0)
    groups = build_corpus(outdir, tier, seed)
    nf = 0
    for g in groups:
        nf += len(parse_mir(open(g["file"]).read())["funcs"])
    print("%d groups, %d functions" % (len(groups), nf))


if __name__ == "__main__":
    main()
