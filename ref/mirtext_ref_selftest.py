#!/usr/bin/env python3
"""Validates ref/mirtext_ref.h (the C10 memory-operand reader) on the forms MIR.md shows and on malformed texts.
usage: mirtext_ref_selftest.py [-n N]  (N ignored)"""
import os, subprocess, sys, tempfile

HERE = os.path.dirname(os.path.abspath(__file__))
# text, ok, type, has_disp, base, index, has_scale, alias, nonalias
CASES = [
    ("i64:8", 1, "i64", 1, "", "", 0, "", ""),
    ("u8:(a)", 1, "u8", 0, "a", "", 0, "", ""),
    ("i32:-16(a, b)", 1, "i32", 1, "a", "b", 0, "", ""),
    ("i64:(a, b, 8)", 1, "i64", 0, "a", "b", 1, "", ""),
    ("i64:(, b, 8)", 1, "i64", 0, "", "b", 1, "", ""),
    ("i64:0(, i)", 1, "i64", 1, "", "i", 0, "", ""),
    ("ld:24(r1):al", 1, "ld", 1, "r1", "", 0, "al", ""),
    ("ld:24(r1):al:nal", 1, "ld", 1, "r1", "", 0, "al", "nal"),
    ("f:(r1)::nal", 1, "f", 0, "r1", "", 0, "", "nal"),
    ("i64:(i, 8)", 0, "", 0, "", "", 0, "", ""),        # a scale where an index register must stand
    ("i64:", 0, "", 0, "", "", 0, "", ""),
    ("i64:(a", 0, "", 0, "", "", 0, "", ""),
    ("i64:(a,)", 0, "", 0, "", "", 0, "", ""),
    ("i64:8(a) x", 0, "", 0, "", "", 0, "", ""),
    ("i64 8", 0, "", 0, "", "", 0, "", ""),
]


def main():
    tests = []
    for t, ok, ty, hd, b, i, hs, al, nal in CASES:
        tests.append('  chk ("%s", %d, "%s", %d, "%s", "%s", %d, "%s", "%s");' % (t, ok, ty, hd, b, i, hs, al, nal))
    src = r'''
#include <stdio.h>
#include <string.h>
#include "mirtext_ref.h"
static int bad;
static void chk (const char *t, int ok, const char *ty, int hd, const char *b, const char *i, int hs, const char *al, const char *nal) {
  rt_memop m = rt_read_memop (t, (unsigned) strlen (t));
  int good = m.ok == ok && (!ok || (strcmp (m.type, ty) == 0 && m.has_disp == hd && strcmp (m.base, b) == 0 && strcmp (m.index, i) == 0
                                    && m.has_scale == hs && strcmp (m.alias, al) == 0 && strcmp (m.nonalias, nal) == 0));
  if (!good) { bad++; printf ("MISMATCH on \"%s\": ok=%d type=%s disp=%d base=%s index=%s scale=%d alias=%s nonalias=%s\n", t, m.ok, m.type, m.has_disp, m.base, m.index, m.has_scale, m.alias, m.nonalias); }
}
int main (void) {
''' + "\n".join(tests) + r'''
  printf ("mirtext_ref selftest: %d cases, %d mismatches\n", ''' + str(len(CASES)) + r''', bad);
  return bad != 0;
}
'''
    with tempfile.TemporaryDirectory() as d:
        c = os.path.join(d, "t.c")
        open(c, "w").write(src)
        r = subprocess.run(["gcc", "-O0", "-w", "-I" + HERE, c, "-o", os.path.join(d, "t")], capture_output=True, text=True)
        if r.returncode != 0:
            print(r.stderr[-2000:])
            return 2
        r = subprocess.run([os.path.join(d, "t")], capture_output=True, text=True)
        print(r.stdout[-3000:], end="")
        return r.returncode


if __name__ == "__main__":
    sys.exit(main())
