#!/usr/bin/env python3
"""Validates ref/cfold_ref.h (the C07 fold oracle) against gcc: for random operand types / values / operators the C program
evaluates `(T1) a OP (T2) b` natively (only where cf_fold says the expression is defined) and compares value, width and
signedness of the result with the oracle.  usage: cfold_ref_selftest.py [-n N]"""
import os, random, subprocess, sys, tempfile

HERE = os.path.dirname(os.path.abspath(__file__))
TYPES = ["_Bool", "char", "signed char", "unsigned char", "short", "unsigned short", "int", "unsigned", "long", "unsigned long", "long long", "unsigned long long"]
OPS = ["&", "|", "^", "<<", ">>", "+", "-", "*", "/", "%"]
BOUND = [0, 1, -1, 2, 7, 31, 32, 63, 64, 127, 128, 255, 256, 32767, 32768, 65535, 2**31 - 1, 2**31, 2**32 - 1, 2**32, 2**63 - 1, -2**31, -2**63, -16, 5]


def main():
    n = 400
    if "-n" in sys.argv:
        n = int(sys.argv[sys.argv.index("-n") + 1])
    rnd = random.Random(12345)
    body = []
    for k in range(n):
        t1, t2, op = rnd.randrange(12), rnd.randrange(12), rnd.randrange(10)
        a = rnd.choice(BOUND) if rnd.random() < 0.7 else rnd.getrandbits(64)
        b = rnd.choice(BOUND) if rnd.random() < 0.7 else rnd.getrandbits(64)
        body.append("  T (%d, %d, %s, %d, %d, %s, %s, %dull, %dull);" % (k, op, OPS[op], t1, t2, TYPES[t1], TYPES[t2], a & (2**64 - 1), b & (2**64 - 1)))
    src = r'''
#include <stdio.h>
#include <stdint.h>
#include "cfold_ref.h"
static int bad, defined;
#define T(k, opn, OP, t1, t2, T1, T2, av, bv) do { \
  T1 a = (T1) (av); T2 b = (T2) (bv); uint64_t pa = (uint64_t) a, pb = (uint64_t) b, want; cc_type rt; \
  if (cf_fold ((enum cf_op) (opn), (cc_type) (t1), pa, (cc_type) (t2), pb, &rt, &want)) { \
    __typeof__ (a OP b) r = a OP b; uint64_t got = (uint64_t) r; int sg = ((__typeof__ (a OP b)) -1) < 0; \
    defined++; \
    if (got != want || (int) sizeof (r) * 8 != cc_bits (rt) || sg != cc_signed (rt)) { bad++; \
      printf ("MISMATCH test %d: (%s) %llu %s (%s) %llu: gcc %llu (%d bits, %s) oracle %llu (type %d)\n", k, #T1, (unsigned long long) pa, #OP, #T2, \
              (unsigned long long) pb, (unsigned long long) got, (int) sizeof (r) * 8, sg ? "signed" : "unsigned", (unsigned long long) want, (int) rt); } \
  } } while (0)
int main (void) {
''' + "\n".join(body) + r'''
  printf ("cfold_ref selftest: %d defined cases, %d mismatches\n", defined, bad);
  return bad != 0;
}
'''
    with tempfile.TemporaryDirectory() as d:
        c = os.path.join(d, "t.c")
        open(c, "w").write(src)
        r = subprocess.run(["gcc", "-O0", "-w", "-fwrapv", "-I" + HERE, c, "-o", os.path.join(d, "t")], capture_output=True, text=True)
        if r.returncode != 0:
            print(r.stderr[-2000:])
            return 2
        r = subprocess.run([os.path.join(d, "t")], capture_output=True, text=True)
        print(r.stdout[-3000:], end="")
        return r.returncode


if __name__ == "__main__":
    sys.exit(main())
