#!/usr/bin/env python3
"""sysv_call_ref_selftest.py -- guards the ORACLE ref/sysv_call_ref.h (not part of any property's verdict).

For every prototype of tools/gen_protos.py (default: the quick enumeration) a C caller compiled by gcc calls the
assembly routine `probe` through a function-pointer cast to the C signature that corresponds to the MIR prototype
(blk0:24 = struct{long,long,long}, blk1:8/16 = struct{long[,long]}, blk2:16 = struct{double,double},
blk3:16 = struct{long,double}, blk4:16 = struct{double,long}, rblk / p = pointer, ...; `...` for the variadic twin).
`probe` stores rdi rsi rdx rcx r8 r9 rax, xmm0-7 and 48 stack words; the checker then looks for each argument's marker
value at the location sc_assign_args() predicts and checks %al for variadic calls.  gcc IS the platform ABI here.

usage: sysv_call_ref_selftest.py [quick|thorough] [--keep DIR]        exit 0 = oracle agrees with gcc on every prototype
"""
import os
import shutil
import subprocess
import sys
import tempfile

HERE = os.path.dirname(os.path.abspath(__file__))
sys.path.insert(0, os.path.join(os.path.dirname(HERE), "tools"))
import gen_protos as gp  # noqa: E402

CT = {"i8": "signed char", "u8": "unsigned char", "i16": "short", "u16": "unsigned short", "i32": "int", "u32": "unsigned", "i64": "long",
      "u64": "unsigned long", "p": "void *", "f": "float", "d": "double", "ld": "long double", "rblk": "void *",
      "blk0": "B0", "blk1_8": "B1a", "blk1_16": "B1b", "blk2": "B2", "blk3": "B3", "blk4": "B4"}

PRE = r'''
#include <stdio.h>
#include <string.h>
#include <stdint.h>
#include "sysv_call_ref.h"
typedef struct { long a, b, c; } B0;
typedef struct { long a; } B1a;
typedef struct { long a, b; } B1b;
typedef struct { double a, b; } B2;
typedef struct { long a; double b; } B3;
typedef struct { double a; long b; } B4;
unsigned long cap[7 + 8 + 48];
void probe (void);
__asm__ (".text\n.globl probe\nprobe:\n lea cap(%rip),%r11\n mov %rdi,0(%r11)\n mov %rsi,8(%r11)\n mov %rdx,16(%r11)\n mov %rcx,24(%r11)\n"
         " mov %r8,32(%r11)\n mov %r9,40(%r11)\n mov %rax,48(%r11)\n"
         " movq %xmm0,56(%r11)\n movq %xmm1,64(%r11)\n movq %xmm2,72(%r11)\n movq %xmm3,80(%r11)\n movq %xmm4,88(%r11)\n movq %xmm5,96(%r11)\n"
         " movq %xmm6,104(%r11)\n movq %xmm7,112(%r11)\n"
STACKCOPY
         " ret\n");
static double dbl (unsigned long bits) { double d; memcpy (&d, &bits, 8); return d; }
static float flt (unsigned bits) { float f; memcpy (&f, &bits, 4); return f; }
#define MI(i, k) (0x5a00000000000000ul | ((unsigned long) (i) << 16) | ((unsigned long) (k) << 8) | 0x81ul) /* low byte 0x81: sign bit set for i8 */
#define MD(i, k) (0x4030000000000000ul | ((unsigned long) (i) << 16) | ((unsigned long) (k) << 8) | 1)
#define MF(i) (0x41000000u | ((unsigned) (i) << 8) | 1)
static const uint8_t iregs[6] = {0, 1, 2, 3, 4, 5};
typedef struct { const char *name; unsigned nargs, nnamed, vararg; sc_arg_t args[SC_MAX_ARGS]; } tcase;
static int bad;
static void fail (const tcase *c, unsigned i, const char *what) { printf ("MISMATCH %s arg %u: %s\n", c->name, i, what); bad++; }
static void check (const tcase *c) {
  sc_call_t l;
  sc_assign_args (c->nargs, c->args, &l);
  if (!l.ok) { fail (c, 0, "outside the oracle's domain"); return; }
  for (unsigned i = 0; i < c->nargs; i++) {
    const sc_loc_t *a = &l.arg[i];
    unsigned t = c->args[i].type;
    for (unsigned k = 0; k < a->nwords; k++) {
      unsigned long got, want, mask = ~0ul;
      int sse = 0;
      if (a->cls[0] == SC_CL_MEM) got = cap[15 + a->stack_off / 8 + k];
      else if (a->cls[k] == SC_CL_INT) got = cap[a->reg[k]];
      else { got = cap[7 + a->reg[k]]; sse = 1; }
      if (t == SC_LD) { long double v = 1000.0L + i; unsigned long w[2] = {0, 0}; memcpy (w, &v, 10); want = w[k]; if (k == 1) mask = 0xffff; }
      else if (t == SC_F) { want = MF (i); mask = 0xffffffffu; }
      else if (t == SC_D) want = MD (i, 0);
      else if (sc_is_blk_type (t)) {
        int dblw = t == SC_BLK2 || (t == SC_BLK3 && k == 1) || (t == SC_BLK4 && k == 0);
        want = dblw ? MD (i, k) : MI (i, k);
      } else { want = MI (i, 0); mask = sc_low_mask (sc_int_bits (t)); }
      (void) sse;
      if ((got & mask) != (want & mask)) fail (c, i, a->cls[0] == SC_CL_MEM ? "not in the predicted stack slot" : "not in the predicted register");
    }
  }
  if (c->vararg && !((cap[6] & 0xff) <= 8 && (cap[6] & 0xff) >= l.n_sse)) fail (c, 0, "%al is not an upper bound of the vector registers used");
}
'''


def ctype(a):
    t, sz = gp.split(a)
    if t == "blk1":
        return CT["blk1_%d" % sz]
    return CT[t]


def value(i, a):
    t, sz = gp.split(a)
    if t in ("blk0",):
        return "(B0){MI (%d, 0), MI (%d, 1), MI (%d, 2)}" % (i, i, i)
    if t == "blk1":
        return "(B1a){MI (%d, 0)}" % i if sz == 8 else "(B1b){MI (%d, 0), MI (%d, 1)}" % (i, i)
    if t == "blk2":
        return "(B2){dbl (MD (%d, 0)), dbl (MD (%d, 1))}" % (i, i)
    if t == "blk3":
        return "(B3){MI (%d, 0), dbl (MD (%d, 1))}" % (i, i)
    if t == "blk4":
        return "(B4){dbl (MD (%d, 0)), MI (%d, 1)}" % (i, i)
    if t == "f":
        return "flt (MF (%d))" % i
    if t == "d":
        return "dbl (MD (%d, 0))" % i
    if t == "ld":
        return "(1000.0L + %d)" % i
    if t in ("p", "rblk"):
        return "(void *) MI (%d, 0)" % i
    return "(%s) MI (%d, 0)" % (CT[t], i)


def main():
    tier = "quick"
    keep = None
    args = sys.argv[1:]
    while args:
        a = args.pop(0)
        if a == "--keep":
            keep = args.pop(0)
        else:
            tier = a
    cs = gp.cases(tier, int(os.environ.get("VERIF_SEED", "0") or 0))
    tmp = keep or tempfile.mkdtemp(prefix="abi-selftest-")
    os.makedirs(tmp, exist_ok=True)
    try:
        src = os.path.join(tmp, "selftest.c")
        with open(src, "w") as f:
            sc = "".join('         " mov %d(%%rsp),%%r10\\n mov %%r10,%d(%%r11)\\n"\n' % (8 + 8 * k, 120 + 8 * k) for k in range(48))
            f.write(PRE.replace("STACKCOPY\n", sc))
            for c in cs:
                if c["vararg"] and c["nnamed"] == 0:
                    continue  # C cannot declare f (...) without a named parameter
                named = [ctype(a) for a in c["args"][:c["nnamed"]]]
                sig = ", ".join(named + (["..."] if c["vararg"] else [])) or "void"
                f.write("static void t_%s (void) {\n  static const tcase c = {\"%s: %s\", %d, %d, %d, {%s}};\n" % (
                    c["name"], c["name"], gp.describe(c), len(c["args"]), c["nnamed"], c["vararg"],
                    ", ".join("{%s, %d}" % (gp.SC[gp.split(a)[0]], gp.split(a)[1]) for a in c["args"]) or "{0, 0}"))
                f.write("  memset (cap, 0, sizeof (cap));\n  ((void (*) (%s)) probe) (%s);\n  check (&c);\n}\n" % (
                    sig, ", ".join(value(i, a) for i, a in enumerate(c["args"]))))
            f.write("int main (void) {\n")
            n = 0
            for c in cs:
                if c["vararg"] and c["nnamed"] == 0:
                    continue
                f.write("  t_%s ();\n" % c["name"])
                n += 1
            f.write('  printf ("SYSV-CALL-REF-SELFTEST prototypes=%d mismatches=%%d\\n", bad);\n  return bad != 0;\n}\n' % n)
        exe = os.path.join(tmp, "selftest")
        p = subprocess.run(["gcc", "-O1", "-w", "-I" + HERE, "-o", exe, src], stdout=subprocess.PIPE, stderr=subprocess.STDOUT, text=True)
        if p.returncode != 0:
            print(p.stdout[-3000:])
            return 2
        p = subprocess.run([exe], stdout=subprocess.PIPE, stderr=subprocess.STDOUT, text=True)
        out = p.stdout.splitlines()
        for line in out[:40]:
            print(line)
        if len(out) > 40:
            print("... (%d more lines)" % (len(out) - 41))
            print(out[-1])
        return p.returncode
    finally:
        if not keep:
            shutil.rmtree(tmp, ignore_errors=True)


if __name__ == "__main__":
    sys.exit(main())
