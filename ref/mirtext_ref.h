/* Reference READER of the textual form of a MIR memory operand, written from MIR.md ("Memory operands ... has the
   following syntax in MIR text"):

       <type>: <disp>
       <type>: [<disp>] (<base reg> [, <index reg> [, <scale> ]])        absent displacement = 0, absent scale = 1
       ... optionally followed by  :<alias>  |  :<alias>:<nonalias>  |  ::<nonalias>

   with one reading rule MIR.md leaves to the scanner and that the API makes necessary (an operand may have an index
   but no base): the FIRST position inside the parentheses is the base and may be empty - `(, i, 8)`.

   It is independent of mir.c (no code shared): tokens are names ([A-Za-z_.$@][A-Za-z0-9_.$@]*), integers
   (optional sign, digits - under CBMC the writer's integer conversions print the single placeholder digit `0`, decimal
   formatting being libc's), and the punctuation `: ( ) ,`; blanks separate tokens.
   Used by harness/C10/memop.c: the text the REAL MIR_output_op printed is read back with this reader and the fields
   are compared with the operand that was printed. */
#ifndef MIRTEXT_REF_H
#define MIRTEXT_REF_H

#define RT_NAME_MAX 8
typedef struct {
  int ok;                      /* text is a memory operand by the grammar above and was consumed completely */
  char type[RT_NAME_MAX];      /* type name */
  int has_disp, has_par, has_scale;
  char base[RT_NAME_MAX], index[RT_NAME_MAX], alias[RT_NAME_MAX], nonalias[RT_NAME_MAX];
} rt_memop;

static int rt_name_start (int c) { return (c >= 'a' && c <= 'z') || (c >= 'A' && c <= 'Z') || c == '_' || c == '.' || c == '$' || c == '@'; }
static int rt_digit (int c) { return c >= '0' && c <= '9'; }

static unsigned rt_blanks (const char *s, unsigned n, unsigned i) {
  for (unsigned k = 0; k < 4; k++)
    if (i < n && s[i] == ' ') i++;
  return i;
}
/* reads a name into dst (<= RT_NAME_MAX - 1 characters); returns the new position or 0 if there is no name here */
static unsigned rt_name (const char *s, unsigned n, unsigned i, char *dst) {
  unsigned k = 0;
  if (!(i < n && rt_name_start (s[i]))) return 0;
  for (unsigned j = 0; j < RT_NAME_MAX - 1; j++)
    if (i < n && (rt_name_start (s[i]) || rt_digit (s[i]))) dst[k++] = s[i++];
  dst[k] = 0;
  if (i < n && (rt_name_start (s[i]) || rt_digit (s[i]))) return 0; /* longer than the bound of this reader */
  return i;
}
/* reads an integer; returns the new position or 0 */
static unsigned rt_int (const char *s, unsigned n, unsigned i) {
  unsigned d = 0;
  if (i < n && (s[i] == '-' || s[i] == '+')) i++;
  for (unsigned j = 0; j < 20; j++)
    if (i < n && rt_digit (s[i])) { i++; d++; }
  if (d == 0 || (i < n && rt_digit (s[i]))) return 0;
  return i;
}

static rt_memop rt_read_memop (const char *s, unsigned n) {
  rt_memop m;
  unsigned i = 0, j;
  m.ok = 0; m.has_disp = m.has_par = m.has_scale = 0;
  m.type[0] = m.base[0] = m.index[0] = m.alias[0] = m.nonalias[0] = 0;
  i = rt_blanks (s, n, i);
  if ((i = rt_name (s, n, i, m.type)) == 0) return m;
  i = rt_blanks (s, n, i);
  if (!(i < n && s[i] == ':')) return m;
  i = rt_blanks (s, n, i + 1);
  if ((j = rt_int (s, n, i)) != 0) { m.has_disp = 1; i = rt_blanks (s, n, j); }
  if (i < n && s[i] == '(') {
    m.has_par = 1;
    i = rt_blanks (s, n, i + 1);
    if ((j = rt_name (s, n, i, m.base)) != 0) i = rt_blanks (s, n, j);
    if (i < n && s[i] == ',') {
      i = rt_blanks (s, n, i + 1);
      if ((j = rt_name (s, n, i, m.index)) == 0) return m; /* an index register must follow the first comma */
      i = rt_blanks (s, n, j);
      if (i < n && s[i] == ',') {
        i = rt_blanks (s, n, i + 1);
        if ((j = rt_int (s, n, i)) == 0) return m; /* a scale must follow the second comma */
        m.has_scale = 1;
        i = rt_blanks (s, n, j);
      }
    }
    if (!(i < n && s[i] == ')')) return m;
    i = rt_blanks (s, n, i + 1);
  } else if (!m.has_disp) {
    return m; /* neither displacement nor address part */
  }
  if (i < n && s[i] == ':') {
    i++;
    if (i < n && s[i] == ':') {
      if ((j = rt_name (s, n, i + 1, m.nonalias)) == 0) return m;
      i = j;
    } else {
      if ((j = rt_name (s, n, i, m.alias)) == 0) return m;
      i = j;
      if (i < n && s[i] == ':') {
        if ((j = rt_name (s, n, i + 1, m.nonalias)) == 0) return m;
        i = j;
      }
    }
  }
  i = rt_blanks (s, n, i);
  m.ok = i == n;
  return m;
}

static int rt_streq (const char *a, const char *b) {
  for (unsigned i = 0; i < RT_NAME_MAX; i++) {
    if (a[i] != b[i]) return 0;
    if (a[i] == 0) return 1;
  }
  return 1;
}
#endif
