/* Reference semantics of MIR instructions, written from MIR.md ("MIR integer insns", "MIR integer
   overflow insns", "MIR floating point insns", "MIR branch insns", memory operand description) -
   NOT from mir-interp.c / mir-gen-x86_64.c.  Integer values are passed as uint64_t bit patterns.
   32-bit (S) instructions define only the low 32 bits of their result (MIR.md: "The higher part of
   32-bit insn result is undefined"): callers compare with REF_LOW32.
   Undefined cases (division by zero, INT_MIN/-1, shift count >= width, float->int out of range)
   are excluded by the REF_PRE_* predicates, which the harness assumes. */
#ifndef VERIF_MIR_REF_H
#define VERIF_MIR_REF_H
#include <stdint.h>

#define REF_LOW32(x) ((uint64_t) (x) & 0xffffffffull)
typedef int64_t ref_i64; typedef uint64_t ref_u64; typedef int32_t ref_i32; typedef uint32_t ref_u32;

/* two's complement arithmetic via unsigned types (no C undefined behaviour in the model) */
static inline ref_u64 ref_ADD (ref_u64 a, ref_u64 b) { return a + b; }
static inline ref_u64 ref_SUB (ref_u64 a, ref_u64 b) { return a - b; }
static inline ref_u64 ref_MUL (ref_u64 a, ref_u64 b) { return a * b; }
static inline ref_u64 ref_ADDS (ref_u64 a, ref_u64 b) { return (ref_u32) a + (ref_u32) b; }
static inline ref_u64 ref_SUBS (ref_u64 a, ref_u64 b) { return (ref_u32) a - (ref_u32) b; }
static inline ref_u64 ref_MULS (ref_u64 a, ref_u64 b) { return (ref_u32) a * (ref_u32) b; }
static inline int ref_PRE_DIV (ref_u64 a, ref_u64 b) { return b != 0 && !((ref_i64) a == INT64_MIN && (ref_i64) b == -1); }
static inline int ref_PRE_DIVS (ref_u64 a, ref_u64 b) { return (ref_u32) b != 0 && !((ref_i32) a == INT32_MIN && (ref_i32) b == -1); }
static inline int ref_PRE_UDIV (ref_u64 a, ref_u64 b) { (void) a; return b != 0; }
static inline int ref_PRE_UDIVS (ref_u64 a, ref_u64 b) { (void) a; return (ref_u32) b != 0; }
static inline ref_u64 ref_DIV (ref_u64 a, ref_u64 b) { return (ref_u64) ((ref_i64) a / (ref_i64) b); }
static inline ref_u64 ref_MOD (ref_u64 a, ref_u64 b) { return (ref_u64) ((ref_i64) a % (ref_i64) b); }
static inline ref_u64 ref_UDIV (ref_u64 a, ref_u64 b) { return a / b; }
static inline ref_u64 ref_UMOD (ref_u64 a, ref_u64 b) { return a % b; }
static inline ref_u64 ref_DIVS (ref_u64 a, ref_u64 b) { return (ref_u32) ((ref_i32) a / (ref_i32) b); }
static inline ref_u64 ref_MODS (ref_u64 a, ref_u64 b) { return (ref_u32) ((ref_i32) a % (ref_i32) b); }
static inline ref_u64 ref_UDIVS (ref_u64 a, ref_u64 b) { return (ref_u32) a / (ref_u32) b; }
static inline ref_u64 ref_UMODS (ref_u64 a, ref_u64 b) { return (ref_u32) a % (ref_u32) b; }
static inline ref_u64 ref_AND (ref_u64 a, ref_u64 b) { return a & b; }
static inline ref_u64 ref_OR (ref_u64 a, ref_u64 b) { return a | b; }
static inline ref_u64 ref_XOR (ref_u64 a, ref_u64 b) { return a ^ b; }
static inline ref_u64 ref_ANDS (ref_u64 a, ref_u64 b) { return (ref_u32) (a & b); }
static inline ref_u64 ref_ORS (ref_u64 a, ref_u64 b) { return (ref_u32) (a | b); }
static inline ref_u64 ref_XORS (ref_u64 a, ref_u64 b) { return (ref_u32) (a ^ b); }
static inline int ref_PRE_SH (ref_u64 a, ref_u64 b) { (void) a; return b < 64; }
static inline int ref_PRE_SHS (ref_u64 a, ref_u64 b) { (void) a; return b < 32; }
static inline ref_u64 ref_LSH (ref_u64 a, ref_u64 b) { return a << b; }
static inline ref_u64 ref_URSH (ref_u64 a, ref_u64 b) { return a >> b; }
static inline ref_u64 ref_RSH (ref_u64 a, ref_u64 b) { /* arithmetic: fill with the sign bit */
  ref_u64 r = a >> b;
  if ((a >> 63) && b != 0) r |= ~(ref_u64) 0 << (64 - b);
  return r;
}
static inline ref_u64 ref_LSHS (ref_u64 a, ref_u64 b) { return (ref_u32) ((ref_u32) a << b); }
static inline ref_u64 ref_URSHS (ref_u64 a, ref_u64 b) { return (ref_u32) a >> b; }
static inline ref_u64 ref_RSHS (ref_u64 a, ref_u64 b) {
  ref_u32 x = (ref_u32) a, r = x >> b;
  if ((x >> 31) && b != 0) r |= ~(ref_u32) 0 << (32 - b);
  return r;
}
/* comparisons: result 1 or 0 */
static inline ref_u64 ref_EQ (ref_u64 a, ref_u64 b) { return a == b; }
static inline ref_u64 ref_NE (ref_u64 a, ref_u64 b) { return a != b; }
static inline ref_u64 ref_LT (ref_u64 a, ref_u64 b) { return (ref_i64) a < (ref_i64) b; }
static inline ref_u64 ref_LE (ref_u64 a, ref_u64 b) { return (ref_i64) a <= (ref_i64) b; }
static inline ref_u64 ref_GT (ref_u64 a, ref_u64 b) { return (ref_i64) a > (ref_i64) b; }
static inline ref_u64 ref_GE (ref_u64 a, ref_u64 b) { return (ref_i64) a >= (ref_i64) b; }
static inline ref_u64 ref_ULT (ref_u64 a, ref_u64 b) { return a < b; }
static inline ref_u64 ref_ULE (ref_u64 a, ref_u64 b) { return a <= b; }
static inline ref_u64 ref_UGT (ref_u64 a, ref_u64 b) { return a > b; }
static inline ref_u64 ref_UGE (ref_u64 a, ref_u64 b) { return a >= b; }
static inline ref_u64 ref_EQS (ref_u64 a, ref_u64 b) { return (ref_u32) a == (ref_u32) b; }
static inline ref_u64 ref_NES (ref_u64 a, ref_u64 b) { return (ref_u32) a != (ref_u32) b; }
static inline ref_u64 ref_LTS (ref_u64 a, ref_u64 b) { return (ref_i32) a < (ref_i32) b; }
static inline ref_u64 ref_LES (ref_u64 a, ref_u64 b) { return (ref_i32) a <= (ref_i32) b; }
static inline ref_u64 ref_GTS (ref_u64 a, ref_u64 b) { return (ref_i32) a > (ref_i32) b; }
static inline ref_u64 ref_GES (ref_u64 a, ref_u64 b) { return (ref_i32) a >= (ref_i32) b; }
static inline ref_u64 ref_ULTS (ref_u64 a, ref_u64 b) { return (ref_u32) a < (ref_u32) b; }
static inline ref_u64 ref_ULES (ref_u64 a, ref_u64 b) { return (ref_u32) a <= (ref_u32) b; }
static inline ref_u64 ref_UGTS (ref_u64 a, ref_u64 b) { return (ref_u32) a > (ref_u32) b; }
static inline ref_u64 ref_UGES (ref_u64 a, ref_u64 b) { return (ref_u32) a >= (ref_u32) b; }
/* unary */
static inline ref_u64 ref_MOV (ref_u64 a) { return a; }
static inline ref_u64 ref_EXT8 (ref_u64 a) { return (ref_u64) (ref_i64) (int8_t) a; }
static inline ref_u64 ref_EXT16 (ref_u64 a) { return (ref_u64) (ref_i64) (int16_t) a; }
static inline ref_u64 ref_EXT32 (ref_u64 a) { return (ref_u64) (ref_i64) (int32_t) a; }
static inline ref_u64 ref_UEXT8 (ref_u64 a) { return (uint8_t) a; }
static inline ref_u64 ref_UEXT16 (ref_u64 a) { return (uint16_t) a; }
static inline ref_u64 ref_UEXT32 (ref_u64 a) { return (uint32_t) a; }
static inline ref_u64 ref_NEG (ref_u64 a) { return (ref_u64) 0 - a; }
static inline ref_u64 ref_NEGS (ref_u64 a) { return (ref_u32) (0u - (ref_u32) a); }
/* overflow flags: mathematical overflow of the exact result at the instruction's width */
static inline int ref_SOV_ADD (ref_u64 a, ref_u64 b) { ref_u64 r = a + b; return (int) (((a ^ r) & (b ^ r)) >> 63); }
static inline int ref_SOV_SUB (ref_u64 a, ref_u64 b) { ref_u64 r = a - b; return (int) (((a ^ b) & (a ^ r)) >> 63); }
static inline int ref_UOV_ADD (ref_u64 a, ref_u64 b) { return a + b < a; }
static inline int ref_UOV_SUB (ref_u64 a, ref_u64 b) { return a < b; }
static inline int ref_SOV_ADDS (ref_u64 a, ref_u64 b) { ref_i64 r = (ref_i64) (ref_i32) a + (ref_i64) (ref_i32) b; return r < INT32_MIN || r > INT32_MAX; }
static inline int ref_SOV_SUBS (ref_u64 a, ref_u64 b) { ref_i64 r = (ref_i64) (ref_i32) a - (ref_i64) (ref_i32) b; return r < INT32_MIN || r > INT32_MAX; }
static inline int ref_UOV_ADDS (ref_u64 a, ref_u64 b) { return (ref_u64) (ref_u32) a + (ref_u64) (ref_u32) b > 0xffffffffull; }
static inline int ref_UOV_SUBS (ref_u64 a, ref_u64 b) { return (ref_u32) a < (ref_u32) b; }
static inline int ref_SOV_MULS (ref_u64 a, ref_u64 b) { ref_i64 r = (ref_i64) (ref_i32) a * (ref_i64) (ref_i32) b; return r < INT32_MIN || r > INT32_MAX; }
static inline int ref_UOV_MULS (ref_u64 a, ref_u64 b) { return (ref_u64) (ref_u32) a * (ref_u64) (ref_u32) b > 0xffffffffull; }
static inline int ref_SOV_MUL (ref_u64 a, ref_u64 b) { /* exact 128-bit product does not fit int64 */
  __int128 r = (__int128) (ref_i64) a * (__int128) (ref_i64) b;
  return r < (__int128) INT64_MIN || r > (__int128) INT64_MAX;
}
static inline int ref_UOV_MUL (ref_u64 a, ref_u64 b) {
  unsigned __int128 r = (unsigned __int128) a * (unsigned __int128) b;
  return (r >> 64) != 0;
}
/* floating point: C semantics of IEEE types (round to nearest), NaN compares false except != */
#define REF_FP(T, P)                                                                  \
  static inline T ref_##P##ADD (T a, T b) { return a + b; }                           \
  static inline T ref_##P##SUB (T a, T b) { return a - b; }                           \
  static inline T ref_##P##MUL (T a, T b) { return a * b; }                           \
  static inline T ref_##P##DIV (T a, T b) { return a / b; }                           \
  static inline T ref_##P##NEG (T a) { return -a; }                                   \
  static inline ref_u64 ref_##P##EQ (T a, T b) { return a == b; }                     \
  static inline ref_u64 ref_##P##NE (T a, T b) { return a != b; }                     \
  static inline ref_u64 ref_##P##LT (T a, T b) { return a < b; }                      \
  static inline ref_u64 ref_##P##LE (T a, T b) { return a <= b; }                     \
  static inline ref_u64 ref_##P##GT (T a, T b) { return a > b; }                      \
  static inline ref_u64 ref_##P##GE (T a, T b) { return a >= b; }
REF_FP (float, F)
REF_FP (double, D)
REF_FP (long double, LD)

/* ---- additions for whole-program references (tools/mir2ref.py), from MIR.md ----
   "MIR insn operands / Memory operands": integer type input memory is transformed to a 64-bit integer
   value with sign or zero extension depending on signedness of the type; a result 64-bit integer value
   is truncated to the integer memory type.  Addresses are 64-bit integer values. */
#include <string.h>
#define REF_MEM_INT(N, T)                                                                             \
  static inline ref_u64 ref_ld_##N (ref_u64 a) { return (ref_u64) (ref_i64) *(const T *) (uintptr_t) a; } \
  static inline void ref_st_##N (ref_u64 a, ref_u64 x) { *(T *) (uintptr_t) a = (T) x; }
REF_MEM_INT (i8, int8_t)
REF_MEM_INT (i16, int16_t)
REF_MEM_INT (i32, int32_t)
REF_MEM_INT (i64, int64_t)
#define REF_MEM_UINT(N, T)                                                                            \
  static inline ref_u64 ref_ld_##N (ref_u64 a) { return (ref_u64) *(const T *) (uintptr_t) a; } \
  static inline void ref_st_##N (ref_u64 a, ref_u64 x) { *(T *) (uintptr_t) a = (T) x; }
REF_MEM_UINT (u8, uint8_t)
REF_MEM_UINT (u16, uint16_t)
REF_MEM_UINT (u32, uint32_t)
REF_MEM_UINT (u64, uint64_t)
REF_MEM_UINT (p, uint64_t)
#define REF_MEM_FP(N, T)                                                                              \
  static inline T ref_ld_##N (ref_u64 a) { return *(const T *) (uintptr_t) a; } \
  static inline void ref_st_##N (ref_u64 a, T x) { *(T *) (uintptr_t) a = x; }
REF_MEM_FP (f, float)
REF_MEM_FP (d, double)
REF_MEM_FP (ld, long double)
/* "MIR_CALL insn": integer arguments are truncated according to the integer prototype argument type;
   "MIR function": an argument variable of any integer type actually has type MIR_T_I64 (the declared type
   says how the value is passed) - so the callee sees the truncated value extended per its declared type.
   "MIR_RET insn": a 64-bit integer value is truncated to the corresponding function return type first;
   the call's result operand receives that value (extended per the type's signedness). */
#define REF_NARROW(N, T)                                                                \
  static inline ref_u64 ref_arg_##N (ref_u64 x) { return (ref_u64) (ref_i64) (T) x; }   \
  static inline ref_u64 ref_res_##N (ref_u64 x) { return (ref_u64) (ref_i64) (T) x; }
REF_NARROW (i8, int8_t)
REF_NARROW (i16, int16_t)
REF_NARROW (i32, int32_t)
REF_NARROW (i64, int64_t)
#define REF_NARROW_U(N, T)                                                   \
  static inline ref_u64 ref_arg_##N (ref_u64 x) { return (ref_u64) (T) x; }   \
  static inline ref_u64 ref_res_##N (ref_u64 x) { return (ref_u64) (T) x; }
REF_NARROW_U (u8, uint8_t)
REF_NARROW_U (u16, uint16_t)
REF_NARROW_U (u32, uint32_t)
REF_NARROW_U (u64, uint64_t)
REF_NARROW_U (p, uint64_t)
/* conversions ("MIR floating point insns" table): C conversion semantics; float->int of a value outside the
   int64 range (or NaN) is undefined: REF_PRE_x2I */
static inline float ref_I2F (ref_u64 a) { return (float) (ref_i64) a; }
static inline double ref_I2D (ref_u64 a) { return (double) (ref_i64) a; }
static inline long double ref_I2LD (ref_u64 a) { return (long double) (ref_i64) a; }
static inline float ref_UI2F (ref_u64 a) { return (float) a; }
static inline double ref_UI2D (ref_u64 a) { return (double) a; }
static inline long double ref_UI2LD (ref_u64 a) { return (long double) a; }
static inline int ref_PRE_F2I (float a) { return a == a && a >= -9223372036854775808.0f && a < 9223372036854775808.0f; }
static inline int ref_PRE_D2I (double a) { return a == a && a >= -9223372036854775808.0 && a < 9223372036854775808.0; }
static inline int ref_PRE_LD2I (long double a) { return a == a && a >= -9223372036854775808.0L && a < 9223372036854775808.0L; }
static inline ref_u64 ref_F2I (float a) { return (ref_u64) (ref_i64) a; }
static inline ref_u64 ref_D2I (double a) { return (ref_u64) (ref_i64) a; }
static inline ref_u64 ref_LD2I (long double a) { return (ref_u64) (ref_i64) a; }
static inline double ref_F2D (float a) { return (double) a; }
static inline long double ref_F2LD (float a) { return (long double) a; }
static inline float ref_D2F (double a) { return (float) a; }
static inline long double ref_D2LD (double a) { return (long double) a; }
static inline float ref_LD2F (long double a) { return (float) a; }
static inline double ref_LD2D (long double a) { return (double) a; }
#endif
