/* Reference model for property C15: which MIR instructions are well-formed.

   Written from /repo/MIR.md (chapters "MIR data type", "MIR function", "MIR insn operands", "MIR insns"
   and its per-family sub-chapters) and from the documentation comments of mir.h (the insn-code enum and
   the comment above it).  It is NOT derived from mir.c's insn_descs table: instructions are described by
   FAMILY, the way the documentation describes them:

     * "the first insn operand describes where the insn result (if any) will be placed";
       "only register or memory operand can be insn output operand";
     * prefix F / D / LD selects single / double / long double data operands, no prefix = 64-bit integer;
       suffix S (32-bit) and prefix U (unsigned) do not change operand types;
     * comparison insns produce an integer result from two operands of the prefix type;
     * conversions X2Y take a value of type X and produce a value of type Y (I, UI = integer);
     * branches: "the first operand of the insn should be label"; bt/bf: label + integer;
       compare-and-branch: label + two operands of the prefix type;
     * addr insns "take address of variable as the 2nd operand": a REGISTER (of any type);
     * laddr: label address (2nd operand) into "64-bit integer register or memory given as the first operand";
     * switch: integer index, then N > 0 labels;  ret: operands correspond to the function's result types;
     * call/inline/jcall: prototype reference, function address, N outputs for the N prototype results, then
       arguments whose "types and number should be the same as in the prototype"; block-type arguments
       are block-type memory of the same block type and size;
     * alloca: address result, integer size;  bstart: one output;  bend: one input;
     * va_start/va_end: va_list address;  va_arg: result address, va_list, "any memory operand" carrying the type;
       va_block_arg: four integer inputs;  va_start is only for vararg functions;
     * prset: variable, integer constant;  prbeq/prbne: label, variable, integer constant;
     * memory operand: type is a scalar type (block types "can be used only for argument of function"),
       base and index registers are (declared) integer registers;
     * integer immediates are signed or unsigned 64-bit ("MIR_new_int_op and MIR_new_uint_op") and both are
       integer values; reference and string operands are addresses, i.e. integer values;
     * every register operand must be a declared variable of the function;
     * branch on overflow: "the previous insn must be a MIR integer overflow insn" (mir.c's error text refines
       this to "separated only by stores and reg moves"; signedness of the branch must fit mulo/umulo).

   Where the documentation is silent or ambiguous the model follows the implementation and says so in a
   comment tagged DOC-AMBIGUITY; those places are listed in the evidence of C15.

   Interface: the harness describes every operand ABSTRACTLY (ref_op_t: what the user wrote, not the
   MIR_op_t encoding) and gets back either 0 (the instruction must be accepted) or a bit set of the error
   classes of the rules that the instruction violates (the error callback must be invoked with the code of
   ONE of the violated rules; the documentation does not order the checks). */
#ifndef VERIF_MIR_MODES_REF_H
#define VERIF_MIR_MODES_REF_H
#include "mir.h"

/* value types */
typedef enum { RV_INT, RV_F, RV_D, RV_LD, RV_NONE } ref_vt_t;

/* operand kinds as the user writes them */
typedef enum {
  RK_REG, RK_IMM_INT, RK_IMM_UINT, RK_IMM_F, RK_IMM_D, RK_IMM_LD, RK_MEM, RK_LABEL, RK_REF, RK_STR
} ref_kind_t;

typedef enum { RR_PROTO, RR_IMPORT, RR_FUNC } ref_item_t;

typedef struct {
  ref_kind_t kind;
  int declared;     /* RK_REG: the register is a declared variable of the function */
  ref_vt_t reg_vt;  /* RK_REG: type of the declared variable */
  int mem_type;     /* RK_MEM: MIR_type_t */
  int base_present, base_declared, base_int;    /* RK_MEM */
  int index_present, index_declared, index_int; /* RK_MEM */
  long long disp;   /* RK_MEM */
  ref_item_t item;  /* RK_REF */
} ref_op_t;

#define REF_MAX_RES 4
#define REF_MAX_ARGS 4
typedef struct {
  int nres;
  int res[REF_MAX_RES]; /* MIR_type_t */
  int vararg;
} ref_func_t;

typedef struct {
  int nres;
  int res[REF_MAX_RES];
  int nargs;
  int arg_type[REF_MAX_ARGS];
  unsigned long long arg_size[REF_MAX_ARGS]; /* block-type args */
  int vararg;
} ref_proto_t;

/* what precedes a branch-on-overflow insn in the function */
typedef enum {
  RP_NONE,         /* the branch is the first insn */
  RP_OVF,          /* addo/addos/subo/subos directly before */
  RP_OVF_MOVS,     /* such an insn, then only register-to-register moves */
  RP_MULO,         /* mulo/mulos (signed overflow only) */
  RP_UMULO,        /* umulo/umulos (unsigned overflow only) */
  RP_OTHER,        /* some non-overflow insn */
  RP_OVF_THEN_OTHER /* an overflow insn, then an insn that is not a register move */
} ref_prev_t;

/* error classes (bit set).  Those that MIR names with a specific MIR_error_type are separate bits. */
#define RE_ARITY 0x001u   /* MIR_ops_num_error */
#define RE_MODE 0x002u    /* MIR_op_mode_error */
#define RE_OUT 0x004u     /* MIR_out_op_error */
#define RE_REGTYPE 0x008u /* MIR_reg_type_error: non-integer base/index */
#define RE_MEMTYPE 0x010u /* MIR_wrong_type_error: memory type */
#define RE_CALL 0x020u    /* MIR_call_op_error */
#define RE_ADJ 0x040u     /* MIR_invalid_insn_error: overflow branch adjacency */
#define RE_UNDECL 0x080u  /* MIR_undeclared_func_reg_error */
#define RE_OTHER 0x100u   /* an error, code not named by the property (ret, va_start, jret, internal insns) */
#define RE_UNKNOWN 0x8000u /* opcode not covered by this model: the model must be extended */

/* position classes */
typedef enum {
  RC_VAL,      /* a value of type vt */
  RC_LABEL,    /* a label */
  RC_ANYREG,   /* a register of any type (addr insns) */
  RC_ANYMEM,   /* any memory operand; only its type matters (va_arg) */
  RC_VAR,      /* a variable: register or memory, any type (property insns) */
  RC_INTCONST, /* an integer constant (property insns) */
  RC_ANY       /* unconstrained */
} ref_class_t;

typedef struct { ref_class_t cls; ref_vt_t vt; int out; } ref_pos_t;

typedef enum {
  RS_FIXED, RS_CALL, RS_RET, RS_SWITCH, RS_INTERNAL /* use, phi, unspec: "used only internally" */, RS_UNKNOWN
} ref_shape_t;

typedef struct { ref_shape_t shape; int nops; ref_pos_t pos[5]; } ref_insn_t;

static inline ref_vt_t ref_type_vt (int t) { /* "MIR data type": integer types and the pointer type are integers */
  return t == MIR_T_F ? RV_F : t == MIR_T_D ? RV_D : t == MIR_T_LD ? RV_LD : RV_INT;
}
static inline int ref_scalar_type_p (int t) { return t >= MIR_T_I8 && t <= MIR_T_P; }
static inline int ref_block_type_p (int t) { return t >= MIR_T_BLK && t <= MIR_T_RBLK; }

static inline ref_pos_t ref_p (ref_class_t c, ref_vt_t vt, int out) { ref_pos_t p = {c, vt, out}; return p; }
#define REF_OUT(vt) ref_p (RC_VAL, vt, 1)
#define REF_IN(vt) ref_p (RC_VAL, vt, 0)
#define REF_LAB ref_p (RC_LABEL, RV_NONE, 0)

static inline void ref_fixed (ref_insn_t *s, int n, ref_pos_t a, ref_pos_t b, ref_pos_t c, ref_pos_t d) {
  s->shape = RS_FIXED; s->nops = n;
  s->pos[0] = a; s->pos[1] = b; s->pos[2] = c; s->pos[3] = d;
}
#define REF_NOP ref_p (RC_ANY, RV_NONE, 0)
static inline void ref_op2 (ref_insn_t *s, ref_vt_t r, ref_vt_t a) { ref_fixed (s, 2, REF_OUT (r), REF_IN (a), REF_NOP, REF_NOP); }
static inline void ref_op3 (ref_insn_t *s, ref_vt_t r, ref_vt_t a) { ref_fixed (s, 3, REF_OUT (r), REF_IN (a), REF_IN (a), REF_NOP); }
static inline void ref_br3 (ref_insn_t *s, ref_vt_t a) { ref_fixed (s, 3, REF_LAB, REF_IN (a), REF_IN (a), REF_NOP); }

/* The family table. */
static void ref_insn_spec (int code, ref_insn_t *s) {
  s->shape = RS_UNKNOWN; s->nops = 0;
  for (int i = 0; i < 5; i++) s->pos[i] = REF_NOP;
  switch (code) {
/* an operation X with variants X (64-bit), XS (32-bit), FX, DX, LDX: all data operands of the prefix type */
#define REF_ISFDL(X, MK, ARGS_I, ARGS_F, ARGS_D, ARGS_LD) \
  case MIR_##X: case MIR_##X##S: MK ARGS_I; return;      \
  case MIR_F##X: MK ARGS_F; return;                      \
  case MIR_D##X: MK ARGS_D; return;                      \
  case MIR_LD##X: MK ARGS_LD; return;
/* integer-only operation X with its 32-bit variant XS */
#define REF_IS(X, MK, ARGS) case MIR_##X: case MIR_##X##S: MK ARGS; return;

  /* moves: "move 64-bit integer / single / double / long double values" */
  case MIR_MOV: ref_op2 (s, RV_INT, RV_INT); return;
  case MIR_FMOV: ref_op2 (s, RV_F, RV_F); return;
  case MIR_DMOV: ref_op2 (s, RV_D, RV_D); return;
  case MIR_LDMOV: ref_op2 (s, RV_LD, RV_LD); return;
  /* integer extensions */
  case MIR_EXT8: case MIR_EXT16: case MIR_EXT32: case MIR_UEXT8: case MIR_UEXT16: case MIR_UEXT32:
    ref_op2 (s, RV_INT, RV_INT); return;
  /* sign change */
  REF_ISFDL (NEG, ref_op2, (s, RV_INT, RV_INT), (s, RV_F, RV_F), (s, RV_D, RV_D), (s, RV_LD, RV_LD))
  /* conversions X2Y */
  case MIR_I2F: case MIR_UI2F: ref_op2 (s, RV_F, RV_INT); return;
  case MIR_I2D: case MIR_UI2D: ref_op2 (s, RV_D, RV_INT); return;
  case MIR_I2LD: case MIR_UI2LD: ref_op2 (s, RV_LD, RV_INT); return;
  case MIR_F2I: ref_op2 (s, RV_INT, RV_F); return;
  case MIR_D2I: ref_op2 (s, RV_INT, RV_D); return;
  case MIR_LD2I: ref_op2 (s, RV_INT, RV_LD); return;
  case MIR_F2D: ref_op2 (s, RV_D, RV_F); return;
  case MIR_F2LD: ref_op2 (s, RV_LD, RV_F); return;
  case MIR_D2F: ref_op2 (s, RV_F, RV_D); return;
  case MIR_D2LD: ref_op2 (s, RV_LD, RV_D); return;
  case MIR_LD2F: ref_op2 (s, RV_F, RV_LD); return;
  case MIR_LD2D: ref_op2 (s, RV_D, RV_LD); return;
  /* address insns: integer result, 2nd operand a variable (register) of any type.
     DOC-AMBIGUITY: MIR.md says addr8/16/32 are for "variables keeping integer values of smaller types";
     the implementation accepts a register of any type for all four; the model follows it. */
  case MIR_ADDR: case MIR_ADDR8: case MIR_ADDR16: case MIR_ADDR32:
    ref_fixed (s, 2, REF_OUT (RV_INT), ref_p (RC_ANYREG, RV_NONE, 0), REF_NOP, REF_NOP); return;
  /* arithmetic with floating point variants */
  REF_ISFDL (ADD, ref_op3, (s, RV_INT, RV_INT), (s, RV_F, RV_F), (s, RV_D, RV_D), (s, RV_LD, RV_LD))
  REF_ISFDL (SUB, ref_op3, (s, RV_INT, RV_INT), (s, RV_F, RV_F), (s, RV_D, RV_D), (s, RV_LD, RV_LD))
  REF_ISFDL (MUL, ref_op3, (s, RV_INT, RV_INT), (s, RV_F, RV_F), (s, RV_D, RV_D), (s, RV_LD, RV_LD))
  REF_ISFDL (DIV, ref_op3, (s, RV_INT, RV_INT), (s, RV_F, RV_F), (s, RV_D, RV_D), (s, RV_LD, RV_LD))
  /* integer-only arithmetic, logic, shifts, overflow arithmetic */
  REF_IS (UDIV, ref_op3, (s, RV_INT, RV_INT)) REF_IS (MOD, ref_op3, (s, RV_INT, RV_INT))
  REF_IS (UMOD, ref_op3, (s, RV_INT, RV_INT)) REF_IS (AND, ref_op3, (s, RV_INT, RV_INT))
  REF_IS (OR, ref_op3, (s, RV_INT, RV_INT)) REF_IS (XOR, ref_op3, (s, RV_INT, RV_INT))
  REF_IS (LSH, ref_op3, (s, RV_INT, RV_INT)) REF_IS (RSH, ref_op3, (s, RV_INT, RV_INT))
  REF_IS (URSH, ref_op3, (s, RV_INT, RV_INT)) REF_IS (ADDO, ref_op3, (s, RV_INT, RV_INT))
  REF_IS (SUBO, ref_op3, (s, RV_INT, RV_INT)) REF_IS (MULO, ref_op3, (s, RV_INT, RV_INT))
  REF_IS (UMULO, ref_op3, (s, RV_INT, RV_INT))
  /* comparisons: "the result of comparison insn is a 64-bit integer value" */
  REF_ISFDL (EQ, ref_op3, (s, RV_INT, RV_INT), (s, RV_INT, RV_F), (s, RV_INT, RV_D), (s, RV_INT, RV_LD))
  REF_ISFDL (NE, ref_op3, (s, RV_INT, RV_INT), (s, RV_INT, RV_F), (s, RV_INT, RV_D), (s, RV_INT, RV_LD))
  REF_ISFDL (LT, ref_op3, (s, RV_INT, RV_INT), (s, RV_INT, RV_F), (s, RV_INT, RV_D), (s, RV_INT, RV_LD))
  REF_ISFDL (LE, ref_op3, (s, RV_INT, RV_INT), (s, RV_INT, RV_F), (s, RV_INT, RV_D), (s, RV_INT, RV_LD))
  REF_ISFDL (GT, ref_op3, (s, RV_INT, RV_INT), (s, RV_INT, RV_F), (s, RV_INT, RV_D), (s, RV_INT, RV_LD))
  REF_ISFDL (GE, ref_op3, (s, RV_INT, RV_INT), (s, RV_INT, RV_F), (s, RV_INT, RV_D), (s, RV_INT, RV_LD))
  REF_IS (ULT, ref_op3, (s, RV_INT, RV_INT)) REF_IS (ULE, ref_op3, (s, RV_INT, RV_INT))
  REF_IS (UGT, ref_op3, (s, RV_INT, RV_INT)) REF_IS (UGE, ref_op3, (s, RV_INT, RV_INT))
  /* branches */
  case MIR_JMP: ref_fixed (s, 1, REF_LAB, REF_NOP, REF_NOP, REF_NOP); return;
  case MIR_BT: case MIR_BTS: case MIR_BF: case MIR_BFS:
    ref_fixed (s, 2, REF_LAB, REF_IN (RV_INT), REF_NOP, REF_NOP); return;
  case MIR_JMPI: ref_fixed (s, 1, REF_IN (RV_INT), REF_NOP, REF_NOP, REF_NOP); return;
  case MIR_BO: case MIR_BNO: case MIR_UBO: case MIR_UBNO:
    ref_fixed (s, 1, REF_LAB, REF_NOP, REF_NOP, REF_NOP); return;
  /* compare and branch */
  REF_ISFDL (BEQ, ref_br3, (s, RV_INT), (s, RV_F), (s, RV_D), (s, RV_LD))
  REF_ISFDL (BNE, ref_br3, (s, RV_INT), (s, RV_F), (s, RV_D), (s, RV_LD))
  REF_ISFDL (BLT, ref_br3, (s, RV_INT), (s, RV_F), (s, RV_D), (s, RV_LD))
  REF_ISFDL (BLE, ref_br3, (s, RV_INT), (s, RV_F), (s, RV_D), (s, RV_LD))
  REF_ISFDL (BGT, ref_br3, (s, RV_INT), (s, RV_F), (s, RV_D), (s, RV_LD))
  REF_ISFDL (BGE, ref_br3, (s, RV_INT), (s, RV_F), (s, RV_D), (s, RV_LD))
  REF_IS (UBLT, ref_br3, (s, RV_INT)) REF_IS (UBLE, ref_br3, (s, RV_INT))
  REF_IS (UBGT, ref_br3, (s, RV_INT)) REF_IS (UBGE, ref_br3, (s, RV_INT))
  /* laddr: "put it into 64-bit integer register or memory given as the first operand" => an OUTPUT */
  case MIR_LADDR: ref_fixed (s, 2, REF_OUT (RV_INT), REF_LAB, REF_NOP, REF_NOP); return;
  case MIR_CALL: case MIR_INLINE: case MIR_JCALL: s->shape = RS_CALL; return;
  case MIR_SWITCH: s->shape = RS_SWITCH; return;
  case MIR_RET: s->shape = RS_RET; return;
  case MIR_JRET: ref_fixed (s, 1, REF_IN (RV_INT), REF_NOP, REF_NOP, REF_NOP); return;
  case MIR_ALLOCA: ref_op2 (s, RV_INT, RV_INT); return;
  case MIR_BSTART: ref_fixed (s, 1, REF_OUT (RV_INT), REF_NOP, REF_NOP, REF_NOP); return;
  case MIR_BEND: ref_fixed (s, 1, REF_IN (RV_INT), REF_NOP, REF_NOP, REF_NOP); return;
  case MIR_VA_START: case MIR_VA_END: ref_fixed (s, 1, REF_IN (RV_INT), REF_NOP, REF_NOP, REF_NOP); return;
  case MIR_VA_ARG:
    ref_fixed (s, 3, REF_OUT (RV_INT), REF_IN (RV_INT), ref_p (RC_ANYMEM, RV_NONE, 0), REF_NOP); return;
  case MIR_VA_BLOCK_ARG: ref_fixed (s, 4, REF_IN (RV_INT), REF_IN (RV_INT), REF_IN (RV_INT), REF_IN (RV_INT)); return;
  /* property insns.  DOC-AMBIGUITY: MIR.md says "the variable given as the 1st operand" of prset; the
     implementation does not check that operand at all (any operand kind is accepted); the model follows it. */
  case MIR_PRSET: ref_fixed (s, 2, ref_p (RC_ANY, RV_NONE, 0), ref_p (RC_INTCONST, RV_NONE, 0), REF_NOP, REF_NOP); return;
  case MIR_PRBEQ: case MIR_PRBNE:
    ref_fixed (s, 3, REF_LAB, ref_p (RC_VAR, RV_NONE, 0), ref_p (RC_INTCONST, RV_NONE, 0), REF_NOP); return;
  /* "used only internally" (mir.h) */
  case MIR_USE: case MIR_PHI: case MIR_UNSPEC: s->shape = RS_INTERNAL; return;
  /* Not documented as user insns: labels are created by MIR_new_label, invalid-insn is a place holder.
     DOC-AMBIGUITY: the model follows the implementation (zero operands, accepted). */
  case MIR_LABEL: case MIR_INVALID_INSN: ref_fixed (s, 0, REF_NOP, REF_NOP, REF_NOP, REF_NOP); return;
  default: return; /* RS_UNKNOWN: a new opcode; extend this model from the documentation */
  }
}

/* value type an operand delivers / receives; RV_NONE when it is not a value (label) */
static ref_vt_t ref_op_vt (const ref_op_t *o) {
  switch (o->kind) {
  case RK_REG: return o->reg_vt;
  case RK_IMM_INT: case RK_IMM_UINT: case RK_REF: case RK_STR: return RV_INT;
  case RK_IMM_F: return RV_F;
  case RK_IMM_D: return RV_D;
  case RK_IMM_LD: return RV_LD;
  case RK_MEM: return ref_type_vt (o->mem_type);
  default: return RV_NONE;
  }
}

/* address registers of a memory operand: declared integer registers */
static unsigned ref_addr_rules (const ref_op_t *o) {
  unsigned e = 0;
  if (o->base_present && !o->base_declared) e |= RE_UNDECL;
  if (o->base_present && o->base_declared && !o->base_int) e |= RE_REGTYPE;
  if (o->index_present && !o->index_declared) e |= RE_UNDECL;
  if (o->index_present && o->index_declared && !o->index_int) e |= RE_REGTYPE;
  return e;
}

/* "va_list operand can be memory with undefined type.  In this case address of the va_list is not in the
   memory but is the memory address" (MIR.md, va_* insns) */
static int ref_va_list_pos_p (int code, unsigned long i) {
  return ((code == MIR_VA_START || code == MIR_VA_END) && i == 0)
         || ((code == MIR_VA_ARG || code == MIR_VA_BLOCK_ARG) && i == 1);
}

/* rules every operand has to obey regardless of position; in_call: operand of a call insn (block-type memory allowed) */
static unsigned ref_operand_rules (const ref_op_t *o, int in_call) {
  unsigned e = 0;
  if (o->kind == RK_REG && !o->declared) e |= RE_UNDECL;
  if (o->kind == RK_MEM) {
    if (!ref_scalar_type_p (o->mem_type) && !(in_call && ref_block_type_p (o->mem_type))) e |= RE_MEMTYPE;
    if (ref_block_type_p (o->mem_type) && o->disp < 0) e |= RE_MEMTYPE; /* the displacement of a block memory is its size */
    e |= ref_addr_rules (o);
  }
  return e;
}

static unsigned ref_pos_rules (const ref_op_t *o, ref_pos_t p, int in_call) {
  unsigned e = 0;
  switch (p.cls) {
  case RC_VAL:
    e |= ref_operand_rules (o, in_call);
    if (o->kind == RK_REG && !o->declared) break; /* no type to compare */
    if (ref_op_vt (o) != p.vt) e |= RE_MODE;
    if (p.out && o->kind != RK_REG && o->kind != RK_MEM) e |= RE_OUT;
    break;
  case RC_LABEL:
    e |= ref_operand_rules (o, in_call);
    if (o->kind != RK_LABEL) e |= RE_MODE;
    break;
  case RC_ANYREG:
    e |= ref_operand_rules (o, in_call);
    if (o->kind != RK_REG) e |= RE_MODE;
    break;
  case RC_ANYMEM:
    /* DOC-AMBIGUITY: only "any memory operand" is required of va_arg's 3rd operand ("the memory operand type
       defines the type of the argument"); the implementation checks nothing else of it (neither its type nor
       its address registers, which are never used).  The model follows it. */
    if (o->kind != RK_MEM) e |= RE_MODE;
    break;
  case RC_VAR:
    e |= ref_operand_rules (o, in_call);
    if (o->kind != RK_REG && o->kind != RK_MEM) e |= RE_MODE;
    break;
  case RC_INTCONST:
    /* DOC-AMBIGUITY: "integer constant"; the implementation insists on a signed immediate (MIR_new_int_op),
       an unsigned one is rejected.  The model follows it. */
    if (o->kind != RK_IMM_INT) e |= RE_MODE;
    break;
  case RC_ANY: e |= ref_operand_rules (o, in_call); break;
  }
  return e;
}

/* 0: the instruction is well-formed and must be accepted; otherwise the classes of the violated rules. */
static unsigned ref_expect (int code, unsigned long nops, const ref_op_t *ops, const ref_func_t *fn,
                            const ref_proto_t *pr, ref_prev_t prev) {
  ref_insn_t s;
  unsigned e = 0;
  unsigned long i;

  ref_insn_spec (code, &s);
  switch (s.shape) {
  case RS_UNKNOWN: return RE_UNKNOWN;
  case RS_INTERNAL: return RE_OTHER | RE_ARITY; /* never legal in a user function */
  case RS_FIXED:
    if (nops != (unsigned long) s.nops) return RE_ARITY; /* "number of operands ... should be what is expected" */
    for (i = 0; i < nops; i++) {
      if (ref_va_list_pos_p (code, i) && ops[i].kind == RK_MEM && ops[i].mem_type == MIR_T_UNDEF) {
#ifndef REF_FOLLOW_CODE_VA_LIST_UNDEF_MEM
        e |= ref_addr_rules (&ops[i]); /* documented form: only the address registers are constrained */
        continue;
#endif
      }
      e |= ref_pos_rules (&ops[i], s.pos[i], 0);
    }
    /* insn-specific context rules */
    if (code == MIR_VA_START && !fn->vararg) e |= RE_OTHER; /* "only for variable number arguments functions".
       DOC-AMBIGUITY: the same sentence covers va_arg/va_block_arg/va_end, which the implementation accepts in
       any function; the model follows it. */
    if (code == MIR_JRET && fn->nres != 0) e |= RE_OTHER; /* jcall/jret ABI: "functions without args and return values" */
    if (code == MIR_BO || code == MIR_BNO || code == MIR_UBO || code == MIR_UBNO) {
      if (prev == RP_NONE || prev == RP_OTHER || prev == RP_OVF_THEN_OTHER) e |= RE_ADJ;
      if ((code == MIR_UBO || code == MIR_UBNO) && prev == RP_MULO) e |= RE_ADJ;
      if ((code == MIR_BO || code == MIR_BNO) && prev == RP_UMULO) e |= RE_ADJ;
    }
    return e;
  case RS_SWITCH:
    if (nops < 2) return RE_ARITY; /* index and N > 0 labels */
    e |= ref_pos_rules (&ops[0], REF_IN (RV_INT), 0);
    for (i = 1; i < nops; i++) e |= ref_pos_rules (&ops[i], REF_LAB, 0);
    return e;
  case RS_RET:
    if (nops != (unsigned long) fn->nres) return RE_OTHER; /* "operands should correspond to return types of the function" */
    for (i = 0; i < nops; i++) e |= ref_pos_rules (&ops[i], REF_IN (ref_type_vt (fn->res[i])), 0);
    return e;
  case RS_CALL: {
    unsigned long narg;
    if (nops < 2) return RE_ARITY;
    if (ops[0].kind != RK_REF || ops[0].item != RR_PROTO) return RE_CALL; /* "the first operand is a prototype reference" */
    if (nops < 2 + (unsigned long) pr->nres + pr->nargs || (nops != 2 + (unsigned long) pr->nres + pr->nargs && !pr->vararg))
      return RE_CALL; /* "their types and number should be the same as in the prototype" */
    /* "the second operand is a called function address": an integer value; a reference must denote something callable */
    e |= ref_pos_rules (&ops[1], REF_IN (RV_INT), 1);
    if (ops[1].kind == RK_REF && ops[1].item == RR_PROTO) e |= RE_CALL;
    if (ops[1].kind == RK_MEM && ref_block_type_p (ops[1].mem_type)) e |= RE_CALL; /* block data is not a function address */
    for (i = 2; i < nops; i++) {
      const ref_op_t *o = &ops[i];
      if (i - 2 < (unsigned long) pr->nres) { /* results */
        e |= ref_pos_rules (o, REF_OUT (ref_type_vt (pr->res[i - 2])), 1);
        if (o->kind == RK_MEM && ref_block_type_p (o->mem_type)) e |= RE_MEMTYPE;
      } else if ((narg = i - 2 - pr->nres) < (unsigned long) pr->nargs) { /* named arguments */
        int at = pr->arg_type[narg];
        if (ref_block_type_p (at)) { /* block argument: block memory of the same type and size */
          e |= ref_operand_rules (o, 1);
          if (o->kind != RK_MEM || o->mem_type != at || (unsigned long long) o->disp != pr->arg_size[narg]) e |= RE_MEMTYPE;
        } else {
          e |= ref_pos_rules (o, REF_IN (ref_type_vt (at)), 1);
          if (o->kind == RK_MEM && ref_block_type_p (o->mem_type)) e |= RE_MEMTYPE;
        }
      } else { /* unnamed arguments of a vararg prototype: any value; a return block cannot be unnamed */
        e |= ref_operand_rules (o, 1);
        if (o->kind == RK_MEM && o->mem_type == MIR_T_RBLK) e |= RE_MEMTYPE;
      }
    }
    return e;
  }
  }
  return RE_UNKNOWN;
}
#endif
