/* sysv_ref.h -- reference model (oracle, engine E4) of the System V x86-64 C data layout and of the
   classification of aggregates for by-value passing and returning.

   Written from:
     [psABI]  System V Application Binary Interface, AMD64 Architecture Processor Supplement,
              section 3.1.2 "Data Representation" (scalar sizes/alignments, aggregates and unions,
              bit-fields) and section 3.2.3 "Parameter Passing" (classification, passing, returning);
     [GCC]    the documented bit-field rule of GCC for this target (PCC_BITFIELD_TYPE_MATTERS):
              - a bit-field of declared type T and width w > 0 is allocated at the current bit
                position unless it would then cross a boundary of a naturally aligned sizeof(T)
                storage unit, in which case it starts at the next alignof(T) boundary;
              - a NAMED bit-field gives the aggregate at least the alignment of T; an unnamed
                one (any width, including 0) does not;
              - `T : 0` moves the current position to the next alignof(T) boundary;
              - members of a union all start at bit 0; the size of a union is the largest member
                size (for a bit-field: its width in bits rounded up to bytes) rounded up to the
                union's alignment;
              - [psABI 3.2.3 as clarified in 2021, GCC >= 12] zero-width bit-fields are ignored by the
                classification; every other bit-field (named or not) makes the eightbyte that
                contains it INTEGER.
   It takes an ABSTRACT description of a declaration (array of member descriptors), never data
   structures of the code under test.  It is validated natively against gcc on generated
   declarations by ref/sysv_ref_selftest.py (layout: sizeof/_Alignof/offsetof/bit positions; passing:
   which registers / stack slots actually carry the eightbytes of an argument / a result).

   Not modelled (outside every bound that uses this file): _Alignas, packed/aligned attributes,
   __int128, _Complex, vector types (classes SSEUP / COMPLEX_X87 therefore never arise), flexible
   array members, empty aggregates. */
#ifndef SYSV_REF_H
#define SYSV_REF_H

enum sv_kind {
  SV_BOOL, SV_CHAR, SV_SCHAR, SV_UCHAR, SV_SHORT, SV_USHORT, SV_INT, SV_UINT, SV_LONG, SV_ULONG,
  SV_LLONG, SV_ULLONG, SV_ENUM /* enum whose values fit int / unsigned */, SV_NINT, /* integer kinds end */
  SV_PTR = SV_NINT, SV_FLOAT, SV_DOUBLE, SV_LDOUBLE, SV_NSCALAR,
  SV_STRUCT = SV_NSCALAR, SV_UNION, SV_NKIND
};

enum sv_class { SV_NO_CLASS, SV_INTEGER, SV_SSE, SV_X87, SV_X87UP, SV_MEMORY };

#ifndef SV_MAXM
#define SV_MAXM 6
#endif

struct sv_agg;
typedef struct sv_member {
  /* ---- description (input) ---- */
  int kind;           /* enum sv_kind: (element) type */
  int arr_n;          /* 0: not an array, n > 0: array of n elements of `kind` */
  int width;          /* -1: not a bit-field, >= 0: bit-field of this width (integer kinds only) */
  int named;          /* 0: unnamed bit-field, or anonymous struct/union member */
  struct sv_agg *sub; /* kind == SV_STRUCT/SV_UNION: the nested aggregate */
  /* ---- layout (output) ---- */
  unsigned long size, align; /* of the member's declared type (for a bit-field: of T) */
  unsigned long bitpos;      /* position of the member's first (least significant) bit, counted
                                from the start of the aggregate it is declared in */
} sv_member;

typedef struct sv_agg {
  int is_union, n;
  sv_member m[SV_MAXM];
  unsigned long size, align; /* output: sizeof, _Alignof */
} sv_agg;

/* psABI figure 3.1 */
static unsigned long sv_scalar_size (int kind) {
  switch (kind) {
  case SV_BOOL: case SV_CHAR: case SV_SCHAR: case SV_UCHAR: return 1;
  case SV_SHORT: case SV_USHORT: return 2;
  case SV_INT: case SV_UINT: case SV_ENUM: case SV_FLOAT: return 4;
  case SV_LONG: case SV_ULONG: case SV_LLONG: case SV_ULLONG: case SV_PTR: case SV_DOUBLE: return 8;
  case SV_LDOUBLE: return 16;
  default: return 0;
  }
}
static unsigned long sv_scalar_align (int kind) { return sv_scalar_size (kind); /* natural alignment, fig. 3.1 */ }
static int sv_scalar_class (int kind) { /* psABI 3.2.3 "Classification"; long double handled by the caller */
  return kind == SV_FLOAT || kind == SV_DOUBLE ? SV_SSE : kind == SV_LDOUBLE ? SV_X87 : SV_INTEGER;
}
/* every alignment and every scalar size of this ABI is a power of two (fig. 3.1): rounding and the position
   inside a storage unit are written with masks (cheap for a SAT solver; same values as / and %) */
static unsigned long sv_round_up (unsigned long v, unsigned long a) { return (v + a - 1) & ~(a - 1); }

/* Layout of an aggregate (recursively of its nested aggregates). */
static void sv_layout (sv_agg *a) {
  unsigned long pos = 0 /* current bit position (struct) */, maxbits = 0 /* union */, align = 1;
  for (int i = 0; i < a->n && i < SV_MAXM; i++) {
    sv_member *m = &a->m[i];
    unsigned long esize, ealign;
    if (m->kind >= SV_NSCALAR && m->sub != 0) { /* (sub is 0 for scalars: lets a symbolic executor see the recursion end) */
      sv_layout (m->sub);
      esize = m->sub->size;
      ealign = m->sub->align;
    } else {
      esize = sv_scalar_size (m->kind);
      ealign = sv_scalar_align (m->kind);
    }
    m->size = m->arr_n > 0 ? esize * (unsigned long) m->arr_n : esize;
    m->align = ealign;
    if (a->is_union) pos = 0;
    if (m->width < 0) { /* ordinary member: next boundary of its alignment */
      pos = sv_round_up (pos, m->align * 8);
      m->bitpos = pos;
      pos += m->size * 8;
      if (align < m->align) align = m->align;
    } else if (m->width == 0) { /* T : 0 */
      pos = sv_round_up (pos, m->align * 8);
      m->bitpos = pos;
    } else { /* bit-field */
      if ((pos & (m->size * 8 - 1)) + (unsigned long) m->width > m->size * 8) pos = sv_round_up (pos, m->align * 8);
      m->bitpos = pos;
      pos += (unsigned long) m->width;
      if (m->named && align < m->align) align = m->align;
    }
    if (maxbits < pos) maxbits = pos;
  }
  a->align = align;
  a->size = sv_round_up ((maxbits + 7) >> 3, align);
}

/* ---- classification, psABI 3.2.3 ---- */
static int sv_merge (int c1, int c2) {
  if (c1 == c2) return c1;                                                   /* (a) */
  if (c1 == SV_NO_CLASS) return c2;                                          /* (b) */
  if (c2 == SV_NO_CLASS) return c1;
  if (c1 == SV_MEMORY || c2 == SV_MEMORY) return SV_MEMORY;                  /* (c) */
  if (c1 == SV_INTEGER || c2 == SV_INTEGER) return SV_INTEGER;               /* (d) */
  if (c1 == SV_X87 || c1 == SV_X87UP || c2 == SV_X87 || c2 == SV_X87UP) return SV_MEMORY; /* (e) */
  return SV_SSE;                                                             /* (f) */
}

typedef struct sv_cls {
  int memory;     /* the aggregate has class MEMORY */
  int n;          /* number of eightbytes (1 or 2) when !memory, else 0 */
  int c[2];       /* class of each eightbyte when !memory */
  int unmodelled; /* the declaration contains a construct whose classification this model does not
                     define (see sv_classify_agg); the other fields are then meaningless */
} sv_cls;

/* Classify aggregate A, which starts at bit BASE of the outermost object (of at most 16 bytes);
   cls[] is indexed by the eightbytes of the OUTERMOST object.  Returns 0 for class MEMORY.
   "Each field of the object is classified recursively": a nested aggregate is classified as a whole,
   including its own post-merger clean-up (rule 5), before its classes are merged into the enclosing
   object -- so { long double | bit-field } nested in a larger union is MEMORY although a flat merge
   of all leaf fields would give INTEGER, INTEGER.
   Bit-fields: INTEGER for every eightbyte they touch; zero-width ones are ignored.
   NOT MODELLED (*unmodelled is set, the result is then meaningless): (i) an unnamed bit-field of any
   width that is a member of a UNION, (ii) an unnamed bit-field of non-zero width in a NESTED
   aggregate.  The psABI gives no rule for the class of such padding: unnamed bit-fields do not raise
   the alignment of their aggregate, so inside a nested aggregate they can straddle an eightbyte or
   sit at an offset that is not a multiple of their type's alignment ("unaligned field"?), and gcc
   classifies union members by the machine mode of their type (`long : 0` in a union makes the
   eightbyte INTEGER, `int : 32` at byte offset 2 makes the whole argument MEMORY).  Found by the
   self-test; such declarations stay inside the layout model. */
static int sv_classify_agg (const sv_agg *a, unsigned long base, int cls[2], int *unmodelled, int nested) {
  int own[2];
  own[0] = own[1] = SV_NO_CLASS;
  for (int i = 0; i < a->n && i < SV_MAXM; i++) {
    const sv_member *m = &a->m[i];
    unsigned long at = base + m->bitpos;
    if (m->width >= 0 && !m->named && (a->is_union || (nested && m->width > 0))) *unmodelled = 1;
    if (m->width == 0) continue; /* zero-width bit-fields are ignored */
    if (m->width > 0) {
      for (unsigned long q = at >> 6; q <= (at + (unsigned long) m->width - 1) >> 6 && q < 2; q++)
        own[q] = sv_merge (own[q], SV_INTEGER);
      continue;
    }
    int n = m->arr_n > 0 ? m->arr_n : 1;
    unsigned long esize = m->size / (unsigned long) n;
    for (int k = 0; k < n; k++) {
      unsigned long eat = at + (unsigned long) k * esize * 8;
      if (m->kind >= SV_NSCALAR && m->sub != 0) {
        int sub[2];
        sub[0] = sub[1] = SV_NO_CLASS;
        if (!sv_classify_agg (m->sub, eat, sub, unmodelled, 1)) return 0; /* rule 5(a) one level up */
        own[0] = sv_merge (own[0], sub[0]);
        own[1] = sv_merge (own[1], sub[1]);
      } else if (m->kind == SV_LDOUBLE) {
        if (eat / 64 < 2) own[eat / 64] = sv_merge (own[eat / 64], SV_X87);
        if (eat / 64 + 1 < 2) own[eat / 64 + 1] = sv_merge (own[eat / 64 + 1], SV_X87UP);
      } else if (eat / 64 < 2)
        own[eat / 64] = sv_merge (own[eat / 64], sv_scalar_class (m->kind));
    }
  }
  /* rule 5, post merger clean-up (SSEUP cannot arise without vector types) */
  if (own[0] == SV_MEMORY || own[1] == SV_MEMORY) return 0;                 /* (a) */
  if (own[0] == SV_X87UP || (own[1] == SV_X87UP && own[0] != SV_X87)) return 0; /* (b) */
  cls[0] = own[0];
  cls[1] = own[1];
  return 1;
}

/* A must have been laid out. */
static sv_cls sv_classify (const sv_agg *a) {
  sv_cls r;
  r.memory = 0; r.n = 0; r.c[0] = r.c[1] = SV_NO_CLASS; r.unmodelled = 0;
  if (a->size > 16 || a->size == 0) { /* rule 1 (no __m256/__m512 here: larger than two eightbytes is MEMORY) */
    r.memory = 1;
    return r;
  }
  r.n = a->size > 8 ? 2 : 1;
  if (!sv_classify_agg (a, 0, r.c, &r.unmodelled, 0)) r.memory = 1; /* rules 2-5 */
  if (r.memory) { r.n = 0; r.c[0] = r.c[1] = SV_NO_CLASS; }
  return r;
}

/* Passing as an argument, psABI 3.2.3 "Passing": *ni general-purpose (of 6) and *ns SSE (of 8)
   registers are already used.  Returns 1 when the argument travels in registers (then *ni, *ns are
   advanced and ireg[k]/sreg[k] say which register index eightbyte k uses, -1 if none), 0 when it is
   passed in memory (registers untouched). */
static int sv_pass_arg (const sv_cls *c, int *ni, int *ns, int ireg[2], int sreg[2]) {
  int wi = 0, ws = 0;
  ireg[0] = ireg[1] = sreg[0] = sreg[1] = -1;
  if (c->memory) return 0;
  for (int k = 0; k < c->n; k++) {
    if (c->c[k] == SV_X87 || c->c[k] == SV_X87UP) return 0; /* X87 classes are passed in memory */
    if (c->c[k] == SV_INTEGER) wi++;
    if (c->c[k] == SV_SSE) ws++;
  }
  if (*ni + wi > 6 || *ns + ws > 8) return 0; /* not enough registers for the whole argument */
  for (int k = 0; k < c->n; k++) {
    if (c->c[k] == SV_INTEGER) ireg[k] = (*ni)++;
    if (c->c[k] == SV_SSE) sreg[k] = (*ns)++;
  }
  return 1;
}

/* Returning, psABI 3.2.3 "Returning of Values": 1 = the caller passes the address of the result in
   %rdi (class MEMORY); 0 = registers: INTEGER -> rax, rdx; SSE -> xmm0, xmm1; X87(+X87UP) -> st0. */
static int sv_return_by_hidden_pointer (const sv_cls *c) { return c->memory; }

#endif
