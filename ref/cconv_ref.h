/* Reference model of the C11 conversion rules for arithmetic types on the x86-64 SysV (LP64) data model.

   Written from ISO/IEC 9899:2011, NOT from c2mir:
     6.2.5      the standard integer types, their corresponding unsigned types, the three real floating types
     6.3.1.1p1  conversion rank: _Bool < char = signed char = unsigned char < short < int < long < long long
                (an unsigned type has the rank of its corresponding signed type)
     6.3.1.1p2  integer promotions: an object of integer type whose rank is <= rank(int): "if an int can represent
                all values of the original type, the value is converted to an int; otherwise to an unsigned int";
                all other types are unchanged
     6.3.1.8p1  usual arithmetic conversions (long double > double > float > integer rules on promoted operands)
     6.3.1.2    conversion to _Bool: 0 if the value compares equal to 0, otherwise 1
     6.3.1.3    integer -> integer: value preserved if representable; to unsigned: modulo 2^N; to signed out of range:
                implementation-defined -> ASSUMPTION (gcc): modulo 2^N (two's complement wrap)
     6.3.1.4    floating -> integer: truncation toward zero; UNDEFINED if the integral part is not representable;
                integer -> floating: nearest representable (ASSUMPTION: round-to-nearest-even, the x86-64 default)
     6.3.1.5    floating -> floating: exact when widening, rounded when narrowing
   Data model (LP64): char signed 8, short 16, int 32, long 64, long long 64; float/double IEEE-754 binary32/64,
   long double x87 80-bit extended.
   The value conversions are expressed with plain C casts between fixed-width types, i.e. by the semantics of the
   reference compiler (gcc natively, CBMC's C semantics in the model). */
#ifndef CCONV_REF_H
#define CCONV_REF_H
#include <stdint.h>

typedef enum {
  CC_BOOL, CC_CHAR, CC_SCHAR, CC_UCHAR, CC_SHORT, CC_USHORT, CC_INT, CC_UINT, CC_LONG, CC_ULONG, CC_LLONG, CC_ULLONG,
  CC_FLOAT, CC_DOUBLE, CC_LDOUBLE, CC_NTYPES
} cc_type;

static inline int cc_floating (cc_type t) { return t >= CC_FLOAT; }
static inline int cc_integer (cc_type t) { return t < CC_FLOAT; }
/* plain char is signed on x86-64 SysV */
static inline int cc_signed (cc_type t) {
  return t == CC_CHAR || t == CC_SCHAR || t == CC_SHORT || t == CC_INT || t == CC_LONG || t == CC_LLONG;
}
static inline int cc_bits (cc_type t) { /* width (value bits + sign bit); _Bool has 1 value bit */
  switch (t) {
  case CC_BOOL: return 1;
  case CC_CHAR: case CC_SCHAR: case CC_UCHAR: return 8;
  case CC_SHORT: case CC_USHORT: return 16;
  case CC_INT: case CC_UINT: return 32;
  default: return 64;
  }
}
static inline int cc_rank (cc_type t) {
  switch (t) {
  case CC_BOOL: return 0;
  case CC_CHAR: case CC_SCHAR: case CC_UCHAR: return 1;
  case CC_SHORT: case CC_USHORT: return 2;
  case CC_INT: case CC_UINT: return 3;
  case CC_LONG: case CC_ULONG: return 4;
  default: return 5;
  }
}
static inline cc_type cc_unsigned_of (cc_type t) { /* the unsigned type corresponding to a signed type */
  switch (t) {
  case CC_CHAR: case CC_SCHAR: return CC_UCHAR;
  case CC_SHORT: return CC_USHORT;
  case CC_INT: return CC_UINT;
  case CC_LONG: return CC_ULONG;
  case CC_LLONG: return CC_ULLONG;
  default: return t;
  }
}
/* can the type `a` represent all values of the type `b`? (integer types) */
static inline int cc_represents_all (cc_type a, cc_type b) {
  int va = cc_bits (a) - (cc_signed (a) ? 1 : 0), vb = cc_bits (b) - (cc_signed (b) ? 1 : 0); /* value bits */
  if (!cc_signed (a) && cc_signed (b)) return 0; /* negative values */
  return va >= vb;
}

/* 6.3.1.1p2 */
static inline cc_type cc_promote (cc_type t) {
  if (cc_rank (t) <= cc_rank (CC_INT) && t != CC_INT && t != CC_UINT) return cc_represents_all (CC_INT, t) ? CC_INT : CC_UINT;
  return t;
}

/* 6.3.1.8p1 */
static inline cc_type cc_usual (cc_type a, cc_type b) {
  if (a == CC_LDOUBLE || b == CC_LDOUBLE) return CC_LDOUBLE;
  if (a == CC_DOUBLE || b == CC_DOUBLE) return CC_DOUBLE;
  if (a == CC_FLOAT || b == CC_FLOAT) return CC_FLOAT;
  a = cc_promote (a);
  b = cc_promote (b);
  if (a == b) return a;
  if (cc_signed (a) == cc_signed (b)) return cc_rank (a) > cc_rank (b) ? a : b;
  {
    cc_type u = cc_signed (a) ? b : a, s = cc_signed (a) ? a : b;
    if (cc_rank (u) >= cc_rank (s)) return u;
    if (cc_represents_all (s, u)) return s;
    return cc_unsigned_of (s);
  }
}

/* A constant of arithmetic type: `i` for signed integer types, `u` for unsigned integer types (and _Bool),
   `d` for the floating types (a float/double value held in a long double). */
typedef struct {
  int64_t i;
  uint64_t u;
  long double d;
} cc_const;

/* is `c` a value of type t? */
static inline int cc_value_of_type (cc_type t, cc_const c) {
  switch (t) {
  case CC_BOOL: return c.u <= 1;
  case CC_CHAR: case CC_SCHAR: return c.i == (int8_t) c.i;
  case CC_UCHAR: return c.u == (uint8_t) c.u;
  case CC_SHORT: return c.i == (int16_t) c.i;
  case CC_USHORT: return c.u == (uint16_t) c.u;
  case CC_INT: return c.i == (int32_t) c.i;
  case CC_UINT: return c.u == (uint32_t) c.u;
  case CC_FLOAT: return c.d != c.d || (long double) (float) c.d == c.d;
  case CC_DOUBLE: return c.d != c.d || (long double) (double) c.d == c.d;
  default: return 1;
  }
}

/* truncation of x is representable in an integer type with the given bounds (exact in x87 extended) */
#define CC_FITS(x, lo, hi) ((x) > (long double) (lo) - 1.0L && (x) < (long double) (hi) + 1.0L)

/* (to) x for x of C type S; returns 0 when the conversion is undefined (6.3.1.4p1) */
#define CC_CAST_FROM(S, x, is_fp)                                                                          \
  switch (to) {                                                                                            \
  case CC_BOOL: out->u = (_Bool) (x); return 1;                                                            \
  case CC_CHAR:                                                                                            \
  case CC_SCHAR: if (is_fp && !CC_FITS (x, INT8_MIN, INT8_MAX)) return 0; out->i = (int8_t) (x); return 1; \
  case CC_UCHAR: if (is_fp && !CC_FITS (x, 0, UINT8_MAX)) return 0; out->u = (uint8_t) (x); return 1;      \
  case CC_SHORT: if (is_fp && !CC_FITS (x, INT16_MIN, INT16_MAX)) return 0; out->i = (int16_t) (x); return 1; \
  case CC_USHORT: if (is_fp && !CC_FITS (x, 0, UINT16_MAX)) return 0; out->u = (uint16_t) (x); return 1;   \
  case CC_INT: if (is_fp && !CC_FITS (x, INT32_MIN, INT32_MAX)) return 0; out->i = (int32_t) (x); return 1; \
  case CC_UINT: if (is_fp && !CC_FITS (x, 0, UINT32_MAX)) return 0; out->u = (uint32_t) (x); return 1;     \
  case CC_LONG:                                                                                            \
  case CC_LLONG: if (is_fp && !CC_FITS (x, INT64_MIN, INT64_MAX)) return 0; out->i = (int64_t) (x); return 1; \
  case CC_ULONG:                                                                                           \
  case CC_ULLONG: if (is_fp && !CC_FITS (x, 0, UINT64_MAX)) return 0; out->u = (uint64_t) (x); return 1;   \
  case CC_FLOAT: out->d = (float) (x); return 1;                                                           \
  case CC_DOUBLE: out->d = (double) (x); return 1;                                                         \
  case CC_LDOUBLE: out->d = (long double) (x); return 1;                                                   \
  default: return 0;                                                                                       \
  }

static inline int cc_cast (cc_type from, cc_type to, cc_const in, cc_const *out) {
  out->i = 0, out->u = 0, out->d = 0;
  switch (from) {
  case CC_BOOL: { _Bool x = in.u != 0; CC_CAST_FROM (_Bool, x, 0) }
  case CC_CHAR:
  case CC_SCHAR: { int8_t x = (int8_t) in.i; CC_CAST_FROM (int8_t, x, 0) }
  case CC_UCHAR: { uint8_t x = (uint8_t) in.u; CC_CAST_FROM (uint8_t, x, 0) }
  case CC_SHORT: { int16_t x = (int16_t) in.i; CC_CAST_FROM (int16_t, x, 0) }
  case CC_USHORT: { uint16_t x = (uint16_t) in.u; CC_CAST_FROM (uint16_t, x, 0) }
  case CC_INT: { int32_t x = (int32_t) in.i; CC_CAST_FROM (int32_t, x, 0) }
  case CC_UINT: { uint32_t x = (uint32_t) in.u; CC_CAST_FROM (uint32_t, x, 0) }
  case CC_LONG:
  case CC_LLONG: { int64_t x = in.i; CC_CAST_FROM (int64_t, x, 0) }
  case CC_ULONG:
  case CC_ULLONG: { uint64_t x = in.u; CC_CAST_FROM (uint64_t, x, 0) }
  case CC_FLOAT: { float x = (float) in.d; CC_CAST_FROM (float, x, 1) }
  case CC_DOUBLE: { double x = (double) in.d; CC_CAST_FROM (double, x, 1) }
  case CC_LDOUBLE: { long double x = in.d; CC_CAST_FROM (long double, x, 1) }
  default: return 0;
  }
}
#endif
