/* Reference for the value and type of a C binary operator applied to two integer constants (C11 6.5.5-6.5.12,
   6.3.1.1, 6.3.1.8; x86-64 LP64; implementation-defined choices as gcc: >> of a negative value is arithmetic).
   Written from the standard, independent of c2mir.  Operands are given as (type, 64-bit pattern holding a value
   of the type: sign-extended for signed types, zero-extended for unsigned types and _Bool).
   cf_fold returns 0 when the standard leaves the expression undefined (then nothing is asserted):
     signed overflow in + - *, division by zero, INT_MIN / -1 (and %), shift count negative or >= width of the
     promoted left operand, << of a negative value or with a result not representable in the result type. */
#ifndef CFOLD_REF_H
#define CFOLD_REF_H
#include <stdint.h>
#include "cconv_ref.h"

enum cf_op { CF_AND, CF_OR, CF_XOR, CF_LSH, CF_RSH, CF_ADD, CF_SUB, CF_MUL, CF_DIV, CF_MOD, CF_NOPS };

/* bits of a value of integer type t converted to integer type `to` (6.3.1.3; out-of-range to signed wraps as gcc) */
static inline uint64_t cf_conv (cc_type t, uint64_t bits, cc_type to) {
  int w = cc_bits (to);
  (void) t; /* the pattern already is the value sign/zero-extended to 64 bits */
  if (to == CC_BOOL) return bits != 0;
  if (w == 64) return bits;
  bits &= (1ull << w) - 1;
  if (cc_signed (to) && (bits >> (w - 1)) & 1) bits |= ~((1ull << w) - 1);
  return bits;
}

static inline int cf_fold (enum cf_op op, cc_type t1, uint64_t a, cc_type t2, uint64_t b, cc_type *rt, uint64_t *res) {
  int shift = op == CF_LSH || op == CF_RSH;
  cc_type t = shift ? cc_promote (t1) : cc_usual (t1, t2);
  int w = cc_bits (t), sg = cc_signed (t);
  uint64_t x = cf_conv (t1, a, t), y, r = 0;
  *rt = t;
  if (shift) {
    cc_type ct = cc_promote (t2);
    y = cf_conv (t2, b, ct);
    if (cc_signed (ct) && (int64_t) y < 0) return 0;
    if (y >= (uint64_t) w) return 0;
    if (op == CF_LSH) {
      if (sg) {
        if ((int64_t) x < 0) return 0;
        if (y != 0 && (x >> (w - 1 - y)) != 0) return 0; /* x * 2^y must be representable */
      }
      r = x << y;
    } else {
      r = sg ? (uint64_t) ((int64_t) x >> y) : x >> y;
    }
    *res = cf_conv (t, r, t);
    return 1;
  }
  y = cf_conv (t2, b, t);
  switch (op) {
  case CF_AND: r = x & y; break;
  case CF_OR: r = x | y; break;
  case CF_XOR: r = x ^ y; break;
  case CF_ADD:
  case CF_SUB:
  case CF_MUL:
    if (sg) {
      int64_t sx = (int64_t) x, sy = (int64_t) y, p;
      int ovf;
      if (w == 32) { /* both operands are 32-bit values: the 64-bit result is exact */
        p = op == CF_ADD ? sx + sy : op == CF_SUB ? sx - sy : sx * sy;
        ovf = p < INT32_MIN || p > INT32_MAX;
      } else {
        ovf = op == CF_ADD ? __builtin_add_overflow (sx, sy, &p) : op == CF_SUB ? __builtin_sub_overflow (sx, sy, &p) : __builtin_mul_overflow (sx, sy, &p);
      }
      if (ovf) return 0;
      r = (uint64_t) p;
    } else {
      r = op == CF_ADD ? x + y : op == CF_SUB ? x - y : x * y;
    }
    break;
  case CF_DIV:
  case CF_MOD:
    if (y == 0) return 0;
    if (sg) {
      if ((int64_t) y == -1 && (int64_t) x == (w == 32 ? (int64_t) INT32_MIN : INT64_MIN)) return 0;
      r = (uint64_t) (op == CF_DIV ? (int64_t) x / (int64_t) y : (int64_t) x % (int64_t) y);
    } else {
      r = op == CF_DIV ? x / y : x % y;
    }
    break;
  default: return 0;
  }
  *res = cf_conv (t, r, t);
  return 1;
}
#endif
