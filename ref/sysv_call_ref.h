/* sysv_call_ref.h -- reference model (oracle) for argument / result LOCATION assignment of a MIR
   prototype under the System V x86-64 calling convention.  Used by C05, C06, C03 (DESIGN.md E4).

   Written from the documents, not from mir-x86_64.c / mir-gen-x86_64.c:

   [psABI]  System V ABI, AMD64 supplement 1.0, section 3.2.3 "Parameter Passing" and 3.5.7 "Variable
            Argument Lists" (va_list layout).
   [MIR.md] "MIR data type" (i8..u64 p f d ld, blk / rblk), "MIR function" (block data are passed by
            value; up to six results on x86-64: two integer, two float/double, two long double values in
            any combination), "MIR_CALL insn" (integer arguments are truncated according to the prototype
            type) and the legend at the top of mir-x86_64.c that defines what the five block cases MEAN on
            this target (that legend is the only specification of the case numbers there is):
              blk0 (MIR_T_BLK)   class MEMORY: copied onto the caller's stack, passed implicitly
              blk1               every eightbyte class INTEGER  -> general registers
              blk2               every eightbyte class SSE      -> vector registers
              blk3               INTEGER eightbyte, then SSE eightbyte
              blk4               SSE eightbyte, then INTEGER eightbyte
              rblk               address of the block as an ordinary pointer argument (class INTEGER)
              "If there are no enough regs, they work as BLK" = psABI: if no register is available for
              ANY eightbyte of an argument the WHOLE argument goes to memory (all or nothing).

   psABI 3.2.3 in the terms needed here:
     * INTEGER class arguments take the next of rdi rsi rdx rcx r8 r9, SSE class the next of xmm0..xmm7.
     * An aggregate of up to two eightbytes is passed in registers only if every eightbyte gets one;
       otherwise nothing is assigned to it (assignments are reverted) and it is passed in memory.
       Later arguments may still use the registers that are left.
     * Memory arguments are laid out in argument order at increasing addresses starting at (%rsp) at the
       call instruction.  Each takes a multiple of 8 bytes and is aligned to max (8, alignment of the type):
       long double (class X87 -> MEMORY) is 16 bytes, 16-byte aligned.  MIR blocks carry no alignment, so 8.
     * rsp + (size of the memory argument area) is 16-byte aligned, i.e. rsp % 16 == 0 at the call instruction.
     * Variadic callee: %al = upper bound on the number of vector registers used, 0 <= al <= 8.
     * Results: class INTEGER -> next of rax, rdx; class SSE -> next of xmm0, xmm1; long double (X87) ->
       st(0); a second x87 value -> st(1) (as for _Complex long double: real st0, imaginary st1).
       The C ABI itself defines nothing beyond one two-eightbyte aggregate; for 3..6 results the statement
       of MIR.md quoted above IS the specification: the k-th result of each class takes the k-th register
       of that class, classes are counted independently, declaration order decides within a class.
     * Integer arguments / results narrower than 64 bits: the ABI defines only the low bits of the
       register or slot.  MIR additionally extends (call(): "(int8_t) v" etc.; machinize_call inserts
       ext insns); sc_extend() gives that value, harnesses assert low bits and extension separately.
     * va_list after va_start (3.5.7): gp_offset = 8 * (general registers used by NAMED arguments),
       fp_offset = 48 + 16 * (vector registers used by named arguments), overflow_arg_area = address of
       the first stack argument that is not named, reg_save_area = 176-byte block: rdi rsi rdx rcx r8 r9
       at 0,8,..,40 and xmm0..7 at 48 + 16*k.  va_arg (ap, long double) first rounds overflow_arg_area
       up to a multiple of 16.

   No loops over symbolic bounds: every loop runs over the (concrete) prototype. */
#ifndef SYSV_CALL_REF_H
#define SYSV_CALL_REF_H
#include <stdint.h>

#ifndef SC_MAX_ARGS
#define SC_MAX_ARGS 24
#endif
#define SC_MAX_RES 6

enum sc_type {
  SC_I8, SC_U8, SC_I16, SC_U16, SC_I32, SC_U32, SC_I64, SC_U64, SC_P, SC_F, SC_D, SC_LD,
  SC_BLK0, SC_BLK1, SC_BLK2, SC_BLK3, SC_BLK4, SC_RBLK, SC_TYPE_NUM
};
enum sc_class { SC_CL_NONE = 0, SC_CL_INT = 1, SC_CL_SSE = 2, SC_CL_MEM = 3 };

typedef struct { uint8_t type; uint16_t size; } sc_arg_t; /* size: bytes, block types only */

typedef struct {
  uint8_t cls[2];      /* per eightbyte: SC_CL_INT / SC_CL_SSE when passed in registers; cls[0] == SC_CL_MEM: in memory */
  uint8_t reg[2];      /* index into rdi rsi rdx rcx r8 r9  resp.  xmm0..7 */
  uint8_t nwords;      /* eightbytes the argument occupies (registers or stack) */
  uint32_t stack_off;  /* SC_CL_MEM: byte offset from rsp at the call instruction */
} sc_loc_t;

typedef struct {
  int ok;              /* 0: the prototype is outside what the block legend defines (register block > 16 bytes, ...) */
  sc_loc_t arg[SC_MAX_ARGS];
  uint32_t stack_bytes; /* size of the memory argument area before rounding up to 16 */
  uint8_t n_int, n_sse; /* registers used by all arguments */
} sc_call_t;

/* x86_state register numbers (tools/lift_rt.h order rax rcx rdx rbx rsp rbp rsi rdi r8..r15) of the
   integer argument registers, in ABI order */
static const uint8_t sc_int_arg_reg[6] = {7, 6, 2, 1, 8, 9};

static inline int sc_is_int_type (unsigned t) { return t <= SC_P || t == SC_RBLK; }
static inline int sc_is_blk_type (unsigned t) { return t >= SC_BLK0 && t <= SC_BLK4; }
static inline unsigned sc_int_bits (unsigned t) { /* width of the C type behind an integer MIR type */
  return t == SC_I8 || t == SC_U8 ? 8 : t == SC_I16 || t == SC_U16 ? 16 : t == SC_I32 || t == SC_U32 ? 32 : 64;
}
static inline uint64_t sc_low_mask (unsigned bits) { return bits >= 64 ? ~(uint64_t) 0 : (((uint64_t) 1 << bits) - 1); }
/* the 64-bit value MIR promises for an integer of MIR type t whose low bits are those of v */
static inline uint64_t sc_extend (unsigned t, uint64_t v) {
  switch (t) {
  case SC_I8: return (uint64_t) (int64_t) (int8_t) (uint8_t) v;
  case SC_U8: return (uint8_t) v;
  case SC_I16: return (uint64_t) (int64_t) (int16_t) (uint16_t) v;
  case SC_U16: return (uint16_t) v;
  case SC_I32: return (uint64_t) (int64_t) (int32_t) (uint32_t) v;
  case SC_U32: return (uint32_t) v;
  default: return v;
  }
}

/* Assign locations to the arguments args[0..nargs) (named and variadic alike: psABI passes unnamed
   arguments exactly like named ones). */
static inline void sc_assign_args (unsigned nargs, const sc_arg_t *args, sc_call_t *c) {
  unsigned n_int = 0, n_sse = 0;
  uint32_t off = 0;
  c->ok = nargs <= SC_MAX_ARGS;
  for (unsigned i = 0; i < nargs && i < SC_MAX_ARGS; i++) {
    unsigned t = args[i].type, words = 1, need_int = 0, need_sse = 0, align = 8;
    uint8_t cls0 = SC_CL_MEM, cls1 = SC_CL_NONE;
    sc_loc_t *l = &c->arg[i];
    if (sc_is_int_type (t)) { cls0 = SC_CL_INT; need_int = 1; }
    else if (t == SC_F || t == SC_D) { cls0 = SC_CL_SSE; need_sse = 1; }
    else if (t == SC_LD) { words = 2; align = 16; }
    else if (sc_is_blk_type (t)) {
      words = (args[i].size + 7u) / 8u;
      if (args[i].size == 0) c->ok = 0;
      if (t != SC_BLK0) {
        if (words > 2) c->ok = 0;                            /* a register block has at most two eightbytes */
        if ((t == SC_BLK3 || t == SC_BLK4) && words != 2) c->ok = 0;
        cls0 = t == SC_BLK1 || t == SC_BLK3 ? SC_CL_INT : SC_CL_SSE;
        if (words == 2) cls1 = t == SC_BLK1 || t == SC_BLK4 ? SC_CL_INT : SC_CL_SSE;
        need_int = (cls0 == SC_CL_INT) + (cls1 == SC_CL_INT);
        need_sse = (cls0 == SC_CL_SSE) + (cls1 == SC_CL_SSE);
      }
    } else c->ok = 0;
    if (cls0 != SC_CL_MEM && (n_int + need_int > 6 || n_sse + need_sse > 8)) { cls0 = SC_CL_MEM; cls1 = SC_CL_NONE; } /* all or nothing */
    l->nwords = (uint8_t) words;
    l->cls[0] = cls0; l->cls[1] = cls1; l->reg[0] = l->reg[1] = 0; l->stack_off = 0;
    if (cls0 == SC_CL_MEM) {
      off = (off + align - 1) / align * align;
      l->stack_off = off;
      off += 8 * words;
    } else {
      if (cls0 == SC_CL_INT) l->reg[0] = (uint8_t) n_int++; else l->reg[0] = (uint8_t) n_sse++;
      if (cls1 == SC_CL_INT) l->reg[1] = (uint8_t) n_int++; else if (cls1 == SC_CL_SSE) l->reg[1] = (uint8_t) n_sse++;
    }
  }
  c->stack_bytes = off;
  c->n_int = (uint8_t) n_int; c->n_sse = (uint8_t) n_sse;
}

/* results */
enum sc_resloc { SC_R_RAX, SC_R_RDX, SC_R_XMM0, SC_R_XMM1, SC_R_ST0, SC_R_ST1, SC_R_BAD };
static inline int sc_assign_results (unsigned nres, const uint8_t *types, uint8_t *locs) { /* returns 0 if not representable */
  unsigned n_int = 0, n_sse = 0, n_x87 = 0;
  int ok = nres <= SC_MAX_RES;
  for (unsigned i = 0; i < nres && i < SC_MAX_RES; i++) {
    unsigned t = types[i];
    if (t <= SC_P) { locs[i] = n_int == 0 ? SC_R_RAX : n_int == 1 ? SC_R_RDX : SC_R_BAD; n_int++; }
    else if (t == SC_F || t == SC_D) { locs[i] = n_sse == 0 ? SC_R_XMM0 : n_sse == 1 ? SC_R_XMM1 : SC_R_BAD; n_sse++; }
    else if (t == SC_LD) { locs[i] = n_x87 == 0 ? SC_R_ST0 : n_x87 == 1 ? SC_R_ST1 : SC_R_BAD; n_x87++; }
    else locs[i] = SC_R_BAD;
    if (locs[i] == SC_R_BAD) ok = 0;
  }
  return ok;
}

/* va_list state right after va_start in a function whose NAMED parameters are args[0..nnamed):
   offsets as psABI 3.5.7; overflow_off = byte offset of overflow_arg_area from the first stack argument
   (= entry rsp + 8). */
typedef struct { uint32_t gp_offset, fp_offset, overflow_off; } sc_va_t;
static inline void sc_va_start (unsigned nnamed, const sc_arg_t *args, sc_va_t *va) {
  sc_call_t c;
  sc_assign_args (nnamed, args, &c);
  va->gp_offset = 8u * c.n_int;
  va->fp_offset = 48u + 16u * c.n_sse;
  va->overflow_off = c.stack_bytes;
}
/* va_arg (psABI 3.5.7, figure 3.35 "Algorithm for va_arg"): address of the next argument of MIR type t in a va_list
   whose fields are held in *v (the fields are advanced).  Blocks are not handled here. */
typedef struct { uint32_t gp_offset, fp_offset; uint64_t overflow_arg_area, reg_save_area; } sc_valist_t;
static inline uint64_t sc_va_arg_addr (sc_valist_t *v, unsigned t) {
  uint64_t a;
  if (sc_is_int_type (t) && v->gp_offset <= 48 - 8) { a = v->reg_save_area + v->gp_offset; v->gp_offset += 8; return a; }
  if ((t == SC_F || t == SC_D) && v->fp_offset <= 176 - 16) { a = v->reg_save_area + v->fp_offset; v->fp_offset += 16; return a; }
  if (t == SC_LD) v->overflow_arg_area = (v->overflow_arg_area + 15) & ~(uint64_t) 15;
  a = v->overflow_arg_area;
  v->overflow_arg_area += t == SC_LD ? 16 : 8;
  return a;
}
#endif
