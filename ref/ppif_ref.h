/* Reference model of the evaluation of #if / #elif controlling expressions.

   Written from ISO/IEC 9899:2011 (C11), NOT from c2mir:
     6.10.1p4  after macro replacement and replacing identifiers by 0 the controlling expression is evaluated
               according to the rules of 6.6; "all signed integer types and all unsigned integer types act as
               if they have the same representation as, respectively, intmax_t and uintmax_t".
               => every operand is an intmax_t (signed, 64 bit) or an uintmax_t (unsigned, 64 bit);
               integer promotions never change such a type.
     6.5.3.3   unary + - ~ : result has the (promoted) operand type;  ! : result has type int, value 0/1
     6.5.5/6   * / % + -   : usual arithmetic conversions (6.3.1.8): one operand unsigned => both uintmax_t
               / % by zero : undefined in 6.5.5p5; in a constant expression a constraint of 6.6p4 is violated
                             => a diagnostic is REQUIRED (gcc: "division by zero in #if")
     6.5.7     << >>       : integer promotions on EACH operand separately, result type = promoted LEFT operand;
                             the right operand is NOT converted to the type of the left one;
                             count negative or >= width (64) => undefined;  E1<<E2 for signed E1: E1 negative or
                             E1*2^E2 not representable => undefined;  E1>>E2 for negative E1: implementation-
                             defined => ASSUMPTION (gcc, x86-64): arithmetic shift
     6.5.8/9   < > <= >= == != : usual arithmetic conversions on the operands; result has type int (0/1)
     6.5.10-12 & ^ |       : usual arithmetic conversions
     6.5.13/14 && ||       : result int 0/1; the second operand is not evaluated when the first decides
     6.5.15    ?:          : only one of operands 2/3 is evaluated; usual arithmetic conversions of operands 2 and 3
                             determine the result type, the selected value is converted to it
     6.5p5     signed overflow in + - * unary-  : undefined (and 6.6p4 violated)
     6.6p3 + footnote 118 / 6.6p11: a subexpression that is not evaluated contributes its TYPE only; undefined
               behaviour or a zero divisor inside it does not matter.
   "int" results act as intmax_t here (signed).

   Evaluation is compositional: an operand carries the flags of its own evaluation; an operator adopts the flags
   of exactly those operands that it evaluates.  `undef` = undefined behaviour happened in an evaluated position
   (nothing is required of an implementation), `diag` = division or remainder by zero in an evaluated position
   (a diagnostic is required). */
#ifndef PPIF_REF_H
#define PPIF_REF_H
#include <stdint.h>

typedef enum {
  PPIF_BITNOT, PPIF_NOT, PPIF_PLUS, PPIF_NEG,                         /* unary */
  PPIF_EQ, PPIF_NE, PPIF_LT, PPIF_LE, PPIF_GT, PPIF_GE,               /* binary, int result */
  PPIF_ADD, PPIF_SUB, PPIF_MUL, PPIF_DIV, PPIF_MOD,                   /* binary arithmetic */
  PPIF_AND, PPIF_OR, PPIF_XOR, PPIF_LSH, PPIF_RSH,                    /* bitwise, shifts */
  PPIF_ANDAND, PPIF_OROR,                                             /* logical */
  PPIF_COND,                                                          /* ternary */
  PPIF_NOPS
} ppif_op;

typedef struct {
  int uns;       /* 0: intmax_t, 1: uintmax_t */
  uint64_t bits; /* two's complement representation */
  int undef;     /* undefined behaviour in an evaluated position */
  int diag;      /* division/remainder by zero in an evaluated position */
} ppif_val;

static inline int ppif_arity (ppif_op op) { return op <= PPIF_NEG ? 1 : op == PPIF_COND ? 3 : 2; }

static inline ppif_val ppif_leaf (int uns, uint64_t bits) {
  ppif_val v = {uns != 0, bits, 0, 0};
  return v;
}

/* exact mathematical result of signed +,-,* fits into intmax_t? (decided without overflowing) */
static inline int ppif_sadd_ok (int64_t a, int64_t b) {
  return b >= 0 ? a <= INT64_MAX - b : a >= INT64_MIN - b;
}
static inline int ppif_ssub_ok (int64_t a, int64_t b) {
  return b >= 0 ? a >= INT64_MIN + b : a <= INT64_MAX + b;
}
static inline int ppif_smul_ok (int64_t a, int64_t b) {
#ifdef __SIZEOF_INT128__
  __int128 p = (__int128) a * (__int128) b; /* exact */
  return p >= (__int128) INT64_MIN && p <= (__int128) INT64_MAX;
#endif
  if (a == 0 || b == 0) return 1;
  if (a > 0) return b > 0 ? a <= INT64_MAX / b : b >= INT64_MIN / a;
  return b > 0 ? a >= INT64_MIN / b : (a != INT64_MIN && b != INT64_MIN && -a <= INT64_MAX / -b);
}

/* Apply operator OP to already evaluated operands (b, c ignored according to the arity). */
static inline ppif_val ppif_apply (ppif_op op, ppif_val a, ppif_val b, ppif_val c) {
  ppif_val r = {0, 0, 0, 0};
  int n = ppif_arity (op);
  int ta = a.bits != 0, tb = b.bits != 0; /* truth values (same for both interpretations) */

  /* --- which operands are evaluated --- */
  r.undef = a.undef, r.diag = a.diag;
  if (n == 2) {
    int second = op == PPIF_ANDAND ? ta : op == PPIF_OROR ? !ta : 1;
    if (second) r.undef |= b.undef, r.diag |= b.diag;
  } else if (n == 3) {
    ppif_val s = ta ? b : c;
    r.undef |= s.undef, r.diag |= s.diag;
  }

  /* --- result type --- */
  switch (op) {
  case PPIF_BITNOT: case PPIF_PLUS: case PPIF_NEG: case PPIF_LSH: case PPIF_RSH: r.uns = a.uns; break;
  case PPIF_NOT: case PPIF_EQ: case PPIF_NE: case PPIF_LT: case PPIF_LE: case PPIF_GT: case PPIF_GE:
  case PPIF_ANDAND: case PPIF_OROR: r.uns = 0; break;
  case PPIF_COND: r.uns = b.uns || c.uns; break;
  default: r.uns = a.uns || b.uns; break;
  }

  /* --- value --- */
  {
    int cu = a.uns || b.uns; /* common type of a binary operator's operands is unsigned */
    uint64_t ua = a.bits, ub = b.bits;
    int64_t sa = (int64_t) a.bits, sb = (int64_t) b.bits;

    switch (op) {
    case PPIF_BITNOT: r.bits = ~ua; break;
    case PPIF_NOT: r.bits = !ta; break;
    case PPIF_PLUS: r.bits = ua; break;
    case PPIF_NEG:
      if (!a.uns && sa == INT64_MIN) r.undef = 1;
      r.bits = 0 - ua;
      break;
    case PPIF_EQ: r.bits = ua == ub; break;
    case PPIF_NE: r.bits = ua != ub; break;
    case PPIF_LT: r.bits = cu ? ua < ub : sa < sb; break;
    case PPIF_LE: r.bits = cu ? ua <= ub : sa <= sb; break;
    case PPIF_GT: r.bits = cu ? ua > ub : sa > sb; break;
    case PPIF_GE: r.bits = cu ? ua >= ub : sa >= sb; break;
    case PPIF_ADD:
      if (!cu && !ppif_sadd_ok (sa, sb)) r.undef = 1;
      r.bits = ua + ub;
      break;
    case PPIF_SUB:
      if (!cu && !ppif_ssub_ok (sa, sb)) r.undef = 1;
      r.bits = ua - ub;
      break;
    case PPIF_MUL:
      if (!cu && !ppif_smul_ok (sa, sb)) r.undef = 1;
      r.bits = ua * ub;
      break;
    case PPIF_DIV:
    case PPIF_MOD:
      if (ub == 0) {
        r.diag = 1;
        r.bits = 0;
      } else if (cu) {
        r.bits = op == PPIF_DIV ? ua / ub : ua % ub;
      } else if (sa == INT64_MIN && sb == -1) {
        r.undef = 1; /* quotient not representable: 6.5.5p6 */
        r.bits = 0;
      } else {
        r.bits = (uint64_t) (op == PPIF_DIV ? sa / sb : sa % sb);
      }
      break;
    case PPIF_AND: r.bits = ua & ub; break;
    case PPIF_OR: r.bits = ua | ub; break;
    case PPIF_XOR: r.bits = ua ^ ub; break;
    case PPIF_LSH:
    case PPIF_RSH:
      /* the count is taken in ITS OWN type: negative (signed) or >= 64 is undefined */
      if ((!b.uns && sb < 0) || ub >= 64) {
        r.undef = 1;
        r.bits = 0;
      } else if (op == PPIF_LSH) {
        if (!a.uns && (sa < 0 || (ub != 0 && (ua >> (63 - ub)) != 0))) r.undef = 1; /* E1*2^E2 > INTMAX_MAX */
        r.bits = ua << ub;
      } else if (a.uns || sa >= 0) {
        r.bits = ua >> ub;
      } else { /* ASSUMPTION: arithmetic shift of a negative value (gcc on x86-64) */
        r.bits = ~(~ua >> ub);
      }
      break;
    case PPIF_ANDAND: r.bits = ta && tb; break;
    case PPIF_OROR: r.bits = ta || tb; break;
    case PPIF_COND:
      /* conversion intmax_t <-> uintmax_t keeps the representation */
      r.bits = ta ? b.bits : c.bits;
      break;
    default: break;
    }
  }
  return r;
}
#endif
