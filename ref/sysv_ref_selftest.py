#!/usr/bin/env python3
"""Native self-test of the ORACLE ref/sysv_ref.h against gcc (no CBMC involved; run from setup_cmd).

Generates N random aggregate declarations (struct/union, nesting <= 2, arrays, every scalar kind,
bit-fields of every width/sign incl. zero-width and unnamed ones, anonymous struct/union members),
and compares, inside one generated C program compiled by the platform compiler:
  layout   sizeof / _Alignof / offsetof of every named member and the absolute bit position and
           width of every named bit-field (found by storing all-ones into a zeroed object) with
           sv_layout();
  passing  which register (rdi.., xmm0..) or stack slot really carries each eightbyte of a by-value
           argument -- once as the first argument and once after 5 integer + 7 double arguments --
           with sv_classify()/sv_pass_arg(), and where a by-value result really comes back (rax/rdx/
           xmm0/xmm1/st0/hidden pointer) with sv_classify()/sv_return_by_hidden_pointer().
This guards the oracle; it is not part of any property's verdict.

usage: sysv_ref_selftest.py [-n CASES] [--seed S] [--keep DIR]
exit 0: oracle agrees with the compiler on every case; 1: disagreement (printed); 2: tool problem."""
import argparse
import concurrent.futures as cf
import os
import random
import shutil
import subprocess
import sys
import tempfile

HERE = os.path.dirname(os.path.abspath(__file__))

KINDS = [("SV_BOOL", "_Bool", 8), ("SV_CHAR", "char", 8), ("SV_SCHAR", "signed char", 8), ("SV_UCHAR", "unsigned char", 8),
         ("SV_SHORT", "short", 16), ("SV_USHORT", "unsigned short", 16), ("SV_INT", "int", 32), ("SV_UINT", "unsigned", 32),
         ("SV_LONG", "long", 64), ("SV_ULONG", "unsigned long", 64), ("SV_LLONG", "long long", 64),
         ("SV_ULLONG", "unsigned long long", 64), ("SV_ENUM", "enum e_t", 32),
         ("SV_PTR", "void *", 0), ("SV_FLOAT", "float", 0), ("SV_DOUBLE", "double", 0), ("SV_LDOUBLE", "long double", 0)]
NINT = 13


class Gen:
    def __init__(self, rnd, case):
        self.rnd, self.case, self.nsub, self.nname = rnd, case, 0, 0
        self.aggs = []      # (cname, initializer text) in dependency order
        self.probes = []    # (path expr, expected-bitpos expr, width or None, is_bool)

    def agg(self, depth, maxn, prefix, pos_expr, anon_ok):
        """returns (C body text, name of the sv_agg variable)"""
        r = self.rnd
        is_union = r.random() < 0.3
        n = r.randint(1, maxn)
        me = "A%d_%d" % (self.case, self.nsub)
        self.nsub += 1
        body, inits = [], []
        has_named = False   # an aggregate without any named member is empty (GNU extension): outside the model
        for i in range(n):
            mname = "m%d" % self.nname   # unique within the case: members of anonymous aggregates share the outer scope
            self.nname += 1
            here = "%s + %s.m[%d].bitpos" % (pos_expr, me, i)
            x = r.random()
            if depth < 2 and x < 0.22:      # nested or anonymous aggregate
                anon = anon_ok and r.random() < 0.4
                arr = 0 if anon or r.random() < 0.7 else r.randint(1, 3)
                sub_prefix = prefix if anon else prefix + mname + ("[0]." if arr else ".")
                np = len(self.probes)
                sbody, sname, sunion = self.agg(depth + 1, 3, sub_prefix, here, anon_ok)
                for e in range(1, arr):     # the other array elements: data-bit mask only
                    for (pp, _, ww, bb, leaf) in self.probes[np:]:
                        if leaf and pp.startswith(sub_prefix):
                            self.probes.append((prefix + mname + "[%d]." % e + pp[len(sub_prefix):], None, ww, bb, True))
                kw = "union" if sunion else "struct"
                body.append("%s { %s } %s%s;" % (kw, sbody, "" if anon else mname, "[%d]" % arr if arr else ""))
                inits.append("{%s, %d, -1, %d, &%s}" % ("SV_UNION" if sunion else "SV_STRUCT", arr, 0 if anon else 1, sname))
                has_named = True
                if not anon:
                    self.probes.append((prefix + mname, here, None, False, False))
                continue
            k = r.randrange(len(KINDS))
            sv, cty, bits = KINDS[k]
            if k < NINT and x < 0.60:       # bit-field
                maxw = 1 if sv == "SV_BOOL" else bits
                named = r.random() < 0.8 or (i == n - 1 and not has_named)
                has_named |= named
                w = r.choice([1, maxw, r.randint(1, maxw), r.randint(1, maxw)]) if named or r.random() < 0.5 else 0
                body.append("%s %s: %d;" % (cty, mname if named else "", w))
                inits.append("{%s, 0, %d, %d, 0}" % (sv, w, 1 if named else 0))
                if named:
                    self.probes.append((prefix + mname, here, w, sv == "SV_BOOL", True))
                continue
            arr = 0 if r.random() < 0.7 else r.randint(1, 3)
            if cty.endswith("*"):
                body.append("void *%s%s;" % (mname, "[%d]" % arr if arr else ""))
            else:
                body.append("%s %s%s;" % (cty, mname, "[%d]" % arr if arr else ""))
            inits.append("{%s, %d, -1, 1, 0}" % (sv, arr))
            has_named = True
            self.probes.append((prefix + mname, here, None, False, True))
        self.aggs.append((me, "{%d, %d, {%s}}" % (1 if is_union else 0, n, ", ".join(inits))))
        return " ".join(body), me, is_union


def gen_case(rnd, k):
    g = Gen(rnd, k)
    body, top, is_union = g.agg(0, 5, "", "0UL", True)
    kw = "union" if is_union else "struct"
    out = []
    out.append("/* ---- case %d ---- */" % k)
    out.append("%s S%d { %s };" % (kw, k, body))
    out.append("typedef %s S%d T%d;" % (kw, k, k))
    for name, init in g.aggs:
        out.append("static sv_agg %s = %s;" % (name, init))
    out.append("static T%d val%d;" % (k, k))
    out.append("static T%d ret%d (void) { return val%d; }" % (k, k, k))
    out.append("static void case%d (void) {" % k)
    out.append("  const char *decl = \"%s S%d { %s }\";" % (kw, k, body))
    out.append("  union { T%d s; unsigned char b[sizeof (T%d)]; } u;" % (k, k))
    out.append("  sv_layout (&%s);" % top)
    out.append("  EXPECT (sizeof (T%d) == %s.size, \"sizeof\", sizeof (T%d), %s.size);" % (k, top, k, top))
    out.append("  EXPECT (_Alignof (T%d) == %s.align, \"_Alignof\", _Alignof (T%d), %s.align);" % (k, top, k, top))
    for path, pos, w, is_bool, leaf in g.probes:
        if pos is None:
            continue
        if w is None:
            out.append("  EXPECT ((unsigned long) ((char *) &u.s.%s - (char *) &u.s) * 8 == %s, \"offsetof %s\", "
                       "(unsigned long) ((char *) &u.s.%s - (char *) &u.s) * 8, %s);" % (path, pos, path, path, pos))
        else:
            out.append("  memset (&u, 0, sizeof (u)); u.s.%s = %s;" % (path, "1" if is_bool else "-1"))
            out.append("  { long lo = lowest_bit (u.b, sizeof (u)), cnt = count_bits (u.b, sizeof (u));")
            out.append("    EXPECT (lo == (long) (%s), \"bit position of %s\", lo, %s);" % (pos, path, pos))
            out.append("    EXPECT (cnt == %d, \"bit count of %s\", cnt, %dL); }" % (w, path, w))
    # passing
    out.append("  { sv_cls c = sv_classify (&%s); int ni, ns, ir[2], sr[2], inreg;" % top)
    out.append("    if (c.unmodelled) { nunmodelled++; ncases++; return; }")
    out.append("    unsigned char mask[sizeof (T%d)];" % k)
    out.append("    memset (&u, 0, sizeof (u));   /* mask of the bits that carry data (padding need not be passed) */")
    for path, pos, w, is_bool, leaf in g.probes:
        if leaf and w is None:
            out.append("    memset (&u.s.%s, 0xff, sizeof (u.s.%s));" % (path, path))
        elif leaf:
            out.append("    u.s.%s = %s;" % (path, "1" if is_bool else "-1"))
    out.append("    memcpy (mask, u.b, sizeof (mask));")
    out.append("    fill (&val%d, sizeof (val%d));" % (k, k))
    out.append("    ni = ns = 0; inreg = sv_pass_arg (&c, &ni, &ns, ir, sr);")
    out.append("    clear_got (); ((void (*) (T%d)) raw_probe_p) (val%d);" % (k, k))
    out.append("    check_arg (decl, \"first argument\", &val%d, sizeof (val%d), mask, &c, inreg, ir, sr);" % (k, k))
    out.append("    ni = 5; ns = 7; inreg = sv_pass_arg (&c, &ni, &ns, ir, sr);")
    out.append("    clear_got (); ((void (*) (long, long, long, long, long, double, double, double, double, double, double, double, T%d)) raw_probe_p)"
               " (1, 2, 3, 4, 5, 1., 2., 3., 4., 5., 6., 7., val%d);" % (k, k))
    out.append("    check_arg (decl, \"argument after 5 ints and 7 doubles\", &val%d, sizeof (val%d), mask, &c, inreg, ir, sr);" % (k, k))
    out.append("    check_ret (decl, (void *) ret%d, &val%d, sizeof (val%d), mask, &c);" % (k, k, k))
    out.append("  }")
    out.append("  ncases++;")
    out.append("}")
    return "\n".join(out)


PRELUDE = r"""
#include <stdio.h>
#include <string.h>
#include "sysv_ref.h"
enum e_t { E_A, E_B, E_C };
static long nfail, ncases, nchecks, nunmodelled;
#define EXPECT(c, what, got, exp) \
  do { nchecks++; if (!(c)) { nfail++; printf ("MISMATCH case `%s`: %s: compiler %ld, oracle %ld\n", decl, what, (long) (got), (long) (exp)); } } while (0)
static long lowest_bit (const unsigned char *b, unsigned long n) {
  for (unsigned long i = 0; i < n * 8; i++) if ((b[i / 8] >> (i % 8)) & 1) return (long) i;
  return -1;
}
static long count_bits (const unsigned char *b, unsigned long n) {
  long c = 0;
  for (unsigned long i = 0; i < n * 8; i++) c += (b[i / 8] >> (i % 8)) & 1;
  return c;
}
static void fill (void *p, unsigned long n) { for (unsigned long i = 0; i < n; i++) ((unsigned char *) p)[i] = (unsigned char) (0xA1 + i); }

/* what the callee really receives: the 6 integer argument registers, the low halves of the 8 SSE
   argument registers and the first 6 stack slots */
static struct { unsigned long i[6]; unsigned long d[8]; unsigned long stk[6]; } got;
static void clear_got (void) { memset (&got, 0, sizeof (got)); }
static void __attribute__ ((noinline)) raw_probe (unsigned long i0, unsigned long i1, unsigned long i2, unsigned long i3, unsigned long i4,
                       unsigned long i5, double d0, double d1, double d2, double d3, double d4, double d5, double d6, double d7,
                       unsigned long s0, unsigned long s1, unsigned long s2, unsigned long s3, unsigned long s4, unsigned long s5) {
  got.i[0] = i0; got.i[1] = i1; got.i[2] = i2; got.i[3] = i3; got.i[4] = i4; got.i[5] = i5;
  memcpy (&got.d[0], &d0, 8); memcpy (&got.d[1], &d1, 8); memcpy (&got.d[2], &d2, 8); memcpy (&got.d[3], &d3, 8);
  memcpy (&got.d[4], &d4, 8); memcpy (&got.d[5], &d5, 8); memcpy (&got.d[6], &d6, 8); memcpy (&got.d[7], &d7, 8);
  got.stk[0] = s0; got.stk[1] = s1; got.stk[2] = s2; got.stk[3] = s3; got.stk[4] = s4; got.stk[5] = s5;
}
static void *volatile raw_probe_p = (void *) raw_probe;

static const unsigned char *cur_mask;
static int same_bytes (const void *got_, const void *val_, const unsigned char *mask, unsigned long n) { /* equal on the data bits */
  const unsigned char *g = got_, *v = val_;
  for (unsigned long j = 0; j < n; j++) if ((g[j] ^ v[j]) & mask[j]) return 0;
  return 1;
}
static int same (unsigned long reg, const void *val, unsigned long size, int k) { /* eightbyte k of val == reg, on the data bits */
  unsigned long n = size - 8 * (unsigned long) k < 8 ? size - 8 * (unsigned long) k : 8;
  return same_bytes (&reg, (const char *) val + 8 * k, cur_mask + 8 * k, n);
}
static void check_arg (const char *decl, const char *what, const void *val, unsigned long size, const unsigned char *mask,
                       const sv_cls *c, int inreg, const int ir[2], const int sr[2]) {
  cur_mask = mask;
  if (inreg) {
    for (int k = 0; k < c->n; k++) {
      if (ir[k] >= 0) EXPECT (same (got.i[ir[k]], val, size, k), what, -1, ir[k]);
      else if (sr[k] >= 0) EXPECT (same (got.d[sr[k]], val, size, k), what, -2, sr[k]);
      else EXPECT (0, what, -3, 0);
    }
  } else { /* in memory: the object is the first thing in the stack argument area */
    int ok = 1;
    for (unsigned long k = 0; k * 8 < size && k < 6; k++) ok &= same (got.stk[k], val, size, (int) k);
    EXPECT (ok, what, -4, 0);
    /* and it is NOT also completely in the registers the oracle would not have chosen */
  }
}
struct r_ii { unsigned long a, b; };
struct r_ss { double a, b; };
struct r_is { unsigned long a; double b; };
struct r_si { double a; unsigned long b; };
static void check_ret (const char *decl, void *fn_, const void *val, unsigned long size, const unsigned char *mask, const sv_cls *c) {
  void *volatile fn = fn_;
  unsigned char buf[2048], res[64];
  memset (buf, 0, sizeof (buf)); memset (res, 0, sizeof (res));
  if (sv_return_by_hidden_pointer (c)) {
    void *r = ((void *(*) (void *)) fn) (buf);
    EXPECT (r == (void *) buf, "result: rax holds the hidden pointer", 0, 0);
    EXPECT (same_bytes (buf, val, mask, size), "result written through the hidden pointer", 0, 0);
    return;
  }
  if (c->c[0] == SV_X87) {
    long double v = ((long double (*) (void)) fn) ();
    EXPECT (same_bytes (&v, val, mask, 10), "result in st0", 0, 0);
    return;
  }
  if (c->n == 1 && c->c[0] == SV_INTEGER) { unsigned long v = ((unsigned long (*) (void)) fn) (); memcpy (res, &v, 8); }
  else if (c->n == 1 && c->c[0] == SV_SSE) { double v = ((double (*) (void)) fn) (); memcpy (res, &v, 8); }
  else if (c->c[0] == SV_INTEGER && c->c[1] == SV_INTEGER) { struct r_ii v = ((struct r_ii (*) (void)) fn) (); memcpy (res, &v, 16); }
  else if (c->c[0] == SV_SSE && c->c[1] == SV_SSE) { struct r_ss v = ((struct r_ss (*) (void)) fn) (); memcpy (res, &v, 16); }
  else if (c->c[0] == SV_INTEGER && c->c[1] == SV_SSE) { struct r_is v = ((struct r_is (*) (void)) fn) (); memcpy (res, &v, 16); }
  else if (c->c[0] == SV_SSE && c->c[1] == SV_INTEGER) { struct r_si v = ((struct r_si (*) (void)) fn) (); memcpy (res, &v, 16); }
  else { EXPECT (0, "result: oracle produced an impossible class pair", c->c[0], c->c[1]); return; }
  EXPECT (same_bytes (res, val, mask, size), "result registers (rax/rdx/xmm0/xmm1 per oracle classes)", c->c[0], c->c[1]);
}
"""


def main():
    ap = argparse.ArgumentParser()
    ap.add_argument("-n", type=int, default=4000)
    ap.add_argument("--seed", type=int, default=int(os.environ.get("VERIF_SEED", "0") or 0))
    ap.add_argument("--keep")
    ap.add_argument("--cc", default=os.environ.get("CC", "gcc"))
    a = ap.parse_args()
    rnd = random.Random(a.seed)
    d = a.keep or tempfile.mkdtemp(prefix="sysv-selftest-")
    os.makedirs(d, exist_ok=True)
    nfiles = 8
    per = (a.n + nfiles - 1) // nfiles
    srcs = []
    k = 0
    for f in range(nfiles):
        lo, hi = k, min(a.n, k + per)
        k = hi
        if lo == hi:
            continue
        p = os.path.join(d, "t%d.c" % f)
        with open(p, "w") as fh:
            fh.write(PRELUDE)
            for c in range(lo, hi):
                fh.write(gen_case(rnd, c) + "\n")
            fh.write("int main (void) {\n")
            for c in range(lo, hi):
                fh.write("  case%d ();\n" % c)
            fh.write('  printf ("cases %ld checks %ld mismatches %ld unmodelled %ld\\n", ncases, nchecks, nfail, nunmodelled);\n  return nfail != 0;\n}\n')
        srcs.append(p)

    def build_run(p):
        exe = p[:-2]
        r = subprocess.run([a.cc, "-std=gnu11", "-O0", "-w", "-I" + HERE, "-o", exe, p], capture_output=True, text=True)
        if r.returncode != 0:
            return 2, r.stderr[-3000:]
        r = subprocess.run([exe], capture_output=True, text=True, timeout=300)
        if r.returncode not in (0, 1):
            return 2, r.stdout[-3000:] + "\n%s: exit status %s\n" % (exe, r.returncode)
        return (0 if r.returncode == 0 else 1 if r.returncode == 1 else 2), r.stdout[-20000:] + r.stderr[-2000:]

    rc = 0
    tot = [0, 0, 0, 0]
    with cf.ThreadPoolExecutor(min(8, os.cpu_count() or 2)) as ex:
        for st, out in ex.map(build_run, srcs):
            rc = max(rc, st)
            for line in out.splitlines():
                if line.startswith("cases "):
                    w = line.split()
                    tot[0] += int(w[1]); tot[1] += int(w[3]); tot[2] += int(w[5]); tot[3] += int(w[7])
                else:
                    print(line)
    print("sysv_ref selftest: compiler=%s seed=%d declarations=%d comparisons=%d mismatches=%d (passing not modelled for %d declarations) -> %s"
          % (a.cc, a.seed, tot[0], tot[1], tot[2], tot[3], "OK" if rc == 0 else "FAILED"))
    if not a.keep:
        shutil.rmtree(d, ignore_errors=True)
    return rc


if __name__ == "__main__":
    sys.exit(main())
