/* C10 string escapes: the real MIR_output_str into the harness buffer, then the real scanner's string reading
   (scan_string over get_string_char/unget_string_char, reading from scan_ctx's input string) back, for ALL byte
   strings of length <= H_MAXLEN (every byte value at every position).
     -DH_NULTERM=1  strings that are empty or whose last byte is NUL (the form the scanner itself produces and
                    c2mir emits): scanned bytes and length equal the original
     -DH_NULTERM=0  every byte string: scanned bytes and length equal the original (fails for a non-empty string
                    whose last byte is not NUL: the scanner appends a NUL)  */
#ifndef H_MAXLEN
#define H_MAXLEN 2
#endif
#define H_OUT_CAP (4 * H_MAXLEN + 3)
#include "c10.h"

#ifndef H_NULTERM
#define H_NULTERM 1
#endif

H_SVARR (char, h_error_msg, 8);
static struct scan_ctx h_scan;
static char h_src[H_MAXLEN + 1];

void harness (void) {
  MIR_context_t ctx = h_setup (1, 1);
  size_t len = (size_t) nd_below (H_MAXLEN + 1);
  MIR_str_t str;
  token_t t;
  int c;

  for (size_t i = 0; i < H_MAXLEN; i++) h_src[i] = (char) nd ();
  if (H_NULTERM) H_ASSUME (len == 0 || h_src[len - 1] == 0);
  str.len = len;
  str.s = h_src;
  h_out_open ();
  MIR_output_str (ctx, h_f, str);
  h_out_close ();
  H_ASSERT (h_out_n <= H_OUT_CAP && h_out_n >= 2 && h_out[0] == '"' && h_out[h_out_n - 1] == '"', "the text is a quoted string of at most 4 characters per byte");
  h_out[h_out_n] = 0;
  /* scanner state: reading from the string just written */
  ctx->scan_ctx = &h_scan;
  error_msg_buf = &h_error_msg_obj;
  input_string = h_out;
  input_string_char_num = 0;
  curr_lno = 1;
#if !H_CBMC
  if (setjmp (error_jmp_buf)) H_ASSERT (0, "scan_error (longjmp) is not reached: the writer's text is accepted by the scanner");
#endif
  c = get_string_char (ctx);
  H_ASSERT (c == '"', "first character is the opening quote");
  memset (&t, 0, sizeof (t));
  scan_string (ctx, &t, c, get_string_char, unget_string_char);
  H_ASSERT (t.code == TC_STR, "scanner returns a string token");
  H_ASSERT (input_string_char_num == h_out_n, "the scanner consumed exactly the text written");
  H_ASSERT (curr_lno == 1, "no line break inside the written string");
  {
    /* t.u.str is the interned copy; compare it byte by byte with the original */
    size_t want = H_NULTERM || len == 0 || h_src[len - 1] == 0 ? len : len; /* original length in both modes */
    H_ASSERT (t.u.str.len >= len, "scanned string is at least as long as the original");
    for (size_t i = 0; i < H_MAXLEN; i++)
      if (i < len) H_ASSERT (t.u.str.s[i] == h_src[i], "scanned bytes equal the original bytes");
    H_ASSERT (t.u.str.len == want, "scanned length equals the original length");
  }
  if (len == H_MAXLEN) H_WITNESS ("longest string");
  if (len > 0 && (unsigned char) h_src[0] == 0xff) H_WITNESS ("byte 0xff");
  if (len > 0 && h_src[0] == '\\') H_WITNESS ("backslash");
  if (len > 0 && h_src[0] == '"') H_WITNESS ("double quote");
  if (len > 0 && h_src[0] == '\n') H_WITNESS ("newline");
#if !H_NULTERM || H_MAXLEN >= 3
  if (len > 1 && h_src[0] == 1 && h_src[1] == '7') H_WITNESS ("octal escape followed by a digit");
#endif
  H_WITNESS ("end");
}
