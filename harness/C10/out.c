/* C10 writer: the real MIR_output_item (with output_func_proto, output_vars, MIR_output_insn, MIR_output_op,
   MIR_output_str, _MIR_output_data_item_els) on ONE directly constructed minimal item per kind (-DKIND=n),
   symbolic scalar payloads.  Run with the pointer/bounds checks on: no invalid dereference, no read of a
   union member the item kind does not have (such a read shows as an out-of-bounds dereference of the
   smaller object); the writer returns, prints exactly the expected number of lines and ends with a newline. */
#define H_OUT_CAP 1 /* the writer obligations look only at the count, the line count and the last character */
#include "c10.h"

#define H_IMPORT 1
#define H_EXPORT 2
#define H_FORWARD 3
#define H_PROTO 4
#define H_FUNC 5
#define H_DATA 6 /* -DELT=0..11 */
#define H_BSS 7
#define H_REF 8
#define H_LREF 9
#define H_EXPR 10

#ifndef KIND
#define KIND H_FUNC
#endif
#ifndef ELT
#define ELT 0
#endif
#ifndef H_MTYPE /* memory operand type, concrete: a symbolic type makes type_str's blk branch (sprintf + get_ctx_str with a
                  symbolic-size allocation) look reachable to the symbolic execution: no verdict */
#define H_MTYPE MIR_T_U16
#endif
/* Base and index registers of memory operands: mir.c prints them through
   `(op.mode == MIR_OP_MEM ? output_reg : output_var) (ctx, f, func, reg)`, and cbmc 6.11's function-pointer removal
   resolves that call to [default_mem_protect, default_realloc] (spurious "dereferenced function pointer must be one
   of" failure, the real callee is never entered).  The obligations with -DH_MEM_REGS=1 (registers symbolic: absent or
   one of the five) are built with goto-instrument --restrict-function-pointer naming the two real targets. */
#if defined(H_MEM_REGS) && H_MEM_REGS
#define H_MEM_REG ((MIR_reg_t) nd_below (6))
#else
#define H_MEM_REG 0
#endif
#ifndef H_NAMED /* named or anonymous data/bss/ref/lref/expr item: concrete, so that every %s argument is a concrete string */
#define H_NAMED 1
#endif

#if KIND == H_FUNC
#define H_NINSN 12
/* one-operand insns: the operand under test is ops[0] (struct MIR_insn declares ops[1]; addressing ops[1] of a
   static object makes CBMC treat the whole insn as bytes and nothing stays concrete) */
static struct MIR_insn h_insns[H_NINSN];
static MIR_insn_t h_add_insn (int k, MIR_insn_code_t code, unsigned nops) {
  MIR_insn_t insn = &h_insns[k];
  insn->code = code;
  insn->nops = nops;
  DLIST_APPEND (MIR_insn_t, h_func.insns, insn);
  return insn;
}
#endif

void harness (void) {
  MIR_context_t ctx = h_setup (nd (), nd ());
  MIR_item_t item = H_ITEM (1);
  size_t want_lines = 1;

  item->module = &h_module;
#if KIND == H_IMPORT
  item->item_type = MIR_import_item;
  item->u.import_id = "imp";
#elif KIND == H_EXPORT
  item->item_type = MIR_export_item;
  item->u.export_id = "exp";
#elif KIND == H_FORWARD
  item->item_type = MIR_forward_item;
  item->u.forward_id = "fwd";
#elif KIND == H_PROTO
  static struct MIR_proto proto;
  proto.name = "p";
  proto.nres = 2;
  proto.res_types = h_res_types;
  proto.vararg_p = (char) nd_bool ();
  proto.args = &h_proto_args_obj;
  item->item_type = MIR_proto_item;
  item->u.proto = &proto;
#elif KIND == H_FUNC
  {
    /* label, then one 1-operand insn per operand form */
    static struct MIR_insn lab;
    static char sbytes[3];
    MIR_insn_t in;
    int k = 0, nform = 0;
    lab.code = MIR_LABEL;
    lab.nops = 0;
    lab.ops[0].mode = MIR_OP_INT;
    lab.ops[0].u.i = (int64_t) nd ();
    DLIST_APPEND (MIR_insn_t, h_func.insns, &lab);
#ifndef FORMS
#define FORMS 0x7ff /* bit n set: include the n-th operand form below */
#endif
#define H_INSN(MODE, SET)                                   \
  if ((FORMS >> nform++) & 1) {                             \
    in = h_add_insn (k++, MIR_JMP, 1);                      \
    in->ops[0].mode = MODE; SET;                            \
  }
    H_INSN (MIR_OP_REG, in->ops[0].u.reg = 1 + (MIR_reg_t) nd_below (5));
    H_INSN (MIR_OP_INT, in->ops[0].u.i = (int64_t) nd ());
    H_INSN (MIR_OP_UINT, in->ops[0].u.u = nd ());
    H_INSN (MIR_OP_FLOAT, in->ops[0].u.f = nd_float ());
    H_INSN (MIR_OP_DOUBLE, in->ops[0].u.d = nd_double ());
    H_INSN (MIR_OP_LDOUBLE, in->ops[0].u.ld = (long double) nd_double ());
    H_INSN (MIR_OP_MEM, (in->ops[0].u.mem.type = (MIR_type_t) H_MTYPE, in->ops[0].u.mem.disp = (MIR_disp_t) nd (),
                         in->ops[0].u.mem.base = H_MEM_REG, in->ops[0].u.mem.index = H_MEM_REG,
                         in->ops[0].u.mem.scale = (MIR_scale_t) nd_below (256), in->ops[0].u.mem.alias = 0, in->ops[0].u.mem.nonalias = 0));
    H_INSN (MIR_OP_MEM, (in->ops[0].u.mem.type = MIR_T_I8, in->ops[0].u.mem.disp = (MIR_disp_t) nd (),
                         in->ops[0].u.mem.base = H_MEM_REG, in->ops[0].u.mem.index = H_MEM_REG,
                         in->ops[0].u.mem.scale = (MIR_scale_t) nd_below (256),
                         in->ops[0].u.mem.alias = (MIR_alias_t) nd_below (3), in->ops[0].u.mem.nonalias = (MIR_alias_t) nd_below (3)));
    H_INSN (MIR_OP_REF, in->ops[0].u.ref = &h_func_item);
    sbytes[0] = (char) nd (); sbytes[1] = (char) nd (); sbytes[2] = 0;
    H_INSN (MIR_OP_STR, (in->ops[0].u.str.len = 3, in->ops[0].u.str.s = sbytes));
    H_INSN (MIR_OP_LABEL, in->ops[0].u.label = &lab);
    in = h_add_insn (k++, MIR_RET, 0);
    item = &h_func_item;
    /* title, locals line, empty line + comment line, label line, 12 insn lines, endfunc */
    want_lines = 1 + 1 + 2 + 1 + (size_t) k + 1;
  }
#elif KIND == H_DATA
  static struct { struct MIR_data d; uint8_t more[32]; } h_data;
  static const size_t el_size[12] = {1, 1, 2, 2, 4, 4, 8, 8, 4, 8, 16, 8};
  {
    uint64_t w[4];
    for (int k = 0; k < 4; k++) w[k] = nd ();
    h_data.d.name = H_NAMED ? "dat" : NULL;
    h_data.d.el_type = (MIR_type_t) ELT;
    h_data.d.nel = 2;
    for (size_t e = 0; e < 2; e++) memcpy (h_data.d.u.els + e * el_size[ELT], &w[2 * e], el_size[ELT] < 8 ? el_size[ELT] : (ELT == MIR_T_LD ? 10 : 8));
    item->item_type = MIR_data_item;
    item->u.data = &h_data.d;
  }
#elif KIND == H_BSS
  static struct MIR_bss bss;
  bss.name = H_NAMED ? "b" : NULL;
  bss.len = nd ();
  item->item_type = MIR_bss_item;
  item->u.bss = &bss;
#elif KIND == H_REF
  static struct MIR_ref_data ref;
  ref.name = H_NAMED ? "r" : NULL;
  ref.ref_item = &h_func_item;
  ref.disp = (int64_t) nd ();
  item->item_type = MIR_ref_data_item;
  item->u.ref_data = &ref;
#elif KIND == H_LREF
  static struct MIR_lref_data lref;
  static struct MIR_insn l1, l2;
  l1.code = l2.code = MIR_LABEL;
  l1.ops[0].mode = l2.ops[0].mode = MIR_OP_INT;
  l1.ops[0].u.i = (int64_t) nd ();
  l2.ops[0].u.i = (int64_t) nd ();
  lref.name = H_NAMED ? "lr" : NULL;
  lref.label = &l1;
  lref.label2 = nd_bool () ? &l2 : NULL;
  lref.disp = (int64_t) nd ();
  item->item_type = MIR_lref_data_item;
  item->u.lref_data = &lref;
#elif KIND == H_EXPR
  static struct MIR_expr_data expr;
  expr.name = H_NAMED ? "e" : NULL;
  expr.expr_item = &h_func_item;
  item->item_type = MIR_expr_data_item;
  item->u.expr_data = &expr;
#else
#error unknown KIND
#endif
  h_out_open ();
  MIR_output_item (ctx, h_f, item);
  h_out_close ();
  H_ASSERT (!h_err_expected, "no error callback");
  H_ASSERT (h_out_n > 0 && h_out_last == '\n', "the item's text ends with a newline");
  H_ASSERT (h_out_nl == want_lines, "the item's text has exactly the expected number of lines (nothing of another item kind is printed)");
  H_WITNESS ("end");
}
