/* C10 fragment 3 (operand syntax): the REAL MIR_output_op prints one memory operand (type concrete per obligation,
   base / index register each absent or any of the function's five registers, displacement and scale symbolic,
   alias / nonalias each none | al | nal); the text is read back by the REFERENCE READER of ref/mirtext_ref.h
   (written from MIR.md's operand syntax, shares nothing with mir.c) and must denote the operand that was printed:
   same type, base and index registers by name in their positions, displacement present when it is not 0, scale
   present when it is not 1, alias names - and the text must be a memory operand by the grammar at all.
   Integer formatting itself is libc's (placeholder digit under CBMC, real digits in the native replay). */
#define H_OUT_CAP 40
#include "c10.h"
#include "mirtext_ref.h"

#ifndef H_MTYPE
#define H_MTYPE MIR_T_I64
#endif
static const char *const h_type_names[12] = {"i8", "u8", "i16", "u16", "i32", "u32", "i64", "u64", "f", "d", "ld", "p"};
static const char *const h_reg_names[6] = {"", "a", "b", "c", "r1", "r2"};
static const char *const h_alias_names[3] = {"", "al", "nal"};

void harness (void) {
  MIR_context_t ctx = h_setup (8, 8);
  MIR_op_t op;
  rt_memop m;
  op.data = NULL;
  op.mode = MIR_OP_MEM;
  op.u.mem.type = (MIR_type_t) H_MTYPE;
  op.u.mem.disp = (MIR_disp_t) nd ();
  op.u.mem.base = (MIR_reg_t) nd_below (6);
  op.u.mem.index = (MIR_reg_t) nd_below (6);
  op.u.mem.scale = (MIR_scale_t) nd_below (256);
  op.u.mem.alias = (MIR_alias_t) nd_below (3);
  op.u.mem.nonalias = (MIR_alias_t) nd_below (3);
  h_out_open ();
  MIR_output_op (ctx, h_f, op, &h_func);
  h_out_close ();
  H_ASSERT (!h_err_expected, "no error callback");
  H_ASSERT (h_out_n > 0 && h_out_n <= H_OUT_CAP, "the operand text fits the harness buffer");
  m = rt_read_memop (h_out, (unsigned) h_out_n);
  H_ASSERT (m.ok, "the printed text is a memory operand by MIR.md's syntax (reference reader consumes it completely)");
  H_ASSERT (rt_streq (m.type, h_type_names[H_MTYPE]), "memory operand text: same type");
  H_ASSERT (rt_streq (m.base, h_reg_names[op.u.mem.base]), "memory operand text: the base position holds the base register (empty when there is none)");
  H_ASSERT (rt_streq (m.index, h_reg_names[op.u.mem.index]), "memory operand text: the index position holds the index register (absent when there is none)");
  H_ASSERT (m.has_disp || op.u.mem.disp == 0, "memory operand text: a non-zero displacement is printed");
  H_ASSERT (m.has_scale || op.u.mem.scale == 1 || op.u.mem.index == 0, "memory operand text: a scale other than 1 is printed");
  H_ASSERT (rt_streq (m.alias, h_alias_names[op.u.mem.alias]) && rt_streq (m.nonalias, h_alias_names[op.u.mem.nonalias]), "memory operand text: alias and nonalias names in their positions");
  if (op.u.mem.base == 0 && op.u.mem.index != 0) H_WITNESS ("index without base");
  if (op.u.mem.alias == 0 && op.u.mem.nonalias != 0) H_WITNESS ("nonalias without alias");
  H_WITNESS ("end");
}
