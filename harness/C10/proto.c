/* C10 fragment 3 (header syntax): the REAL MIR_output_item on a prototype item with 0..2 results (i64, d), 0..3
   arguments (a:i64, b:blk1:<size>(b), c:rblk:<size>(c)) and the vararg flag symbolic; the header line is read back by a
   small reference reader of MIR.md's syntax `<name>: proto [<type>, ...] [<type>:<name> | <type>:<size>(<name>), ...] [...]`
   (elements separated by commas) and must denote the same prototype: same number of results (each a type name, before
   every argument), same number of arguments, `...` last and present exactly when the prototype is variadic. */
#define H_OUT_CAP 64
#include "c10.h"

static int h_is_name_char (int c) { return (c >= 'a' && c <= 'z') || (c >= 'A' && c <= 'Z') || (c >= '0' && c <= '9') || c == '_'; }

void harness (void) {
  MIR_context_t ctx = h_setup (nd_below (10), nd_below (10));
  MIR_item_t item = H_ITEM (1);
  static struct MIR_proto proto;
  unsigned nres = (unsigned) nd_below (3), nargs = (unsigned) nd_below (4), va = (unsigned) nd_bool ();
  unsigned i, res_seen = 0, args_seen = 0, va_seen = 0, bad = 0;
  item->module = &h_module;
  proto.name = "p";
  proto.nres = nres;
  proto.res_types = h_res_types;
  proto.vararg_p = (char) va;
  h_proto_args_obj.els_num = nargs;
  proto.args = &h_proto_args_obj;
  item->item_type = MIR_proto_item;
  item->u.proto = &proto;
  h_out_open ();
  MIR_output_item (ctx, h_f, item);
  h_out_close ();
  H_ASSERT (!h_err_expected, "no error callback");
  H_ASSERT (h_out_n > 0 && h_out_n <= H_OUT_CAP && h_out_last == '\n' && h_out_nl == 1, "one header line that fits the harness buffer");
  /* p:<tab>proto<tab> */
  H_ASSERT (h_out[0] == 'p' && h_out[1] == ':' && h_out[2] == '\t' && h_out[3] == 'p' && h_out[4] == 'r' && h_out[5] == 'o' && h_out[6] == 't'
              && h_out[7] == 'o' && h_out[8] == '\t', "the line starts with `p:<tab>proto<tab>`");
  i = 9;
  /* elements separated by `,` (blanks allowed after it) up to the newline */
  for (unsigned el = 0; el < 7; el++) {
    unsigned start, colon = 0, dots = 0, len;
    if (i >= h_out_n || h_out[i] == '\n') break;
    for (unsigned k = 0; k < 2; k++) if (i < h_out_n && h_out[i] == ' ') i++;
    start = i;
    for (unsigned k = 0; k < 16; k++)
      if (i < h_out_n && h_out[i] != ',' && h_out[i] != '\n') {
        if (h_out[i] == ':') colon = 1;
        if (h_out[i] == '.') dots++;
        else if (!colon && !h_is_name_char (h_out[i])) bad = 1; /* a result element is a bare type name */
        i++;
      }
    len = i - start;
    if (len == 0) bad = 1;
    if (va_seen) bad = 1; /* nothing after `...` */
    if (dots != 0) { if (dots == 3 && len == 3) va_seen = 1; else bad = 1; }
    else if (colon) args_seen++;
    else { res_seen++; if (args_seen != 0) bad = 1; }
    if (i < h_out_n && h_out[i] == ',') i++;
  }
  H_ASSERT (i < h_out_n && h_out[i] == '\n', "the reference reader reaches the end of the header line");
  H_ASSERT (!bad, "every element of the header is a type name, a `type:name` argument or a final `...`");
  H_ASSERT (res_seen == nres && args_seen == nargs && va_seen == va, "the header denotes the prototype printed: number of results, of arguments, variadic marker");
  if (va && nargs == 0 && nres != 0) H_WITNESS ("variadic, results, no named argument");
  if (va && nargs == 0 && nres == 0) H_WITNESS ("variadic only");
  H_WITNESS ("end");
}
