/* C10 - textual MIR: directly constructed state for the real output functions (MIR_output_item, MIR_output_insn,
   MIR_output_op, MIR_output_str, ...) and the real string scanner (scan_string over get_string_char).
   No MIR_init / MIR_new_* (HARNESS-GUIDE rule 1): context, string and alias tables, one function with five
   registers are static objects; hash tables are the abstract-map model in CBMC mode (C19), real HTABs in
   the native REPLAY build.

   Output sink.  CBMC mode: fprintf is the harness function h_fprintf below, which appends to h_out[] and
   understands exactly the conversions mir.c's output code uses: literal text, %s, %c, %03o and %o exactly;
   integer (%d %u %ld %lu PRI*8/16/32/64 %lx) and floating (%.*e %.*Le with the f/L suffix letters being
   literal text) conversions consume their arguments and append ONE placeholder character: decimal and
   floating formatting is libc's job and outside the claim.  REPLAY mode: the real fprintf into an
   open_memstream buffer. */
#ifndef C10_H
#define C10_H
#include "h.h"
#include <stdarg.h>
#include <setjmp.h>
#include "mini_mir_pre.h"

#ifndef H_OUT_CAP
#define H_OUT_CAP 32 /* <= 64 so that CBMC keeps the array field-sensitive; longer output is counted, not stored */
#endif
static char h_out[H_OUT_CAP + 1];
static size_t h_out_n;   /* characters written */
static size_t h_out_nl;  /* newlines written */
static int h_out_last = -1;
static FILE *h_f;

#if H_CBMC
static void h_putc (int c) {
  if (h_out_n < H_OUT_CAP) h_out[h_out_n] = (char) c;
  h_out_n++;
  if (c == '\n') h_out_nl++;
  h_out_last = (unsigned char) c;
}
static int h_fprintf (FILE *f, const char *fmt, ...) {
  va_list ap;
  size_t start = h_out_n;
  __CPROVER_assert (f == h_f, "PROP output goes to the stream passed to the output function");
  va_start (ap, fmt);
  for (size_t i = 0; fmt[i] != 0; i++) {
    if (fmt[i] != '%') { h_putc (fmt[i]); continue; }
    i++;
    if (fmt[i] == '%') { h_putc ('%'); continue; }
    int zero3 = 0, longs = 0, ldbl = 0;
    if (fmt[i] == '0' && fmt[i + 1] == '3') { zero3 = 1; i += 2; }
    if (fmt[i] == '.' && fmt[i + 1] == '*') { (void) va_arg (ap, char); i += 2; }
    while (fmt[i] == 'l') { longs++; i++; }
    if (fmt[i] == 'L') { ldbl = 1; i++; }
    switch (fmt[i]) {
    case 's': {
      const char *s = va_arg (ap, const char *);
      __CPROVER_assert (s != NULL, "PROP %s argument is not NULL");
      for (size_t k = 0; s[k] != 0; k++) h_putc (s[k]);
      break;
    }
    case 'c': h_putc (va_arg (ap, char)); break; /* CBMC keeps variadic arguments unpromoted: mir.c passes a char here */
    case 'o': {
      unsigned v = va_arg (ap, unsigned char); /* mir.c passes (unsigned char) str.s[i], unpromoted under CBMC */
      __CPROVER_assert (v < 512, "PROP octal conversion of a byte value");
      /* %03o prints exactly three digits; plain %o prints the minimal number of digits (C11 7.21.6.1) */
      if (zero3 || v >= 64) h_putc ('0' + ((v >> 6) & 7));
      if (zero3 || v >= 8) h_putc ('0' + ((v >> 3) & 7));
      h_putc ('0' + (v & 7));
      break;
    }
    case 'd': case 'i': case 'u': case 'x':
      (void) va_arg (ap, char); /* skip one argument of whatever width (int8_t ... uint64_t, unpromoted under CBMC) */
      h_putc ('0'); /* placeholder: decimal/hex formatting is libc's */
      break;
    case 'e':
      (void) va_arg (ap, char); /* skip one argument (float, double or long double, unpromoted under CBMC) */
      h_putc ('0'); /* placeholder: floating-point formatting is libc's */
      break;
    default: __CPROVER_assert (0, "PROP conversion known to the fprintf stub");
    }
  }
  va_end (ap);
  return (int) (h_out_n - start);
}
static int h_sprintf (char *buf, const char *fmt, ...) { /* only: "blk%d" (type_str), "ln %lu: " (scan_error, unreachable) */
  va_list ap;
  size_t n = 0;
  va_start (ap, fmt);
  for (size_t i = 0; fmt[i] != 0; i++) {
    if (fmt[i] != '%') { buf[n++] = fmt[i]; continue; }
    i++;
    if (fmt[i] == 'd') { int v = va_arg (ap, int); __CPROVER_assert (v >= 0 && v <= 9, "PROP one-digit %d"); buf[n++] = (char) ('0' + v); }
    else if (fmt[i] == 'l' && fmt[i + 1] == 'u') { (void) va_arg (ap, unsigned long); buf[n++] = '0'; i++; }
    else __CPROVER_assert (0, "PROP conversion known to the sprintf stub");
  }
  buf[n] = 0;
  va_end (ap);
  return (int) n;
}
static int h_longjmp_calls;
static void h_longjmp (void *env, int v) {
  (void) env; (void) v;
  h_longjmp_calls++;
  __CPROVER_assert (0, "PROP scan_error (longjmp) is not reached: the writer's text is accepted by the scanner");
  __CPROVER_assume (0);
}
static int h_vsnprintf (char *b, size_t n, const char *fmt, va_list ap) { (void) fmt; (void) ap; if (n) b[0] = 0; return 0; }
/* <ctype.h> classification in the "C" locale (glibc's macros go through the __ctype_b_loc() table, which has no
   body under CBMC: nondet pointer, nondet result).  Stated assumption: LC_CTYPE is "C" (MIR never calls setlocale). */
#include <ctype.h>
#undef isprint
#undef isdigit
#undef isxdigit
#undef isalpha
#undef isspace
#define isprint(c) ((c) >= 32 && (c) <= 126)
#define isdigit(c) ((c) >= '0' && (c) <= '9')
#define isxdigit(c) (((c) >= '0' && (c) <= '9') || ((c) >= 'a' && (c) <= 'f') || ((c) >= 'A' && (c) <= 'F'))
#define isalpha(c) (((c) >= 'a' && (c) <= 'z') || ((c) >= 'A' && (c) <= 'Z'))
#define isspace(c) ((c) == ' ' || ((c) >= 9 && (c) <= 13))
#define fprintf h_fprintf
#define sprintf h_sprintf
#define vsnprintf h_vsnprintf
#define longjmp(env, v) h_longjmp ((void *) (env), v)
static struct { int x; } h_file_obj;
static void h_out_open (void) { h_f = (FILE *) (void *) &h_file_obj; }
static void h_out_close (void) {}
/* All containers have static storage of sufficient capacity; growth is asserted unreachable (see C11). */
static void *h_no_growth (void *p) {
  H_ASSERT (0, "no container of the constructed state grows beyond its static capacity");
  H_ASSUME (0);
  return p;
}
/* The only allocations in these harnesses are interned strings ("blk1", scanned strings): fixed 16-byte blocks.
   (CBMC does not fold `switch (op.mode)` on a MIR_op_t passed by value - the mode is an enum bit-field - so every
   MIR_output_op encodes all operand branches, including type_str's blk branch with its get_ctx_str allocation
   of a then symbolic size: no verdict with malloc (size).) */
static void *h_small_malloc (size_t n) {
  H_ASSUME (n <= 16);
  return malloc (16);
}
#undef MIR_malloc
#define MIR_malloc(alloc, size) ((void) (alloc), h_small_malloc (size))
#undef MIR_realloc
#define MIR_realloc(alloc, ptr, old_size, new_size) ((void) (alloc), (void) (old_size), (void) (new_size), h_no_growth (ptr))
#else
static char *h_ms_ptr;
static size_t h_ms_size;
static void h_out_open (void) { h_f = open_memstream (&h_ms_ptr, &h_ms_size); }
static void h_out_close (void) {
  fflush (h_f);
  h_out_n = h_ms_size;
  h_out_nl = 0;
  for (size_t i = 0; i < h_ms_size; i++) {
    if (i < H_OUT_CAP) h_out[i] = h_ms_ptr[i];
    if (h_ms_ptr[i] == '\n') h_out_nl++;
  }
  h_out_last = h_ms_size ? (unsigned char) h_ms_ptr[h_ms_size - 1] : -1;
}
#endif

#include "mir.c"

#if H_CBMC && defined(H_ALLOC_NATIVE)
static struct MIR_alloc h_alloc;
#else
static struct MIR_alloc h_alloc = {h_slot_malloc, h_slot_calloc, h_slot_realloc, h_slot_free, NULL};
#endif

static int h_err_expected;
static void MIR_NO_RETURN h_out_error (enum MIR_error_type t, const char *fmt, ...) {
  (void) fmt; (void) t;
  H_ASSERT (h_err_expected, "error callback invoked although the input is well-formed");
#if H_CBMC
  __CPROVER_assume (0);
#endif
  exit (0);
}

#define H_SVARR(T, name, cap)     \
  static T name##_data[cap];      \
  static VARR (T) name##_obj = {0, cap, name##_data, &h_alloc}
#if H_CBMC
#define H_TAB_NEW(T, ptr, obj, hashf, eqf, argv) \
  do { (obj).eq_func = eqf; (obj).arg = argv; (obj).alloc = &h_alloc; ptr = &(obj); } while (0)
#define H_TAB_ADD(T, ptr, el) \
  do { (ptr)->els[(ptr)->bound] = el; (ptr)->used[(ptr)->bound] = 1; (ptr)->bound++; (ptr)->els_num++; } while (0)
#else
#define H_TAB_NEW(T, ptr, obj, hashf, eqf, argv) HTAB_CREATE (T, ptr, &h_alloc, 16, hashf, eqf, argv)
#define H_TAB_ADD(T, ptr, el) \
  do { T h_r; HTAB_DO (T, ptr, el, HTAB_INSERT, h_r); } while (0)
#endif

H_SVARR (string_t, h_ctx_strings, 8);
H_SVARR (string_t, h_aliases, 4);
H_SVARR (reg_desc_t, h_reg_descs, 8);
H_SVARR (char, h_temp_string, 16);
H_SVARR (MIR_var_t, h_func_vars, 6);
H_SVARR (MIR_var_t, h_proto_args, 4);
#if H_CBMC
static HTAB (string_t) h_ctx_tab_obj, h_alias_tab_obj;
static HTAB (size_t) h_name2rdn_obj, h_reg2rdn_obj, h_hrn2rdn_obj;
#endif
static struct func_regs h_func_regs;
static struct MIR_module h_module;
static struct MIR_func h_func;
static struct string_ctx h_string_ctx;
static struct alias_ctx h_alias_ctx;
static struct MIR_context h_ctx;
static char h_s_al[] = "al", h_s_nal[] = "nal";
static char h_n_a[] = "a", h_n_b[] = "b", h_n_c[] = "c", h_n_r1[] = "r1", h_n_r2[] = "r2";
static MIR_type_t h_res_types[2] = {MIR_T_I64, MIR_T_D};

/* CBMC 6.11 loses `item->u.<member>->field` (member not first in the union, item a pointer parameter) on
   field-sensitive objects ("invalid object", spurious); objects inside arrays of > 64 elements are exact. */
static struct MIR_item h_items[65];
#define H_ITEM(k) (&h_items[k])
#define h_func_item h_items[0]

/* function f: results i64, d; args a:i64, b:blk1 (size), c:rblk (size); locals r1:i64, r2:f.  regs 1..5 */
static MIR_context_t h_setup (uint64_t blk_size, uint64_t rblk_size) {
  MIR_context_t ctx = &h_ctx;
  ctx->alloc = &h_alloc;
  error_func = h_out_error;
  ctx->string_ctx = &h_string_ctx;
  ctx->alias_ctx = &h_alias_ctx;
  H_TAB_NEW (string_t, string_tab, h_ctx_tab_obj, str_hash, str_eq, NULL);
  H_TAB_NEW (string_t, alias_tab, h_alias_tab_obj, str_hash, str_eq, NULL);
  h_ctx_strings_obj.els_num = 1;
  strings = &h_ctx_strings_obj;
  temp_string = &h_temp_string_obj;
  {
    string_t a1 = {1, {3, h_s_al}}, a2 = {2, {4, h_s_nal}};
    h_aliases_data[1] = a1;
    h_aliases_data[2] = a2;
    h_aliases_obj.els_num = 3;
    H_TAB_ADD (string_t, alias_tab, a1);
    H_TAB_ADD (string_t, alias_tab, a2);
    aliases = &h_aliases_obj;
  }
  {
    static char *names[5] = {h_n_a, h_n_b, h_n_c, h_n_r1, h_n_r2};
    static const MIR_type_t types[5] = {MIR_T_I64, MIR_T_I64, MIR_T_I64, MIR_T_I64, MIR_T_F};
    h_func_regs.reg_descs = &h_reg_descs_obj;
    H_TAB_NEW (size_t, h_func_regs.name2rdn_tab, h_name2rdn_obj, name2rdn_hash, name2rdn_eq, &h_func_regs);
    H_TAB_NEW (size_t, h_func_regs.reg2rdn_tab, h_reg2rdn_obj, reg2rdn_hash, reg2rdn_eq, &h_func_regs);
    H_TAB_NEW (size_t, h_func_regs.hrn2rdn_tab, h_hrn2rdn_obj, hrn2rdn_hash, hrn2rdn_eq, &h_func_regs);
    for (size_t r = 1; r <= 5; r++) {
      reg_desc_t rd = {types[r - 1], (MIR_reg_t) r, names[r - 1], NULL};
      h_reg_descs_data[r] = rd;
      h_reg_descs_obj.els_num = r + 1;
      H_TAB_ADD (size_t, h_func_regs.name2rdn_tab, r);
      H_TAB_ADD (size_t, h_func_regs.reg2rdn_tab, r);
    }
  }
  {
    MIR_var_t va = {MIR_T_I64, h_n_a, 0}, vb = {MIR_T_BLK + 1, h_n_b, (size_t) blk_size}, vc = {MIR_T_RBLK, h_n_c, (size_t) rblk_size},
              v1 = {MIR_T_I64, h_n_r1, 0}, v2 = {MIR_T_F, h_n_r2, 0};
    h_func_vars_data[0] = va; h_func_vars_data[1] = vb; h_func_vars_data[2] = vc; h_func_vars_data[3] = v1; h_func_vars_data[4] = v2;
    h_func_vars_obj.els_num = 5;
    h_proto_args_data[0] = va; h_proto_args_data[1] = vb; h_proto_args_data[2] = vc;
    h_proto_args_obj.els_num = 3;
  }
  h_func.name = "f";
  h_func.func_item = &h_func_item;
  h_func.nres = 2;
  h_func.res_types = h_res_types;
  h_func.nargs = 3;
  h_func.vars = &h_func_vars_obj;
  h_func.global_vars = NULL;
  h_func.internal = &h_func_regs;
  DLIST_INIT (MIR_insn_t, h_func.insns);
  h_func_item.item_type = MIR_func_item;
  h_func_item.module = &h_module;
  h_func_item.u.func = &h_func;
  h_module.name = "m";
  return ctx;
}
#endif
