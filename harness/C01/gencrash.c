/* C01: the real generator must not die while compiling a corpus file.

   props/C01.py creates this obligation only after tools/mirgen-dump (the real MIR_load_module / MIR_link / MIR_gen of the
   working tree) was killed by a signal or a failed assertion on the file whose text is in C01_TEXT_H at level C01_LEVEL.
   CBMC mode: a plain failing assertion (there is nothing symbolic about a compiler crash).
   Native replay (-DREPLAY): re-runs the real MIR_gen on the same text in a child process; the assertion fails iff the
   child does not exit normally - i.e. the violation is reported only when the real code reproduces it. */
#include "h.h"
#include C01_TEXT_H
#ifdef REPLAY
#include <unistd.h>
#include <sys/wait.h>
#include "mir.h"
#include "mir-gen.h" /* the native build links /repo/mir.c and /repo/mir-gen.c (Ob native_cc) */
static void *c01_resolver (const char *name) { (void) name; return (void *) abort; }
static void c01_compile_all (void) {
  MIR_context_t ctx = MIR_init ();
  MIR_gen_init (ctx);
  MIR_gen_set_optimize_level (ctx, C01_LEVEL);
  MIR_scan_string (ctx, c01_mir_text);
  for (MIR_module_t m = DLIST_HEAD (MIR_module_t, *MIR_get_module_list (ctx)); m != NULL; m = DLIST_NEXT (MIR_module_t, m)) MIR_load_module (ctx, m);
  MIR_link (ctx, MIR_set_gen_interface, c01_resolver);
  for (MIR_module_t m = DLIST_HEAD (MIR_module_t, *MIR_get_module_list (ctx)); m != NULL; m = DLIST_NEXT (MIR_module_t, m))
    for (MIR_item_t it = DLIST_HEAD (MIR_item_t, m->items); it != NULL; it = DLIST_NEXT (MIR_item_t, it))
      if (it->item_type == MIR_func_item) MIR_gen (ctx, it);
  MIR_gen_finish (ctx);
  MIR_finish (ctx);
}
#endif
void harness (void) {
  int died = 1;
#ifdef REPLAY
  pid_t pid = fork ();
  if (pid == 0) { c01_compile_all (); _exit (0); }
  int st = 0;
  waitpid (pid, &st, 0);
  died = !(WIFEXITED (st) && WEXITSTATUS (st) == 0);
  if (died) fprintf (stderr, "REPLAY: MIR_gen -O%d child status 0x%x (%s %d)\n", C01_LEVEL, st, WIFSIGNALED (st) ? "signal" : "exit", WIFSIGNALED (st) ? WTERMSIG (st) : WEXITSTATUS (st));
#endif
  H_ASSERT (!died, "the real generator compiles every function of the corpus file without crashing");
  H_WITNESS ("end");
}
