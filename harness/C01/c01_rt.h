/* Runtime of the C01 harness (included by c01.c after interp_rt.h, lift_rt.h, the lifted code and e3h.h).

   Memory model.  Both sides run on the SAME C objects: the harness buffers c01_buf[k] (passed by pointer) and the
   data/bss sections h_sec<n> of the mirdump header (tools/gen_c01 rewrites every absolute data address in the lifted
   code to the corresponding &h_sec<n>[off]).  The interpreter runs first; the final contents are copied aside, the
   initial contents are restored, then the lifted code runs.  So both sides see the same initial bytes AND the same
   addresses (pointer values that the program computes, stores or passes on are comparable bit for bit).  Only the
   stacks differ (interpreter: CBMC alloca / C frames; lifted code: e3_stack) - addresses of alloca'd memory must
   not reach results, buffers or externals in a corpus function that is compared on them.

   External calls.  Interpreter side: interp_rt.h (h_ff_common) logs (callee, bits of each NAMED argument that its
   declared type defines) and returns c01_ext_vals[call][res].  Lifted side: x86_call() -> generated c01_ext_call():
   decodes the named arguments from the System V locations given by the prototype of the call (rdi rsi rdx rcx r8 r9,
   xmm0-7, stack from [rsp+8]; long double in 16-byte aligned stack slots), logs them in the same format, havocs
   every caller-saved register and the flags, returns the same c01_ext_vals in rax/rdx resp. xmm0/xmm1 and performs
   the callee's ret.  Variadic (unnamed) arguments are not compared (the interpreter-side log does not have them).

   Calls between MIR functions: interpreter side recurses into eval (h_ff_common); lifted side runs the lifted callee
   (through its thunk or directly), following tail jumps.

   Builtins the generator calls (mir.ui2f/ui2d/ui2ld/ld2i; bodies are gcc-compiled C in production) are modelled by
   their C semantics. */
#ifndef C01_RT_H
#define C01_RT_H

#ifndef C01_NBUF
#define C01_NBUF 3
#endif
#ifndef C01_BUF_BYTES
#define C01_BUF_BYTES 64
#endif
/* 8-byte cells: with CBMC's per-element tracking (--max-field-sensitivity-array-size) an access at a constant offset costs
   nothing; byte arrays made the register-pressure case (16 doubles through memory) a 12 M clause formula */
#define C01_BUF_WORDS (C01_BUF_BYTES / 8)
/* one flat array (buffer k = words [k*C01_BUF_WORDS, (k+1)*C01_BUF_WORDS)): CBMC tracks elements of one-dimensional arrays only */
static uint64_t c01_buf[C01_NBUF * C01_BUF_WORDS] __attribute__ ((aligned (16)));
static uint64_t c01_buf_init[C01_NBUF * C01_BUF_WORDS];   /* initial contents */
static uint64_t c01_buf_interp[C01_NBUF * C01_BUF_WORDS]; /* after the interpreter run */
#define C01_BUF_ADDR(k, off) ((uint64_t) (uintptr_t) ((uint8_t *) &c01_buf[(k) * C01_BUF_WORDS] + (off)))

static uint64_t c01_ext_vals[H_MAX_EXT_CALLS][2];
static uint64_t c01_ext_result (int call_no, int res_no) { return c01_ext_vals[call_no][res_no & 1]; }
static h_ext_log c01_log_i, c01_log_g;
static x86_state c01_s;

/* generated (C01_CASES): save / restore / compare the data sections, decode external calls */
static void c01_secs_save (void);
static void c01_secs_to_interp_and_restore (void);
static int c01_secs_equal (void);
static int c01_ext_call (x86_state *s, uint64_t target);

static void c01_begin (void) {
  h_interp_init ();
  h_ext_result = c01_ext_result;
  for (int i = 0; i < H_MAX_EXT_CALLS; i++) { c01_ext_vals[i][0] = nd (); c01_ext_vals[i][1] = nd (); }
  c01_log_i.n = c01_log_g.n = 0;
}
static void c01_buf_fill (int k) { /* arbitrary initial contents */
  for (int i = k * C01_BUF_WORDS; i < (k + 1) * C01_BUF_WORDS; i++) { uint64_t w = nd (); c01_buf[i] = w; c01_buf_init[i] = w; }
}
static void c01_interp (int fid, MIR_val_t *args, MIR_val_t *res) {
  c01_secs_save ();
  h_cur_log = &c01_log_i;
  h_depth = 0;
  h_run (fid, args, res);
  h_cur_log = NULL;
  /* keep what the interpreter left in memory, give the lifted code the same initial memory */
  for (int i = 0; i < C01_NBUF * C01_BUF_WORDS; i++) { c01_buf_interp[i] = c01_buf[i]; c01_buf[i] = c01_buf_init[i]; }
  c01_secs_to_interp_and_restore ();
}

/* ---- lifted side ---- */
static const int c01_int_reg[6] = {E3_A0, E3_A1, E3_A2, E3_A3, E3_A4, E3_A5};
#define C01_STACK_ARG(off) E3_ADDR ((uint8_t *) &e3_stack[E3_STACK_BELOW + 1] + (off)) /* off bytes above the return address */

static void c01_havoc_caller_saved (x86_state *s) {
  s->r[X86_RAX] = nd (); s->r[X86_RCX] = nd (); s->r[X86_RDX] = nd (); s->r[X86_RSI] = nd (); s->r[X86_RDI] = nd ();
  s->r[X86_R8] = nd (); s->r[X86_R9] = nd (); s->r[X86_R10] = nd (); s->r[X86_R11] = nd ();
  for (int i = 0; i < 16; i++) { s->xmm[i][0] = nd (); s->xmm[i][1] = nd (); }
  s->cf = nd_bool (); s->zf = nd_bool (); s->sf = nd_bool (); s->of = nd_bool (); s->pf = nd_bool ();
}

/* decoding state of one external call */
static struct { int ni, nf, nres_i, nres_f; uint64_t so; h_ext_event *e; uint64_t rsp; } c01_ec;
static void c01_ext_begin (x86_state *s, int ext) {
  H_ASSUME (c01_log_g.n < H_MAX_EXT_CALLS); /* same stated bound as on the interpreter side */
  H_ASSERT (s->fdepth == 0, "x87 stack empty at an external call");
  c01_ec.e = &c01_log_g.ev[c01_log_g.n];
  c01_ec.e->ext = ext; c01_ec.e->nargs = 0;
  c01_ec.ni = c01_ec.nf = c01_ec.nres_i = c01_ec.nres_f = 0; c01_ec.so = 0;
  c01_ec.rsp = s->r[X86_RSP];
}
static void c01_ext_arg (x86_state *s, MIR_type_t t) { /* next NAMED argument of declared type t */
  MIR_val_t v;
  memset (&v, 0, sizeof (v));
  if (t == MIR_T_F || t == MIR_T_D) {
    uint64_t bits;
    if (c01_ec.nf < 8) bits = s->xmm[c01_ec.nf++][0];
    else { bits = X86_M64 (c01_ec.rsp + 8 + c01_ec.so); c01_ec.so += 8; }
    if (t == MIR_T_F) { uint32_t w = (uint32_t) bits; memcpy (&v.f, &w, 4); } else memcpy (&v.d, &bits, 8);
  } else if (t == MIR_T_LD) {
    if (c01_ec.so & 15) c01_ec.so += 8;
    v.ld = x86_ld_load (c01_ec.rsp + 8 + c01_ec.so); c01_ec.so += 16;
  } else { /* integer class (incl. pointers) */
    if (c01_ec.ni < 6) v.u = s->r[c01_int_reg[c01_ec.ni++]];
    else { v.u = X86_M64 (c01_ec.rsp + 8 + c01_ec.so); c01_ec.so += 8; }
  }
  if (c01_ec.e->nargs < H_MAX_CALL_ARGS) c01_ec.e->arg[c01_ec.e->nargs] = h_arg_bits (t, v);
  c01_ec.e->nargs++;
}
static void c01_ext_args_done (x86_state *s) { c01_havoc_caller_saved (s); }
static void c01_ext_res (x86_state *s, MIR_type_t t, int res_no) { /* results in declaration order, after c01_ext_args_done */
  uint64_t raw = c01_ext_result (c01_log_g.n, res_no);
  if (t == MIR_T_F || t == MIR_T_D) { s->xmm[c01_ec.nres_f][0] = raw; c01_ec.nres_f++; } /* F: bits 32-63 arbitrary */
  else { s->r[c01_ec.nres_i == 0 ? X86_RAX : X86_RDX] = raw; c01_ec.nres_i++; }        /* narrow ints: upper bits arbitrary */
}
static void c01_ext_end (x86_state *s) { /* the callee's ret */
  c01_log_g.n++;
  s->exit_target = X86_M64 (s->r[X86_RSP]);
  s->r[X86_RSP] += 8;
  s->exit_kind = X86_EXIT_RET;
}

static int c01_builtin_call (x86_state *s, uint64_t target) { /* LIFT_SYM_mir_* exist only in dumps that use the builtin */
  int hit = 0;
#ifdef LIFT_SYM_mir_ui2f
  if (!hit && target == LIFT_SYM_mir_ui2f) {
    uint64_t a = s->r[X86_RDI];
    c01_havoc_caller_saved (s);
    s->xmm[0][0] = (s->xmm[0][0] & ~(uint64_t) 0xffffffffu) | x86_f2u ((float) a);
    hit = 1;
  }
#endif
#ifdef LIFT_SYM_mir_ui2d
  if (!hit && target == LIFT_SYM_mir_ui2d) {
    uint64_t a = s->r[X86_RDI];
    c01_havoc_caller_saved (s);
    s->xmm[0][0] = x86_d2u ((double) a);
    hit = 1;
  }
#endif
#ifdef LIFT_SYM_mir_ui2ld
  if (!hit && target == LIFT_SYM_mir_ui2ld) {
    uint64_t a = s->r[X86_RDI];
    c01_havoc_caller_saved (s);
    x86_fpush (s, (long double) a);
    hit = 1;
  }
#endif
#ifdef LIFT_SYM_mir_ld2i
  if (!hit && target == LIFT_SYM_mir_ld2i) {
    long double a = x86_ld_load (s->r[X86_RSP] + 8);
    c01_havoc_caller_saved (s);
    s->r[X86_RAX] = (uint64_t) (int64_t) a;
    hit = 1;
  }
#endif
  if (!hit) return 0;
  s->exit_target = X86_M64 (s->r[X86_RSP]);
  s->r[X86_RSP] += 8;
  s->exit_kind = X86_EXIT_RET;
  return 1;
}

#ifndef C01_MAX_HOPS
#define C01_MAX_HOPS 4
#endif
/* run "the function at target" to its final ret: lifted region, following thunks / tail jumps; externals and builtins
   reached by a jump behave like a call that returns to the return address on the stack */
static void c01_lifted_run (x86_state *s, uint64_t target) {
  for (int hops = 0; hops < C01_MAX_HOPS; hops++) {
    if (c01_builtin_call (s, target) || c01_ext_call (s, target)) return;
    if (!lift_dispatch (s, target)) {
      H_ASSERT (0, "generated code transfers control to an address that is neither lifted code, a known external nor a builtin");
      s->exit_kind = X86_EXIT_ABORT;
      return;
    }
    if (s->exit_kind == X86_EXIT_JUMP || s->exit_kind == X86_EXIT_INDIRECT) { target = s->exit_target; continue; }
    return; /* RET, TRAP, UNDEF */
  }
  H_ASSERT (0, "more tail jumps than the harness follows");
  s->exit_kind = X86_EXIT_ABORT;
}
void x86_call (x86_state *s, uint64_t target) {
  /* the entry rsp is 8 mod 16 (just after the caller's call); after the push of this call's return address rsp must
     have the same residue, i.e. rsp was 16-byte aligned at the call instruction */
  H_ASSERT (((e3_in.r[X86_RSP] - s->r[X86_RSP]) & 15) == 0, "rsp is 16-byte aligned at every call made by generated code");
  c01_lifted_run (s, target);
}

static void c01_enter (void) { e3_enter (&c01_s); h_cur_log = NULL; }
static void c01_lifted (uint64_t addr) {
  c01_lifted_run (&c01_s, addr);
  H_ASSERT (c01_s.exit_kind == X86_EXIT_RET, "generated code leaves the function with ret (no trap, no stray jump)");
  H_ASSERT (e3_returned (&c01_s), "generated code returns to the caller's return address with rsp restored");
  H_ASSERT (e3_callee_saved_ok (&c01_s), "generated code preserves rbx, rbp, r12-r15");
}

/* ---- comparisons ---- */
static int c01_same_f (float a, uint64_t xmm_lo) { float b = x86_u2f ((uint32_t) xmm_lo); return (int) (x86_f2u (a) == (uint32_t) xmm_lo) | (int) ((a != a) & (b != b)); }
static int c01_same_d (double a, uint64_t xmm_lo) { double b = x86_u2d (xmm_lo); return (int) (x86_d2u (a) == xmm_lo) | (int) ((a != a) & (b != b)); }
/* All comparisons below are BRANCH-FREE on symbolic data: under cbmc --paths every branch on a symbolic value forks a
   path (a byte-wise memcmp with early exit costs one solver query per byte). */
static uint64_t c01_bytes_diff (const uint8_t *a, const uint8_t *b, unsigned n) { /* 0 iff equal */
  uint64_t d = 0;
  for (unsigned i = 0; i < n; i++) d |= (uint64_t) (a[i] ^ b[i]);
  return d;
}
static int c01_same_ld (long double a, long double b) {
  uint64_t x[2] = {0, 0}, y[2] = {0, 0};
#if H_CBMC /* long double is binary128 under CBMC (lift_rt.h) */
  memcpy (x, &a, 16); memcpy (y, &b, 16);
#else
  memcpy (x, &a, 10); memcpy (y, &b, 10);
#endif
  return (int) (((x[0] ^ y[0]) | (x[1] ^ y[1])) == 0) | (int) ((a != a) & (b != b));
}
static long double c01_nd_ld (void) { /* arbitrary long double: every binary128 pattern under CBMC, every x87 pattern natively */
  long double v;
  uint64_t lo = nd (), hi = nd ();
  memset (&v, 0, sizeof (v));
#if H_CBMC
  memcpy (&v, &lo, 8); memcpy ((char *) &v + 8, &hi, 8);
#else
  { uint16_t se = (uint16_t) hi; memcpy (&v, &lo, 8); memcpy ((char *) &v + 8, &se, 2); }
#endif
  return v;
}

static int c01_bufs_equal (void) {
  uint64_t d = 0;
  for (int i = 0; i < C01_NBUF * C01_BUF_WORDS; i++) d |= c01_buf_interp[i] ^ c01_buf[i];
  return d == 0;
}
static int c01_logs_equal (void) {
  int ok = c01_log_i.n == c01_log_g.n;
  for (int i = 0; i < H_MAX_EXT_CALLS; i++) {
    int live = i < c01_log_i.n;
    ok &= !live | ((c01_log_i.ev[i].ext == c01_log_g.ev[i].ext) & (c01_log_i.ev[i].nargs == c01_log_g.ev[i].nargs));
    for (unsigned a = 0; a < H_MAX_CALL_ARGS; a++)
      ok &= !(live & (a < c01_log_i.ev[i].nargs)) | (c01_log_i.ev[i].arg[a] == c01_log_g.ev[i].arg[a]);
  }
  return ok;
}
static void c01_compare_memory_and_logs (void) {
  H_ASSERT (c01_bufs_equal (), "final contents of every buffer passed by pointer are equal byte for byte");
  H_ASSERT (c01_secs_equal (), "final contents of the module's data/bss sections are equal byte for byte");
  H_ASSERT (c01_log_i.n == c01_log_g.n, "same number of external calls");
  H_ASSERT (c01_logs_equal (), "external calls: same callees in the same order with the same typed argument values");
}
#endif
