/* Native confirmation of a disagreement found by C01/C02: the same MIR function, the same integer arguments, once through
   MIR_interp and once through the code MIR_gen emits at the given level (arguments: integers or the word "buf" = pointer to
   byte 16 of a zeroed 128-byte buffer, one buffer per argument position and per side).
   build: gcc -O1 -w -I/repo -o native_confirm /verif/harness/C01/native_confirm.c /repo/mir.c /repo/mir-gen.c -lm -ldl -lpthread
   run:   ./native_confirm file.mir function level args...      (not used by ./check; see corpus/repro_*.mir) */
#include "mir.h"
#include "mir-gen.h"
#include <stdio.h>
#include <stdlib.h>
#include <string.h>
typedef struct { int64_t a, b; } r2_t;
static int64_t ext_stub (int64_t a, int64_t b, int64_t c) { fprintf (stderr, "ext(%ld,%ld,%ld)\n", (long) a, (long) b, (long) c); return a + 1; }
static void *resolver (const char *name) { (void) name; return (void *) ext_stub; }
static MIR_item_t find (MIR_context_t ctx, const char *name) {
  MIR_item_t res = NULL;
  for (MIR_module_t m = DLIST_HEAD (MIR_module_t, *MIR_get_module_list (ctx)); m != NULL; m = DLIST_NEXT (MIR_module_t, m))
    for (MIR_item_t it = DLIST_HEAD (MIR_item_t, m->items); it != NULL; it = DLIST_NEXT (MIR_item_t, it))
      if (it->item_type == MIR_func_item && strcmp (it->u.func->name, name) == 0) res = it;
  return res;
}
int main (int argc, char **argv) {
  if (argc < 4) { fprintf (stderr, "usage: native file.mir func level args...\n"); return 2; }
  static char text[1 << 20];
  FILE *f = fopen (argv[1], "r"); size_t n = fread (text, 1, sizeof (text) - 1, f); text[n] = 0; fclose (f);
  int level = atoi (argv[3]), na = argc - 4;
  int64_t a[6] = {0};
  static char bufs[2][6][128];
  for (int i = 0; i < na && i < 6; i++) a[i] = strcmp (argv[4 + i], "buf") == 0 ? 0x7b7b7b7b : (int64_t) strtoull (argv[4 + i], NULL, 0);
  {
    MIR_context_t ctx = MIR_init ();
    MIR_scan_string (ctx, text);
    for (MIR_module_t m = DLIST_HEAD (MIR_module_t, *MIR_get_module_list (ctx)); m != NULL; m = DLIST_NEXT (MIR_module_t, m)) MIR_load_module (ctx, m);
    MIR_link (ctx, MIR_set_interp_interface, resolver);
    MIR_item_t fi = find (ctx, argv[2]);
    MIR_val_t v[6], res[2]; res[0].i = res[1].i = 0;
    for (int i = 0; i < 6; i++) v[i].i = a[i] == 0x7b7b7b7b ? (int64_t) &bufs[0][i][16] : a[i];
    MIR_interp_arr (ctx, fi, res, na, v);
    printf ("interp: %ld (0x%lx), %ld\n", (long) res[0].i, (unsigned long) res[0].i, (long) res[1].i);
    MIR_finish (ctx);
  }
  {
    MIR_context_t ctx = MIR_init ();
    MIR_gen_init (ctx);
    MIR_gen_set_optimize_level (ctx, level);
    MIR_scan_string (ctx, text);
    for (MIR_module_t m = DLIST_HEAD (MIR_module_t, *MIR_get_module_list (ctx)); m != NULL; m = DLIST_NEXT (MIR_module_t, m)) MIR_load_module (ctx, m);
    MIR_link (ctx, MIR_set_gen_interface, resolver);
    MIR_item_t fi = find (ctx, argv[2]);
    r2_t (*fp) (int64_t, int64_t, int64_t, int64_t, int64_t, int64_t) = MIR_gen (ctx, fi);
    for (int i = 0; i < 6; i++) if (a[i] == 0x7b7b7b7b) a[i] = (int64_t) &bufs[1][i][16];
    r2_t r = fp (a[0], a[1], a[2], a[3], a[4], a[5]);
    printf ("gen -O%d: %ld (0x%lx), %ld\n", level, (long) r.a, (unsigned long) r.a, (long) r.b);
    MIR_gen_finish (ctx);
    MIR_finish (ctx);
  }
  return 0;
}
