/* C01: generated machine code behaves like the interpreter at every optimisation level.

   One CBMC run per (function, level) executes, from the SAME symbolic inputs,
     (1) the REAL interpreter: eval()/call()/call_insn_execute() of mir-interp.c (switch build) on the icode that the
         real MIR_link + generate_icode produced (tools/mirdump, engine E2, harness/common/interp_rt.h), and
     (2) the machine code the REAL generator emitted for the same function at -O<level> (tools/mirgen-dump), lifted to
         C by tools/x86lift.py (engine E3), entered in the System V ABI state,
   and asserts equal results, equal final contents of every harness buffer and data section, and equal logs of
   external calls (callee, typed argument values, in order).  See c01_rt.h for the mechanics and for what is modelled.

   Generated per run (scratch): C01_DUMP (mirdump header of one corpus module), E3_LIFTED (lifted code of the same
   module at one level, data addresses rewritten to the section arrays of C01_DUMP), C01_CASES (entry points
   harness_<function>(), external-call decoders, address tables).  Selected with cbmc --function. */
#define H_NO_MAIN_HARNESS
#ifndef C01_DUMP
#error "define C01_DUMP, E3_LIFTED, C01_CASES"
#endif
#define H_DUMP C01_DUMP
#include "interp_rt.h" /* h.h + the real mir.c (-DMIR_DIRECT_DISPATCH) + the dumped icode */
#include "lift_rt.h"
#define E3_OWN_CALL
#ifndef E3_STACK_WORDS
#define E3_STACK_WORDS 288
#endif
#ifndef E3_STACK_BELOW
#define E3_STACK_BELOW 256
#endif
#include E3_LIFTED
#include "e3h.h"
#include "c01_rt.h"
#include C01_CASES
