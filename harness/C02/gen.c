/* C02, leg 2: every instruction through the machine code emitted by the REAL generator (MIR_gen at -O<level>,
   dumped natively by tools/mirgen-dump, lifted to C by tools/x86lift.py) for ALL operand values, against
   ref/mir_ref.h.  Same generated cases as the interpreter leg (c02_cases.h: harness_<case>() calls the runner
   functions h_run_*); here the runners place the arguments per the System V ABI, call lift_<function>, check
   that it returned to the caller with rsp and the callee-saved registers restored, and read the results from
   the ABI result locations.

   Generated per run (scratch): E3_LIFTED (lifted code of one level), c02_gen_map.h (H_LIFT_<fid> = lifted
   function of case <fid>, H_SIG_<fid> = its prototype as dumped, encoded by h_sig()), c02_cases.h.

   Not the real code (listed as assumptions in the evidence):
     - the builtins mir.ui2f / mir.ui2d / mir.ui2ld / mir.ld2i are C functions compiled by gcc in production;
       x86_call models them by their C semantics ((float)(uint64_t)x, ..., (int64_t)ld).  The CALL (argument
       and result locations, stack alignment, values live across it) is checked, the builtin body is not.
     - x87 / SSE control words at their ABI defaults, long double = CBMC's binary128 on all sides (lift_rt.h). */
#define H_NO_MAIN_HARNESS
#include "h.h"
#include "lift_rt.h"
#define E3_OWN_CALL
#ifndef E3_LIFTED
#error "define E3_LIFTED (the file produced by tools/x86lift.py)"
#endif
#include E3_LIFTED
#include "e3h.h"
#include "mir_ref.h"
#include "c02_gen_map.h"

/* ---- symbolic fp inputs / comparison helpers (the case code of c02_cases.h uses these names) ---- */
static float h_nd_f (void) { return nd_float (); }
static double h_nd_d (void) { return nd_double (); }
static long double h_nd_ld (void) {
  long double v;
  uint64_t lo = nd (), hi = nd ();
  memset (&v, 0, sizeof (v));
#if H_CBMC /* CBMC: long double is IEEE binary128 - every 128-bit pattern */
  memcpy (&v, &lo, 8); memcpy ((char *) &v + 8, &hi, 8);
#else /* native replay: x87 80-bit pattern */
  { uint16_t se = (uint16_t) hi; memcpy (&v, &lo, 8); memcpy ((char *) &v + 8, &se, 2); }
#endif
  return v;
}
static int h_same_f (float a, float b) { uint32_t x, y; memcpy (&x, &a, 4); memcpy (&y, &b, 4); return x == y || (a != a && b != b); }
static int h_same_d (double a, double b) { uint64_t x, y; memcpy (&x, &a, 8); memcpy (&y, &b, 8); return x == y || (a != a && b != b); }
static int h_same_ld (long double a, long double b) {
#if H_CBMC
  return memcmp (&a, &b, 16) == 0 || (a != a && b != b);
#else
  return memcmp (&a, &b, 10) == 0 || (a != a && b != b);
#endif
}

/* ---- prototype encoding: one hex digit per type, results then 0xf then arguments (most significant first) ---- */
enum { H_T_I = 1, H_T_F = 2, H_T_D = 3, H_T_LD = 4, H_T_SEP = 0xf };
#define H_SIG1(r, a) ((((uint64_t) (r)) << 8) | (H_T_SEP << 4) | (a))
#define H_SIG2(r, a, b) ((((uint64_t) (r)) << 12) | (H_T_SEP << 8) | ((a) << 4) | (b))
#define H_SIG3(r, a, b, c) ((((uint64_t) (r)) << 16) | (H_T_SEP << 12) | ((a) << 8) | ((b) << 4) | (c))
#define H_SIG2R2(r, q, a, b) ((((uint64_t) (r)) << 16) | (((uint64_t) (q)) << 12) | (H_T_SEP << 8) | ((a) << 4) | (b))

static x86_state h_s;
static int h_ni, h_nf, h_nld; /* next free int register / xmm register / 16-byte stack slot */
static int h_calls;           /* builtin calls made by the lifted code */
static const int h_int_reg[6] = {E3_A0, E3_A1, E3_A2, E3_A3, E3_A4, E3_A5};

static void h_interp_init (void) { /* name kept from the interpreter leg: start of a case */
  e3_enter (&h_s);
  h_ni = h_nf = h_nld = 0;
  h_calls = 0;
}
static int h_arg_i (uint64_t v) { h_s.r[h_int_reg[h_ni++]] = v; return 0; }
/* float/double: only the low 32/64 bits of the xmm register carry the argument; the rest stays symbolic */
static int h_arg_f (float v) { h_s.xmm[h_nf][0] = (h_s.xmm[h_nf][0] & ~(uint64_t) 0xffffffffu) | x86_f2u (v); h_nf++; return 0; }
static int h_arg_d (double v) { h_s.xmm[h_nf][0] = x86_d2u (v); h_nf++; return 0; }
/* long double: 16-byte slots on the stack right above the return address */
static int h_arg_ld (long double v) { x86_ld_store (E3_ADDR (&e3_stack[E3_STACK_BELOW + 1 + 2 * h_nld]), v); h_nld++; return 0; }

/* after the call: returned to the caller, callee-saved registers preserved, x87 stack holds exactly the ld results */
static void h_post (uint64_t sig_dumped, uint64_t sig_expected, int nld_results) {
  H_ASSERT (sig_dumped == sig_expected, "prototype of the generated function as the runner expects it");
  H_ASSERT (h_s.exit_kind == X86_EXIT_RET, "generated code leaves the function with ret (no trap, no stray jump)");
  H_ASSERT (e3_returned (&h_s), "generated code returns to the caller's return address with rsp restored");
  H_ASSERT (e3_callee_saved_ok (&h_s), "generated code preserves rbx, rbp, r12-r15");
  H_ASSERT (h_s.fdepth == nld_results, "x87 stack holds exactly the long double results");
}
static uint64_t h_res_i (uint64_t sd, uint64_t se) { h_post (sd, se, 0); return h_s.r[X86_RAX]; }
static int h_res_i2 (uint64_t sd, uint64_t se, uint64_t *out) { h_post (sd, se, 0); out[0] = h_s.r[X86_RAX]; out[1] = h_s.r[X86_RDX]; return 0; }
static float h_res_f (uint64_t sd, uint64_t se) { h_post (sd, se, 0); return x86_u2f ((uint32_t) h_s.xmm[0][0]); }
static double h_res_d (uint64_t sd, uint64_t se) { h_post (sd, se, 0); return x86_u2d (h_s.xmm[0][0]); }
static long double h_res_ld (uint64_t sd, uint64_t se) { h_post (sd, se, 1); return X86_ST (&h_s, 0); }

/* ---- builtins called by generated code ---- */
static void h_havoc_caller_saved (x86_state *s) {
  s->r[X86_RAX] = nd (); s->r[X86_RCX] = nd (); s->r[X86_RDX] = nd (); s->r[X86_RSI] = nd (); s->r[X86_RDI] = nd ();
  s->r[X86_R8] = nd (); s->r[X86_R9] = nd (); s->r[X86_R10] = nd (); s->r[X86_R11] = nd ();
  for (int i = 0; i < 16; i++) { s->xmm[i][0] = nd (); s->xmm[i][1] = nd (); }
  s->cf = nd_bool (); s->zf = nd_bool (); s->sf = nd_bool (); s->of = nd_bool (); s->pf = nd_bool ();
}
void x86_call (x86_state *s, uint64_t target) {
  /* at the call instruction rsp is 16-byte aligned: the entry rsp (just after the caller's call) is 8 mod 16,
     the return address of this call has been pushed => same residue as the entry rsp */
  H_ASSERT (((e3_in.r[X86_RSP] - s->r[X86_RSP]) & 15) == 0, "rsp is 16-byte aligned at a call made by generated code");
  H_ASSERT (s->fdepth == 0, "x87 stack empty at a call");
  H_ASSERT (h_calls == 0, "at most one builtin call per one-instruction function");
  h_calls++;
  if (target == LIFT_SYM_mir_ui2f) {
    uint64_t a = s->r[X86_RDI];
    h_havoc_caller_saved (s);
    s->xmm[0][0] = (s->xmm[0][0] & ~(uint64_t) 0xffffffffu) | x86_f2u ((float) a);
  } else if (target == LIFT_SYM_mir_ui2d) {
    uint64_t a = s->r[X86_RDI];
    h_havoc_caller_saved (s);
    s->xmm[0][0] = x86_d2u ((double) a);
  } else if (target == LIFT_SYM_mir_ui2ld) {
    uint64_t a = s->r[X86_RDI];
    h_havoc_caller_saved (s);
    x86_fpush (s, (long double) a);
  } else if (target == LIFT_SYM_mir_ld2i) {
    long double a = x86_ld_load (s->r[X86_RSP] + 8);
    h_havoc_caller_saved (s);
    /* C: out-of-range conversion is undefined; the case code assumes the operand in range */
    s->r[X86_RAX] = (uint64_t) (int64_t) a;
  } else {
    H_ASSERT (0, "call from generated code to something that is not one of the four conversion builtins");
    s->exit_kind = X86_EXIT_ABORT;
    return;
  }
  s->r[X86_RSP] += 8; /* the callee's ret */
}

/* ---- runner API of c02_cases.h.  FID_<case> is a decimal literal, H_LIFT_<n> / H_SIG_<n> come from c02_gen_map.h;
   the call is a DIRECT call of the lifted function (so that --drop-unused-functions keeps only that one). ---- */
#define H_PASTE2(a, b) a##b
#define H_PASTE(a, b) H_PASTE2 (a, b)
#define H_CALL(f) (H_PASTE (H_LIFT_, f) (&h_s), 0)
#define H_SIGOF(f) H_PASTE (H_SIG_, f)
#define h_run_i1(f, a) (h_arg_i (a), H_CALL (f), h_res_i (H_SIGOF (f), H_SIG1 (H_T_I, H_T_I)))
#define h_run_i2(f, a, b) (h_arg_i (a), h_arg_i (b), H_CALL (f), h_res_i (H_SIGOF (f), H_SIG2 (H_T_I, H_T_I, H_T_I)))
#define h_run_i3(f, a, b, c) (h_arg_i (a), h_arg_i (b), h_arg_i (c), H_CALL (f), h_res_i (H_SIGOF (f), H_SIG3 (H_T_I, H_T_I, H_T_I, H_T_I)))
#define h_run_i2r2(f, a, b, out) ((void) (h_arg_i (a), h_arg_i (b), H_CALL (f), h_res_i2 (H_SIGOF (f), H_SIG2R2 (H_T_I, H_T_I, H_T_I, H_T_I), out)))
#define h_run_f2(f, a, b) (h_arg_f (a), h_arg_f (b), H_CALL (f), h_res_f (H_SIGOF (f), H_SIG2 (H_T_F, H_T_F, H_T_F)))
#define h_run_d2(f, a, b) (h_arg_d (a), h_arg_d (b), H_CALL (f), h_res_d (H_SIGOF (f), H_SIG2 (H_T_D, H_T_D, H_T_D)))
#define h_run_ld2(f, a, b) (h_arg_ld (a), h_arg_ld (b), H_CALL (f), h_res_ld (H_SIGOF (f), H_SIG2 (H_T_LD, H_T_LD, H_T_LD)))
#define h_run_f1(f, a) (h_arg_f (a), H_CALL (f), h_res_f (H_SIGOF (f), H_SIG1 (H_T_F, H_T_F)))
#define h_run_d1(f, a) (h_arg_d (a), H_CALL (f), h_res_d (H_SIGOF (f), H_SIG1 (H_T_D, H_T_D)))
#define h_run_ld1(f, a) (h_arg_ld (a), H_CALL (f), h_res_ld (H_SIGOF (f), H_SIG1 (H_T_LD, H_T_LD)))
#define h_run_f2i(f, a, b) (h_arg_f (a), h_arg_f (b), H_CALL (f), h_res_i (H_SIGOF (f), H_SIG2 (H_T_I, H_T_F, H_T_F)))
#define h_run_d2i(f, a, b) (h_arg_d (a), h_arg_d (b), H_CALL (f), h_res_i (H_SIGOF (f), H_SIG2 (H_T_I, H_T_D, H_T_D)))
#define h_run_ld2i(f, a, b) (h_arg_ld (a), h_arg_ld (b), H_CALL (f), h_res_i (H_SIGOF (f), H_SIG2 (H_T_I, H_T_LD, H_T_LD)))
#define h_run_f1i(f, a) (h_arg_f (a), H_CALL (f), h_res_i (H_SIGOF (f), H_SIG1 (H_T_I, H_T_F)))
#define h_run_d1i(f, a) (h_arg_d (a), H_CALL (f), h_res_i (H_SIGOF (f), H_SIG1 (H_T_I, H_T_D)))
#define h_run_ld1i(f, a) (h_arg_ld (a), H_CALL (f), h_res_i (H_SIGOF (f), H_SIG1 (H_T_I, H_T_LD)))
#define h_run_i1f(f, a) (h_arg_i (a), H_CALL (f), h_res_f (H_SIGOF (f), H_SIG1 (H_T_F, H_T_I)))
#define h_run_i1d(f, a) (h_arg_i (a), H_CALL (f), h_res_d (H_SIGOF (f), H_SIG1 (H_T_D, H_T_I)))
#define h_run_i1ld(f, a) (h_arg_i (a), H_CALL (f), h_res_ld (H_SIGOF (f), H_SIG1 (H_T_LD, H_T_I)))
#define h_run_f1d(f, a) (h_arg_f (a), H_CALL (f), h_res_d (H_SIGOF (f), H_SIG1 (H_T_D, H_T_F)))
#define h_run_f1ld(f, a) (h_arg_f (a), H_CALL (f), h_res_ld (H_SIGOF (f), H_SIG1 (H_T_LD, H_T_F)))
#define h_run_d1f(f, a) (h_arg_d (a), H_CALL (f), h_res_f (H_SIGOF (f), H_SIG1 (H_T_F, H_T_D)))
#define h_run_d1ld(f, a) (h_arg_d (a), H_CALL (f), h_res_ld (H_SIGOF (f), H_SIG1 (H_T_LD, H_T_D)))
#define h_run_ld1f(f, a) (h_arg_ld (a), H_CALL (f), h_res_f (H_SIGOF (f), H_SIG1 (H_T_F, H_T_LD)))
#define h_run_ld1d(f, a) (h_arg_ld (a), H_CALL (f), h_res_d (H_SIGOF (f), H_SIG1 (H_T_D, H_T_LD)))
#define h_run_i2f(f, a, b) (h_arg_i (a), h_arg_i (b), H_CALL (f), h_res_f (H_SIGOF (f), H_SIG2 (H_T_F, H_T_I, H_T_I)))
#define h_run_i2d(f, a, b) (h_arg_i (a), h_arg_i (b), H_CALL (f), h_res_d (H_SIGOF (f), H_SIG2 (H_T_D, H_T_I, H_T_I)))
#define h_run_i2ld(f, a, b) (h_arg_i (a), h_arg_i (b), H_CALL (f), h_res_ld (H_SIGOF (f), H_SIG2 (H_T_LD, H_T_I, H_T_I)))

#include "c02_cases.h"
