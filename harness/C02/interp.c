/* C02, leg 1 and 3: every instruction through the REAL interpreter (eval) on the icode produced by the
   REAL MIR_link (simplify_func incl. the algebraic shortcuts) + generate_icode, for ALL operand values,
   against ref/mir_ref.h.  Generated parts (per run, from /repo's working tree): c02_dump.h (mirdump),
   c02_cases.h (tools/gen_c02.py).  One CBMC entry point per case: harness_<case>. */
#define H_NO_MAIN_HARNESS
#ifndef H_DUMP
#define H_DUMP "c02_dump.h"
#endif
#ifndef H_CASES
#define H_CASES "c02_cases.h"
#endif
#include "interp_rt.h"
#include "mir_ref.h"

static float h_nd_f (void) { return nd_float (); }
static double h_nd_d (void) { return nd_double (); }
static long double h_nd_ld (void) {
  long double v; uint64_t m = nd (), se = nd ();
  memset (&v, 0, sizeof (v));
#if H_CBMC /* CBMC models long double as a 128-bit IEEE format: every bit pattern of the 16 bytes */
  memcpy (&v, &m, 8); memcpy ((char *) &v + 8, &se, 8);
#else      /* native: the x87 80-bit format, ten significant bytes */
  { uint16_t e = (uint16_t) se; memcpy (&v, &m, 8); memcpy ((char *) &v + 8, &e, 2); }
#endif
  return v;
}
static int h_same_f (float a, float b) { uint32_t x, y; memcpy (&x, &a, 4); memcpy (&y, &b, 4); return x == y || (a != a && b != b); }
static int h_same_d (double a, double b) { uint64_t x, y; memcpy (&x, &a, 8); memcpy (&y, &b, 8); return x == y || (a != a && b != b); }
static int h_same_ld (long double a, long double b) { return a == b ? (1 / a == 1 / b || a != 0) : (a != a && b != b); } /* value equality incl. the sign of zero */

#define H_ARGS(n) MIR_val_t args[n + 1], res[2]; memset (args, 0, sizeof (args)); memset (res, 0, sizeof (res))
static uint64_t h_run_i1 (int f, uint64_t a) { H_ARGS (1); args[0].u = a; h_run (f, args, res); return res[0].u; }
static uint64_t h_run_i2 (int f, uint64_t a, uint64_t b) { H_ARGS (2); args[0].u = a; args[1].u = b; h_run (f, args, res); return res[0].u; }
static uint64_t h_run_i3 (int f, uint64_t a, uint64_t b, uint64_t c) { H_ARGS (3); args[0].u = a; args[1].u = b; args[2].u = c; h_run (f, args, res); return res[0].u; }
static void h_run_i2r2 (int f, uint64_t a, uint64_t b, uint64_t *out) { H_ARGS (2); args[0].u = a; args[1].u = b; h_run (f, args, res); out[0] = res[0].u; out[1] = res[1].u; }
static float h_run_f2 (int f, float a, float b) { H_ARGS (2); args[0].f = a; args[1].f = b; h_run (f, args, res); return res[0].f; }
static double h_run_d2 (int f, double a, double b) { H_ARGS (2); args[0].d = a; args[1].d = b; h_run (f, args, res); return res[0].d; }
static long double h_run_ld2 (int f, long double a, long double b) { H_ARGS (2); args[0].ld = a; args[1].ld = b; h_run (f, args, res); return res[0].ld; }
static float h_run_f1 (int f, float a) { H_ARGS (1); args[0].f = a; h_run (f, args, res); return res[0].f; }
static double h_run_d1 (int f, double a) { H_ARGS (1); args[0].d = a; h_run (f, args, res); return res[0].d; }
static long double h_run_ld1 (int f, long double a) { H_ARGS (1); args[0].ld = a; h_run (f, args, res); return res[0].ld; }
static uint64_t h_run_f2i (int f, float a, float b) { H_ARGS (2); args[0].f = a; args[1].f = b; h_run (f, args, res); return res[0].u; }
static uint64_t h_run_d2i (int f, double a, double b) { H_ARGS (2); args[0].d = a; args[1].d = b; h_run (f, args, res); return res[0].u; }
static uint64_t h_run_ld2i (int f, long double a, long double b) { H_ARGS (2); args[0].ld = a; args[1].ld = b; h_run (f, args, res); return res[0].u; }
static uint64_t h_run_f1i (int f, float a) { H_ARGS (1); args[0].f = a; h_run (f, args, res); return res[0].u; }
static uint64_t h_run_d1i (int f, double a) { H_ARGS (1); args[0].d = a; h_run (f, args, res); return res[0].u; }
static uint64_t h_run_ld1i (int f, long double a) { H_ARGS (1); args[0].ld = a; h_run (f, args, res); return res[0].u; }
static float h_run_i1f (int f, uint64_t a) { H_ARGS (1); args[0].u = a; h_run (f, args, res); return res[0].f; }
static double h_run_i1d (int f, uint64_t a) { H_ARGS (1); args[0].u = a; h_run (f, args, res); return res[0].d; }
static long double h_run_i1ld (int f, uint64_t a) { H_ARGS (1); args[0].u = a; h_run (f, args, res); return res[0].ld; }
static double h_run_f1d (int f, float a) { H_ARGS (1); args[0].f = a; h_run (f, args, res); return res[0].d; }
static long double h_run_f1ld (int f, float a) { H_ARGS (1); args[0].f = a; h_run (f, args, res); return res[0].ld; }
static float h_run_d1f (int f, double a) { H_ARGS (1); args[0].d = a; h_run (f, args, res); return res[0].f; }
static long double h_run_d1ld (int f, double a) { H_ARGS (1); args[0].d = a; h_run (f, args, res); return res[0].ld; }
static float h_run_ld1f (int f, long double a) { H_ARGS (1); args[0].ld = a; h_run (f, args, res); return res[0].f; }
static double h_run_ld1d (int f, long double a) { H_ARGS (1); args[0].ld = a; h_run (f, args, res); return res[0].d; }
static float h_run_i2f (int f, uint64_t a, uint64_t b) { H_ARGS (2); args[0].u = a; args[1].u = b; h_run (f, args, res); return res[0].f; }
static double h_run_i2d (int f, uint64_t a, uint64_t b) { H_ARGS (2); args[0].u = a; args[1].u = b; h_run (f, args, res); return res[0].d; }
static long double h_run_i2ld (int f, uint64_t a, uint64_t b) { H_ARGS (2); args[0].u = a; args[1].u = b; h_run (f, args, res); return res[0].ld; }

#include H_CASES
