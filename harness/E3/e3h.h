/* Helpers for harnesses that run code lifted by tools/x86lift.py (engine E3).
   Include order in a harness:  h.h, lift_rt.h, the generated lifted .c (E3_LIFTED), this file.

   e3_enter (&s)     every GPR / xmm / flag symbolic (nd()), empty x87 stack, rsp inside e3_stack with
                     E3_STACK_BELOW bytes of room below and the (fake) return address E3_RETADDR at [rsp],
                     i.e. the state right after the caller's `call`: rsp % 16 == 8 relative to a 16-aligned
                     frame.  Entry values are kept in e3_in for "callee-saved registers are preserved" checks.
   e3_returned (&s)  the region ended with `ret` to E3_RETADDR and rsp is back above the return address.
   SysV argument registers: E3_A0..E3_A5 = rdi rsi rdx rcx r8 r9; fp arguments xmm0..7 (low half).
   x86_call: a harness that lifts code containing calls defines E3_OWN_CALL and its own x86_call;
   otherwise calls are a verification failure ("unexpected call"). */
#ifndef E3H_H
#define E3H_H
#define E3_RETADDR 0x0000700000001234ull
#ifndef E3_STACK_WORDS
#define E3_STACK_WORDS 64
#endif
#ifndef E3_STACK_BELOW
#define E3_STACK_BELOW 48 /* 8-byte words available below the entry rsp */
#endif
#define E3_A0 7
#define E3_A1 6
#define E3_A2 2
#define E3_A3 1
#define E3_A4 8
#define E3_A5 9
static uint64_t e3_stack[E3_STACK_WORDS];
static x86_state e3_in;

/* -DE3_INT_STACK (together with -DX86_MEM_HOOK, before lift_rt.h): the stack lives at the concrete integer
   address E3_STACK_BASE; every access of lifted code must fall into it (asserted) and be naturally aligned
   within an 8-byte word.  A harness with more memory areas defines its own x86_mem* instead. */
#ifdef E3_INT_STACK
#ifndef E3_STACK_BASE
#define E3_STACK_BASE 0x00007ffd00001000ull
#endif
#define E3_ADDR(p) (E3_STACK_BASE + 8 * (uint64_t) ((uint64_t *) (p) - e3_stack))
static uint64_t *e3_cell (uint64_t a, unsigned size) {
  H_ASSERT (a >= E3_STACK_BASE && a + size <= E3_STACK_BASE + 8 * E3_STACK_WORDS, "lifted code accesses memory outside the harness stack");
  H_ASSERT ((a & 7) + size <= 8 || size == 16, "access crosses an 8-byte word");
  return &e3_stack[(a - E3_STACK_BASE) >> 3];
}
uint64_t *x86_mem64 (uint64_t a) { return e3_cell (a, 8); }
uint32_t *x86_mem32 (uint64_t a) { return (uint32_t *) e3_cell (a, 4) + ((a >> 2) & 1); }
uint16_t *x86_mem16 (uint64_t a) { return (uint16_t *) e3_cell (a, 2) + ((a >> 1) & 3); }
uint8_t *x86_mem8 (uint64_t a) { return (uint8_t *) e3_cell (a, 1) + (a & 7); }
long double *x86_memld (uint64_t a) { return (long double *) e3_cell (a, 16); }
#else
#define E3_ADDR(p) ((uint64_t) (uintptr_t) (p))
#endif

static void e3_enter (x86_state *s) {
  x86_state_init (s);
  for (int i = 0; i < 16; i++) s->r[i] = nd ();
  for (int i = 0; i < 16; i++) { s->xmm[i][0] = nd (); s->xmm[i][1] = nd (); }
  s->cf = nd_bool (); s->zf = nd_bool (); s->sf = nd_bool (); s->of = nd_bool (); s->pf = nd_bool ();
  for (int i = E3_STACK_BELOW + 1; i < E3_STACK_WORDS; i++) e3_stack[i] = nd (); /* caller's frame: stack arguments */
  e3_stack[E3_STACK_BELOW] = E3_RETADDR;
  s->r[4] = E3_ADDR (&e3_stack[E3_STACK_BELOW]);
  e3_in = *s;
}
static int e3_returned (const x86_state *s) {
  return s->exit_kind == X86_EXIT_RET && s->exit_target == E3_RETADDR
         && s->r[4] == E3_ADDR (&e3_stack[E3_STACK_BELOW + 1]);
}
static int e3_callee_saved_ok (const x86_state *s) { /* rbx rbp r12-r15 */
  return s->r[3] == e3_in.r[3] && s->r[5] == e3_in.r[5] && s->r[12] == e3_in.r[12] && s->r[13] == e3_in.r[13]
         && s->r[14] == e3_in.r[14] && s->r[15] == e3_in.r[15];
}
#ifndef E3_OWN_CALL
void x86_call (x86_state *s, uint64_t target) {
  (void) target;
  H_ASSERT (0, "unexpected call from lifted code");
  s->exit_kind = X86_EXIT_ABORT;
}
#endif
#endif
