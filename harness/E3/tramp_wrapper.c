/* E3 smoke test 2: transparency of the hand-written wrapper trampoline (_MIR_get_wrapper +
   _MIR_get_wrapper_end of mir-x86_64.c), decided on the REAL bytes for ALL register values:
   the hook receives (ctx, func_item) with a 16-byte aligned stack, and control arrives at the
   address the hook returned with every argument register (incl. full xmm0-7), rax, the callee-saved
   registers, rsp and the caller's stack unchanged.  E3_LIFTED = x86lift output for the
   --trampolines dump (regions wrapper, wrapper_end).  -DE3_WRONG: claim that r10/r11 are preserved
   too (they are not: r10 carries the target) -- must be refuted. */
#define E3_OWN_CALL
#define X86_MEM_HOOK /* integer-addressed stack: wrapper_end computes with the low bits of rsp */
#define E3_INT_STACK
#include "h.h"
#include "lift_rt.h"
#include E3_LIFTED
#include "e3h.h"

static uint64_t h_hook_rsp, h_hook_rdi, h_hook_rsi, h_hook_ret;
static int h_hook_calls;

void x86_call (x86_state *s, uint64_t target) { /* the C hook: clobbers every caller-saved register, returns an arbitrary address */
  H_ASSERT (target == LIFT_SYM_fake_hook, "the only call goes to the hook address given to _MIR_get_wrapper");
  h_hook_calls++;
  h_hook_rsp = s->r[4]; h_hook_rdi = s->r[7]; h_hook_rsi = s->r[6];
  s->r[0] = h_hook_ret = nd ();
  s->r[1] = nd (); s->r[2] = nd (); s->r[6] = nd (); s->r[7] = nd ();
  s->r[8] = nd (); s->r[9] = nd (); s->r[10] = nd (); s->r[11] = nd ();
  for (int i = 0; i < 16; i++) { s->xmm[i][0] = nd (); s->xmm[i][1] = nd (); }
  s->cf = nd_bool (); s->zf = nd_bool (); s->sf = nd_bool (); s->of = nd_bool (); s->pf = nd_bool ();
  s->r[4] += 8; /* ret */
}

void harness (void) {
  x86_state s;
  e3_enter (&s);
#ifdef E3_ALIGN0 /* two obligations, one per stack alignment: rsp % 16 == 8 (default, as after a call) and == 0 */
  e3_stack[E3_STACK_BELOW + 1] = E3_RETADDR;
  s.r[4] += 8;
  e3_in = s;
#endif
  uint64_t rsp0 = s.r[4];
  uint64_t above[8];
  for (int i = 0; i < 8; i++) above[i] = X86_M64 (rsp0 + 8 * i);

  lift_wrapper (&s);
  H_ASSERT (s.exit_kind == X86_EXIT_JUMP && s.exit_target == LIFT_WRAPPER_END_ADDR, "wrapper jumps to ctx->wrapper_end_addr");
  lift_wrapper_end (&s);
  H_ASSERT (h_hook_calls == 1, "hook called exactly once");
  H_ASSERT (h_hook_rdi == LIFT_SYM_ctx && h_hook_rsi == LIFT_SYM_fake_func_item, "hook receives (ctx, func_item)");
  H_ASSERT ((h_hook_rsp + 8) % 16 == 0, "rsp 16-byte aligned at the hook call");
  H_ASSERT (s.exit_kind == X86_EXIT_INDIRECT && s.exit_target == h_hook_ret, "control continues at the address returned by the hook");
  H_ASSERT (s.r[4] == rsp0, "rsp restored");
  H_ASSERT (s.r[7] == e3_in.r[7] && s.r[6] == e3_in.r[6] && s.r[2] == e3_in.r[2] && s.r[1] == e3_in.r[1] && s.r[8] == e3_in.r[8]
              && s.r[9] == e3_in.r[9] && s.r[0] == e3_in.r[0], "rdi rsi rdx rcx r8 r9 rax restored");
  H_ASSERT (e3_callee_saved_ok (&s), "callee-saved registers preserved");
  for (int i = 0; i < 8; i++)
    H_ASSERT (s.xmm[i][0] == e3_in.xmm[i][0] && s.xmm[i][1] == e3_in.xmm[i][1], "xmm0-7 restored (all 128 bits)");
  for (int i = 0; i < 8; i++) H_ASSERT (X86_M64 (rsp0 + 8 * i) == above[i], "caller's stack (return address and above) unchanged");
#ifdef E3_WRONG
  H_ASSERT (s.r[10] == e3_in.r[10], "r10 preserved (deliberately wrong: r10 carries the target)");
#endif
  H_WITNESS ("end of harness reached");
}
