/* E3 smoke test: code emitted by the REAL generator for one-instruction MIR functions
   (tools/gen_oneinsn.py), lifted by tools/x86lift.py, equals a small reference expression for ALL
   64-bit register values.  -DOP=n selects the case, -DE3_WRONG flips the reference into a wrong one
   (must be refuted).  E3_LIFTED is the generated file (built by props/E3smoke.py or by hand, see
   tools/README-E3.md). */
#include "h.h"
#include "lift_rt.h"
#include E3_LIFTED
#include "e3h.h"

#ifndef OP
#define OP 0
#endif

static int h_same_float (uint32_t x, uint32_t y) { /* equal bits, or both NaN */
  int xn = (x & 0x7f800000u) == 0x7f800000u && (x & 0x7fffffu), yn = (y & 0x7f800000u) == 0x7f800000u && (y & 0x7fffffu);
  return x == y || (xn && yn);
}

void harness (void) {
  x86_state s;
  e3_enter (&s);
  uint64_t a = s.r[E3_A0], b = s.r[E3_A1];
#if OP == 0 /* add r, a, b */
  lift_f_add_rrr (&s);
  H_ASSERT (e3_returned (&s), "add: returns to the caller with rsp restored");
  H_ASSERT (e3_callee_saved_ok (&s), "add: callee-saved registers preserved");
#ifdef E3_WRONG
  H_ASSERT (s.r[0] == a + b + (a == 0x123456789ull), "add: rax == a + b (deliberately wrong reference)");
#else
  H_ASSERT (s.r[0] == a + b, "add: rax == a + b");
#endif
#elif OP == 1 /* divs r, a, b : 32-bit signed division, upper half of the result undefined */
  {
    int32_t x = (int32_t) (uint32_t) a, y = (int32_t) (uint32_t) b;
    H_ASSUME (y != 0 && !(x == INT32_MIN && y == -1)); /* MIR: division by zero and INT_MIN/-1 are undefined */
    lift_f_divs_rrr (&s);
    H_ASSERT (e3_returned (&s), "divs: returns to the caller with rsp restored");
    H_ASSERT (e3_callee_saved_ok (&s), "divs: callee-saved registers preserved");
#ifdef E3_WRONG
    H_ASSERT ((uint32_t) s.r[0] == (uint32_t) ((uint32_t) x / (uint32_t) y), "divs: low half == a /s b (deliberately wrong: unsigned)");
#else
    H_ASSERT ((uint32_t) s.r[0] == (uint32_t) (x / y), "divs: low half == a /s b");
#endif
  }
#elif OP == 2 /* fadd r, a, b  (floats in xmm0, xmm1; result in xmm0) */
  {
    float x = x86_u2f ((uint32_t) s.xmm[0][0]), y = x86_u2f ((uint32_t) s.xmm[1][0]);
    lift_f_fadd_rrr (&s);
    H_ASSERT (e3_returned (&s), "fadd: returns to the caller with rsp restored");
#ifdef E3_WRONG
    H_ASSERT (h_same_float ((uint32_t) s.xmm[0][0], x86_f2u (x - y)), "fadd: xmm0 == a + b (deliberately wrong: a - b)");
#else
    H_ASSERT (h_same_float ((uint32_t) s.xmm[0][0], x86_f2u (x + y)), "fadd: xmm0 == a + b");
#endif
  }
#elif OP == 3 /* ult r, a, b */
  lift_f_ult_rrr (&s);
  H_ASSERT (e3_returned (&s), "ult: returns to the caller with rsp restored");
  H_ASSERT (e3_callee_saved_ok (&s), "ult: callee-saved registers preserved");
#ifdef E3_WRONG
  H_ASSERT (s.r[0] == (uint64_t) ((int64_t) a < (int64_t) b), "ult: rax == a <u b (deliberately wrong: signed)");
#else
  H_ASSERT (s.r[0] == (uint64_t) (a < b), "ult: rax == a <u b");
#endif
#elif OP == 4 /* add r, a, i64:(ptr): memory operand shared with the harness */
  {
    static uint64_t buf[4];
    uint64_t k = nd_below (4);
    for (int i = 0; i < 4; i++) buf[i] = nd ();
    s.r[E3_A2] = (uint64_t) (uintptr_t) &buf[k];
    uint64_t m = buf[k];
    lift_f_add_ms (&s);
    H_ASSERT (e3_returned (&s), "add_ms: returns to the caller with rsp restored");
#ifdef E3_WRONG
    H_ASSERT (s.r[0] == a + buf[(k + 1) & 3], "add_ms: rax == a + mem (deliberately wrong cell)");
#else
    H_ASSERT (s.r[0] == a + m, "add_ms: rax == a + mem");
#endif
  }
#elif OP == 5 /* deq r, a, b : ucomisd + parity sequence, NaN handling decided exactly */
  {
    double x = x86_u2d (s.xmm[0][0]), y = x86_u2d (s.xmm[1][0]);
    lift_f_deq_rrr (&s);
    H_ASSERT (e3_returned (&s), "deq: returns to the caller with rsp restored");
#ifdef E3_WRONG
    H_ASSERT (s.r[0] == (uint64_t) (x == y || x != x || y != y), "deq: rax == (a == b) (deliberately wrong: unordered counts as equal)");
#else
    H_ASSERT (s.r[0] == (uint64_t) (x == y), "deq: rax == (a == b)");
#endif
  }
#elif OP == 6 /* ldadd r, a, b : long double arguments on the stack, result in st(0) */
  {
    /* the two 16-byte argument slots sit right above the return address */
    long double x = 3.25L, y = -1.5L; /* concrete values: CBMC's x87 long double <-> bytes conversion is exercised, not the adder */
    x86_ld_store ((uint64_t) (uintptr_t) &e3_stack[E3_STACK_BELOW + 1], x);
    x86_ld_store ((uint64_t) (uintptr_t) &e3_stack[E3_STACK_BELOW + 3], y);
    lift_f_ldadd_rrr (&s);
    H_ASSERT (e3_returned (&s), "ldadd: returns to the caller with rsp restored");
    H_ASSERT (s.fdepth == 1, "ldadd: exactly one value on the x87 stack");
#ifdef E3_WRONG
    H_ASSERT (X86_ST (&s, 0) == x - y, "ldadd: st0 == a + b (deliberately wrong: a - b)");
#else
    H_ASSERT (X86_ST (&s, 0) == x + y, "ldadd: st0 == a + b");
#endif
  }
#else
#error unknown OP
#endif
  H_WITNESS ("end of harness reached");
}
