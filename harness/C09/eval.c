/* C09 / #if evaluation: the real `eval` + `eval_binop_operands` of c2mir/c2mir.c on hand-built expression trees.

   Tree shapes (H_SHAPE):
     1  OP (leaf, leaf, leaf)                           one operator over leaves; OP concrete (-DOP=<ppif_op>)
     2  OP (.., OP1 (leaf..), ..)                       depth 2: the H_POS-th operand of the outer operator OP is an
                                                        inner operator node; OP1 is symbolic (all 23 operators) unless
                                                        -DH_OP1=<ppif_op>; all other operands are leaves
   Symbolic: kind of every leaf (N_I N_L N_LL | N_U N_UL N_ULL | N_CH | N_CH16 N_CH32), 64-bit value of every leaf,
   inner operator.  Nodes are real `struct node`s in static storage linked with the real NL_APPEND; no allocator,
   no c2mir_init: the context is a zeroed `struct c2m_ctx` with `options` (message_file) and `node_positions` only,
   which is all `eval`/`error`/`POS` touch.
   Oracle: ref/ppif_ref.h (C11 6.10.1p4 + 6.6 + 6.5.x).  `error ()` is observable through c2m_ctx->n_errors.
   -DH_DIV0=1      (shape 1, OP = / or %) divisor is zero: a diagnostic must be reported
   -DH_EXCLUDE_F6  assume away exactly the operand-type combinations of finding F6 (see props/C09.py) */
#include "h.h"
#include <stdarg.h>
#if H_CBMC
/* message output of error (): no-ops; that an error was reported stays observable in n_errors */
int vfprintf (FILE *f, const char *fmt, va_list ap) { (void) f; (void) fmt; (void) ap; return 0; }
int fprintf (FILE *f, const char *fmt, ...) { (void) f; (void) fmt; return 0; }
#endif
#include "c2mir/c2mir.c"
#include "ppif_ref.h"

#ifndef H_SHAPE
#define H_SHAPE 1
#endif
#ifndef H_POS
#define H_POS 0
#endif

#define H_NN 8
static struct c2mir_options h_opts;
static struct c2m_ctx h_ctx;
static pos_t h_pos[H_NN];
static VARR (pos_t) h_positions;
static struct node h_nodes[H_NN];
static int h_nn;
static int h_f6; /* some node of the tree has an operand-type combination of finding F6 */

static const node_code_t h_code[PPIF_NOPS] = {
  [PPIF_BITNOT] = N_BITWISE_NOT, [PPIF_NOT] = N_NOT, [PPIF_PLUS] = N_ADD, [PPIF_NEG] = N_SUB,
  [PPIF_EQ] = N_EQ, [PPIF_NE] = N_NE, [PPIF_LT] = N_LT, [PPIF_LE] = N_LE, [PPIF_GT] = N_GT, [PPIF_GE] = N_GE,
  [PPIF_ADD] = N_ADD, [PPIF_SUB] = N_SUB, [PPIF_MUL] = N_MUL, [PPIF_DIV] = N_DIV, [PPIF_MOD] = N_MOD,
  [PPIF_AND] = N_AND, [PPIF_OR] = N_OR, [PPIF_XOR] = N_XOR, [PPIF_LSH] = N_LSH, [PPIF_RSH] = N_RSH,
  [PPIF_ANDAND] = N_ANDAND, [PPIF_OROR] = N_OROR, [PPIF_COND] = N_COND};

static node_t h_new (node_code_t code) {
  node_t n = &h_nodes[h_nn];
  n->code = code;
  n->uid = (unsigned) h_nn++;
  n->attr = NULL;
  n->op_link.prev = n->op_link.next = NULL;
  n->u.ops.head = n->u.ops.tail = NULL; /* also zeroes the first 16 bytes of the value union */
  return n;
}

/* a constant: the token kinds a pp-number or character constant can become */
static node_t h_leaf (ppif_val *v) {
  static const node_code_t kinds[9] = {N_I, N_L, N_LL, N_U, N_UL, N_ULL, N_CH, N_CH16, N_CH32};
  unsigned k = (unsigned) nd_below (9);
  uint64_t bits = nd ();
  node_t n = h_new (kinds[k]);
  switch (kinds[k]) {
  case N_I:
  case N_L: n->u.l = (mir_long) bits; *v = ppif_leaf (0, bits); break;
  case N_LL: n->u.ll = (mir_llong) bits; *v = ppif_leaf (0, bits); break;
  case N_U:
  case N_UL: n->u.ul = bits; *v = ppif_leaf (1, bits); break;
  case N_ULL: n->u.ull = bits; *v = ppif_leaf (1, bits); break;
  case N_CH: /* plain char is signed on x86-64: 'c' has the value of a char, type int -> intmax_t */
    n->u.ch = (mir_char) bits;
    *v = ppif_leaf (0, (uint64_t) (int64_t) (int8_t) bits);
    break;
  default: /* u'c' U'c': char16_t / char32_t are unsigned types -> uintmax_t */
    n->u.ul = bits;
    *v = ppif_leaf (1, bits);
    break;
  }
  return n;
}

static void h_note_f6 (ppif_op op, ppif_val a, ppif_val b, ppif_val c) {
  if (op >= PPIF_EQ && op <= PPIF_GE && (a.uns || b.uns)) h_f6 = 1;
  if (op == PPIF_NOT && a.uns) h_f6 = 1;
  if ((op == PPIF_LSH || op == PPIF_RSH) && a.uns != b.uns) h_f6 = 1;
  if (op == PPIF_COND && b.uns != c.uns) h_f6 = 1;
}

/* operator node over the given operand nodes; returns the reference value */
static node_t h_op (ppif_op op, node_t k[3], ppif_val kv[3], ppif_val *v) {
  node_t n = h_new (h_code[op]);
  int ar = ppif_arity (op);
  for (int i = 0; i < 3; i++)
    if (i < ar) NL_APPEND (n->u.ops, k[i]);
#if H_CBMC
  /* Same memory state, written once more through the union member by which CBMC represents `u` (its first widest
     member, the str_t): CBMC's simplifier does not propagate a pointer stored through the `ops` member of the union,
     every operand would then be "some node" and symex explores all 23 cases at every level. */
  n->u.s.s = (const char *) k[0];
  n->u.s.len = (size_t) k[ar - 1];
#endif
  h_note_f6 (op, kv[0], kv[1], kv[2]);
  *v = ppif_apply (op, kv[0], kv[1], kv[2]);
  return n;
}

void harness (void) {
  c2m_ctx_t c2m_ctx = &h_ctx;
  node_t k[3], root;
  ppif_val kv[3], exp;
  struct val res;

  c2m_options = &h_opts;
#if H_CBMC
  h_opts.message_file = (FILE *) &h_opts; /* any non-null stream: error () counts only when a stream is set */
#else
  h_opts.message_file = stderr;
#endif
  for (int i = 0; i < H_NN; i++) h_pos[i] = no_pos;
  h_positions.els_num = h_positions.size = H_NN;
  h_positions.varr = h_pos;
  node_positions = &h_positions;

  ppif_op op = (ppif_op) (OP);
#if H_SHAPE == 1
  for (int i = 0; i < 3; i++) k[i] = h_leaf (&kv[i]);
#if defined(H_DIV0)
  H_ASSUME (kv[1].bits == 0);
#elif OP == 13 || OP == 14 /* PPIF_DIV, PPIF_MOD */
  H_ASSUME (kv[1].bits != 0);
#endif
  root = h_op (op, k, kv, &exp);
#else
  {
#ifdef H_OP1
    ppif_op op1 = (ppif_op) (H_OP1);
#else
    ppif_op op1 = (ppif_op) nd_below (PPIF_NOPS);
#endif
    node_t ik[3];
    ppif_val ikv[3];
    H_ASSUME (H_POS < ppif_arity (op));
    for (int i = 0; i < 3; i++) ik[i] = h_leaf (&ikv[i]);
    for (int i = 0; i < 3; i++)
      if (i == H_POS)
        k[i] = h_op (op1, ik, ikv, &kv[i]);
      else
        k[i] = h_leaf (&kv[i]);
    root = h_op (op, k, kv, &exp);
  }
#endif
#ifdef H_EXCLUDE_F6
  H_ASSUME (!h_f6);
#endif

  res = eval (c2m_ctx, root);

#ifdef H_EARLY_VALUE
  /* Solver aid for `*`: the wrapped product is compared BEFORE overflow is assumed away (stronger than the property:
     the value is also checked where C leaves it undefined), so that this query does not depend on the 128-bit
     product that decides representability. */
  H_ASSERT (res.u.u_val == exp.bits, "result value (wrapped, also where C leaves it undefined)");
#endif

  /* undefined behaviour in an evaluated position: C requires nothing (MIR wraps) - not claimed */
  H_ASSUME (!exp.undef);
  if (exp.diag) {
    H_ASSERT (n_errors != 0, "division/remainder by zero in an evaluated position is diagnosed");
#if defined(H_DIV0) || (H_SHAPE == 2 && !defined(H_OP1))
    H_WITNESS ("zero divisor evaluated");
#endif
  } else {
    H_ASSERT (n_errors == 0, "no error for an expression whose evaluated part is valid");
    H_ASSERT ((res.uns_p != 0) == exp.uns, "result type: intmax_t vs uintmax_t as C11 requires");
    H_ASSERT (res.u.u_val == exp.bits, "result value");
#if !defined(H_DIV0)
    H_WITNESS ("result compared");
#endif
  }
  H_WITNESS ("end");
}
