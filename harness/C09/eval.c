/* C09 / #if evaluation: the real `eval` + `eval_binop_operands` of c2mir/c2mir.c on hand-built expression trees.

   Tree shapes (H_SHAPE):
     0  leaf                                  every constant kind eval accepts
     1  OP (leaf, leaf, leaf)                 one operator over leaves; OP concrete (-DOP=<ppif_op number>)
     2  OP (.., OP1 (leaf, leaf, leaf), ..)   depth 2: operand number H_POS of the outer operator OP is an inner
                                              operator node, all other operands are leaves; OP1 ranges over
                                              [H_OP1_LO, H_OP1_HI) (default: all 23 operators)
   Symbolic: the kind of every leaf (the first H_NK entries of h_kinds), the 64-bit value of every leaf, the inner
   operator.  Kinds and inner operator are finite: the harness enumerates their combinations around the call of
   `eval` (each combination is one guarded call on a tree whose node codes are constants, so that symbolic execution
   resolves the `switch` of eval instead of exploring all 23 cases at every level); the 64-bit values are left to the
   solver.  Nodes are real `struct node`s in static storage linked with the real NL_APPEND; no allocator, no
   c2mir_init: the context is a zeroed `struct c2m_ctx` with `options` (message_file) and `node_positions` only - all
   that `eval`, `error` and `POS` touch.
   Oracle: ref/ppif_ref.h (C11 6.10.1p4 + 6.6 + 6.5.x).  `error ()` is observable through c2m_ctx->n_errors.
   -DH_C0=<v>      leaf slot 0 (first operand of the outer operator) is the constant v of kind N_LL
   -DH_C3=<v>      leaf slot 3 (first operand of the inner operator) is the constant v of kind N_LL
                   used for the condition of ?: - `NL_EL (ops, cond ? 1 : 2)` then selects the arm by a constant index
                   (with a symbolic condition the arm is a symbolic pointer and symbolic execution explores every case
                   of eval for it and for its operands: 25 M clauses for one ?: over leaves)
   -DH_UNEVAL      the inner operator is in the arm of ?: that the constant condition does not select
   -DH_DIV0=1      (shape 1, OP = / or %) the divisor is zero: a diagnostic must be reported
   -DH_EXCLUDE_F6  assume away exactly the operand-type combinations of finding F6 (see props/C09.py) */
#include "h.h"
#include <stdarg.h>
#if H_CBMC
/* message output of error (): no-ops; that an error was reported stays observable in n_errors */
int vfprintf (FILE *f, const char *fmt, va_list ap) { (void) f; (void) fmt; (void) ap; return 0; }
int fprintf (FILE *f, const char *fmt, ...) { (void) f; (void) fmt; return 0; }
#endif
#include "c2mir/c2mir.c"
#include "ppif_ref.h"

#ifndef H_SHAPE
#define H_SHAPE 1
#endif
#ifndef H_POS
#define H_POS 0
#endif
#ifndef OP
#define OP 0
#endif
#ifndef H_NK
#define H_NK 3 /* leaf kinds in use: the first H_NK of h_kinds */
#endif
#ifndef H_OP1_LO
#define H_OP1_LO 0
#endif
#ifndef H_OP1_HI
#define H_OP1_HI 23 /* PPIF_NOPS */
#endif

#define H_NN 8
static struct c2mir_options h_opts;
static struct c2m_ctx h_ctx;
static pos_t h_pos[H_NN];
static VARR (pos_t) h_positions;
static struct node h_nodes[H_NN];
static int h_nn;
static int h_f6; /* some node of the tree has an operand-type combination of finding F6 */

static const node_code_t h_kinds[9] = {N_LL, N_ULL, N_CH, N_I, N_U, N_L, N_UL, N_CH16, N_CH32};
static uint64_t h_bits[6]; /* leaf values: slots 0-2 operands of the outer operator, 3-5 of the inner one */
static unsigned h_sel[6];  /* leaf kinds (index into h_kinds) */

static const node_code_t h_code[PPIF_NOPS] = {
  [PPIF_BITNOT] = N_BITWISE_NOT, [PPIF_NOT] = N_NOT, [PPIF_PLUS] = N_ADD, [PPIF_NEG] = N_SUB,
  [PPIF_EQ] = N_EQ, [PPIF_NE] = N_NE, [PPIF_LT] = N_LT, [PPIF_LE] = N_LE, [PPIF_GT] = N_GT, [PPIF_GE] = N_GE,
  [PPIF_ADD] = N_ADD, [PPIF_SUB] = N_SUB, [PPIF_MUL] = N_MUL, [PPIF_DIV] = N_DIV, [PPIF_MOD] = N_MOD,
  [PPIF_AND] = N_AND, [PPIF_OR] = N_OR, [PPIF_XOR] = N_XOR, [PPIF_LSH] = N_LSH, [PPIF_RSH] = N_RSH,
  [PPIF_ANDAND] = N_ANDAND, [PPIF_OROR] = N_OROR, [PPIF_COND] = N_COND};

static node_t h_new (node_code_t code) {
  node_t n = &h_nodes[h_nn];
  n->code = code;
  n->uid = (unsigned) h_nn++;
  n->attr = NULL;
  n->op_link.prev = n->op_link.next = NULL;
  n->u.s = (str_t){NULL, 0}; /* zero the value union (= u.ops.head/tail) with one full-width write */
  return n;
}

/* a constant: the node kinds a pp-number or a character constant can become; kind is a constant here */
static node_t h_leaf (int slot, unsigned kind, ppif_val *v) {
  uint64_t bits = h_bits[slot];
  node_t n = h_new (h_kinds[kind]);
  switch (h_kinds[kind]) {
  case N_I:
  case N_L: n->u.l = (mir_long) bits; *v = ppif_leaf (0, bits); break;
  case N_LL: n->u.ll = (mir_llong) bits; *v = ppif_leaf (0, bits); break;
  case N_U:
  case N_UL: n->u.ul = bits; *v = ppif_leaf (1, bits); break;
  case N_ULL: n->u.ull = bits; *v = ppif_leaf (1, bits); break;
  case N_CH: /* plain char is signed on x86-64: 'c' has the value of a char, type int -> intmax_t */
    n->u.ch = (mir_char) bits;
    *v = ppif_leaf (0, (uint64_t) (int64_t) (int8_t) bits);
    break;
  default: /* u'c' U'c': char16_t / char32_t are unsigned types -> uintmax_t */
    n->u.ul = bits;
    *v = ppif_leaf (1, bits);
    break;
  }
  return n;
}

static void h_note_f6 (ppif_op op, ppif_val a, ppif_val b, ppif_val c) {
  if (op >= PPIF_EQ && op <= PPIF_GE && (a.uns || b.uns)) h_f6 = 1;
  if (op == PPIF_NOT && a.uns) h_f6 = 1;
  if ((op == PPIF_LSH || op == PPIF_RSH) && a.uns != b.uns) h_f6 = 1;
  if (op == PPIF_COND && b.uns != c.uns) h_f6 = 1;
}

/* operator node over the given operand nodes; *v = the reference value */
static node_t h_op (ppif_op op, node_t k[3], ppif_val kv[3], ppif_val *v) {
  node_t n = h_new (h_code[op]);
  int ar = ppif_arity (op);
#if H_CBMC
  /* The operand list is written field by field, head/tail through the union member by which CBMC represents `u`
     (its first widest member, the str_t): CBMC's simplifier does not propagate a pointer stored through the `ops`
     member of the union, and NL_APPEND then writes `tail->next` through a pointer symex no longer knows; every
     operand would be "some node" and symbolic execution would explore all 23 cases of eval at every level.  The
     state is the one NL_APPEND builds (natively NL_APPEND is used); it is read back through the real accessors. */
  for (int i = 0; i < 3; i++)
    if (i < ar) {
      k[i]->op_link.prev = i > 0 ? k[i - 1] : NULL;
      k[i]->op_link.next = i + 1 < ar ? k[i + 1] : NULL;
    }
  n->u.s = (str_t){(const char *) k[0], (size_t) k[ar - 1]}; /* one full-width write of the union */
  H_ASSERT (NL_HEAD (n->u.ops) == k[0] && NL_TAIL (n->u.ops) == k[ar - 1] && NL_EL (n->u.ops, ar) == NULL
              && NL_EL (n->u.ops, ar - 1) == k[ar - 1] && NL_EL (n->u.ops, 1) == (ar > 1 ? k[1] : NULL),
            "harness: hand-written operand list reads back through the real DLIST accessors");
#else
  for (int i = 0; i < 3; i++)
    if (i < ar) NL_APPEND (n->u.ops, k[i]);
#endif
  h_note_f6 (op, kv[0], kv[1], kv[2]);
  *v = ppif_apply (op, kv[0], kv[1], kv[2]);
  return n;
}

/* one tree with constant node codes and symbolic leaf values: build, run the real eval, compare */
static void h_case (ppif_op op, ppif_op op1, const unsigned c[6]) {
  c2m_ctx_t c2m_ctx = &h_ctx;
  node_t k[3], root;
  ppif_val kv[3], exp;
  struct val res;

  h_nn = 0;
  h_f6 = 0;
  n_errors = 0;
#if H_SHAPE == 0
  (void) op; (void) op1; (void) k; (void) kv;
  root = h_leaf (0, c[0], &exp);
#elif H_SHAPE == 1
  (void) op1;
  for (int i = 0; i < 3; i++) k[i] = h_leaf (i, c[i], &kv[i]);
#if defined(H_DIV0)
  H_ASSUME (kv[1].bits == 0);
#elif OP == 13 || OP == 14 /* PPIF_DIV, PPIF_MOD: the zero divisor has its own obligation */
  H_ASSUME (kv[1].bits != 0);
#endif
  root = h_op (op, k, kv, &exp);
#else
  {
    node_t ik[3];
    ppif_val ikv[3];
    for (int i = 0; i < 3; i++) ik[i] = h_leaf (3 + i, c[3 + i], &ikv[i]);
    for (int i = 0; i < 3; i++)
      if (i == H_POS)
        k[i] = h_op (op1, ik, ikv, &kv[i]);
      else
        k[i] = h_leaf (i, c[i], &kv[i]);
    root = h_op (op, k, kv, &exp);
  }
#endif
#ifdef H_EXCLUDE_F6
  H_ASSUME (!h_f6);
#endif

  res = eval (c2m_ctx, root);

  /* undefined behaviour in an evaluated position: C requires nothing (MIR wraps) - not claimed */
  H_ASSUME (!exp.undef);
  if (exp.diag) {
    H_ASSERT (n_errors != 0, "division/remainder by zero in an evaluated position is diagnosed");
#if defined(H_DIV0) || (H_SHAPE == 2 && !defined(H_UNEVAL) && (OP == 13 || OP == 14 || (H_OP1_LO <= 14 && H_OP1_HI > 13)))
    H_WITNESS ("zero divisor evaluated");
#endif
  } else {
    H_ASSERT (n_errors == 0, "no error for an expression whose evaluated part is valid");
    H_ASSERT ((res.uns_p != 0) == exp.uns, "result type: intmax_t vs uintmax_t as C11 requires");
    H_ASSERT (res.u.u_val == exp.bits, "result value");
#if !defined(H_DIV0)
    H_WITNESS ("result compared");
#endif
  }
}

void harness (void) {
  c2m_ctx_t c2m_ctx = &h_ctx;
  ppif_op op = (ppif_op) (OP);
  unsigned used[6], c[6];

  c2m_options = &h_opts;
#if H_CBMC
  h_opts.message_file = (FILE *) &h_opts; /* any non-null stream: error () counts only when a stream is set */
#else
  h_opts.message_file = stderr;
#endif
  for (int i = 0; i < H_NN; i++) h_pos[i] = no_pos;
  h_positions.els_num = h_positions.size = H_NN;
  h_positions.varr = h_pos;
  node_positions = &h_positions;

  for (int i = 0; i < 6; i++) {
    h_sel[i] = (unsigned) nd_below (H_NK);
    h_bits[i] = nd ();
  }
#if H_SHAPE == 2
  ppif_op sel1 = (ppif_op) nd ();
  H_ASSUME (sel1 >= H_OP1_LO && sel1 < H_OP1_HI);
  H_ASSUME (H_POS < ppif_arity (op));
  for (int o1 = H_OP1_LO; o1 < H_OP1_HI; o1++) {
    if (sel1 == (ppif_op) o1) {
      ppif_op op1 = (ppif_op) o1;
      for (int i = 0; i < 3; i++) {
        used[i] = i < ppif_arity (op) && i != H_POS;
        used[3 + i] = i < ppif_arity (op1);
      }
#else
  {
    {
      ppif_op op1 = op;
      for (int i = 0; i < 3; i++) {
        used[i] = H_SHAPE == 0 ? i == 0 : i < ppif_arity (op);
        used[3 + i] = 0;
      }
#endif
#ifdef H_C0
      used[0] = 0; /* kind N_LL */
      h_bits[0] = (uint64_t) (H_C0);
#endif
#ifdef H_C3
      used[3] = 0;
      h_bits[3] = (uint64_t) (H_C3);
#endif
      /* all combinations of leaf kinds of the leaves in use; unused leaves stay of kind 0 */
      for (c[0] = 0; c[0] < (used[0] ? H_NK : 1); c[0]++)
        for (c[1] = 0; c[1] < (used[1] ? H_NK : 1); c[1]++)
          for (c[2] = 0; c[2] < (used[2] ? H_NK : 1); c[2]++)
            for (c[3] = 0; c[3] < (used[3] ? H_NK : 1); c[3]++)
              for (c[4] = 0; c[4] < (used[4] ? H_NK : 1); c[4]++)
                for (c[5] = 0; c[5] < (used[5] ? H_NK : 1); c[5]++) {
                  int m = 1;
                  for (int i = 0; i < 6; i++) m &= !used[i] || h_sel[i] == c[i];
                  if (m) h_case (op, op1, c);
                }
    }
  }
  H_WITNESS ("end");
}
