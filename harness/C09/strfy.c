/* C09 / '#' stringification and _Pragma destringization: the real pure functions `stringify` and `destringify`
   (c2mir/c2mir.c) on ALL byte strings up to H_LEN characters.
     H_MODE 1  stringify (s) == '"' + s with a backslash before every '"' and '\' + '"'        (C11 6.10.3.2p2, the
               rule for the spelling of string literals and character constants, applied to every character as
               the function's contract says: it receives the already collected spelling)
     H_MODE 2  destringify (q) for a quoted string q == C11 6.10.9p1: delete the leading and trailing double-quotes,
               replace each escape sequence \" by a double-quote and each escape sequence \\ by a single backslash
     H_MODE 3  round trip: destringify (stringify (s)) == s
   The VARR (char) is a static object with enough capacity, so VARR_PUSH never reallocates (no allocator). */
#include "h.h"
#include "c2mir/c2mir.c"

#ifndef H_LEN
#define H_LEN 3
#endif
#ifndef H_MODE
#define H_MODE 3
#endif
#define H_CAP (2 * H_LEN + 8)

static char h_buf1[H_CAP], h_buf2[H_CAP];
static VARR (char) h_v1 = {0, H_CAP, h_buf1, NULL}, h_v2 = {0, H_CAP, h_buf2, NULL};

/* reference for 6.10.9p1 on the body between the quotes */
static size_t h_destr_ref (const char *q, size_t n, char *out) {
  size_t i = 0, o = 0;
  if (n > 0 && q[0] == '"') i = 1;
  if (n > i && q[n - 1] == '"') n--;
  while (i < n)
    if (q[i] == '\\' && i + 1 < n && (q[i + 1] == '"' || q[i + 1] == '\\')) {
      out[o++] = q[i + 1];
      i += 2;
    } else {
      out[o++] = q[i++];
    }
  return o;
}

void harness (void) {
  char s[H_LEN + 3], ref[H_CAP];
  size_t len = nd_below (H_LEN + 1), n = 0;

  for (size_t i = 0; i < H_LEN; i++) {
    char ch = (char) nd ();
    if (i < len) {
      H_ASSUME (ch != 0);
      s[i] = ch;
    }
  }
  s[len] = 0;
#if H_MODE == 1 || H_MODE == 3
  const char *r = stringify (s, &h_v1);
  n = VARR_LENGTH (char, &h_v1);
#if H_MODE == 1
  {
    size_t o = 0;
    ref[o++] = '"';
    for (size_t i = 0; i < H_LEN; i++)
      if (i < len) {
        if (s[i] == '"' || s[i] == '\\') ref[o++] = '\\';
        ref[o++] = s[i];
      }
    ref[o++] = '"';
    H_ASSERT (n == o, "stringify: length");
    for (size_t i = 0; i < H_CAP; i++)
      if (i < o) H_ASSERT (r[i] == ref[i], "stringify: quotes added, backslash before each \" and \\");
  }
#else
  VARR_PUSH (char, &h_v1, '\0'); /* as the callers do before they use the spelling as a C string */
  destringify (VARR_ADDR (char, &h_v1), &h_v2);
  H_ASSERT (VARR_LENGTH (char, &h_v2) == len, "round trip destringify (stringify (s)): length");
  for (size_t i = 0; i < H_LEN; i++)
    if (i < len && i < VARR_LENGTH (char, &h_v2))
      H_ASSERT (VARR_ADDR (char, &h_v2)[i] == s[i], "round trip destringify (stringify (s)): characters");
  (void) r;
#endif
#else /* H_MODE 2: arbitrary body between quotes */
  {
    char q[H_LEN + 3];
    size_t o;
    q[0] = '"';
    for (size_t i = 0; i < H_LEN; i++)
      if (i < len) q[1 + i] = s[i];
    q[1 + len] = '"';
    q[2 + len] = 0;
    /* a string literal token: no unescaped quote inside, no lone backslash before the closing quote */
    {
      int esc = 0, ok = 1;
      for (size_t i = 0; i < H_LEN; i++)
        if (i < len) {
          if (esc) esc = 0;
          else if (s[i] == '\\') esc = 1;
          else if (s[i] == '"') ok = 0;
        }
      H_ASSUME (ok && !esc);
    }
    destringify (q, &h_v2);
    o = h_destr_ref (q, len + 2, ref);
    H_ASSERT (VARR_LENGTH (char, &h_v2) == o, "destringify: length as C11 6.10.9p1");
    for (size_t i = 0; i < H_LEN; i++)
      if (i < o && i < VARR_LENGTH (char, &h_v2))
        H_ASSERT (VARR_ADDR (char, &h_v2)[i] == ref[i], "destringify: characters as C11 6.10.9p1");
    (void) n;
  }
#endif
  H_WITNESS ("end");
}
