/* C15 - register declaration errors: "an undeclared or redeclared register ... always results in a call to the
   context's error function with a specific error code".
   Real code: MIR_new_func_reg / new_func_reg / create_func_reg / _MIR_reserved_name_p / get_ctx_str / string_store,
   find_rd_by_reg, find_rd_by_name, MIR_reg / get_func_rd_by_name, on the state constructed directly (see insn.c).
   -DOP=1  declare a register named H_NAME (concrete per obligation) with an arbitrary MIR_type_t
   -DOP=2  look up an arbitrary 32-bit register number
   -DOP=3  look up the name H_NAME */
#define H_NO_LEDGER
#define H_ERROR_PATH_WITNESS /* every obligation of this file has a reachable error path */
#include "h.h"
#include "mini_mir_pre.h"
#if H_CBMC
/* only used by mir.c to format the text of error messages (type_str), which is outside the claim */
int sprintf (char *s, const char *fmt, ...) { (void) fmt; s[0] = 0; return 0; }
#endif
#include "mir.c"
#include "mini_mir.h"

#ifndef OP
#define OP 1
#endif
#ifndef H_NAME
#define H_NAME 0
#endif

/* candidate names.  Classes written from the documentation: MIR.md "MIR function" ("a variable should have an unique
   name in the function"; "names in form t<number> can not be used as they are fixed for internal purposes") and the
   comment above _MIR_reserved_name_p in mir.c ("hr<number> - a hardware reg, lc<number> - a temp item"). */
enum { HN_DECLARED, HN_FRESH, HN_RESERVED, HN_TEMP_FORM };
static const struct { const char *name; int cls; MIR_type_t type; } h_names[] = {
  {"a", HN_DECLARED, MIR_T_I64}, {"b", HN_DECLARED, MIR_T_I64}, {"f", HN_DECLARED, MIR_T_F},
  {"d", HN_DECLARED, MIR_T_D},   {"l", HN_DECLARED, MIR_T_LD},  {"x", HN_FRESH, 0},
  {"y1", HN_FRESH, 0},           {"hrx", HN_FRESH, 0},          {"hr0", HN_RESERVED, 0},
  {"hr15", HN_RESERVED, 0},      {".lc3", HN_RESERVED, 0},
  /* DOC-AMBIGUITY: MIR.md forbids t<number>; the implementation accepts it (new_temp_reg simply skips names in
     use); the expectation below follows the implementation and the evidence lists the discrepancy. */
  {"t1", HN_TEMP_FORM, 0},
};
#define H_NNAMES (sizeof (h_names) / sizeof (h_names[0]))

static MIR_context_t h_ctx;
static MIR_func_t h_func;

#if H_CBMC
static struct MIR_context h_ctx_obj;
static struct MIR_module h_module = {NULL, "m", {NULL, NULL}, {NULL, NULL}, 0};
static MIR_var_t h_vars_data[16]
  = {{MIR_T_I64, "a", 0}, {MIR_T_I64, "b", 0}, {MIR_T_F, "f", 0}, {MIR_T_D, "d", 0}, {MIR_T_LD, "l", 0}};
static VARR (MIR_var_t) h_vars_varr = {5, 16, h_vars_data, &h_alloc};
static reg_desc_t h_rd_data[16] = {{MIR_T_I64, 0, NULL, NULL}, {MIR_T_I64, 1, "a", NULL}, {MIR_T_I64, 2, "b", NULL},
                                   {MIR_T_F, 3, "f", NULL},    {MIR_T_D, 4, "d", NULL},   {MIR_T_LD, 5, "l", NULL}};
static VARR (reg_desc_t) h_rd_varr = {6, 16, h_rd_data, &h_alloc};
static struct func_regs h_func_regs;
static HTAB (size_t) h_name2rdn = {5, 5, 0, &h_func_regs, name2rdn_eq, NULL, &h_alloc, {1, 1, 1, 1, 1}, {1, 2, 3, 4, 5}};
static HTAB (size_t) h_hrn2rdn = {0, 0, 0, &h_func_regs, hrn2rdn_eq, NULL, &h_alloc, {0}, {0}};
static HTAB (size_t) h_reg2rdn = {5, 5, 0, &h_func_regs, reg2rdn_eq, NULL, &h_alloc, {1, 1, 1, 1, 1}, {1, 2, 3, 4, 5}};
static struct func_regs h_func_regs = {&h_rd_varr, &h_name2rdn, &h_hrn2rdn, &h_reg2rdn};
static struct MIR_item h_func_item_obj;
static MIR_type_t h_res_types[1] = {MIR_T_I64};
static struct MIR_func h_func_obj = {.name = "fn", .func_item = &h_func_item_obj, .nres = 0, .nargs = 1,
                                     .res_types = h_res_types, .vars = &h_vars_varr, .internal = &h_func_regs};
static struct MIR_item h_func_item_obj = {.module = &h_module, .item_type = MIR_func_item, .u = {.func = &h_func_obj}};
/* context string table with every candidate name already interned (len includes the terminating 0, as get_ctx_str) */
#define H_S(n, s) {n, {sizeof (s), s}}
static string_t h_str_data[16] = {{0, {0, NULL}}, H_S (1, "a"), H_S (2, "b"), H_S (3, "f"), H_S (4, "d"), H_S (5, "l"), H_S (6, "x"),
                                  H_S (7, "y1"), H_S (8, "hrx"), H_S (9, "hr0"), H_S (10, "hr15"), H_S (11, ".lc3"), H_S (12, "t1")};
static VARR (string_t) h_str_varr = {13, 16, h_str_data, &h_alloc};
static HTAB (string_t) h_str_tab = {12, 12, 0, NULL, str_eq, NULL, &h_alloc, {1, 1, 1, 1, 1, 1, 1, 1, 1, 1, 1, 1},
                                    {H_S (1, "a"), H_S (2, "b"), H_S (3, "f"), H_S (4, "d"), H_S (5, "l"), H_S (6, "x"), H_S (7, "y1"),
                                     H_S (8, "hrx"), H_S (9, "hr0"), H_S (10, "hr15"), H_S (11, ".lc3"), H_S (12, "t1")}};
static struct string_ctx h_string_ctx = {&h_str_varr, &h_str_tab};
#endif

static void h_state (void) {
#if H_CBMC
  MIR_context_t ctx = h_ctx = &h_ctx_obj;
  ctx->alloc = &h_alloc;
  error_func = h_mini_error;
  ctx->string_ctx = &h_string_ctx;
  curr_module = &h_module;
  curr_func = &h_func_obj;
  h_func = &h_func_obj;
#else
  MIR_context_t ctx = h_ctx = MIR_init ();
  MIR_var_t arg = {MIR_T_I64, "a", 0};
  MIR_item_t fi;
  MIR_set_error_func (ctx, h_mini_error);
  MIR_new_module (ctx, "m");
  fi = MIR_new_func_arr (ctx, "fn", 0, NULL, 1, &arg);
  h_func = fi->u.func;
  H_ASSERT (MIR_new_func_reg (ctx, h_func, MIR_T_I64, "b") == 2, "replay state: reg b");
  H_ASSERT (MIR_new_func_reg (ctx, h_func, MIR_T_F, "f") == 3, "replay state: reg f");
  H_ASSERT (MIR_new_func_reg (ctx, h_func, MIR_T_D, "d") == 4, "replay state: reg d");
  H_ASSERT (MIR_new_func_reg (ctx, h_func, MIR_T_LD, "l") == 5, "replay state: reg l");
#endif
}

void harness (void) {
  MIR_context_t ctx;
  h_state ();
  ctx = h_ctx;
  H_WITNESS ("start");
#if OP == 1
  {
    MIR_type_t t = (MIR_type_t) nd_below (MIR_T_BOUND);
    const char *name = h_names[H_NAME].name;
    int cls = h_names[H_NAME].cls;
    int type_ok = t == MIR_T_I64 || t == MIR_T_F || t == MIR_T_D || t == MIR_T_LD; /* "the only permitted integer type for the variable is MIR_T_I64" */
    MIR_reg_t r;
    reg_desc_t *rd;
    h_err_expected = !type_ok || cls == HN_RESERVED || cls == HN_DECLARED;
    h_err_code_expected = !type_ok ? MIR_reg_type_error : cls == HN_RESERVED ? MIR_reserved_name_error : MIR_repeated_decl_error;
    r = MIR_new_func_reg (ctx, h_func, t, name);
    H_EXPECT_NO_ERROR_HERE ();
    H_ASSERT (r == 6, "a new register gets the next register number");
    H_ASSERT (VARR_LENGTH (MIR_var_t, h_func->vars) == 6 && VARR_LAST (MIR_var_t, h_func->vars).type == t
                && strcmp (VARR_LAST (MIR_var_t, h_func->vars).name, name) == 0,
              "the new register is recorded as a function variable");
    h_err_expected = 0; h_err_code_expected = -1;
    rd = find_rd_by_reg (ctx, r, h_func);
    H_ASSERT (rd != NULL && rd->reg == r && rd->type == t && strcmp (rd->name, name) == 0, "the new register is found by number");
    H_ASSERT (MIR_reg (ctx, name, h_func) == r, "the new register is found by name");
    H_ASSERT (MIR_reg_type (ctx, r, h_func) == t, "the new register has the declared type");
    /* the old registers are untouched */
    H_ASSERT (MIR_reg (ctx, "a", h_func) == 1 && MIR_reg (ctx, "l", h_func) == 5 && MIR_reg_type (ctx, 3, h_func) == MIR_T_F,
              "existing registers are still found");
#ifdef H_W_ACCEPT
    H_WITNESS ("declared");
#endif
    /* declaring it a second time is a redeclaration */
    h_err_expected = 1; h_err_code_expected = MIR_repeated_decl_error;
    MIR_new_func_reg (ctx, h_func, t, name);
    H_EXPECT_NO_ERROR_HERE ();
  }
#elif OP == 2
  {
    MIR_reg_t reg = (MIR_reg_t) nd ();
    reg_desc_t *rd;
    h_err_expected = !(reg >= 1 && reg <= 5);
    h_err_code_expected = MIR_undeclared_func_reg_error;
    rd = find_rd_by_reg (ctx, reg, h_func);
    H_EXPECT_NO_ERROR_HERE ();
    H_ASSERT (rd != NULL && rd->reg == reg, "a declared register number yields its descriptor");
    H_ASSERT (rd->type == (reg <= 2 ? MIR_T_I64 : reg == 3 ? MIR_T_F : reg == 4 ? MIR_T_D : MIR_T_LD), "with the declared type");
    H_ASSERT (VARR_LENGTH (reg_desc_t, ((func_regs_t) h_func->internal)->reg_descs) == 6, "the lookup leaves the descriptor array as it was");
    H_WITNESS ("found");
  }
#else
  {
    const char *name = h_names[H_NAME].name;
    int cls = h_names[H_NAME].cls;
    MIR_reg_t r;
    h_err_expected = cls != HN_DECLARED;
    h_err_code_expected = MIR_undeclared_func_reg_error;
    r = MIR_reg (ctx, name, h_func);
    H_EXPECT_NO_ERROR_HERE ();
    H_ASSERT (r == (MIR_reg_t) (H_NAME + 1), "a declared name yields its register number");
    H_ASSERT (MIR_reg_type (ctx, r, h_func) == h_names[H_NAME].type, "with the declared type");
#ifdef H_W_ACCEPT
    H_WITNESS ("found");
#endif
    h_err_expected = 1; /* and a name nobody declared is an error */
    MIR_reg (ctx, "nosuch", h_func);
    H_EXPECT_NO_ERROR_HERE ();
  }
#endif
}
