/* C15 - ill-formed IR is rejected with a specific error code, well-formed IR is accepted.
   One obligation per opcode (-DH_OPCODE=MIR_xxx).  Symbolic: the number of operands and, for every
   position, the operand KIND (register of each type / undeclared, each immediate kind, memory of an
   arbitrary type with arbitrary address registers, label, item reference, string).
   Real code: MIR_new_insn_arr, MIR_append_insn, MIR_finish_func (MIR_insn_op_mode, find_rd_by_reg, type2mode,
   wrong_type_p, ...).  Oracle: ref/mir_modes_ref.h (written from MIR.md / mir.h comments).

   CBMC mode: the library state (context, module, function, registers with their three tables, prototype,
   import, label) is CONSTRUCTED DIRECTLY as static data - not through MIR_init / MIR_new_func (HARNESS-GUIDE
   rule 1).  REPLAY mode: the same state is built with the real API (same register numbers).

   -D parameters: H_OPCODE, H_FRES (function result types variant), H_PROTO (prototype variant),
   H_VARARG_ND (function vararg flag symbolic), H_PREV_GROUP (how many insns precede an overflow branch; which ones is symbolic),
   H_KINDSET (0 reduced, 1 full), H_NMIN/H_NMAX (range of operand counts), H_W_ACCEPT/H_W_REJECT (which
   reachability witnesses exist for this opcode). */
#define H_NO_LEDGER
#include "h.h"
#if H_CBMC
/* Allocation (pre-empts mir-alloc.h like h_alloc_native.h does): every block the code under test allocates here is
   an instruction, `malloc (sizeof (struct MIR_insn) + sizeof (MIR_op_t) * (nops - 1))`.  CBMC gives such a block no
   struct type (the operand modes read back from it would no longer be constants), so the block is allocated as a
   TYPED instruction with room for H_MAXN operands.  Exact sizes are exercised by the native replay (ASan). */
#define MIR_ALLOC_H
#define H_ALLOC_NATIVE 1
#include <assert.h>
typedef struct MIR_alloc {
  void *(*malloc) (size_t, void *);
  void *(*calloc) (size_t, size_t, void *);
  void *(*realloc) (void *, size_t, size_t, void *);
  void (*free) (void *, void *);
  void *user_data;
} *MIR_alloc_t;
static void *h15_malloc (size_t n);
#define MIR_malloc(alloc, size) ((void) (alloc), h15_malloc (size))
#define MIR_calloc(alloc, num, size) ((void) (alloc), calloc (num, size))
#define MIR_realloc(alloc, ptr, old_size, new_size) ((void) (alloc), (void) (old_size), realloc (ptr, new_size))
#define MIR_free(alloc, ptr) ((void) (alloc), free (ptr))
#endif
#include "mini_mir_pre.h"
#include "mir.c"
#include "mini_mir.h"
#include "mir_modes_ref.h"

#ifndef H_OPCODE
#define H_OPCODE MIR_ADD
#endif
#ifndef H_FRES
#define H_FRES 0
#endif
#ifndef H_PROTO
#define H_PROTO 0
#endif
#ifndef H_KINDSET
#define H_KINDSET 1
#endif
#ifndef H_NMIN
#define H_NMIN 0
#endif
#ifndef H_NMAX
#define H_NMAX 6
#endif
#define H_MAXN 6
#if H_CBMC
#define H_INSN_BYTES (sizeof (struct MIR_insn) + (H_MAXN - 1) * sizeof (MIR_op_t))
static void *h15_malloc (size_t n) {
  H_ASSUME (n <= H_INSN_BYTES);
  return malloc (sizeof (uint64_t) * (H_INSN_BYTES / 8)); /* typed 8-byte cells (h.h slot allocator convention) */
}
#endif

/* ---- function result types / prototype variants (concrete per obligation) ---- */
#if H_FRES == 0
#define H_FRES_N 0
#define H_FRES_INIT {MIR_T_I64}
#elif H_FRES == 1
#define H_FRES_N 1
#define H_FRES_INIT {MIR_T_I64}
#elif H_FRES == 2
#define H_FRES_N 2
#define H_FRES_INIT {MIR_T_F, MIR_T_D}
#else
#define H_FRES_N 2
#define H_FRES_INIT {MIR_T_U8, MIR_T_LD}
#endif
static MIR_type_t h15_res_types[REF_MAX_RES] = H_FRES_INIT;

#if H_PROTO == 0 /* p: i64 (i64 x, d y, blk:8 z) */
#define H_PR_NRES 1
#define H_PR_RES {MIR_T_I64}
#define H_PR_NARGS 3
#define H_PR_ARGS {{MIR_T_I64, "x", 0}, {MIR_T_D, "y", 0}, {MIR_T_BLK, "z", 8}}
#define H_PR_VARARG 0
#elif H_PROTO == 1 /* p: (i64 x, ...) */
#define H_PR_NRES 0
#define H_PR_RES {MIR_T_I64}
#define H_PR_NARGS 1
#define H_PR_ARGS {{MIR_T_I64, "x", 0}}
#define H_PR_VARARG 1
#elif H_PROTO == 2 /* p: f, ld () */
#define H_PR_NRES 2
#define H_PR_RES {MIR_T_F, MIR_T_LD}
#define H_PR_NARGS 0
#define H_PR_ARGS {{MIR_T_I64, "x", 0}}
#define H_PR_VARARG 0
#else /* p: (rblk:8 r, i32 i) */
#define H_PR_NRES 0
#define H_PR_RES {MIR_T_I64}
#define H_PR_NARGS 2
#define H_PR_ARGS {{MIR_T_RBLK, "r", 8}, {MIR_T_I32, "i", 0}}
#define H_PR_VARARG 0
#endif
static MIR_type_t h15_pr_res[REF_MAX_RES] = H_PR_RES;
static MIR_var_t h15_pr_args[REF_MAX_ARGS] = H_PR_ARGS;

/* register numbers: identical in both modes */
enum { H_REG_A = 1, H_REG_B = 2, H_REG_F = 3, H_REG_D = 4, H_REG_L = 5, H_REG_UNDECL = 9 };

/* ---- error callback: the oracle's verdict is a set of violated rules ---- */
static unsigned h15_expect; /* RE_* bits; 0 = the instruction must be accepted */
static unsigned h15_class_of (enum MIR_error_type t) {
  switch (t) {
  case MIR_ops_num_error: return RE_ARITY;
  case MIR_op_mode_error: return RE_MODE;
  case MIR_out_op_error: return RE_OUT;
  case MIR_reg_type_error: return RE_REGTYPE;
  case MIR_wrong_type_error: return RE_MEMTYPE;
  case MIR_call_op_error: return RE_CALL;
  case MIR_invalid_insn_error: return RE_ADJ;
  case MIR_undeclared_func_reg_error: return RE_UNDECL;
  default: return 0;
  }
}
static void MIR_NO_RETURN h15_error (enum MIR_error_type t, const char *fmt, ...) {
  (void) fmt;
  H_ASSERT (h15_expect != 0, "error callback invoked although the documentation allows the instruction");
  H_ASSERT ((h15_expect & RE_OTHER) != 0 || (h15_class_of (t) & h15_expect) != 0,
            "error callback invoked with the error code of a violated rule");
#ifdef H_W_REJECT
  H_WITNESS ("reject path");
#endif
#if H_CBMC
  __CPROVER_assume (0);
#endif
  exit (0); /* REPLAY: an expected error ends the run successfully */
}

/* ---- the state ---- */
static MIR_context_t h15_ctx;
static MIR_item_t h15_func_item, h15_proto_item, h15_import_item;
static MIR_insn_t h15_label;

#if H_CBMC
static struct MIR_context h15_ctx_obj;
static size_t h15_nops_data[MIR_INSN_BOUND + 1];
static VARR (size_t) h15_nops_varr = {0, MIR_INSN_BOUND + 1, h15_nops_data, &h_alloc};
static MIR_op_t h15_temp_ops_data[8];
static VARR (MIR_op_t) h15_temp_ops_varr = {0, 8, h15_temp_ops_data, &h_alloc};
static MIR_proto_t h15_unspec_data[2];
static VARR (MIR_proto_t) h15_unspec_varr = {0, 2, h15_unspec_data, &h_alloc};
static struct MIR_module h15_module = {NULL, "m", {NULL, NULL}, {NULL, NULL}, 0};
/* function fn (i64 a) with locals i64 b, f f, d d, ld l */
static MIR_var_t h15_vars_data[16]
  = {{MIR_T_I64, "a", 0}, {MIR_T_I64, "b", 0}, {MIR_T_F, "f", 0}, {MIR_T_D, "d", 0}, {MIR_T_LD, "l", 0}};
static VARR (MIR_var_t) h15_vars_varr = {5, 16, h15_vars_data, &h_alloc};
static reg_desc_t h15_rd_data[16] = {{MIR_T_I64, 0, NULL, NULL},      {MIR_T_I64, H_REG_A, "a", NULL},
                                     {MIR_T_I64, H_REG_B, "b", NULL}, {MIR_T_F, H_REG_F, "f", NULL},
                                     {MIR_T_D, H_REG_D, "d", NULL},   {MIR_T_LD, H_REG_L, "l", NULL}};
static VARR (reg_desc_t) h15_rd_varr = {6, 16, h15_rd_data, &h_alloc};
static struct func_regs h15_func_regs;
/* the three tables of create_func_reg hold indices into reg_descs (model table of h_htab_model.h) */
static HTAB (size_t) h15_name2rdn = {5, 5, 0, &h15_func_regs, name2rdn_eq, NULL, &h_alloc, {1, 1, 1, 1, 1}, {1, 2, 3, 4, 5}};
static HTAB (size_t) h15_hrn2rdn = {0, 0, 0, &h15_func_regs, hrn2rdn_eq, NULL, &h_alloc, {0}, {0}};
static HTAB (size_t) h15_reg2rdn = {5, 5, 0, &h15_func_regs, reg2rdn_eq, NULL, &h_alloc, {1, 1, 1, 1, 1}, {1, 2, 3, 4, 5}};
static struct func_regs h15_func_regs = {&h15_rd_varr, &h15_name2rdn, &h15_hrn2rdn, &h15_reg2rdn};
static struct MIR_insn h15_label_obj = {.code = MIR_LABEL, .nops = 0, .ops = {{.mode = MIR_OP_INT, .u = {.i = 1}}}};
/* Note (CBMC 6.11 pitfall measured on C11/C14): `item->u.proto->field` on a field-sensitive struct MIR_item can resolve to
   an invalid object, i.e. a NONDETERMINISTIC value.  That over-approximates: it can only produce spurious counterexamples
   (which the native replay would refuse), never hide one; none was observed.  The recommended workaround (an array of
   more than 64 items) made every obligation here run out of memory (12 GB), and even a 4-element array made them 20 times
   slower (pointers into one object differ by a symbolic offset), so the items are separate objects. */
static struct MIR_item h15_func_item_obj, h15_proto_item_obj, h15_import_item_obj;
static struct MIR_func h15_func = {.name = "fn",
                                   .func_item = &h15_func_item_obj,
                                   .insns = {&h15_label_obj, &h15_label_obj},
                                   .original_insns = {NULL, NULL},
                                   .nres = H_FRES_N,
                                   .nargs = 1,
                                   .res_types = h15_res_types,
                                   .vars = &h15_vars_varr,
                                   .internal = &h15_func_regs};
static VARR (MIR_var_t) h15_pr_args_varr = {H_PR_NARGS, REF_MAX_ARGS, h15_pr_args, &h_alloc};
static struct MIR_proto h15_proto
  = {.name = "p", .nres = H_PR_NRES, .res_types = h15_pr_res, .vararg_p = H_PR_VARARG, .args = &h15_pr_args_varr};
static struct MIR_item h15_func_item_obj = {.module = &h15_module, .item_type = MIR_func_item, .u = {.func = &h15_func}};
static struct MIR_item h15_proto_item_obj = {.module = &h15_module, .item_type = MIR_proto_item, .u = {.proto = &h15_proto}};
static struct MIR_item h15_import_item_obj = {.module = &h15_module, .item_type = MIR_import_item, .u = {.import_id = "imp"}};
#endif

static void h15_state (int vararg) {
#if H_CBMC
  MIR_context_t ctx = h15_ctx = &h15_ctx_obj;
  ctx->alloc = &h_alloc;
  error_func = h15_error;
  insn_nops = &h15_nops_varr;
  h15_nops_varr.els_num = MIR_INSN_BOUND;
  { /* as check_and_prepare_insn_descs, for the opcodes this obligation can look up (the insn under test, the
       implicit ret, the insns placed before an overflow branch) instead of all MIR_INSN_BOUND of them */
    static const MIR_insn_code_t h15_used[] = {H_OPCODE, MIR_RET, MIR_MOV, MIR_ADD, MIR_ADDO, MIR_SUBOS, MIR_MULO, MIR_MULOS, MIR_UMULO, MIR_UMULOS};
    for (size_t k = 0; k < sizeof (h15_used) / sizeof (h15_used[0]); k++) {
      size_t i = h15_used[k], j;
      for (j = 0; insn_descs[i].op_modes[j] != MIR_OP_BOUND; j++)
        ;
      h15_nops_data[i] = j;
    }
  }
  temp_ops = &h15_temp_ops_varr;
  unspec_protos = &h15_unspec_varr;
  curr_module = &h15_module;
  curr_func = &h15_func;
  curr_label_num = 1;
  h15_func.vararg_p = (char) vararg;
  h15_func_item = &h15_func_item_obj;
  h15_proto_item = &h15_proto_item_obj;
  h15_import_item = &h15_import_item_obj;
  h15_label = &h15_label_obj;
#else
  MIR_context_t ctx = h15_ctx = MIR_init ();
  MIR_var_t arg = {MIR_T_I64, "a", 0};
  MIR_reg_t r;
  MIR_set_error_func (ctx, h15_error);
  MIR_new_module (ctx, "m");
  h15_proto_item = (H_PR_VARARG ? MIR_new_vararg_proto_arr : MIR_new_proto_arr) (ctx, "p", H_PR_NRES, h15_pr_res, H_PR_NARGS, h15_pr_args);
  h15_import_item = MIR_new_import (ctx, "imp");
  h15_func_item = (vararg ? MIR_new_vararg_func_arr : MIR_new_func_arr) (ctx, "fn", H_FRES_N, h15_res_types, 1, &arg);
  r = MIR_reg (ctx, "a", h15_func_item->u.func); H_ASSERT (r == H_REG_A, "replay state: reg a");
  r = MIR_new_func_reg (ctx, h15_func_item->u.func, MIR_T_I64, "b"); H_ASSERT (r == H_REG_B, "replay state: reg b");
  r = MIR_new_func_reg (ctx, h15_func_item->u.func, MIR_T_F, "f"); H_ASSERT (r == H_REG_F, "replay state: reg f");
  r = MIR_new_func_reg (ctx, h15_func_item->u.func, MIR_T_D, "d"); H_ASSERT (r == H_REG_D, "replay state: reg d");
  r = MIR_new_func_reg (ctx, h15_func_item->u.func, MIR_T_LD, "l"); H_ASSERT (r == H_REG_L, "replay state: reg l");
  h15_label = MIR_new_label (ctx);
  MIR_append_insn (ctx, h15_func_item, h15_label);
#endif
}

/* ---- operand kinds ---- */
enum {
  HK_REG_I, HK_REG_F, HK_REG_D, HK_REG_LD, HK_REG_UNDECL, HK_INT, HK_UINT, HK_FLOAT, HK_DOUBLE, HK_LDOUBLE,
  HK_MEM, HK_LABEL, HK_REF_PROTO, HK_REF_IMPORT, HK_REF_FUNC, HK_STR, HK_BOUND
};
#if H_KINDSET == 0 /* reduced (quick tier) */
static const unsigned char h15_kinds[] = {HK_REG_I, HK_REG_F, HK_REG_D, HK_INT, HK_DOUBLE, HK_MEM, HK_LABEL, HK_REF_PROTO, HK_REF_IMPORT};
#else
static const unsigned char h15_kinds[] = {HK_REG_I, HK_REG_F, HK_REG_D, HK_REG_LD, HK_REG_UNDECL, HK_INT, HK_UINT, HK_FLOAT,
                                          HK_DOUBLE, HK_LDOUBLE, HK_MEM, HK_LABEL, HK_REF_PROTO, HK_REF_IMPORT, HK_REF_FUNC, HK_STR};
#endif
#define H_NKINDS (sizeof (h15_kinds) / sizeof (h15_kinds[0]))

static void h15_addr_reg (unsigned sel, MIR_reg_t int_reg, MIR_reg_t *reg, int *present, int *declared, int *int_p) {
  /* none / an integer register / a float register / an undeclared register number */
  *present = sel != 0; *declared = sel == 1 || sel == 2; *int_p = sel == 1;
  *reg = sel == 0 ? 0 : sel == 1 ? int_reg : sel == 2 ? H_REG_F : H_REG_UNDECL;
}

#ifdef H_FIXED_KINDS /* concrete smoke obligations: the kind of every position is given */
static const unsigned char h15_fixed_kinds[H_MAXN] = H_FIXED_KINDS;
#endif

static MIR_op_t h15_mk_op (MIR_context_t ctx, ref_op_t *d, size_t pos) {
#ifdef H_FIXED_KINDS
  unsigned k = h15_fixed_kinds[pos];
#else
  unsigned k = h15_kinds[nd_below (H_NKINDS)];
#endif
  MIR_op_t op;
  d->kind = RK_REG; d->declared = 1; d->reg_vt = RV_INT; d->mem_type = 0; d->disp = 0; d->item = RR_PROTO;
  d->base_present = d->base_declared = d->base_int = d->index_present = d->index_declared = d->index_int = 0;
  switch (k) {
  case HK_REG_I: op = MIR_new_reg_op (ctx, H_REG_A); break;
  case HK_REG_F: d->reg_vt = RV_F; op = MIR_new_reg_op (ctx, H_REG_F); break;
  case HK_REG_D: d->reg_vt = RV_D; op = MIR_new_reg_op (ctx, H_REG_D); break;
  case HK_REG_LD: d->reg_vt = RV_LD; op = MIR_new_reg_op (ctx, H_REG_L); break;
  case HK_REG_UNDECL: d->declared = 0; op = MIR_new_reg_op (ctx, H_REG_UNDECL); break;
  case HK_INT: d->kind = RK_IMM_INT; op = MIR_new_int_op (ctx, 5); break;
  case HK_UINT: d->kind = RK_IMM_UINT; op = MIR_new_uint_op (ctx, 5); break;
  case HK_FLOAT: d->kind = RK_IMM_F; op = MIR_new_float_op (ctx, 1.5f); break;
  case HK_DOUBLE: d->kind = RK_IMM_D; op = MIR_new_double_op (ctx, 1.5); break;
  case HK_LDOUBLE: d->kind = RK_IMM_LD; op = MIR_new_ldouble_op (ctx, 1.5L); break;
  case HK_MEM: {
    MIR_type_t t = (MIR_type_t) nd_below (MIR_T_BOUND); /* every MIR_type_t value incl. block types and undef */
    unsigned bs = (unsigned) nd_below (4), is = (unsigned) nd_below (4), ds = (unsigned) nd_below (3);
    MIR_reg_t base, index;
    d->kind = RK_MEM; d->mem_type = t; d->disp = ds == 0 ? 0 : ds == 1 ? 8 : -8;
    h15_addr_reg (bs, H_REG_A, &base, &d->base_present, &d->base_declared, &d->base_int);
    h15_addr_reg (is, H_REG_B, &index, &d->index_present, &d->index_declared, &d->index_int);
    op = MIR_new_mem_op (ctx, t, d->disp, base, index, 1);
    break;
  }
  case HK_LABEL: d->kind = RK_LABEL; op = MIR_new_label_op (ctx, h15_label); break;
  case HK_REF_PROTO: d->kind = RK_REF; d->item = RR_PROTO; op = MIR_new_ref_op (ctx, h15_proto_item); break;
  case HK_REF_IMPORT: d->kind = RK_REF; d->item = RR_IMPORT; op = MIR_new_ref_op (ctx, h15_import_item); break;
  case HK_REF_FUNC: d->kind = RK_REF; d->item = RR_FUNC; op = MIR_new_ref_op (ctx, h15_func_item); break;
  default:
    d->kind = RK_STR;
#if H_CBMC /* MIR_new_str_op interns the string in the context's string table (not part of the state built here) */
    op.data = NULL; op.mode = MIR_OP_STR; op.u.str.len = 2; op.u.str.s = "s";
#else
    op = MIR_new_str_op (ctx, (MIR_str_t){2, "s"});
#endif
    break;
  }
  return op;
}

static void h15_add3 (MIR_context_t ctx, MIR_insn_code_t code) {
  MIR_op_t o[3];
  o[0] = MIR_new_reg_op (ctx, H_REG_A); o[1] = MIR_new_reg_op (ctx, H_REG_A); o[2] = MIR_new_reg_op (ctx, H_REG_B);
  MIR_append_insn (ctx, h15_func_item, MIR_new_insn_arr (ctx, code, 3, o));
}
static void h15_mov (MIR_context_t ctx, MIR_op_t src) {
  MIR_op_t o[2];
  o[0] = MIR_new_reg_op (ctx, H_REG_B); o[1] = src;
  MIR_append_insn (ctx, h15_func_item, MIR_new_insn_arr (ctx, MIR_MOV, 2, o));
}

/* what precedes the insn under test (overflow branches only) */
static ref_prev_t h15_prev (MIR_context_t ctx) {
#ifdef H_PREV_GROUP /* 0: nothing before; 1: one insn before; 2: two insns before (the count is concrete per obligation) */
#if H_PREV_GROUP == 0
  (void) ctx;
  return RP_NONE;
#else
  /* The overflow insn before the branch is a PLACEHOLDER node that carries only an opcode (no operands; a typed static
     object): the adjacency rule reads nothing but prev_insn->code of it, and further full 3-operand insns on the heap made
     CBMC run out of memory (> 29 GB with addo; mov; bo all on the heap).  Real overflow insns with operands are covered by
     their own per-opcode obligations.  Group 2 puts a REAL `mov b, <a | 0>` (created through MIR_new_insn_arr) between
     the placeholder and the branch: "separated only by stores and reg moves". */
  {
    static struct MIR_insn h15_prev_obj;
    static const MIR_insn_code_t codes[8] = {MIR_ADDO, MIR_ADDOS, MIR_SUBO, MIR_SUBOS, MIR_MULO, MIR_MULOS, MIR_UMULO, MIR_UMULOS};
    unsigned sel = (unsigned) nd_below (10);
    ref_prev_t res;
    h15_prev_obj.data = NULL;
    h15_prev_obj.nops = 0;
    h15_prev_obj.code = sel < 8 ? codes[sel] : sel == 8 ? MIR_ADD : MIR_INVALID_INSN;
    MIR_append_insn (ctx, h15_func_item, &h15_prev_obj);
    res = sel < 4 ? RP_OVF : sel < 6 ? RP_MULO : sel < 8 ? RP_UMULO : RP_OTHER;
#if H_PREV_GROUP == 2
    {
      int reg_move = nd_bool (); /* one call site: one heap insn whatever the choice */
      h15_mov (ctx, reg_move ? MIR_new_reg_op (ctx, H_REG_A) : MIR_new_int_op (ctx, 0));
      if (reg_move) { /* a register move keeps the overflow insn adjacent */
        if (res == RP_OVF) res = RP_OVF_MOVS;
      } else if (res != RP_OTHER) /* a move of an immediate is not a register move */
        res = RP_OVF_THEN_OTHER;
    }
#endif
    return res;
  }
#endif
#else
  (void) ctx;
  return RP_NONE;
#endif
}

static const ref_func_t h15_fn_tmpl = {H_FRES_N, H_FRES_INIT, 0};
static const ref_proto_t h15_pr = {H_PR_NRES, H_PR_RES, H_PR_NARGS,
#if H_PROTO == 0
                                   {MIR_T_I64, MIR_T_D, MIR_T_BLK}, {0, 0, 8},
#elif H_PROTO == 1
                                   {MIR_T_I64}, {0},
#elif H_PROTO == 2
                                   {0}, {0},
#else
                                   {MIR_T_RBLK, MIR_T_I32}, {8, 0},
#endif
                                   H_PR_VARARG};

/* ---- instruction forms that were (or are) findings, each confirmed natively against the real library.
   Forms that are STILL defects of /repo (without -DH_FIXED_IN_REPO: all of them; with it: only the va_list form, the
   others were repaired by fix: commits d9fc5f08, 15c0ce9b, 789ebb63, ea7651df) are EXCLUDED from the per-opcode
   obligations, so that the rest of the opcode's space is still decided, and are the sole content of an obligation
   "finding.*" (-DH_KF_ONLY=id) that is expected to be violated.  Repaired forms are NOT excluded any more (the
   per-opcode obligations cover them) and additionally are the sole content of a regression obligation "regress.*"
   (same -DH_KF_ONLY=id) that must hold. ---- */
enum { H_KF_NONE, H_KF_LADDR_OUT, H_KF_VA_LIST_UNDEF, H_KF_CALLEE_PROTO, H_KF_CALLEE_BLK, H_KF_ADDR_NONREG, H_KF_JCALL_UNCHECKED };
static int h15_known_finding (size_t n, const ref_op_t *ds, unsigned expect) {
  int code = H_OPCODE;
  if (MIR_call_code_p (code) && n >= 2 && ds[0].kind == RK_REF && ds[0].item == RR_PROTO && ds[1].kind == RK_REF && ds[1].item == RR_PROTO)
    return H_KF_CALLEE_PROTO; /* see below */
  /* jcall: MIR_insn_op_mode has no case for MIR_JCALL and reads insn_descs[MIR_JCALL].op_modes[nop] (all zero = "undefined",
     index 5 is out of bounds): value types and output-ness of jcall results/arguments are not checked at all */
  if (code == MIR_JCALL && n >= 2 && ds[0].kind == RK_REF && ds[0].item == RR_PROTO
      && n >= (size_t) (2 + H_PR_NRES + H_PR_NARGS) && (H_PR_VARARG || n == (size_t) (2 + H_PR_NRES + H_PR_NARGS))
      && (n >= 6 || (expect != 0 && (expect & ~(RE_MODE | RE_OUT)) == 0)))
    return H_KF_JCALL_UNCHECKED;
  /* laddr <int/uint/ref/str>, L: a non-register/memory OUTPUT operand is accepted */
  if (code == MIR_LADDR && n == 2 && (ds[0].kind == RK_IMM_INT || ds[0].kind == RK_IMM_UINT || ds[0].kind == RK_REF || ds[0].kind == RK_STR))
    return H_KF_LADDR_OUT;
  /* va_start/va_end/va_arg/va_block_arg with the documented "memory with undefined type" va_list operand is rejected */
  for (size_t i = 0; i < H_MAXN; i++)
    if (i < n && ref_va_list_pos_p (code, i) && ds[i].kind == RK_MEM && ds[i].mem_type == MIR_T_UNDEF) return H_KF_VA_LIST_UNDEF;
  if (MIR_call_code_p (code) && n >= 2 && ds[0].kind == RK_REF && ds[0].item == RR_PROTO) {
    /* call p, <reference to a PROTOTYPE>: mir_assert fails (debug build) / accepted (NDEBUG build) */
    if (ds[1].kind == RK_REF && ds[1].item == RR_PROTO) return H_KF_CALLEE_PROTO;
    /* call p, blk:N(r): block memory as the called address is accepted (the generator then aborts) */
    if (ds[1].kind == RK_MEM && ref_block_type_p (ds[1].mem_type)) return H_KF_CALLEE_BLK;
  }
  /* addr/addr8/addr16/addr32 r, <imm/label/ref/str>: the 2nd operand is not checked at all */
  if (MIR_addr_code_p (code) && n == 2 && ds[1].kind != RK_REG && ds[1].kind != RK_MEM) return H_KF_ADDR_NONREG;
  return H_KF_NONE;
}

/* n is a compile-time constant at every call site: the insn is allocated with a concrete size */
static void h15_run (MIR_context_t ctx, size_t n, int vararg) {
  MIR_op_t ops[H_MAXN];
  ref_op_t ds[H_MAXN];
  ref_func_t fn = h15_fn_tmpl;
  ref_prev_t prev;
  MIR_insn_t insn;

  fn.vararg = vararg;
  for (size_t i = 0; i < n; i++) ops[i] = h15_mk_op (ctx, &ds[i], i);
  prev = h15_prev (ctx);
  h15_expect = ref_expect (H_OPCODE, n, ds, &fn, &h15_pr, prev);
#ifdef H_KF_ONLY
  H_ASSUME (h15_known_finding (n, ds, h15_expect) == H_KF_ONLY);
#elif defined(H_FIXED_IN_REPO)
  /* every recorded finding is repaired in /repo: nothing is excluded */
#else
  H_ASSUME (h15_known_finding (n, ds, h15_expect) == H_KF_NONE);
#endif
  H_ASSERT ((h15_expect & RE_UNKNOWN) == 0, "the opcode is covered by the documentation-derived model");
  insn = MIR_new_insn_arr (ctx, H_OPCODE, n, ops);
  MIR_append_insn (ctx, h15_func_item, insn);
  MIR_finish_func (ctx);
  H_ASSERT (h15_expect == 0, "ill-formed instruction was accepted (no error callback)");
#ifdef H_W_ACCEPT
  H_WITNESS ("accept path");
#endif
}

void harness (void) {
  int vararg = 0;
  size_t n;
#ifdef H_VARARG_ND
  vararg = nd_bool ();
#endif
  h15_state (vararg);
  H_WITNESS ("start");
#if H_NMIN == H_NMAX
  n = H_NMIN;
#else
  n = H_NMIN + (size_t) nd_below (H_NMAX - H_NMIN + 1);
#endif
  switch (n) {
  case 0: h15_run (h15_ctx, 0, vararg); break;
  case 1: h15_run (h15_ctx, 1, vararg); break;
  case 2: h15_run (h15_ctx, 2, vararg); break;
  case 3: h15_run (h15_ctx, 3, vararg); break;
  case 4: h15_run (h15_ctx, 4, vararg); break;
  case 5: h15_run (h15_ctx, 5, vararg); break;
  default: h15_run (h15_ctx, 6, vararg); break;
  }
#ifdef H_W_ACCEPT
  H_WITNESS ("end");
#endif
}
