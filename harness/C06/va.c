/* C06, variadic consumers: a generated MIR function  f (named..., ...)  reads its variadic arguments with
   va_start / va_arg and sees the values a C caller passed.

   Code under test: the machine code of the real generator for
        alloca va, 32; va_start va; { va_arg p, va, T:0; load T from (p); store to buf } ...; va_end va
   (target_machinize's expansion of VA_START, the call sequence of the va_arg builtin), lifted; and the REAL
   va_arg_builtin of mir-x86_64.c, reached through #include "mir.c": x86_call dispatches the builtin's address to
   the C function.  The builtin only does arithmetic on the pointers stored in the va_list and never dereferences
   them, so it runs unchanged on the integer-addressed harness memory: it is handed a C pointer to the cells that
   hold the va_list, the pointer it returns is converted back to its integer address.

   Entry state: named arguments AND the variadic values placed by ref/sysv_call_ref.h (the psABI passes unnamed
   arguments like named ones), %al = number of vector registers used, everything symbolic.  Asserted: the j-th
   va_arg of type T yields the j-th variadic argument, plus the callee-side obligations (return, callee-saved
   registers, rsp % 16 at every call). */
#define X86_MEM_HOOK
#include "h.h"
#include "mir.c"
#include "lift_rt.h"
#include ABI_LIFTED
#include "sysv_call_ref.h"
#include "abih.h"

#define CB_SIZE 3072
static uint64_t h_buf[CB_SIZE / 8];
static int h_va_calls;

void x86_call (x86_state *s, uint64_t target) {
  uint64_t rsp = s->r[4] + 8;
  H_ASSERT (target == LIFT_SYM_mir_va_arg, "the only calls go to the va_arg builtin");
  H_ASSERT (rsp % 16 == 0, "rsp is 16-byte aligned at the builtin call");
  h_va_calls++;
  {
    void *va = (void *) x86_mem64 (s->r[7]); /* the 24-byte va_list lives in three cells of the harness stack */
    (void) x86_mem64 (s->r[7] + 16);
    void *a = va_arg_builtin (va, s->r[6]);   /* the REAL builtin */
    uint64_t res = (uint64_t) (uintptr_t) a;
    h_havoc_caller_saved (s);
    s->r[0] = res;
  }
  s->r[4] += 8;
}

static void h_run_va_case (const h_case_t *c) {
  x86_state s;
  sc_call_t locs;
  uint64_t first = H_RSP0 + 8;

  h_va_calls = 0;
  sc_assign_args (c->nargs, c->args, &locs);
  H_ASSERT (locs.ok, "prototype is inside the oracle's domain");
  h_nregions = 0;
  h_map (H_STACK_BASE, 8 * H_STACK_WORDS, h_stack);
  h_map (LIFT_SYM_buf, sizeof (h_buf), h_buf);
  h_enter (&s);
  for (unsigned i = 1; i < 1 + locs.stack_bytes / 8 + 4; i++) h_stack[H_STACK_BELOW + i] = nd (); /* memory arguments + four words */
  for (unsigned i = 0; i < c->nargs; i++) {
    const sc_loc_t *l = &locs.arg[i];
    if (c->args[i].type == SC_LD) {
      h_arg_ld[i] = h_ld_nd ();
      x86_ld_store (first + l->stack_off, h_arg_ld[i]);
    } else
      h_arg_raw[i] = l->cls[0] == SC_CL_MEM ? X86_M64 (first + l->stack_off) : l->cls[0] == SC_CL_INT ? s.r[sc_int_arg_reg[l->reg[0]]] : s.xmm[l->reg[0]][0];
  }
  s.r[0] = (s.r[0] & ~(uint64_t) 0xff) | locs.n_sse;
  h_in.r[0] = s.r[0];

  H_ASSERT (lift_dispatch (&s, c->lift_addr), "lifted function exists");

  H_ASSERT (h_returned (&s), "function returns to its caller with rsp restored");
  H_ASSERT (h_callee_saved_ok (&s), "rbx rbp r12-r15 preserved");
  H_ASSERT (h_va_calls == c->nva, "one builtin call per va_arg");
  for (unsigned j = 0; j < c->nva; j++) {
    unsigned i = c->nnamed + j, t = c->va[j];
    if (t == SC_LD) H_ASSERT (h_ld_same (h_ld_at (LIFT_SYM_buf + 16 * j), h_arg_ld[i]), "va_arg long double: the variadic argument the caller passed");
    else if (t == SC_D) H_ASSERT (h_buf[2 * j] == h_arg_raw[i], "va_arg double: the variadic argument the caller passed");
    else H_ASSERT (h_buf[2 * j] == h_arg_raw[i], "va_arg i64: the variadic argument the caller passed");
  }
}

#include ABI_CASES
