/* C06, interpreter-interface side: the machine code of the real _MIR_get_interp_shim (one per result-type list),
   lifted, entered like a native caller would enter the MIR function.

   At the call of the handler  interp (ctx, func_item, va_list, results)  the stub asserts
     - rdi = ctx, rsi = the func item given to _MIR_get_interp_shim, rsp % 16 == 0;
     - rdx points to a va_list that is what va_start would produce in a function WITHOUT named parameters
       (psABI 3.5.7): gp_offset 0, fp_offset 48, overflow_arg_area = first stack argument, reg_save_area holding
       rdi rsi rdx rcx r8 r9 at 0..40 and xmm0-7 (all 128 bits) at 48 + 16*k, with the entry values;
     - walking that va_list with the psABI va_arg algorithm (ref/sysv_call_ref.h: sc_va_arg_addr) by the function's
       parameter types -- what the va_arg's of the real interp() (mir-interp.c:2002-2038, compiled by the C compiler)
       do -- yields exactly the argument values a C caller placed per sc_assign_args (block parameters excluded:
       interp() reads them with va_block_arg_builtin, which dereferences the save area);
     - rcx points to nres 16-byte result slots inside the shim's frame, disjoint from va_list and save area.
   The stub fills the result slots with symbolic values and clobbers all caller-saved state.  After the shim's ret:
   every result is in the register its type requires (two long doubles: first in st0, second in st1), rbx rbp
   r12-r15 rsp restored, the caller's frame untouched. */
#define X86_MEM_HOOK
#define H_XMM_HI_EACH
#include "h.h"
#include "lift_rt.h"
#include ABI_LIFTED
#include "sysv_call_ref.h"
#include "abih.h"

#define H_CALLER_WORDS (H_STACK_WORDS - H_STACK_BELOW)
static uint64_t h_caller_frame[H_CALLER_WORDS];
static const h_case_t *h_case;
static sc_call_t h_locs;
static int h_handler_calls;
static long double h_shim_res_ld[SC_MAX_RES];
static uint64_t h_shim_res[SC_MAX_RES];

void x86_call (x86_state *s, uint64_t target) {
  const h_case_t *c = h_case;
  uint64_t rsp = s->r[4] + 8, va = s->r[2], res = s->r[1], rsa;
  sc_valist_t v;
  h_handler_calls++;
  H_ASSERT (target == LIFT_SYM_fake_handler, "the shim calls the handler it was given");
  H_ASSERT (rsp % 16 == 0, "rsp is 16-byte aligned at the handler call");
  H_ASSERT (s->r[7] == LIFT_SYM_ctx && s->r[6] == c->aux, "handler receives (ctx, func_item, ...)");
  v.gp_offset = X86_M32 (va); v.fp_offset = X86_M32 (va + 4);
  v.overflow_arg_area = X86_M64 (va + 8); v.reg_save_area = rsa = X86_M64 (va + 16);
  H_ASSERT (v.gp_offset == 0 && v.fp_offset == 48, "va_list: gp_offset 0, fp_offset 48 (no named parameters consumed)");
  H_ASSERT (v.overflow_arg_area == H_RSP0 + 8, "va_list: overflow_arg_area is the first stack argument");
  for (unsigned k = 0; k < 6; k++)
    H_ASSERT (X86_M64 (rsa + 8 * k) == h_in.r[sc_int_arg_reg[k]], "va_list: reg_save_area holds rdi rsi rdx rcx r8 r9 at 8*k");
  for (unsigned k = 0; k < 8; k++)
    H_ASSERT (X86_M64 (rsa + 48 + 16 * k) == h_in.xmm[k][0] && X86_M64 (rsa + 48 + 16 * k + 8) == h_in.xmm[k][1], "va_list: reg_save_area holds xmm0-7 at 48 + 16*k");
  H_ASSERT (va >= rsp && va + 24 <= H_RSP0 && rsa >= rsp && rsa + 176 <= H_RSP0 && res >= rsp && res + 16 * c->nres <= H_RSP0, "va_list, save area and result slots lie in the shim's frame");
  H_ASSERT ((va + 24 <= rsa || rsa + 176 <= va) && (res + 16 * c->nres <= va || va + 24 <= res) && (res + 16 * c->nres <= rsa || rsa + 176 <= res), "va_list, save area and result slots are disjoint");
  /* the va_arg walk of interp() */
  for (unsigned i = 0; i < c->nargs; i++) {
    unsigned t = c->args[i].type;
    uint64_t a;
    if (sc_is_blk_type (t)) break; /* not modelled, see above; later arguments depend on it */
    a = sc_va_arg_addr (&v, t);
    if (t == SC_LD) H_ASSERT (h_ld_same (h_ld_at (a), h_arg_ld[i]), "va_arg walk: long double parameter");
    else if (t == SC_F) H_ASSERT (X86_M32 (a) == (uint32_t) h_arg_raw[i], "va_arg walk: float parameter (low 32 bits of the slot interp() reads as double)");
    else if (t == SC_D) H_ASSERT (X86_M64 (a) == h_arg_raw[i], "va_arg walk: double parameter");
    else H_ASSERT ((X86_M64 (a) & sc_low_mask (sc_int_bits (t))) == (h_arg_raw[i] & sc_low_mask (sc_int_bits (t))), "va_arg walk: integer / pointer parameter (the bits its type defines)");
  }
  /* the interpreter's results */
  for (unsigned j = 0; j < c->nres; j++) {
    if (c->res[j] == SC_LD) { h_shim_res_ld[j] = h_ld_nd (); x86_ld_store (res + 16 * j, h_shim_res_ld[j]); }
    else { h_shim_res[j] = nd (); X86_M64 (res + 16 * j) = h_shim_res[j]; X86_M64 (res + 16 * j + 8) = nd (); }
  }
  h_havoc_caller_saved (s);
  s->r[4] += 8;
}

static void h_run_shim_case (const h_case_t *c) {
  x86_state s;
  uint8_t reslocs[SC_MAX_RES];
  uint64_t first = H_RSP0 + 8;
  unsigned nld = 0;

  h_case = c;
  h_handler_calls = 0;
  sc_assign_args (c->nargs, c->args, &h_locs);
  H_ASSERT (h_locs.ok && sc_assign_results (c->nres, c->res, reslocs), "prototype is inside the oracle's domain");
  unsigned ncw = 1 + h_locs.stack_bytes / 8 + 4; /* return address, memory arguments, four words beyond */
  H_ASSERT (ncw <= H_CALLER_WORDS, "harness stack holds the memory arguments");
  h_nregions = 0;
  h_map (H_STACK_BASE, 8 * H_STACK_WORDS, h_stack);
  h_enter (&s);
  for (unsigned i = 1; i < ncw; i++) h_stack[H_STACK_BELOW + i] = nd ();
  for (unsigned i = 0; i < c->nargs; i++) {
    const sc_loc_t *l = &h_locs.arg[i];
    unsigned t = c->args[i].type;
    if (sc_is_blk_type (t)) continue;
    if (t == SC_LD) { h_arg_ld[i] = h_ld_nd (); x86_ld_store (first + l->stack_off, h_arg_ld[i]); }
    else h_arg_raw[i] = l->cls[0] == SC_CL_MEM ? X86_M64 (first + l->stack_off) : l->cls[0] == SC_CL_INT ? s.r[sc_int_arg_reg[l->reg[0]]] : s.xmm[l->reg[0]][0];
  }
  for (unsigned i = 0; i < ncw; i++) h_caller_frame[i] = h_stack[H_STACK_BELOW + i];

  H_ASSERT (lift_dispatch (&s, c->lift_addr), "lifted shim exists");

  H_ASSERT (h_handler_calls == 1, "handler called exactly once");
  H_ASSERT (h_returned (&s), "shim returns to its caller with rsp restored");
  H_ASSERT (h_callee_saved_ok (&s), "rbx rbp r12-r15 preserved");
  H_ASSERT (s.mxcsr == h_in.mxcsr && s.fcw == h_in.fcw, "MXCSR and the x87 control word are as at entry");
  for (unsigned i = 0; i < ncw; i++) H_ASSERT (h_stack[H_STACK_BELOW + i] == h_caller_frame[i], "the caller's frame is not written");
  for (unsigned j = 0; j < c->nres; j++) nld += c->res[j] == SC_LD;
  H_ASSERT (s.fdepth == (int) nld, "x87 stack holds exactly the long double results");
  for (unsigned j = 0; j < c->nres; j++) {
    unsigned t = c->res[j];
    switch (reslocs[j]) {
    case SC_R_RAX: H_ASSERT (s.r[0] == h_shim_res[j], "integer result slot -> rax"); break;
    case SC_R_RDX: H_ASSERT (s.r[2] == h_shim_res[j], "second integer result slot -> rdx"); break;
    case SC_R_XMM0: case SC_R_XMM1: {
      uint64_t got = s.xmm[reslocs[j] == SC_R_XMM0 ? 0 : 1][0];
      if (t == SC_F) H_ASSERT ((uint32_t) got == (uint32_t) h_shim_res[j], "float result slot -> low 32 bits of xmm0 / xmm1");
      else H_ASSERT (got == h_shim_res[j], "double result slot -> xmm0 / xmm1");
      break;
    }
    default:
      if (s.fdepth == (int) nld) H_ASSERT (h_ld_same (X86_ST (&s, reslocs[j] == SC_R_ST0 ? 0 : 1), h_shim_res_ld[j]), "long double result slot -> st0 (first) / st1 (second)");
      break;
    }
  }
}

#include ABI_CASES
