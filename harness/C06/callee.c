/* C06, generated-code side: a MIR function is a correct C-ABI callee and preserves the caller's machine state.

   tools/gen_protos.py writes, for every prototype of the enumeration, a MIR function f_<case> with exactly that
   signature (named parameters; `...` for the variadic twin) whose body
     - stores every named parameter into the module's bss item `buf` (blocks: the address it was given AND the
       words behind it),
     - loads k values from buf and keeps them live across a call of the external ext1 (k in {0, 8, 20}: forces
       callee-saved registers and spill slots), stores them back afterwards,
     - performs no / a constant-size / a variable-size alloca, writes a pattern into it before the call and reads
       it back afterwards,
     - returns results loaded from buf.
   The code of the real generator (tools/mirgen-dump -O<n>, production flag -DNDEBUG) is lifted and entered like a
   native caller would: arguments placed where ref/sysv_call_ref.h says (every value symbolic), rbx rbp r12-r15
   and the caller's stack words symbolic, rsp % 16 == 8.

   Asserted: parameter values as seen inside (narrow integers extended per type), results in rax/rdx/xmm0/xmm1/
   st0/st1, on return rbx rbp r12-r15 rsp MXCSR x87-CW unchanged and the x87 stack holding exactly the long double
   results, rsp % 16 == 0 at the inner call, alloca block 16-byte aligned, inside the frame (below the entry
   rsp, not below the rsp of the inner call) and intact across the call, live values intact, the caller's
   frame (return address, stack arguments) not written. */
#define X86_MEM_HOOK
#include "h.h"
#include "lift_rt.h"
#include ABI_LIFTED
#include "sysv_call_ref.h"
#include "abih.h"

/* layout of buf: keep in sync with tools/gen_protos.py (CB_*) */
#define CB_PARAM 0
#define CB_LIVE_IN 512
#define CB_ASIZE 760
#define CB_PAT 768
#define CB_AADDR 784
#define CB_READBACK 792
#define CB_LIVE_OUT 832
#define CB_RES 1008
#define CB_BLK 1280
#define CB_SIZE 3072
#define H_ALLOCA_CONST 32
#ifndef H_ALLOCA_VAR
#define H_ALLOCA_VAR 24 /* concrete size of the variable alloca: exercises the rounding up to 16 */
#endif
static uint64_t h_buf[CB_SIZE / 8];
#define H_BUF(off) h_buf[(off) / 8]
#define H_CALLER_WORDS (H_STACK_WORDS - H_STACK_BELOW)
static uint64_t h_caller_frame[H_CALLER_WORDS];

static const h_case_t *h_case;
static int h_ext_calls;
static uint64_t h_ext_rsp;

void x86_call (x86_state *s, uint64_t target) {
  H_ASSERT (target == LIFT_SYM_ext1, "the only call goes to the imported function");
  h_ext_calls++;
  h_ext_rsp = s->r[4] + 8;
  H_ASSERT (h_ext_rsp % 16 == 0, "rsp is 16-byte aligned at the inner call");
  H_ASSERT (s->fdepth == 0, "x87 stack empty at the inner call");
  h_havoc_caller_saved (s);
  s->r[4] += 8;
}

static void h_run_callee_case (const h_case_t *c) {
  x86_state s;
  sc_call_t locs;
  uint8_t reslocs[SC_MAX_RES];
  uint64_t first = H_RSP0 + 8; /* address of the first stack argument */
  unsigned nld = 0;

  h_case = c;
  h_ext_calls = 0;
  sc_assign_args (c->nargs, c->args, &locs);
  H_ASSERT (locs.ok && sc_assign_results (c->nres, c->res, reslocs), "prototype is inside the oracle's domain");
  /* words of the caller's frame that are made symbolic and compared afterwards: return address, the memory
     arguments and four words beyond (bounded by the prototype, keeps the query small) */
  unsigned ncw = 1 + locs.stack_bytes / 8 + 4;
  H_ASSERT (ncw <= H_CALLER_WORDS, "harness stack holds the memory arguments");
  h_nregions = 0;
  h_map (H_STACK_BASE, 8 * H_STACK_WORDS, h_stack);
  h_map (LIFT_SYM_buf, sizeof (h_buf), h_buf);
  h_enter (&s); /* all registers symbolic */
  for (unsigned i = 1; i < ncw; i++) h_stack[H_STACK_BELOW + i] = nd (); /* caller's frame incl. stack arguments */
  /* where the oracle puts each argument is where its (already symbolic) value is taken from */
  for (unsigned i = 0; i < c->nargs; i++) {
    const sc_loc_t *l = &locs.arg[i];
    unsigned t = c->args[i].type;
    if (sc_is_blk_type (t)) {
      for (unsigned k = 0; k < l->nwords; k++)
        h_arg_blk[i][k] = l->cls[0] == SC_CL_MEM ? X86_M64 (first + l->stack_off + 8 * k)
                          : l->cls[k] == SC_CL_INT ? s.r[sc_int_arg_reg[l->reg[k]]] : s.xmm[l->reg[k]][0];
    } else if (t == SC_LD) {
      h_arg_ld[i] = h_ld_nd ();
      x86_ld_store (first + l->stack_off, h_arg_ld[i]);
    } else
      h_arg_raw[i] = l->cls[0] == SC_CL_MEM ? X86_M64 (first + l->stack_off) : l->cls[0] == SC_CL_INT ? s.r[sc_int_arg_reg[l->reg[0]]] : s.xmm[l->reg[0]][0];
  }
  if (c->vararg) { s.r[0] = (s.r[0] & ~(uint64_t) 0xff) | locs.n_sse; h_in.r[0] = s.r[0]; } /* %al as the ABI requires of the caller */
  for (unsigned i = 0; i < ncw; i++) h_caller_frame[i] = h_stack[H_STACK_BELOW + i];
  /* inputs the body reads from buf */
  for (unsigned j = 0; j < c->k_live; j++) H_BUF (CB_LIVE_IN + 8 * j) = nd ();
  H_BUF (CB_ASIZE) = H_ALLOCA_VAR;
  H_BUF (CB_PAT) = nd (); H_BUF (CB_PAT + 8) = nd ();
  long double res_ld[SC_MAX_RES];
  for (unsigned j = 0; j < c->nres; j++) {
    H_BUF (CB_RES + 16 * j) = nd ();
    if (c->res[j] == SC_LD) { res_ld[j] = h_ld_nd (); x86_ld_store (LIFT_SYM_buf + CB_RES + 16 * j, res_ld[j]); nld++; }
  }

  H_ASSERT (lift_dispatch (&s, c->lift_addr), "lifted function exists");

  H_ASSERT (h_returned (&s), "function returns to its caller with rsp restored");
  H_ASSERT (h_callee_saved_ok (&s), "rbx rbp r12-r15 preserved");
  H_ASSERT (s.mxcsr == h_in.mxcsr && s.fcw == h_in.fcw, "MXCSR and the x87 control word are as at entry");
  H_ASSERT (h_ext_calls == c->has_call, "the inner call happens exactly when the body has one");
  for (unsigned i = 0; i < ncw; i++) {
    /* the callee owns its memory-class arguments; everything else above the return address is the caller's */
    H_ASSERT (h_stack[H_STACK_BELOW + i] == h_caller_frame[i], "the caller's frame (return address, stack arguments and above) is not written");
  }
  /* parameters as observed inside the function */
  for (unsigned i = 0; i < c->nnamed; i++) {
    unsigned t = c->args[i].type;
    uint64_t got = H_BUF (CB_PARAM + 16 * i);
    if (sc_is_blk_type (t)) {
      for (unsigned k = 0; k < (c->args[i].size + 7u) / 8u; k++) {
        uint64_t m = h_word_mask (c->args[i].size, k);
        H_ASSERT ((H_BUF (CB_BLK + 64 * i + 8 * k) & m) == (h_arg_blk[i][k] & m), "block parameter: the bytes behind the address the function received are the caller's block");
      }
    } else if (t == SC_LD) H_ASSERT (h_ld_same (h_ld_at (LIFT_SYM_buf + CB_PARAM + 16 * i), h_arg_ld[i]), "long double parameter");
    else if (t == SC_F) H_ASSERT ((uint32_t) got == (uint32_t) h_arg_raw[i], "float parameter: low 32 bits of its vector register / stack slot");
    else if (t == SC_D) H_ASSERT (got == h_arg_raw[i], "double parameter");
    else H_ASSERT (got == sc_extend (t, h_arg_raw[i]), "integer / pointer parameter: the caller's low bits, extended to 64 bits per declared type");
  }
  for (unsigned j = 0; j < c->k_live; j++)
    H_ASSERT (H_BUF (CB_LIVE_OUT + 8 * j) == H_BUF (CB_LIVE_IN + 8 * j), "values live across the inner call survive it");
  if (c->alloca_mode) {
    uint64_t a = H_BUF (CB_AADDR), size = c->alloca_mode == 1 ? H_ALLOCA_CONST : H_ALLOCA_VAR;
    H_ASSERT (a % 16 == 0, "alloca result is 16-byte aligned");
    H_ASSERT (a + size <= H_RSP0, "alloca block lies inside the function's frame (below the entry rsp)");
    if (c->has_call) H_ASSERT (a >= h_ext_rsp, "alloca block is not below the stack pointer of the inner call");
    H_ASSERT (H_BUF (CB_READBACK) == H_BUF (CB_PAT) && H_BUF (CB_READBACK + 8) == H_BUF (CB_PAT + 8), "alloca bytes are intact after the inner call");
  }
  /* results */
  H_ASSERT (s.fdepth == (int) nld, "x87 stack holds exactly the long double results");
  for (unsigned j = 0; j < c->nres; j++) {
    unsigned t = c->res[j];
    uint64_t v = H_BUF (CB_RES + 16 * j);
    switch (reslocs[j]) {
    case SC_R_RAX: case SC_R_RDX: {
      uint64_t got = s.r[reslocs[j] == SC_R_RAX ? 0 : 2];
      H_ASSERT ((got & sc_low_mask (sc_int_bits (t))) == (v & sc_low_mask (sc_int_bits (t))), "integer result: low bits its C type defines, in rax / rdx");
      H_ASSERT (got == sc_extend (t, v), "integer result: extended to 64 bits per result type (MIR's promise beyond the ABI)");
      break;
    }
    case SC_R_XMM0: case SC_R_XMM1: {
      uint64_t got = s.xmm[reslocs[j] == SC_R_XMM0 ? 0 : 1][0];
      if (t == SC_F) H_ASSERT ((uint32_t) got == (uint32_t) v, "float result: low 32 bits of xmm0 / xmm1");
      else H_ASSERT (got == v, "double result: xmm0 / xmm1");
      break;
    }
    default:
      if (s.fdepth == (int) nld) H_ASSERT (h_ld_same (X86_ST (&s, reslocs[j] == SC_R_ST0 ? 0 : 1), res_ld[j]), "long double result: st0 (first) / st1 (second)");
      break;
    }
  }
}

#include ABI_CASES
