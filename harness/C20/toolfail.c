/* C20: "the translator terminates on every such module" and "the C translation unit is accepted by the C compiler".

   props/C20.py creates this obligation only after the native driver of the real translator (tools/mir2c_drv.c) crashed,
   exited through the MIR error function, was cut by the 20 s / 8 MB limits (C20_KIND 1), or after gcc -fsyntax-only /
   goto-cc rejected the emitted C (C20_KIND 2), on the module C20_MODULE of the text in C20_TEXT_H.
   CBMC mode: a plain failing assertion (nothing is symbolic about a translator crash).
   Native replay (-DREPLAY): re-runs the real MIR_module2c on the same text in a child process under the same limits
   and, for kind 2, the C compiler on its output; the assertion fails iff the real tools fail again. */
#include "h.h"
#include C20_TEXT_H
#ifdef REPLAY
#include <unistd.h>
#include <sys/wait.h>
#include <sys/resource.h>
#include "mir.c"
#undef curr_func
#include "mir2c/mir2c.c"
static void c20_translate (const char *path) {
  struct rlimit rl = {8 << 20, 8 << 20};
  setrlimit (RLIMIT_FSIZE, &rl);
  alarm (20);
  MIR_context_t ctx = MIR_init ();
  MIR_scan_string (ctx, c20_mir_text);
  MIR_module_t m;
  for (m = DLIST_HEAD (MIR_module_t, *MIR_get_module_list (ctx)); m != NULL; m = DLIST_NEXT (MIR_module_t, m))
    if (strcmp (m->name, C20_MODULE) == 0) break;
  if (m == NULL) _exit (3);
  FILE *o = fopen (path, "w");
  if (o == NULL) _exit (4);
  MIR_module2c (ctx, o, m);
  if (fclose (o) != 0) _exit (5);
  MIR_finish (ctx);
}
#endif
void harness (void) {
  int failed = 1;
#ifdef REPLAY
  char path[64] = "/tmp/c20-replay-XXXXXX", cmd[512];
  int fd = mkstemp (path);
  if (fd >= 0) close (fd);
  pid_t pid = fork ();
  if (pid == 0) { c20_translate (path); _exit (0); }
  int st = 0;
  waitpid (pid, &st, 0);
  failed = !(WIFEXITED (st) && WEXITSTATUS (st) == 0);
  if (failed) fprintf (stderr, "REPLAY: MIR_module2c child status 0x%x (%s %d)\n", st, WIFSIGNALED (st) ? "signal" : "exit", WIFSIGNALED (st) ? WTERMSIG (st) : WEXITSTATUS (st));
#if C20_KIND == 2
  if (!failed) {
    snprintf (cmd, sizeof (cmd), "gcc -std=gnu11 -fsyntax-only -x c %s", path);
    failed = system (cmd) != 0;
    if (failed) fprintf (stderr, "REPLAY: gcc rejects the emitted translation unit\n");
    if (!failed) {
      snprintf (cmd, sizeof (cmd), "cp %s %s.c && goto-cc -std=gnu11 -c -o %s.gb %s.c; rc=$?; rm -f %s.c %s.gb; exit $rc", path, path, path, path, path, path);
      failed = system (cmd) != 0;
      if (failed) fprintf (stderr, "REPLAY: goto-cc rejects the emitted translation unit\n");
    }
  }
#endif
  unlink (path);
#endif
#if C20_KIND == 2
  H_ASSERT (!failed, "the emitted C translation unit is accepted by the C compiler (gcc -std=gnu11 -fsyntax-only and goto-cc)");
#else
  H_ASSERT (!failed, "the real MIR_module2c terminates normally on the module (no crash, no error exit, no hang)");
#endif
  H_WITNESS ("end");
}
