/* C20: the C translation unit emitted by the real MIR-to-C translator (mir2c/mir2c.c, MIR_module2c, run natively by
   tools/mir2c_drv.c) returns the same results and performs the same external calls as interpreting the module.
     leg c  the emitted C, compiled UNMODIFIED as separate translation units (wrap_<module>.c only renames the externals the
            way a -D would); its functions are called through the thin header c20_decls.h, its externals are logging stubs
     leg h  the REAL interpreter (eval/call) on the icode of the same module after the real MIR_link (tools/mirdump.c)
   Generated per unit and per run: C20_DUMP (mirdump), c20_decls.h + c20_cases.h (tools/gen_c20.py), C20_EXTIDS. */
#define H_DUMP C20_DUMP
#include "../C04/c04_rt.h"
#include C20_EXTIDS
#include "c20_decls.h"
#define h_run c04_h_run
#include "c20_cases.h"
