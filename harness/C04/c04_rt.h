/* Runtime of the C04 / C20 harnesses (engine E2 + E4):
     h_  leg: interp_rt.h - the REAL eval()/call() on the icode mirdump dumped from the REAL MIR_link (simplified, inlined)
     n_  leg: the same interpreter on the icode dumped by a mirdump built with the inlining thresholds at 0
              (-DMIR_MAX_INSNS_FOR_INLINE=0 -DMIR_MAX_INSNS_FOR_CALL_INLINE=0): every call is a real call, through the real code
     r_  leg: the C reference emitted by tools/mir2ref.py from the MIR text as written.
   Differences from the stock interp_rt.h model, all towards production behaviour:
     - alloca inside eval() is a bump allocator over a static arena (c04_arena); a real call releases what the callee
       allocated when it returns; bstart/bend are REAL save/restore of the arena top, so a bend that releases memory
       still in use lets later allocations overwrite it (visible as a functional difference);
     - block arguments of MIR callees are copied (by value) as interp() does with va_block_arg;
     - pointer-typed arguments of externals are logged as null/non-null only (the three legs use different copies). */
#ifndef VERIF_C04_RT_H
#define VERIF_C04_RT_H
#define H_NO_MAIN_HARNESS
#include "h.h"

#ifndef C04_ARENA_BYTES
#define C04_ARENA_BYTES 1024
#endif
static uint64_t c04_arena[C04_ARENA_BYTES / 8] __attribute__ ((aligned (16)));
static size_t c04_arena_top; /* bytes in use */
static void *c04_alloca (size_t n) {
  size_t sz = (n + 15) / 16 * 16;
  H_ASSUME (n <= C04_ARENA_BYTES && c04_arena_top + sz <= C04_ARENA_BYTES); /* stated bound on stack use */
  void *p = (char *) c04_arena + c04_arena_top;
  c04_arena_top += sz;
  return p;
}
#undef alloca
#define alloca(n) c04_alloca ((size_t) (n))
#define H_PTR_ARG_BITS(a) ((uint64_t) ((a) != 0))
#define H_FF_BLK_BY_VALUE 1
#define H_CALL_ENTER() size_t h_call_mark = c04_arena_top
#define H_CALL_LEAVE() c04_arena_top = h_call_mark
#include "interp_rt.h"

/* the saved "stack pointer" is the address of c04_marks[top]: a pointer difference inside one object stays a constant in symex
   (an integer smuggled through (void *) would make the arena top, and with it every later alloca address, symbolic) */
static char c04_marks[C04_ARENA_BYTES + 1];
static void *c04_bstart (void) { return &c04_marks[c04_arena_top]; }
static void c04_bend (void *p) { c04_arena_top = (size_t) ((char *) p - c04_marks); }

/* shared nondeterministic results of externals: the k-th external call of a run returns c04_ext_res[k][..] on every leg */
static uint64_t c04_ext_res[H_MAX_EXT_CALLS][2];
static uint64_t c04_ext_result (int call_no, int res_no) { return c04_ext_res[call_no][res_no & 1]; }

static int c04_log_eq (const h_ext_log *a, const h_ext_log *b) {
  if (a->n != b->n) return 0;
  for (int i = 0; i < a->n && i < H_MAX_EXT_CALLS; i++) {
    if (a->ev[i].ext != b->ev[i].ext || a->ev[i].nargs != b->ev[i].nargs) return 0;
    for (unsigned j = 0; j < a->ev[i].nargs && j < H_MAX_CALL_ARGS; j++)
      if (a->ev[i].arg[j] != b->ev[i].arg[j]) return 0;
  }
  return 1;
}

#ifdef C04_NDUMP
#include C04_NDUMP
static int n_depth;
static void n_run (int fid, MIR_val_t *args, MIR_val_t *results) {
  MIR_val_t frame[H_MAXREGS + 3];
  MIR_val_t *bp = frame + 2;
  const struct n_func_info *fi = &n_funcs[fid];
  size_t mark = c04_arena_top;
  H_ASSUME (fi->fd->nregs <= H_MAXREGS);
  bp[-1].a = NULL;
  bp[0].i = 0;
  for (unsigned i = 0; i < fi->nargs; i++) bp[1 + i] = args[i];
  eval (&h_ctx, fi->fd, bp, results);
  c04_arena_top = mark;
}
static void n_ff_common (MIR_proto_t proto, void *addr, MIR_val_t *res_args) {
  unsigned nres = proto->nres, nargs = (unsigned) VARR_LENGTH (MIR_var_t, proto->args);
  for (int k = 0; k < n_NFUNC; k++)
    if (addr == (void *) &n_fn_marker[k]) {
      const struct n_func_info *fi = &n_funcs[k];
      MIR_val_t vals[H_MAX_CALL_ARGS], res[8];
      size_t mark = c04_arena_top;
      H_ASSUME (n_depth < H_MAX_DEPTH);
      for (unsigned i = 0; i < fi->nargs; i++) {
        MIR_val_t a = res_args[nres + i];
        switch (fi->arg_types[i]) {
        case MIR_T_I8: vals[i].i = (int8_t) (int32_t) a.i; break;
        case MIR_T_I16: vals[i].i = (int16_t) (int32_t) a.i; break;
        case MIR_T_I32: vals[i].i = (int32_t) a.i; break;
        case MIR_T_U8: vals[i].i = (uint8_t) (uint32_t) a.u; break;
        case MIR_T_U16: vals[i].i = (uint16_t) (uint32_t) a.u; break;
        case MIR_T_U32: vals[i].i = (uint32_t) a.u; break;
        default:
          if (MIR_blk_type_p (fi->arg_types[i])) {
            size_t sz = fi->arg_sizes[i];
            char *c = c04_alloca (sz);
            for (size_t b = 0; b < sz; b++) c[b] = ((const char *) a.a)[b];
            vals[i].a = c;
          } else
            vals[i] = a;
          break;
        }
      }
      n_depth++;
      n_run (k, vals, res);
      n_depth--;
      c04_arena_top = mark;
      for (unsigned i = 0; i < fi->nres; i++) res_args[i] = res[i];
      return;
    }
  for (int k = 0; k < n_NEXT; k++)
    if (addr == (void *) &n_ext_marker[k]) {
      H_ASSUME (h_cur_log != NULL && h_cur_log->n < H_MAX_EXT_CALLS);
      h_ext_event *e = &h_cur_log->ev[h_cur_log->n];
      e->ext = k; e->nargs = nargs;
      for (unsigned i = 0; i < nargs && i < H_MAX_CALL_ARGS; i++)
        e->arg[i] = h_arg_bits (VARR_ADDR (MIR_var_t, proto->args)[i].type, res_args[nres + i]);
      for (unsigned i = 0; i < nres; i++) res_args[i].u = h_ext_result ? h_ext_result (h_cur_log->n, (int) i) : 0;
      h_cur_log->n++;
      return;
    }
  H_ASSERT (0, "call through an address that is neither a MIR function nor a registered external (no-inline leg)");
}
#endif

static void c04_h_run (int fid, MIR_val_t *args, MIR_val_t *results) {
  size_t mark = c04_arena_top;
  h_run (fid, args, results);
  c04_arena_top = mark;
}

static int c04_inited;
static void c04_init (void) {
  struct interp_ctx *interp_ctx = &h_ictx;
  h_interp_init ();
  bstart_builtin = c04_bstart;
  bend_builtin = c04_bend;
#ifdef C04_NDUMP
  n_reloc_init ();
#endif
  h_ext_result = c04_ext_result;
#ifdef C04_HAS_EXT
  for (int i = 0; i < H_MAX_EXT_CALLS; i++) { c04_ext_res[i][0] = nd (); c04_ext_res[i][1] = nd (); }
#endif
  c04_inited = 1;
}

/* ---------------- reference leg runtime (tools/mir2ref.py output) ---------------- */
typedef union { uint64_t u; int64_t i; float f; double d; long double ld; } r_val;
#define R_UNDEFINED_UNLESS(c) H_ASSUME (c) /* MIR.md leaves the case undefined: outside the property */
static uint64_t r_arena[C04_ARENA_BYTES / 8] __attribute__ ((aligned (16)));
static size_t r_arena_top;
static uint64_t r_alloca (uint64_t n) {
  size_t sz = ((size_t) n + 15) / 16 * 16;
  H_ASSUME (n <= C04_ARENA_BYTES && r_arena_top + sz <= C04_ARENA_BYTES);
  uint64_t p = (uint64_t) (uintptr_t) ((char *) r_arena + r_arena_top);
  r_arena_top += sz;
  return p;
}
static uint64_t r_blk_copy (uint64_t src, size_t sz) { /* block arguments are passed by value (MIR.md, "MIR function") */
  uint64_t p = r_alloca (sz);
  for (size_t b = 0; b < sz; b++) ((char *) (uintptr_t) p)[b] = ((const char *) (uintptr_t) src)[b];
  return p;
}
static uint64_t r_bits_i8 (uint64_t v) { return v & 0xff; }
static uint64_t r_bits_u8 (uint64_t v) { return v & 0xff; }
static uint64_t r_bits_i16 (uint64_t v) { return v & 0xffff; }
static uint64_t r_bits_u16 (uint64_t v) { return v & 0xffff; }
static uint64_t r_bits_i32 (uint64_t v) { return v & 0xffffffffu; }
static uint64_t r_bits_u32 (uint64_t v) { return v & 0xffffffffu; }
static uint64_t r_bits_i64 (uint64_t v) { return v; }
static uint64_t r_bits_u64 (uint64_t v) { return v; }
static uint64_t r_bits_p (uint64_t v) { return v != 0; }
static uint64_t r_bits_f (float v) { uint32_t w; memcpy (&w, &v, 4); return w; }
static uint64_t r_bits_d (double v) { uint64_t w; memcpy (&w, &v, 8); return w; }
static uint64_t r_bits_ld (long double v) { uint64_t w[2] = {0, 0}; memcpy (w, &v, 10); return w[0] ^ (w[1] << 48); }
static void r_ext_call (int ext, unsigned nargs, const uint64_t *bits, unsigned nres, r_val *res) {
  H_ASSUME (h_cur_log != NULL && h_cur_log->n < H_MAX_EXT_CALLS);
  h_ext_event *e = &h_cur_log->ev[h_cur_log->n];
  e->ext = ext; e->nargs = nargs;
  for (unsigned i = 0; i < nargs && i < H_MAX_CALL_ARGS; i++) e->arg[i] = bits[i];
  for (unsigned i = 0; i < nres; i++) res[i].u = c04_ext_result (h_cur_log->n, (int) i);
  h_cur_log->n++;
}

/* symbolic floating point inputs and bit-exact comparison (as harness/C02/interp.c) */
static float h_nd_f (void) { return nd_float (); }
static double h_nd_d (void) { return nd_double (); }
static long double h_nd_ld (void) {
  long double v; uint64_t m = nd (), se = nd ();
  memset (&v, 0, sizeof (v));
#if H_CBMC
  memcpy (&v, &m, 8); memcpy ((char *) &v + 8, &se, 8);
#else
  { uint16_t e = (uint16_t) se; memcpy (&v, &m, 8); memcpy ((char *) &v + 8, &e, 2); }
#endif
  return v;
}
static int h_same_f (float a, float b) { uint32_t x, y; memcpy (&x, &a, 4); memcpy (&y, &b, 4); return x == y || (a != a && b != b); }
static int h_same_d (double a, double b) { uint64_t x, y; memcpy (&x, &a, 8); memcpy (&y, &b, 8); return x == y || (a != a && b != b); }
static int h_same_ld (long double a, long double b) { return a == b ? (1 / a == 1 / b || a != 0) : (a != a && b != b); }
#endif
