/* C04: the transformations MIR_link applies before any engine sees the code (operand lowering, return merging with
   result extension, jump threading, alloca consolidation, inlining) preserve the behaviour of the program as written.
   Generated per unit (= one .mir file of the corpus) and per run, from /repo's working tree:
     C04_DUMP   icode of what the real MIR_link produced               (tools/mirdump.c)
     C04_NDUMP  same with the inlining thresholds compiled to 0        (tools/mirdump.c -prefix n_)
     C04_REF    C reference of the MIR text as written                 (tools/mir2ref.py)
     C04_CASES  one CBMC entry per function under test                 (tools/mir2ref.py) */
#define H_DUMP C04_DUMP
#include "c04_rt.h"
#include "mir_ref.h"
#include C04_EXTIDS
#include C04_REF
#define h_run c04_h_run
#include C04_CASES
