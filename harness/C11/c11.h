/* C11 - binary MIR token layer: directly constructed state for the real writer/reader functions of mir.c.
   Built with the repo's own -DMIR_NO_BIN_COMPRESSION: put_byte/get_byte go straight to io_writer/io_reader,
   which are the harness callbacks below over one byte array (the compression layer in between is C12's
   subject: C12 proves decode(encode(s)) == s for the byte stream, so the composition is the identity).

   No MIR_init / MIR_new_* is executed (HARNESS-GUIDE rule 1): the context, the io_ctx, the string tables,
   one function with two registers, the alias table and one item are laid out as static objects; in CBMC
   mode the hash tables are the abstract-map model of h_htab_model.h (justified by C19) filled by direct
   assignment, in the native REPLAY build they are the real HTABs filled through HTAB_DO.

   String table (the same numbering on the writer side, output_strings/output_string_tab, and on the
   reader side, bin_strings):   number  0 "r1"  1 "r2"  2 ""  3 "al"  4 "nal"  5 "itm"  6 "hi\0"(len 3)  */
#ifndef C11_H
#define C11_H
#include "h.h"
#include "mini_mir_pre.h"
#if H_CBMC
/* All containers of the directly constructed state have static storage of sufficient capacity; growth
   (a realloc with a symbolic size: no verdict, DESIGN section 1) is asserted unreachable, then cut. */
static void *h_no_growth (void *p) {
  H_ASSERT (0, "no container of the constructed state grows beyond its static capacity");
  H_ASSUME (0);
  return p;
}
#undef MIR_realloc
#define MIR_realloc(alloc, ptr, old_size, new_size) ((void) (alloc), (void) (old_size), (void) (new_size), h_no_growth (ptr))
#endif
#include "mir.c"

#if H_CBMC && defined(H_ALLOC_NATIVE)
static struct MIR_alloc h_alloc; /* h_alloc_native.h: MIR_malloc & co are call-site malloc; the function pointers are never called */
#else
static struct MIR_alloc h_alloc = {h_slot_malloc, h_slot_calloc, h_slot_realloc, h_slot_free, NULL};
#endif

/* noreturn error callback (HARNESS-GUIDE rule 7): every input of these harnesses is well formed unless the
   harness sets h_err_expected first */
static int h_err_expected;
static void MIR_NO_RETURN h_io_error (enum MIR_error_type t, const char *fmt, ...) {
  (void) fmt; (void) t;
  H_ASSERT (h_err_expected, "error callback invoked although the input is well-formed");
#if H_CBMC
  __CPROVER_assume (0);
#endif
  exit (0); /* REPLAY: an expected error ends the run successfully */
}
#define H_EXPECT_NO_ERROR_HERE() H_ASSERT (!h_err_expected, "ill-formed input was accepted (no error callback)")

#define H_BUF 64 /* <= 64: CBMC keeps arrays up to 64 elements field-sensitive, so concrete tag bytes stay concrete next to symbolic payload bytes */
static uint8_t h_buf[H_BUF];
static size_t h_wpos, h_rpos;
static int h_writer (MIR_context_t ctx, uint8_t b) {
  (void) ctx;
  H_ASSERT (h_wpos < H_BUF, "harness byte buffer large enough");
  h_buf[h_wpos++] = b;
  return b;
}
static int h_reader (MIR_context_t ctx) {
  (void) ctx;
  if (h_rpos >= h_wpos) return EOF;
  return h_buf[h_rpos++];
}

/* ---- static containers ---- */
#define H_SVARR(T, name, cap)     \
  static T name##_data[cap];      \
  static VARR (T) name##_obj = {0, cap, name##_data, &h_alloc}

#define H_NSTR 7
static char h_s_r1[] = "r1", h_s_r2[] = "r2", h_s_empty[] = "", h_s_al[] = "al", h_s_nal[] = "nal", h_s_itm[] = "itm",
            h_s_hi[] = "hi";
H_SVARR (string_t, h_out_strings, H_NSTR + 2);   /* writer side: element 0 unused, numbers from 1 */
H_SVARR (MIR_str_t, h_bin_strings, H_NSTR + 1);  /* reader side: index = number - 1 */
H_SVARR (string_t, h_ctx_strings, H_NSTR + 3);   /* ctx->string_ctx (MIR_new_str_op interns there) */
H_SVARR (string_t, h_aliases, 4);                /* alias numbers: 1 "al", 2 "nal" */
H_SVARR (reg_desc_t, h_reg_descs, 4);            /* element 0 unused, 1 "r1", 2 "r2"; one spare slot for the lookups' temporary */
H_SVARR (MIR_label_t, h_func_labels, 10);
H_SVARR (MIR_op_t, h_read_insn_ops, 4);
H_SVARR (uint64_t, h_insn_label_string_nums, 4);
H_SVARR (uint8_t, h_temp_data, 64);
H_SVARR (char, h_temp_string, 32);

#if H_CBMC
static HTAB (string_t) h_out_tab_obj, h_ctx_tab_obj, h_alias_tab_obj;
static HTAB (size_t) h_name2rdn_obj, h_reg2rdn_obj, h_hrn2rdn_obj;
static HTAB (MIR_item_t) h_item_tab_obj;
#endif
static HTAB (string_t) * h_out_tab, *h_ctx_tab, *h_alias_tab;

static struct func_regs h_func_regs;
static struct MIR_module h_module;
static struct MIR_func h_func;
static struct MIR_item h_func_item, h_itm_item;
static struct io_ctx h_io;
static struct string_ctx h_string_ctx;
static struct alias_ctx h_alias_ctx;
static struct MIR_context h_ctx;

#if H_CBMC
#define H_TAB_NEW(T, ptr, obj, hashf, eqf, argv) \
  do { (obj).eq_func = eqf; (obj).arg = argv; (obj).alloc = &h_alloc; ptr = &(obj); } while (0)
#define H_TAB_ADD(T, ptr, el) \
  do { (ptr)->els[(ptr)->bound] = el; (ptr)->used[(ptr)->bound] = 1; (ptr)->bound++; (ptr)->els_num++; } while (0)
#else
#define H_TAB_NEW(T, ptr, obj, hashf, eqf, argv) HTAB_CREATE (T, ptr, &h_alloc, 16, hashf, eqf, argv)
#define H_TAB_ADD(T, ptr, el) \
  do { T h_r; HTAB_DO (T, ptr, el, HTAB_INSERT, h_r); } while (0)
#endif

static size_t h_nstr;
static void h_add_string (size_t len, char *s) { /* next string number (writer side numbers from 1) */
  size_t num = ++h_nstr;
  string_t str = {num, {len, s}};
  h_out_strings_data[num] = str;
  h_bin_strings_data[num - 1] = str.str;
  h_ctx_strings_data[num] = str;
  H_TAB_ADD (string_t, h_out_tab, str);
  H_TAB_ADD (string_t, h_ctx_tab, str);
  h_out_strings_obj.els_num = num + 1;
  h_bin_strings_obj.els_num = num;
  h_ctx_strings_obj.els_num = num + 1;
}

static MIR_context_t h_setup (void) {
  MIR_context_t ctx = &h_ctx;
  ctx->alloc = &h_alloc;
  error_func = h_io_error;
  ctx->io_ctx = &h_io;
  ctx->string_ctx = &h_string_ctx;
  ctx->alias_ctx = &h_alias_ctx;
  io_writer = h_writer;
  io_reader = h_reader;
  H_TAB_NEW (string_t, h_out_tab, h_out_tab_obj, str_hash, str_eq, NULL);
  H_TAB_NEW (string_t, h_ctx_tab, h_ctx_tab_obj, str_hash, str_eq, NULL);
  H_TAB_NEW (string_t, h_alias_tab, h_alias_tab_obj, str_hash, str_eq, NULL);
  h_out_strings_obj.els_num = h_ctx_strings_obj.els_num = 1;
#ifdef H_ITEM_STRINGS /* item.c: only the keyword the item needs (the reader re-reads the table from the stream) */
  h_add_string (sizeof (H_ITEM_STRINGS), H_ITEM_STRINGS);
#else
  h_add_string (3, h_s_r1);
  h_add_string (3, h_s_r2);
  h_add_string (1, h_s_empty);
  h_add_string (3, h_s_al);
  h_add_string (4, h_s_nal);
  h_add_string (4, h_s_itm);
  h_add_string (3, h_s_hi);
#endif
  output_strings = &h_out_strings_obj;
  output_string_tab = h_out_tab;
  bin_strings = &h_bin_strings_obj;
  strings = &h_ctx_strings_obj;
  string_tab = h_ctx_tab;
  /* aliases */
  {
    string_t a1 = {1, {3, h_s_al}}, a2 = {2, {4, h_s_nal}};
    h_aliases_data[1] = a1;
    h_aliases_data[2] = a2;
    h_aliases_obj.els_num = 3;
    H_TAB_ADD (string_t, h_alias_tab, a1);
    H_TAB_ADD (string_t, h_alias_tab, a2);
    aliases = &h_aliases_obj;
    alias_tab = h_alias_tab;
  }
  /* function "f" with registers r1 (reg 1), r2 (reg 2) */
  {
    reg_desc_t rd1 = {MIR_T_I64, 1, h_s_r1, NULL}, rd2 = {MIR_T_I64, 2, h_s_r2, NULL};
    h_reg_descs_data[1] = rd1;
    h_reg_descs_data[2] = rd2;
    h_reg_descs_obj.els_num = 3;
    h_func_regs.reg_descs = &h_reg_descs_obj;
    H_TAB_NEW (size_t, h_func_regs.name2rdn_tab, h_name2rdn_obj, name2rdn_hash, name2rdn_eq, &h_func_regs);
    H_TAB_NEW (size_t, h_func_regs.reg2rdn_tab, h_reg2rdn_obj, reg2rdn_hash, reg2rdn_eq, &h_func_regs);
    H_TAB_NEW (size_t, h_func_regs.hrn2rdn_tab, h_hrn2rdn_obj, hrn2rdn_hash, hrn2rdn_eq, &h_func_regs);
    H_TAB_ADD (size_t, h_func_regs.name2rdn_tab, (size_t) 1);
    H_TAB_ADD (size_t, h_func_regs.name2rdn_tab, (size_t) 2);
    H_TAB_ADD (size_t, h_func_regs.reg2rdn_tab, (size_t) 1);
    H_TAB_ADD (size_t, h_func_regs.reg2rdn_tab, (size_t) 2);
  }
  h_func.name = "f";
  h_func.func_item = &h_func_item;
  h_func.internal = &h_func_regs;
  h_func_item.item_type = MIR_func_item;
  h_func_item.module = &h_module;
  h_func_item.u.func = &h_func;
  h_module.name = "m";
  /* one import item named "itm" (the name is the interned string number 5) */
  h_itm_item.item_type = MIR_import_item;
  h_itm_item.module = &h_module;
  h_itm_item.u.import_id = h_s_itm;
  H_TAB_NEW (MIR_item_t, module_item_tab, h_item_tab_obj, item_hash, item_eq, NULL);
  H_TAB_ADD (MIR_item_t, module_item_tab, &h_itm_item);
  func_labels = &h_func_labels_obj;
  read_insn_ops = &h_read_insn_ops_obj;
  insn_label_string_nums = &h_insn_label_string_nums_obj;
  temp_data = &h_temp_data_obj;
  temp_string = &h_temp_string_obj;
  return ctx;
}
#endif
