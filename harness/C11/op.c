/* C11: write_op against read_operand for every operand kind (-DOPK=n).  Field-by-field equality of the
   MIR_op_t read back and exact byte consumption, for all values of the symbolic payload. */
#include "c11.h"

#define H_K_REG 1
#define H_K_INT 2
#define H_K_UINT 3
#define H_K_FLOAT 4
#define H_K_DOUBLE 5
#define H_K_LDOUBLE 6
#define H_K_MEM 7
#define H_K_REF 8
#define H_K_STR 9
#define H_K_LABEL 10

#ifndef OPK
#define OPK H_K_MEM
#endif

void harness (void) {
  MIR_context_t ctx = h_setup ();
  MIR_op_t op, back;
  int res;

  memset (&op, 0, sizeof (op));
  memset (&back, 0, sizeof (back));
#if OPK == H_K_REG
  op.mode = MIR_OP_REG;
  op.u.reg = 1 + (MIR_reg_t) nd_below (2);
#elif OPK == H_K_INT
  op.mode = MIR_OP_INT;
  op.u.i = (int64_t) nd ();
#elif OPK == H_K_UINT
  op.mode = MIR_OP_UINT;
  op.u.u = nd ();
#elif OPK == H_K_FLOAT
  uint32_t fbits = (uint32_t) nd (), fback;
  op.mode = MIR_OP_FLOAT;
  memcpy (&op.u.f, &fbits, 4);
#elif OPK == H_K_DOUBLE
  uint64_t dbits = nd (), dback;
  op.mode = MIR_OP_DOUBLE;
  memcpy (&op.u.d, &dbits, 8);
#elif OPK == H_K_LDOUBLE
  uint64_t lo = nd (), hi = nd () & 0xffff, blo = 0, bhi = 0;
  op.mode = MIR_OP_LDOUBLE;
  memcpy (&op.u.ld, &lo, 8);
  memcpy ((char *) &op.u.ld + 8, &hi, 2);
#elif OPK == H_K_MEM
  op.mode = MIR_OP_MEM;
  op.u.mem.type = (MIR_type_t) nd_below (MIR_T_RBLK + 1);
  op.u.mem.disp = (MIR_disp_t) nd ();
  op.u.mem.base = (MIR_reg_t) nd_below (3);   /* 0 = absent, r1, r2 */
  op.u.mem.index = (MIR_reg_t) nd_below (3);
  op.u.mem.scale = (MIR_scale_t) nd_below (256);
  op.u.mem.alias = (MIR_alias_t) nd_below (3);    /* 0 = none, "al", "nal" */
  op.u.mem.nonalias = (MIR_alias_t) nd_below (3);
#ifdef H_ALIAS_P /* optional split of the query */
  H_ASSUME ((op.u.mem.alias != 0 || op.u.mem.nonalias != 0) == H_ALIAS_P);
#endif
#elif OPK == H_K_REF
  op.mode = MIR_OP_REF;
  op.u.ref = &h_itm_item;
#elif OPK == H_K_STR
  op.mode = MIR_OP_STR;
  op.u.str.len = 3;
  op.u.str.s = h_s_hi;
#elif OPK == H_K_LABEL
  static struct MIR_insn lab;
  uint64_t n = nd_below (8);
  lab.code = MIR_LABEL;
  lab.ops[0].mode = MIR_OP_INT;
  lab.ops[0].u.i = (int64_t) n;
  op.mode = MIR_OP_LABEL;
  op.u.label = &lab;
#else
#error unknown OPK
#endif
  write_op (ctx, reduce_writer, &h_func, op);
  H_ASSERT (h_wpos > 0, "write_op wrote at least the tag");
  res = read_operand (ctx, &back, &h_func_item);
  H_ASSERT (res == TRUE, "read_operand: an operand was read");
  H_ASSERT (h_rpos == h_wpos, "read_operand consumes exactly the bytes write_op wrote");
  H_ASSERT (back.mode == op.mode, "operand mode preserved");
  H_ASSERT (back.data == NULL, "operand aux data is clear");
#if OPK == H_K_REG
  H_ASSERT (back.u.reg == op.u.reg, "register operand preserved");
  if (op.u.reg == 2) H_WITNESS ("r2");
#elif OPK == H_K_INT
  H_ASSERT (back.u.i == op.u.i, "int immediate preserved");
  if (op.u.i < 0) H_WITNESS ("negative");
#elif OPK == H_K_UINT
  H_ASSERT (back.u.u == op.u.u, "uint immediate preserved");
  if (op.u.u > (uint64_t) INT64_MAX) H_WITNESS ("above INT64_MAX");
#elif OPK == H_K_FLOAT
  memcpy (&fback, &back.u.f, 4);
  H_ASSERT (fback == fbits, "float immediate preserved bit for bit");
  if ((fbits & 0x7f800000u) == 0x7f800000u && (fbits & 0x7fffffu) != 0) H_WITNESS ("NaN");
#elif OPK == H_K_DOUBLE
  memcpy (&dback, &back.u.d, 8);
  H_ASSERT (dback == dbits, "double immediate preserved bit for bit");
  if ((dbits >> 52 & 0x7ff) == 0x7ff && (dbits & 0xfffffffffffffull) != 0) H_WITNESS ("NaN");
#elif OPK == H_K_LDOUBLE
  memcpy (&blo, &back.u.ld, 8);
  memcpy (&bhi, (char *) &back.u.ld + 8, 2);
  H_ASSERT (blo == lo && bhi == hi, "long double immediate: 10 value bytes preserved bit for bit");
  if ((hi & 0x7fff) == 0x7fff && (lo << 1) != 0) H_WITNESS ("NaN");
#elif OPK == H_K_MEM
  H_ASSERT (back.u.mem.type == op.u.mem.type, "mem: type preserved");
  H_ASSERT (back.u.mem.disp == op.u.mem.disp, "mem: displacement preserved");
  H_ASSERT (back.u.mem.base == op.u.mem.base, "mem: base register preserved (present/absent)");
  H_ASSERT (back.u.mem.index == op.u.mem.index, "mem: index register preserved (present/absent)");
  /* the scale is part of the format only with an index register (MIR.md: the address is disp + base + index*scale) */
  H_ASSERT (back.u.mem.scale == (op.u.mem.index != 0 ? op.u.mem.scale : 0), "mem: scale preserved when there is an index");
  H_ASSERT (back.u.mem.alias == op.u.mem.alias, "mem: alias preserved");
  H_ASSERT (back.u.mem.nonalias == op.u.mem.nonalias, "mem: nonalias preserved");
  H_ASSERT (back.u.mem.nloc == 0, "mem: nloc clear");
  if (op.u.mem.disp != 0 && op.u.mem.base && op.u.mem.index && op.u.mem.alias && op.u.mem.nonalias) H_WITNESS ("mem: all parts");
  if (op.u.mem.disp == 0 && !op.u.mem.base && !op.u.mem.index) H_WITNESS ("mem: absolute 0");
  if (!op.u.mem.alias && op.u.mem.nonalias) H_WITNESS ("mem: nonalias only");
  if (op.u.mem.disp < 0 && op.u.mem.index == 2 && op.u.mem.scale == 255 && !op.u.mem.alias && !op.u.mem.nonalias) H_WITNESS ("mem: negative disp, index, no alias");
#elif OPK == H_K_REF
  H_ASSERT (back.u.ref == &h_itm_item, "ref operand resolves to the same item");
#elif OPK == H_K_STR
  H_ASSERT (back.u.str.len == 3 && memcmp (back.u.str.s, h_s_hi, 3) == 0, "str operand: length and bytes preserved");
#elif OPK == H_K_LABEL
  H_ASSERT (back.u.label != NULL && back.u.label->code == MIR_LABEL && back.u.label->ops[0].mode == MIR_OP_INT
              && back.u.label->ops[0].u.i == (int64_t) n, "label operand: label insn with the number written");
  H_ASSERT (VARR_GET (MIR_label_t, func_labels, n) == back.u.label, "label operand is the function's label of that number");
#endif
  H_EXPECT_NO_ERROR_HERE ();
  H_WITNESS ("end");
}
