/* C11 names: a module read back from binary MIR must keep creating FRESH temporary item names.
   The real read_name (reader of every item / reference name) on a stream holding a NAME token whose string is
   symbolic (<= 5 characters from [a-z0-9.], so it may or may not be a reserved `.lc<n>` name), then the real
   _MIR_get_temp_item_name on the same module: the name it makes must differ from the name just read (otherwise
   the next float/string literal lowered by MIR_link in the re-read module collides with an existing item:
   "Repeated item declaration" - the copy does not execute like the original).
   libc in CBMC mode: strtoul modelled for unsigned decimal numerals without sign/blank prefix (<= 4 digits),
   snprintf for the format "%s%u" (<= 4 digits).  REPLAY: the real libc. */
#include <stdio.h>
#include <stdlib.h>
#include <stdarg.h>
#ifndef REPLAY
static unsigned long h_strtoul (const char *s, char **end, int base) {
  unsigned long v = 0;
  int i = 0;
  (void) base;
  for (int k = 0; k < 5; k++)
    if (s[i] >= '0' && s[i] <= '9') { v = v * 10 + (unsigned long) (s[i] - '0'); i++; }
  __CPROVER_assume (!(s[i] >= '0' && s[i] <= '9')); /* stated bound: <= 5 digits */
  if (end != 0) *end = (char *) s + i;
  return v;
}
static int h_snprintf (char *buf, unsigned long n, const char *fmt, ...) { /* only "%s%u" */
  va_list ap;
  const char *p;
  unsigned u, k = 0, nd = 0;
  char d[6];
  va_start (ap, fmt);
  __CPROVER_assert (fmt[0] == '%' && fmt[1] == 's' && fmt[2] == '%' && fmt[3] == 'u' && fmt[4] == 0, "PROP format known to the snprintf stub");
  p = va_arg (ap, const char *);
  u = va_arg (ap, unsigned);
  va_end (ap);
  for (int i = 0; i < 8; i++)
    if (p[i] != 0 && k == (unsigned) i) buf[k++] = p[i];
  __CPROVER_assume (u < 100000);
  do { d[nd++] = (char) ('0' + u % 10); u /= 10; } while (u != 0 && nd < 6);
  for (int i = 0; i < 6; i++)
    if (nd > 0) buf[k++] = d[--nd];
  __CPROVER_assert (k < n, "PROP temporary name fits its buffer");
  buf[k] = 0;
  return (int) k;
}
#define strtoul h_strtoul
#define snprintf h_snprintf
#endif
#include "c11.h"

static char h_name[8];

void harness (void) {
  MIR_context_t ctx = h_setup ();
  unsigned len = (unsigned) nd_below (6);
  char buff[30];
  const char *s;
  for (unsigned i = 0; i < 5; i++) {
    char c = (char) nd ();
    H_ASSUME ((c >= 'a' && c <= 'z') || (c >= '0' && c <= '9') || c == '.');
    h_name[i] = i < len ? c : 0;
  }
  h_name[5] = 0;
  H_ASSUME (len >= 1);
  /* string number 5 of the table read from the stream is this name; the stream holds one NAME1 token referring to it */
  h_bin_strings_data[5].s = h_name;
  h_bin_strings_data[5].len = len + 1;
  h_buf[0] = TAG_NAME1; h_buf[1] = 5; h_wpos = 2;
  h_module.last_temp_item_num = (uint32_t) nd_below (4);
  s = read_name (ctx, &h_module, "wrong name");
  H_ASSERT (s == h_name && h_rpos == h_wpos, "read_name returns the string of the table and consumes the token");
  _MIR_get_temp_item_name (ctx, &h_module, buff, sizeof (buff));
  H_ASSERT (strcmp (buff, s) != 0, "a temporary item name created after reading a module differs from every item name read");
  if (h_name[0] == '.' && h_name[1] == 'l' && h_name[2] == 'c' && h_name[3] == '7' && len == 4) H_WITNESS ("reserved name .lc7 read");
  if (h_name[0] == 't' && h_name[1] == '3' && len == 2) H_WITNESS ("register-like name read");
  H_WITNESS ("end");
}
