/* C11 (thorough): data items and lref items through the real item writer (write_item) and the real
   reader loop (MIR_read_with_func), on directly constructed state: the context is "inside module m, after
   function f was read" (curr_module set, func_labels holds f's labels).  The stream is composed exactly as
   MIR_write_module_with_func composes it (version, string table, items, EOFILE) by the real token writers.
     -DH_DATA -DELT=<MIR type number 0..11>   data item with 2 symbolic elements of that type
     -DH_LREF                                 lref item referring to label 3 (and optionally label 5) of f  */
#ifdef H_LREF
#define H_ITEM_STRINGS "lref"
#else
#define H_ITEM_STRINGS "data"
#endif
#include "c11.h"

#ifndef ELT
#define ELT 6
#endif
#ifndef H_TWO
#define H_TWO 0
#endif
#define H_NEL 2

static const size_t h_el_size[12] = {1, 1, 2, 2, 4, 4, 8, 8, 4, 8, 16, 8};
static const size_t h_el_value_bytes[12] = {1, 1, 2, 2, 4, 4, 8, 8, 4, 8, 10, 8}; /* x87: 10 value bytes of 16 */

void harness (void) {
  MIR_context_t ctx = h_setup ();
  /* CBMC 6.11 cannot dereference `item->u.<member>->field` (one expression, member not the first of the
     union, item a pointer parameter) when the item object is field-sensitive: the pointer is read as
     byte_extract of the union and the value-set analysis loses it ("invalid object", spurious).  An object
     inside an array of more than 64 elements is not split into fields and is handled exactly. */
  static struct MIR_item h_items[65];
#define item h_items[1]
  MIR_item_t back;

  curr_module = &h_module;
  DLIST_INIT (MIR_item_t, h_module.items);
  /* header and string table, as MIR_write_module_with_func writes them */
  write_uint (ctx, reduce_writer, CURR_BIN_VERSION);
  write_uint (ctx, reduce_writer, VARR_LENGTH (string_t, output_strings) - 1);
  for (size_t i = 1; i < VARR_LENGTH (string_t, output_strings); i++) {
    MIR_str_t str = VARR_GET (string_t, output_strings, i).str;
    write_uint (ctx, reduce_writer, str.len);
    for (size_t j = 0; j < str.len; j++) put_byte (ctx, reduce_writer, str.s[j]);
  }
  item.module = &h_module;
#ifdef H_LREF
  {
    static struct MIR_lref_data lref;
    static struct MIR_insn l3, l5; /* labels 3 and 5 of function f, as the reader's to_lab registered them */
    int two = H_TWO; /* concrete (-DH_TWO=0|1), as is the displacement: see the note on stream positions below */
    l3.code = l5.code = MIR_LABEL;
    l3.ops[0].mode = l5.ops[0].mode = MIR_OP_INT;
    l3.ops[0].u.i = 3;
    l5.ops[0].u.i = 5;
    h_func_labels_data[3] = &l3;
    h_func_labels_data[5] = &l5;
    h_func_labels_obj.els_num = 6;
    lref.name = NULL;
    lref.label = &l3;
    lref.label2 = two ? &l5 : NULL;
    lref.disp = -9;
    item.item_type = MIR_lref_data_item;
    item.u.lref_data = &lref;
    write_item (ctx, reduce_writer, &item);
    put_byte (ctx, reduce_writer, TAG_EOFILE);
    MIR_read_with_func (ctx, h_reader);
    H_ASSERT (h_rpos == h_wpos, "reader consumed the whole stream");
    back = DLIST_TAIL (MIR_item_t, h_module.items);
    H_ASSERT (back != NULL && back->item_type == MIR_lref_data_item, "an lref item was created");
    MIR_lref_data_t bl = *(MIR_lref_data_t *) &back->u; /* == back->u.lref_data; see the note at bd below */
    H_ASSERT (bl->disp == lref.disp, "lref: displacement preserved");
    H_ASSERT (bl->label->ops[0].u.i == 3, "lref: label number preserved");
    H_ASSERT ((bl->label2 != NULL) == two && (!two || bl->label2->ops[0].u.i == 5),
              "lref: second label present/absent and its number preserved");
    H_ASSERT (bl->label == &l3, "lref: the label reference stays attached to the function's label (F4)");
    H_ASSERT (!two || bl->label2 == &l5, "lref: the second label reference stays attached to the function's label (F4)");
  }
#else
  {
    static struct { struct MIR_data d; uint8_t more[16 * H_NEL]; } h_data; /* typed object: header fields stay concrete */
    MIR_data_t data = &h_data.d;
    uint64_t w[4];
    size_t esz = h_el_size[ELT], vsz = h_el_value_bytes[ELT];
    for (int k = 0; k < 4; k++) w[k] = nd ();
    /* Integer element types and p: CONCRETE element values (-DH_VSET selects the pair).  With symbolic
       integers the token lengths, hence every later stream position and tag, are symbolic and the reader loop
       fans out into every item kind (no verdict; fixing the top byte does not help, symex does not fold
       int_length/uint_length).  All integer values and widths are covered at the token level by tok.int and
       tok.uint; what this obligation adds is the element-type <-> token-tag agreement of the two switches.
       f, d, ld elements (fixed token length) stay fully symbolic. */
#ifndef H_VSET
#define H_VSET 0
#endif
    if (ELT <= MIR_T_U64 || ELT == MIR_T_P) {
      int sgn = ELT <= MIR_T_I64 && (ELT & 1) == 0;
      if (H_VSET == 0) { /* extremes: most negative and -1 / all ones and top bit only */
        w[0] = sgn ? (uint64_t) 1 << (8 * vsz - 1) : ~(uint64_t) 0;
        w[2] = sgn ? ~(uint64_t) 0 : (uint64_t) 1 << (8 * vsz - 1);
      } else { /* small: 0 / 1 / 127 / 128 */
        w[0] = H_VSET == 1 ? 0 : 127;
        w[2] = H_VSET == 1 ? 1 : 128;
      }
    }
    data->name = NULL;
    data->el_type = (MIR_type_t) ELT;
    data->nel = H_NEL;
    memset (data->u.els, 0, 16 * H_NEL);
    for (size_t e = 0; e < H_NEL; e++) memcpy (data->u.els + e * esz, &w[2 * e], vsz);
    item.item_type = MIR_data_item;
    item.u.data = data;
    write_item (ctx, reduce_writer, &item);
    put_byte (ctx, reduce_writer, TAG_EOFILE);
    MIR_read_with_func (ctx, h_reader);
    H_ASSERT (h_rpos == h_wpos, "reader consumed the whole stream");
    back = DLIST_TAIL (MIR_item_t, h_module.items);
    H_ASSERT (back != NULL && back->item_type == MIR_data_item, "a data item was created");
    /* == back->u.data.  CBMC 6.11 reads garbage through `p->u.data->field` when the target is an untyped
       (byte array) heap object and `data` is not the first member of the union; reading the pointer
       through a cast of the union address is exact. */
    MIR_data_t bd = *(MIR_data_t *) &back->u;
    H_ASSERT (bd->name == NULL, "data: anonymous");
    H_ASSERT (bd->el_type == (MIR_type_t) ELT, "data: element type preserved");
    H_ASSERT (bd->nel == H_NEL, "data: number of elements preserved");
    for (size_t e = 0; e < H_NEL; e++)
      H_ASSERT (memcmp (bd->u.els + e * esz, data->u.els + e * esz, vsz) == 0, "data: element preserved bit for bit");
  }
#endif
  H_EXPECT_NO_ERROR_HERE ();
  H_WITNESS ("end");
}
