/* C11 token layer: every token writer of mir.c against its reader (-DOB=n selects the obligation).
   For ALL values of the payload: the reader returns the same value with the expected tag and consumes
   EXACTLY the bytes written (no desynchronisation of the stream). */
#include "c11.h"

#define H_TOK_INT 1
#define H_TOK_UINT 2
#define H_TOK_FLOAT 3
#define H_TOK_DOUBLE 4
#define H_TOK_LDOUBLE 5
#define H_TOK_TYPE 6
#define H_TOK_LAB 7
#define H_TOK_STRTAG 8
#define H_TOK_LABATTACH 9

#ifndef OB
#define OB H_TOK_INT
#endif

static unsigned h_nbytes (uint64_t u) { /* reference: number of significant bytes of u (0 for 0) */
  unsigned n = 0;
  for (int k = 0; k < 8; k++)
    if ((u >> (8 * k)) & 0xff) n = k + 1;
  return n;
}

void harness (void) {
  MIR_context_t ctx = h_setup ();
  token_attr_t attr;
  bin_tag_t tag;
  size_t len;

  memset (&attr, 0, sizeof (attr));
#if OB == H_TOK_INT
  {
    int64_t v = (int64_t) nd ();
    unsigned nb = h_nbytes ((uint64_t) v);
    if (nb == 0) nb = 1;
    len = write_int (ctx, reduce_writer, v);
    H_ASSERT (len == h_wpos && len == nb + 1, "write_int: tag + minimal number of bytes, returned length = bytes written");
    H_ASSERT (h_buf[0] == TAG_I1 + nb - 1, "write_int: tag I<nb>");
    tag = read_token (ctx, &attr);
    H_ASSERT (tag == (bin_tag_t) (TAG_I1 + nb - 1), "read_token: signed tag of the written width");
    H_ASSERT (attr.i == v, "read_token: signed immediate preserved bit for bit (negative and 64-bit values)");
    H_ASSERT (h_rpos == h_wpos, "read_token(int): consumes exactly the bytes written");
    h_rpos = 0;
    H_ASSERT (read_int (ctx, "e") == v, "read_int: value preserved");
    H_ASSERT (h_rpos == h_wpos, "read_int: consumes exactly the bytes written");
    h_rpos = 0;
    H_ASSERT (read_disp (ctx) == v, "read_disp: value preserved");
    H_ASSERT (h_rpos == h_wpos, "read_disp: consumes exactly the bytes written");
    if (v < 0) H_WITNESS ("negative int");
    if (v == INT64_MIN) H_WITNESS ("INT64_MIN");
    if (nb == 3) H_WITNESS ("3-byte int");
  }
#elif OB == H_TOK_UINT
  {
    uint64_t v = nd ();
    unsigned nb = h_nbytes (v);
    len = write_uint (ctx, reduce_writer, v);
    if (v <= 127) {
      H_ASSERT (len == 1 && h_wpos == 1 && h_buf[0] == (0x80 | v), "write_uint: 0..127 in one byte with the U0 flag");
    } else {
      H_ASSERT (len == h_wpos && len == nb + 1, "write_uint: tag + minimal number of bytes");
      H_ASSERT (h_buf[0] == TAG_U1 + nb - 1, "write_uint: tag U<nb>");
    }
    tag = read_token (ctx, &attr);
    H_ASSERT (tag == (v <= 127 ? TAG_U0 : (bin_tag_t) (TAG_U1 + nb - 1)), "read_token: unsigned tag of the written width");
    H_ASSERT (attr.u == v, "read_token: unsigned immediate preserved (values above INT64_MAX included)");
    H_ASSERT (h_rpos == h_wpos, "read_token(uint): consumes exactly the bytes written");
    h_rpos = 0;
    H_ASSERT (read_uint (ctx, "e") == v, "read_uint: value preserved");
    H_ASSERT (h_rpos == h_wpos, "read_uint: consumes exactly the bytes written");
    if (v > (uint64_t) INT64_MAX) H_WITNESS ("uint above INT64_MAX");
    if (v <= 127) H_WITNESS ("one-byte uint");
  }
#elif OB == H_TOK_FLOAT
  {
    uint32_t bits = (uint32_t) nd (), back;
    float v;
    memcpy (&v, &bits, 4);
    len = write_float (ctx, reduce_writer, v);
    H_ASSERT (len == 5 && h_wpos == 5 && h_buf[0] == TAG_F, "write_float: tag + 4 bytes");
    tag = read_token (ctx, &attr);
    H_ASSERT (tag == TAG_F, "read_token: float tag");
    memcpy (&back, &attr.f, 4);
    H_ASSERT (back == bits, "float immediate preserved bit for bit (NaN payloads included)");
    H_ASSERT (h_rpos == h_wpos, "read_token(float): consumes exactly the bytes written");
    if ((bits & 0x7f800000u) == 0x7f800000u && (bits & 0x7fffffu) != 0 && !(bits & 0x400000u)) H_WITNESS ("signalling NaN");
  }
#elif OB == H_TOK_DOUBLE
  {
    uint64_t bits = nd (), back;
    double v;
    memcpy (&v, &bits, 8);
    len = write_double (ctx, reduce_writer, v);
    H_ASSERT (len == 9 && h_wpos == 9 && h_buf[0] == TAG_D, "write_double: tag + 8 bytes");
    tag = read_token (ctx, &attr);
    H_ASSERT (tag == TAG_D, "read_token: double tag");
    memcpy (&back, &attr.d, 8);
    H_ASSERT (back == bits, "double immediate preserved bit for bit (NaN payloads included)");
    H_ASSERT (h_rpos == h_wpos, "read_token(double): consumes exactly the bytes written");
    if ((bits >> 52 & 0x7ff) == 0x7ff && (bits & 0xfffffffffffffull) != 0) H_WITNESS ("NaN");
  }
#elif OB == H_TOK_LDOUBLE
  {
    /* x87 extended: 10 value bytes (64-bit significand incl. explicit integer bit, 15-bit exponent, sign) */
    uint64_t lo = nd (), hi = nd () & 0xffff, blo = 0, bhi = 0;
    long double v = 0;
    memcpy (&v, &lo, 8);
    memcpy ((char *) &v + 8, &hi, 2);
    len = write_ldouble (ctx, reduce_writer, v);
    H_ASSERT (len == 17 && h_wpos == 17 && h_buf[0] == TAG_LD, "write_ldouble: tag + 16 bytes");
    tag = read_token (ctx, &attr);
    H_ASSERT (tag == TAG_LD, "read_token: long double tag");
    memcpy (&blo, &attr.ld, 8);
    memcpy (&bhi, (char *) &attr.ld + 8, 2);
    H_ASSERT (blo == lo && bhi == hi, "long double immediate: the 10 value bytes preserved bit for bit (NaNs, pseudo-denormals, unnormals included)");
    H_ASSERT (h_rpos == h_wpos, "read_token(ldouble): consumes exactly the bytes written");
    if ((hi & 0x7fff) == 0x7fff && (lo << 1) != 0) H_WITNESS ("long double NaN");
  }
#elif OB == H_TOK_TYPE
  {
    MIR_type_t t = (MIR_type_t) nd_below (MIR_T_RBLK + 1); /* I8 .. P, BLK .. BLK+4, RBLK */
    len = write_type (ctx, reduce_writer, t);
    H_ASSERT (len == 1 && h_wpos == 1, "write_type: one byte");
    tag = read_token (ctx, &attr);
    H_ASSERT (TAG_TI8 <= tag && tag <= TAG_TRBLOCK && tag_type (tag) == t, "read_token: type tag maps back to the type");
    H_ASSERT (attr.t == t, "read_token: type attribute equals the type written");
    H_ASSERT (h_rpos == h_wpos, "read_token(type): consumes exactly the byte written");
    h_rpos = 0;
    H_ASSERT (read_type (ctx, "e") == t, "read_type: type preserved");
    H_ASSERT (h_rpos == h_wpos, "read_type: consumes exactly the byte written");
    if (t == MIR_T_LD) H_WITNESS ("type ld");
    if (t == MIR_T_RBLK) H_WITNESS ("type rblk");
    if (t == MIR_T_BLK + 3) H_WITNESS ("type blk3");
  }
#elif OB == H_TOK_LAB
  {
    /* label numbers < 2^32 (mir_assert (nb <= 4) in write_lab: the documented format has LAB1..LAB4) */
    static struct MIR_insn lab;
    uint64_t n = nd ();
    unsigned nb;
    H_ASSUME (n < (1ull << 32));
    nb = h_nbytes (n);
    if (nb == 0) nb = 1;
    lab.code = MIR_LABEL;
    lab.ops[0].mode = MIR_OP_INT;
    lab.ops[0].u.i = (int64_t) n;
    len = write_lab (ctx, reduce_writer, &lab);
    H_ASSERT (len == h_wpos && len == nb + 1 && h_buf[0] == TAG_LAB1 + nb - 1, "write_lab: tag LAB<nb> + nb bytes");
    tag = read_token (ctx, &attr);
    H_ASSERT (tag == (bin_tag_t) (TAG_LAB1 + nb - 1), "read_token: label tag of the written width");
    H_ASSERT (attr.u == n, "read_token: label number preserved");
    H_ASSERT (h_rpos == h_wpos, "read_token(label): consumes exactly the bytes written");
    if (nb == 4) H_WITNESS ("4-byte label number");
    if (nb == 1) H_WITNESS ("1-byte label number");
  }
#elif OB == H_TOK_STRTAG
  {
    /* string numbers in the 1/2/3/4-byte classes: the table entry for "xyz" carries a symbolic number */
    static char s_xyz[] = "xyz";
    uint64_t num = nd ();
    unsigned nb, cls = (unsigned) nd_below (3);
    bin_tag_t start = cls == 0 ? TAG_STR1 : cls == 1 ? TAG_NAME1 : TAG_REG1;
    string_t e;
    MIR_str_t str = {4, s_xyz};
    H_ASSUME (num >= 1 && num - 1 < (1ull << 32)); /* mir_assert (nb <= 4): fewer than 2^32 strings */
    e.num = num;
    e.str = str;
    H_TAB_ADD (string_t, h_out_tab, e);
    nb = h_nbytes (num - 1);
    if (nb == 0) nb = 1;
    len = write_str_tag (ctx, reduce_writer, str, start);
    H_ASSERT (len == h_wpos && len == nb + 1 && h_buf[0] == start + nb - 1, "write_str_tag: tag <class><nb> + nb bytes");
    tag = read_token (ctx, &attr);
    H_ASSERT (tag == (bin_tag_t) (start + nb - 1), "read_token: string-number tag of the written class and width");
    H_ASSERT (attr.u == num - 1, "read_token: string number preserved");
    H_ASSERT (h_rpos == h_wpos, "read_token(string number): consumes exactly the bytes written");
    if (nb == 1) H_WITNESS ("1-byte string number");
    if (nb == 2) H_WITNESS ("2-byte string number");
    if (nb == 3) H_WITNESS ("3-byte string number");
    if (nb == 4) H_WITNESS ("4-byte string number");
  }
#elif OB == H_TOK_LABATTACH
  {
    /* label references stay attached to their labels: two references to label numbers a, b (< 8) written
       with write_lab and resolved by the reader's to_lab give the same label insn iff a == b, and the
       label carries its number */
    static struct MIR_insn la, lb;
    uint64_t a = nd_below (8), b = nd_below (8);
    MIR_label_t ra, rb, ra2;
    la.code = lb.code = MIR_LABEL;
    la.ops[0].mode = lb.ops[0].mode = MIR_OP_INT;
    la.ops[0].u.i = (int64_t) a;
    lb.ops[0].u.i = (int64_t) b;
    write_lab (ctx, reduce_writer, &la);
    write_lab (ctx, reduce_writer, &lb);
    write_lab (ctx, reduce_writer, &la);
    tag = read_token (ctx, &attr);
    ra = to_lab (ctx, attr.u);
    tag = read_token (ctx, &attr);
    rb = to_lab (ctx, attr.u);
    tag = read_token (ctx, &attr);
    ra2 = to_lab (ctx, attr.u);
    H_ASSERT (h_rpos == h_wpos, "three label tokens: consumed exactly");
    H_ASSERT (ra != NULL && ra->code == MIR_LABEL && ra->ops[0].mode == MIR_OP_INT && ra->ops[0].u.i == (int64_t) a,
              "to_lab: label insn carries the number written");
    H_ASSERT (rb->ops[0].u.i == (int64_t) b, "to_lab: second label carries its number");
    H_ASSERT (ra == ra2, "two references to one label number resolve to the same label insn");
    H_ASSERT ((ra == rb) == (a == b), "references to different label numbers resolve to different label insns");
    if (a != b) H_WITNESS ("distinct labels");
    if (a == b) H_WITNESS ("same label");
  }
#else
#error unknown OB
#endif
  H_EXPECT_NO_ERROR_HERE ();
  H_WITNESS ("end");
}
