/* C19 / bitmap: ONE operation of the real mir-bitmap.h from an ARBITRARY state.
   State: three bitmaps, each 0..H_MAXW words of arbitrary contents (every state reachable by any
   history has this form), operands chosen nondeterministically among them (all aliasing patterns).
   Oracle: word-array set algebra (absent words are 0), exact change flag. */
#include "h.h"
#include "mir-bitmap.h"

static struct MIR_alloc h_alloc = {h_slot_malloc, h_slot_calloc, h_slot_realloc, h_slot_free, NULL};

#ifndef H_MAXW
#define H_MAXW 4 /* words per bitmap in the pre-state */
#endif
#define H_W (H_MAXW + 2) /* words of the abstract view; bit numbers < H_MAXBIT */
#define H_MAXBIT ((H_MAXW + 1) * 64)

typedef struct { uint64_t w[H_W]; } h_set;

static h_set h_view (bitmap_t b) {
  h_set s;
  size_t len = VARR_LENGTH (bitmap_el_t, b);
  for (int i = 0; i < H_W; i++) s.w[i] = (size_t) i < len ? VARR_ADDR (bitmap_el_t, b)[i] : 0;
  return s;
}
static int h_eq (h_set a, h_set b) {
  for (int i = 0; i < H_W; i++)
    if (a.w[i] != b.w[i]) return 0;
  return 1;
}
static int h_mem (h_set s, size_t nb) { return nb < H_W * 64 ? (int) ((s.w[nb / 64] >> (nb % 64)) & 1) : 0; }
static unsigned h_popcount (uint64_t x) { /* sum of the 64 bits, fixed trip count */
  unsigned c = 0;
  for (int k = 0; k < 64; k++) c += (unsigned) ((x >> k) & 1);
  return c;
}

static bitmap_t h_mk (void) {
  bitmap_t b = bitmap_create2 (&h_alloc, 64);
  size_t len = nd_below (H_MAXW + 1);
  size_t cap = nd ();
  H_ASSUME (cap >= len && cap >= 1 && cap <= H_MAXW + 3);
  b->els_num = len;
  b->varr = h_slot_realloc (b->varr, b->size * sizeof (bitmap_el_t), cap * sizeof (bitmap_el_t), NULL);
  b->size = cap;
  for (size_t i = 0; i < H_MAXW; i++) {
    uint64_t v = nd ();
    if (i < len) b->varr[i] = v;
  }
  return b;
}

void harness (void) {
  bitmap_t bm[3];
#if OP >= 8 && OP <= 11 || OP == 17 /* unary queries: aliasing is meaningless, one bitmap is the general case */
  bm[0] = bm[1] = bm[2] = h_mk ();
  int id = 0, i1 = 0, i2 = 0, i3 = 0;
#else
  bm[0] = h_mk (); bm[1] = h_mk (); bm[2] = h_mk ();
  int id = 0, i1 = (int) nd_below (3), i2 = (int) nd_below (3), i3 = (int) nd_below (3);
#endif
  bitmap_t dst = bm[id], s1 = bm[i1], s2 = bm[i2], s3 = bm[i3];
  h_set od = h_view (dst), o1 = h_view (s1), o2 = h_view (s2), o3 = h_view (s3), nw, exp;
  h_set pre[3] = {h_view (bm[0]), h_view (bm[1]), h_view (bm[2])};
  int res, changed;
  size_t nb = nd (), len = nd ();
  (void) o3; (void) len; (void) nb; (void) res; (void) changed; (void) exp; (void) nw;

#if OP == 1 || OP == 2 /* set_bit_p / clear_bit_p */
  H_ASSUME (nb < H_MAXBIT);
  int was = h_mem (od, nb);
  res = OP == 1 ? bitmap_set_bit_p (dst, nb) : bitmap_clear_bit_p (dst, nb);
  nw = h_view (dst);
  exp = od;
  if (OP == 1) exp.w[nb / 64] |= (uint64_t) 1 << (nb % 64); else exp.w[nb / 64] &= ~((uint64_t) 1 << (nb % 64));
  H_ASSERT (h_eq (nw, exp), "set/clear_bit: resulting set");
  H_ASSERT ((res != 0) == (OP == 1 ? !was : was), "set/clear_bit: exact change flag");
  H_ASSERT (bitmap_bit_p (dst, nb) == (OP == 1), "bit_p after set/clear");
#elif OP == 3 || OP == 4 /* set/clear_bit_range_p */
  H_ASSUME (nb < H_MAXBIT && len <= H_MAXBIT && nb + len <= H_MAXBIT);
  res = OP == 3 ? bitmap_set_bit_range_p (dst, nb, len) : bitmap_clear_bit_range_p (dst, nb, len);
  nw = h_view (dst);
  exp = od;
  for (int i = 0; i < H_W; i++) { /* mask of [nb, nb+len) restricted to word i */
    size_t lo = (size_t) i * 64, hi = lo + 64, a = nb > lo ? nb : lo, b = nb + len < hi ? nb + len : hi;
    uint64_t m = 0;
    if (a < b) m = (b - a == 64 ? ~(uint64_t) 0 : (((uint64_t) 1 << (b - a)) - 1)) << (a - lo);
    if (OP == 3) exp.w[i] |= m; else exp.w[i] &= ~m;
  }
  H_ASSERT (h_eq (nw, exp), "bit_range: resulting set");
  H_ASSERT ((res != 0) == !h_eq (od, exp), "bit_range: exact change flag");
#elif OP == 5 /* copy (distinct objects: memcpy of an object onto itself is not claimed) */
  H_ASSUME (i1 != id);
  bitmap_copy (dst, s1);
  H_ASSERT (h_eq (h_view (dst), o1), "copy: dst equals src");
  H_ASSERT (VARR_LENGTH (bitmap_el_t, dst) == VARR_LENGTH (bitmap_el_t, s1), "copy: length");
#elif OP == 6
  res = bitmap_equal_p (s1, s2);
  H_ASSERT ((res != 0) == h_eq (o1, o2), "equal_p");
#elif OP == 7
  res = bitmap_intersect_p (s1, s2);
  { int e = 0; for (int i = 0; i < H_W; i++) e |= (o1.w[i] & o2.w[i]) != 0;
    H_ASSERT ((res != 0) == e, "intersect_p"); }
#elif OP == 8
  res = bitmap_empty_p (s1);
  { int e = 1; for (int i = 0; i < H_W; i++) e &= o1.w[i] == 0;
    H_ASSERT ((res != 0) == e, "empty_p"); }
#elif OP == 9
  { size_t c = bitmap_bit_count (s1), e = 0; for (int i = 0; i < H_W; i++) e += h_popcount (o1.w[i]);
    H_ASSERT (c == e, "bit_count"); }
#elif OP == 10 || OP == 11 /* min / max: 0 for the empty set, else the extreme member */
  { size_t r = OP == 10 ? bitmap_bit_min (s1) : bitmap_bit_max (s1);
    int empty = 1; for (int i = 0; i < H_W; i++) empty &= o1.w[i] == 0;
    if (empty) H_ASSERT (r == 0, "min/max of empty set is 0");
    else {
      H_ASSERT (h_mem (o1, r), "min/max is a member");
      size_t k = nd (); H_ASSUME (k < H_W * 64); /* universally quantified witness */
      if (h_mem (o1, k)) H_ASSERT (OP == 10 ? r <= k : r >= k, "min/max is extreme");
    } }
#elif OP >= 12 && OP <= 16 /* and, and_compl, ior, ior_and, ior_and_compl */
#ifdef H_EXCLUDE_F1 /* re-prove excluding the recorded finding F1 (dst longer than every source) */
  { size_t dl = VARR_LENGTH (bitmap_el_t, dst), l1 = VARR_LENGTH (bitmap_el_t, s1), l2 = VARR_LENGTH (bitmap_el_t, s2),
           l3 = OP >= 15 ? VARR_LENGTH (bitmap_el_t, s3) : 0;
    H_ASSUME (dl <= l1 || dl <= l2 || dl <= l3); }
#endif
  res = OP == 12   ? bitmap_and (dst, s1, s2)
        : OP == 13 ? bitmap_and_compl (dst, s1, s2)
        : OP == 14 ? bitmap_ior (dst, s1, s2)
        : OP == 15 ? bitmap_ior_and (dst, s1, s2, s3)
                   : bitmap_ior_and_compl (dst, s1, s2, s3);
  nw = h_view (dst);
  for (int i = 0; i < H_W; i++)
    exp.w[i] = OP == 12   ? (o1.w[i] & o2.w[i])
               : OP == 13 ? (o1.w[i] & ~o2.w[i])
               : OP == 14 ? (o1.w[i] | o2.w[i])
               : OP == 15 ? (o1.w[i] | (o2.w[i] & o3.w[i]))
                          : (o1.w[i] | (o2.w[i] & ~o3.w[i]));
  H_ASSERT (h_eq (nw, exp), "op2/op3: set-algebra result");
  H_ASSERT ((res != 0) == !h_eq (od, exp), "op2/op3: change flag exactly when dst changed");
#elif OP == 17 /* iterator: one step from an arbitrary iterator state (inductive) */
  { bitmap_iterator_t it; size_t got = 0, from = nd ();
    bitmap_iterator_init (&it, s1);
    H_ASSERT (it.nbit == 0, "iterator init");
    H_ASSUME (from <= VARR_LENGTH (bitmap_el_t, s1) * 64);
    it.nbit = from;
    res = bitmap_iterator_next (&it, &got);
    size_t k = nd (); H_ASSUME (k < H_W * 64);
    if (res) {
      H_ASSERT (got >= from && h_mem (o1, got), "iterator: yields a member not before the cursor");
      H_ASSERT (it.nbit == got + 1, "iterator: cursor moves past the member");
      if (k >= from && k < got) H_ASSERT (!h_mem (o1, k), "iterator: skips no member");
    } else if (k >= from) H_ASSERT (!h_mem (o1, k), "iterator: end only when no member is left");
  }
#else
#error "OP"
#endif
  /* frame: bitmaps other than dst are never modified */
#if OP <= 5 || (OP >= 12 && OP <= 16)
  for (int j = 1; j < 3; j++) H_ASSERT (h_eq (h_view (bm[j]), pre[j]), "operands other than dst unchanged");
#else
  for (int j = 0; j < 3; j++) H_ASSERT (h_eq (h_view (bm[j]), pre[j]), "query leaves all bitmaps unchanged");
#endif
  H_ASSERT (h_alloc_errors == 0, "allocator ledger (realloc old size / no double free)");
  H_WITNESS ("end");
}
