/* C19 / VARR: ONE operation of the real mir-varr.h from an ARBITRARY valid state (length, capacity and
   contents symbolic), against the sequence model; the allocator ledger checks that realloc is told
   the block's true previous size and that destroy frees both blocks exactly once. */
#include "h.h"
#include "mir-varr.h"

static struct MIR_alloc h_alloc = {h_slot_malloc, h_slot_calloc, h_slot_realloc, h_slot_free, NULL};
#ifndef H_MAXL
#define H_MAXL 6
#endif
typedef uint64_t h_t;
DEF_VARR (h_t);

void harness (void) {
  VARR (h_t) * v;
  h_t model[H_MAXL + 4], arr[3];
  size_t len = nd_below (H_MAXL + 1), cap = nd (), n = nd ();
  H_ASSUME (cap >= len && cap >= 1 && cap <= H_MAXL + 2);
  VARR_CREATE (h_t, v, &h_alloc, 1);
  v->varr = h_slot_realloc (v->varr, v->size * sizeof (h_t), cap * sizeof (h_t), NULL);
  v->size = cap; v->els_num = len;
  for (size_t i = 0; i < H_MAXL; i++) { h_t x = nd (); if (i < len) v->varr[i] = model[i] = x; }
  h_t x = nd ();
  (void) n; (void) arr;
#if OP == 1 /* push */
  VARR_PUSH (h_t, v, x);
  model[len] = x; len++;
#elif OP == 2 /* pop */
  H_ASSUME (len > 0);
  { h_t r = VARR_POP (h_t, v); H_ASSERT (r == model[len - 1], "pop returns the last element"); len--; }
#elif OP == 3 /* push_arr */
  H_ASSUME (n <= 3);
  for (int i = 0; i < 3; i++) arr[i] = nd ();
  VARR_PUSH_ARR (h_t, v, arr, n);
  for (size_t i = 0; i < 3; i++) if (i < n) model[len + i] = arr[i];
  len += n;
#elif OP == 4 /* expand: contents and length unchanged, capacity >= request */
  H_ASSUME (n <= H_MAXL + 4);
  { int r = VARR_EXPAND (h_t, v, n); H_ASSERT ((r != 0) == (cap < n), "expand reports growth exactly when capacity was too small");
    H_ASSERT (VARR_CAPACITY (h_t, v) >= n, "capacity after expand"); }
#elif OP == 5 /* tailor: length = capacity = n, the common prefix is preserved */
  H_ASSUME (n <= H_MAXL + 4 && n >= 1);
  VARR_TAILOR (h_t, v, n);
  H_ASSERT (VARR_CAPACITY (h_t, v) == n && VARR_LENGTH (h_t, v) == n, "tailor sets length and capacity");
  len = len < n ? len : n; /* only the prefix is defined */
#elif OP == 6 /* trunc / set / get / last */
  H_ASSUME (n <= len);
  VARR_TRUNC (h_t, v, n); len = n;
  if (len > 0) { size_t k = nd_below (H_MAXL + 1); H_ASSUME (k < len); VARR_SET (h_t, v, k, x); model[k] = x;
    H_ASSERT (VARR_GET (h_t, v, k) == x, "get after set"); H_ASSERT (VARR_LAST (h_t, v) == model[len - 1], "last"); }
#else
#error OP
#endif
#if OP != 5
  H_ASSERT (VARR_LENGTH (h_t, v) == len, "length equals the model");
#endif
  H_ASSERT (VARR_CAPACITY (h_t, v) >= VARR_LENGTH (h_t, v), "capacity >= length");
  { size_t k = nd_below (H_MAXL + 4); if (k < len) H_ASSERT (VARR_ADDR (h_t, v)[k] == model[k], "contents and order preserved"); }
  { int i = h_ledger_find (v->varr); H_ASSERT (i >= 0 && h_ledger[i].live && h_ledger[i].req == v->size * sizeof (h_t), "block size known to the allocator equals capacity"); }
  VARR_DESTROY (h_t, v);
  H_ASSERT (v == NULL && h_ledger_live () == 0, "destroy frees both blocks");
  H_ASSERT (h_alloc_errors == 0, "allocator ledger: realloc told the true old size, no double free");
  H_WITNESS ("end");
}
