/* C19 / DLIST: every sequence of <= H_NOPS operations of the real mir-dlist.h over H_NN nodes against
   an array model of the sequence; after every operation the list is observed through every accessor
   (head/tail/next/prev walks in both directions, length, DLIST_EL for every index incl. negative). */
#include "h.h"
#include "mir-dlist.h"

#ifndef H_NOPS
#define H_NOPS 5
#endif
#ifndef H_NN
#define H_NN 4
#endif

typedef struct h_node *h_node_t;
DEF_DLIST_LINK (h_node_t);
struct h_node { int id; DLIST_LINK (h_node_t) link; };
DEF_DLIST (h_node_t, link);

static struct h_node h_nodes[H_NN];
static DLIST (h_node_t) h_list;
static int h_seq[H_NN], h_len; /* model: ids in order */

static int h_pos (int id) { for (int i = 0; i < h_len; i++) if (h_seq[i] == id) return i; return -1; }
static void h_ins (int at, int id) { for (int i = h_len; i > at; i--) h_seq[i] = h_seq[i - 1]; h_seq[at] = id; h_len++; }
static void h_del (int at) { for (int i = at; i + 1 < h_len; i++) h_seq[i] = h_seq[i + 1]; h_len--; }

static void h_observe (void) {
  h_node_t e = DLIST_HEAD (h_node_t, h_list);
  for (int i = 0; i < H_NN; i++) {
    if (i < h_len) { H_ASSERT (e != NULL && e->id == h_seq[i], "forward walk equals the model sequence"); e = DLIST_NEXT (h_node_t, e); }
  }
  H_ASSERT (e == NULL, "forward walk ends after len elements");
  e = DLIST_TAIL (h_node_t, h_list);
  for (int i = 0; i < H_NN; i++) {
    if (i < h_len) { H_ASSERT (e != NULL && e->id == h_seq[h_len - 1 - i], "backward walk equals the reversed model"); e = DLIST_PREV (h_node_t, e); }
  }
  H_ASSERT (e == NULL, "backward walk ends after len elements");
  H_ASSERT (DLIST_LENGTH (h_node_t, h_list) == (size_t) h_len, "length");
  int n = (int) nd_below (2 * H_NN + 3) - (H_NN + 1); /* any index in [-(NN+1), NN+1] */
  e = DLIST_EL (h_node_t, h_list, n);
  if (n >= 0) { if (n < h_len) H_ASSERT (e != NULL && e->id == h_seq[n], "DLIST_EL(n>=0)"); else H_ASSERT (e == NULL, "DLIST_EL beyond the end is NULL"); }
  else { if (-n <= h_len) H_ASSERT (e != NULL && e->id == h_seq[h_len + n], "DLIST_EL(n<0) counts from the tail"); else H_ASSERT (e == NULL, "DLIST_EL before the start is NULL"); }
}

void harness (void) {
  for (int i = 0; i < H_NN; i++) h_nodes[i].id = i;
  DLIST_INIT (h_node_t, h_list);
  h_observe ();
  unsigned nops = (unsigned) nd_below (H_NOPS + 1);
  for (unsigned k = 0; k < H_NOPS; k++) {
    if (k >= nops) break;
    unsigned act = (unsigned) nd_below (5);
    int a = (int) nd_below (H_NN), b = (int) nd_below (H_NN);
    int pa = h_pos (a), pb = h_pos (b);
    switch (act) {
    case 0: H_ASSUME (pa < 0); DLIST_PREPEND (h_node_t, h_list, &h_nodes[a]); h_ins (0, a); break;
    case 1: H_ASSUME (pa < 0); DLIST_APPEND (h_node_t, h_list, &h_nodes[a]); h_ins (h_len, a); break;
    case 2: H_ASSUME (pa < 0 && pb >= 0); DLIST_INSERT_BEFORE (h_node_t, h_list, &h_nodes[b], &h_nodes[a]); h_ins (pb, a); break;
    case 3: H_ASSUME (pa < 0 && pb >= 0); DLIST_INSERT_AFTER (h_node_t, h_list, &h_nodes[b], &h_nodes[a]); h_ins (pb + 1, a); break;
    case 4: H_ASSUME (pa >= 0); DLIST_REMOVE (h_node_t, h_list, &h_nodes[a]); h_del (pa);
      H_ASSERT (h_nodes[a].link.prev == NULL && h_nodes[a].link.next == NULL, "removed node is unlinked"); break;
    }
    h_observe ();
  }
  if (h_len == H_NN) H_WITNESS ("list holding every node");
  H_WITNESS ("end");
}
