/* C19 / HTAB: sequences of <= H_NOPS operations of the real mir-htab.h from create(min_size 2), over a
   universe of H_NKEYS keys whose hash values are ARBITRARY (so every collision / probe pattern,
   table growth and tombstone reuse inside the bound is covered), against an abstract map.
   Also: free_func is called exactly once per dropped element, els_num equals the map size. */
#ifndef H_ELS_CAP
#define H_ELS_CAP 8 /* capacity of the element array the bound allows (grown 2 -> 4 -> 8) */
#endif
#define H_POOL_HOOK h_pool
#include <stddef.h>
static void *h_pool (int seq, size_t n);
#include "h.h"
#include "mir-htab.h"

static struct MIR_alloc h_alloc = {h_slot_malloc, h_slot_calloc, h_slot_realloc, h_slot_free, NULL};

#ifndef H_NOPS
#define H_NOPS 5
#endif
#ifndef H_NKEYS
#define H_NKEYS 4
#endif

typedef struct { unsigned key; unsigned val; } h_el;
DEF_HTAB (h_el);

/* typed storage for the two arrays that are indexed symbolically (3rd and 5th allocation of create) */
static HTAB_EL (h_el) h_els_pool[H_ELS_CAP];
static htab_ind_t h_ent_pool[2 * H_ELS_CAP];
static void *h_pool (int seq, size_t n) {
  if (seq == 2) { H_ASSUME (n <= sizeof (h_els_pool)); return h_els_pool; }
  if (seq == 4) { H_ASSUME (n <= sizeof (h_ent_pool)); return h_ent_pool; }
  return NULL;
}
static htab_hash_t h_hashes[H_NKEYS];
static unsigned h_freed_key[4 * H_NOPS + 4], h_freed_val[4 * H_NOPS + 4];
static int h_freed_n;

static htab_hash_t h_hash (h_el e, void *arg) { (void) arg; return h_hashes[e.key]; }
static int h_eqf (h_el a, h_el b, void *arg) { (void) arg; return a.key == b.key; }
static void h_freef (h_el e, void *arg) {
  (void) arg;
  h_freed_key[h_freed_n] = e.key; h_freed_val[h_freed_n] = e.val; h_freed_n++;
}

void harness (void) {
  HTAB (h_el) * tab;
  int present[H_NKEYS] = {0};
  unsigned val[H_NKEYS] = {0};
  int n = 0; /* model size */
  for (int k = 0; k < H_NKEYS; k++) h_hashes[k] = (htab_hash_t) nd ();
  HTAB_CREATE_WITH_FREE_FUNC (h_el, tab, &h_alloc, 2, h_hash, h_eqf, h_freef, NULL);
  unsigned nops = (unsigned) nd_below (H_NOPS + 1);
  for (unsigned i = 0; i < H_NOPS; i++) {
    if (i >= nops) break;
    unsigned act = (unsigned) nd_below (5);
    h_el e, r;
    e.key = (unsigned) nd_below (H_NKEYS);
    e.val = (unsigned) nd_below (256);
    r.key = 77; r.val = 77;
    int freed_before = h_freed_n;
    if (act == 4) { /* clear */
      HTAB_CLEAR (h_el, tab);
      H_ASSERT (h_freed_n - freed_before == n, "clear: free_func once per element");
      for (int k = 0; k < H_NKEYS; k++) present[k] = 0;
      n = 0;
      H_WITNESS ("clear");
    } else {
      int found = HTAB_DO (h_el, tab, e, (enum htab_action) act, r);
      H_ASSERT ((found != 0) == present[e.key], "do: return value = key was present");
      switch (act) {
      case HTAB_FIND:
        if (found) H_ASSERT (r.key == e.key && r.val == val[e.key], "find: returns the stored element");
        H_ASSERT (h_freed_n == freed_before, "find: nothing freed");
        break;
      case HTAB_INSERT:
        if (found) H_ASSERT (r.key == e.key && r.val == val[e.key], "insert of existing key: returns the old element, keeps it");
        else { H_ASSERT (r.key == e.key && r.val == e.val, "insert: returns the new element"); present[e.key] = 1; val[e.key] = e.val; n++; }
        H_ASSERT (h_freed_n == freed_before, "insert: nothing freed");
        break;
      case HTAB_REPLACE:
        H_ASSERT (r.key == e.key && r.val == e.val, "replace: returns the new element");
        if (found) {
          H_ASSERT (h_freed_n == freed_before + 1 && h_freed_key[freed_before] == e.key && h_freed_val[freed_before] == val[e.key],
                    "replace: old element freed exactly once");
        } else { H_ASSERT (h_freed_n == freed_before, "replace of absent key: nothing freed"); present[e.key] = 1; n++; }
        val[e.key] = e.val;
        break;
      case HTAB_DELETE:
        if (found) {
          H_ASSERT (h_freed_n == freed_before + 1 && h_freed_key[freed_before] == e.key && h_freed_val[freed_before] == val[e.key],
                    "delete: element freed exactly once");
          present[e.key] = 0; n--;
        } else H_ASSERT (h_freed_n == freed_before, "delete of absent key: nothing freed");
        break;
      }
    }
    H_ASSERT (HTAB_ELS_NUM (h_el, tab) == (htab_size_t) n, "els_num equals the size of the abstract map");
  }
  /* final observation: every key is found iff present, with the right value */
  for (unsigned k = 0; k < H_NKEYS; k++) {
    h_el e = {k, 0}, r = {99, 99};
    int found = HTAB_DO (h_el, tab, e, HTAB_FIND, r);
    H_ASSERT ((found != 0) == present[k], "final: membership equals the abstract map");
    if (found) H_ASSERT (r.val == val[k], "final: value equals the abstract map");
  }
  if (nops == H_NOPS && n >= 2) H_WITNESS ("two or more keys present after the full sequence");
  {
    int before = h_freed_n;
    HTAB_DESTROY (h_el, tab);
    H_ASSERT (h_freed_n - before == n, "destroy: free_func once per remaining element");
    H_ASSERT (tab == NULL, "destroy: handle cleared");
  }
  H_ASSERT (h_alloc_errors == 0, "allocator ledger (realloc old size, no double free)");
  H_ASSERT (h_ledger_live () == 0, "destroy returns every block");
  H_WITNESS ("end");
}
