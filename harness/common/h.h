/* Common harness support: dual mode (CBMC / native -DREPLAY), nondet log, slot allocator, witnesses.
   Conventions (DESIGN.md section 2, E1):
     nd()            one 64-bit nondeterministic value; logged in h_nd_vals[] so a CBMC trace can be
                     replayed natively in the same order
     H_ASSUME(c)     stated precondition / bound
     H_ASSERT(c,m)   the property (reported as "PROP m")
     H_WITNESS(n)    reachability witness: must come back FAILED in CBMC ("WITNESS n")
     harness()       entry point; main() is provided here */
#ifndef VERIF_H_H
#define VERIF_H_H
#include <stdint.h>
#include <stddef.h>
#include <stdlib.h>
#include <string.h>
#include <stdio.h>

#ifndef H_ND_MAX
#define H_ND_MAX 512
#endif

#ifdef REPLAY
static uint64_t h_nd_vals[H_ND_MAX];
static int h_nd_n, h_nd_i;
static void h_replay_load (const char *path) {
  FILE *f = fopen (path, "r");
  unsigned long long v;
  int ix;
  if (f == NULL) { fprintf (stderr, "REPLAY: cannot open %s\n", path); exit (2); }
  char line[256];
  while (fgets (line, sizeof (line), f) != NULL)
    if (line[0] != '#' && sscanf (line, "%d %llx", &ix, &v) == 2 && ix >= 0 && ix < H_ND_MAX) {
      h_nd_vals[ix] = v;
      if (ix + 1 > h_nd_n) h_nd_n = ix + 1;
    }
  fclose (f);
}
static uint64_t nd (void) { return h_nd_i < h_nd_n ? h_nd_vals[h_nd_i++] : (h_nd_i++, 0); }
#define H_ASSUME(c) \
  do { if (!(c)) { fprintf (stderr, "REPLAY: assumption does not hold: %s\n", #c); exit (77); } } while (0)
#define H_ASSERT(c, msg) \
  do { if (!(c)) { fprintf (stderr, "REPLAY: ASSERTION FAILED: %s\n", msg); fflush (stderr); exit (99); } } while (0)
#define H_WITNESS(name) ((void) 0)
#define H_CBMC 0
#else
uint64_t nondet_u64 (void);
uint64_t h_nd_vals[H_ND_MAX];
int h_nd_i;
static uint64_t nd (void) {
  uint64_t v = nondet_u64 ();
  h_nd_vals[h_nd_i++] = v;
  return v;
}
#define H_ASSUME(c) __CPROVER_assume (c)
#define H_ASSERT(c, msg) __CPROVER_assert ((c), "PROP " msg)
#ifdef H_NO_WITNESS /* diagnostic builds only */
#define H_WITNESS(name) ((void) 0)
#else
#define H_WITNESS(name) __CPROVER_assert (0, "WITNESS " name)
#endif
#define H_CBMC 1
#endif

#if H_CBMC && !defined(H_LIBC_MEM)
/* Bounded-loop replacements for the CBMC library models of memcpy/memmove/memset/memcmp (the
   library models use whole-array copies that neither scale nor, on typed heap cells, stay exact;
   see DESIGN.md section 1).  Word loops when everything is 8-aligned, byte loops otherwise.
   memcpy additionally asserts the C precondition that the regions do not overlap. */
void *memcpy (void *d, const void *s, size_t n) {
#ifdef H_MEMCPY_HOOK
  if (H_MEMCPY_HOOK (d, s, n)) return d; /* harness observer of every copy (C17: writes into code memory); non-zero = handled */
#endif
  __CPROVER_assert (n == 0 || __CPROVER_POINTER_OBJECT (d) != __CPROVER_POINTER_OBJECT (s)
                      || (const char *) d + n <= (const char *) s || (const char *) s + n <= (const char *) d,
                    "PROP memcpy source and destination do not overlap");
  if ((__CPROVER_POINTER_OFFSET (d) | __CPROVER_POINTER_OFFSET (s) | n) % 8 == 0)
    for (size_t i = 0; i < n / 8; i++) ((uint64_t *) d)[i] = ((const uint64_t *) s)[i];
  else
    for (size_t i = 0; i < n; i++) ((char *) d)[i] = ((const char *) s)[i];
  return d;
}
void *memmove (void *d, const void *s, size_t n) {
  if (__CPROVER_POINTER_OBJECT (d) != __CPROVER_POINTER_OBJECT (s) || (const char *) d <= (const char *) s)
    for (size_t i = 0; i < n; i++) ((char *) d)[i] = ((const char *) s)[i];
  else
    for (size_t i = n; i > 0; i--) ((char *) d)[i - 1] = ((const char *) s)[i - 1];
  return d;
}
void *memset (void *d, int c, size_t n) {
  if ((__CPROVER_POINTER_OFFSET (d) | n) % 8 == 0) {
    uint64_t v = (unsigned char) c; v |= v << 8; v |= v << 16; v |= v << 32;
    for (size_t i = 0; i < n / 8; i++) ((uint64_t *) d)[i] = v;
  } else
    for (size_t i = 0; i < n; i++) ((char *) d)[i] = (char) c;
  return d;
}
size_t strlen (const char *s) { size_t n = 0; while (s[n] != 0) n++; return n; }
int strcmp (const char *a, const char *b) {
  for (size_t i = 0;; i++) {
    unsigned char x = (unsigned char) a[i], y = (unsigned char) b[i];
    if (x != y) return x < y ? -1 : 1;
    if (x == 0) return 0;
  }
}
int strncmp (const char *a, const char *b, size_t n) {
  for (size_t i = 0; i < n; i++) {
    unsigned char x = (unsigned char) a[i], y = (unsigned char) b[i];
    if (x != y) return x < y ? -1 : 1;
    if (x == 0) return 0;
  }
  return 0;
}
int memcmp (const void *a, const void *b, size_t n) {
  for (size_t i = 0; i < n; i++) {
    unsigned char x = ((const unsigned char *) a)[i], y = ((const unsigned char *) b)[i];
    if (x != y) return x < y ? -1 : 1;
  }
  return 0;
}
#endif

#if !H_CBMC && defined(H_MEMCPY_HOOK)
static inline void *h_memcpy_observed (void *d, const void *s, size_t n) { if (H_MEMCPY_HOOK (d, s, n)) return d; return memcpy (d, s, n); }
#define memcpy(d, s, n) h_memcpy_observed (d, s, n)
#endif

static inline uint64_t nd_below (uint64_t n) { /* value in [0,n) */
  uint64_t v = nd ();
  H_ASSUME (v < n);
  return v;
}
static inline int nd_bool (void) { return (int) nd_below (2); }
static inline double nd_double (void) { uint64_t v = nd (); double d; memcpy (&d, &v, 8); return d; }
static inline float nd_float (void) { uint32_t v = (uint32_t) nd (); float d; memcpy (&d, &v, 4); return d; }

/* ---- slot allocator: a legal MIR_alloc_t whose blocks have a fixed capacity.  Requests above the
   capacity are assumed away (this is the size bound of the harness).  A ledger records the size
   the library asked for, so that realloc's old_size and double frees can be checked. ---- */
#ifndef H_SLOT_CAP
#define H_SLOT_CAP 256
#endif
#ifndef H_SLOT_MAX
#define H_SLOT_MAX 64
#endif
static struct { void *p; size_t req; int live; } h_ledger[H_SLOT_MAX];

static int h_ledger_n;
static int h_alloc_errors; /* ledger violations (checked by C17/C19 harnesses) */
static int h_ledger_find (void *p) {
#ifdef H_NO_LEDGER /* allocation discipline is not the subject: no bookkeeping (pointer comparisons are costly) */
  (void) p;
  return -1;
#else
  for (int i = 0; i < h_ledger_n; i++)
    if (h_ledger[i].p == p) return i;
  return -1;
#endif
}
/* H_POOL_HOOK (seq, n): optional harness function; when it returns non-NULL for the seq-th
   allocation, that (statically TYPED) array is used as the block.  CBMC mode only: arrays of
   4-byte or struct elements indexed symbolically are far cheaper when the object has the element
   type than when they live in generic 8-byte cells. */
static int h_alloc_seq;
static void *h_slot_malloc (size_t n, void *ud) {
  (void) ud;
  void *p = NULL;
  H_ASSUME (h_ledger_n < H_SLOT_MAX);
#if defined(REPLAY)
  p = malloc (n ? n : 1); /* exact size natively, so that ASan sees overflows */
  H_ASSUME (p != NULL);
#else
  H_ASSUME (n <= H_SLOT_CAP);
#ifdef H_POOL_HOOK
  p = H_POOL_HOOK (h_alloc_seq, n);
#endif
  if (p == NULL) {
#ifdef H_SLOT_MALLOC
    p = malloc (H_SLOT_CAP);
#else
    p = malloc (sizeof (uint64_t) * (H_SLOT_CAP / 8)); /* typed 8-byte cells */
#endif
    H_ASSUME (p != NULL);
  }
#endif
  h_alloc_seq++;
#ifndef H_NO_LEDGER
  h_ledger[h_ledger_n].p = p; h_ledger[h_ledger_n].req = n; h_ledger[h_ledger_n].live = 1;
  h_ledger_n++;
#endif
  return p;
}
static void *h_slot_calloc (size_t a, size_t b, void *ud) {
  H_ASSUME (a <= H_SLOT_CAP && b <= H_SLOT_CAP);
  void *p = h_slot_malloc (a * b, ud);
  memset (p, 0, a * b);
  return p;
}
static void *h_slot_realloc (void *p, size_t old, size_t n, void *ud) {
  (void) ud;
  if (p == NULL) return h_slot_malloc (n, ud);
  int i = h_ledger_find (p);
#ifndef H_NO_LEDGER
  if (i < 0 || !h_ledger[i].live || h_ledger[i].req != old) h_alloc_errors++;
#endif
#if defined(REPLAY)
  p = realloc (p, n ? n : 1);
  H_ASSUME (p != NULL);
  if (i >= 0) h_ledger[i].p = p;
#else
  H_ASSUME (n <= H_SLOT_CAP);
#endif
  if (i >= 0) h_ledger[i].req = n;
  return p;
}
static void h_slot_free (void *p, void *ud) {
  (void) ud;
  if (p == NULL) return;
  int i = h_ledger_find (p);
#ifndef H_NO_LEDGER
  if (i < 0 || !h_ledger[i].live) h_alloc_errors++;
#endif
  if (i >= 0) h_ledger[i].live = 0;
#ifdef REPLAY
  if (i >= 0) free (p);
#endif
}
static void h_ledger_set (void *p, size_t n) { int i = h_ledger_find (p); if (i >= 0) h_ledger[i].req = n; }
static int h_ledger_live (void) {
  int n = 0;
  for (int i = 0; i < h_ledger_n; i++) n += h_ledger[i].live;
  return n;
}

/* entry point: harness(), or -DH_ENTRY=name (obligations that share one goto binary and are selected
   with cbmc --function name; the native replay build gets the same -DH_ENTRY) */
#ifdef H_ENTRY
#define H_ENTRY_FN H_ENTRY
#else
#define H_ENTRY_FN harness
#endif
void H_ENTRY_FN (void);
#ifdef REPLAY
int main (int argc, char **argv) {
  if (argc > 1) h_replay_load (argv[1]);
  H_ENTRY_FN ();
  fprintf (stderr, "REPLAY: completed without violation\n");
  return 0;
}
#elif !defined(H_NO_MAIN_HARNESS)
int main (void) { H_ENTRY_FN (); return 0; }
#endif
#endif
