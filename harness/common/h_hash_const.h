/* Pre-empts /repo/mir-hash.h (include guard __MIR_HASH__) with constant-valued hash functions.
   Why: item_hash / str_hash / reg hashes hash POINTER VALUES or symbolic keys; CBMC keeps addresses
   symbolic until bit-blasting, so every hash-table probe index would be symbolic (no verdict).
   Soundness: C19 proves the hash table correct for ARBITRARY hash values, so any hash function -
   including a constant one (all keys collide; lookups degrade to the equality function) - yields the
   same table behaviour.  Listed under "assumptions" of every check that uses it. */
#ifndef __MIR_HASH__
#define __MIR_HASH__
#include <stddef.h>
#include <stdint.h>
static inline uint64_t mir_hash (const void *key, size_t len, uint64_t seed) { (void) key; (void) len; (void) seed; return 1; }
static inline uint64_t mir_hash_strict (const void *key, size_t len, uint64_t seed) { (void) key; (void) len; (void) seed; return 1; }
static inline uint64_t mir_hash_init (uint64_t seed) { (void) seed; return 1; }
static inline uint64_t mir_hash_step (uint64_t h, uint64_t key) { (void) key; return h; }
static inline uint64_t mir_hash_finish (uint64_t h) { return h; }
static inline uint64_t mir_hash64 (uint64_t key, uint64_t seed) { (void) key; (void) seed; return 1; }
#endif
