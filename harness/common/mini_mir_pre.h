/* Include BEFORE "mir.c" in mini-init harnesses (DESIGN.md section 1).  In CBMC mode it sets up:
   1. h_alloc_native.h: MIR_malloc/realloc/free become call-site malloc/realloc/free, so that heap
      objects get their real struct/array TYPES (pointers stored in heap structs stay precise);
   2. h_hash_const.h: constant hash (unless H_REAL_HASH);
   3. h_htab_model.h: the abstract-map model of mir-htab.h (unless H_REAL_HTAB) - justified by C19;
   4. capped INITIAL capacities of VARRs that mir.c hard-codes (they grow through the real code).
   The native REPLAY build uses the real headers throughout (real HTAB, real hash, ledger allocator). */
#ifndef VERIF_MINI_MIR_PRE_H
#define VERIF_MINI_MIR_PRE_H
#if H_CBMC
#ifndef H_SLOT_ALLOC
#include "h_alloc_native.h"
#endif
#ifndef H_REAL_HASH
#include "h_hash_const.h"
#endif
#ifndef H_REAL_HTAB
#include "h_htab_model.h"
#endif
#include "mir-varr.h"
#ifdef H_REAL_HTAB
#include "mir-htab.h"
#undef HTAB_CREATE
#undef HTAB_CREATE_WITH_FREE_FUNC
#define HTAB_CREATE(T, V, M, S, H, EQ, A) (HTAB_OP (T, create) (&(V), M, (S) > 2 ? 2 : (S), H, EQ, NULL, A))
#define HTAB_CREATE_WITH_FREE_FUNC(T, V, M, S, H, EQ, F, A) (HTAB_OP (T, create) (&(V), M, (S) > 2 ? 2 : (S), H, EQ, F, A))
#endif
#ifndef H_VARR_INIT_CAP
#define H_VARR_INIT_CAP 8
#endif
#undef VARR_CREATE
#define VARR_CREATE(T, V, A, L) (VARR_OP (T, create) (&(V), A, (L) == 0 || (L) > H_VARR_INIT_CAP ? H_VARR_INIT_CAP : (L)))
#endif
#endif
