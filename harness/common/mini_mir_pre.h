/* Include BEFORE "mir.c" in mini-init harnesses.
   1. constant hash (h_hash_const.h) unless H_REAL_HASH;
   2. caps the INITIAL capacities that mir.c hard-codes (HTAB_CREATE(...,100/512/1000,...),
      VARR_CREATE(...,50/256/512,...)): tables start small and grow through the REAL growth code on
      demand.  Behaviour is unchanged (capacity is not observable), but CBMC arrays stay small.
      Listed as an assumption ("initial container capacities capped"). */
#ifndef VERIF_MINI_MIR_PRE_H
#define VERIF_MINI_MIR_PRE_H
#ifndef H_REAL_HASH
#include "h_hash_const.h"
#endif
#include "mir-varr.h"
#include "mir-htab.h"
#ifndef H_HTAB_INIT_CAP
#define H_HTAB_INIT_CAP 2
#endif
#ifndef H_VARR_INIT_CAP
#define H_VARR_INIT_CAP 8
#endif
#undef HTAB_CREATE
#undef HTAB_CREATE_WITH_FREE_FUNC
#define HTAB_CREATE(T, V, M, S, H, EQ, A) (HTAB_OP (T, create) (&(V), M, (S) > H_HTAB_INIT_CAP ? H_HTAB_INIT_CAP : (S), H, EQ, NULL, A))
#define HTAB_CREATE_WITH_FREE_FUNC(T, V, M, S, H, EQ, F, A) \
  (HTAB_OP (T, create) (&(V), M, (S) > H_HTAB_INIT_CAP ? H_HTAB_INIT_CAP : (S), H, EQ, F, A))
#undef VARR_CREATE
#define VARR_CREATE(T, V, A, L) (VARR_OP (T, create) (&(V), A, (L) == 0 || (L) > H_VARR_INIT_CAP ? H_VARR_INIT_CAP : (L)))
#endif
