/* "mini-init" for harnesses on the real mir.c (DESIGN.md section 1: no harness may go through MIR_init).
   Usage:   #include "h.h"
            #include "mini_mir_pre.h"      (constant hash, capped initial capacities)
            #include "mir.c"
            #include "mini_mir.h"
            ... MIR_context_t ctx = h_mini_ctx ();
   Builds a context from the REAL sub-initialisers that are cheap (VARR_CREATE/HTAB_CREATE with small
   sizes, string tables, check_and_prepare_insn_descs, init_module for the environment module) and leaves
   out what no API-level harness needs: machine-code holders (code_init), the interpreter (interp_init),
   hard-register names, wrapper_end_addr.  Opt-in: H_MINI_SIMPLIFY (simplify_ctx), H_MINI_IO (io_ctx),
   H_MINI_SCAN (scan_ctx).  Error callback protocol: see h_mini_error below. */
#ifndef VERIF_MINI_MIR_H
#define VERIF_MINI_MIR_H

#if H_CBMC && defined(H_ALLOC_NATIVE)
static struct MIR_alloc h_alloc; /* h_alloc_native.h: allocation goes to CBMC malloc at the call site; no function pointers (they would only add spurious indirect-call candidates) */
#else
static struct MIR_alloc h_alloc = {h_slot_malloc, h_slot_calloc, h_slot_realloc, h_slot_free, NULL};
#endif

/* ---- noreturn error callback protocol (HARNESS-GUIDE rule 7) ---- */
static int h_err_expected;            /* set by the harness before the call under test: an error MUST follow */
static int h_err_allowed;             /* set when either outcome is legal */
static int h_err_code_expected = -1;  /* expected MIR_error_type, or -1 for "any" */
static int h_err_seen = -1;
static void MIR_NO_RETURN h_mini_error (enum MIR_error_type t, const char *fmt, ...) {
  (void) fmt;
  h_err_seen = (int) t;
  H_ASSERT (h_err_expected || h_err_allowed, "error callback invoked although the input is well-formed");
  H_ASSERT (h_err_code_expected < 0 || h_err_code_expected == (int) t, "error callback invoked with the documented error code");
#ifdef H_ERROR_PATH_WITNESS /* harnesses in which the error path must be reachable define this */
  H_WITNESS ("error path");
#endif
#if H_CBMC
  __CPROVER_assume (0);
#endif
  exit (0); /* REPLAY: an expected error ends the run successfully */
}
#define H_EXPECT_NO_ERROR_HERE() H_ASSERT (!h_err_expected, "ill-formed input was accepted (no error callback)")

static struct MIR_context h_mini_ctx_obj;
static struct string_ctx h_mini_strings, h_mini_aliases;

static MIR_context_t h_mini_ctx (void) {
  MIR_context_t ctx = &h_mini_ctx_obj;
  MIR_alloc_t alloc = &h_alloc;
  string_t string = {0, {0, NULL}};
  /* h_mini_ctx_obj is a zero-initialised static object */
  ctx->alloc = alloc;
  error_func = h_mini_error;
  ctx->string_ctx = &h_mini_strings;
  ctx->alias_ctx = &h_mini_aliases;
  /* string_init with a small table (the real one asks for 1000 entries) */
  VARR_CREATE (string_t, strings, alloc, 8);
  VARR_PUSH (string_t, strings, string);
  HTAB_CREATE (string_t, string_tab, alloc, 2, str_hash, str_eq, NULL);
  VARR_CREATE (string_t, aliases, alloc, 4);
  VARR_PUSH (string_t, aliases, string);
  HTAB_CREATE (string_t, alias_tab, alloc, 2, str_hash, str_eq, NULL);
  VARR_CREATE (MIR_proto_t, unspec_protos, alloc, 2);
  { /* check_and_prepare_insn_descs with an exact-capacity array (the real one grows a VARR 190 times) */
    static size_t h_insn_nops_data[MIR_INSN_BOUND + 1];
    static VARR (size_t) h_insn_nops = {0, MIR_INSN_BOUND + 1, h_insn_nops_data, &h_alloc};
    insn_nops = &h_insn_nops; /* never freed by a mini-init harness */
    for (size_t i = 0; i < MIR_INSN_BOUND; i++) {
      size_t j;
      for (j = 0; insn_descs[i].op_modes[j] != MIR_OP_BOUND; j++)
        ;
      VARR_PUSH (size_t, insn_nops, j);
    }
  }
  DLIST_INIT (MIR_module_t, all_modules);
  VARR_CREATE (char, temp_string, alloc, 64);
  VARR_CREATE (uint8_t, temp_data, alloc, 64);
  VARR_CREATE (uint8_t, used_label_p, alloc, 64);
  VARR_CREATE (MIR_module_t, modules_to_link, alloc, 4);
  VARR_CREATE (MIR_op_t, temp_ops, alloc, 8);
  init_module (ctx, &environment_module, ".environment");
  HTAB_CREATE (MIR_item_t, module_item_tab, alloc, 2, item_hash, item_eq, NULL);
#ifdef H_MINI_SIMPLIFY
  {
    static struct simplify_ctx h_simplify;
    ctx->simplify_ctx = &h_simplify;
    HTAB_CREATE (val_t, val_tab, alloc, 2, val_hash, val_eq, ctx);
    VARR_CREATE (MIR_insn_t, temp_insns, alloc, 8);
    VARR_CREATE (MIR_insn_t, cold_insns, alloc, 8);
    VARR_CREATE (MIR_insn_t, labels, alloc, 8);
    VARR_CREATE (MIR_reg_t, inline_reg_map, alloc, 16);
    VARR_CREATE (MIR_insn_t, anchors, alloc, 8);
    VARR_CREATE (size_t, alloca_sizes, alloc, 8);
    inlined_calls = inline_insns_before = inline_insns_after = 0;
  }
#endif
  return ctx;
}
#endif
