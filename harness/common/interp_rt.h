/* Engine E2 runtime (DESIGN.md section 2): the REAL interpreter (eval, call, call_insn_execute of
   mir-interp.c, switch-dispatch build -DMIR_DIRECT_DISPATCH) executing icode that the native tool
   `mirdump` dumped from the REAL MIR_link + generate_icode.  Define H_DUMP to the generated header.

   What is NOT the real code here (each is an assumption listed in the evidence):
     - the per-signature machine-code trampoline of _MIR_get_ff_call is replaced by h_ff_common():
       it dispatches on the callee address: MIR callee -> decode the C-ABI argument values by the
       callee's declared parameter types exactly as interp() does, then recurse into eval();
       external -> log (callee, typed argument values) and return nondet results.
     - bstart/bend builtins are stack-pointer save/restore in production; here they are no-ops
       (alloca'd blocks are never reused in the model).
     - the context is built by hand (no MIR_init): only ctx->interp_ctx fields eval/call touch. */
#ifndef VERIF_INTERP_RT_H
#define VERIF_INTERP_RT_H
#include "h.h"
#ifndef MIR_DIRECT_DISPATCH
#error "build with -DMIR_DIRECT_DISPATCH"
#endif
#include "mir.c"

#ifndef H_MAX_CALL_ARGS
#define H_MAX_CALL_ARGS 24
#endif
#ifndef H_MAXREGS
#define H_MAXREGS 64
#endif
#ifndef H_MAX_DEPTH
#define H_MAX_DEPTH 3
#endif
#ifndef H_MAX_EXT_CALLS
#define H_MAX_EXT_CALLS 4
#endif

static void h_ff_common (MIR_proto_t proto, void *addr, MIR_val_t *res_args);
#include H_DUMP

static struct MIR_context h_ctx;
static struct interp_ctx h_ictx;
static MIR_val_t h_arg_vals_buf[H_MAX_CALL_ARGS + 1], h_call_res_args_buf[H_MAX_CALL_ARGS + 8];
static _MIR_arg_desc_t h_call_arg_descs_buf[H_MAX_CALL_ARGS + 1];
static VARR (MIR_val_t) h_arg_vals_varr = {0, H_MAX_CALL_ARGS + 1, h_arg_vals_buf, NULL};
static VARR (MIR_val_t) h_call_res_args_varr = {0, H_MAX_CALL_ARGS + 8, h_call_res_args_buf, NULL};
static VARR (_MIR_arg_desc_t) h_call_arg_descs_varr = {0, H_MAX_CALL_ARGS + 1, h_call_arg_descs_buf, NULL};
static char h_setjmp_marker;
static int h_interp_errors;

static void *h_bstart (void) { return NULL; }
static void h_bend (void *p) { (void) p; }
static void MIR_NO_RETURN h_interp_error (enum MIR_error_type t, const char *fmt, ...) {
  (void) t; (void) fmt;
  h_interp_errors++;
  H_ASSERT (0, "interpreter reported an error");
#if H_CBMC
  __CPROVER_assume (0);
#endif
  exit (98);
}

static void h_interp_init (void) {
  struct interp_ctx *interp_ctx = &h_ictx;
  MIR_context_t ctx = &h_ctx; /* mir.c's field macros (error_func, setjmp_addr, ...) expand to ctx->... */
  ctx->interp_ctx = interp_ctx;
  error_func = h_interp_error;
  setjmp_addr = &h_setjmp_marker;
  arg_vals_varr = &h_arg_vals_varr; arg_vals = h_arg_vals_buf;
  call_res_args_varr = &h_call_res_args_varr; call_res_args = h_call_res_args_buf;
  call_arg_descs_varr = &h_call_arg_descs_varr; call_arg_descs = h_call_arg_descs_buf;
  bstart_builtin = h_bstart; bend_builtin = h_bend;
  addr_offset8 = addr_offset16 = addr_offset32 = 0; /* little endian (value of _MIR_addr_offset on x86-64) */
  h_reloc_init ();
}

/* ---- external call log ---- */
typedef struct { int ext; unsigned nargs; uint64_t arg[H_MAX_CALL_ARGS]; } h_ext_event;
typedef struct { h_ext_event ev[H_MAX_EXT_CALLS]; int n; } h_ext_log;
static h_ext_log *h_cur_log;         /* where external calls are recorded */
static uint64_t (*h_ext_result) (int call_no, int res_no); /* shared nondet results of externals */

static uint64_t h_arg_bits (MIR_type_t t, MIR_val_t v) { /* the bits of an argument that its C type defines */
  switch (t) {
  case MIR_T_I8: case MIR_T_U8: return v.u & 0xff;
  case MIR_T_I16: case MIR_T_U16: return v.u & 0xffff;
  case MIR_T_I32: case MIR_T_U32: return v.u & 0xffffffffu;
  case MIR_T_F: { uint32_t w; memcpy (&w, &v.f, 4); return w; }
  case MIR_T_LD: { uint64_t w[2] = {0, 0}; memcpy (w, &v.ld, 10); return w[0] ^ (w[1] << 48); }
#ifdef H_PTR_ARG_BITS /* harnesses whose legs run on different copies of the memory (C04, C20): what of a pointer is comparable */
  case MIR_T_P: return H_PTR_ARG_BITS (v.a);
#endif
  default: return v.u;
  }
}

/* optional hooks (C04, C20): H_CALL_ENTER/H_CALL_LEAVE bracket a real call of a MIR callee (frame of the alloca model);
   H_FF_BLK_BY_VALUE: copy block arguments into the callee's frame as interp() does with va_block_arg (alloca + copy) */
#ifndef H_CALL_ENTER
#define H_CALL_ENTER() ((void) 0)
#define H_CALL_LEAVE() ((void) 0)
#endif
static int h_depth;
static void h_run (int fid, MIR_val_t *args, MIR_val_t *results) {
  MIR_val_t frame[H_MAXREGS + 3];
  MIR_val_t *bp = frame + 2;
  const struct h_func_info *fi = &h_funcs[fid];
  H_ASSUME (fi->fd->nregs <= H_MAXREGS);
  bp[-1].a = NULL;
  bp[0].i = 0;
  for (unsigned i = 0; i < fi->nargs; i++) bp[1 + i] = args[i];
  eval (&h_ctx, fi->fd, bp, results);
}

static void h_ff_common (MIR_proto_t proto, void *addr, MIR_val_t *res_args) {
  unsigned nres = proto->nres, nargs = (unsigned) VARR_LENGTH (MIR_var_t, proto->args);
  for (int k = 0; k < h_NFUNC; k++)
    if (addr == (void *) &h_fn_marker[k]) { /* MIR callee: decode as interp() does, by the callee's own types */
      const struct h_func_info *fi = &h_funcs[k];
      MIR_val_t vals[H_MAX_CALL_ARGS], res[8];
      H_ASSUME (h_depth < H_MAX_DEPTH); /* stated bound on call depth */
      H_CALL_ENTER ();
      for (unsigned i = 0; i < fi->nargs; i++) {
        MIR_val_t a = res_args[nres + i];
        switch (fi->arg_types[i]) {
        case MIR_T_I8: vals[i].i = (int8_t) (int32_t) a.i; break;
        case MIR_T_I16: vals[i].i = (int16_t) (int32_t) a.i; break;
        case MIR_T_I32: vals[i].i = (int32_t) a.i; break;
        case MIR_T_U8: vals[i].i = (uint8_t) (uint32_t) a.u; break;
        case MIR_T_U16: vals[i].i = (uint16_t) (uint32_t) a.u; break;
        case MIR_T_U32: vals[i].i = (uint32_t) a.u; break;
        default:
#ifdef H_FF_BLK_BY_VALUE
          if (MIR_blk_type_p (fi->arg_types[i])) {
            size_t sz = fi->arg_sizes[i];
            char *c = alloca (sz);
            for (size_t b = 0; b < sz; b++) c[b] = ((const char *) a.a)[b];
            vals[i].a = c;
            break;
          }
#endif
          vals[i] = a;
          break;
        }
      }
      h_depth++;
      h_run (k, vals, res);
      h_depth--;
      H_CALL_LEAVE ();
      for (unsigned i = 0; i < fi->nres; i++) res_args[i] = res[i];
      return;
    }
  for (int k = 0; k < h_NEXT; k++)
    if (addr == (void *) &h_ext_marker[k]) {
      H_ASSUME (h_cur_log != NULL && h_cur_log->n < H_MAX_EXT_CALLS); /* stated bound on external calls */
      h_ext_event *e = &h_cur_log->ev[h_cur_log->n];
      e->ext = k; e->nargs = nargs;
      for (unsigned i = 0; i < nargs && i < H_MAX_CALL_ARGS; i++)
        e->arg[i] = h_arg_bits (VARR_ADDR (MIR_var_t, proto->args)[i].type, res_args[nres + i]);
      for (unsigned i = 0; i < nres; i++) res_args[i].u = h_ext_result ? h_ext_result (h_cur_log->n, (int) i) : 0;
      h_cur_log->n++;
      return;
    }
  H_ASSERT (0, "call through an address that is neither a MIR function nor a registered external");
}
#endif
