/* CBMC-mode replacement for /repo/mir-alloc.h (pre-empted through its include guard MIR_ALLOC_H).
   MIR_malloc/calloc/realloc/free become MACROS that call CBMC's own malloc/realloc/free AT THE CALL
   SITE, so that CBMC sees `malloc (sizeof (struct X))` / `malloc (n * sizeof (T))` and gives the
   object its real type.  Typed objects keep (function) pointers stored in heap structs precise;
   with untyped blocks CBMC loses them and explores every function of a compatible signature.
   The struct MIR_alloc type and the `alloc` arguments stay (they are passed around by the code),
   but the function pointers inside are not called in CBMC mode.  The REPLAY build uses the real
   mir-alloc.h with the exact-size ledger allocator of h.h.  Assumption listed in evidence:
   "MIR_alloc_t calls modelled by CBMC's malloc/realloc/free (allocator dispatch itself is C17's subject)". */
#if H_CBMC && !defined(MIR_ALLOC_H)
#define MIR_ALLOC_H
#define H_ALLOC_NATIVE 1
#include <assert.h>
#include <stddef.h>
#include <stdlib.h>
typedef struct MIR_alloc {
  void *(*malloc) (size_t, void *);
  void *(*calloc) (size_t, size_t, void *);
  void *(*realloc) (void *, size_t, size_t, void *);
  void (*free) (void *, void *);
  void *user_data;
} *MIR_alloc_t;
static int h_native_allocs, h_native_frees;
#define MIR_malloc(alloc, size) ((void) (alloc), h_native_allocs++, malloc (size))
#define MIR_calloc(alloc, num, size) ((void) (alloc), h_native_allocs++, calloc (num, size))
#define MIR_realloc(alloc, ptr, old_size, new_size) ((void) (alloc), (void) (old_size), realloc (ptr, new_size))
#define MIR_free(alloc, ptr) ((void) (alloc), h_native_frees++, free (ptr))
#endif
