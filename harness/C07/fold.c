/* C07 / constant folding of binary operators: the real `check_assign_op` of c2mir/c2mir.c (the function check()
   calls for & | ^ << >> + - * / % and their compound-assignment forms) on two INTEGER CONSTANT operands of
   arbitrary integer types and values, against ref/cfold_ref.h (C11 6.5.x on LP64, written from the standard).
   Asserted: the result is a constant, its type is the type C gives the expression, and its value - read as every
   consumer in c2mir reads a constant, i.e. after convert_value to its own type - is the value C defines.
   -DH_OP=<cf_op>.  Floating operands are outside (c2mir folds in long double: CBMC's long double is not x87's).
   State: c2m_ctx with a register-memory array and the harness allocator; one node for the operator. */
#define H_SLOT_ALLOC 1
#define H_SLOT_CAP 64 /* bytes: struct expr is 64, struct type 56 */
#define H_SLOT_MAX 6
#define H_NO_LEDGER
#include "h.h"
#include "c2mir/c2mir.c"
#include "cfold_ref.h"

#ifndef H_OP
#define H_OP CF_ADD
#endif
static const node_code_t h_codes[CF_NOPS] = {N_AND, N_OR, N_XOR, N_LSH, N_RSH, N_ADD, N_SUB, N_MUL, N_DIV, N_MOD};
static const enum basic_type h_bt[12] = {TP_BOOL, TP_CHAR, TP_SCHAR, TP_UCHAR, TP_SHORT, TP_USHORT, TP_INT, TP_UINT, TP_LONG, TP_ULONG, TP_LLONG, TP_ULLONG};

static struct MIR_alloc h_alloc = {h_slot_malloc, h_slot_calloc, h_slot_realloc, h_slot_free, NULL};
MIR_alloc_t MIR_get_alloc (MIR_context_t ctx) { (void) ctx; return &h_alloc; }

static struct c2m_ctx h_ctx;
static struct c2mir_options h_options;
static struct node h_r, h_n1, h_n2;
static void *h_regmem_data[8];
static VARR (void_ptr_t) h_regmem = {0, 8, h_regmem_data, &h_alloc};

static cc_type h_cc (enum basic_type bt) {
  for (int i = 0; i < 12; i++)
    if (h_bt[i] == bt) return (cc_type) i;
  return CC_NTYPES;
}

void harness (void) {
  c2m_ctx_t c2m_ctx = &h_ctx;
  struct type t1, t2;
  struct expr e1, e2, *e;
  unsigned k1 = (unsigned) nd_below (12), k2 = (unsigned) nd_below (12);
  uint64_t a = nd (), b = nd (), want, got;
  cc_type rt;
  cc_const ca = {(int64_t) a, a, 0}, cb = {(int64_t) b, b, 0};
#ifdef H_T1 /* operand types concrete (multiplier / divider obligations: the conversions then constant-fold) */
  k1 = H_T1;
#endif
#ifdef H_T2
  k2 = H_T2;
#endif
  H_ASSUME (cc_value_of_type ((cc_type) k1, ca) && cc_value_of_type ((cc_type) k2, cb));
  c2m_options = &h_options; /* message_file NULL: diagnostics are dropped (division by zero is assumed away below) */
  reg_memory = &h_regmem; /* macro of c2mir.c: c2m_ctx->reg_memory */
  init_type (&t1); t1.mode = TM_BASIC; t1.u.basic_type = h_bt[k1];
  init_type (&t2); t2.mode = TM_BASIC; t2.u.basic_type = h_bt[k2];
  memset (&e1, 0, sizeof (e1)); memset (&e2, 0, sizeof (e2));
  e1.const_p = e2.const_p = TRUE;
  e1.type = &t1; e2.type = &t2;
  e1.c.u_val = a; e2.c.u_val = b; /* i_val and u_val share storage: the pattern is the value extended to 64 bits */
  h_r.code = h_codes[H_OP];
  h_n1.code = h_n2.code = N_I; h_n1.attr = &e1; h_n2.attr = &e2;
  if (!cf_fold ((enum cf_op) (H_OP), (cc_type) k1, a, (cc_type) k2, b, &rt, &want)) {
#if H_OP >= 3 && !defined(H_T1) /* & | ^ are defined for all operands; with concrete operand types so may be * / % */
    H_WITNESS ("undefined in C");
#endif
    return;
  }
  e = check_assign_op (c2m_ctx, &h_r, &e1, &e2, &t1, &t2);
  H_ASSERT (e != NULL && e->const_p, "an operator on two integer constants folds to a constant");
  H_ASSERT (e->type->mode == TM_BASIC && h_cc (e->type->u.basic_type) == rt, "folded constant: type as C11 6.3.1.8 / 6.5.7p3 gives the expression");
  convert_value (e, e->type); /* how every consumer reads it */
  got = e->c.u_val;
  H_ASSERT (got == want, "folded constant: value as C defines it for the operand values (in the result type)");
#ifndef H_T1
  if (cc_signed (rt)) H_WITNESS ("signed result"); else H_WITNESS ("unsigned result");
#endif
  H_WITNESS ("end");
}
