/* C07 / conversion kernel of c2mir: the real `integer_promotion`, `arithmetic_conversion` and `cast_value`
   (c2mir/c2mir.c) against ref/cconv_ref.h (C11 6.3.1.x on the x86-64 LP64 data model).
     H_MODE 1  integer_promotion (t)          for every integer type t (15 basic types, enum types with every
                                              underlying type c2mir can choose, incomplete enum)
     H_MODE 2  arithmetic_conversion (t1,t2)  for every pair of arithmetic types (same type universe)
     -DH_EXCLUDE_LLUL (mode 2) / -DH_EXCLUDE_BOOL (mode 3): assume away exactly the recorded findings
     H_MODE 3  cast_value                     constant of type H_FROM (concrete, -DH_FROM=<cc_type>) with any value of
                                              that type -> every target type (symbolic), also through enum types
   Types are hand-built `struct type` objects (TM_BASIC / TM_ENUM with a tag node carrying `struct enum_type`);
   nothing else of the c2mir context is touched by these functions. */
#include "h.h"
#include "c2mir/c2mir.c"
#include "cconv_ref.h"

#ifndef H_MODE
#define H_MODE 1
#endif

static const enum basic_type h_bt[CC_NTYPES] = {
  [CC_BOOL] = TP_BOOL, [CC_CHAR] = TP_CHAR, [CC_SCHAR] = TP_SCHAR, [CC_UCHAR] = TP_UCHAR, [CC_SHORT] = TP_SHORT,
  [CC_USHORT] = TP_USHORT, [CC_INT] = TP_INT, [CC_UINT] = TP_UINT, [CC_LONG] = TP_LONG, [CC_ULONG] = TP_ULONG,
  [CC_LLONG] = TP_LLONG, [CC_ULLONG] = TP_ULLONG, [CC_FLOAT] = TP_FLOAT, [CC_DOUBLE] = TP_DOUBLE,
  [CC_LDOUBLE] = TP_LDOUBLE};

static cc_type h_cc (enum basic_type bt) { /* inverse of h_bt; CC_NTYPES if not an arithmetic basic type */
  for (int i = 0; i < CC_NTYPES; i++)
    if (h_bt[i] == bt) return (cc_type) i;
  return CC_NTYPES;
}

static struct node h_tag[2];
static struct enum_type h_et[2];

/* A type: k < 15 basic type k; k = 15..20 enum with underlying type int, unsigned, long, unsigned long, long long,
   unsigned long long (what c2mir's enum processing can choose); k = 21 enum without definition (attr NULL: int).
   *cc = the C type it behaves as in conversions (an enumerated type is compatible with its underlying type). */
#define H_NT 22
static void h_mk_type (struct type *t, int slot, unsigned k, cc_type *cc) {
  static const cc_type under[7] = {CC_INT, CC_UINT, CC_LONG, CC_ULONG, CC_LLONG, CC_ULLONG, CC_INT};
  init_type (t);
  if (k < CC_NTYPES) {
    t->mode = TM_BASIC;
    t->u.basic_type = h_bt[k];
    *cc = (cc_type) k;
  } else {
    t->mode = TM_ENUM;
    h_tag[slot].code = N_ENUM;
    h_et[slot].enum_basic_type = h_bt[under[k - CC_NTYPES]];
    h_tag[slot].attr = k == H_NT - 1 ? NULL : &h_et[slot];
    t->u.tag_type = &h_tag[slot];
    *cc = under[k - CC_NTYPES];
  }
}

void harness (void) {
  struct type t1, t2, r;
  cc_type c1, c2;
#if H_MODE == 1
  unsigned k1 = (unsigned) nd_below (H_NT);
  H_ASSUME (k1 < CC_FLOAT || k1 >= CC_NTYPES); /* integer types */
  h_mk_type (&t1, 0, k1, &c1);
  r = integer_promotion (&t1);
  H_ASSERT (r.mode == TM_BASIC, "integer_promotion yields a basic type");
  H_ASSERT (h_cc (r.u.basic_type) == cc_promote (c1), "integer promotion as C11 6.3.1.1p2");
  (void) t2; (void) c2;
#elif H_MODE == 2
  unsigned k1 = (unsigned) nd_below (H_NT), k2 = (unsigned) nd_below (H_NT);
  h_mk_type (&t1, 0, k1, &c1);
  h_mk_type (&t2, 1, k2, &c2);
#ifdef H_EXCLUDE_LLUL /* the recorded finding: long long with unsigned long */
  H_ASSUME (!((c1 == CC_LLONG && c2 == CC_ULONG) || (c1 == CC_ULONG && c2 == CC_LLONG)));
#endif
  r = arithmetic_conversion (&t1, &t2);
  H_ASSERT (r.mode == TM_BASIC, "arithmetic_conversion yields a basic type");
  H_ASSERT (h_cc (r.u.basic_type) == cc_usual (c1, c2), "usual arithmetic conversions as C11 6.3.1.8p1");
#else
  struct expr from_e, to_e;
  cc_const in = {0, 0, 0}, exp;
  unsigned kf = (unsigned) nd (), kt = (unsigned) nd_below (H_NT);
  /* source: the basic type H_FROM or an enum type with that underlying type */
  H_ASSUME (kf == H_FROM || (kf >= CC_NTYPES && kf < H_NT));
  h_mk_type (&t1, 0, kf, &c1);
  H_ASSUME (c1 == (cc_type) (H_FROM));
  h_mk_type (&t2, 1, kt, &c2);
  memset (&from_e, 0, sizeof (from_e));
  memset (&to_e, 0, sizeof (to_e));
  from_e.const_p = to_e.const_p = TRUE;
  from_e.type = &t1;
  to_e.type = &t2;
#if H_FROM >= 12 /* CC_FLOAT.. */
#if H_FROM == 12
  in.d = (long double) nd_float ();
#elif H_FROM == 13
  in.d = (long double) nd_double ();
#else
  { /* any bit pattern of the 16-byte object.  Natively (x87 extended: 64-bit significand with explicit integer bit,
       15-bit exponent, sign, 6 padding bytes) only canonical encodings are values; CBMC models long double as a
       128-bit IEEE format - the obligation is then decided for CBMC's format (see props/C07.py, assumptions). */
    union { long double d; uint64_t w[2]; } x;
    x.w[0] = nd ();
    x.w[1] = nd ();
#ifdef REPLAY
    H_ASSUME ((x.w[1] & 0x7fff) == 0 ? (x.w[0] >> 63) == 0 : (x.w[0] >> 63) == 1);
#endif
    in.d = x.d;
  }
#endif
  from_e.c.d_val = in.d;
#else
  {
    uint64_t v = nd ();
    in.i = (int64_t) v;
    in.u = v;
    if (cc_signed ((cc_type) (H_FROM))) from_e.c.i_val = in.i; else from_e.c.u_val = in.u;
  }
#endif
  H_ASSUME (cc_value_of_type ((cc_type) (H_FROM), in));

  cast_value (&to_e, &from_e, &t2);

  if (!cc_cast ((cc_type) (H_FROM), c2, in, &exp)) {
#if H_FROM >= 12
    H_WITNESS ("undefined conversion (floating value out of the range of the integer type)");
#endif
  } else if (cc_floating (c2)) {
    H_ASSERT (to_e.c.d_val == exp.d || (to_e.c.d_val != to_e.c.d_val && exp.d != exp.d),
              "cast_value: floating result as the C cast");
    H_WITNESS ("floating target");
  } else if (cc_signed (c2)) {
    H_ASSERT (to_e.c.i_val == exp.i, "cast_value: signed integer result as the C cast (sign-extended to 64 bits)");
    H_WITNESS ("signed target");
  } else if (c2 == CC_BOOL) {
#ifdef H_EXCLUDE_BOOL
    H_ASSUME (0);
#else
    H_ASSERT (to_e.c.u_val == exp.u, "cast_value: _Bool result is 0 iff the value compares equal to 0 (C11 6.3.1.2)");
    H_WITNESS ("_Bool target");
#endif
  } else {
    H_ASSERT (to_e.c.u_val == exp.u, "cast_value: unsigned integer result as the C cast (zero-extended to 64 bits)");
    H_WITNESS ("unsigned target");
  }
  (void) r;
#endif
  H_WITNESS ("end");
}
