/* C17 / code memory: the real code-holder functions of mir.c (get_last_code_holder, add_code,
   _MIR_publish_code, _MIR_publish_code_by_addr, _MIR_change_code, _MIR_update_code_arr, _MIR_set_code,
   code_finish) under a CHECKING MIR_code_alloc_t:
     - mem_map hands out page-aligned regions of a harness arena (pages start read/exec),
     - mem_protect records which pages are writable,
     - every memcpy into the arena is observed (H_MEMCPY_HOOK): all destination bytes must lie in a mapped
       holder on pages that are writable at that moment,
     - when an operation returns no page may be left writable (each write-enable is followed by an exec-enable
       over the same range),
     - published regions are 16-aligned, inside a holder, and pairwise disjoint,
     - code_finish unmaps every holder exactly once with its mapped length and returns the VARR / ctx blocks.
   History: <= H_NOPS operations with symbolic lengths / offsets / addresses.  Page size 64 (set directly in the
   machine_code_ctx; the real value comes from sysconf), arena of H_PAGES pages. */
#define MIR_NO_INTERP 1
#define MIR_NO_IO 1
#define MIR_NO_SCAN 1
#define H_SLOT_ALLOC 1
#define H_SLOT_CAP 256
#define H_SLOT_MAX 6
static int h_memcpy_hook (void *d, const void *s, unsigned long n);
#define H_MEMCPY_HOOK h_memcpy_hook
#include "h.h"
#include "mini_mir_pre.h"
#if H_CBMC
void __builtin___clear_cache (void *a, void *b) { (void) a; (void) b; } /* no body in CBMC's library: flagged and crashes cbmc 6.11 */
#endif
#include "mir.c"
#include "mini_mir.h"

#ifndef H_NOPS
#define H_NOPS 3
#endif
#ifndef H_PSZ
#define H_PSZ 64 /* -DH_PSZ=32: a 48-byte region straddles a page boundary already in a one-holder history */
#endif
#ifndef H_PAGES
#define H_PAGES 6
#endif
/* Code memory is an INTEGER address range (symbolic object addresses make the page arithmetic
   `addr / page_size * page_size` and the 16-byte alignment intractable); the bytes live in a shadow array that
   only the observed memcpy writes.  The library itself touches code memory through memcpy only (_MIR_set_code). */
#define h_arena ((uint8_t *) (uintptr_t) 0x10000000ul)
#define H_ARENA_SIZE (H_PAGES * H_PSZ)
static uint8_t h_shadow[H_ARENA_SIZE];
static int h_page_mapped[H_PAGES], h_page_writable[H_PAGES];
static struct { size_t start_page, npages; int live; } h_maps[H_PAGES];
static int h_nmaps, h_next_page, h_calloc_errors, h_unmap_errors, h_write_errors, h_bytes_written;

static size_t h_a2off (void *p) { return (size_t) ((uintptr_t) p - (uintptr_t) h_arena); }
static int h_in_arena (void *p, size_t n) {
  uintptr_t a = (uintptr_t) p, b = (uintptr_t) h_arena;
  return a >= b && a - b <= H_ARENA_SIZE && n <= H_ARENA_SIZE - (a - b);
}
static void *h_mem_map (size_t len, void *ud) {
  (void) ud;
  if (len == 0 || len % H_PSZ != 0) h_calloc_errors++; /* library must ask for whole pages */
  size_t np = len / H_PSZ;
  H_ASSUME (h_next_page + np <= H_PAGES); /* stated bound: arena size */
  void *res = h_arena + (size_t) h_next_page * H_PSZ;
  h_maps[h_nmaps].start_page = (size_t) h_next_page; h_maps[h_nmaps].npages = np; h_maps[h_nmaps].live = 1; h_nmaps++;
  for (size_t i = 0; i < H_PAGES; i++) if (i >= (size_t) h_next_page && i < h_next_page + np) { h_page_mapped[i] = 1; h_page_writable[i] = 0; }
  h_next_page += (int) np;
  return res;
}
static int h_mem_unmap (void *addr, size_t len, void *ud) {
  (void) ud;
  int found = 0;
  for (int i = 0; i < H_PAGES; i++)
    if (i < h_nmaps && h_maps[i].live && h_arena + h_maps[i].start_page * H_PSZ == (uint8_t *) addr && h_maps[i].npages * H_PSZ == len) {
      h_maps[i].live = 0; found = 1;
      for (size_t p = 0; p < H_PAGES; p++) if (p >= h_maps[i].start_page && p < h_maps[i].start_page + h_maps[i].npages) h_page_mapped[p] = 0;
    }
  if (!found) h_unmap_errors++;
  return 0;
}
static int h_mem_protect (void *addr, size_t len, MIR_mem_protect_t prot, void *ud) {
  (void) ud;
  if (!h_in_arena (addr, len) || h_a2off (addr) % H_PSZ != 0) { h_write_errors++; return -1; }
  size_t first = h_a2off (addr) / H_PSZ, last = (h_a2off (addr) + len + H_PSZ - 1) / H_PSZ;
  for (size_t p = 0; p < H_PAGES; p++)
    if (p >= first && p < last) {
      if (!h_page_mapped[p]) h_write_errors++;
      h_page_writable[p] = prot == PROT_WRITE_EXEC;
    }
  return 0;
}
static int h_memcpy_hook (void *d, const void *src, unsigned long n) {
  if (!h_in_arena (d, 0)) return 0; /* copies elsewhere (VARR growth etc.) are not code writes */
  if (n == 0) return 1;
  if (!h_in_arena (d, n)) { h_write_errors++; return 1; }
  size_t off = h_a2off (d), first = off / H_PSZ, last = (off + n - 1) / H_PSZ;
  for (size_t p = 0; p < H_PAGES; p++)
    if (p >= first && p <= last && !(h_page_mapped[p] && h_page_writable[p])) h_write_errors++;
  for (size_t i = 0; i < 48; i++) if (i < n) h_shadow[off + i] = ((const uint8_t *) src)[i];
  if (n > 48) h_write_errors++; /* no operation of this harness writes more */
  h_bytes_written += (int) n;
  return 1;
}
static int h_no_page_writable (void) {
  for (int p = 0; p < H_PAGES; p++) if (h_page_writable[p]) return 0;
  return 1;
}
static struct MIR_code_alloc h_code_alloc = {h_mem_map, h_mem_unmap, h_mem_protect, NULL};

static uint8_t h_code[48];
static struct { uint8_t *addr; size_t len; } h_pub[H_NOPS];
static int h_npub;

void harness (void) {
  MIR_context_t ctx = &h_mini_ctx_obj;
  ctx->alloc = &h_alloc;
  ctx->code_alloc = &h_code_alloc;
  error_func = h_mini_error;
  /* code_init with a small page size */
  ctx->machine_code_ctx = MIR_malloc (ctx->alloc, sizeof (struct machine_code_ctx));
  page_size = H_PSZ;
  VARR_CREATE (code_holder_t, code_holders, ctx->alloc, 4);
  for (int k = 0; k < 48; k += 8) { uint64_t w = nd (); memcpy (h_code + k, &w, 8); }
#ifdef H_OPSEQ /* operation kinds fixed by the driver (configuration), lengths / offsets / addresses symbolic */
  static const unsigned h_opseq[H_NOPS] = {H_OPSEQ};
  unsigned nops = H_NOPS;
  (void) nd ();
#else
  unsigned nops = (unsigned) nd_below (H_NOPS + 1);
#endif
  for (unsigned i = 0; i < H_NOPS; i++) {
    if (i >= nops) break;
#ifdef H_OPSEQ
    unsigned op = h_opseq[i];
    (void) nd ();
#else
    unsigned op = (unsigned) nd_below (4);
#endif
    size_t len = nd_below (49);
    if (op == 0) { /* publish */
      uint8_t *res = _MIR_publish_code (ctx, h_code, len);
      H_ASSERT (res != NULL, "publish returns a region (mapping cannot fail here)");
      H_ASSERT (h_in_arena (res, len) && (uintptr_t) res % 16 == 0, "published region is inside the arena and 16-aligned");
      for (size_t b = 0; b < 48; b++) if (b < len) H_ASSERT (h_shadow[h_a2off (res) + b] == h_code[b], "published bytes equal the code given");
      for (int j = 0; j < H_NOPS; j++) if (j < h_npub && len != 0 && h_pub[j].len != 0)
        H_ASSERT (res >= h_pub[j].addr + h_pub[j].len || res + len <= h_pub[j].addr, "published regions never overlap");
      h_pub[h_npub].addr = res; h_pub[h_npub].len = len; h_npub++;
#ifndef H_OPSEQ
      H_WITNESS ("publish");
#endif
    } else if (op == 1) { /* publish by address: only succeeds at the current free position */
      uint8_t *want = _MIR_get_new_code_addr (ctx, len);
      int exact = nd_bool ();
      uint8_t *addr = exact ? want : want + 1 + nd_below (16);
      uint8_t *res = _MIR_publish_code_by_addr (ctx, addr, h_code, len);
      if (res != NULL) {
        H_ASSERT (res == addr && exact, "publish_by_addr succeeds only at the address it was asked for, which must be the free position");
        for (int j = 0; j < H_NOPS; j++) if (j < h_npub && len != 0 && h_pub[j].len != 0)
          H_ASSERT (res >= h_pub[j].addr + h_pub[j].len || res + len <= h_pub[j].addr, "published regions never overlap");
        h_pub[h_npub].addr = res; h_pub[h_npub].len = len; h_npub++;
#ifndef H_OPSEQ
        H_WITNESS ("publish by addr");
#endif
      }
    } else if (op == 2) { /* change code inside an already published region */
      H_ASSUME (h_npub > 0);
      int j = (int) nd_below (H_NOPS); H_ASSUME (j < h_npub && h_pub[j].len > 0);
      size_t off = nd_below (48); H_ASSUME (off < h_pub[j].len && len >= 1 && off + len <= h_pub[j].len);
      _MIR_change_code (ctx, h_pub[j].addr + off, h_code, len);
      for (size_t b = 0; b < 48; b++) if (b < len) H_ASSERT (h_shadow[h_a2off (h_pub[j].addr) + off + b] == h_code[b], "changed bytes equal the code given");
#if H_NOPS >= 2 && !defined(H_OPSEQ)
      H_WITNESS ("change");
#endif
    } else { /* update 1-2 pointer-sized locations */
      H_ASSUME (h_npub > 0);
      int j = (int) nd_below (H_NOPS); H_ASSUME (j < h_npub && h_pub[j].len >= 16);
      MIR_code_reloc_t rel[2];
      size_t nloc = 1 + nd_below (2);
      rel[0].offset = nd_below (48); rel[0].value = (void *) (uintptr_t) nd ();
      rel[1].offset = nd_below (48); rel[1].value = (void *) (uintptr_t) nd ();
      H_ASSUME (rel[0].offset + 8 <= h_pub[j].len && rel[1].offset + 8 <= h_pub[j].len);
      _MIR_update_code_arr (ctx, h_pub[j].addr, nloc, rel);
      { void *v; memcpy (&v, &h_shadow[h_a2off (h_pub[j].addr) + rel[nloc - 1].offset], 8); H_ASSERT (v == rel[nloc - 1].value, "updated location holds the value"); }
#if H_NOPS >= 2 && !defined(H_OPSEQ)
      H_WITNESS ("update");
#endif
    }
    H_ASSERT (h_write_errors == 0, "every byte written lies in a mapped holder on a page that is writable at that moment");
    H_ASSERT (h_no_page_writable (), "every write-enable is followed by an exec-enable over the same range before the operation returns");
    H_ASSERT (h_calloc_errors == 0, "holders are mapped in whole pages");
  }
  code_finish (ctx);
  for (int i = 0; i < H_PAGES; i++) if (i < h_nmaps) H_ASSERT (!h_maps[i].live, "code_finish unmaps every holder");
  H_ASSERT (h_unmap_errors == 0, "each holder is unmapped once, with its mapped start and length");
  H_ASSERT (h_alloc_errors == 0 && h_ledger_live () == 0, "the holder array is returned to the allocator (no double free, true old sizes)");
  H_EXPECT_NO_ERROR_HERE ();
  H_WITNESS ("end");
}
