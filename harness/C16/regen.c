/* C16 / repeatability: MIR_gen on a function whose code has ALREADY been generated (the real generate_func_code of
   mir-gen.c, early-exit path).  A first generation returns func_item->addr (the function's thunk) after redirecting the
   thunk to the machine code; generating again must give the same answer and leave everything as it is:
   the same address is returned, the thunk is (re)directed to the recorded call address, the MIR is not touched
   (no duplication, insn list / original_insns / data as before), machine_code and call_addr unchanged.
   State constructed directly: the context word holding the gen_ctx pointer, one function item with symbolic
   addresses.  Stub: _MIR_redirect_thunk (machine code writer of mir-x86_64.c, C03's subject) records its arguments. */
#define MIR_NO_INTERP 1
#define MIR_NO_IO 1
#define MIR_NO_SCAN 1
#include "h.h"
#include <sys/time.h>
#if H_CBMC /* real_usec_time (real-time.h): the clock is an arbitrary value */
static int h_gettimeofday (struct timeval *tv) { tv->tv_sec = (long) nd (); tv->tv_usec = (long) nd (); return 0; }
#define gettimeofday(tv, tz) h_gettimeofday (tv)
#endif
#include "mir-gen.c"

static void *h_rt_thunk, *h_rt_to;
static int h_rt_calls;
void _MIR_redirect_thunk (MIR_context_t ctx, void *thunk, void *to) { (void) ctx; h_rt_thunk = thunk; h_rt_to = to; h_rt_calls++; }

static struct gen_ctx h_gen;
static gen_ctx_t h_ctx_word; /* gen_ctx_loc (ctx) is the first word of the context */
static struct MIR_item h_item;
static struct MIR_func h_func;
static struct MIR_insn h_insn;

void harness (void) {
  MIR_context_t ctx = (MIR_context_t) &h_ctx_word;
  static uint8_t h_code[16];
  /* machine_code is the address of an object: concretely non-NULL, so that symbolic execution does not enter the generating path
     (the whole pipeline) behind an assumption it cannot fold */
  void *addr = (void *) (uintptr_t) nd (), *code = h_code, *call = (void *) (uintptr_t) nd (), *r1, *r2;
  H_ASSUME (addr != NULL && call != NULL);
  h_ctx_word = &h_gen;
  h_gen.ctx = ctx;
  /* item->data: NULL after generation; the interpreter attaches its func_desc there when the function is interpreted afterwards
     (C16: a generated function "can afterwards be interpreted") - asking again for the code must still work */
  static uint64_t h_interp_desc[4];
  void *data = nd_bool () ? (void *) h_interp_desc : NULL;
  h_item.item_type = MIR_func_item; h_item.u.func = &h_func; h_item.addr = addr; h_item.data = data;
  h_func.func_item = &h_item; h_func.name = "f"; h_func.machine_code = code; h_func.call_addr = call;
  h_insn.code = MIR_RET; h_insn.nops = 0;
  DLIST_INIT (MIR_insn_t, h_func.insns);
  DLIST_INIT (MIR_insn_t, h_func.original_insns);
  DLIST_APPEND (MIR_insn_t, h_func.insns, &h_insn);
  r1 = MIR_gen (ctx, &h_item);
  H_ASSERT (r1 == addr, "generating an already generated function returns the function's address (its thunk), as the first generation did");
  /* whether the thunk is redirected again is the implementation's business (it already points there); if it is, then to the recorded address */
  H_ASSERT (h_rt_calls == 0 || (h_rt_thunk == addr && h_rt_to == call), "a redirection of the function's thunk goes to the recorded call address");
  r2 = MIR_gen (ctx, &h_item);
  H_ASSERT (r2 == r1, "repeated generation gives the same address");
  H_ASSERT (DLIST_HEAD (MIR_insn_t, h_func.insns) == &h_insn && DLIST_TAIL (MIR_insn_t, h_func.insns) == &h_insn
              && DLIST_HEAD (MIR_insn_t, h_func.original_insns) == NULL && h_item.data == data,
            "the MIR of the function is untouched (no working copy left, item data as it was)");
  if (data != NULL) H_WITNESS ("generated, interpreted, generated again");
  H_ASSERT (h_func.machine_code == code && h_func.call_addr == call && h_item.addr == addr, "recorded code addresses unchanged");
  H_WITNESS ("end");
}
