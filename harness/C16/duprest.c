/* C16 (claimed part, see DESIGN.md): the copy/restore protocol that lets the generator work on a private copy.
   Real code: _MIR_duplicate_func_insns, store_labels_for_duplication, redirect_duplicated_labels, MIR_copy_insn,
   _MIR_restore_func_insns, MIR_remove_insn, MIR_insert_insn_before/after, DLIST, _MIR_new_temp_reg / new_temp_reg,
   MIR_new_func_reg / create_func_reg, find_rd_by_name, find_rd_by_reg.

   A function of 1..H_NI insns of symbolic shape {label, jmp, bt, switch over two labels, laddr, add} with up to two
   lref items; between duplicate and restore an ARBITRARY generator is played on the working list: up to H_NG
   operations from {delete, insert, rewrite an operand, retarget a label operand} and up to H_NT temporary registers
   of arbitrary types.  After restore the function must be exactly what it was; a second cycle must behave the same.

   CBMC mode: context / function / registers / string table are CONSTRUCTED DIRECTLY as static data; the insns are
   blocks from the slot allocator (typed 8-byte cells) filled in directly.  REPLAY mode: real MIR_init + API. */
#define H_NO_LEDGER
#define H_ERROR_PATH_WITNESS /* the final lookup of a dead temporary must reach the error callback */
#define H_SLOT_ALLOC
#ifndef H_SLOT_CAP
#define H_SLOT_CAP 176
#endif
#include "h.h"
#include "mini_mir_pre.h"
#if H_CBMC
#include <stdarg.h>
/* mir.c formats the names of temporary registers with sprintf (reg_name, "%s%d", "t", n): %s and %d are enough */
int sprintf (char *s, const char *fmt, ...) {
  va_list ap;
  int k = 0;
  va_start (ap, fmt);
  for (int i = 0; fmt[i] != 0; i++) {
    if (fmt[i] != '%') { s[k++] = fmt[i]; continue; }
    i++;
    if (fmt[i] == 's') {
      const char *a = va_arg (ap, const char *);
      for (int j = 0; a[j] != 0; j++) s[k++] = a[j];
    } else { /* %d of a small non-negative number */
      int d = va_arg (ap, int);
      char tmp[4];
      int n = 0;
      __CPROVER_assume (d >= 0 && d < 1000);
      do { tmp[n++] = (char) ('0' + d % 10); d /= 10; } while (d != 0);
      while (n > 0) s[k++] = tmp[--n];
    }
  }
  va_end (ap);
  s[k] = 0;
  return k;
}
#endif
#include "mir.c"
#include "mini_mir.h"

#ifndef H_NI
#define H_NI 4 /* max insns */
#endif
#ifndef H_NG
#define H_NG 2 /* max generator operations per cycle */
#endif
#ifndef H_NT
#define H_NT 2 /* max temporary registers per cycle */
#endif
#define H_MAXOPS 3
#define H_INSN_BYTES (sizeof (struct MIR_insn) + (H_MAXOPS - 1) * sizeof (MIR_op_t))
#define H_INSN_CELLS (H_INSN_BYTES / 8)

enum { H_REG_A = 1, H_REG_B = 2, H_REG_F = 3 };
enum { HS_LABEL, HS_JMP, HS_BT, HS_SWITCH, HS_LADDR, HS_ADD, HS_BOUND };

static MIR_context_t h_ctx;
static MIR_item_t h_func_item;
static MIR_func_t h_func;

#if H_CBMC
static struct MIR_context h_ctx_obj;
static struct MIR_module h_module = {NULL, "m", {NULL, NULL}, {NULL, NULL}, 0};
static MIR_var_t h_vars_data[16] = {{MIR_T_I64, "a", 0}, {MIR_T_I64, "b", 0}, {MIR_T_F, "f", 0}};
static VARR (MIR_var_t) h_vars_varr = {3, 16, h_vars_data, &h_alloc};
static struct func_regs h_func_regs;
#ifdef H_GLOBAL /* the function also has one global variable g tied to hard register r12 (register number 4, as new_func_reg numbers it) */
static MIR_var_t h_gvars_data[8] = {{MIR_T_I64, "g", 0}};
static VARR (MIR_var_t) h_gvars_varr = {1, 8, h_gvars_data, &h_alloc};
static reg_desc_t h_rd_data[24] = {{MIR_T_I64, 0, NULL, NULL}, {MIR_T_I64, H_REG_A, "a", NULL}, {MIR_T_I64, H_REG_B, "b", NULL}, {MIR_T_F, H_REG_F, "f", NULL}, {MIR_T_I64, 4, "g", "r12"}};
static VARR (reg_desc_t) h_rd_varr = {5, 24, h_rd_data, &h_alloc};
static HTAB (size_t) h_name2rdn = {4, 4, 0, &h_func_regs, name2rdn_eq, NULL, &h_alloc, {1, 1, 1, 1}, {1, 2, 3, 4}};
static HTAB (size_t) h_hrn2rdn = {1, 1, 0, &h_func_regs, hrn2rdn_eq, NULL, &h_alloc, {1}, {4}};
static HTAB (size_t) h_reg2rdn = {4, 4, 0, &h_func_regs, reg2rdn_eq, NULL, &h_alloc, {1, 1, 1, 1}, {1, 2, 3, 4}};
#else
static reg_desc_t h_rd_data[24] = {{MIR_T_I64, 0, NULL, NULL}, {MIR_T_I64, H_REG_A, "a", NULL}, {MIR_T_I64, H_REG_B, "b", NULL}, {MIR_T_F, H_REG_F, "f", NULL}};
static VARR (reg_desc_t) h_rd_varr = {4, 24, h_rd_data, &h_alloc};
static HTAB (size_t) h_name2rdn = {3, 3, 0, &h_func_regs, name2rdn_eq, NULL, &h_alloc, {1, 1, 1}, {1, 2, 3}};
static HTAB (size_t) h_hrn2rdn = {0, 0, 0, &h_func_regs, hrn2rdn_eq, NULL, &h_alloc, {0}, {0}};
static HTAB (size_t) h_reg2rdn = {3, 3, 0, &h_func_regs, reg2rdn_eq, NULL, &h_alloc, {1, 1, 1}, {1, 2, 3}};
#endif
static struct func_regs h_func_regs = {&h_rd_varr, &h_name2rdn, &h_hrn2rdn, &h_reg2rdn};
static struct MIR_item h_func_item_obj;
static MIR_type_t h_res_types[1] = {MIR_T_I64};
static struct MIR_func h_func_obj = {.name = "fn", .func_item = &h_func_item_obj, .nres = 0, .nargs = 1,
                                     .res_types = h_res_types, .vars = &h_vars_varr, .internal = &h_func_regs,
#ifdef H_GLOBAL
                                     .global_vars = &h_gvars_varr,
#endif
};
static struct MIR_item h_func_item_obj = {.module = &h_module, .item_type = MIR_func_item, .u = {.func = &h_func_obj}};
/* string table: the register names and the temporary names the generator can create are interned already */
#define H_S(n, s) {n, {sizeof (s), s}}
static string_t h_str_data[16] = {{0, {0, NULL}}, H_S (1, "a"), H_S (2, "b"), H_S (3, "f"), H_S (4, "t1"), H_S (5, "t2"),
                                  H_S (6, "t3"), H_S (7, "t4"), H_S (8, "t5"), H_S (9, "t6"), H_S (10, "t7"), H_S (11, "t8")};
static VARR (string_t) h_str_varr = {12, 16, h_str_data, &h_alloc};
static HTAB (string_t) h_str_tab = {11, 11, 0, NULL, str_eq, NULL, &h_alloc, {1, 1, 1, 1, 1, 1, 1, 1, 1, 1, 1},
                                    {H_S (1, "a"), H_S (2, "b"), H_S (3, "f"), H_S (4, "t1"), H_S (5, "t2"), H_S (6, "t3"),
                                     H_S (7, "t4"), H_S (8, "t5"), H_S (9, "t6"), H_S (10, "t7"), H_S (11, "t8")}};
static struct string_ctx h_string_ctx = {&h_str_varr, &h_str_tab};
#endif

static void h_state (void) {
#if H_CBMC
  MIR_context_t ctx = h_ctx = &h_ctx_obj;
  ctx->alloc = &h_alloc;
  error_func = h_mini_error;
  ctx->string_ctx = &h_string_ctx;
  curr_module = &h_module;
  curr_func = NULL; /* the function is finished */
  curr_label_num = 100;
  h_func_item = &h_func_item_obj;
#else
  MIR_context_t ctx = h_ctx = MIR_init ();
  MIR_var_t arg = {MIR_T_I64, "a", 0};
  MIR_set_error_func (ctx, h_mini_error);
  MIR_new_module (ctx, "m");
  h_func_item = MIR_new_func_arr (ctx, "fn", 0, NULL, 1, &arg);
  H_ASSERT (MIR_new_func_reg (ctx, h_func_item->u.func, MIR_T_I64, "b") == H_REG_B, "replay state: reg b");
  H_ASSERT (MIR_new_func_reg (ctx, h_func_item->u.func, MIR_T_F, "f") == H_REG_F, "replay state: reg f");
#ifdef H_GLOBAL
  H_ASSERT (MIR_new_global_func_reg (ctx, h_func_item->u.func, MIR_T_I64, "g", "r12") == 4, "replay state: global reg g");
#endif
  curr_func = NULL; /* as after MIR_finish_func (which would append a ret and renumber nothing else) */
#endif
  h_func = h_func_item->u.func;
}

/* ---- the function under duplication: nodes built directly ---- */
static MIR_insn_t h_orig[H_NI];
static int h_shape[H_NI];
static int h_n;
static uint64_t h_snap[H_NI][H_INSN_CELLS];
static struct MIR_lref_data h_lref[2];
static MIR_insn_t h_lref_label[2], h_lref_label2[2];
static int h_nlref;

static MIR_insn_t h_alloc_insn (MIR_context_t ctx) {
  MIR_insn_t insn = MIR_malloc (ctx->alloc, H_INSN_BYTES);
  H_ASSUME (insn != NULL);
#ifdef REPLAY
  memset (insn, 0, H_INSN_BYTES);
#endif
  insn->data = NULL;
  return insn;
}

static MIR_insn_t h_nd_label (int n) { /* one of the label nodes of the function (there must be one) */
  int j = (int) nd_below ((uint64_t) n);
  H_ASSUME (h_shape[j] == HS_LABEL);
  return h_orig[j];
}

static void h_build_func (MIR_context_t ctx) {
#ifdef H_N_EXACT /* the number of insns is concrete per obligation (loops over the function constant-fold) */
  h_n = H_NI;
#else
  h_n = 1 + (int) nd_below (H_NI);
#endif
  for (int i = 0; i < H_NI; i++) h_shape[i] = i < h_n ? (int) nd_below (HS_BOUND) : -1;
  for (int i = 0; i < H_NI; i++)
    if (i < h_n) h_orig[i] = h_alloc_insn (ctx);
  for (int i = 0; i < H_NI; i++) {
    MIR_insn_t insn;
    if (i >= h_n) continue;
    insn = h_orig[i];
    switch (h_shape[i]) {
    case HS_LABEL: insn->code = MIR_LABEL; insn->nops = 0; insn->ops[0] = MIR_new_int_op (ctx, i + 1); break;
    case HS_JMP: insn->code = MIR_JMP; insn->nops = 1; insn->ops[0] = MIR_new_label_op (ctx, h_nd_label (h_n)); break;
    case HS_BT:
      insn->code = MIR_BT; insn->nops = 2;
      insn->ops[0] = MIR_new_label_op (ctx, h_nd_label (h_n)); insn->ops[1] = MIR_new_reg_op (ctx, H_REG_A);
      break;
    case HS_SWITCH:
      insn->code = MIR_SWITCH; insn->nops = 3;
      insn->ops[0] = MIR_new_reg_op (ctx, H_REG_A);
      insn->ops[1] = MIR_new_label_op (ctx, h_nd_label (h_n)); insn->ops[2] = MIR_new_label_op (ctx, h_nd_label (h_n));
      break;
    case HS_LADDR:
      insn->code = MIR_LADDR; insn->nops = 2;
      insn->ops[0] = MIR_new_reg_op (ctx, H_REG_B); insn->ops[1] = MIR_new_label_op (ctx, h_nd_label (h_n));
      break;
    default:
      insn->code = MIR_ADD; insn->nops = 3;
      insn->ops[0] = MIR_new_reg_op (ctx, H_REG_A); insn->ops[1] = MIR_new_reg_op (ctx, H_REG_A); insn->ops[2] = MIR_new_reg_op (ctx, H_REG_B);
      break;
    }
    MIR_append_insn (ctx, h_func_item, insn);
  }
  /* label reference items attached to the function (as load_module leaves them) */
  h_nlref = (int) nd_below (3);
  for (int k = 0; k < 2; k++) {
    if (k >= h_nlref) continue;
    h_lref_label[k] = h_nd_label (h_n);
    h_lref_label2[k] = nd_bool () ? h_nd_label (h_n) : NULL;
    h_lref[k].name = NULL; h_lref[k].label = h_lref_label[k]; h_lref[k].label2 = h_lref_label2[k];
    h_lref[k].orig_label = h_lref[k].orig_label2 = NULL; h_lref[k].disp = 0; h_lref[k].load_addr = NULL;
    h_lref[k].next = k + 1 < h_nlref ? &h_lref[k + 1] : NULL;
  }
  h_func->first_lref = h_nlref > 0 ? &h_lref[0] : NULL;
  for (int i = 0; i < H_NI; i++)
    if (i < h_n) memcpy (h_snap[i], h_orig[i], H_INSN_BYTES);
}

/* ---- the arbitrary generator on the working list ---- */
static MIR_reg_t h_temp[2 * H_NT + 1];
static int h_ntemp;

static MIR_insn_t h_work_el (int k) { return DLIST_EL (MIR_insn_t, h_func->insns, k); }

/* CBMC 6.11 pitfall (measured): `p->ops[i].u.label->field` in ONE expression on an untyped heap block reads a wrong
   union member; reading the pointer through a cast of the union's address first is exact.  Harness-side reads only. */
static MIR_insn_t h_op_label (MIR_insn_t insn, unsigned p) { return *(MIR_label_t *) &insn->ops[p].u; }

static int h_is_orig (MIR_insn_t insn) {
  for (int i = 0; i < H_NI; i++)
    if (i < h_n && insn == h_orig[i]) return 1;
  return 0;
}

static void h_generator (MIR_context_t ctx, int max_ops, int max_temps) {
  int nt = (int) nd_below ((uint64_t) max_temps + 1), ng = (int) nd_below ((uint64_t) max_ops + 1);
  for (int t = 0; t < max_temps; t++) {
    static const MIR_type_t types[4] = {MIR_T_I64, MIR_T_F, MIR_T_D, MIR_T_LD};
    if (t >= nt) continue;
    h_temp[h_ntemp++] = _MIR_new_temp_reg (ctx, types[nd_below (4)], h_func);
  }
  for (int g = 0; g < max_ops; g++) {
    int k, what;
    MIR_insn_t insn;
    if (g >= ng) continue;
    k = (int) nd_below (H_NI + H_NG);
    what = (int) nd_below (4);
    insn = h_work_el (k);
    H_ASSUME (insn != NULL);
    H_ASSERT (!h_is_orig (insn), "the working list does not contain original insns");
    switch (what) {
    case 0: MIR_remove_insn (ctx, h_func_item, insn); break; /* delete */
    case 1: { /* insert a new insn before or after */
      MIR_insn_t ni = h_alloc_insn (ctx);
      if (nd_bool ()) {
        ni->code = MIR_LABEL; ni->nops = 0; ni->ops[0] = MIR_new_int_op (ctx, 50 + g);
      } else {
        ni->code = MIR_ADD; ni->nops = 3;
        ni->ops[0] = MIR_new_reg_op (ctx, h_ntemp > 0 ? h_temp[0] : H_REG_A); ni->ops[1] = MIR_new_reg_op (ctx, H_REG_A); ni->ops[2] = MIR_new_int_op (ctx, 1);
      }
      if (nd_bool ()) MIR_insert_insn_before (ctx, h_func_item, insn, ni); else MIR_insert_insn_after (ctx, h_func_item, insn, ni);
      break;
    }
    case 2: { /* rewrite an operand */
      unsigned p = (unsigned) nd_below (H_MAXOPS);
      H_ASSUME (p < insn->nops && insn->ops[p].mode != MIR_OP_LABEL);
      insn->ops[p] = nd_bool () ? MIR_new_int_op (ctx, 7) : MIR_new_reg_op (ctx, h_ntemp > 0 ? h_temp[h_ntemp - 1] : H_REG_B);
      break;
    }
    default: { /* retarget a label operand to another insn of the working list */
      unsigned p = (unsigned) nd_below (H_MAXOPS);
      MIR_insn_t target = h_work_el ((int) nd_below (H_NI + H_NG));
      H_ASSUME (p < insn->nops && insn->ops[p].mode == MIR_OP_LABEL && target != NULL && target->code == MIR_LABEL);
      insn->ops[p].u.label = target;
      break;
    }
    }
  }
}

/* after duplication the working list is a disjoint copy whose label operands / lrefs point into the copy */
static void h_check_copy (void) {
  MIR_insn_t w = DLIST_HEAD (MIR_insn_t, h_func->insns), o = DLIST_HEAD (MIR_insn_t, h_func->original_insns);
  for (int i = 0; i < H_NI; i++) {
    if (i >= h_n) continue;
    H_ASSERT (o == h_orig[i], "original_insns is the original list");
    H_ASSERT (w != NULL && !h_is_orig (w) && w->code == o->code && w->nops == o->nops, "the working insn is a fresh copy of the original insn");
    for (unsigned p = 0; p < H_MAXOPS; p++)
      if (p < w->nops && w->ops[p].mode == MIR_OP_LABEL) {
        MIR_insn_t l = h_op_label (w, p);
        H_ASSERT (!h_is_orig (l) && l->code == MIR_LABEL, "label operands of the copy point to copied labels");
      }
    w = DLIST_NEXT (MIR_insn_t, w); o = DLIST_NEXT (MIR_insn_t, o);
  }
  H_ASSERT (w == NULL && o == NULL, "both lists have the original length");
  for (int k = 0; k < 2; k++)
    if (k < h_nlref) {
      H_ASSERT (!h_is_orig (h_lref[k].label) && h_lref[k].orig_label == h_lref_label[k], "lref points into the copy and remembers the original label");
      H_ASSERT ((h_lref_label2[k] == NULL) == (h_lref[k].label2 == NULL) && (h_lref[k].label2 == NULL || !h_is_orig (h_lref[k].label2)), "lref second label likewise");
    }
}

/* the function is exactly what it was before the cycle */
static void h_check_restored (MIR_context_t ctx, int first_temp) {
  /* every dereference below goes through h_orig[i] (a known block): CBMC 6.11 reads through pointers it has itself
     loaded from heap cells imprecisely (spurious values), see the note at h_op_label */
  H_ASSERT (DLIST_HEAD (MIR_insn_t, h_func->insns) == h_orig[0], "the insn list starts with the original first insn");
  for (int i = 0; i < H_NI; i++) {
    if (i >= h_n) continue;
    H_ASSERT (DLIST_PREV (MIR_insn_t, h_orig[i]) == (i == 0 ? NULL : h_orig[i - 1])
                && DLIST_NEXT (MIR_insn_t, h_orig[i]) == (i + 1 < h_n ? h_orig[i + 1] : NULL),
              "the insn list consists of the original nodes in the original order (links are the original ones)");
    for (unsigned c = 0; c < H_INSN_CELLS; c++)
      H_ASSERT (((uint64_t *) h_orig[i])[c] == h_snap[i][c], "every original insn is bit-identical (code, nops, operands, data, links)");
    if (i + 1 == h_n) H_ASSERT (DLIST_TAIL (MIR_insn_t, h_func->insns) == h_orig[i], "the list ends with the original last insn");
  }
  H_ASSERT (DLIST_HEAD (MIR_insn_t, h_func->original_insns) == NULL && DLIST_TAIL (MIR_insn_t, h_func->original_insns) == NULL, "original_insns is empty again");
  H_ASSERT (VARR_LENGTH (MIR_var_t, h_func->vars) == 3, "the variable array is back to its length (no generator-made local is left)");
#ifdef H_GLOBAL
  H_ASSERT (h_func->global_vars != NULL && VARR_LENGTH (MIR_var_t, h_func->global_vars) == 1 && MIR_reg (ctx, "g", h_func) == 4, "the global variable is untouched");
#endif
  H_ASSERT (VARR_GET (MIR_var_t, h_func->vars, 0).type == MIR_T_I64 && VARR_GET (MIR_var_t, h_func->vars, 2).type == MIR_T_F
              && strcmp (VARR_GET (MIR_var_t, h_func->vars, 1).name, "b") == 0, "the declared variables are untouched");
  for (int k = 0; k < 2; k++)
    if (k < h_nlref)
      H_ASSERT (h_lref[k].label == h_lref_label[k] && h_lref[k].label2 == h_lref_label2[k] && h_lref[k].orig_label == NULL && h_lref[k].orig_label2 == NULL
                  && h_lref[k].next == (k + 1 < h_nlref ? &h_lref[k + 1] : NULL) && h_func->first_lref == &h_lref[0], "lref labels are the original labels again");
  H_ASSERT (MIR_reg (ctx, "a", h_func) == H_REG_A && MIR_reg (ctx, "b", h_func) == H_REG_B && MIR_reg (ctx, "f", h_func) == H_REG_F
              && MIR_reg_type (ctx, H_REG_F, h_func) == MIR_T_F, "the declared registers are still found by name and number");
  for (int t = 0; t < 2 * H_NT; t++) /* by name: t1, t2, ... */
    if (t >= first_temp && t < h_ntemp) {
      char name[8];
      name[0] = 't'; name[1] = (char) ('1' + t); name[2] = 0;
      H_ASSERT (find_rd_by_name (ctx, name, h_func) == NULL, "a temporary register of the generator is no longer found by name");
    }
}

static void h_cycle (MIR_context_t ctx, int max_ops, int max_temps) {
  int first_temp = h_ntemp;
  _MIR_duplicate_func_insns (ctx, h_func_item);
#ifdef H_CHECK_COPY /* optional: needs reads through pointers loaded from heap cells, which CBMC 6.11 gets wrong (spurious) */
  h_check_copy ();
#endif
  h_generator (ctx, max_ops, max_temps);
  _MIR_restore_func_insns (ctx, h_func_item);
  h_check_restored (ctx, first_temp);
}

void harness (void) {
  MIR_context_t ctx;
  h_state ();
  ctx = h_ctx;
  h_build_func (ctx);
  H_WITNESS ("function built");
  h_cycle (ctx, H_NG, H_NT);
  H_WITNESS ("first cycle done");
#ifndef H_ONE_CYCLE
  h_cycle (ctx, 1, 1);
  H_WITNESS ("second cycle done");
#endif
  /* by number: every register number a temporary had is undeclared now (find_rd_by_reg reports through the error function) */
  {
    int t = (int) nd_below (2 * H_NT);
    H_ASSUME (t < h_ntemp);
    H_WITNESS ("end");
    h_err_expected = 1; h_err_code_expected = MIR_undeclared_func_reg_error;
    find_rd_by_reg (ctx, h_temp[t], h_func);
    H_EXPECT_NO_ERROR_HERE ();
  }
}
