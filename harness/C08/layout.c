/* C08: c2mir's data layout and by-value passing decisions against the System V x86-64 ABI.

   Code under test (real, from c2mir/c2mir.c and c2mir/x86_64/cx86_64-ABI-code.c, no c2mir_init):
     set_type_layout, update_field_layout, update_members_offset, aux_set_type_align, type_size,
     type_align, raw_type_size, incomplete_type_p, basic_type_size/align, get_enum_basic_type   (H_MODE 0)
     classify_arg, get_result_type, update_last_qword_type, process_ret_type, target_return_by_addr_p,
     process_aggregate_arg, get_blk_type, target_get_blk_type, get_mir_type                      (H_MODE 1)
   State: the harness builds exactly the graph these functions read, in the state check() leaves it in
   when a declaration `struct/union {...} x;` has been analysed and before create_decl lays the type out:
     struct type (mode, u, raw_size = MIR_SIZE_MAX, align = -1, unnamed_anon_struct_union_member_type_p),
     N_STRUCT/N_UNION node -> ops [id, N_LIST of N_MEMBER], N_MEMBER -> ops [specs, declarator, attrs,
     width] + attr = struct decl (decl_spec.type, offset 0, bit_offset -1,
     containing_unnamed_anon_struct_union_member), width node attr = struct expr {const_p, c.u_val},
     array: struct arr_type {el_type, size node with attr expr {const_p, c.i_val}},
     enum: N_ENUM node with attr = struct enum_type, pointer: ptr_type = a void type;
     c2m_ctx zeroed except check_ctx (curr_scope = NULL: not inside the aggregate being defined).
   Symbolic: the abstract description (sv_agg) the graph is built from, within the concrete shape below.
   Oracle: ref/sysv_ref.h (psABI + gcc bit-field rule; validated against gcc by ref/sysv_ref_selftest.py).

   The SHAPE of the declaration is concrete per obligation (symbolic execution must see where the recursion
   over types ends: a symbolic type->mode makes CBMC follow u.tag_type of a basic type), everything else
   is symbolic:
   -DH_N=n          number of members of the outer aggregate (1..4)
   -DH_SHAPE={..}   per outer member: 0 arithmetic type (which one: symbolic over the 15 basic types)  1 pointer
                    2 enum  3 nested struct  4 anonymous struct  5 nested union  6 anonymous union;
                    +8: array (length symbolic: 1..3, of nested aggregates 1..2)
   -DH_TOP=k        0 struct, 1 union (concrete: a symbolic struct/union mode is a symbolic type->mode)
   -DH_FEAT=mask    1: members of arithmetic/enum type may be bit-fields (symbolic: whether, width 0..bits,
                    named or not)   2: the first member of a nested/anonymous aggregate is an array
                    4: the LAST member of every nested/anonymous aggregate is itself an ANONYMOUS struct of two
                       arithmetic members (size classes -DH_KSUB2): second-level offsets (update_members_offset recursion)
   -DH_KCLS, -DH_KSUB, -DH_EXCL: see below
   -DH_NSUB=n       number of members of a nested/anonymous aggregate (default 2; arithmetic types, bit-fields allowed)
   -DH_MODE=m       0 layout; 1 passing (classification etc.), proved for the declarations whose layout agrees
   -DH_MAXSIZE=b    bound on sizeof of the outer aggregate (default 64)
   -DH_W_*          which reachability witnesses exist for the shape (computed by props/C08.py) */
#include "h.h"
#if H_CBMC
/* MODELLING STEP (CBMC build only; the native replay uses the real unions): the unions of the c2mir TU are
   given struct layout.  CBMC 6.11 neither folds reads of union members back to the pointers written (node.u.ops
   head/tail stay symbolic: every list loop and type recursion is then followed to its bound) nor resolves
   p->u.member->field (dereference of an "invalid object": spurious failures of c2mir's own asserts).
   This is exact for the functions encoded here because none of them reads a union member other than the one
   last written: struct type.u is read according to type->mode, struct node.u only as .ops (list nodes), struct
   expr.c as i_val (array sizes) / u_val (bit-field widths) - the harness writes both of the latter. */
#include <assert.h>
#include <ctype.h>
#include <errno.h>
#include <float.h>
#include <limits.h>
#include <math.h>
#include <setjmp.h>
#include <stdarg.h>
#include <wchar.h>
#define union struct
#include "c2mir/c2mir.c"
#undef union
#else
#include "c2mir/c2mir.c"
#endif
#include "sysv_ref.h"

#ifndef H_N
#define H_N 2
#endif
#ifndef H_FEAT
#define H_FEAT 0
#endif
#ifndef H_TOP
#define H_TOP 0
#endif
#ifndef H_NSUB
#define H_NSUB 2
#endif
#ifndef H_MODE
#define H_MODE 0
#endif
#ifndef H_MAXSIZE
#define H_MAXSIZE 64
#endif
#ifndef H_SHAPE
#define H_SHAPE {0, 0}
#endif
#define H_F_BF (H_FEAT & 1)
#define H_F_SUBARR (H_FEAT & 2)
#define H_F_DEEP (H_FEAT & 4)
enum { H_C_ARITH, H_C_PTR, H_C_ENUM, H_C_NESTED, H_C_ANON, H_C_NESTED_U, H_C_ANON_U, H_C_ARR = 8 };
#define H_IS_ANON(cls) ((cls) == H_C_ANON || (cls) == H_C_ANON_U)
#define H_IS_UNION(cls) ((cls) >= H_C_NESTED_U)
static const int h_shape[H_N] = H_SHAPE;
/* -DH_KCLS={..}: per outer member of arithmetic type its SIZE CLASS, concrete (0 = any of the 15 types, symbolic):
   1 char/signed char/unsigned char  2 _Bool  3 short/unsigned short  4 int/unsigned  5 long/unsigned long/long
   long/unsigned long long  6 float  7 double  8 long double.  Which type of the class: symbolic.  With concrete
   sizes c2mir's divisions/multiplications by sizes and alignments are by constants (the solver needs minutes
   per query otherwise). */
#ifndef H_KCLS
#define H_KCLS {0}
#endif
#ifndef H_KSUB
#define H_KSUB {0, 0}
#endif
/* -DH_EXCL=mask: re-prove WITHOUT the declarations of a recorded finding: 1 unnamed bit-fields of non-zero width
   (c2mir lets them raise the alignment of the aggregate), 2 zero-width bit-fields (a leading one occupies a
   storage unit; in a struct they raise the alignment), 4 a bit-field directly after a bit-field of a narrower
   declared type (c2mir can put it into the first unit at a position computed relative to the previous unit) */
#ifndef H_EXCL
#define H_EXCL 0
#endif
static const int h_kcls[H_N] = H_KCLS;
static const int h_ksub[H_NSUB] = H_KSUB; /* the same for the members of nested/anonymous aggregates */
#ifndef H_KSUB2
#define H_KSUB2 {4, 1}
#endif
static const int h_ksub2[2] = H_KSUB2; /* ... and of the second-level anonymous struct (H_FEAT & 4) */

/* ---------------- storage for the c2mir graph ----------------
   One static array per component type and pointers to their ELEMENTS: CBMC then keeps every pointer in the
   graph as address_of(array[k]) and resolves the dereferences statically (pointers to members of a struct
   inside an array become byte-offset expressions that it does not resolve - the symbolic execution of
   set_type_layout then never ends). */
#define H_NM1 (H_N * (1 + H_NSUB)) /* member slots: outer i -> i, member j of nested aggregate i -> H_N + i * H_NSUB + j */
#define H_NM (H_NM1 + 2 * H_N)      /* ... member q of the second-level anonymous struct inside nested aggregate i -> H_NM1 + 2 * i + q */
static struct node h_member[H_NM], h_op0[H_NM], h_op1[H_NM], h_op2[H_NM], h_op3[H_NM], h_arr_size[H_NM];
static struct expr h_width_expr[H_NM], h_arr_size_expr[H_NM];
static struct decl h_decl[H_NM];
static struct type h_type[H_NM], h_arr[H_NM];
static struct arr_type h_arr_type[H_NM];
static struct node h_tag[1 + 2 * H_N], h_id[1 + 2 * H_N], h_list[1 + 2 * H_N]; /* aggregate 0 = outer, 1 + i = nested in member i, 1 + H_N + i = second level in it */
#define H_TOP_SLOT(i) (i)
#define H_SUB_SLOT(i, j) (H_N + (i) * H_NSUB + (j))
#define H_SUB2_SLOT(i, q) (H_NM1 + 2 * (i) + (q))

static struct type h_top_type, h_void_type[H_NM];
static int h_n_void;
static struct node h_enum_node;
static struct enum_type h_enum_type;
static struct c2m_ctx h_ctx;
static struct check_ctx h_check_ctx;

/* ---------------- abstract description ---------------- */
static sv_agg h_top, h_sub[H_N], h_sub2[H_N];

static const enum basic_type h_bt[SV_NSCALAR] = {
  [SV_BOOL] = TP_BOOL, [SV_CHAR] = TP_CHAR, [SV_SCHAR] = TP_SCHAR, [SV_UCHAR] = TP_UCHAR, [SV_SHORT] = TP_SHORT,
  [SV_USHORT] = TP_USHORT, [SV_INT] = TP_INT, [SV_UINT] = TP_UINT, [SV_LONG] = TP_LONG, [SV_ULONG] = TP_ULONG,
  [SV_LLONG] = TP_LLONG, [SV_ULLONG] = TP_ULLONG, [SV_FLOAT] = TP_FLOAT, [SV_DOUBLE] = TP_DOUBLE, [SV_LDOUBLE] = TP_LDOUBLE};

/* an arbitrary valid member description of class CLS (H_C_ARITH/PTR/ENUM), array or not */
static void h_nd_scalar (sv_member *m, int cls, int is_arr, int kcls) {
  if (cls == H_C_ARITH) {
    switch (kcls) {
    case 1: m->kind = SV_CHAR + (int) nd_below (3); break;
    case 2: m->kind = SV_BOOL; break;
    case 3: m->kind = SV_SHORT + (int) nd_below (2); break;
    case 4: m->kind = SV_INT + (int) nd_below (2); break;
    case 5: m->kind = SV_LONG + (int) nd_below (4); break;
    case 6: m->kind = SV_FLOAT; break;
    case 7: m->kind = SV_DOUBLE; break;
    case 8: m->kind = SV_LDOUBLE; break;
    default: {
      int k = (int) nd_below (15); /* the 12 integer kinds, float, double, long double */
      m->kind = k < SV_ENUM ? k : k - SV_ENUM + SV_FLOAT;
    }
    }
  } else
    m->kind = cls == H_C_PTR ? SV_PTR : SV_ENUM;
  m->arr_n = is_arr ? 1 + (int) nd_below (3) : 0;
  m->width = -1;
  m->named = 1;
  m->sub = NULL;
  if (H_F_BF && !is_arr && cls != H_C_PTR && nd_bool ()) {
    /* bit-field: integer kinds, width <= bits of the type (_Bool: 1, as gcc), 0 only unnamed */
    unsigned long bits = sv_scalar_size (m->kind) * 8;
    H_ASSUME (m->kind < SV_NINT);
    m->width = (int) nd_below (65);
    m->named = nd_bool ();
    H_ASSUME ((unsigned long) m->width <= bits && (m->kind != SV_BOOL || m->width <= 1));
    H_ASSUME (m->width > 0 || !m->named);
    if (H_EXCL & 1) H_ASSUME (m->named || m->width == 0);
    if (H_EXCL & 2) H_ASSUME (m->width != 0);
  }
}

static int h_has_named (const sv_agg *a) { /* at least one member that is not an unnamed bit-field */
  int r = 0;
  for (int i = 0; i < a->n; i++) r |= a->m[i].width < 0 || a->m[i].named;
  return r;
}

static void h_nd_description (void) {
  h_top.is_union = H_TOP;
  h_top.n = H_N;
  for (int i = 0; i < H_N; i++) {
    sv_member *m = &h_top.m[i];
    int cls = h_shape[i] & 7, is_arr = (h_shape[i] & H_C_ARR) != 0;
    if (cls < H_C_NESTED) {
      h_nd_scalar (m, cls, is_arr, h_kcls[i]);
      continue;
    }
    h_sub[i].is_union = H_IS_UNION (cls);
    h_sub[i].n = H_NSUB; /* concrete: a symbolic member count makes the list links symbolic */
    for (int j = 0; j < H_NSUB; j++) h_nd_scalar (&h_sub[i].m[j], H_C_ARITH, H_F_SUBARR && j == 0, h_ksub[j]);
    if (H_F_DEEP) { /* the last member becomes an anonymous struct { t0 p0; t1 p1; } */
      sv_member *l = &h_sub[i].m[H_NSUB - 1];
      h_sub2[i].is_union = 0;
      h_sub2[i].n = 2;
      for (int q = 0; q < 2; q++) { h_nd_scalar (&h_sub2[i].m[q], H_C_ARITH, 0, h_ksub2[q]); H_ASSUME (h_sub2[i].m[q].width < 0); }
      l->kind = SV_STRUCT; l->width = -1; l->sub = &h_sub2[i]; l->named = 0; l->arr_n = 0;
    }
    H_ASSUME (h_has_named (&h_sub[i])); /* empty aggregates are a GNU extension outside the model */
    m->kind = h_sub[i].is_union ? SV_UNION : SV_STRUCT;
    m->width = -1;
    m->sub = &h_sub[i];
    m->named = !H_IS_ANON (cls);
    m->arr_n = is_arr ? 1 + (int) nd_below (2) : 0;
  }
  H_ASSUME (h_has_named (&h_top));
  if (H_EXCL & 4)
    for (int i = 1; i < H_N; i++)
      H_ASSUME (!(h_top.m[i].width > 0 && h_top.m[i - 1].width > 0
                  && sv_scalar_size (h_top.m[i].kind) > sv_scalar_size (h_top.m[i - 1].kind)));
}

/* ---------------- description -> c2mir graph ---------------- */
/* Lists are linked by hand (all shapes are concrete); the links are those NL_APPEND produces (mir-dlist.h; the
   list operations themselves are C19's subject). */
#define H_SET_U(obj, member, val) ((obj).u.member = (val))
#define H_SET_OPS(n, h, t) ((n).u.ops.head = (h), (n).u.ops.tail = (t))
static void h_link (node_t a, node_t b) { /* a before b */
  a->op_link.next = b;
  b->op_link.prev = a;
}

static void h_mk_aggr (int g, struct type *t, int is_union, int anon_member_type_p) {
  init_type (t); /* real: what create_type leaves */
  t->mode = is_union ? TM_UNION : TM_STRUCT;
  H_SET_U (*t, tag_type, &h_tag[g]);
  t->unnamed_anon_struct_union_member_type_p = (char) anon_member_type_p;
  h_tag[g].code = is_union ? N_UNION : N_STRUCT;
  h_id[g].code = N_IGNORE;
  h_list[g].code = N_LIST;
  H_SET_OPS (h_tag[g], &h_id[g], &h_list[g]);
  h_link (&h_id[g], &h_list[g]);
  /* the member list of aggregate g (all shapes are concrete): slots first..last */
  if (g == 0) {
    H_SET_OPS (h_list[g], &h_member[H_TOP_SLOT (0)], &h_member[H_TOP_SLOT (H_N - 1)]);
    for (int i = 0; i + 1 < H_N; i++) h_link (&h_member[H_TOP_SLOT (i)], &h_member[H_TOP_SLOT (i + 1)]);
  } else if (g <= H_N) {
    H_SET_OPS (h_list[g], &h_member[H_SUB_SLOT (g - 1, 0)], &h_member[H_SUB_SLOT (g - 1, H_NSUB - 1)]);
    for (int j = 0; j + 1 < H_NSUB; j++) h_link (&h_member[H_SUB_SLOT (g - 1, j)], &h_member[H_SUB_SLOT (g - 1, j + 1)]);
  } else {
    H_SET_OPS (h_list[g], &h_member[H_SUB2_SLOT (g - 1 - H_N, 0)], &h_member[H_SUB2_SLOT (g - 1 - H_N, 1)]);
    h_link (&h_member[H_SUB2_SLOT (g - 1 - H_N, 0)], &h_member[H_SUB2_SLOT (g - 1 - H_N, 1)]);
  }
}

static void h_mk_scalar_type (struct type *t, int cls, int kind) { /* cls is concrete, kind symbolic within it */
  init_type (t);
  if (cls == H_C_PTR) {
    struct type *v = &h_void_type[h_n_void++];
    init_type (v);
    v->mode = TM_BASIC;
    H_SET_U (*v, basic_type, TP_VOID);
    t->mode = TM_PTR;
    H_SET_U (*t, ptr_type, v);
  } else if (cls == H_C_ENUM) {
    t->mode = TM_ENUM;
    H_SET_U (*t, tag_type, &h_enum_node);
  } else {
    t->mode = TM_BASIC;
    H_SET_U (*t, basic_type, h_bt[kind]);
  }
}

/* member M in slot K (its element type already set up in h_type[K]) (the member lists are linked in h_mk_aggr);
   CONTAINER = the N_MEMBER of the anonymous struct/union member whose scope this member is declared in, or NULL */
static void h_mk_member (int k, const sv_member *m, int is_arr /* concrete */, node_t container) {
  h_member[k].code = N_MEMBER;
  h_op0[k].code = N_LIST;                        /* specs: never read by the code under test */
  h_op1[k].code = m->named ? N_DECL : N_IGNORE;  /* declarator */
  h_op2[k].code = N_IGNORE;                      /* attrs */
  if (m->width >= 0) {                           /* width: a checked constant expression */
    h_op3[k].code = N_I;
    h_op3[k].attr = &h_width_expr[k];
    h_width_expr[k].const_p = 1;
    h_width_expr[k].c.i_val = m->width; /* check() stores the value of the constant expression */
    h_width_expr[k].c.u_val = (mir_ullong) m->width;
  } else
    h_op3[k].code = N_IGNORE;
  H_SET_OPS (h_member[k], &h_op0[k], &h_op3[k]);
  h_link (&h_op0[k], &h_op1[k]);
  h_link (&h_op1[k], &h_op2[k]);
  h_link (&h_op2[k], &h_op3[k]);
  /* real init_decl() values */
  h_decl[k].offset = 0;
  h_decl[k].bit_offset = -1;
  h_decl[k].containing_unnamed_anon_struct_union_member = container;
  h_decl[k].c2m_ctx = &h_ctx;
  if (is_arr) {
    init_type (&h_arr[k]);
    h_arr[k].mode = TM_ARR;
    H_SET_U (h_arr[k], arr_type, &h_arr_type[k]);
    h_arr_type[k].el_type = &h_type[k];
    h_arr_type[k].size = &h_arr_size[k];
    h_arr_size[k].code = N_I;
    h_arr_size[k].attr = &h_arr_size_expr[k];
    h_arr_size_expr[k].const_p = 1;
    h_arr_size_expr[k].c.u_val = (mir_ullong) m->arr_n;
    h_arr_size_expr[k].c.i_val = m->arr_n;
    h_decl[k].decl_spec.type = &h_arr[k];
  } else
    h_decl[k].decl_spec.type = &h_type[k];
  h_decl[k].decl_spec.align = -1;
  h_member[k].attr = &h_decl[k];
}

static void h_build_graph (void) {
  h_ctx.check_ctx = &h_check_ctx; /* curr_scope == NULL */
  h_enum_node.code = N_ENUM;
  if (nd_bool ()) { /* defined enum: c2mir chooses int or unsigned for values that fit */
    h_enum_type.enum_basic_type = nd_bool () ? TP_INT : TP_UINT;
    h_enum_node.attr = &h_enum_type;
  }
  h_mk_aggr (0, &h_top_type, H_TOP, 0);
  for (int i = 0; i < H_N; i++) {
    const sv_member *m = &h_top.m[i];
    int cls = h_shape[i] & 7, k = H_TOP_SLOT (i);
    if (cls >= H_C_NESTED) {
      h_mk_aggr (1 + i, &h_type[k], H_IS_UNION (cls), H_IS_ANON (cls));
      for (int j = 0; j < H_NSUB; j++) {
        if (H_F_DEEP && j == H_NSUB - 1) {
          h_mk_aggr (1 + H_N + i, &h_type[H_SUB_SLOT (i, j)], 0, 1);
          for (int q = 0; q < 2; q++) {
            h_mk_scalar_type (&h_type[H_SUB2_SLOT (i, q)], H_C_ARITH, h_sub2[i].m[q].kind);
            h_mk_member (H_SUB2_SLOT (i, q), &h_sub2[i].m[q], 0, &h_member[H_SUB_SLOT (i, j)]);
          }
        } else
          h_mk_scalar_type (&h_type[H_SUB_SLOT (i, j)], H_C_ARITH, h_sub[i].m[j].kind);
        h_mk_member (H_SUB_SLOT (i, j), &h_sub[i].m[j], H_F_SUBARR && j == 0, H_IS_ANON (cls) ? &h_member[k] : NULL);
      }
    } else
      h_mk_scalar_type (&h_type[k], cls, m->kind);
    h_mk_member (k, m, (h_shape[i] & H_C_ARR) != 0, NULL);
  }
}

#ifdef REPLAY
static const char *h_kname[SV_NKIND] = {"_Bool", "char", "signed char", "unsigned char", "short", "unsigned short", "int", "unsigned",
                                        "long", "unsigned long", "long long", "unsigned long long", "enum E", "void *", "float",
                                        "double", "long double", "struct", "union"};
static void h_print_agg (const sv_agg *a, const char *pfx) {
  fprintf (stderr, "%s {", a->is_union ? "union" : "struct");
  for (int i = 0; i < a->n; i++) {
    const sv_member *m = &a->m[i];
    fprintf (stderr, " ");
    if (m->kind >= SV_NSCALAR) h_print_agg (m->sub, "n"); else fprintf (stderr, "%s", h_kname[m->kind]);
    if (m->named) fprintf (stderr, " %s%d", pfx, i);
    if (m->arr_n > 0) fprintf (stderr, "[%d]", m->arr_n);
    if (m->width >= 0) fprintf (stderr, " : %d", m->width);
    fprintf (stderr, ";");
  }
  fprintf (stderr, " }");
}
#endif

/* ---------------- comparison ---------------- */
/* member of aggregate A (slot S): c2mir's placement against the oracle's; BASE = bit position of A in the
   aggregate c2mir's decl->offset is relative to (non-zero for members of an anonymous aggregate) */
static void h_check_member (int k, const sv_member *m, unsigned long base, unsigned long encl_size) {
  const struct decl *d = &h_decl[k];
  if (m->width < 0) {
    H_ASSERT (d->offset * 8 == base + m->bitpos, "member offset equals the ABI offset");
    H_ASSERT (d->bit_offset < 0, "ordinary member is not marked as a bit-field");
    H_ASSERT (type_size (&h_ctx, d->decl_spec.type) == m->size, "member type size equals the ABI size");
    H_ASSERT ((unsigned long) type_align (d->decl_spec.type) == m->align, "member type alignment equals the ABI alignment");
  } else if (m->named) { /* the value lives in bits [bit_offset, bit_offset+width) of the T-sized unit loaded at offset */
    H_ASSERT (d->width == m->width, "bit-field width recorded");
    H_ASSERT (d->bit_offset >= 0 && (unsigned long) (d->bit_offset + d->width) <= m->size * 8,
              "bit-field lies inside the storage unit c2mir loads and stores");
    H_ASSERT (d->offset * 8 + (unsigned long) d->bit_offset == base + m->bitpos,
              "bit-field absolute bit position equals the ABI position");
    H_ASSERT (d->offset + m->size <= base / 8 + encl_size, "bit-field storage unit lies inside the aggregate");
  }
  /* unnamed bit-fields cannot be accessed: their placement is observable only through the members that
     follow and through sizeof/_Alignof, which are compared */
}

static int h_class_of_mir_type (MIR_type_t t) {
  switch ((int) t) {
  case MIR_T_I8: case MIR_T_I16: case MIR_T_I32: case MIR_T_I64: return SV_INTEGER;
  case MIR_T_F: case MIR_T_D: return SV_SSE;
  case MIR_T_LD: return SV_X87;
  case X87UP_CLASS: return SV_X87UP;
  case NO_CLASS: return SV_NO_CLASS;
  default: return SV_MEMORY;
  }
}
static unsigned long h_mir_type_bytes (MIR_type_t t) {
  switch ((int) t) {
  case MIR_T_I8: return 1;
  case MIR_T_I16: return 2;
  case MIR_T_I32: case MIR_T_F: return 4;
  case MIR_T_I64: case MIR_T_D: return 8;
  case MIR_T_LD: return 16;
  default: return 0;
  }
}

void harness (void) {
  h_nd_description ();
  sv_layout (&h_top);
  H_ASSUME (h_top.size <= H_MAXSIZE); /* size bound of the obligation */
  h_build_graph ();
#ifdef REPLAY
  fprintf (stderr, "REPLAY: declaration: "); h_print_agg (&h_top, "m"); fprintf (stderr, "\n");
#endif

  set_type_layout (&h_ctx, &h_top_type);

#ifdef REPLAY
  fprintf (stderr, "REPLAY: c2mir: sizeof %lu _Alignof %d;  ABI: sizeof %lu _Alignof %lu\n",
           (unsigned long) type_size (&h_ctx, &h_top_type), type_align (&h_top_type), h_top.size, h_top.align);
  for (int i = 0; i < H_N; i++) {
    fprintf (stderr, "REPLAY:   m%d: c2mir offset %lu bit_offset %d width %d;  ABI bit position %lu\n", i,
             (unsigned long) h_decl[H_TOP_SLOT (i)].offset, h_decl[H_TOP_SLOT (i)].bit_offset, h_decl[H_TOP_SLOT (i)].width, h_top.m[i].bitpos);
    if (h_top.m[i].kind >= SV_NSCALAR)
      for (int j = 0; j < h_sub[i].n; j++)
        fprintf (stderr, "REPLAY:     n%d: c2mir offset %lu bit_offset %d (relative to the %s aggregate);  ABI bit position %lu + %lu\n", j,
                 (unsigned long) h_decl[H_SUB_SLOT (i, j)].offset, h_decl[H_SUB_SLOT (i, j)].bit_offset,
                 h_top.m[i].named ? "nested" : "outer", h_top.m[i].named ? 0 : h_top.m[i].bitpos, h_sub[i].m[j].bitpos);
  }
#endif

#if H_MODE == 0
  H_ASSERT (type_size (&h_ctx, &h_top_type) == h_top.size, "sizeof equals the ABI size");
  H_ASSERT ((unsigned long) type_align (&h_top_type) == h_top.align, "_Alignof equals the ABI alignment");
  for (int i = 0; i < H_N; i++) {
    const sv_member *m = &h_top.m[i];
    h_check_member (H_TOP_SLOT (i), m, 0, h_top.size);
    if ((h_shape[i] & 7) >= H_C_NESTED)
      for (int j = 0; j < H_NSUB; j++) { /* nested: relative to the nested aggregate; anonymous: relative to the outer one */
          h_check_member (H_SUB_SLOT (i, j), &h_sub[i].m[j], m->named ? 0 : m->bitpos, h_sub[i].size);
          if (H_F_DEEP && j == H_NSUB - 1) { /* members of the second-level anonymous struct: relative to the closest NAMED enclosing aggregate */
            unsigned long base2 = (m->named ? 0 : m->bitpos) + h_sub[i].m[j].bitpos;
            for (int q = 0; q < 2; q++) h_check_member (H_SUB2_SLOT (i, q), &h_sub2[i].m[q], base2, h_sub2[i].size);
#if H_W_DEEP
            if (h_sub[i].m[j].bitpos != 0 && h_sub2[i].m[1].bitpos != 0) H_WITNESS ("second-level anonymous member at a non-zero offset of a non-zero offset");
#endif
          }
      }
    if (m->width > 0) /* sanity of the oracle itself: a bit-field never leaves an aligned unit of its type */
      H_ASSERT (m->bitpos / (m->size * 8) == (m->bitpos + (unsigned long) m->width - 1) / (m->size * 8), "oracle: bit-field inside one unit");
#if H_W_BF /* some outer member can be a bit-field and there is another member */
#if H_TOP != 1 && H_W_BF2 /* two adjacent outer members can be bit-fields */
    if (i > 0 && m->width > 0 && h_top.m[i - 1].width > 0 && !h_top.is_union
        && m->bitpos != h_top.m[i - 1].bitpos + (unsigned long) h_top.m[i - 1].width)
      H_WITNESS ("bit-field did not fit and moved to the next unit");
#endif
#if !(H_EXCL & 2)
    if (m->width == 0) H_WITNESS ("zero-width bit-field");
#endif
#if !(H_EXCL & 1)
    if (m->width > 0 && !m->named) H_WITNESS ("unnamed bit-field");
#endif
    if (m->width > 0 && m->named) H_WITNESS ("named bit-field");
#endif
#if H_W_ARR
    if (m->arr_n > 1) H_WITNESS ("array member with more than one element");
#endif
#if H_W_NESTED
    if (m->kind >= SV_NSCALAR && m->named) H_WITNESS ("nested aggregate");
#endif
#if H_W_ANON
    if (m->kind >= SV_NSCALAR && !m->named) H_WITNESS ("anonymous aggregate");
#endif
  }
#else
  /* passing: proved for the declarations on which the layout agrees (layout deviations are H_MODE 0's findings) */
  H_ASSUME (type_size (&h_ctx, &h_top_type) == h_top.size && (unsigned long) type_align (&h_top_type) == h_top.align);
  for (int i = 0; i < H_N; i++) {
    const sv_member *m = &h_top.m[i];
    const struct decl *d = &h_decl[H_TOP_SLOT (i)];
    H_ASSUME (m->width == 0 || d->offset * 8 + (unsigned long) (d->bit_offset < 0 ? 0 : d->bit_offset) == m->bitpos);
    H_ASSUME ((m->width >= 0) == (d->bit_offset >= 0));
    if ((h_shape[i] & 7) >= H_C_NESTED) {
      H_ASSUME (type_size (&h_ctx, &h_type[H_TOP_SLOT (i)]) == h_sub[i].size);
      for (int j = 0; j < H_NSUB; j++) {
          const struct decl *d2 = &h_decl[H_SUB_SLOT (i, j)];
          H_ASSUME (h_sub[i].m[j].width == 0
                    || d2->offset * 8 + (unsigned long) (d2->bit_offset < 0 ? 0 : d2->bit_offset)
                         == (m->named ? 0 : m->bitpos) + h_sub[i].m[j].bitpos);
          H_ASSUME ((h_sub[i].m[j].width >= 0) == (d2->bit_offset >= 0));
        }
    }
  }
  sv_cls c = sv_classify (&h_top);
  H_ASSUME (!c.unmodelled);
  for (int k = 0; k < c.n; k++) H_ASSUME (c.c[k] != SV_NO_CLASS); /* an eightbyte of padding only: not in this bound */
#ifdef REPLAY
  fprintf (stderr, "REPLAY: ABI classes: %s n=%d [%d %d] (0 NO_CLASS 1 INTEGER 2 SSE 3 X87 4 X87UP)\n", c.memory ? "MEMORY" : "regs", c.n, c.c[0], c.c[1]);
#endif
  {
    MIR_type_t t[MAX_QWORDS];
    int n = classify_arg (&h_ctx, &h_top_type, t, FALSE);
#ifdef REPLAY
    fprintf (stderr, "REPLAY: c2mir classify_arg: n=%d [%d %d] (I64=%d D=%d LD=%d X87UP=%d)\n", n, n > 0 ? t[0] : -1, n > 1 ? t[1] : -1,
             MIR_T_I64, MIR_T_D, MIR_T_LD, X87UP_CLASS);
#endif
    H_ASSERT ((n == 0) == (c.memory != 0), "classify_arg: MEMORY class exactly when the ABI says MEMORY");
    if (n != 0 && !c.memory) {
      H_ASSERT (n == c.n, "classify_arg: number of eightbytes");
      for (int k = 0; k < 2; k++)
        if (k < n && k < c.n) H_ASSERT (h_class_of_mir_type (t[k]) == c.c[k], "classify_arg: class of each eightbyte equals the ABI class");
    }
  }
  { /* the MIR block type: BLK memory, +1 general regs, +2 SSE regs, +3 general then SSE, +4 SSE then general (mir-x86_64.c) */
    MIR_type_t exp = MIR_T_BLK;
    if (!c.memory && c.c[0] != SV_X87) {
      int ni = 0, ns = 0;
      for (int k = 0; k < c.n; k++) { ni += c.c[k] == SV_INTEGER; ns += c.c[k] == SV_SSE; }
      exp = ni == c.n ? MIR_T_BLK + 1 : ns == c.n ? MIR_T_BLK + 2 : c.c[0] == SV_SSE ? MIR_T_BLK + 4 : MIR_T_BLK + 3;
    }
    H_ASSERT (target_get_blk_type (&h_ctx, &h_top_type) == exp, "target_get_blk_type: block type equals the ABI way of passing");
  }
  H_ASSERT ((target_return_by_addr_p (&h_ctx, &h_top_type) != 0) == (sv_return_by_hidden_pointer (&c) != 0),
            "target_return_by_addr_p: hidden result pointer exactly for class MEMORY");
  { /* result registers: one MIR result per eightbyte, of the right register class, wide enough for its bytes */
    MIR_type_t t[MAX_QWORDS];
    int n = process_ret_type (&h_ctx, &h_top_type, t);
    H_ASSERT ((n == 0) == (c.memory != 0), "process_ret_type: in registers exactly when not MEMORY");
    if (n != 0 && !c.memory) {
      H_ASSERT (n == (c.c[0] == SV_X87 ? 1 : c.n), "process_ret_type: number of result registers");
      for (int k = 0; k < 2; k++)
        if (k < n) {
          unsigned long need = h_top.size - 8 * (unsigned long) k < 8 ? h_top.size - 8 * (unsigned long) k : 8;
          H_ASSERT (h_class_of_mir_type (t[k]) == c.c[k], "process_ret_type: register class of each eightbyte");
          H_ASSERT (h_mir_type_bytes (t[k]) >= need, "process_ret_type: result register covers all bytes of its eightbyte");
        }
    }
  }
  { /* argument position: any number of argument registers already used */
    target_arg_info_t ai;
    MIR_type_t t[MAX_QWORDS];
    int ni = (int) nd_below (7), ns = (int) nd_below (9), ir[2], sr[2];
    ai.n_iregs = ni; ai.n_fregs = ns;
    int n = process_aggregate_arg (&h_ctx, &h_top_type, &ai, t);
    int inreg = sv_pass_arg (&c, &ni, &ns, ir, sr);
    H_ASSERT ((n != 0) == (inreg != 0), "process_aggregate_arg: in registers exactly when the ABI passes in registers");
    H_ASSERT (ai.n_iregs == ni && ai.n_fregs == ns, "process_aggregate_arg: argument registers consumed as by the ABI");
    if (n != 0 && inreg)
      for (int k = 0; k < 2; k++)
        if (k < n) {
          unsigned long need = h_top.size - 8 * (unsigned long) k < 8 ? h_top.size - 8 * (unsigned long) k : 8;
          H_ASSERT (h_class_of_mir_type (t[k]) == c.c[k], "process_aggregate_arg: register class of each eightbyte");
          H_ASSERT (h_mir_type_bytes (t[k]) >= need, "process_aggregate_arg: argument register covers all bytes of its eightbyte");
        }
#if H_W_REG
    if (!inreg && !c.memory) H_WITNESS ("register class but no registers left");
#endif
  }
  /* reachability witnesses; which ones exist is decided per shape by props/C08.py (-DH_W_*) */
#if H_W_MEM
  if (c.memory) H_WITNESS ("memory class");
#endif
#if H_W_SS
  if (!c.memory && c.n == 2 && c.c[0] == SV_SSE && c.c[1] == SV_SSE) H_WITNESS ("two SSE eightbytes");
#endif
#if H_W_X87
  if (!c.memory && c.c[0] == SV_X87) H_WITNESS ("X87 class (long double alone)");
#endif
#endif
  H_WITNESS ("end");
}
