/* C12 / obligation 1: decoder memory safety on ARBITRARY bytes.
   reduce_decode_start + ONE reduce_decode_get + reduce_decode_finish on a stream of symbolic length <= H_N with
   symbolic bytes (the "MIR" prefix is part of the stream and arbitrary too: reduce_decode_get does not look at
   ok_p).  reduce_decode_get resets pos and curr_ind on every call, and what it inherits from earlier calls is
   only check_hash (irrelevant for addresses), the stale contents of ind2pos[] and buf[] and the reader position:
   one call from a fresh start with ARBITRARY ind2pos[]/buf[] contents and an arbitrary rest-of-stream is the
   general case of a buffer refill.  (After malloc the arrays really are arbitrary; after an earlier refill
   ind2pos[] holds old positions < BUF_LEN.  -DH_STALE_SMALL restricts to the latter.)
   Checked by CBMC (checks="memsafe") and by ASan in the replay: every access through data->buf / ind2pos stays
   inside the object (buf[] is the last member), array indices stay inside their member, memcpy regions do not
   overlap (h.h), the library's own assert()s hold. */
#include "c12.h"

void harness (void) {
  H_ASSERT (offsetof (struct reduce_data, buf) + H_BUF == sizeof (struct reduce_data), "buf[] is the tail of struct reduce_data");
  h_slen = nd_below (H_N + 1);
  for (int i = 0; i < H_N; i++) h_stream[i] = (uint8_t) nd ();
#if defined(H_FOCUS) && H_FOCUS != 0 /* diagnostic variants: a stream with the right prefix (reduce_decode_get itself ignores ok_p) */
  H_ASSUME (h_slen >= 3 && h_stream[0] == 'M' && h_stream[1] == 'I' && h_stream[2] == 'R');
#endif
  struct reduce_data *data = reduce_decode_start (&h_alloc, h_reader, NULL);
  for (int i = 0; i < H_BUF; i++) { /* stale state, explicit so that the native replay has the same */
    uint64_t v = nd ();
#ifdef H_STALE_SMALL
    H_ASSUME ((uint32_t) v < H_BUF);
#endif
    data->u.decode.ind2pos[i] = (uint32_t) v;
    data->buf[i] = (uint8_t) (v >> 32);
  }
  int c = reduce_decode_get (data);
  if (c >= 0) {
    H_WITNESS ("get delivered a byte");
    H_ASSERT (data->buf_bound <= H_BUF && data->u.decode.buf_get_pos == 1, "delivered chunk lies inside buf[]");
#if H_N >= 14 /* MIR, tag, 1 byte, 0 tag, 8 hash bytes */
    if (data->u.decode.eof_p) H_WITNESS ("trailer accepted");
#endif
    if (data->buf_bound == H_BUF) H_WITNESS ("full buffer delivered");
  } else {
    if (data->ok_p) H_WITNESS ("clean end of data");
    else H_WITNESS ("stream rejected");
  }
  int ok = reduce_decode_finish (&h_alloc, data);
  (void) ok;
  H_ASSERT (h_c12_live == 0 && h_c12_allocs == 1, "one allocation, freed once");
  H_WITNESS ("end");
}
