/* C12 / obligations 3 and 4: ROUND TRIP and TRUNCATION/EXTENSION, streaming interface.
   Input: H_L bytes exactly (-DH_L=n, one obligation per length), every byte symbolic.
   reduce_encode_start / reduce_encode_put x H_L / reduce_encode_finish write into h_stream[] through the harness
   writer; reduce_decode_start / reduce_decode_get until -1 / reduce_decode_finish read it back through the
   harness reader.  The decoder starts from ARBITRARY ind2pos[]/buf[] contents (nd()).
     default   : both report success, the decoder delivers exactly the input, the whole stream is consumed.
     -DH_CUT=1 : the stream is cut at an arbitrary point t < length           => reduce_decode_finish returns 0
     -DH_CUT=2 : one arbitrary byte is appended                               => reduce_decode_finish returns 0
   How the decoder is driven: reduce_decode_get is called once per delivered byte, as a client does.  After a
   refill the number of buffered bytes buf_bound is a symbolic value in 1..BUF_LEN; the harness splits on it
   (if (buf_bound == k) { buf_bound = k; ...k-1 calls... }) - an identity store that makes the value a constant
   for symbolic execution, so that the k-1 buffered calls are folded instead of each re-encoding the refill loop.
   Loop bound of the refill loop (props/C12.py, checked by the unwinding assertion): a chunk of m bytes has at most
   1 + (m-8)/4 + 1 elements (the first back-reference needs 4 bytes before it and is >= 4 long, every further
   element but the last contains a back-reference of >= 4 bytes), plus one per MAX_SYMB_LEN flush, plus the 0 tag. */
#ifndef H_L
#define H_L 8
#endif
#ifndef H_CUT
#define H_CUT 0
#endif
#ifndef H_N
#define H_N (H_L + H_L / 4 + 24) /* capacity of the stream array; exceeding it is an assertion failure */
#endif
#include "c12.h"
#if _REDUCE_MAX_SYMB_LEN > 64
#error "C12 round trip needs the MIR_VERIF_REDUCE_MAX_SYMB_LEN hook in mir-reduce.h (curr_symb[2047] inside struct reduce_data: no verdict)"
#endif

static size_t h_writer (const void *start, size_t len, void *aux) {
  (void) aux;
  size_t i;
  H_ASSERT (h_slen <= H_N && len <= H_N - h_slen, "encoder output fits the harness stream array");
  H_ASSUME (h_slen <= H_N && len <= H_N - h_slen);
#if H_CBMC
  if (H_IN_DATA (start)) { /* the only block written from inside the struct is curr_symb[0..len) */
    H_ASSERT ((uint64_t) __CPROVER_POINTER_OFFSET (start) == offsetof (struct reduce_data, u.encode.curr_symb)
              && len <= _REDUCE_MAX_SYMB_LEN, "written block is curr_symb[0..len)");
    H_ASSUME (len <= _REDUCE_MAX_SYMB_LEN);
    for (i = 0; i < len; i++) h_stream[h_slen + i] = h_data->u.encode.curr_symb[i];
  } else
#endif
    for (i = 0; i < len; i++) h_stream[h_slen + i] = ((const uint8_t *) start)[i];
  h_slen += len;
  return len;
}

static uint8_t h_in[H_L + 1], h_out[H_L + 1];
#define H_REFILLS (H_L / H_BUF + 1)

void harness (void) {
  H_ASSERT (H_BUF_OFF + H_BUF == sizeof (struct reduce_data), "buf[] is the tail of struct reduce_data");
  for (int i = 0; i < H_L; i++) h_in[i] = (uint8_t) nd ();
  /* ---- encode ---- */
  struct reduce_data *e = reduce_encode_start (&h_alloc, h_writer, NULL);
  /* the encoder's window is arbitrary at the start: in a multi-buffer stream the bytes beyond buf_bound are STALE
     bytes of the previous buffer (made explicit, and replayable, with nd()) */
  for (int i = 0; i < H_BUF; i++) e->buf[i] = (uint8_t) nd ();
  for (int i = 0; i < H_L; i++) reduce_encode_put (e, h_in[i]);
  int eok = reduce_encode_finish (&h_alloc, e);
  H_ASSERT (eok, "encoder reports success");
  H_ASSERT (h_c12_live == 0, "encoder state freed");
  H_ASSERT (h_slen >= 3 + 9 && h_slen <= H_N, "stream has prefix and trailer");
  H_ASSUME (h_slen >= 3 + 9 && h_slen <= H_N);
#if H_CUT == 1
  size_t full = h_slen;
  h_slen = nd_below (full); /* proper prefix */
#elif H_CUT == 2
  H_ASSUME (h_slen < H_N);
  h_stream[h_slen++] = (uint8_t) nd ();
#endif
  /* ---- decode ---- */
  struct reduce_data *d = reduce_decode_start (&h_alloc, h_reader, NULL);
  for (int i = 0; i < H_BUF; i++) {
    uint64_t v = nd ();
    d->u.decode.ind2pos[i] = (uint32_t) v;
    d->buf[i] = (uint8_t) (v >> 32);
  }
  size_t outlen = 0;
  int c = 0;
  for (int r = 0; r < H_REFILLS + (H_CUT != 0); r++) {
    if (d->u.decode.eof_p) break;
    c = reduce_decode_get (d); /* refill */
    if (c < 0) break;
    uint32_t bb = d->buf_bound;
    H_ASSERT (bb >= 1 && bb <= H_BUF && d->u.decode.buf_get_pos == 1, "refill offers 1..BUF_LEN bytes");
    H_ASSUME (bb >= 1 && bb <= H_BUF && d->u.decode.buf_get_pos == 1);
    H_ASSERT (outlen + bb <= H_L, "decoder delivers no more than the input length");
    H_ASSUME (outlen + bb <= H_L);
    h_out[outlen] = (uint8_t) c;
    for (uint32_t k = 1; k <= H_BUF; k++)
      if (bb == k) {
        d->buf_bound = k; d->u.decode.buf_get_pos = 1; /* identity stores, see above */
        for (uint32_t j = 1; j < k; j++) {
          c = reduce_decode_get (d);
          H_ASSERT (c >= 0, "buffered byte delivered");
          h_out[outlen + j] = (uint8_t) c;
        }
        break;
      }
    outlen += bb;
  }
  /* a client calls reduce_decode_get until it says -1: after H_REFILLS refills (one more for a damaged stream)
     either that has happened or the trailer has been seen, and then the next call says -1 without reading */
  H_ASSERT (c < 0 || d->u.decode.eof_p, "decoder is done after the expected number of refills");
  H_ASSUME (c < 0 || d->u.decode.eof_p);
  if (c >= 0) {
    d->u.decode.eof_p = TRUE; /* identity store */
    c = reduce_decode_get (d);
    H_ASSERT (c < 0, "after the trailer: end of data");
  }
#if H_L >= 8
  if (h_copies > 0) H_WITNESS ("back-reference copied");
#endif
  int okp = d->ok_p;
  int dok = reduce_decode_finish (&h_alloc, d);
  H_ASSERT (h_c12_live == 0 && h_c12_allocs == 2, "two allocations, both freed");
#if H_CUT == 0
  H_ASSERT (okp && dok, "decoder reports success");
  H_ASSERT (outlen == H_L, "decoded length equals input length");
  int same = 1;
  for (int i = 0; i < H_L; i++) same &= h_out[i] == h_in[i];
  H_ASSERT (same, "decoded bytes equal input bytes");
  H_ASSERT (h_rpos == h_slen, "decoder consumed the whole stream");
  if (dok) H_WITNESS ("decoder accepted");
#else
  H_ASSERT (!dok, "truncated/extended stream is reported as failure");
  if (!dok) H_WITNESS ("decoder rejected");
#endif
  H_WITNESS ("end");
}
