/* C12 / obligation 2: ACCEPT => WELL-FORMED, as the contract of one buffer refill.
   reduce_decode has only two ways to deliver bytes: the buffered path of reduce_decode_get (returns
   buf[buf_get_pos++], nothing else) and a REFILL (buffer drained, eof_p clear).  This harness runs
   reduce_decode_start, checks what it records about the prefix, then puts the decoder into an ARBITRARY drained
   state (check_hash = any value H0 standing for any earlier chunks, arbitrary stale ind2pos[]/buf[]) and runs ONE
   refill on an arbitrary rest-of-stream, then reduce_decode_finish.  Asserted:
     refill returns c >= 0  =>  buf_bound = P in 1..BUF_LEN bytes are offered, c == buf[0], buf_get_pos == 1,
                                check_hash == H(buf[0..P), H0)   (the decoder hashed exactly what it delivers),
                                ok_p untouched, and EITHER eof_p clear and P == BUF_LEN (more to come)
                                OR eof_p set and the last 9 bytes consumed are a 0 tag + the little-endian
                                check_hash, and the reader is at EOF and has been asked for one more byte;
     refill returns -1      =>  EITHER ok_p cleared (failure reported)
                                OR eof_p set, nothing delivered, check_hash == H0, trailer as above, EOF seen;
     reduce_decode_finish returns true  <=>  ok_p && eof_p (and then the stream is at EOF by the above).
   By induction over refills: a successful decode consumed "MIR", then elements, then a 0 tag, then 8 bytes equal
   to the chained hash of exactly the delivered bytes, then EOF.  Nothing is claimed about rejection of altered
   bytes (that would be a statement about the 64-bit hash). */
#include "c12.h"

static uint64_t h_le64 (const uint8_t *s) {
  uint64_t h = 0;
  for (int i = 0; i < 8; i++) h |= (uint64_t) s[i] << i * 8;
  return h;
}

void harness (void) {
  h_slen = nd_below (H_N + 1);
  for (int i = 0; i < H_N; i++) h_stream[i] = (uint8_t) nd ();
  struct reduce_data *data = reduce_decode_start (&h_alloc, h_reader, NULL);
  int prefix_ok = h_slen >= 3 && h_stream[0] == 'M' && h_stream[1] == 'I' && h_stream[2] == 'R';
  H_ASSERT ((data->ok_p != 0) == prefix_ok, "start: ok_p iff the stream begins with MIR");
  H_ASSERT (h_rpos == (h_slen < 3 ? h_slen : 3) && data->buf_bound == 0 && data->u.decode.buf_get_pos == 0
            && !data->u.decode.eof_p && data->check_hash == _REDUCE_CHECK_HASH_SEED, "start: initial decoder state");
  if (prefix_ok) H_WITNESS ("prefix accepted");
  uint64_t h0 = nd ();
  int ok0 = nd_bool ();
  data->check_hash = h0; /* any chain value of earlier chunks */
  data->ok_p = (uint8_t) ok0;
  for (int i = 0; i < H_BUF; i++) {
    uint64_t v = nd ();
    data->u.decode.ind2pos[i] = (uint32_t) v;
    data->buf[i] = (uint8_t) (v >> 32);
  }
  int c = reduce_decode_get (data);
  uint32_t p = data->buf_bound;
  int eof = data->u.decode.eof_p, trailer_ok = 0;
  if (eof) {
    H_ASSERT (h_rpos >= 3 + 9 && h_rpos <= h_slen, "trailer: prefix and 9 more bytes were consumed");
    H_ASSUME (h_rpos >= 3 + 9 && h_rpos <= H_N);
    trailer_ok = h_rpos == h_slen && h_eof_reads >= 1 && h_stream[h_rpos - 9] == 0
                 && h_le64 (&h_stream[h_rpos - 8]) == data->check_hash;
  }
  if (c >= 0) {
    H_WITNESS ("refill delivered bytes");
    H_ASSERT (p >= 1 && p <= H_BUF && data->u.decode.buf_get_pos == 1, "refill: offered chunk is buf[0..buf_bound), first byte taken");
    H_ASSUME (p >= 1 && p <= H_BUF);
    H_ASSERT (c == data->buf[0], "refill: returns buf[0]");
    H_ASSERT (data->check_hash == mir_hash_strict (data->buf, p, h0), "refill: check hash covers exactly the delivered chunk");
    H_ASSERT (data->ok_p == ok0, "refill: ok_p untouched on delivery");
    if (eof) {
      H_WITNESS ("last chunk with trailer");
      H_ASSERT (trailer_ok, "accept: 0 tag, 8 bytes equal to the decoder's check hash, then EOF");
    } else {
      H_WITNESS ("full buffer, more to come");
      H_ASSERT (p == H_BUF, "refill: a chunk without trailer is a full buffer");
    }
  } else if (data->ok_p != 0 || eof) {
    H_WITNESS ("clean end of data");
    H_ASSERT (eof && data->ok_p == ok0 && p == 0 && data->check_hash == h0, "end: nothing delivered, hash unchanged");
    H_ASSERT (trailer_ok, "accept at end: 0 tag, 8 bytes equal to the decoder's check hash, then EOF");
  } else {
    H_WITNESS ("stream rejected");
    H_ASSERT (!eof && data->ok_p == 0, "reject: ok_p cleared");
  }
  int okp = data->ok_p;
  int fin = reduce_decode_finish (&h_alloc, data);
  H_ASSERT ((fin != 0) == (okp && eof), "finish: success iff ok_p and trailer seen (EOF is re-checked)");
  if (fin) H_WITNESS ("decoder accepted");
  H_ASSERT (h_c12_live == 0 && h_c12_allocs == 1, "one allocation, freed once");
  H_WITNESS ("end");
}
