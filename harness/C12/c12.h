/* C12 common part: pre-emption of mir-hash.h, the real mir-reduce.h, allocator, byte-array reader/writer.

   Stand-in for mir_hash_strict (ASSUMPTION, listed in props/C12.py): mir-reduce.h uses the hash (a) to pick a
   dictionary bucket (any function is correct there) and (b) as the check hash, which only has to be the same
   function in encoder and decoder.  The real function puts 64x64 multipliers on symbolic data into every query.
   The stand-in is a rotate-by-8/xor fold that depends on every byte, on the length and on the seed (so, like the
   real one, it is NOT invariant under a different chunking of the data).  Deeper xor mixing (a final avalanche)
   was measured to triple the solver time of the round trip without adding anything to the argument.
   MIR_HASH_UNALIGNED_ACCESS is 0 unless -DH_UNALIGNED=1 (x86-64 builds of /repo have 1: that selects the
   uint32_t-compare variant of _reduce_dict_find_longest).

   memcpy: mir-reduce.h calls memcpy once (back-reference copy in reduce_decode_get).  The call is redirected
   textually (#define memcpy h_memcpy, /repo untouched) to a harness function that
     - natively (-DREPLAY) calls the real memcpy FIRST (ASan reports out-of-bounds and overlapping regions),
     - under CBMC states the C preconditions of memcpy as assertions on the INDICES into data->buf[] and then
       copies with typed accesses data->buf[k].  (A byte-pointer access with a symbolic offset into the 2 KB
       struct reduce_data makes CBMC byte-update the whole object per access: no verdict in 13 GB, measured.)
   Paths on which an assertion of the copy/read model fails end there (assert, then assume): the first
   violation of a path is what is reported. */
#ifndef H_C12_H
#define H_C12_H
#include "h.h"

#define __MIR_HASH__ /* include guard of /repo/mir-hash.h */
#ifndef H_UNALIGNED
#define H_UNALIGNED 0
#endif
#define MIR_HASH_UNALIGNED_ACCESS H_UNALIGNED
static inline uint64_t mir_hash_strict (const void *key, size_t len, uint64_t seed) {
  const uint8_t *p = (const uint8_t *) key;
  uint64_t h = seed ^ ((uint64_t) len << 23) ^ 0x9e3779b97f4a7c15ull;
  for (size_t i = 0; i < len; i++) h = ((h << 8) | (h >> 56)) ^ p[i];
  return h;
}

static void *h_memcpy (void *d, const void *s, size_t n);
#include <assert.h>
#include "mir-alloc.h"
#define memcpy h_memcpy
#if H_CBMC
/* ASSUMPTION (listed in props/C12.py): under CBMC the union {encode, decode} inside struct reduce_data is laid
   out as a struct.  CBMC models a union as its widest member and turns EVERY store to u.decode.* into a
   byte_update of all 2.1 KB followed by re-extraction of all fields of u.encode (curr_symb[2047]!): out of
   memory at 13 GB for an 8-byte stream, 25 s with this line (measured).  Sound here because no function of
   mir-reduce.h type-puns: reduce_encode_* / _reduce_* touch only u.encode, reduce_decode_* only u.decode, and
   no harness uses one object for both.  Only sizes/offsets change; buf[] stays the last member.  The native
   replay keeps the real union. */
#define union struct
#endif
#include "mir-reduce.h"
#undef union
#undef memcpy

#define H_BUF _REDUCE_BUF_LEN
#define H_BUF_OFF offsetof (struct reduce_data, buf)

/* allocator: exactly one live object of the real type; buf[] is its last member (no tail padding, asserted in
   the harnesses), so a write behind buf[] leaves the object both for CBMC and for ASan */
static struct reduce_data *h_data; /* the live object */
static int h_c12_live, h_c12_allocs;
static void *h_c12_malloc (size_t n, void *ud) {
  (void) ud;
  H_ASSERT (n == sizeof (struct reduce_data), "allocation request is sizeof (struct reduce_data)");
  H_ASSERT (h_c12_live == 0, "one live reduce_data at a time");
  h_c12_live++; h_c12_allocs++;
  h_data = malloc (sizeof (struct reduce_data));
  H_ASSUME (h_data != NULL);
  return h_data;
}
static void *h_c12_calloc (size_t a, size_t b, void *ud) { (void) a; (void) b; (void) ud; H_ASSERT (0, "calloc is not used"); return NULL; }
static void *h_c12_realloc (void *p, size_t o, size_t n, void *ud) { (void) p; (void) o; (void) n; (void) ud; H_ASSERT (0, "realloc is not used"); return NULL; }
static void h_c12_free (void *p, void *ud) {
  (void) ud;
  H_ASSERT (p == (void *) h_data && h_c12_live == 1, "free of the live reduce_data");
  h_c12_live--; h_data = NULL; free (p);
}
static struct MIR_alloc h_alloc = {h_c12_malloc, h_c12_calloc, h_c12_realloc, h_c12_free, NULL};

/* index into h_data->buf[] of a pointer (may be out of range; wraps to a huge value below buf) */
#if H_CBMC
#define H_IN_DATA(p) (h_data != NULL && __CPROVER_same_object ((p), h_data))
#define H_BUF_IX(p) ((uint64_t) __CPROVER_POINTER_OFFSET (p) - (uint64_t) H_BUF_OFF)
#else
#define H_IN_DATA(p) (h_data != NULL && (uintptr_t) (p) - (uintptr_t) h_data < sizeof (struct reduce_data))
#define H_BUF_IX(p) ((uint64_t) ((uintptr_t) (p) - (uintptr_t) h_data->buf))
#endif
#define H_RANGE_OK(k, n) ((k) <= H_BUF && (n) <= H_BUF - (k))
/* -DH_COPY_ASSUMED (obligations whose subject is not memory safety): the preconditions of the copy/read models
   are assumed instead of asserted, i.e. the obligation is stated relative to obligation 1 (decode.safety) */
#ifdef H_COPY_ASSUMED
#define H_MASSERT(c, m) H_ASSUME (c)
#else
#define H_MASSERT(c, m) H_ASSERT (c, m)
#endif
/* -DH_FOCUS=k (diagnostic split of decode.safety): only the k-th precondition of the back-reference copy is
   asserted, the others are assumed, so that each defect gets a counterexample of its own
   (1 destination range, 2 source range, 3 overlap, 4 source before destination; 0/undefined = all asserted) */
#ifndef H_FOCUS
#define H_FOCUS 0
#endif
#define H_MCHK(k, c, m) do { if (H_FOCUS == 0 || H_FOCUS == (k)) H_MASSERT (c, m); } while (0)
#define H_MASM(k, c) do { if (H_FOCUS != 0 && H_FOCUS != (k)) H_ASSUME (c); } while (0)

static int h_copies; /* back-reference copies done */
static void *h_memcpy (void *d, const void *s, size_t n) {
#if !H_CBMC
  memcpy (d, s, n); /* the real one: ASan checks both ranges and overlap */
#endif
  H_MASSERT (H_IN_DATA (d), "memcpy destination is in struct reduce_data");
  uint64_t dk = H_BUF_IX (d), sk = H_IN_DATA (s) ? H_BUF_IX (s) : UINT64_MAX;
#define H_C1 H_RANGE_OK (dk, n)
#define H_C2 H_RANGE_OK (sk, n)
#define H_C3 (sk + n <= dk || dk + n <= sk)
#define H_C4 (!(H_C1 && H_C2) || sk + n <= dk)
  H_MASM (1, H_C1); H_MASM (2, H_C2); H_MASM (3, H_C3); /* focus: the other preconditions first (4 implies 3) */
  H_MCHK (1, H_C1, "back-reference copy: destination range inside buf[]");
  H_MCHK (2, H_C2, "back-reference copy: source range inside buf[]");
  H_MCHK (3, !(H_C1 && H_C2) || H_C3, "back-reference copy: memcpy regions do not overlap");
  H_MCHK (4, H_C4, "back-reference copy: source lies in the part of buf[] produced before the destination");
#if H_CBMC
  H_ASSUME (H_RANGE_OK (dk, n) && H_RANGE_OK (sk, n) && sk + n <= dk);
  for (size_t i = 0; i < n; i++) h_data->buf[dk + i] = h_data->buf[sk + i];
#endif
  h_copies++;
  return d;
}

/* the compressed stream: a harness array; the reader delivers min (len, rest) bytes, 0 at EOF, forever.
   A read into struct reduce_data must have its whole requested range inside buf[] (the only place
   mir-reduce.h reads into); typed accesses for the same reason as in h_memcpy. */
#ifndef H_N
#define H_N 12
#endif
static uint8_t h_stream[H_N];
static size_t h_slen, h_rpos;
static int h_eof_reads; /* number of reads that returned fewer bytes than asked for */
static size_t h_reader (void *start, size_t len, void *aux) {
  (void) aux;
  size_t rest = h_slen - h_rpos, i;
  /* loops are written "i < len, break at EOF" so that a constant len (1, 3, 8) bounds the unwinding by itself */
  if (H_IN_DATA (start)) {
    uint64_t k = H_BUF_IX (start);
    H_MASSERT (H_RANGE_OK (k, len), "read target range inside buf[]");
#if H_CBMC
    H_ASSUME (H_RANGE_OK (k, len));
    for (i = 0; i < len; i++) {
      if (i >= rest) break;
      h_data->buf[k + i] = h_stream[h_rpos + i];
    }
#else
    for (i = 0; i < len && i < rest; i++) ((uint8_t *) start)[i] = h_stream[h_rpos + i];
#endif
  } else
    for (i = 0; i < len; i++) {
      if (i >= rest) break;
      ((uint8_t *) start)[i] = h_stream[h_rpos + i];
    }
  h_rpos += i;
  if (i < len) h_eof_reads++;
  return i;
}
#endif
