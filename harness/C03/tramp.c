/* C03 (1): transparency of every trampoline that sits between a caller and MIR code, decided on the REAL bytes
   (tools/mirgen-dump --trampolines: _MIR_get_thunk + _MIR_redirect_thunk short / long / long-then-short,
   _MIR_get_wrapper + _MIR_get_wrapper_end, _MIR_get_bb_thunk, _MIR_replace_bb_thunk, _MIR_get_bb_wrapper), lifted.

   Entry state fully symbolic: 16 GPRs, xmm0-15 (all 128 bits each), flags, 64 bytes of stack from rsp upwards
   (return address + the caller's words), rsp % 16 == 8 (default, as after a call) or == 0 (-DH_ALIGN0).
   The C hook (x86_call) records its arguments and rsp, clobbers every caller-saved register (incl. all xmm and the
   flags) and returns an arbitrary address T.
   Asserted: control arrives at the expected address (the thunk's target / T returned by the hook) with
   rdi rsi rdx rcx r8 r9 rax, xmm0-7 (128 bits), rbx rbp r12-r15, rsp and the 64 stack bytes equal to their entry
   values; the hook received the documented arguments (wrapper: ctx, func item; bb wrapper: data, r10) with
   rsp % 16 == 0; nothing below... (no claim about memory below rsp).
   -DTRAMP: 0 thunk_short  1 thunk_long  2 thunk_long_then_short  3 wrapper + wrapper_end  4 bb_thunk (+ bb_wrapper)
            5 bb_thunk_replaced  6 bb_wrapper alone
   H_T_* = jump targets recorded in the dump (passed by props/C03.py). */
#define X86_MEM_HOOK
#define H_XMM_HI_EACH
#include "h.h"
#include "lift_rt.h"
#include ABI_LIFTED
#include "sysv_call_ref.h"
#include "abih.h"

#ifndef TRAMP
#define TRAMP 0
#endif

static uint64_t h_hook_rsp, h_hook_rdi, h_hook_rsi, h_hook_ret, h_hook_target;
static int h_hook_calls;

void x86_call (x86_state *s, uint64_t target) {
  h_hook_calls++;
  h_hook_target = target;
  h_hook_rsp = s->r[4] + 8; /* rsp at the call instruction */
  h_hook_rdi = s->r[7]; h_hook_rsi = s->r[6];
  h_havoc_caller_saved (s);
  h_hook_ret = s->r[0]; /* arbitrary address T */
  s->r[4] += 8;
}

static uint64_t h_rsp0, h_above[8];
static void h_check_transparent (const x86_state *s, int rax_too, int r10_r11_too) {
  H_ASSERT (s->r[4] == h_rsp0, "rsp as at entry");
  H_ASSERT (s->r[7] == h_in.r[7] && s->r[6] == h_in.r[6] && s->r[2] == h_in.r[2] && s->r[1] == h_in.r[1] && s->r[8] == h_in.r[8]
              && s->r[9] == h_in.r[9], "rdi rsi rdx rcx r8 r9 as at entry");
  if (rax_too) H_ASSERT (s->r[0] == h_in.r[0], "rax (al of a variadic call) as at entry");
  if (r10_r11_too) H_ASSERT (s->r[10] == h_in.r[10] && s->r[11] == h_in.r[11], "r10 r11 as at entry");
  H_ASSERT (h_callee_saved_ok (s), "rbx rbp r12-r15 as at entry");
  for (int i = 0; i < 8; i++)
    H_ASSERT (s->xmm[i][0] == h_in.xmm[i][0] && s->xmm[i][1] == h_in.xmm[i][1], "xmm0-7 as at entry (all 128 bits)");
  for (int i = 0; i < 8; i++) H_ASSERT (X86_M64 (h_rsp0 + 8 * i) == h_above[i], "the caller's stack (64 bytes from rsp) unchanged");
  H_ASSERT (s->fdepth == 0, "x87 stack untouched");
}

void harness (void) {
  x86_state s;
  h_nregions = 0;
  h_map (H_STACK_BASE, 8 * H_STACK_WORDS, h_stack);
  h_enter (&s);
#ifdef H_ALIGN0
  s.r[4] += 8; /* rsp % 16 == 0 */
  h_in = s;
#endif
  h_rsp0 = s.r[4];
  for (int i = 0; i < 8; i++) { X86_M64 (h_rsp0 + 8 * i) = nd (); h_above[i] = X86_M64 (h_rsp0 + 8 * i); }

#if TRAMP == 0 || TRAMP == 1 || TRAMP == 2 || TRAMP == 5
#if TRAMP == 0
  lift_thunk_short (&s);
  H_ASSERT ((s.exit_kind == X86_EXIT_JUMP || s.exit_kind == X86_EXIT_INDIRECT) && s.exit_target == H_T_SHORT, "short thunk: control arrives at the redirect target");
  h_check_transparent (&s, 1, 1);
#elif TRAMP == 1
  lift_thunk_long (&s);
  H_ASSERT ((s.exit_kind == X86_EXIT_JUMP || s.exit_kind == X86_EXIT_INDIRECT) && s.exit_target == H_T_LONG, "long thunk: control arrives at the redirect target");
  h_check_transparent (&s, 1, 0); /* r11 carries the target */
  H_ASSERT (s.r[10] == h_in.r[10], "long thunk: r10 as at entry");
#elif TRAMP == 2
  lift_thunk_long_then_short (&s);
  H_ASSERT ((s.exit_kind == X86_EXIT_JUMP || s.exit_kind == X86_EXIT_INDIRECT) && s.exit_target == H_T_LTS, "thunk redirected far then near: control arrives at the last target");
  h_check_transparent (&s, 1, 1);
#else
  lift_bb_thunk_replaced (&s);
  H_ASSERT ((s.exit_kind == X86_EXIT_JUMP || s.exit_kind == X86_EXIT_INDIRECT) && s.exit_target == H_T_BBR, "replaced bb thunk: control arrives at the new target");
  h_check_transparent (&s, 1, 1);
#endif
  H_ASSERT (h_hook_calls == 0, "no call");
#elif TRAMP == 3
  lift_wrapper (&s);
  H_ASSERT (s.exit_kind == X86_EXIT_JUMP && s.exit_target == LIFT_WRAPPER_END_ADDR, "wrapper jumps to ctx->wrapper_end_addr");
  lift_wrapper_end (&s);
  H_ASSERT (h_hook_calls == 1 && h_hook_target == LIFT_SYM_fake_hook, "the hook given to _MIR_get_wrapper is called exactly once");
  H_ASSERT (h_hook_rdi == LIFT_SYM_ctx && h_hook_rsi == LIFT_SYM_fake_func_item, "hook receives (ctx, func_item)");
  H_ASSERT (h_hook_rsp % 16 == 0, "rsp 16-byte aligned at the hook call");
  H_ASSERT (s.exit_kind == X86_EXIT_INDIRECT && s.exit_target == h_hook_ret, "control continues at the address the hook returned");
  h_check_transparent (&s, 1, 0); /* r10 carries the target */
#elif TRAMP == 4 || TRAMP == 6
#if TRAMP == 4
  lift_bb_thunk (&s);
  H_ASSERT (s.exit_kind == X86_EXIT_JUMP && s.exit_target == LIFT_BB_WRAPPER_ADDR, "bb thunk jumps to the bb wrapper it was created with");
  H_ASSERT (s.r[10] == LIFT_SYM_fake_bb_version, "bb thunk: r10 = the bb version");
  h_in.r[10] = s.r[10];
#endif
  lift_bb_wrapper (&s);
  H_ASSERT (h_hook_calls == 1 && h_hook_target == LIFT_SYM_fake_bb_hook, "the hook given to _MIR_get_bb_wrapper is called exactly once");
  H_ASSERT (h_hook_rdi == LIFT_SYM_fake_bb_data && h_hook_rsi == h_in.r[10], "hook receives (data, r10)");
  H_ASSERT (h_hook_rsp % 16 == 0, "rsp 16-byte aligned at the hook call");
  H_ASSERT (s.exit_kind == X86_EXIT_INDIRECT && s.exit_target == h_hook_ret, "control continues at the address the hook returned");
  h_check_transparent (&s, 1, 0);
  H_ASSERT (s.r[11] == h_in.r[11], "bb wrapper: r11 as at entry (it saves every clobbered register but r10)");
#ifdef H_BB_XMM8_15
  for (int i = 8; i < 16; i++) H_ASSERT (s.xmm[i][0] == h_in.xmm[i][0] && s.xmm[i][1] == h_in.xmm[i][1], "bb wrapper: xmm8-15 as at entry");
#endif
#else
#error unknown TRAMP
#endif
  H_WITNESS ("end of harness reached");
}
