/* C03 (2): thunk retargeting arithmetic, E1 harness on the REAL _MIR_redirect_thunk / _MIR_get_thunk_addr /
   _MIR_replace_bb_thunk of mir-x86_64.c and the REAL _MIR_change_code / _MIR_set_code of mir.c.

   "The public address stays valid across the switch of interface": after _MIR_redirect_thunk (thunk, to) the 13
   bytes at `thunk` decode to a jump whose target is exactly `to`, for EVERY pair of addresses, and
   _MIR_get_thunk_addr (thunk) reports `to`.

   Encoding: `thunk` = T and `to` = X are symbolic 64-bit INTEGER addresses cast to pointers, 4096 <= T, X < 2^47
   (user-space addresses).  The real code only subtracts them, converts them to integers and copies `to`'s bytes;
   the one place that writes THROUGH thunk is the memcpy inside _MIR_set_code (reached from the real
   _MIR_change_code with a harness MIR_code_alloc whose mem_protect is a no-op, page size 4096).  memcpy is
   replaced (macro, before the TU is included) by h_memcpy, which diverts destinations inside [T-16, T+32) into the
   harness array h_code and is an ordinary byte copy otherwise -- this is the "code memory = harness buffer" stub.
   (CBMC represents a pointer as object + 56-bit unsigned offset; integer-derived pointers of this range are exact
   in that model, whereas  real_object + negative_delta  is not, which is why the addresses are integers.)
   _MIR_get_thunk_addr reads through its argument directly, so it is run on h_code itself (the captured bytes);
   its result must be `to`.
   The decoder knows exactly the two forms a thunk can take:
        e9 rel32                          jmp  T + 5 + sext (rel32)
        49 bb imm64  41 ff e3             movabs r11, imm64 ; jmp r11
   -DOP=0  fresh thunk -> redirect (thunk, to)
   -DOP=1  redirect to `to0` first (symbolic: both the long->short and the short->long switch occur), then to `to`
   -DOP=2  _MIR_replace_bb_thunk (thunk, to) on the 15-byte bb-thunk pattern, under its (unwritten) precondition that
           the displacement fits in 32 bits; -DH_NO_RANGE drops the precondition (fails: the function has no range check) */
#include "h.h"

static uint8_t h_code[48];
static uint64_t h_T; /* integer address of the thunk; bytes written to [h_T - 16, h_T + 32) land in h_code */
static int h_diverted;
static void *h_memcpy (void *d, const void *s, size_t n) {
  uint64_t da = (uint64_t) (uintptr_t) d;
  if (h_T != 0 && da >= h_T - 16 && da + n <= h_T + 32) {
    for (size_t i = 0; i < n; i++) h_code[(da - (h_T - 16)) + i] = ((const uint8_t *) s)[i];
    h_diverted++;
    return d;
  }
  for (size_t i = 0; i < n; i++) ((uint8_t *) d)[i] = ((const uint8_t *) s)[i];
  return d;
}
#if H_CBMC
/* _MIR_flush_code_cache calls this gcc builtin (a no-op on x86-64); CBMC 6 reports a call without body as a failed property */
void __builtin___clear_cache (void *a, void *b) { (void) a; (void) b; }
#endif
#define memcpy h_memcpy
#include "mir.c"
#undef memcpy

#ifndef OP
#define OP 0
#endif

static int h_protect_calls;
static int h_mem_protect (void *a, size_t n, MIR_mem_protect_t p, void *ud) { (void) a; (void) n; (void) p; (void) ud; h_protect_calls++; return 0; }
static struct MIR_code_alloc h_code_alloc = {NULL, NULL, h_mem_protect, NULL};
static struct MIR_context h_ctx;
static struct machine_code_ctx h_mc;

/* target of the jump encoded at p when those bytes sit at address `at`; 0 = not one of the two thunk forms */
static int h_decode (const uint8_t *p, uint64_t at, uint64_t *target) {
  if (p[0] == 0xe9) {
    uint32_t rel = (uint32_t) p[1] | (uint32_t) p[2] << 8 | (uint32_t) p[3] << 16 | (uint32_t) p[4] << 24;
    *target = at + 5 + (uint64_t) (int64_t) (int32_t) rel;
    return 1;
  }
  if (p[0] == 0x49 && p[1] == 0xbb && p[10] == 0x41 && p[11] == 0xff && p[12] == 0xe3) {
    uint64_t imm = 0;
    for (int i = 0; i < 8; i++) imm |= (uint64_t) p[2 + i] << (8 * i);
    *target = imm;
    return 2;
  }
  return 0;
}
static uint64_t h_addr (void) {
  uint64_t a = nd ();
  H_ASSUME (a >= 4096 && a < ((uint64_t) 1 << 47));
  return a;
}

void harness (void) {
  MIR_context_t ctx = &h_ctx;
  uint64_t target = 0, T = h_addr (), X = h_addr ();
  uint8_t *thunk = (uint8_t *) (uintptr_t) T, *code = &h_code[16];
  void *to = (void *) (uintptr_t) X;
  int64_t disp = (int64_t) (X - (T + 5));
  int form;
  ctx->code_alloc = &h_code_alloc;
  ctx->machine_code_ctx = &h_mc;
  page_size = 4096;
  h_T = T;
  for (int i = 0; i < 48; i++) h_code[i] = 0xcc;
#if OP == 0 || OP == 1
  for (unsigned i = 0; i < sizeof (short_jmp_pattern); i++) code[i] = short_jmp_pattern[i]; /* what _MIR_get_thunk publishes */
#if OP == 1
  uint64_t X0 = h_addr ();
  _MIR_redirect_thunk (ctx, thunk, (void *) (uintptr_t) X0);
  H_ASSERT (_MIR_get_thunk_addr (ctx, code) == (void *) (uintptr_t) X0, "_MIR_get_thunk_addr reports the first target");
#endif
  _MIR_redirect_thunk (ctx, thunk, to);
  form = h_decode (code, T, &target);
  H_ASSERT (form != 0, "the thunk is one of the two jump forms");
  H_ASSERT (target == X, "the thunk jumps exactly to `to`");
  H_ASSERT (_MIR_get_thunk_addr (ctx, code) == to, "_MIR_get_thunk_addr reports `to`");
  if (disp >= INT32_MIN && disp <= INT32_MAX) { H_ASSERT (form == 1, "rel32 form when the displacement fits"); H_WITNESS ("short form reached"); }
  else { H_ASSERT (form == 2, "movabs form when the displacement does not fit in 32 bits"); H_WITNESS ("long form reached"); }
  for (int i = 16 + 13; i < 48; i++) H_ASSERT (h_code[i] == 0xcc, "bytes after the 13-byte thunk untouched");
#elif OP == 2
  static const uint8_t bb_pat[] = {0x49, 0xba, 1, 2, 3, 4, 5, 6, 7, 8, 0xe9, 0, 0, 0, 0}; /* shape of _MIR_get_bb_thunk's code */
  for (unsigned i = 0; i < sizeof (bb_pat); i++) code[i] = bb_pat[i];
#ifndef H_NO_RANGE
  H_ASSUME (disp >= INT32_MIN && disp <= INT32_MAX);
#endif
  _MIR_replace_bb_thunk (ctx, thunk, to);
  form = h_decode (code, T, &target);
  H_ASSERT (form == 1, "replaced bb thunk is a jmp rel32");
  H_ASSERT (target == X, "replaced bb thunk jumps exactly to `to`");
  for (int i = 16 + 5; i < 16 + 15; i++) H_ASSERT (h_code[i] == bb_pat[i - 16], "the rest of the old bb thunk is left alone");
  for (int i = 16 + 15; i < 48; i++) H_ASSERT (h_code[i] == 0xcc, "bytes after the thunk untouched");
#endif
  for (int i = 0; i < 16; i++) H_ASSERT (h_code[i] == 0xcc, "bytes before the thunk untouched");
  H_ASSERT (h_diverted > 0, "the code bytes were written through _MIR_set_code's memcpy");
  H_ASSERT (h_protect_calls % 2 == 0 && h_protect_calls > 0, "code pages were opened and closed again");
  H_WITNESS ("end of harness reached");
}
