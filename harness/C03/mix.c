/* C03 / switching engines on one function: a function that has been run by MIR_interp (the interpreter keeps its
   func_desc in func_item->data) is then asked for machine code (MIR_gen directly, or the first call through its public
   address under the lazy-generation interface, which calls the same generate_func_code).  C03: "a function's public
   address stays valid and callable", for "any order of first calls".  Checked here: the entry of the REAL
   generate_func_code (mir-gen.c) accepts such a function and reaches code generation proper.
   Everything behind the entry checks is cut (the generating pipeline is not encoded): _MIR_duplicate_func_insns, the
   first thing the generating path calls, is a stub that marks "generation reached" and ends the path. */
#define MIR_NO_INTERP 1
#define MIR_NO_IO 1
#define MIR_NO_SCAN 1
#include "h.h"
#include <sys/time.h>
#if H_CBMC
static int h_gettimeofday (struct timeval *tv) { tv->tv_sec = 0; tv->tv_usec = 0; return 0; }
#define gettimeofday(tv, tz) h_gettimeofday (tv)
#endif
#include "mir-gen.c"

static int h_generation_reached;
void _MIR_duplicate_func_insns (MIR_context_t ctx, MIR_item_t func_item) {
  (void) ctx; (void) func_item;
  h_generation_reached = 1;
  H_WITNESS ("code generation proper reached");
#if H_CBMC
  __CPROVER_assume (0); /* the pipeline behind is not encoded */
#else
  exit (0);
#endif
}
void _MIR_redirect_thunk (MIR_context_t ctx, void *thunk, void *to) { (void) ctx; (void) thunk; (void) to; }

static struct gen_ctx h_gen;
static gen_ctx_t h_ctx_word;
static struct MIR_item h_item;
static struct MIR_func h_func;
static struct MIR_insn h_insn;
static uint64_t h_interp_desc[4];

void harness (void) {
  MIR_context_t ctx = (MIR_context_t) &h_ctx_word;
  h_ctx_word = &h_gen;
  h_gen.ctx = ctx;
  h_item.item_type = MIR_func_item; h_item.u.func = &h_func; h_item.addr = (void *) h_interp_desc;
  h_item.data = nd_bool () ? (void *) h_interp_desc : NULL; /* interpreted before (func_desc attached) or not */
  h_func.func_item = &h_item; h_func.name = "f"; h_func.machine_code = NULL; h_func.call_addr = NULL;
  h_insn.code = MIR_RET; h_insn.nops = 0;
  DLIST_INIT (MIR_insn_t, h_func.insns);
  DLIST_INIT (MIR_insn_t, h_func.original_insns);
  DLIST_APPEND (MIR_insn_t, h_func.insns, &h_insn);
  (void) MIR_gen (ctx, &h_item);
  H_ASSERT (0, "MIR_gen returned without generating (unreachable: the stub ends the path)");
}
