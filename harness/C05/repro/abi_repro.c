/* abi_repro.c -- NATIVE reproduction of the defects C05 / C06 found (not part of any verdict).
   Loads a textual MIR module through the public API, resolves imports to the C functions below (compiled by
   gcc = the C ABI), runs `main` under the interpreter interface or as generated code.
     gcc -O1 -w -DNDEBUG -I/repo -o abi_repro abi_repro.c /repo/mir.c /repo/mir-gen.c -lm -ldl -lpthread
     ./abi_repro interp abi_blk_ffcall.mir          # blk1 / blk3 / blk4 through _MIR_get_ff_call: wrong values
     ./abi_repro gen2   abi_blk_ffcall.mir          # generated code: correct
     ./abi_repro interp|gen2 abi_ld_align_and_al.mir  # long double after an odd number of stack words; %al with block varargs
     ./abi_repro interp|gen2 ../../E3/repro/va_start_*.mir
     ./abi_repro interp|gen2 va_start_named_blocks.mir   # C caller -> variadic MIR function with named by-value blocks
     gcc -g -fsanitize=address ... ; ./abi_repro interp call_70_args.mir   # heap-buffer-overflow in call() (mir-interp.c:1802)
*/
#include <stdio.h>
#include <stdlib.h>
#include <string.h>
#include <stdarg.h>
#include "mir.h"
#include "mir-gen.h"

struct s_i { long x; };
struct s_ii { long x, y; };
struct s_dd { double x, y; };
struct s_id { long i; double d; };
struct s_di { double d; long i; };
struct s_3i { int a, b, c; };

double c_blk1_d (struct s_i s, double d) { return d + (double) s.x * 0; }
double c_blk1_blk2 (struct s_i s, struct s_dd t) { return t.x * 1000 + t.y + (double) s.x * 0; }
double c_blk3 (struct s_id s) { return s.d * 1000 + (double) s.i; }
double c_blk4_d (long a, struct s_di s, double d) { return s.d * 1000000 + (double) s.i * 1000 + d + (double) a * 0; }
double c_d7_blk3 (double a, double b, double c, double d, double e, double f, double g, struct s_id s) { return a * 1000000 + s.d * 1000 + (double) s.i; }
long double c_i7_ld (long a, long b, long c, long d, long e, long f, long g, long double x) { return x + (long double) (a + b + c + d + e + f) * 0 + (long double) g * 1000; }
double c_va_blk2 (long n, ...) { va_list ap; va_start (ap, n); struct s_dd s = va_arg (ap, struct s_dd); va_end (ap); return s.x * 1000 + s.y; }
double c_va_blk3 (long n, ...) { va_list ap; va_start (ap, n); struct s_id s = va_arg (ap, struct s_id); va_end (ap); return s.d * 1000 + (double) s.i; }
long c_sum70 (long a0, ...) { return a0; }

static void *resolve (const char *name) {
#define R(f) if (strcmp (name, #f) == 0) return (void *) f;
  R (c_blk1_d) R (c_blk1_blk2) R (c_blk3) R (c_blk4_d) R (c_d7_blk3) R (c_i7_ld) R (c_va_blk2) R (c_va_blk3) R (c_sum70) R (printf) R (abort)
  fprintf (stderr, "unresolved %s\n", name); exit (2);
}

static char *slurp (const char *p) { FILE *f = fopen (p, "rb"); if (!f) { perror (p); exit (2); } fseek (f, 0, SEEK_END); long n = ftell (f); rewind (f); char *s = malloc (n + 1); fread (s, 1, n, f); s[n] = 0; fclose (f); return s; }

int main (int argc, char **argv) {
  const char *mode = argv[1]; /* interp | gen<level> */
  for (int k = 2; k < argc; k++) {
    MIR_context_t ctx = MIR_init ();
    MIR_scan_string (ctx, slurp (argv[k]));
    MIR_module_t m = DLIST_TAIL (MIR_module_t, *MIR_get_module_list (ctx));
    MIR_item_t main_item = NULL;
    for (MIR_item_t it = DLIST_HEAD (MIR_item_t, m->items); it != NULL; it = DLIST_NEXT (MIR_item_t, it))
      if (it->item_type == MIR_func_item && strcmp (it->u.func->name, "main") == 0) main_item = it;
    MIR_load_module (ctx, m);
    if (strcmp (mode, "interp") == 0) {
      MIR_link (ctx, MIR_set_interp_interface, resolve);
    } else {
      MIR_gen_init (ctx);
      MIR_gen_set_optimize_level (ctx, mode[3] ? mode[3] - '0' : 2);
      MIR_link (ctx, MIR_set_gen_interface, resolve);
    }
    for (MIR_item_t it = DLIST_HEAD (MIR_item_t, m->items); it != NULL; it = DLIST_NEXT (MIR_item_t, it))
      if (it->item_type == MIR_func_item && strcmp (it->u.func->name, "fld") == 0) {
        long double v = ((long double (*) (long, long, long, long, long, long, long, long double)) it->addr) (1, 2, 3, 4, 5, 6, 7, 0.5L);
        printf ("D3 C -> MIR  long double fld(7 x long, long double 0.5) called from C -> %Lg (expected 7000.5)\n", v);
      }
    for (MIR_item_t it = DLIST_HEAD (MIR_item_t, m->items); it != NULL; it = DLIST_NEXT (MIR_item_t, it)) {
      if (it->item_type == MIR_func_item && strcmp (it->u.func->name, "fvb") == 0) {
        struct s_ii s = {11, 22};
        long v = ((long (*) (long, struct s_ii, ...)) it->addr) (1, s, 777L, 888L);
        printf ("D7 C -> MIR  long fvb(long, struct{long 11,long 22}, ...) first va_arg(long) -> %ld (expected 777)\n", v);
      }
      if (it->item_type == MIR_func_item && strcmp (it->u.func->name, "fvo") == 0) {
        struct s_3i s = {1, 2, 3};
        long v = ((long (*) (long, long, long, long, long, long, struct s_3i, ...)) it->addr) (1, 2, 3, 4, 5, 6, s, 777L, 888L);
        printf ("D7 C -> MIR  long fvo(6 x long, struct{int,int,int} (12 bytes, memory), ...) first va_arg(long) -> %ld (expected 777)\n", v);
      }
    }
    long r = ((long (*) (void)) main_item->addr) ();
    printf ("%s %s: main returned %ld\n", mode, argv[k], r);
    fflush (stdout);
    if (strcmp (mode, "interp") != 0) MIR_gen_finish (ctx);
    MIR_finish (ctx);
  }
  return 0;
}
