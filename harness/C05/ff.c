/* C05 (a): calls from INTERPRETED MIR code to native functions follow the C ABI.

   Real code executed symbolically:
     * call() of mir-interp.c (argument narrowing by prototype type, result widening) -- the real function,
       reached through #include "mir.c", with a hand-built interp_ctx (no MIR_init) and the icode's ffi slot
       pre-filled with h_ff(), so that get_ff_interface() (hash table + code publishing) is not entered;
     * the machine code the real _MIR_get_ff_call emitted for exactly this prototype (tools/mirgen-dump
       --trampolines, lifted by tools/x86lift.py): h_ff() runs it on an x86_state whose registers, flags and
       stack are symbolic, with rdi = callee address and rsi = address of call()'s call_res_args array.
   At the trampoline's `call *%r11` (x86_call below) the whole ABI-visible state is compared with
   ref/sysv_call_ref.h; the stub then returns symbolic results in the registers the oracle names, clobbers
   everything a C callee may clobber, and after call() returned the result slots of the MIR frame must hold
   the values widened per result type.

   Selected by ABI_CASES (generated table + entry functions) and ABI_LIFTED (lifted trampolines). */
#define X86_MEM_HOOK
#include "h.h"
#include "mir.c"
#include "lift_rt.h"
#include ABI_LIFTED
#include "sysv_call_ref.h"
#include "abih.h"

#define H_CALLEE_ADDR 0x0000300000000100ull
#define H_RA_BASE 0x00007ffe00000000ull
#define H_BLK_BASE 0x00007fff00000000ull
#define H_BLK_STRIDE 32

static struct MIR_context h_ctx;
static struct interp_ctx h_ictx;
#define H_CRA_N (SC_MAX_ARGS + SC_MAX_RES + 2)
static MIR_val_t h_arg_vals_buf[SC_MAX_ARGS + 1];
static uint64_t h_cra_cells[2 * H_CRA_N]; /* call_res_args: 16-byte MIR_val_t slots kept as typed 8-byte cells (cheap for CBMC) */
#define h_cra_buf ((MIR_val_t *) h_cra_cells)
static _MIR_arg_desc_t h_descs_buf[SC_MAX_ARGS + 1];
static VARR (MIR_val_t) h_arg_vals_varr = {0, SC_MAX_ARGS + 1, h_arg_vals_buf, NULL};
static VARR (MIR_val_t) h_cra_varr = {0, H_CRA_N, (MIR_val_t *) h_cra_cells, NULL};
static VARR (_MIR_arg_desc_t) h_descs_varr = {0, SC_MAX_ARGS + 1, h_descs_buf, NULL};
static MIR_var_t h_vars_buf[SC_MAX_ARGS + 1];
static VARR (MIR_var_t) h_vars_varr = {0, SC_MAX_ARGS + 1, h_vars_buf, NULL};
static MIR_type_t h_res_types[SC_MAX_RES];
#define h_blk h_arg_blk /* block arguments live where the expected values are: abih.h's h_arg_blk, stride 32 bytes */

static const h_case_t *h_case;
static sc_call_t h_locs;
static uint8_t h_reslocs[SC_MAX_RES];
static int h_native_calls, h_ff_calls;

static MIR_type_t h_mir_type (unsigned t) {
  switch (t) {
  case SC_I8: return MIR_T_I8; case SC_U8: return MIR_T_U8; case SC_I16: return MIR_T_I16; case SC_U16: return MIR_T_U16;
  case SC_I32: return MIR_T_I32; case SC_U32: return MIR_T_U32; case SC_I64: return MIR_T_I64; case SC_U64: return MIR_T_U64;
  case SC_P: return MIR_T_P; case SC_F: return MIR_T_F; case SC_D: return MIR_T_D; case SC_LD: return MIR_T_LD;
  case SC_RBLK: return MIR_T_RBLK;
  default: return (MIR_type_t) (MIR_T_BLK + (t - SC_BLK0));
  }
}

static void MIR_NO_RETURN h_error (enum MIR_error_type t, const char *fmt, ...) {
  (void) t; (void) fmt;
  H_ASSERT (0, "MIR reported an error");
#if H_CBMC
  __CPROVER_assume (0);
#endif
  exit (98);
}

/* ---- the native callee: checks the ABI state at the call instruction, returns symbolic results ---- */
void x86_call (x86_state *s, uint64_t target) {
  h_native_calls++;
  H_ASSERT (target == H_CALLEE_ADDR, "the trampoline calls the function address it was given");
  h_abi_check_args (s, h_case, &h_locs, s->r[4] + 8); /* the lifted call has pushed the return address */
  h_abi_make_results (s, h_case, h_reslocs);
  s->r[4] += 8; /* ret */
}

/* ---- what call() invokes instead of the published trampoline address: run the lifted trampoline ---- */
static void h_ff (void *addr, void *res_args) {
  x86_state s;
  h_ff_calls++;
  H_ASSERT (res_args == (void *) h_cra_buf, "call() passes its call_res_args array");
  h_enter (&s);
  s.r[7] = (uint64_t) (uintptr_t) addr;
  s.r[6] = H_RA_BASE;
  H_ASSERT (lift_dispatch (&s, h_case->lift_addr), "lifted trampoline exists");
  H_ASSERT (h_native_calls == 1, "exactly one native call");
  H_ASSERT (h_returned (&s), "trampoline returns to its caller with rsp restored");
  H_ASSERT (h_callee_saved_ok (&s), "trampoline preserves rbx rbp r12-r15");
  H_ASSERT (s.fdepth == 0, "x87 stack empty after the trampoline (every long double result popped)");
}

static void h_run_ff_case (const h_case_t *c) {
  MIR_context_t ctx = &h_ctx;
  struct interp_ctx *interp_ctx = &h_ictx;
  static struct MIR_proto proto;
  static struct MIR_item proto_item; /* zero-initialised */
  MIR_val_t bp[SC_MAX_RES + 2], ffi, res_ops[SC_MAX_RES + 1];
  static MIR_op_t ops[SC_MAX_ARGS + 1]; /* insn operands: only read when the ffi slot is empty */

  h_case = c;
  h_native_calls = h_ff_calls = 0;
  sc_assign_args (c->nargs, c->args, &h_locs);
  H_ASSERT (h_locs.ok && sc_assign_results (c->nres, c->res, h_reslocs), "prototype is inside the oracle's domain");
  /* hand-built context: exactly the fields call() touches */
  ctx->interp_ctx = interp_ctx;
  error_func = h_error;
  arg_vals_varr = &h_arg_vals_varr; arg_vals = h_arg_vals_buf;
  call_res_args_varr = &h_cra_varr; call_res_args = h_cra_buf;
  call_arg_descs_varr = &h_descs_varr; call_arg_descs = h_descs_buf;
  h_nregions = 0;
  h_map (H_STACK_BASE, 8 * H_STACK_WORDS, h_stack);
  h_map (H_RA_BASE, sizeof (h_cra_cells), h_cra_cells);
  h_map (H_BLK_BASE, sizeof (h_blk), h_blk);
  /* prototype */
  for (unsigned i = 0; i < c->nres; i++) h_res_types[i] = h_mir_type (c->res[i]);
  for (unsigned i = 0; i < c->nnamed; i++) {
    h_vars_buf[i].type = h_mir_type (c->args[i].type); h_vars_buf[i].name = "a"; h_vars_buf[i].size = c->args[i].size;
  }
  h_vars_varr.els_num = c->nnamed;
  proto.name = "p"; proto.nres = c->nres; proto.res_types = h_res_types; proto.vararg_p = c->vararg; proto.args = &h_vars_varr;
  proto_item.item_type = MIR_proto_item; proto_item.u.proto = &proto;
  /* argument values as eval() leaves them in arg_vals before call() */
  for (unsigned i = 0; i < c->nargs; i++) {
    unsigned t = c->args[i].type;
    h_arg_vals_buf[i].u = nd ();
    if (sc_is_blk_type (t)) {
      h_arg_vals_buf[i].u = H_BLK_BASE + H_BLK_STRIDE * i;
      for (unsigned k = 0; k < H_BLK_STRIDE / 8; k++) h_blk[i][k] = nd ();
    } else if (t == SC_LD) {
      h_arg_ld[i] = h_ld_nd ();
      h_arg_vals_buf[i].ld = h_arg_ld[i];
    }
    h_arg_raw[i] = h_arg_vals_buf[i].u;
  }
  ffi.a = (void *) h_ff;
  for (unsigned i = 0; i < c->nres; i++) res_ops[i].i = 1 + i;
  for (unsigned i = 0; i < SC_MAX_RES + 2; i++) bp[i].u = nd ();

  call (ctx, bp, ops, &ffi, &proto_item, (void *) (uintptr_t) H_CALLEE_ADDR, res_ops, c->nargs);

  H_ASSERT (h_ff_calls == 1, "call() invoked the foreign-function interface once");
  for (unsigned i = 0; i < c->nres; i++) {
    unsigned t = c->res[i];
    if (t == SC_LD) H_ASSERT (h_ld_same (bp[1 + i].ld, h_res_ld[i]), "long double result: st0 / st1 value arrives in its result register");
    else if (t == SC_F) { uint32_t w; memcpy (&w, &bp[1 + i].f, 4); H_ASSERT (w == (uint32_t) h_res_raw[i], "float result: low 32 bits of xmm0 / xmm1"); }
    else if (t == SC_D) H_ASSERT (bp[1 + i].u == h_res_raw[i], "double result: xmm0 / xmm1");
    else H_ASSERT (bp[1 + i].u == sc_extend (t, h_res_raw[i]), "integer result: rax / rdx, extended to 64 bits per result type");
  }
}

#include ABI_CASES
