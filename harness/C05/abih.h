/* abih.h -- shared support of the ABI harnesses (C05, C06, C03) that run code lifted by tools/x86lift.py.

   Include order:  #define X86_MEM_HOOK; h.h; [the real TU]; lift_rt.h; the lifted file; sysv_call_ref.h; abih.h.

   Memory model (-DX86_MEM_HOOK of lift_rt.h): every address the lifted code uses is a plain 64-bit INTEGER.
   The harness registers regions  [base, base+size) -> array of 8-byte cells  with h_map(); an access outside
   every region, or one that straddles two cells (other than a 16-byte long double slot), is a failed
   assertion.  All bases are concrete constants, so that stack-alignment arithmetic (`and rsp,-16`,
   rsp % 16) constant-folds (measured by the E3 author: pointer-derived rsp = no verdict, integer rsp = 0.3 s).

   Stack: h_stack[], addresses H_STACK_BASE + 8*i; entry rsp = address of h_stack[H_STACK_BELOW], which holds
   the fake return address H_RETADDR; H_STACK_BASE is 16-aligned and H_STACK_BELOW is odd, i.e. rsp % 16 == 8
   at entry = the state right after the `call` of a caller that obeyed the ABI.  The words above are the
   caller's frame (stack arguments). */
#ifndef ABIH_H
#define ABIH_H
#ifndef X86_MEM_HOOK
#error "abih.h needs -DX86_MEM_HOOK (define it before lift_rt.h)"
#endif
#define H_RETADDR 0x0000700000001234ull
#ifndef H_STACK_WORDS
#define H_STACK_WORDS 256
#endif
#ifndef H_STACK_BELOW
#define H_STACK_BELOW 191 /* odd: entry rsp % 16 == 8 */
#endif
#define H_STACK_BASE 0x00007ffd00001000ull
#define H_STACK_ADDR(i) (H_STACK_BASE + 8ull * (uint64_t) (i))
#define H_RSP0 H_STACK_ADDR (H_STACK_BELOW)

static uint64_t h_stack[H_STACK_WORDS];

#ifndef H_MAX_REGIONS
#define H_MAX_REGIONS 8
#endif
typedef struct { uint64_t base, size; uint64_t *cells; } h_region_t;
static h_region_t h_regions[H_MAX_REGIONS];
static int h_nregions;
static void h_map (uint64_t base, uint64_t size, void *cells) {
  H_ASSUME (h_nregions < H_MAX_REGIONS);
  h_regions[h_nregions].base = base; h_regions[h_nregions].size = size; h_regions[h_nregions].cells = (uint64_t *) cells;
  h_nregions++;
}
static uint64_t h_dummy_cell[2];
static uint64_t *h_cell (uint64_t a, unsigned size) {
  H_ASSERT ((a & 7) + size <= 8 || (size == 16 && (a & 7) == 0), "lifted code: access straddles an 8-byte cell");
  for (int i = 0; i < h_nregions; i++)
    if (a >= h_regions[i].base && a + size <= h_regions[i].base + h_regions[i].size)
      return &h_regions[i].cells[(a - h_regions[i].base) >> 3];
  H_ASSERT (0, "lifted code: access outside every mapped memory region");
#if H_CBMC
  __CPROVER_assume (0);
#endif
  return h_dummy_cell;
}
uint64_t *x86_mem64 (uint64_t a) { return h_cell (a, 8); }
uint32_t *x86_mem32 (uint64_t a) { return (uint32_t *) h_cell (a, 4) + ((a >> 2) & 1); }
uint16_t *x86_mem16 (uint64_t a) { return (uint16_t *) h_cell (a, 2) + ((a >> 1) & 3); }
uint8_t *x86_mem8 (uint64_t a) { return (uint8_t *) h_cell (a, 1) + (a & 7); }
long double *x86_memld (uint64_t a) { return (long double *) h_cell (a, 16); }

/* ---- long double as bits.  CBMC models long double as binary128 (16 significant bytes), gcc as the x87
   80-bit format (10 significant bytes); everything here moves and compares values bit-wise. ---- */
typedef struct { uint64_t w[2]; } h_ldbits;
static long double h_ld_of_bits (uint64_t lo, uint64_t hi) {
  union { long double ld; uint64_t w[2]; } u;
  u.w[0] = lo;
  u.w[1] = hi & 0xffff; /* only the 80 bits that exist natively vary (CBMC would otherwise find counterexamples that differ in bits 80..127 only) */
  return u.ld;
}
static long double h_ld_nd (void) { /* two nd() calls in a defined order (argument evaluation order differs between CBMC and gcc) */
  uint64_t lo = nd ();
  uint64_t hi = nd ();
  return h_ld_of_bits (lo, hi);
}
static h_ldbits h_bits_of_ld (long double v) {
  union { long double ld; uint64_t w[2]; } u;
  h_ldbits r;
  u.w[0] = u.w[1] = 0;
  u.ld = v;
  r.w[0] = u.w[0];
#if H_CBMC
  r.w[1] = u.w[1];
#else
  r.w[1] = u.w[1] & 0xffff;
#endif
  return r;
}
static int h_ld_same (long double a, long double b) {
  h_ldbits x = h_bits_of_ld (a), y = h_bits_of_ld (b);
  return x.w[0] == y.w[0] && x.w[1] == y.w[1];
}
static long double h_ld_at (uint64_t a) { return x86_ld_load (a); }

/* ---- entry state ---- */
static x86_state h_in; /* copy of the entry state */
static void h_flags_nd (x86_state *s) {
  uint64_t f = nd ();
  s->cf = (int) (f & 1); s->zf = (int) ((f >> 1) & 1); s->sf = (int) ((f >> 2) & 1); s->of = (int) ((f >> 3) & 1); s->pf = (int) ((f >> 4) & 1);
}
/* Entry state: every GPR and the low half of every xmm register has its own symbolic value; the upper xmm halves
   share ONE symbolic value per register bank (xmm0-7 / xmm8-15) unless H_XMM_HI_EACH is defined (C03 needs each):
   they are don't-care inputs of the code under test, a leak into an argument is still caught because the shared
   value is unconstrained. */
static void h_enter (x86_state *s) {
  x86_state_init (s);
  for (int i = 0; i < 16; i++) s->r[i] = nd ();
#ifdef H_XMM_HI_EACH
  for (int i = 0; i < 16; i++) { s->xmm[i][0] = nd (); s->xmm[i][1] = nd (); }
#else
  { uint64_t hi0 = nd (), hi1 = nd ();
    for (int i = 0; i < 16; i++) { s->xmm[i][0] = nd (); s->xmm[i][1] = i < 8 ? hi0 : hi1; } }
#endif
  h_flags_nd (s);
  h_stack[H_STACK_BELOW] = H_RETADDR;
  s->r[4] = H_RSP0;
  if (h_nregions == 0 || h_regions[0].cells != h_stack) {
    H_ASSUME (h_nregions < H_MAX_REGIONS);
    for (int i = h_nregions; i > 0; i--) h_regions[i] = h_regions[i - 1];
    h_regions[0].base = H_STACK_BASE; h_regions[0].size = 8 * H_STACK_WORDS; h_regions[0].cells = h_stack;
    h_nregions++;
  }
  h_in = *s;
}
static int h_returned (const x86_state *s) {
  return s->exit_kind == X86_EXIT_RET && s->exit_target == H_RETADDR && s->r[4] == H_RSP0 + 8;
}
static int h_callee_saved_ok (const x86_state *s) { /* rbx rbp r12-r15 */
  return s->r[3] == h_in.r[3] && s->r[5] == h_in.r[5] && s->r[12] == h_in.r[12] && s->r[13] == h_in.r[13]
         && s->r[14] == h_in.r[14] && s->r[15] == h_in.r[15];
}
/* what a C callee may destroy: rax rcx rdx rsi rdi r8-r11, every xmm register, the arithmetic flags */
static void h_havoc_caller_saved (x86_state *s) {
  s->r[0] = nd (); s->r[1] = nd (); s->r[2] = nd (); s->r[6] = nd (); s->r[7] = nd ();
  s->r[8] = nd (); s->r[9] = nd (); s->r[10] = nd (); s->r[11] = nd ();
#ifdef H_XMM_HI_EACH
  for (int i = 0; i < 16; i++) { s->xmm[i][0] = nd (); s->xmm[i][1] = nd (); }
#else
  { uint64_t hi = nd ();
    for (int i = 0; i < 16; i++) { s->xmm[i][0] = nd (); s->xmm[i][1] = hi; } }
#endif
  h_flags_nd (s);
}

/* ---- prototype cases (generated by tools/gen_protos.py) ---- */
typedef struct {
  const char *name;
  uint64_t lift_addr;         /* start address of the lifted region under test */
  uint8_t nres, res[SC_MAX_RES];
  uint8_t nargs, nnamed, vararg;
  sc_arg_t args[SC_MAX_ARGS];
  /* C06 only (zero elsewhere) */
  uint8_t k_live;             /* values the function keeps live across its inner call */
  uint8_t alloca_mode;        /* 0 none, 1 constant size, 2 variable size */
  uint8_t has_call;           /* the function calls an external */
  uint8_t nva, va[4];         /* variadic consumer: types read with va_arg */
  uint64_t aux;               /* shim: address of the func item embedded in the code */
} h_case_t;

static uint64_t h_word_mask (unsigned size, unsigned k) { /* significant bytes of eightbyte k of a block of `size` bytes */
  unsigned left = size > 8 * k ? size - 8 * k : 0;
  return left >= 8 ? ~(uint64_t) 0 : sc_low_mask (8 * left);
}
/* ---- expected values of one call (filled by the harness before the code under test runs) ---- */
#define H_BLK_WORDS 4
static uint64_t h_arg_raw[SC_MAX_ARGS];          /* the 64-bit MIR value of each scalar argument (bit pattern for f / d) */
static long double h_arg_ld[SC_MAX_ARGS];
static uint64_t h_arg_blk[SC_MAX_ARGS][H_BLK_WORDS]; /* contents of block arguments */
static uint64_t h_res_raw[SC_MAX_RES];           /* what the native callee leaves in rax / rdx / xmm0 / xmm1 */
static long double h_res_ld[SC_MAX_RES];

/* The ABI-visible state at a call instruction against the oracle.  rsp = stack pointer AT the call instruction. */
static void h_abi_check_args (const x86_state *s, const h_case_t *c, const sc_call_t *locs, uint64_t rsp) {
  H_ASSERT (rsp % 16 == 0, "rsp is 16-byte aligned at the call instruction");
  H_ASSERT (rsp < H_RSP0 && H_RSP0 - rsp >= locs->stack_bytes, "the memory argument area lies below the caller's frame");
  for (unsigned i = 0; i < c->nargs; i++) {
    const sc_loc_t *l = &locs->arg[i];
    unsigned t = c->args[i].type;
    int named = i < c->nnamed;
    if (sc_is_blk_type (t)) {
      for (unsigned k = 0; k < l->nwords; k++) {
        uint64_t m = h_word_mask (c->args[i].size, k), got;
        if (l->cls[0] == SC_CL_MEM) got = X86_M64 (rsp + l->stack_off + 8 * k);
        else if (l->cls[k] == SC_CL_INT) got = s->r[sc_int_arg_reg[l->reg[k]]];
        else got = s->xmm[l->reg[k]][0];
        H_ASSERT ((got & m) == (h_arg_blk[i][k] & m), "block argument: every eightbyte arrives by value in the register / stack slot of its class");
      }
    } else if (t == SC_LD) {
      H_ASSERT (h_ld_same (h_ld_at (rsp + l->stack_off), h_arg_ld[i]), "long double argument: value in its 16-byte aligned stack slot");
    } else {
      uint64_t got = l->cls[0] == SC_CL_MEM ? X86_M64 (rsp + l->stack_off) : l->cls[0] == SC_CL_INT ? s->r[sc_int_arg_reg[l->reg[0]]] : s->xmm[l->reg[0]][0];
      if (t == SC_F) H_ASSERT ((uint32_t) got == (uint32_t) h_arg_raw[i], "float argument: low 32 bits of its vector register / stack slot");
      else if (t == SC_D) H_ASSERT (got == h_arg_raw[i], "double argument: its vector register / stack slot");
      else if (t == SC_RBLK) H_ASSERT (got == h_arg_raw[i], "rblk argument: the block address as an ordinary pointer argument");
      else if (!named) H_ASSERT (got == h_arg_raw[i], "variadic integer argument: the full 64-bit value");
      else {
        unsigned bits = sc_int_bits (t);
        H_ASSERT ((got & sc_low_mask (bits)) == (h_arg_raw[i] & sc_low_mask (bits)), "integer argument: the low bits its C type defines (C ABI)");
        H_ASSERT (got == sc_extend (t, h_arg_raw[i]), "integer argument: sign/zero extended to 64 bits per prototype type (MIR's promise beyond the ABI)");
      }
    }
  }
  if (c->vararg) {
    unsigned al = (unsigned) (s->r[0] & 0xff);
    H_ASSERT (al <= 8 && al >= locs->n_sse, "variadic call: %al is an upper bound (<= 8) of the vector registers used");
  }
  H_ASSERT (s->fdepth == 0, "x87 stack empty at the call");
}
/* the native callee's return: clobber what a C function may clobber, leave symbolic results where the oracle says */
static void h_abi_make_results (x86_state *s, const h_case_t *c, const uint8_t *reslocs) {
  h_havoc_caller_saved (s);
  for (int i = (int) c->nres - 1; i >= 0; i--) /* reverse: st1 is pushed before st0 */
    switch (reslocs[i]) {
    case SC_R_RAX: h_res_raw[i] = s->r[0]; break;
    case SC_R_RDX: h_res_raw[i] = s->r[2]; break;
    case SC_R_XMM0: h_res_raw[i] = s->xmm[0][0]; break;
    case SC_R_XMM1: h_res_raw[i] = s->xmm[1][0]; break;
    default: h_res_ld[i] = h_ld_nd (); x86_fpush (s, h_res_ld[i]); break;
    }
}
#endif
