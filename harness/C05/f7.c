/* C05, E1 harness for call() of mir-interp.c: the two scratch arrays of the foreign call sequence
   (call_res_args: nargs + nres values, call_arg_descs: nargs descriptors) are large enough for the call.

     if (VARR_EXPAND (MIR_val_t, call_res_args_varr, nargs + nres)
         || VARR_EXPAND (_MIR_arg_desc_t, call_arg_descs_varr, nargs)) { refresh cached addresses }

   In production both arrays start with VARR_DEFAULT_SIZE = 64 elements, so growth needs > 64 arguments.  The
   harness builds the interp_ctx by hand with both arrays created by the REAL VARR_CREATE at capacity
   H_F7_CAP (default 2) and calls the REAL call() with H_F7_NARGS (default 3) arguments and an empty ffi slot, so
   that the descriptor loop (mir-interp.c:1800-1821) runs.  checks="memsafe": every write must stay inside the
   block the allocator returned (exact-size allocator below, so CBMC's bounds check / ASan see the real sizes).
   The path is ended inside get_ff_interface() at its first hash-table probe (the table's hash function is a
   harness function): everything the property talks about has happened by then.

   -DH_F7_VARIADIC: the same set-up with capacity 8 (no growth) checks the part of call() that the ff leg (ff.c, pre-filled
   ffi slot) does not execute: the derivation of the argument descriptors handed to _MIR_get_ff_call for a variadic
   prototype  p (i32 a, ...)  called with (a, int, double, long double, blk2:16 block): the named descriptor comes
   from the prototype, the unnamed ones from the operands' value modes / memory type and size (mir-interp.c:1800-1821). */
#include "h.h"
#include "mir.c"

#ifdef H_F7_VARIADIC
#define H_F7_CAP 8
#define H_F7_NARGS 5
#define H_F7_NNAMED 1
#endif
#ifndef H_F7_CAP
#define H_F7_CAP 2
#endif
#ifndef H_F7_NARGS
#define H_F7_NARGS 3
#endif
#ifndef H_F7_NRES
#define H_F7_NRES 0
#endif
#ifndef H_F7_NNAMED
#define H_F7_NNAMED H_F7_NARGS
#endif

/* exact-size allocator (all sizes are concrete in this harness) */
/* CBMC: blocks are never handed back to the library model of free() (cbmc 6.11 dies with an internal invariant in
   fatal_assertions.cpp when a failed check sits next to free's __CPROVER_is_freeable precondition); natively free() is real */
static void h_x_release (void *p) {
#if !H_CBMC
  free (p);
#else
  (void) p;
#endif
}
static void *h_x_malloc (size_t n, void *ud) { (void) ud; void *p = malloc (n ? n : 1); H_ASSUME (p != NULL); return p; }
static void *h_x_calloc (size_t a, size_t b, void *ud) { (void) ud; void *p = calloc (a ? a : 1, b ? b : 1); H_ASSUME (p != NULL); return p; }
static void *h_x_realloc (void *p, size_t old, size_t n, void *ud) {
  (void) ud;
  void *q = malloc (n ? n : 1);
  H_ASSUME (q != NULL);
  if (p != NULL) { memcpy (q, p, old < n ? old : n); h_x_release (p); }
  return q;
}
static void h_x_free (void *p, void *ud) { (void) ud; h_x_release (p); }
static struct MIR_alloc h_x_alloc = {h_x_malloc, h_x_calloc, h_x_realloc, h_x_free, NULL};

static struct MIR_context h_ctx;
static struct interp_ctx h_ictx;
static int h_reached_lookup;

static void MIR_NO_RETURN h_error (enum MIR_error_type t, const char *fmt, ...) {
  (void) t; (void) fmt;
  H_ASSERT (0, "MIR reported an error");
#if H_CBMC
  __CPROVER_assume (0);
  for (;;) {}
#else
  exit (98);
#endif
}
/* first thing get_ff_interface() does is HTAB_FIND -> hash function: end of the checked part */
static htab_hash_t h_hash_stop (ff_interface_t i, void *arg) {
  struct interp_ctx *interp_ctx = &h_ictx; /* mir-interp.c's field macros expand to interp_ctx->... */
  (void) arg;
  h_reached_lookup = 1;
  H_ASSERT (i->nargs == H_F7_NARGS, "get_ff_interface receives the argument count of the call");
  H_ASSERT (VARR_CAPACITY (MIR_val_t, call_res_args_varr) >= H_F7_NARGS + H_F7_NRES, "call_res_args holds nargs + nres values");
  H_ASSERT (VARR_CAPACITY (_MIR_arg_desc_t, call_arg_descs_varr) >= H_F7_NARGS, "call_arg_descs holds nargs descriptors");
  H_ASSERT (call_res_args == VARR_ADDR (MIR_val_t, call_res_args_varr)
              && call_arg_descs == VARR_ADDR (_MIR_arg_desc_t, call_arg_descs_varr), "cached array addresses are current");
#ifdef H_F7_VARIADIC
  H_ASSERT (i->arg_vars_num == 1 && i->nres == H_F7_NRES, "get_ff_interface receives the number of named parameters and results");
  H_ASSERT (i->arg_descs[0].type == MIR_T_I32, "descriptor of the named parameter is the prototype's type");
  H_ASSERT (i->arg_descs[1].type == MIR_T_I64, "unnamed integer operand -> i64 descriptor");
  H_ASSERT (i->arg_descs[2].type == MIR_T_D, "unnamed double operand -> d descriptor");
  H_ASSERT (i->arg_descs[3].type == MIR_T_LD, "unnamed long double operand -> ld descriptor");
  H_ASSERT (i->arg_descs[4].type == MIR_T_BLK + 2 && i->arg_descs[4].size == 16, "unnamed block operand -> its block type and size");
#endif
  H_WITNESS ("descriptor loop finished, get_ff_interface reached");
#if H_CBMC
  __CPROVER_assume (0);
#else
  fprintf (stderr, "REPLAY: completed without violation\n");
  exit (0);
#endif
  return 0;
}

void harness (void) {
  MIR_context_t ctx = &h_ctx;
  struct interp_ctx *interp_ctx = &h_ictx;
  MIR_alloc_t alloc = &h_x_alloc;
  static struct MIR_proto proto;
  static struct MIR_item proto_item;
  static MIR_var_t vars[H_F7_NARGS];
  static VARR (MIR_var_t) vars_varr = {H_F7_NNAMED, H_F7_NARGS, vars, NULL};
  static MIR_type_t res_types[H_F7_NRES + 1];
  static MIR_op_t ops[H_F7_NARGS];
  MIR_val_t bp[H_F7_NRES + 2], ffi, res_ops[H_F7_NRES + 1];

  ctx->alloc = alloc;
  ctx->interp_ctx = interp_ctx;
  error_func = h_error;
  VARR_CREATE (MIR_val_t, arg_vals_varr, alloc, H_F7_NARGS);
  arg_vals = VARR_ADDR (MIR_val_t, arg_vals_varr);
  VARR_CREATE (MIR_val_t, call_res_args_varr, alloc, H_F7_CAP);
  VARR_CREATE (_MIR_arg_desc_t, call_arg_descs_varr, alloc, H_F7_CAP);
  call_res_args = VARR_ADDR (MIR_val_t, call_res_args_varr);
  call_arg_descs = VARR_ADDR (_MIR_arg_desc_t, call_arg_descs_varr);
  HTAB_CREATE_WITH_FREE_FUNC (ff_interface_t, ff_interface_tab, alloc, 2, h_hash_stop, ff_interface_eq, NULL, NULL);
  for (int i = 0; i < H_F7_NARGS; i++) { vars[i].type = MIR_T_I64; vars[i].name = "a"; vars[i].size = 0; arg_vals[i].u = nd (); }
  for (int i = 0; i < H_F7_NRES; i++) { res_types[i] = MIR_T_I64; res_ops[i].i = 1 + i; }
  proto.name = "p"; proto.nres = H_F7_NRES; proto.res_types = res_types; proto.vararg_p = H_F7_NNAMED != H_F7_NARGS; proto.args = &vars_varr;
#ifdef H_F7_VARIADIC
  vars[0].type = MIR_T_I32;
  ops[1].mode = MIR_OP_REG; ops[1].value_mode = MIR_OP_INT;
  ops[2].mode = MIR_OP_REG; ops[2].value_mode = MIR_OP_DOUBLE;
  ops[3].mode = MIR_OP_REG; ops[3].value_mode = MIR_OP_LDOUBLE;
  ops[4].mode = MIR_OP_MEM; ops[4].u.mem.type = MIR_T_BLK + 2; ops[4].u.mem.disp = 16;
#endif
  proto_item.item_type = MIR_proto_item; proto_item.u.proto = &proto;
  ffi.a = NULL; /* first execution of this call insn: descriptors are computed, then the interface is looked up */

  call (ctx, bp, ops, &ffi, &proto_item, (void *) (uintptr_t) 0x1000, res_ops, H_F7_NARGS);
  H_ASSERT (h_reached_lookup, "call() went through get_ff_interface");
}
