/* C14: loaded data items form contiguous, correctly initialised sections.
   Real code executed: MIR_load_module (data branch) -> load_bss_data_section (both passes),
   MIR_link (ref and expr initialisation loops), _MIR_type_size.
   State constructed directly (no MIR_init): a module whose item list is a symbolic run of <= H_NITEMS
   data-like items.  Symbolic per item: kind in {bss, data(any of 12 element types), ref, lref, expr},
   named/anonymous, lengths (bss 0..9 bytes, data 0..3 elements), payload bytes, ref target (an earlier
   or later item of the run, or an external object) and displacement, expr result type and value.
   Oracle (MIR.md "load and link", lines 665-692): a named item (or the first) starts a section;
   following anonymous items are adjacent, no gaps, declaration order; data holds the declared bytes,
   bss is zero, ref holds target address + disp, expr holds the interpreter result truncated to the
   result type's size.  MIR_interp is a stub returning an arbitrary value (the interpreter is C02's
   subject); lref values are set by the engines and only their placement is checked here. */
#define MIR_NO_INTERP 1
#define MIR_NO_IO 1
#define MIR_NO_SCAN 1
#define H_SLOT_ALLOC 1   /* fixed-capacity typed blocks: a symbolic-size malloc makes every byte store cost seconds */
#define H_SLOT_CAP 256
#define H_SLOT_MAX 6
#include "h.h"
#include "mini_mir_pre.h"
/* Route the ONE call `MIR_interp (ctx, expr_item, &res, 0)` in MIR_link to the harness stub while leaving the
   declaration / the MIR_NO_INTERP definition (5 parameters incl. `...`) alone: dispatch on the argument count. */
#define H_MI_PICK(a1, a2, a3, a4, a5, NAME, ...) NAME
#define H_MI_DECL(a, b, c, d, e) h_orig_MIR_interp (a, b, c, d, e)
#define H_MI_CALL(a, b, c, d) h_expr_interp (a, b, c)
#define MIR_interp(...) H_MI_PICK (__VA_ARGS__, H_MI_DECL, H_MI_CALL, x, y, z) (__VA_ARGS__)
struct MIR_item;
struct MIR_context;
static void h_expr_interp (struct MIR_context *ctx, struct MIR_item *func_item, void *results);
#include "mir.c"
#undef MIR_interp
#include "mini_mir.h"

#ifndef H_NITEMS
#define H_NITEMS 4
#endif
#define H_MAXDATA 48 /* 3 elements of 16 bytes */

static MIR_val_t h_expr_val[H_NITEMS];
static int h_interp_calls;
/* the interpreter is not part of this TU (MIR_NO_INTERP): expr functions evaluate to an arbitrary value */
static void h_expr_interp (struct MIR_context *ctx, struct MIR_item *func_item, void *results) {
  (void) ctx;
  int k = (int) (size_t) func_item->data; /* harness: index of the expr item this function belongs to */
  ((MIR_val_t *) results)[0] = h_expr_val[k];
  h_interp_calls++;
}

static struct MIR_module h_mod;
/* Arrays of MORE than 64 elements on purpose: CBMC 6.11 splits smaller objects into fields and then resolves
   `item->u.bss->name` (union member that is not the first one, read through a pointer parameter) to
   "symex::invalid_object" - a spurious nondet value (measured; see DESIGN.md lessons).  Unsplit arrays resolve exactly. */
#define H_ARR 65
static struct MIR_item h_items[H_ARR], h_expr_func_items[H_ARR], h_ext_items[H_ARR];
#define h_ext_item (h_ext_items[1])
/* the objects the items point to are small (field-sensitive, cheap byte accesses) */
static struct { struct MIR_data d; uint8_t more[H_MAXDATA]; } h_data[H_NITEMS];
static struct MIR_bss h_bss[H_NITEMS];
static struct MIR_ref_data h_ref[H_NITEMS];
static struct MIR_lref_data h_lref[H_NITEMS];
static struct MIR_expr_data h_expr[H_NITEMS];
static struct MIR_func h_expr_funcs[H_NITEMS];
static MIR_type_t h_expr_res_type[H_NITEMS];
static char h_ext_object[64];
static MIR_module_t h_mtl_arr[4];
static VARR (MIR_module_t) h_mtl = {0, 4, h_mtl_arr, NULL};
static uint8_t h_ulp_arr[8];
static VARR (uint8_t) h_ulp = {0, 8, h_ulp_arr, NULL};
static struct simplify_ctx h_simplify;

enum { K_BSS, K_DATA, K_REF, K_LREF, K_EXPR, K_NUM };
static const MIR_type_t h_el_types[12] = {MIR_T_I8, MIR_T_U8, MIR_T_I16, MIR_T_U16, MIR_T_I32, MIR_T_U32,
                                          MIR_T_I64, MIR_T_U64, MIR_T_F, MIR_T_D, MIR_T_LD, MIR_T_P};
static size_t h_tsize (MIR_type_t t) { /* documented sizes of the MIR types on x86-64 */
  switch (t) {
  case MIR_T_I8: case MIR_T_U8: return 1;
  case MIR_T_I16: case MIR_T_U16: return 2;
  case MIR_T_I32: case MIR_T_U32: case MIR_T_F: return 4;
  case MIR_T_LD: return 16;
  default: return 8;
  }
}

/* removal phase: the item objects and their kind-specific parts are static objects of this harness (in the library they
   are blocks of their own); frees of those are counted, every other free goes to the ledger allocator, which flags a
   pointer that is not a live block (e.g. an address INSIDE a section block, or a section freed twice) */
#if H_CBMC
#define H_IN_OBJ(p, arr) __CPROVER_same_object ((p), (arr))
#else
#define H_IN_OBJ(p, arr) ((uintptr_t) (p) >= (uintptr_t) (arr) && (uintptr_t) (p) < (uintptr_t) (arr) + sizeof (arr))
#endif
static int h_rm_static_frees;
static void h_rm_free (void *p, void *ud) {
  if (p == NULL) return;
  if (H_IN_OBJ (p, h_items) || H_IN_OBJ (p, h_bss) || H_IN_OBJ (p, h_data) || H_IN_OBJ (p, h_ref) || H_IN_OBJ (p, h_lref) || H_IN_OBJ (p, h_expr)) {
    h_rm_static_frees++;
    return;
  }
  h_slot_free (p, ud);
}

void harness (void) {
  MIR_context_t ctx = &h_mini_ctx_obj;
#ifdef H_CFG /* structural configuration enumerated by the driver (kind, length or type index, element count, named, ref target
                per item); payload bytes, bss garbage, displacements and expression values stay symbolic */
  static const int h_cfg[H_NITEMS][5] = {H_CFG};
#define H_KINDS 1
#define H_STRUCT(k, j, sym) (h_cfg[k][j])
  int n = H_NITEMS, kind[H_NITEMS], named[H_NITEMS], target[H_NITEMS];
#else
#define H_STRUCT(k, j, sym) (sym)
  int n = (int) nd_below (H_NITEMS) + 1, kind[H_NITEMS], named[H_NITEMS], target[H_NITEMS];
#endif
  size_t size[H_NITEMS];
  int64_t disp[H_NITEMS];
  ctx->alloc = &h_alloc;
  error_func = h_mini_error;
  modules_to_link = &h_mtl;
  used_label_p = &h_ulp;
  ctx->simplify_ctx = &h_simplify;
  h_mod.name = "m";
  DLIST_INIT (MIR_item_t, h_mod.items);
  h_ext_item.item_type = MIR_import_item; h_ext_item.addr = h_ext_object; h_ext_item.u.import_id = "ext";
  for (int k = 0; k < H_NITEMS; k++) {
    if (k >= n) break;
    MIR_item_t it = &h_items[k];
#ifdef H_CFG
    kind[k] = h_cfg[k][0];
#else
    kind[k] = (int) nd_below (K_NUM);
#endif
    named[k] = (int) H_STRUCT (k, 3, nd_bool ());
    const char *name = named[k] ? "nm" : NULL;
    it->module = &h_mod; it->addr = NULL; it->ref_def = NULL; it->export_p = 0; it->section_head_p = 0; it->data = NULL;
    size[k] = 0; target[k] = -1; disp[k] = 0;
    switch (kind[k]) {
    case K_BSS:
      it->item_type = MIR_bss_item; it->u.bss = &h_bss[k];
      h_bss[k].name = name; h_bss[k].len = (uint64_t) H_STRUCT (k, 1, nd_below (10)); size[k] = h_bss[k].len;
      break;
    case K_DATA: {
      MIR_type_t t = h_el_types[H_STRUCT (k, 1, nd_below (12))];
      it->item_type = MIR_data_item; it->u.data = &h_data[k].d;
      h_data[k].d.name = name; h_data[k].d.el_type = t; h_data[k].d.nel = (size_t) H_STRUCT (k, 2, nd_below (4));
      size[k] = h_data[k].d.nel * h_tsize (t);
      for (int b = 0; b < H_MAXDATA; b += 8) { uint64_t w = nd (); memcpy ((uint8_t *) &h_data[k].d.u + b, &w, 8); }
      break;
    }
    case K_REF:
      it->item_type = MIR_ref_data_item; it->u.ref_data = &h_ref[k];
      target[k] = (int) H_STRUCT (k, 4, nd_below (H_NITEMS + 1)); /* index of an item of the run, or H_NITEMS = the external */
      H_ASSUME (target[k] == H_NITEMS || target[k] < n);
      disp[k] = (int64_t) nd ();
      H_ASSUME (disp[k] >= 0 && disp[k] <= ((int64_t) 1 << 40)); /* CBMC's pointer model: object id and offset are separate bit fields; a negative or huge displacement borrows from / carries into the object id */
      h_ref[k].name = name; h_ref[k].disp = disp[k]; h_ref[k].load_addr = NULL;
      h_ref[k].ref_item = target[k] == H_NITEMS ? &h_ext_item : &h_items[target[k]];
      size[k] = 8;
      break;
    case K_LREF:
      it->item_type = MIR_lref_data_item; it->u.lref_data = &h_lref[k];
      h_lref[k].name = name; h_lref[k].load_addr = NULL;
      size[k] = 8;
      break;
    default: {
      MIR_type_t t = h_el_types[H_STRUCT (k, 1, nd_below (12))];
      it->item_type = MIR_expr_data_item; it->u.expr_data = &h_expr[k];
      h_expr[k].name = name; h_expr[k].load_addr = NULL; h_expr[k].expr_item = &h_expr_func_items[k];
      h_expr_func_items[k].item_type = MIR_func_item; h_expr_func_items[k].u.func = &h_expr_funcs[k];
      h_expr_func_items[k].data = (void *) (size_t) k;
      h_expr_funcs[k].name = "e"; h_expr_funcs[k].expr_p = 1; h_expr_funcs[k].nres = 1;
      h_expr_res_type[k] = t; h_expr_funcs[k].res_types = &h_expr_res_type[k];
      { uint64_t lo = nd (), hi = nd (); memcpy (&h_expr_val[k], &lo, 8); memcpy ((char *) &h_expr_val[k] + 8, &hi, 8); }
      size[k] = h_tsize (t);
      break;
    }
    }
    DLIST_APPEND (MIR_item_t, h_mod.items, it);
  }
  /* lref items need link_module_lrefs (labels of functions): placement only -> keep MIR_load_module away from
     link_module_lrefs by loading the data items through the same loop MIR_load_module uses */
  for (MIR_item_t item = DLIST_HEAD (MIR_item_t, h_mod.items); item != NULL; item = DLIST_NEXT (MIR_item_t, item))
    item = load_bss_data_section (ctx, item, FALSE);
  VARR_PUSH (MIR_module_t, modules_to_link, &h_mod);
  /* ---- placement oracle ---- */
  uint8_t *sec_start = NULL;
  size_t off = 0, sec_total[H_NITEMS];
  int head_of[H_NITEMS], head = 0;
  for (int k = 0; k < H_NITEMS; k++) {
    if (k >= n) break;
    if (k == 0 || named[k]) { head = k; sec_start = (uint8_t *) h_items[k].addr; off = 0; H_ASSERT (h_items[k].section_head_p, "a named (or first) item heads a section"); }
    else H_ASSERT (!h_items[k].section_head_p, "anonymous follower is not a section head");
    head_of[k] = head;
    H_ASSERT (h_items[k].addr != NULL, "every data-like item got an address");
    H_ASSERT ((uint8_t *) h_items[k].addr == sec_start + off, "item placed at the offset given by the sizes of its predecessors (no gap, declaration order)");
    off += size[k];
    sec_total[head] = off;
  }
  /* each section lies inside one allocation of at least its total size (CBMC: same object, in bounds) */
  for (int k = 0; k < H_NITEMS; k++) {
    if (k >= n) break;
    uint8_t *h = (uint8_t *) h_items[head_of[k]].addr;
    int li = h_ledger_find (h);
    H_ASSERT (li >= 0 && h_ledger[li].live, "a section starts at the start of one block obtained from the allocator");
    H_ASSERT (h_ledger[li].req >= sec_total[head_of[k]], "the block requested from the allocator covers the whole section");
    H_ASSERT (h_ledger[li].req % 8 == 0 && h_ledger[li].req < sec_total[head_of[k]] + 8, "section size rounded up to 8 and not more");
  }
  /* ---- contents after load ---- */
  for (int k = 0; k < H_NITEMS; k++) {
    if (k >= n) break;
    uint8_t *a = (uint8_t *) h_items[k].addr;
    if (kind[k] == K_BSS) { for (size_t b = 0; b < 9; b++) if (b < size[k]) H_ASSERT (a[b] == 0, "bss is zero"); }
    else if (kind[k] == K_DATA) { for (size_t b = 0; b < H_MAXDATA; b++) if (b < size[k]) H_ASSERT (a[b] == ((uint8_t *) &h_data[k].d.u)[b], "data holds the declared bytes"); }
    else if (kind[k] == K_REF) H_ASSERT (h_ref[k].load_addr == a, "ref load address is its place in the section");
    else if (kind[k] == K_LREF) H_ASSERT (h_lref[k].load_addr == a, "lref load address is its place in the section");
    else H_ASSERT (h_expr[k].load_addr == a, "expr load address is its place in the section");
  }
  /* ---- link: ref and expr initialisation (real MIR_link; no functions, imports or exports in the module) ---- */
  MIR_link (ctx, NULL, NULL);
  for (int k = 0; k < H_NITEMS; k++) {
    if (k >= n) break;
    uint8_t *a = (uint8_t *) h_items[k].addr;
    if (kind[k] == K_REF) {
      uint64_t got, base = (uint64_t) (uintptr_t) (target[k] == H_NITEMS ? (void *) h_ext_object : h_items[target[k]].addr);
      memcpy (&got, a, 8);
      H_ASSERT (got == base + (uint64_t) disp[k], "ref holds the referenced item's address plus displacement");
#ifndef H_CFG
      H_WITNESS ("ref initialised");
#endif
    } else if (kind[k] == K_EXPR) {
      uint8_t exp[16];
      memcpy (exp, &h_expr_val[k], 16); /* little endian: the low bytes are the truncated value */
      for (size_t b = 0; b < 16; b++) if (b < size[k] && !(h_expr_res_type[k] == MIR_T_LD && b >= 10)) H_ASSERT (a[b] == exp[b], "expr holds the value of its function truncated to the result type");
#ifndef H_CFG
      H_WITNESS ("expr initialised");
#endif
    } else if (kind[k] == K_DATA) { for (size_t b = 0; b < H_MAXDATA; b++) if (b < size[k]) H_ASSERT (a[b] == ((uint8_t *) &h_data[k].d.u)[b], "data still holds the declared bytes after link"); }
    else if (kind[k] == K_BSS) { for (size_t b = 0; b < 9; b++) if (b < size[k]) H_ASSERT (a[b] == 0, "bss still zero after link"); }
  }
  H_EXPECT_NO_ERROR_HERE ();
  /* ---- removal (what MIR_finish does per module): the real remove_module / remove_item; every section block is returned
     exactly once and nothing that is not a block is handed to free ---- */
  H_ASSERT (h_alloc_errors == 0 && h_ledger_live () >= 1, "before removal: at least one section block is live, no allocator misuse so far");
  h_alloc.free = h_rm_free;
  remove_module (ctx, &h_mod, FALSE);
  H_ASSERT (h_alloc_errors == 0, "removal frees only pointers that are live blocks (no address inside a section, no double free)");
  H_ASSERT (h_ledger_live () == 0, "removal returns every section block");
  H_ASSERT (h_rm_static_frees == 2 * n, "removal releases every item and its kind-specific part exactly once");
  #if H_NITEMS > 1 && !defined(H_CFG)
  if (n == H_NITEMS && !named[1] && kind[0] != kind[1]) H_WITNESS ("mixed-kind section");
#endif
  H_WITNESS ("end");
}
