/* C14 / lref values written by the code generator: the real gen_setup_lrefs + get_label_disp of mir-gen.c.
   MIR.md: an lref item holds `label[-label2]+disp` - the address of the label in the generated code plus disp, or
   the distance of two labels plus disp.  State constructed directly: a gen_ctx with curr_func_item -> function with
   a list of <= 2 lref items on three labels whose code displacements are symbolic (as set_label_disp leaves them,
   in the -O0 representation (insn_data) or the -O1.. representation (bb_insn)), optimisation level symbolic,
   func_code any address; every lref cell must hold exactly the documented value. */
#define MIR_NO_INTERP 1
#define MIR_NO_IO 1
#define MIR_NO_SCAN 1
#include "h.h"
#include "mir-gen.c"

static struct gen_ctx h_gen;
static struct MIR_item h_item;
static struct MIR_func h_func;
static struct MIR_insn h_lab[3];
static struct insn_data h_idata[3];
static struct bb_insn h_bbi[3];
static struct MIR_lref_data h_lref[2];
static uint64_t h_cell[2];

void harness (void) {
  gen_ctx_t gen_ctx = &h_gen;
  uint64_t disp[3], code = nd ();
  int n = 1 + (int) nd_below (2);
  optimize_level = (unsigned) nd_below (4);
  curr_func_item = &h_item;
  h_item.item_type = MIR_func_item; h_item.u.func = &h_func;
  for (int i = 0; i < 3; i++) {
    disp[i] = nd_below (1ull << 31);
    h_lab[i].code = MIR_LABEL;
    if (optimize_level == 0) { h_idata[i].u.label_disp = disp[i]; h_lab[i].data = &h_idata[i]; }
    else { h_bbi[i].label_disp = disp[i]; h_lab[i].data = &h_bbi[i]; }
  }
  for (int k = 0; k < 2; k++) {
    unsigned a = (unsigned) nd_below (3), b = (unsigned) nd_below (4); /* b == 3: no second label */
    h_lref[k].label = &h_lab[a];
    h_lref[k].label2 = b < 3 ? &h_lab[b] : NULL;
    h_lref[k].disp = (int64_t) nd ();
    H_ASSUME (h_lref[k].disp >= -(1ll << 40) && h_lref[k].disp <= (1ll << 40));
    h_lref[k].load_addr = &h_cell[k];
    h_lref[k].next = k + 1 < n ? &h_lref[k + 1] : NULL;
    h_cell[k] = nd ();
  }
  h_func.first_lref = &h_lref[0];
  H_ASSUME (code >= (1ull << 41) && code < (1ull << 47)); /* a user-space code address; with |disp| <= 2^40 the address arithmetic stays inside
                                                             CBMC's pointer offset field (object bits are the top bits of a pointer) */
  gen_setup_lrefs (gen_ctx, (uint8_t *) (uintptr_t) code);
  for (int k = 0; k < 2; k++) {
    uint64_t l1, want;
    if (k >= n) continue;
    l1 = disp[h_lref[k].label - h_lab];
    want = h_lref[k].label2 == NULL ? code + l1 + (uint64_t) h_lref[k].disp : l1 - disp[h_lref[k].label2 - h_lab] + (uint64_t) h_lref[k].disp;
    H_ASSERT (h_cell[k] == want, "lref cell holds label[-label2]+disp in generated-code addresses");
    if (h_lref[k].label2 != NULL && h_lref[k].disp != 0) H_WITNESS ("two-label lref with a displacement");
    if (h_lref[k].label2 == NULL) H_WITNESS ("address lref");
  }
  if (n == 2) H_WITNESS ("two lref items");
  H_WITNESS ("end");
}
