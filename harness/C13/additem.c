/* C13 / merging rules: the REAL add_item (with item_tab_find / item_tab_insert / item_tab_remove) driven directly:
   a sequence of H_NCALLS items of one name "x" in one module, the KIND of every item symbolic over
   {import, export, forward, proto, data, bss, func}.  After each call the outcome is compared with a decision
   table over the abstract state (which kind of item the module table holds for the name, whether that item is
   already marked exported):
     which item the call returns (the new one, or the one already in the table when the declaration is a duplicate),
     which item the table holds afterwards, whether the new item was appended to the module's item list,
     the ref_def chain (export/forward -> definition, forward -> export) and export_p,
     which pairs are errors and with which MIR_error_type.
   Source of the table: mir.h (comments of ref_def / export_p: "forms a chain to the final definition"), MIR.md line 122
   ("Names of MIR functions, imports, and prototypes should be unique in a module") and the C13 check description. */
#define MIR_NO_INTERP 1
#define MIR_NO_IO 1
#define MIR_NO_SCAN 1
#define H_NO_LEDGER 1
#ifndef H_HTAB_MODEL_CAP
#define H_HTAB_MODEL_CAP 8
#endif
#include "h.h"
#include "mini_mir_pre.h"
#include "mir.c"
#include "mini_mir.h"

#ifndef H_NCALLS
#define H_NCALLS 3
#endif
#ifndef H_ARR
#define H_ARR 65 /* an array that CBMC does not split into fields: CBMC 6.11 union pitfall (see HARNESS-GUIDE / C14); props/C13.py lowers the threshold and uses 8 */
#endif
static struct MIR_item h_it[H_ARR];
static struct MIR_module h_m;
static struct MIR_data h_data[H_NCALLS];
static struct MIR_bss h_bss[H_NCALLS];
static struct MIR_func h_func[H_NCALLS];
static struct MIR_proto h_proto[H_NCALLS];
static const char *h_x;
#if H_CBMC
static char h_str_x[2] = "x";
static HTAB (MIR_item_t) h_itab = {.eq_func = item_eq};
#endif

enum { K_IMPORT, K_EXPORT, K_FORWARD, K_PROTO, K_DATA, K_BSS, K_FUNC, K_NUM };
enum { T_NONE, T_IMPORT, T_EXPORT, T_FORWARD, T_PROTO, T_DEF };

static int h_in_list (MIR_item_t it) {
  int n = 0;
  for (MIR_item_t i = DLIST_HEAD (MIR_item_t, h_m.items); i != NULL; i = DLIST_NEXT (MIR_item_t, i))
    if (i == it) n++;
  return n;
}

void harness (void) {
  MIR_context_t ctx;
#if H_CBMC
  ctx = &h_mini_ctx_obj;
  ctx->alloc = &h_alloc;
  error_func = h_mini_error;
  module_item_tab = &h_itab;
  h_x = h_str_x;
#else
  ctx = h_mini_ctx ();
  h_x = get_ctx_str (ctx, "x");
#endif
  DLIST_INIT (MIR_item_t, h_m.items);
  curr_module = &h_m;
  /* abstract state */
  int t_kind = T_NONE, t_exported = 0, listed = 0, w_replace = 0, w_dup = 0, w_chain = 0;
  MIR_item_t t_item = NULL;
  for (int c = 0; c < H_NCALLS; c++) {
    int k; /* assigned per case so that it is a CONSTANT on every path (cbmc --paths does not learn values from branch conditions) */
#ifdef H_KINDS /* one concrete sequence (reachability witnesses) */
    static const int h_kinds[H_NCALLS] = {H_KINDS};
    switch (h_kinds[c]) {
#else
    switch ((int) nd_below (K_NUM)) {
#endif
    case 0: k = K_IMPORT; break;
    case 1: k = K_EXPORT; break;
    case 2: k = K_FORWARD; break;
    case 3: k = K_PROTO; break;
    case 4: k = K_DATA; break;
    case 5: k = K_BSS; break;
    default: k = K_FUNC; break;
    }
    MIR_item_t it = &h_it[c];
    it->data = NULL; it->module = &h_m; it->ref_def = NULL; it->addr = NULL; it->export_p = FALSE; it->section_head_p = FALSE;
    switch (k) {
    case K_IMPORT: it->item_type = MIR_import_item; it->u.import_id = h_x; break;
    case K_EXPORT: it->item_type = MIR_export_item; it->u.export_id = h_x; break;
    case K_FORWARD: it->item_type = MIR_forward_item; it->u.forward_id = h_x; break;
    case K_PROTO: it->item_type = MIR_proto_item; it->u.proto = &h_proto[c]; h_proto[c].name = h_x; break;
    case K_DATA: it->item_type = MIR_data_item; it->u.data = &h_data[c]; h_data[c].name = h_x; break;
    case K_BSS: it->item_type = MIR_bss_item; it->u.bss = &h_bss[c]; h_bss[c].name = h_x; break;
    default: it->item_type = MIR_func_item; it->u.func = &h_func[c]; h_func[c].name = h_x; break;
    }
    int def_p = k == K_DATA || k == K_BSS || k == K_FUNC;
    /* ---- decision table ---- */
    int err = -1;            /* expected MIR_error_type, -1: accepted */
    int ret_tab = 0;         /* the call returns the item already in the table (duplicate declaration) */
    int new_tab = 0;         /* the new item becomes the table's item for the name */
    switch (t_kind) {
    case T_NONE: new_tab = 1; break;
    case T_IMPORT:
      if (k == K_IMPORT) ret_tab = 1; else err = MIR_import_export_error; /* a name imported into the module cannot also be declared or defined in it */
      break;
    case T_EXPORT:
    case T_FORWARD:
      if (k == K_IMPORT) err = MIR_import_export_error;
      else if (k == K_PROTO || def_p) new_tab = 1;                         /* the definition takes the declaration's place */
      else if ((k == K_EXPORT) == (t_kind == T_EXPORT)) ret_tab = 1;         /* same declaration again */
      else if (k == K_EXPORT) new_tab = 1;                                 /* export after forward: the export takes its place */
      break;                                                               /* forward after export: listed, export stays */
    case T_PROTO: err = MIR_repeated_decl_error; break;
    default: /* T_DEF */
      if (k == K_EXPORT) ret_tab = t_exported;
      else if (k == K_FORWARD) ;
      else if (k == K_IMPORT) err = MIR_import_export_error;
      else err = MIR_repeated_decl_error;
      break;
    }
    h_err_expected = err >= 0;
    h_err_code_expected = err;
    MIR_item_t old_tab = t_item;
    MIR_item_t res = add_item (ctx, it);
    H_EXPECT_NO_ERROR_HERE ();
    MIR_item_t now = item_tab_find (ctx, h_x, &h_m);
    if (ret_tab) {
      H_ASSERT (res == old_tab && now == old_tab, "a duplicate declaration returns the item already in the table and changes nothing");
      H_ASSERT (h_in_list (it) == 0, "a duplicate declaration is not listed in the module");
      w_dup = 1;
    } else {
      H_ASSERT (res == it, "the new item is returned");
      H_ASSERT (h_in_list (it) == 1, "the new item is listed in the module exactly once");
      listed++;
      if (new_tab) {
        H_ASSERT (now == it, "the new item is now the table's item for the name");
        if (old_tab != NULL) {
          H_ASSERT (old_tab->ref_def == it, "the replaced export/forward declaration is chained to the item that took its place");
          H_ASSERT (it->export_p == (t_kind == T_EXPORT), "an item that replaces an export declaration is marked exported, one that replaces a forward is not");
          w_replace = 1;
        }
      } else {
        H_ASSERT (now == old_tab, "the table keeps its item");
        if (t_kind == T_DEF) {
          H_ASSERT (it->ref_def == old_tab, "an export/forward declared after the definition is chained to it");
          if (k == K_EXPORT) H_ASSERT (old_tab->export_p, "export after the definition marks the definition exported");
          w_chain = 1;
        }
      }
    }
    { /* the list holds exactly the accepted, non-duplicate items, in order of their addition */
      int n = 0;
      for (MIR_item_t i = DLIST_HEAD (MIR_item_t, h_m.items); i != NULL; i = DLIST_NEXT (MIR_item_t, i)) n++;
      H_ASSERT (n == listed, "module item list length");
      H_ASSERT (DLIST_TAIL (MIR_item_t, h_m.items) == (ret_tab ? DLIST_TAIL (MIR_item_t, h_m.items) : it), "a listed item is appended at the end");
    }
    /* ---- next abstract state ---- */
    if (new_tab) {
      int was_export = t_kind == T_EXPORT;
      t_item = it;
      t_kind = k == K_IMPORT ? T_IMPORT : k == K_EXPORT ? T_EXPORT : k == K_FORWARD ? T_FORWARD : k == K_PROTO ? T_PROTO : T_DEF;
      t_exported = was_export && t_kind != T_EXPORT; /* a proto/definition that took an export's place is exported */
    } else if (t_kind == T_DEF && k == K_EXPORT)
      t_exported = 1;
    H_ASSERT (t_item == NULL || t_kind == T_EXPORT || t_kind == T_FORWARD || t_kind == T_IMPORT || (t_item->export_p != 0) == t_exported, "export_p of the table's definition");
  }
#ifdef H_WIT_MERGE
  if (w_replace) H_WITNESS ("a declaration replaced by its definition");
  if (w_dup) H_WITNESS ("a duplicate declaration merged");
  if (w_chain) H_WITNESS ("a declaration after the definition chained to it");
  H_WITNESS ("end");
#endif
}
