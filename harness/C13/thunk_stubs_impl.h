/* Bump allocator of "thunks": distinct small objects; the redirection target is recorded per thunk. */
#ifndef C13_THUNK_STUBS_IMPL_H
#define C13_THUNK_STUBS_IMPL_H
#undef _MIR_get_thunk
#undef _MIR_redirect_thunk
#ifndef H_NTHUNKS
#define H_NTHUNKS 7
#endif
static char h_thunks[H_NTHUNKS][16];
static void *h_thunk_target[H_NTHUNKS];
static int h_thunk_n;
static int h_thunk_index (void *t) { /* no pointer-comparison loop: under `cbmc --paths` every undecided comparison forks a path */
#if H_CBMC
  if (!__CPROVER_same_object (t, (void *) h_thunks)) return -1;
  size_t off = __CPROVER_POINTER_OFFSET (t);
#else
  if ((char *) t < (char *) h_thunks || (char *) t >= (char *) h_thunks + sizeof (h_thunks)) return -1;
  size_t off = (size_t) ((char *) t - (char *) h_thunks);
#endif
  return off % 16 == 0 && off / 16 < (size_t) h_thunk_n ? (int) (off / 16) : -1;
}
static void *h_get_thunk (struct MIR_context *ctx) {
  (void) ctx;
  H_ASSUME (h_thunk_n < H_NTHUNKS); /* one thunk per function item: never more than the functions of the configuration */
  return h_thunks[h_thunk_n++];
}
static void h_redirect_thunk (struct MIR_context *ctx, void *thunk, void *to) {
  (void) ctx;
  int i = h_thunk_index (thunk);
  H_ASSERT (i >= 0, "only thunks obtained from _MIR_get_thunk are redirected");
  if (i >= 0) h_thunk_target[i] = to;
}
#endif
