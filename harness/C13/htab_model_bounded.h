/* C13 variant of harness/common/h_htab_model.h: IDENTICAL map semantics; the only difference is that the scans run over the
   occupied prefix `i < htab->bound` instead of `i < CAP with the test i < bound inside` (under `cbmc --paths` bound is a
   constant on every path, and the string/value tables hold 0-2 entries: fewer symbolic-execution steps per lookup).
   Include after h_alloc_native.h and before mini_mir_pre.h.  Original header comment follows.
   Abstract-map MODEL of /repo/mir-htab.h (pre-empted through its include guard MIR_HTAB_H), for harnesses
   whose subject is NOT the hash table.  Same macro API; elements live in a fixed-capacity, append-only
   array searched linearly with the table's own eq_func (insertion-ordered iteration, tombstones on
   delete, free_func exactly where the real table calls it).  No hashing, no growth, no symbolic indices.
   Justification: property C19 proves (check ./check C19) that the real HTAB behaves as exactly this map
   for arbitrary hash values; substituting the model is the usual assume-guarantee step and is listed
   under "assumptions" of every check that uses it.  Capacity H_HTAB_MODEL_CAP is a stated bound
   (exceeding it is assumed away). */
#ifndef MIR_HTAB_H
#define MIR_HTAB_H
#include "mir-alloc.h"
#include "mir-varr.h"
#ifndef H_HTAB_MODEL_CAP
#define H_HTAB_MODEL_CAP 12
#endif
typedef unsigned htab_ind_t;
typedef unsigned htab_size_t;
typedef unsigned htab_hash_t;
enum htab_action { HTAB_FIND, HTAB_INSERT, HTAB_REPLACE, HTAB_DELETE };
#define HTAB(T) HTAB_##T
#define HTAB_OP(T, OP) HTAB_##T##_##OP
#define DEF_HTAB(T)                                                                                       \
  typedef struct {                                                                                        \
    htab_size_t els_num, bound, collisions;                                                               \
    void *arg;                                                                                            \
    int (*eq_func) (T el1, T el2, void *arg);                                                             \
    void (*free_func) (T el, void *arg);                                                                  \
    MIR_alloc_t alloc;                                                                                    \
    unsigned char used[H_HTAB_MODEL_CAP];                                                                 \
    T els[H_HTAB_MODEL_CAP];                                                                              \
  } HTAB (T);                                                                                             \
  static inline void HTAB_OP (T, create) (HTAB (T) * *htab, MIR_alloc_t alloc, htab_size_t min_size,      \
                                          htab_hash_t (*hash_func) (T el, void *arg),                     \
                                          int (*eq_func) (T el1, T el2, void *arg),                       \
                                          void (*free_func) (T el, void *arg), void *arg) {               \
    HTAB (T) *ht = MIR_malloc (alloc, sizeof (HTAB (T)));                                                 \
    (void) min_size; (void) hash_func;                                                                    \
    ht->els_num = ht->bound = ht->collisions = 0;                                                         \
    ht->arg = arg; ht->eq_func = eq_func; ht->free_func = free_func; ht->alloc = alloc;                   \
    for (int i = 0; i < H_HTAB_MODEL_CAP; i++) ht->used[i] = 0;                                           \
    *htab = ht;                                                                                           \
  }                                                                                                       \
  static inline void HTAB_OP (T, clear) (HTAB (T) * htab) {                                               \
    for (htab_size_t i = 0; i < htab->bound; i++) {                                                  \
      if (i < htab->bound && htab->used[i] && htab->free_func != NULL) htab->free_func (htab->els[i], htab->arg); \
      htab->used[i] = 0;                                                                                  \
    }                                                                                                     \
    htab->els_num = htab->bound = 0;                                                                      \
  }                                                                                                       \
  static inline void HTAB_OP (T, destroy) (HTAB (T) * *htab) {                                            \
    if ((*htab)->free_func != NULL) HTAB_OP (T, clear) (*htab);                                           \
    MIR_free ((*htab)->alloc, *htab);                                                                     \
    *htab = NULL;                                                                                         \
  }                                                                                                       \
  static inline int HTAB_OP (T, do) (HTAB (T) * htab, T el, enum htab_action action, T * res) {           \
    for (htab_size_t i = 0; i < htab->bound; i++)                                                    \
      if (i < htab->bound && htab->used[i] && (*htab->eq_func) (htab->els[i], el, htab->arg)) {           \
        if (action == HTAB_REPLACE) {                                                                     \
          if (htab->free_func != NULL) htab->free_func (htab->els[i], htab->arg);                         \
          htab->els[i] = el;                                                                              \
        }                                                                                                 \
        if (action != HTAB_DELETE) {                                                                      \
          *res = htab->els[i];                                                                            \
        } else {                                                                                          \
          htab->els_num--;                                                                                \
          htab->used[i] = 0;                                                                              \
          if (htab->free_func != NULL) htab->free_func (htab->els[i], htab->arg);                         \
        }                                                                                                 \
        return 1;                                                                                         \
      }                                                                                                   \
    if (action == HTAB_INSERT || action == HTAB_REPLACE) {                                                \
      H_ASSUME (htab->bound < H_HTAB_MODEL_CAP); /* stated capacity bound of the model */                \
      htab->els[htab->bound] = el;                                                                        \
      htab->used[htab->bound] = 1;                                                                        \
      htab->bound++;                                                                                      \
      htab->els_num++;                                                                                    \
      *res = el;                                                                                          \
    }                                                                                                     \
    return 0;                                                                                             \
  }                                                                                                       \
  static inline htab_size_t HTAB_OP (T, els_num) (HTAB (T) * htab) { return htab->els_num; }              \
  static inline htab_size_t HTAB_OP (T, collisions) (HTAB (T) * htab) { return htab->collisions; }        \
  static inline void HTAB_OP (T, foreach_elem) (HTAB (T) * htab, void (*func) (T el, void *arg), void *arg) { \
    for (htab_size_t i = 0; i < htab->bound; i++)                                                    \
      if (i < htab->bound && htab->used[i]) func (htab->els[i], arg);                                     \
  }
#define HTAB_CREATE(T, V, M, S, H, EQ, A) (HTAB_OP (T, create) (&(V), M, S, H, EQ, NULL, A))
#define HTAB_CREATE_WITH_FREE_FUNC(T, V, M, S, H, EQ, F, A) (HTAB_OP (T, create) (&(V), M, S, H, EQ, F, A))
#define HTAB_CLEAR(T, V) (HTAB_OP (T, clear) (V))
#define HTAB_DESTROY(T, V) (HTAB_OP (T, destroy) (&(V)))
#define HTAB_DO(T, V, EL, A, TAB_EL) (HTAB_OP (T, do) (V, EL, A, &(TAB_EL)))
#define HTAB_ELS_NUM(T, V) (HTAB_OP (T, els_num) (V))
#define HTAB_COLLISIONS(T, V) (HTAB_OP (T, collisions) (V))
#define HTAB_FOREACH_ELEM(T, V, F, A) (HTAB_OP (T, foreach_elem) (V, F, A))
#endif
