/* C13: imports bind to the most recently loaded definition (MIR.md "load and link", lines 663-720).
   REAL code executed: MIR_load_module (data branch -> load_bss_data_section, function branch, export branch ->
   setup_global -> new_export_import_forward (create_only) -> create_item / get_ctx_str / string_store),
   MIR_load_external, item_tab_find / item_tab_insert / item_tab_remove, add_item (builds the module item lists),
   MIR_link (import / export / forward resolution loops, resolver fallback, undefined-import error, simplify_func on
   EMPTY functions, the queue drain with a non-NULL set_interface), MIR_set_func_redef_permission.
   State constructed directly (no MIR_init): a static context, three static modules M1..M3 over the two names
   "x","y".  The module SHAPES are an enumerated configuration (-DH_SHAPES=..., 6 numbers: shape of x and y in
   M1, M2, M3); each module is then "finished" by the real add_item calls a front end would make.
     shape 0 nothing | 1 `export n` + data n | 2 `export n` + empty func n | 3 `import n` | 4 `forward n` + local empty func n
           | 5 as 1 with an UNNAMED data item following n (a two-item data section: the name denotes the section start)
   SYMBOLIC: the history = H_NSTEPS steps, each one of 7: load M1|M2|M3, load_external x|y (a fresh address every
   time), link (resolver NULL | resolver that knows only "y"); and the redefinition permission.  Every check is made
   when a step completes, so histories of exactly H_NSTEPS steps cover all shorter ones.  Explored with
   `cbmc --paths` (one path per history: merging the alternatives of a step makes every item pointer symbolic and
   gives no verdict); -DH_PIN=perm,step,... fixes ONE concrete history (reachability witnesses).
   Stubs (stated in the evidence): _MIR_get_thunk / _MIR_redirect_thunk (machine code in mir-x86_64.c) are routed
   to a bump allocator of thunk objects that records the redirection target; set_interface is a harness function
   that only counts (the real interfaces generate code: C01/C03).
   ORACLE (h_map): name -> last definition loaded so far (kind, address, defining item, generation). */
#define MIR_NO_INTERP 1
#define MIR_NO_IO 1
#define MIR_NO_SCAN 1
#define H_NO_LEDGER 1
#define H_MINI_SIMPLIFY 1
#ifndef H_HTAB_MODEL_CAP
#define H_HTAB_MODEL_CAP 16
#endif
#include "h.h"
#if H_CBMC
#include "h_alloc_native.h"
#include "h_hash_const.h"
#include "htab_model_bounded.h"
#endif
#include "mini_mir_pre.h"
#if H_CBMC /* CBMC's free() records the block non-deterministically (a nondet flag per call): under --paths every such flag multiplies the paths.
              Blocks are never reused or inspected here (allocation discipline is C17's subject), so freeing is a no-op in the model. */
#undef MIR_free
#define MIR_free(alloc, ptr) ((void) (alloc), (void) (ptr), h_native_frees++)
#endif
#include "thunk_stubs.h"
#include "mir.c"
#include "mini_mir.h"
#include "thunk_stubs_impl.h"

#ifndef H_NSTEPS
#define H_NSTEPS 4
#endif
#ifndef H_SHAPES
#define H_SHAPES 1, 0, 3, 0, 0, 0
#endif
enum { S_NONE, S_XDATA, S_XFUNC, S_IMPORT, S_FWDDEF, S_XSECT };
static const int h_shape[3][2] = {H_SHAPES};

/* ---------------- static state ---------------- */
/* CBMC 6.11 union pitfall (see HARNESS-GUIDE / C14): `item->u.data->...` (union member that is not the first) is only resolved
   exactly when the item lives in an array of more than 64 elements (not split into fields).  Whole-array objects are expensive
   to assign (profile: value-set update of all 65 elements per store), so ONLY the data items live in such an array; import /
   export / forward items (one-level reads of u.*_id) and function items (u.func is the first member) are small objects. */
#ifndef H_ARR
#define H_ARR 65
#endif
static struct MIR_item h_items0[4], h_items1[4], h_items2[4];
static struct MIR_item *const h_items[3] = {h_items0, h_items1, h_items2};
static struct MIR_item h_ditems[H_ARR]; /* data item of name n in module k: h_ditems[2 * k + n] */
static struct MIR_module h_mod[3];
static struct MIR_data h_data[3][2], h_data2[3][2]; /* h_data2: the unnamed follower of shape 5; its item is h_ditems[6 + 2 * k + n] */
static struct MIR_func h_func[3][2];
static const char *h_nm[2];                       /* the interned (unique) strings "x", "y" */
static const char h_lit[2][2] = {"x", "y"};       /* what a client passes to MIR_load_external: any C string */
static char h_ext_obj[H_NSTEPS + 1][8], h_res_obj[8]; /* external addresses (every registration uses a fresh one) and the address the resolver returns for "y" */
static int h_ext_n;
static MIR_context_t h_ctx;

#if H_CBMC
static char h_str_x[2] = "x", h_str_y[2] = "y";
static string_t h_strs_arr[8] = {{0, {0, NULL}}, {1, {2, h_str_x}}, {2, {2, h_str_y}}};
static VARR (string_t) h_strs = {3, 8, h_strs_arr, NULL};
static HTAB (string_t) h_strtab = {.els_num = 2, .bound = 2, .eq_func = str_eq, .used = {1, 1},
                                   .els = {{1, {2, h_str_x}}, {2, {2, h_str_y}}}};
static HTAB (MIR_item_t) h_itab = {.eq_func = item_eq};
static HTAB (val_t) h_valtab = {.eq_func = val_eq};
static MIR_module_t h_mtl_arr[8];
static VARR (MIR_module_t) h_mtl = {0, 8, h_mtl_arr, NULL};
static uint8_t h_ulp_arr[8];
static VARR (uint8_t) h_ulp = {0, 8, h_ulp_arr, NULL};
static MIR_insn_t h_ti_arr[4], h_lab_arr[4];
static VARR (MIR_insn_t) h_ti = {0, 4, h_ti_arr, NULL}, h_lab = {0, 4, h_lab_arr, NULL};
static MIR_op_t h_tops_arr[2];
static VARR (MIR_op_t) h_tops = {0, 2, h_tops_arr, NULL};
static struct simplify_ctx h_simplify;
#endif

static void h_setup_ctx (void) {
#if H_CBMC
  MIR_context_t ctx = h_ctx = &h_mini_ctx_obj;
  ctx->alloc = &h_alloc;
  error_func = h_mini_error;
  ctx->string_ctx = &h_mini_strings;
  strings = &h_strs;
  string_tab = &h_strtab;
  module_item_tab = &h_itab;
  modules_to_link = &h_mtl;
  used_label_p = &h_ulp;
  temp_ops = &h_tops;
  ctx->simplify_ctx = &h_simplify;
  val_tab = &h_valtab;
  temp_insns = &h_ti;
  labels = &h_lab;
  DLIST_INIT (MIR_item_t, environment_module.items);
  h_nm[0] = h_str_x;
  h_nm[1] = h_str_y;
#else
  MIR_context_t ctx = h_ctx = h_mini_ctx (); /* real VARR / HTAB / string table */
  h_nm[0] = get_ctx_str (ctx, "x");
  h_nm[1] = get_ctx_str (ctx, "y");
#endif
}

static MIR_item_t h_new_item (int k, int slot, MIR_item_type_t t) {
  MIR_item_t it = t == MIR_data_item ? &h_ditems[2 * k + slot / 2] : &h_items[k][slot];
  it->data = NULL; it->module = &h_mod[k]; it->item_type = t; it->ref_def = NULL; it->addr = NULL;
  it->export_p = FALSE; it->section_head_p = FALSE;
  return it;
}
static MIR_item_t h_def[3][2]; /* the defining item of name n in module k (shapes 1, 2, 4) */

/* "finish" module k: the add_item calls a front end makes for `export n` / `n: data` / `n: func` / `import n` / `forward n` */
static void h_build_module (int k) {
  MIR_context_t ctx = h_ctx;
  h_mod[k].name = "m";
  DLIST_INIT (MIR_item_t, h_mod[k].items);
  curr_module = &h_mod[k];
  for (int n = 0; n < 2; n++) {
    int s = h_shape[k][n];
    MIR_item_t a = NULL, d = NULL;
    if (s == S_NONE) continue;
    if (s == S_IMPORT) { a = h_new_item (k, 2 * n, MIR_import_item); a->u.import_id = h_nm[n]; }
    else if (s == S_FWDDEF) { a = h_new_item (k, 2 * n, MIR_forward_item); a->u.forward_id = h_nm[n]; }
    else { a = h_new_item (k, 2 * n, MIR_export_item); a->u.export_id = h_nm[n]; }
    /* source order: `export x` / `forward x` BEFORE a function (add_item replaces the declaration by the definition in the table),
       `export x` AFTER a data definition (add_item marks the definition): both orders of the front ends are represented */
    if (s != S_XDATA && s != S_XSECT) H_ASSERT (add_item (ctx, a) == a, "declaration item entered into the module");
    if (s == S_XDATA || s == S_XSECT) {
      d = h_new_item (k, 2 * n + 1, MIR_data_item);
      d->u.data = &h_data[k][n];
      h_data[k][n].name = h_nm[n]; h_data[k][n].el_type = MIR_T_I64; h_data[k][n].nel = 1;
    } else if (s == S_XFUNC || s == S_FWDDEF) {
      d = h_new_item (k, 2 * n + 1, MIR_func_item);
      d->u.func = &h_func[k][n];
      h_func[k][n].name = h_nm[n]; h_func[k][n].func_item = d;
      DLIST_INIT (MIR_insn_t, h_func[k][n].insns);
      DLIST_INIT (MIR_insn_t, h_func[k][n].original_insns);
    }
    if (d != NULL) {
      H_ASSERT (add_item (ctx, d) == d, "definition entered into the module");
      if (s == S_XSECT) { /* the unnamed follower: same section */
        MIR_item_t d2 = &h_ditems[6 + 2 * k + n];
        d2->data = NULL; d2->module = &h_mod[k]; d2->item_type = MIR_data_item; d2->ref_def = NULL; d2->addr = NULL; d2->export_p = FALSE; d2->section_head_p = FALSE;
        d2->u.data = &h_data2[k][n];
        h_data2[k][n].name = NULL; h_data2[k][n].el_type = MIR_T_I64; h_data2[k][n].nel = 1;
        H_ASSERT (add_item (ctx, d2) == d2, "unnamed follower entered into the module");
      }
      if (s == S_XDATA || s == S_XSECT) H_ASSERT (add_item (ctx, a) == a, "export after the definition entered into the module");
      H_ASSERT (a->ref_def == d, "export/forward declaration chained to its definition");
      H_ASSERT (d->export_p == (s != S_FWDDEF), "definition is marked exported exactly when an export was declared");
    }
    h_def[k][n] = d;
  }
  curr_module = NULL;
}

/* ---------------- oracle ---------------- */
enum { D_NONE, D_MIR, D_EXT };
static struct { int kind; void *addr; MIR_item_t def; int func_p; int gen; } h_map[2];
static int h_perm;
static int h_inq[3];             /* module loaded since the last link */
static int h_linked[3];          /* module has been linked at least once */
static void *h_bound[3][2];      /* address its import of n was bound to at its last link */
static int h_w_ext, h_w_newer, h_w_kept, h_w_redef_ok, h_w_resolver;
static int h_set_interface_calls, h_set_interface_end;

static void h_set_interface (MIR_context_t ctx, MIR_item_t item) {
  (void) ctx;
  if (item == NULL) h_set_interface_end++; else h_set_interface_calls++;
}
static void *h_resolver (const char *name) { return strcmp (name, "y") == 0 ? (void *) h_res_obj : NULL; }

static void h_step_load (int k) {
  MIR_context_t ctx = h_ctx;
  int expect = 0;
  for (int n = 0; n < 2; n++)
    if (h_shape[k][n] == S_XFUNC && h_map[n].kind == D_MIR && h_map[n].func_p && !h_perm) expect = 1;
  /* a function loaded over an external address or exported data of the same name is the FIRST exported function: accepted, and later
     links bind to it (no exclusion: regression obligations redef.* / full.* pin this case, /repo fix b052695f) */
  h_err_expected = expect;
  h_err_code_expected = expect ? (int) MIR_repeated_decl_error : -1;
  MIR_load_module (ctx, &h_mod[k]);
  H_EXPECT_NO_ERROR_HERE ();
  for (int n = 0; n < 2; n++) {
    int s = h_shape[k][n];
    MIR_item_t d = h_def[k][n];
    if (s == S_XDATA || s == S_XFUNC || s == S_FWDDEF || s == S_XSECT) H_ASSERT (d->addr != NULL, "a loaded definition has an address");
    if (s == S_XSECT) H_ASSERT (h_ditems[6 + 2 * k + n].addr == (char *) d->addr + 8, "the unnamed follower lies directly behind the named item");
    if (s == S_XFUNC || s == S_FWDDEF) H_ASSERT (h_thunk_index (d->addr) >= 0 && h_thunk_target[h_thunk_index (d->addr)] == (void *) undefined_interface, "a loaded function is reached through its own thunk, not yet callable");
    if (s == S_XDATA || s == S_XFUNC || s == S_XSECT) {
      if (h_map[n].kind == D_MIR && h_map[n].func_p && s == S_XFUNC) h_w_redef_ok = 1;
      h_map[n].kind = D_MIR; h_map[n].addr = d->addr; h_map[n].def = d; h_map[n].func_p = s == S_XFUNC; h_map[n].gen++;
    }
  }
  h_inq[k] = 1;
}

static void h_step_ext (int n) {
  void *a = h_ext_obj[h_ext_n++];
  h_err_expected = 0; h_err_code_expected = -1;
  MIR_load_external (h_ctx, h_lit[n], a);
  H_EXPECT_NO_ERROR_HERE ();
  h_map[n].kind = D_EXT; h_map[n].addr = a; h_map[n].def = NULL; h_map[n].func_p = 0; h_map[n].gen++;
}

static void h_check_env_entry (MIR_item_t e, int n) {
  MIR_context_t ctx = h_ctx;
  H_ASSERT (e != NULL, "a linked import refers to an environment table item");
  H_ASSERT (e->module == &environment_module && e->item_type == MIR_import_item && e->u.import_id == h_nm[n], "that item is the environment entry of the imported name");
  H_ASSERT (e->addr == h_map[n].addr, "the environment entry holds the address of the definition loaded last");
  H_ASSERT (e->ref_def == h_map[n].def, "the environment entry designates the defining item loaded last (none for an external)");
}

static void h_step_link (int r) {
  MIR_context_t ctx = h_ctx;
  int expect = 0;
  for (int k = 0; k < 3; k++)
    for (int n = 0; n < 2; n++)
      if (h_inq[k] && h_shape[k][n] == S_IMPORT && h_map[n].kind == D_NONE) {
        if (r && n == 1) { h_map[n].kind = D_EXT; h_map[n].addr = h_res_obj; h_map[n].def = NULL; h_map[n].func_p = 0; h_map[n].gen++; h_w_resolver = 1; }
        else expect = 1;
      }
  h_err_expected = expect;
  h_err_code_expected = expect ? (int) MIR_undeclared_op_ref_error : -1;
  MIR_link (ctx, h_set_interface, r ? h_resolver : NULL);
  H_EXPECT_NO_ERROR_HERE ();
  H_ASSERT (VARR_LENGTH (MIR_module_t, modules_to_link) == 0, "every module loaded since the last link has been linked");
  for (int k = 0; k < 3; k++)
    for (int n = 0; n < 2; n++) {
      int s = h_shape[k][n];
      MIR_item_t a = &h_items[k][2 * n];
      if (h_inq[k]) {
        if (s == S_IMPORT) {
          H_ASSERT (a->addr == h_map[n].addr, "import bound to the address of the definition loaded last before this link");
          h_check_env_entry (a->ref_def, n);
          if (h_linked[k] && h_bound[k][n] != a->addr) h_w_newer = 1;
          h_bound[k][n] = a->addr;
          if (h_map[n].kind == D_EXT) h_w_ext = 1;
          if (h_map[n].kind == D_MIR && h_map[n].gen >= 2) h_w_newer = 1;
        } else if (s != S_NONE) {
          H_ASSERT (a->ref_def == h_def[k][n] && a->addr == h_def[k][n]->addr, "export/forward resolved to the module's own definition");
        }
      } else if (h_linked[k] && s == S_IMPORT) {
        H_ASSERT (a->addr == h_bound[k][n], "a module linked at an earlier step keeps its binding");
        if (h_bound[k][n] != h_map[n].addr) h_w_kept = 1;
      }
    }
  for (int k = 0; k < 3; k++) if (h_inq[k]) { h_linked[k] = 1; h_inq[k] = 0; }
}

#ifndef H_OPS /* the step alphabet of this obligation: H_NOPS step codes (0-2 load M1-M3, 3 load_external x, 4 load_external y, 5 link, 6 link with resolver) */
#define H_OPS 0, 1, 2, 3, 4, 5, 6
#define H_NOPS 7
#endif
static void h_do_step (unsigned op) {
  switch (op) {
  case 0: h_step_load (0); break;
  case 1: h_step_load (1); break;
  case 2: h_step_load (2); break;
  case 3: h_step_ext (0); break;
  case 4: h_step_ext (1); break;
  case 5: h_step_link (0); break;
  default: h_step_link (1); break;
  }
}

void harness (void) {
  h_setup_ctx ();
  for (int k = 0; k < 3; k++) h_build_module (k);
#ifdef H_PIN /* one concrete history (reachability witnesses, counterexample documentation): permission, then H_NSTEPS steps */
  static const int h_pin[H_NSTEPS + 1] = {H_PIN};
  h_perm = h_pin[0];
#else
#ifdef H_PERM /* the permission as a configuration value (props/C13.py runs both values as separate obligations) */
  h_perm = H_PERM;
#else
  if (nd_bool ()) h_perm = 1; else h_perm = 0; /* a branch, so that the value is a CONSTANT on each path (cbmc --paths does not learn values
                                                  from branch conditions: a symbolic flag would fork again at every later use) */
#endif
#endif
  MIR_set_func_redef_permission (h_ctx, h_perm);
  /* every check is made when a step completes, so the histories of exactly H_NSTEPS steps cover all shorter ones (prefixes) */
  for (unsigned s = 0; s < H_NSTEPS; s++) {
#ifdef H_PIN
    h_do_step ((unsigned) h_pin[s + 1]);
#else
    { /* the step kind is chosen by a chain of branches with a CONSTANT argument each (one path per alternative) */
      static const unsigned h_ops[7] = {H_OPS};
      unsigned idx = (unsigned) nd_below (H_NOPS);
      if (idx == 0 || H_NOPS == 1) h_do_step (h_ops[0]); /* `|| H_NOPS == k` makes the last alternative the unconditional else (no dead continuation) */
      else if (idx == 1 || H_NOPS == 2) h_do_step (h_ops[1]);
      else if (idx == 2 || H_NOPS == 3) h_do_step (h_ops[2]);
      else if (idx == 3 || H_NOPS == 4) h_do_step (h_ops[3]);
      else if (idx == 4 || H_NOPS == 5) h_do_step (h_ops[4]);
      else if (idx == 5 || H_NOPS == 6) h_do_step (h_ops[5]);
      else h_do_step (h_ops[6]);
    }
#endif
#if H_CBMC && !defined(H_REAL_HTAB)
    H_ASSERT (h_itab.bound < H_HTAB_MODEL_CAP && h_strtab.bound < H_HTAB_MODEL_CAP, "capacity of the table model is never reached (no history is cut off)");
#endif
    H_ASSERT (h_thunk_n < H_NTHUNKS, "capacity of the thunk pool is never reached");
  }
#ifdef H_WIT_EXT
  if (h_w_ext) H_WITNESS ("an import bound to an external address");
#endif
#ifdef H_WIT_NEWER
  if (h_w_newer) H_WITNESS ("an import bound to a definition that replaced an older one");
#endif
#ifdef H_WIT_KEPT
  if (h_w_kept) H_WITNESS ("an earlier linked module keeps its old binding after a redefinition");
#endif
#ifdef H_WIT_REDEF
  if (h_w_redef_ok) H_WITNESS ("a function redefinition was accepted");
#endif
#ifdef H_WIT_RESOLVER
  if (h_w_resolver) H_WITNESS ("an import defined by the resolver");
#endif
#ifdef H_WIT_END
  H_WITNESS ("end");
#endif
}
