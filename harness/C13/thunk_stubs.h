/* Routes the CALLS `_MIR_get_thunk (ctx)` and `_MIR_redirect_thunk (ctx, thunk, to)` in MIR_load_module to harness
   stubs while leaving the declarations in mir.h and the real definitions in mir-x86_64.c (machine-code emitters)
   compilable under another name.  Declaration/definition and call have the same number of arguments, so the macro
   dispatches on the FIRST argument's spelling: `MIR_context_t ctx` (declaration) vs `ctx` (call) by token pasting. */
#ifndef C13_THUNK_STUBS_H
#define C13_THUNK_STUBS_H
struct MIR_context;
static void *h_get_thunk (struct MIR_context *ctx);
static void h_redirect_thunk (struct MIR_context *ctx, void *thunk, void *to);
#define _MIR_get_thunk(a) h_gsel_##a)
#define h_gsel_MIR_context_t h_orig_MIR_get_thunk (MIR_context_t
#define h_gsel_ctx h_get_thunk (ctx
#define _MIR_redirect_thunk(a, b, c) h_rsel_##a, b, c)
#define h_rsel_MIR_context_t h_orig_MIR_redirect_thunk (MIR_context_t
#define h_rsel_ctx h_redirect_thunk (ctx
#if H_CBMC
void __builtin___clear_cache (void *a, void *b) { (void) a; (void) b; } /* no body in CBMC's library */
#endif
#endif
